(* Parse, part 4: _walk_directories over the records of ONE directory of a mastered image.
     ps_fext_distinct   files with data at different positions lie at different extents
     ps_kid_step        the record of child j: new inode (files) / queued with the next directory number
                        (directories), appended to the children, cached position = Pack's
     ps_kids_fold       ... all children[2:]
     ps_dir_fold        ... '.', '..' and the children: exactly Parse.ps_spec_dir
   Everything is relative to a list X of positions whose records were created before; the keys of
   extent_to_inode are extents of files with data at positions of X. *)
From Coq Require Import ZArith List Bool Lia ZifyBool.
From PV.Base Require Import Prim ListX.
From PV.Gen Require Import GenConst GenFun.
From PV.Model Require Import Codec Pack PathTable Names Master Parse.
From PV.Proofs Require Import CodecProofs PackProofs PathTableLemmas PathTableProofs AccountLemmas.
From PV.Proofs Require Import MasterPack MasterImage MasterBfs MasterWf MasterDir MasterChecker.
From PV.Proofs Require Import ParseScan ParseTrack ParseRecord.
Import ListNotations.
Local Open Scope Z_scope.
Ltac Zify.zify_post_hook ::= Z.to_euclidean_division_equations.

(* one step of Parse.ps_spec_kids *)
Definition ps_spec_kid (dt : list Z) (DB FB : list dirrec) (p : list nat) (j : nat) (c : node)
           (eth oth : Z) (st : pstate) : pstate :=
  let rc := ms_kid_rec dt DB FB (p ++ [j]) c in
  let nm := Account.name_of c in
  let mk := fun ino dir => mk_prec rc (Account.dr_len_of nm) (zlen nm) (data_len rc) ino dir
                                   (Z.of_nat (2 + j)) eth oth in
  match c with
  | File _ len =>
      let i := length (s_inodes st) in
      let e := if len =? 0 then 0 else extent rc in
      mk_pstate (s_dirs st) (s_cur st ++ [mk (Some i) None]) (s_queue st)
                (s_inodes st ++ [(e, len)])
                (if len =? 0 then s_e2i st else s_e2i st ++ [(e, i)])
                (s_seen st) (s_level st) (Z.max (s_lastbyte st) (e * BS + len))
  | Dir _ dl _ =>
      let k := (length (s_dirs st) + 1 + length (s_queue st))%nat in
      mk_pstate (s_dirs st) (s_cur st ++ [mk None (Some k)]) (s_queue st ++ [(extent rc, dl)])
                (s_inodes st) (s_e2i st) (s_seen st) (s_level st) (s_lastbyte st)
  end.

Lemma ps_spec_kids_cons dt DB FB p j c r eth oth cr st :
  ps_spec_kids dt DB FB p j (c :: r) ((eth, oth) :: cr) st =
  ps_spec_kids dt DB FB p (S j) r cr (ps_spec_kid dt DB FB p j c eth oth st).
Proof. destruct c; reflexivity. Qed.

Lemma ps_nf_pos_cons n off x l :
  nf_pos BS n off (x :: l) =
  (ps_step_n n off x, ps_step_off off x) :: nf_pos BS (ps_step_n n off x) (ps_step_off off x) l.
Proof. cbn [nf_pos]. unfold ps_step_n, ps_step_off. destruct (off + x >? BS); reflexivity. Qed.

Lemma ps_assoc_none x l : (forall k v, In (k, v) l -> k <> x) -> ps_assoc x l = None.
Proof.
  induction l as [|[k v] l IH]; intros H; [reflexivity|]. cbn [ps_assoc].
  destruct (k =? x) eqn:E; [exfalso; apply (H k v); [left; reflexivity|lia]|].
  apply IH. intros k' v' Hin. apply (H k' v'). right. exact Hin.
Qed.

Lemma ps_sorted_nth l : ms_sorted l = true -> forall i j a b, (i < j)%nat ->
  nth_error l i = Some a -> nth_error l j = Some b -> Account.bytes_ltb a b = true.
Proof.
  induction l as [|x l IH]; intros Hs i j a b Hij Hi Hj; [destruct i; discriminate|].
  cbn [ms_sorted] in Hs. apply andb_prop in Hs. destruct Hs as [Hx Hl].
  destruct j as [|j]; [lia|]. cbn [nth_error] in Hj.
  destruct i as [|i]; cbn [nth_error] in Hi.
  - injection Hi as <-. clear Hij. revert b Hj. induction j as [|j IHj]; intros b Hj.
    + destruct l as [|y l']; [discriminate|]. cbn [nth_error] in Hj. injection Hj as <-. exact Hx.
    + destruct (nth_error l j) as [m|] eqn:Em.
      * apply (bytes_ltb_trans x m b); [apply IHj; reflexivity|].
        apply (IH Hl j (S j) m b); [lia|exact Em|exact Hj].
      * apply nth_error_None in Em. assert (nth_error l (S j) = None) by (apply nth_error_None; lia). congruence.
  - apply (IH Hl i j a b); [lia|exact Hi|exact Hj].
Qed.

Lemma ps_wf_sorted b nm dl kids : ms_wf_node b (Dir nm dl kids) = true ->
  ms_sorted (map Account.name_of kids) = true.
Proof.
  destruct b as [|f]; [discriminate|]. cbn [ms_wf_node]. intros H.
  repeat (apply andb_prop in H; destruct H as [H ?]). assumption.
Qed.

Lemma ps_names_node_at p : forall n c, ps_names_ok n = true -> ms_node_at n p = Some c ->
  ps_names_ok c = true.
Proof.
  induction p as [|i p IH]; intros n c Hn H; cbn [ms_node_at] in H; [injection H as <-; exact Hn|].
  destruct (nth_error (Account.kids_of n) i) as [k|] eqn:Ek; [|discriminate].
  destruct n as [nm len|nm dl kids]; cbn [Account.kids_of] in Ek; [destruct i; discriminate|].
  cbn [ps_names_ok] in Hn. apply andb_prop in Hn. destruct Hn as [_ Hk].
  rewrite forallb_forall in Hk. apply (IH k c); [apply Hk; eapply nth_error_In; exact Ek|exact H].
Qed.

Lemma ps_firstn_S {A} (l : list A) j c : nth_error l j = Some c -> firstn (S j) l = firstn j l ++ [c].
Proof.
  revert j; induction l as [|x l IH]; intros [|j] H; cbn [nth_error] in H; try discriminate.
  - injection H as <-. reflexivity.
  - rewrite !firstn_cons. cbn [app]. f_equal. apply IH. exact H.
Qed.

Lemma ps_skipn_cons {A} (l : list A) j c r : skipn j l = c :: r ->
  nth_error l j = Some c /\ skipn (S j) l = r.
Proof.
  revert j; induction l as [|x l IH]; intros [|j] H; cbn [skipn] in H; try discriminate.
  - injection H as <- <-. split; reflexivity.
  - cbn [nth_error]. apply IH. exact H.
Qed.

Section Dir.
  Variable dt : list Z.
  Hypothesis Hdt : length dt = 7%nat.
  Variable t : node.
  Hypothesis Hwf : wf_tree t = true.
  Hypothesis Hnm : forallb ps_names_ok (Account.kids_of t) = true.
  Variable ptr : list Z.
  Hypothesis Hptr : forall p, ms_is_dir_at t p = true -> ps_mem (ms_ext_at (ms_DB t) p) ptr = true.
  Variable isz : Z.
  Hypothesis Hisz : ms_layout_end t * BS <= isz.

  Local Notation DB := (ms_DB t).
  Local Notation FB := (ms_FB t).

  (* ---- names ------------------------------------------------------------------------------------- *)

  Lemma ps_names_at p j c : ms_node_at t (p ++ [j]) = Some c -> ps_names_ok c = true.
  Proof.
    intros H. destruct p as [|i p]; cbn [app ms_node_at] in H.
    - destruct (nth_error (Account.kids_of t) j) as [k|] eqn:Ek; [|discriminate].
      rewrite forallb_forall in Hnm. cbn [ms_node_at] in H. injection H as <-.
      apply Hnm. eapply nth_error_In. exact Ek.
    - destruct (nth_error (Account.kids_of t) i) as [k|] eqn:Ek; [|discriminate].
      rewrite forallb_forall in Hnm.
      apply (ps_names_node_at (p ++ [j]) k c); [apply Hnm; eapply nth_error_In; exact Ek|exact H].
  Qed.

  Lemma ps_kid_plain p j c : ms_node_at t (p ++ [j]) = Some c -> ps_plain (Account.name_of c).
  Proof.
    intros H. pose proof (ps_names_at p j c H) as Hn. destruct c as [nm len|nm dl kids];
      cbn [ps_names_ok Account.name_of] in *.
    - apply ps_file_name_plain. destruct (check_iso9660_filename nm 3); try discriminate. reflexivity.
    - apply ps_dir_name_plain. apply andb_prop in Hn. destruct Hn as [Hn _].
      destruct (check_iso9660_directory nm 3); try discriminate. reflexivity.
  Qed.

  (* ---- file extents -------------------------------------------------------------------------------- *)

  Lemma ps_file_rec q nm len : ms_node_at t q = Some (File nm len) ->
    0 <= len /\
    exists r, In r FB /\ d_pos r = q /\ ms_ext_at FB q = d_extent r /\ d_blocks r = ceiling_div len BS.
  Proof.
    intros H. destruct (ms_wf_at t Hwf q _ H) as [b Hb].
    destruct b as [|f]; [discriminate|]. cbn [ms_wf_node] in Hb.
    repeat (apply andb_prop in Hb; destruct Hb as [Hb ?]).
    split; [lia|].
    destruct (ms_ext_at_spec (ms_dir_end t) (ms_ftree t) q (ms_ftree (File nm len)))
      as (r & Hr & Hp & He & _ & Hbk).
    { rewrite ms_subtree_ftree, H. reflexivity. }
    exists r. repeat split; assumption.
  Qed.

  Lemma ps_fext_distinct q1 q2 n1 l1 n2 l2 : q1 <> q2 ->
    ms_node_at t q1 = Some (File n1 l1) -> ms_node_at t q2 = Some (File n2 l2) ->
    l1 <> 0 -> l2 <> 0 -> ms_ext_at FB q1 <> ms_ext_at FB q2.
  Proof.
    intros Hne H1 H2 Hl1 Hl2.
    destruct (ps_file_rec q1 n1 l1 H1) as (P1 & r1 & R1 & D1 & E1 & B1).
    destruct (ps_file_rec q2 n2 l2 H2) as (P2 & r2 & R2 & D2 & E2 & B2).
    destruct (ms_wf_root t Hwf) as (_ & _ & _ & Hw & _).
    destruct (ms_wf_blocks_ok 8 t Hw) as [_ Hf].
    assert (Hd : d_pos r1 <> d_pos r2) by congruence.
    pose proof (ms_bfs_disjoint _ _ r1 r2 Hf R1 R2 Hd) as Hdis.
    rewrite E1, E2. unfold ceiling_div in B1, B2. rewrite ms_BS in *. lia.
  Qed.

  Lemma ps_file_end q nm len : ms_node_at t q = Some (File nm len) ->
    0 <= ms_ext_at FB q /\ ms_ext_at FB q * BS + len <= isz.
  Proof.
    intros H. destruct (ps_file_rec q nm len H) as (P & r & R & D & E & B).
    destruct (ms_wf_root t Hwf) as (_ & _ & _ & Hw & _).
    destruct (ms_wf_blocks_ok 8 t Hw) as [_ Hf].
    pose proof (ms_bfs_bounds _ _ r Hf R) as Bd. fold (ms_layout_end t) in Bd.
    pose proof (ms_first_nonneg t). pose proof (ms_dir_end_le t Hwf).
    rewrite E. unfold ceiling_div in B. rewrite ms_BS in *. lia.
  Qed.

  (* ---- the keys of extent_to_inode ------------------------------------------------------------------ *)

  Definition ps_e2i_ok (st : pstate) (X : list (list nat)) : Prop :=
    forall e i, In (e, i) (s_e2i st) ->
    exists q nm len, In q X /\ ms_node_at t q = Some (File nm len) /\ len <> 0 /\ e = ms_ext_at FB q.

  Lemma ps_e2i_ok_incl st X X' : incl X X' -> ps_e2i_ok st X -> ps_e2i_ok st X'.
  Proof.
    intros Hi H e i Hin. destruct (H e i Hin) as (q & nm & len & Hq & R). exists q, nm, len.
    split; [apply Hi; exact Hq|exact R].
  Qed.

  (* ---- one child ------------------------------------------------------------------------------------- *)

  Definition ps_idents (cur : list prec) : list (list Z) := map (fun a => Codec.ident (p_rec a)) cur.

  Lemma ps_kid_step p nm dl kids j c st last n off X :
    ms_node_at t p = Some (Dir nm dl kids) -> nth_error kids j = Some c ->
    ps_last_cache (s_cur st) = (n, off) -> length (s_cur st) = (2 + j)%nat ->
    ps_idents (s_cur st) = [0] :: [1] :: map Account.name_of (firstn j kids) ->
    ps_e2i_ok st X -> ~ In (p ++ [j]) X -> s_level st = 3 ->
    let x := Account.dr_len_of (Account.name_of c) in
    let st' := ps_spec_kid dt DB FB p j c (ps_step_n n off x) (ps_step_off off x) st in
    ps_record ptr isz (st, last) (ms_enc (ms_kid_rec dt DB FB (p ++ [j]) c)) =
      POk (st', Some (Account.name_of c)) /\
    ps_e2i_ok st' (X ++ [p ++ [j]]).
  Proof.
    intros Hp Hj Hlast Hlen Hid HE HX Hlv x st'.
    assert (Hc : ms_node_at t (p ++ [j]) = Some c) by (rewrite (ms_node_at_snoc p j t _ Hp); exact Hj).
    destruct (ms_wf_at t Hwf p _ Hp) as [bb Hb].
    pose proof (ms_wf_kid _ _ _ _ _ _ Hb Hj) as Hk.
    pose proof (ps_kid_plain p j c Hc) as Hplain.
    pose proof (ps_wf_sorted _ _ _ _ Hb) as Hsorted.
    (* every child present sorts before the new one *)
    assert (Hlt : forall a, In a (s_cur st) ->
              ps_lt (Codec.ident (p_rec a)) (Account.name_of c) = true).
    { intros a Ha. apply (in_map (fun a => Codec.ident (p_rec a))) in Ha. fold (ps_idents (s_cur st)) in Ha.
      rewrite Hid in Ha. destruct Ha as [<-|[<-|Ha]].
      - apply ps_lt_dot. exact (proj1 Hplain).
      - apply ps_lt_dotdot. exact (proj1 Hplain).
      - apply in_map_iff in Ha. destruct Ha as (k & <- & Hkin). apply In_nth_error in Hkin.
        destruct Hkin as [i Hi].
        assert (Hij : (i < j)%nat).
        { assert (i < length (firstn j kids))%nat by (apply nth_error_Some; congruence).
          rewrite firstn_length in H. lia. }
        assert (Hi' : nth_error kids i = Some k).
        { rewrite <- Hi. rewrite <- (firstn_skipn j kids) at 1.
          apply nth_error_app1. apply nth_error_Some. congruence. }
        assert (Hki : ms_node_at t (p ++ [i]) = Some k) by (rewrite (ms_node_at_snoc p i t _ Hp); exact Hi').
        rewrite (ps_lt_plain _ _ (ps_kid_plain p i k Hki) Hplain).
        apply (ps_sorted_nth _ Hsorted i j); [exact Hij| |]; rewrite nth_error_map.
        + rewrite Hi'. reflexivity.
        + rewrite Hj. reflexivity. }
    destruct c as [cn len|cn cdl ckids]; cbn [Account.name_of] in *; destruct Hk as [Hnok Hrange].
    - (* a file *)
      pose proof (ms_fext_range t Hwf _ cn len Hc ltac:(lia)) as Hext.
      unfold Account.max_len in Hrange.
      destruct (ps_enc_facts dt (ms_fext FB (p ++ [j]) len) len 0 cn Hdt Hext ltac:(lia) ltac:(lia)
                  (ms_name_ok_spec _ Hnok)) as (Hparse & H0 & H32 & _ & _).
      pose proof (ps_names_at p j _ Hc) as Hn. cbn [ps_names_ok] in Hn.
      destruct (ps_level_file_ok cn) as (lv & Hlv1 & Hlv2).
      { destruct (check_iso9660_filename cn 3); try discriminate. reflexivity. }
      destruct (ps_file_end _ cn len Hc) as [He0 Hend].
      assert (Hfresh : len = 0 \/ ps_assoc (ms_fext FB (p ++ [j]) len) (s_e2i st) = None).
      { destruct (Z.eq_dec len 0) as [E0|E0]; [left; exact E0|right].
        unfold ms_fext. replace (len =? 0) with false by lia.
        apply ps_assoc_none. intros k v Hin ->.
        destruct (HE _ _ Hin) as (q & qn & ql & Hq & Hqn & Hql & Heq).
        apply (ps_fext_distinct (p ++ [j]) q cn len qn ql); try assumption.
        intros <-. exact (HX Hq). }
      split.
      + cbn [ms_kid_rec].
        rewrite (ps_record_file ptr isz st last _ _ lv Hparse eq_refl eq_refl Hplain Hfresh); cycle 1.
        * cbn [ms_rec data_len extent]. unfold ms_fext. destruct (len =? 0) eqn:E0; [rewrite ms_BS in *; lia|exact Hend].
        * exact Hlt.
        * exact Hlv1.
        * rewrite Hlv. exact Hlv2.
        * unfold st', ps_spec_kid. cbn [ms_kid_rec Account.name_of]. rewrite H0, H32, Hlast, Hlen.
          cbn [ms_rec data_len extent Codec.ident fst snd]. reflexivity.
      + unfold st', ps_spec_kid. cbn [ms_kid_rec]. intros e i Hin. cbn [s_e2i] in Hin.
        destruct (len =? 0) eqn:E0.
        * destruct (HE e i Hin) as (q & qn & ql & Hq & R). exists q, qn, ql.
          split; [apply in_or_app; left; exact Hq|exact R].
        * apply in_app_or in Hin. destruct Hin as [Hin|[Hin|[]]].
          -- destruct (HE e i Hin) as (q & qn & ql & Hq & R). exists q, qn, ql.
             split; [apply in_or_app; left; exact Hq|exact R].
          -- injection Hin as <- _. exists (p ++ [j]), cn, len.
             split; [apply in_or_app; right; left; reflexivity|].
             split; [exact Hc|]. split; [lia|].
             cbn [ms_rec extent]. unfold ms_fext. rewrite E0. reflexivity.
    - (* a directory *)
      pose proof (ms_dext_range t Hwf _ cn cdl ckids Hc) as (_ & _ & Hext).
      rewrite ms_BS in Hrange.
      destruct (ps_enc_facts dt (ms_ext_at DB (p ++ [j])) cdl 2 cn Hdt Hext ltac:(lia) ltac:(lia)
                  (ms_name_ok_spec _ Hnok)) as (Hparse & H0 & H32 & _ & _).
      assert (Hdots : ps_is_dot (ms_rec dt (ms_ext_at DB (p ++ [j])) cdl 2 cn)
                      || ps_is_dotdot (ms_rec dt (ms_ext_at DB (p ++ [j])) cdl 2 cn) = false).
      { unfold ps_is_dot, ps_is_dotdot. cbn [ms_rec Codec.ident].
        rewrite (ps_zlist_eqb_false _ _ (proj1 Hplain)), (ps_zlist_eqb_false _ _ (proj2 Hplain)). reflexivity. }
      split.
      + cbn [ms_kid_rec].
        rewrite (ps_record_dir ptr isz st last _ _ Hparse eq_refl eq_refl); cycle 1.
        * intros _. cbn [ms_rec extent]. apply Hptr. unfold ms_is_dir_at. rewrite Hc. reflexivity.
        * exact Hlt.
        * rewrite Hdots. cbn [negb]. cbv iota.
          unfold st', ps_spec_kid. cbn [ms_kid_rec Account.name_of]. rewrite H0, H32, Hlast, Hlen, Hlv.
          unfold ps_printable. apply orb_false_elim in Hdots. destruct Hdots as [-> ->].
          rewrite ps_level_dir_13.
          cbn [ms_rec data_len extent Codec.ident fst snd]. reflexivity.
      + unfold st', ps_spec_kid. intros e i Hin. cbn [s_e2i] in Hin.
        destruct (HE e i Hin) as (q & qn & ql & Hq & R). exists q, qn, ql.
        split; [apply in_or_app; left; exact Hq|exact R].
  Qed.

  (* what a step leaves for the next one *)
  Lemma ps_spec_kid_shape p j c eth oth st :
    ps_last_cache (s_cur (ps_spec_kid dt DB FB p j c eth oth st)) = (eth, oth) /\
    length (s_cur (ps_spec_kid dt DB FB p j c eth oth st)) = S (length (s_cur st)) /\
    ps_idents (s_cur (ps_spec_kid dt DB FB p j c eth oth st)) = ps_idents (s_cur st) ++ [Account.name_of c] /\
    s_level (ps_spec_kid dt DB FB p j c eth oth st) = s_level st.
  Proof.
    unfold ps_spec_kid, ps_idents. destruct c as [cn len|cn cdl ckids]; cbn [s_cur s_level];
      rewrite ps_last_cache_snoc, app_length, map_app; cbn [length map p_eth p_oth p_rec ms_kid_rec ms_rec Codec.ident Account.name_of];
      (split; [reflexivity|]); (split; [lia|]); split; reflexivity.
  Qed.

  (* ---- all children ---------------------------------------------------------------------------------- *)

  Definition ps_kid_positions (p : list nat) (j0 n : nat) : list (list nat) :=
    map (fun j => p ++ [j]) (seq j0 n).

  Lemma ps_kids_fold p nm dl kids : ms_node_at t p = Some (Dir nm dl kids) ->
    forall kids' j0 st last n off X,
    skipn j0 kids = kids' ->
    ps_last_cache (s_cur st) = (n, off) -> length (s_cur st) = (2 + j0)%nat ->
    ps_idents (s_cur st) = [0] :: [1] :: map Account.name_of (firstn j0 kids) ->
    ps_e2i_ok st X -> (forall j, (j0 <= j < length kids)%nat -> ~ In (p ++ [j]) X) -> s_level st = 3 ->
    let st' := ps_spec_kids dt DB FB p j0 kids'
                 (nf_pos BS n off (map Account.dr_len_of (map Account.name_of kids'))) st in
    (exists last', ps_fold (ps_record ptr isz) (st, last) (map ms_enc (ms_kid_recs dt DB FB p j0 kids'))
                   = POk (st', last')) /\
    ps_e2i_ok st' (X ++ ps_kid_positions p j0 (length kids')).
  Proof.
    intros Hp. induction kids' as [|c r IH]; intros j0 st last n off X Hsk Hlast Hlen Hid HE HX Hlv st'.
    - unfold st'. cbn [ps_spec_kids ms_kid_recs map ps_fold length ps_kid_positions seq]. rewrite app_nil_r.
      split; [exists last; reflexivity|exact HE].
    - destruct (ps_skipn_cons _ _ _ _ Hsk) as [Hj Hsk'].
      assert (Hj0 : (j0 <= j0 < length kids)%nat) by (split; [lia|apply nth_error_Some; congruence]).
      destruct (ps_kid_step p nm dl kids j0 c st last n off X Hp Hj Hlast Hlen Hid HE (HX j0 Hj0) Hlv)
        as [Hstep HE1].
      set (x := Account.dr_len_of (Account.name_of c)) in *.
      set (st1 := ps_spec_kid dt DB FB p j0 c (ps_step_n n off x) (ps_step_off off x) st) in *.
      destruct (ps_spec_kid_shape p j0 c (ps_step_n n off x) (ps_step_off off x) st)
        as (S1 & S2 & S3 & S4). fold st1 in S1, S2, S3, S4.
      destruct (IH (S j0) st1 (Some (Account.name_of c)) (ps_step_n n off x) (ps_step_off off x)
                   (X ++ [p ++ [j0]]) Hsk' S1) as [[last' Hfold] HE2].
      + rewrite S2, Hlen. reflexivity.
      + rewrite S3, Hid, (ps_firstn_S kids j0 c Hj), map_app. reflexivity.
      + exact HE1.
      + intros j Hj1 Hin. apply in_app_or in Hin. destruct Hin as [Hin|[Hin|[]]]; [apply (HX j); [lia|exact Hin]|].
        apply app_inv_head in Hin. injection Hin as Hin. lia.
      + rewrite S4. exact Hlv.
      + unfold st'. cbn [map ms_kid_recs ps_fold]. rewrite Hstep.
        fold x. rewrite ps_nf_pos_cons, ps_spec_kids_cons. fold st1.
        split; [exists last'; exact Hfold|].
        cbn [length]. replace (X ++ ps_kid_positions p j0 (S (length r)))
          with ((X ++ [p ++ [j0]]) ++ ps_kid_positions p (S j0) (length r)); [exact HE2|].
        unfold ps_kid_positions. cbn [seq map]. rewrite <- app_assoc. reflexivity.
  Qed.
End Dir.

Print Assumptions ps_kids_fold.
