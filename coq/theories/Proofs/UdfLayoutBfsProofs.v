(* C10 -- Model/UdfLayout.v: the deque loop of _udf_assign_extents (ul_bfs).  What the list of popped
   directories looks like: the queue items come out first and in order; every directory child of a
   popped directory is popped at the position its parent recorded (dr_kid0 + index), with the parent's
   File Entry extent as its parent extent; File Entry extents form a chain; counts. *)
From Coq Require Import ZArith List Bool Lia Arith.
From PV.Base Require Import Prim.
From PV.Gen Require Import GenFun.
From PV.Model Require Import Fid UdfDir UdfLayout.
Import ListNotations.
Local Open Scope Z_scope.

(* ---- induction over the nested tree ---- *)
Section UtreeInd.
  Variable P : utree -> Prop.
  Hypothesis Hf : forall n l i, P (UFile n l i).
  Hypothesis Hd : forall n cs, Forall P cs -> P (UDir n cs).
  Fixpoint ul_utree_ind (t : utree) : P t :=
    match t with
    | UFile n l i => Hf n l i
    | UDir n cs =>
        Hd n cs ((fix go (l : list utree) : Forall P l :=
                    match l with
                    | [] => Forall_nil _
                    | c :: r => Forall_cons _ (ul_utree_ind c) (go r)
                    end) cs)
    end.
End UtreeInd.

(* ---- counts ---- *)
Fixpoint ul_nsum (l : list nat) : nat := match l with [] => 0%nat | x :: r => (x + ul_nsum r)%nat end.
Definition ul_ndirs (cs : list utree) : nat := ul_nsum (map ul_count_dirs cs).
Definition ul_nfiles (cs : list utree) : nat := ul_nsum (map ul_count_files cs).

Lemma ul_count_dirs_dir n cs : ul_count_dirs (UDir n cs) = S (ul_ndirs cs).
Proof.
  cbn [ul_count_dirs]. f_equal. unfold ul_ndirs.
  induction cs as [|c r IH]; [reflexivity|]. cbn [map ul_nsum]. rewrite IH. reflexivity.
Qed.
Lemma ul_count_files_dir n cs : ul_count_files (UDir n cs) = ul_nfiles cs.
Proof.
  cbn [ul_count_files]. unfold ul_nfiles.
  induction cs as [|c r IH]; [reflexivity|]. cbn [map ul_nsum]. rewrite IH. reflexivity.
Qed.

Definition ul_qdirs (x : qitem) : nat := S (ul_ndirs (snd x)).
Definition ul_forest (q : list qitem) : nat := ul_nsum (map ul_qdirs q).
Definition ul_qfiles (x : qitem) : nat := ul_nfiles (snd x).
Definition ul_forest_files (q : list qitem) : nat := ul_nsum (map ul_qfiles q).

Lemma ul_nsum_app a b : ul_nsum (a ++ b) = (ul_nsum a + ul_nsum b)%nat.
Proof. induction a as [|x a IH]; cbn [app ul_nsum]; [reflexivity|]. rewrite IH. lia. Qed.
Lemma ul_forest_app a b : ul_forest (a ++ b) = (ul_forest a + ul_forest b)%nat.
Proof. unfold ul_forest. rewrite map_app. apply ul_nsum_app. Qed.
Lemma ul_forest_files_app a b : ul_forest_files (a ++ b) = (ul_forest_files a + ul_forest_files b)%nat.
Proof. unfold ul_forest_files. rewrite map_app. apply ul_nsum_app. Qed.

Lemma ul_forest_kids p fe cs : ul_forest (ul_dir_kids p fe cs) = ul_ndirs cs.
Proof.
  unfold ul_dir_kids, ul_ndirs. induction cs as [|c r IH]; [reflexivity|].
  cbn [flat_map map ul_nsum]. rewrite ul_forest_app, IH. destruct c as [n l i|n cs'].
  - reflexivity.
  - rewrite ul_count_dirs_dir. unfold ul_forest, ul_qdirs. cbn [map ul_nsum snd]. lia.
Qed.

(* files below a directory = its own file names + the files below its directory children *)
Lemma ul_files_split p fe cs :
  ul_nfiles cs = (length (ul_file_kids cs) + ul_forest_files (ul_dir_kids p fe cs))%nat.
Proof.
  unfold ul_nfiles, ul_file_kids, ul_dir_kids. induction cs as [|c r IH]; [reflexivity|].
  cbn [flat_map map ul_nsum]. rewrite app_length, ul_forest_files_app, IH. destruct c as [n l i|n cs'].
  - cbn [ul_count_files length]. unfold ul_forest_files. cbn [map ul_nsum]. lia.
  - rewrite ul_count_files_dir. unfold ul_forest_files, ul_qfiles. cbn [map ul_nsum snd length]. lia.
Qed.

(* ---- directory children ---- *)
Definition ul_dir_children (cs : list utree) : list (uname * list utree) :=
  flat_map (fun c => match c with UDir n cs' => [(n, cs')] | UFile _ _ _ => [] end) cs.

Lemma ul_dir_kids_map p fe cs :
  ul_dir_kids p fe cs = map (fun x => (p ++ [fst x], fe, snd x)) (ul_dir_children cs).
Proof.
  unfold ul_dir_kids, ul_dir_children. induction cs as [|c r IH]; [reflexivity|].
  cbn [flat_map]. rewrite map_app, IH. destruct c; reflexivity.
Qed.

(* ---- the chain of File Entry extents ---- *)
Fixpoint ul_chain_end (cur : Z) (rs : list dirrec) : Z :=
  match rs with
  | [] => cur
  | r :: rs' => ul_chain_end (cur + 1 + ul_dir_blocks (dr_node r)) rs'
  end.
Fixpoint ul_chain (cur : Z) (rs : list dirrec) : Prop :=
  match rs with
  | [] => True
  | r :: rs' => dr_fe r = cur /\ ul_chain (cur + 1 + ul_dir_blocks (dr_node r)) rs'
  end.

Lemma ul_bfs_chain fuel : forall k cur q,
  ul_chain cur (fst (ul_bfs fuel k cur q)) /\ snd (ul_bfs fuel k cur q) = ul_chain_end cur (fst (ul_bfs fuel k cur q)).
Proof.
  induction fuel as [|f IH]; intros k cur q; [split; reflexivity|].
  destruct q as [|[[p pf] cs] rest]; [split; reflexivity|]. cbn [ul_bfs].
  specialize (IH (S k) (cur + 1 + ul_dir_blocks cs) (rest ++ ul_dir_kids p cur cs)).
  destruct (ul_bfs f (S k) (cur + 1 + ul_dir_blocks cs) (rest ++ ul_dir_kids p cur cs)) as [rs e].
  cbn [fst snd ul_chain ul_chain_end dr_fe dr_node] in *. destruct IH as [I1 I2]. auto.
Qed.

(* ---- the popped list ---- *)
Lemma ul_bfs_length fuel : forall k cur q, (ul_forest q <= fuel)%nat ->
  length (fst (ul_bfs fuel k cur q)) = ul_forest q.
Proof.
  induction fuel as [|f IH]; intros k cur q Hf.
  - destruct q as [|x r]; [reflexivity|]. unfold ul_forest, ul_qdirs in Hf. cbn [map ul_nsum] in Hf. lia.
  - destruct q as [|[[p pf] cs] rest]; [reflexivity|]. cbn [ul_bfs].
    assert (E : ul_forest (((p, pf, cs) : qitem) :: rest) = S (ul_forest (rest ++ ul_dir_kids p cur cs))).
    { rewrite ul_forest_app, ul_forest_kids. unfold ul_forest, ul_qdirs. cbn [map ul_nsum snd]. lia. }
    assert (Hle : (ul_forest (rest ++ ul_dir_kids p cur cs) <= f)%nat) by lia.
    specialize (IH (S k) (cur + 1 + ul_dir_blocks cs) (rest ++ ul_dir_kids p cur cs) Hle).
    destruct (ul_bfs f (S k) (cur + 1 + ul_dir_blocks cs) (rest ++ ul_dir_kids p cur cs)) as [rs e].
    cbn [fst length] in *. lia.
Qed.

Lemma ul_bfs_files fuel : forall k cur q, (ul_forest q <= fuel)%nat ->
  length (flat_map (fun r => ul_file_kids (dr_node r)) (fst (ul_bfs fuel k cur q))) = ul_forest_files q.
Proof.
  induction fuel as [|f IH]; intros k cur q Hf.
  - destruct q as [|x r]; [reflexivity|]. unfold ul_forest, ul_qdirs in Hf. cbn [map ul_nsum] in Hf. lia.
  - destruct q as [|[[p pf] cs] rest]; [reflexivity|]. cbn [ul_bfs].
    assert (E : ul_forest (((p, pf, cs) : qitem) :: rest) = S (ul_forest (rest ++ ul_dir_kids p cur cs))).
    { rewrite ul_forest_app, ul_forest_kids. unfold ul_forest, ul_qdirs. cbn [map ul_nsum snd]. lia. }
    assert (Hle : (ul_forest (rest ++ ul_dir_kids p cur cs) <= f)%nat) by lia.
    specialize (IH (S k) (cur + 1 + ul_dir_blocks cs) (rest ++ ul_dir_kids p cur cs) Hle).
    destruct (ul_bfs f (S k) (cur + 1 + ul_dir_blocks cs) (rest ++ ul_dir_kids p cur cs)) as [rs e].
    cbn [fst flat_map dr_node] in *. rewrite app_length, IH, ul_forest_files_app.
    change (ul_forest_files (((p, pf, cs) : qitem) :: rest)) with (ul_nfiles cs + ul_forest_files rest)%nat.
    rewrite (ul_files_split p cur cs). lia.
Qed.

(* a property of the children lists that is inherited by directory children reaches every popped one *)
Lemma ul_bfs_forall (P : list utree -> Prop) :
  (forall cs n cs', P cs -> In (UDir n cs') cs -> P cs') ->
  forall fuel k cur q, Forall (fun x => P (snd x)) q -> Forall (fun r => P (dr_node r)) (fst (ul_bfs fuel k cur q)).
Proof.
  intros Hh. induction fuel as [|f IH]; intros k cur q Hq; [constructor|].
  destruct q as [|[[p pf] cs] rest]; [constructor|]. cbn [ul_bfs].
  inversion Hq as [|? ? Hx Hr]; subst. cbn [snd] in Hx.
  set (q' := @app qitem rest (ul_dir_kids p cur cs)).
  assert (Hk : Forall (fun x : qitem => P (snd x)) q').
  { subst q'. apply Forall_app. split; [exact Hr|]. unfold ul_dir_kids. apply Forall_forall. intros x Hin.
    apply in_flat_map in Hin. destruct Hin as (c & Hc & Hin). destruct c as [n l i|n cs']; [destruct Hin|].
    destruct Hin as [<-|[]]. cbn [snd]. exact (Hh cs n cs' Hx Hc). }
  specialize (IH (S k) (cur + 1 + ul_dir_blocks cs) q' Hk).
  destruct (ul_bfs f (S k) (cur + 1 + ul_dir_blocks cs) q') as [rs e].
  cbn [fst] in *. constructor; [exact Hx|exact IH].
Qed.

(* the link structure; positions are relative to the list returned (absolute position - k) *)
Definition ul_is_rec (r : dirrec) (p : upath) (pf : Z) (cs : list utree) : Prop :=
  dr_path r = p /\ dr_parent_fe r = pf /\ dr_node r = cs.

Definition ul_linked (k : nat) (rs : list dirrec) : Prop :=
  forall i r, nth_error rs i = Some r ->
    (k + i < dr_kid0 r)%nat /\
    forall j n cs', nth_error (ul_dir_children (dr_node r)) j = Some (n, cs') ->
      exists r', nth_error rs (dr_kid0 r - k + j) = Some r' /\ ul_is_rec r' (dr_path r ++ [n]) (dr_fe r) cs'.

Lemma ul_bfs_linked fuel : forall k cur q, (ul_forest q <= fuel)%nat ->
  let rs := fst (ul_bfs fuel k cur q) in
  (forall j p pf cs, nth_error q j = Some (p, pf, cs) ->
     exists r, nth_error rs j = Some r /\ ul_is_rec r p pf cs) /\
  ul_linked k rs.
Proof.
  induction fuel as [|f IH]; intros k cur q Hf; cbv zeta.
  - destruct q as [|x r]; [|unfold ul_forest, ul_qdirs in Hf; cbn [map ul_nsum] in Hf; lia].
    split; [intros [|j] p pf cs H; discriminate|]. intros [|i] r H; discriminate.
  - destruct q as [|[[p pf] cs] rest].
    { split; [intros [|j] p pf cs H; discriminate|]. intros [|i] r H; discriminate. }
    cbn [ul_bfs].
    assert (E : ul_forest (((p, pf, cs) : qitem) :: rest) = S (ul_forest (rest ++ ul_dir_kids p cur cs))).
    { rewrite ul_forest_app, ul_forest_kids. unfold ul_forest, ul_qdirs. cbn [map ul_nsum snd]. lia. }
    assert (Hle : (ul_forest (rest ++ ul_dir_kids p cur cs) <= f)%nat) by lia.
    specialize (IH (S k) (cur + 1 + ul_dir_blocks cs) (rest ++ ul_dir_kids p cur cs) Hle).
    destruct (ul_bfs f (S k) (cur + 1 + ul_dir_blocks cs) (rest ++ ul_dir_kids p cur cs)) as [rs e].
    cbn [fst] in *. cbv zeta in IH. destruct IH as [I1 I2]. split.
    + intros [|j] p' pf' cs' H.
      * cbn [nth_error] in H. inversion H; subst. eexists. split; [reflexivity|]. repeat split.
      * cbn [nth_error] in H |- *. apply (I1 j). rewrite nth_error_app1; [exact H|].
        apply nth_error_Some. rewrite H. discriminate.
    + intros [|i] r H.
      * cbn [nth_error] in H. inversion H; subst r. cbn [dr_kid0 dr_node dr_path dr_fe length]. split; [lia|].
        intros j n cs' Hj.
        destruct (I1 (length rest + j)%nat (p ++ [n]) cur cs') as (r' & Hr' & Hrec).
        { rewrite nth_error_app2 by lia. replace (length rest + j - length rest)%nat with j by lia.
          rewrite ul_dir_kids_map, nth_error_map, Hj. reflexivity. }
        exists r'. split; [|exact Hrec].
        replace (k + S (length rest) - k + j)%nat with (S (length rest + j)) by lia. exact Hr'.
      * cbn [nth_error] in H. destruct (I2 i r H) as [Hlt Hk]. split; [lia|].
        intros j n cs' Hj. destruct (Hk j n cs' Hj) as (r' & Hr' & Hrec). exists r'. split; [|exact Hrec].
        replace (dr_kid0 r - k + j)%nat with (S (dr_kid0 r - S k + j)) by lia. exact Hr'.
Qed.

Print Assumptions ul_bfs_linked.
Print Assumptions ul_bfs_length.
Print Assumptions ul_bfs_files.
Print Assumptions ul_bfs_forall.
Print Assumptions ul_bfs_chain.
