(* Lemmas for Proofs/AccountLinksProofs.v, part 2: rm_file's removal of every record of one inode
   (Model/AccountLinks.v victim / purge_dir / purge_node / purge_bytes). *)
From Coq Require Import ZArith List Bool Lia ZifyBool Sorted Arith.
From PV.Base Require Import Prim.
From PV.Gen Require Import GenConst GenFun.
From PV.Model Require Import Names Pack Alloc Account AccountLinks.
From PV.Proofs Require Import PackProofs AllocProofs AccountLemmas AccountLinksLemmas.
Import ListNotations.
Local Open Scope Z_scope.
Ltac Zify.zify_post_hook ::= Z.to_euclidean_division_equations.

Lemma grow_cases_l (b : bool) : (if b then C else 0) = 0 \/ (if b then C else 0) = 2048.
Proof. destruct b; [right|left]; reflexivity. Qed.

Definition notref (i : nat) (c : lnode) : bool := negb (is_ref i c).

(* ---- 1. the next record to go ------------------------------------------------------------- *)

Lemma victim_some i : forall kids k st, victim i kids = Some (k, st) ->
  exists nm, nth_error kids k = Some (LFile nm i st).
Proof.
  induction kids as [|c r IH]; intros k st H; cbn [victim] in H; [discriminate|].
  destruct (victim i r) as [[k0 st0]|] eqn:V; destruct (is_ref i c) eqn:R.
  - destruct (st0 <? stamp_of c)%nat.
    + inversion H; subst. apply (IH k0 st eq_refl).
    + inversion H; subst. apply is_ref_spec in R. destruct R as (nm & st' & ->).
      exists nm. reflexivity.
  - inversion H; subst. apply (IH k0 st eq_refl).
  - inversion H; subst. apply is_ref_spec in R. destruct R as (nm & st' & ->).
    exists nm. reflexivity.
  - discriminate.
Qed.

Lemma victim_none i : forall kids, victim i kids = None -> Forall (fun c => notref i c = true) kids.
Proof.
  induction kids as [|c r IH]; intros H; cbn [victim] in H; [constructor|].
  destruct (victim i r) as [[k0 st0]|] eqn:V; destruct (is_ref i c) eqn:R;
    try discriminate; try (destruct (st0 <? stamp_of c)%nat; discriminate).
  constructor; [unfold notref; rewrite R; reflexivity|apply IH; reflexivity].
Qed.

Lemma filter_all {A} (P : A -> bool) l : Forall (fun c => P c = true) l -> filter P l = l.
Proof. induction 1 as [|c r Hc Hr IH]; cbn [filter]; [reflexivity|]. rewrite Hc, IH. reflexivity. Qed.

Lemma Forall_filter {A} (Q : A -> Prop) (f : A -> bool) l : Forall Q l -> Forall Q (filter f l).
Proof.
  rewrite !Forall_forall. intros H x Hx. apply filter_In in Hx. apply H, Hx.
Qed.

(* ---- 2. one directory ----------------------------------------------------------------------- *)

(* the records of inode i are removed, nothing else, and the order of the others is kept *)
Lemma purge_dir_kids i : forall fuel dl kids b, (length kids <= fuel)%nat ->
  pd_kids (purge_dir fuel i dl kids b) = filter (notref i) kids.
Proof.
  induction fuel as [|f IH]; intros dl kids b Hl.
  - destruct kids; [reflexivity|cbn [length] in Hl; lia].
  - cbn [purge_dir]. destruct (victim i kids) as [[k st]|] eqn:V.
    + destruct (victim_some i kids k st V) as (nm & Hk). cbv zeta.
      destruct (nth_error_decomp kids k _ Hk) as (l1 & l2 & -> & _ & _ & Hr).
      rewrite IH.
      * rewrite Hr, !filter_app. cbn [filter].
        replace (notref i (LFile nm i st)) with false; [reflexivity|].
        unfold notref. cbn [is_ref]. rewrite Nat.eqb_refl. reflexivity.
      * rewrite Hr. rewrite app_length in *. cbn [length] in Hl. lia.
    + cbn [pd_kids fst snd]. symmetry. apply filter_all, victim_none, V.
Qed.

(* the directory shrinks by exactly the bytes it reports, whole blocks at a time *)
Lemma purge_dir_bytes i : forall fuel dl kids b,
  pd_dl (purge_dir fuel i dl kids b) = dl - (pd_bytes (purge_dir fuel i dl kids b) - b) /\
  C * blocks_of (pd_dl (purge_dir fuel i dl kids b)) =
    C * blocks_of dl - (pd_bytes (purge_dir fuel i dl kids b) - b).
Proof.
  induction fuel as [|f IH]; intros dl kids b.
  - cbn [purge_dir pd_dl pd_bytes fst snd]. lia.
  - cbn [purge_dir]. destruct (victim i kids) as [[k st]|]; [|cbn [pd_dl pd_bytes fst snd]; lia].
    cbv zeta. rewrite dlen_remove.
    set (sh := if rm_underflows (ldir_st dl kids) (2 + k) then C else 0).
    change (dlen (ldir_st dl kids)) with dl.
    assert (Hsh : sh = 0 \/ sh = 2048) by (unfold sh; apply grow_cases_l).
    destruct (IH (dl - sh) (remove_at k kids) (b + sh)) as [E1 E2].
    split; [lia|]. rewrite E2. unfold blocks_of, ceiling_div, C. destruct Hsh as [-> | ->]; lia.
Qed.

Lemma purge_dir_ok i : forall fuel dl kids b, dir_ok dl (map lname kids) ->
  dir_ok (pd_dl (purge_dir fuel i dl kids b)) (map lname (pd_kids (purge_dir fuel i dl kids b))).
Proof.
  induction fuel as [|f IH]; intros dl kids b Hd; [exact Hd|].
  cbn [purge_dir]. destruct (victim i kids) as [[k st]|]; [|exact Hd].
  cbv zeta. apply IH. rewrite map_remove_at. unfold ldir_st. apply dir_ok_remove, Hd.
Qed.

(* ---- 3. the whole tree ---------------------------------------------------------------------- *)

Lemma lname_purge i n : lname (purge_node i n) = lname n.
Proof. destruct n; reflexivity. Qed.

Lemma purge_node_dir i nm dl kids :
  purge_node i (LDir nm dl kids) =
  LDir nm (pd_dl (purge_dir (length (map (purge_node i) kids)) i dl (map (purge_node i) kids) 0))
       (filter (notref i) (map (purge_node i) kids)).
Proof.
  cbn [purge_node]. cbv zeta. f_equal. apply purge_dir_kids. lia.
Qed.

Lemma ltotals_filter w (P : lnode -> bool) l :
  (forall c, In c l -> P c = false -> ltotal w c = 0) -> ltotals w (filter P l) = ltotals w l.
Proof.
  induction l as [|c r IH]; intros H; [reflexivity|]. cbn [filter].
  assert (Hr : ltotals w (filter P r) = ltotals w r) by (apply IH; intros; apply H; [right|]; assumption).
  destruct (P c) eqn:E.
  - rewrite !ltotals_cons, Hr. reflexivity.
  - rewrite ltotals_cons, Hr, (H c (or_introl eq_refl) E). lia.
Qed.

Lemma ltotals_zero w l : Forall (fun c => ltotal w c = 0) l -> ltotals w l = 0.
Proof.
  induction 1 as [|c r Hc Hr IH]; [reflexivity|]. rewrite ltotals_cons, Hc, IH. reflexivity.
Qed.

Lemma ltotals_map_ext w (f : lnode -> lnode) l :
  Forall (fun c => ltotal w (f c) = ltotal w c) l -> ltotals w (map f l) = ltotals w l.
Proof.
  induction 1 as [|c r Hc Hr IH]; [reflexivity|]. cbn [map]. rewrite !ltotals_cons, Hc, IH. reflexivity.
Qed.

Lemma notref_false i c : notref i c = false -> exists nm st, c = LFile nm i st.
Proof. unfold notref. intros H. apply is_ref_spec. destruct (is_ref i c); [reflexivity|discriminate]. Qed.

(* measures that do not look at data_length and give 0 to the records of inode i are unchanged *)
Lemma purge_total w i :
  (forall nm dl dl', w (LDir nm dl []) = w (LDir nm dl' [])) ->
  (forall nm st, w (LFile nm i st) = 0) ->
  forall n, ltotal w (purge_node i n) = ltotal w n.
Proof.
  intros Hd Hf. apply lnode_ind'; [reflexivity|].
  intros nm dl kids HF. rewrite purge_node_dir, !ltotal_dir. rewrite (Hd nm _ dl). f_equal.
  rewrite ltotals_filter; [apply ltotals_map_ext, HF|].
  intros c _ Hc. apply notref_false in Hc. destruct Hc as (cn & st & ->).
  rewrite ltotal_file. apply Hf.
Qed.

(* no record of inode i is left *)
Lemma purge_refcount_self i : forall n, l_is_dir n = true -> lrefcount i (purge_node i n) = 0.
Proof.
  unfold lrefcount. apply (lnode_ind' (fun n => l_is_dir n = true -> ltotal (lw_ref i) (purge_node i n) = 0));
    [discriminate|].
  intros nm dl kids HF _. rewrite purge_node_dir, ltotal_dir.
  change (lw_ref i (LDir nm _ [])) with 0. rewrite ltotals_zero; [reflexivity|].
  apply Forall_forall. intros c' Hc'. apply filter_In in Hc'. destruct Hc' as [Hin Hnr].
  apply in_map_iff in Hin. destruct Hin as (c & <- & Hc).
  rewrite Forall_forall in HF. specialize (HF c Hc).
  destruct c as [cn ino st|cn cdl ckids]; [|apply HF; reflexivity].
  cbn [purge_node] in *. rewrite ltotal_file. unfold lw_ref.
  unfold notref in Hnr. destruct (is_ref i (LFile cn ino st)); [discriminate|reflexivity].
Qed.

Lemma purge_refcount_other i j n : j <> i -> lrefcount j (purge_node i n) = lrefcount j n.
Proof.
  intros Hne. unfold lrefcount. apply purge_total; [reflexivity|].
  intros nm st. unfold lw_ref. cbn [is_ref]. destruct (Nat.eqb_spec i j); [congruence|reflexivity].
Qed.

Lemma purge_ptr i n : ltotal lw_ptr (purge_node i n) = ltotal lw_ptr n.
Proof. apply purge_total; reflexivity. Qed.

(* the directory blocks released are exactly the bytes reported *)
Lemma purge_dblk i : forall n,
  C * ltotal lw_dblk (purge_node i n) = C * ltotal lw_dblk n - purge_bytes i n.
Proof.
  apply lnode_ind'; [intros; cbn [purge_node purge_bytes]; lia|].
  intros nm dl kids HF. rewrite purge_node_dir, !ltotal_dir. cbn [purge_bytes]. cbv zeta.
  change (lw_dblk (LDir nm ?d [])) with (blocks_of d).
  destruct (purge_dir_bytes i (length (map (purge_node i) kids)) dl (map (purge_node i) kids) 0) as [_ E].
  rewrite ltotals_filter.
  - assert (EK : C * ltotals lw_dblk (map (purge_node i) kids) =
                 C * ltotals lw_dblk kids - Alloc.zsum (map (purge_bytes i) kids)).
    { clear E. induction HF as [|c r Hc Hr IH]; [cbn; lia|].
      cbn [map]. rewrite !ltotals_cons, zsum_cons. lia. }
    lia.
  - intros c _ Hc. apply notref_false in Hc. destruct Hc as (cn & st & ->). reflexivity.
Qed.

Lemma purge_all_ok i : forall n, lall_ok n -> lall_ok (purge_node i n).
Proof.
  apply (lnode_ind' (fun n => lall_ok n -> lall_ok (purge_node i n))); [intros; assumption|].
  intros nm dl kids HF Hok. apply lall_ok_dir in Hok. destruct Hok as [Hd Hk].
  assert (HK : Forall lall_ok (map (purge_node i) kids)).
  { apply Forall_map. rewrite Forall_forall in *. intros c Hc. apply HF; [exact Hc|apply Hk, Hc]. }
  cbn [purge_node]. cbv zeta. apply lall_ok_dir. split.
  - apply purge_dir_ok. rewrite map_map. rewrite (map_ext _ lname); [exact Hd|].
    intros c. apply lname_purge.
  - rewrite purge_dir_kids by lia. apply Forall_filter, HK.
Qed.

(* ---- 4. the names ---------------------------------------------------------------------------- *)

Definition kid_recs (p : path) (c : lnode) : list (path * ident * nat) :=
  match c with
  | LFile _ _ _ => lrecords p c
  | LDir cn _ _ => lrecords (p ++ [cn]) c
  end.

Lemma lrecords_dir p nm dl kids : lrecords p (LDir nm dl kids) = flat_map (kid_recs p) kids.
Proof.
  cbn [lrecords]. induction kids as [|c r IH]; [reflexivity|].
  cbn [flat_map]. rewrite <- IH. destruct c; reflexivity.
Qed.

Lemma ldirs_dir p nm dl kids :
  ldirs p (LDir nm dl kids) = p :: flat_map (fun c => ldirs (p ++ [lname c]) c) kids.
Proof.
  reflexivity.
Qed.

Definition notrec (i : nat) (r : path * ident * nat) : bool := negb (rec_is i r).

(* rm_file removes exactly the names of the content: the file records after the purge are those
   of before whose inode is not i, in the same order and in the same directories *)
Lemma purge_records i : forall n, l_is_dir n = true ->
  forall p, lrecords p (purge_node i n) = filter (notrec i) (lrecords p n).
Proof.
  apply (lnode_ind' (fun n => l_is_dir n = true ->
           forall p, lrecords p (purge_node i n) = filter (notrec i) (lrecords p n))); [discriminate|].
  intros nm dl kids HF _ p. rewrite purge_node_dir, !lrecords_dir.
  induction HF as [|c r Hc Hr IH]; [reflexivity|].
  cbn [map filter flat_map]. rewrite filter_app, <- IH.
  destruct c as [cn ino st|cn cdl ckids].
  - cbn [purge_node kid_recs lrecords filter]. unfold notrec, rec_is, notref. cbn [snd is_ref].
    destruct (Nat.eqb ino i); reflexivity.
  - specialize (Hc eq_refl (p ++ [cn])). cbn [kid_recs] in *.
    change (notref i (purge_node i (LDir cn cdl ckids))) with true. cbn iota.
    cbn [flat_map]. f_equal. cbn [purge_node] in *. cbv zeta in *. cbn [kid_recs]. exact Hc.
Qed.

(* ... and the directories are the same *)
Lemma purge_dirs i : forall n p, ldirs p (purge_node i n) = ldirs p n.
Proof.
  apply (lnode_ind' (fun n => forall p, ldirs p (purge_node i n) = ldirs p n)); [reflexivity|].
  intros nm dl kids HF p. rewrite purge_node_dir, !ldirs_dir. f_equal.
  induction HF as [|c r Hc Hr IH]; [reflexivity|].
  cbn [map filter flat_map]. rewrite <- IH.
  destruct (notref i (purge_node i c)) eqn:E.
  - cbn [flat_map]. rewrite lname_purge, Hc. reflexivity.
  - apply notref_false in E. destruct E as (cn & st & E).
    destruct c as [cn' ino st'|]; [|discriminate]. reflexivity.
Qed.
