(* Generic facts about the backing-file model of Model/InPlace.v: what a list of writes leaves at one
   byte, reading back, lists that agree except on a set of positions, copy_data / zero_pad.
     ip_apply_writes_stable   a byte that every write either misses or re-writes with v still holds v
     ip_apply_writes_in       after pairwise (disjoint or equal) writes each write reads back
     ip_same_except_*         composition rules for "these two byte strings differ only at ..."
     ip_copy_data_den         copy_data with an fp of exactly [left] bytes = one write of those bytes
     ip_data_writes_den       the image after the data step, byte by byte *)
From Coq Require Import ZArith List Bool Lia ZifyBool.
From PV.Base Require Import Prim.
From PV.Gen Require Import GenConst GenFun.
From PV.Model Require Import Codec Udf InPlace.
Import ListNotations.
Local Open Scope Z_scope.
Ltac Zify.zify_post_hook ::= Z.to_euclidean_division_equations.

(* ---- zlist_eqb, on_disk ---- *)
Lemma ip_zlist_eqb_eq a : forall b, zlist_eqb a b = true -> a = b.
Proof.
  induction a as [|x a IH]; intros [|y b] H; cbn [zlist_eqb] in H; try discriminate; [reflexivity|].
  apply andb_prop in H. destruct H as [H1 H2]. apply Z.eqb_eq in H1. subst y. f_equal. apply IH. exact H2.
Qed.
Lemma ip_zlist_eqb_refl a : zlist_eqb a a = true.
Proof. induction a as [|x a IH]; [reflexivity|]. cbn [zlist_eqb]. rewrite Z.eqb_refl. exact IH. Qed.

Lemma ip_read_length m pos n : length (read m pos n) = n.
Proof. unfold read. rewrite map_length, seq_length. reflexivity. Qed.

Lemma ip_read_nth m pos n i : (i < n)%nat -> nth i (read m pos n) 0 = m (pos + Z.of_nat i).
Proof.
  intros H. unfold read. set (f := fun k => m (pos + Z.of_nat k)).
  rewrite (nth_indep _ 0 (f 0%nat)) by (rewrite map_length, seq_length; exact H).
  rewrite map_nth, seq_nth by exact H. reflexivity.
Qed.

Lemma ip_read_ext m1 m2 pos n :
  (forall i, (i < n)%nat -> m1 (pos + Z.of_nat i) = m2 (pos + Z.of_nat i)) -> read m1 pos n = read m2 pos n.
Proof.
  intros H. unfold read. apply map_ext_in. intros i Hi. apply in_seq in Hi. apply H. lia.
Qed.

Lemma ip_read_eq m pos b :
  (forall i, (i < length b)%nat -> m (pos + Z.of_nat i) = nth i b 0) -> read m pos (length b) = b.
Proof.
  intros H. apply (nth_ext _ _ 0 0); [apply ip_read_length|].
  intros i Hi. rewrite ip_read_length in Hi. rewrite ip_read_nth by exact Hi. apply H. exact Hi.
Qed.

Lemma ip_on_disk_nth m pos b : on_disk m pos b = true ->
  forall i, (i < length b)%nat -> m (pos + Z.of_nat i) = nth i b 0.
Proof.
  unfold on_disk. intros H i Hi. apply ip_zlist_eqb_eq in H.
  rewrite <- (ip_read_nth m pos (length b) i Hi), H. reflexivity.
Qed.

Lemma ip_on_disk_at m pos b a : on_disk m pos b = true -> pos <= a < pos + zlen b ->
  m a = nth (Z.to_nat (a - pos)) b 0.
Proof.
  intros H Ha. unfold zlen in Ha. rewrite <- (ip_on_disk_nth m pos b H (Z.to_nat (a - pos))) by lia.
  f_equal. lia.
Qed.

(* ---- one write, many writes ---- *)
Lemma ip_apply_write_out m w a : in_range (fst w) (zlen (snd w)) a = false -> apply_write m w a = m a.
Proof. unfold apply_write. intros ->. reflexivity. Qed.
Lemma ip_apply_write_in m w a : in_range (fst w) (zlen (snd w)) a = true ->
  apply_write m w a = nth (Z.to_nat (a - fst w)) (snd w) 0.
Proof. unfold apply_write. intros ->. reflexivity. Qed.

Lemma ip_apply_writes_app ws1 ws2 m : apply_writes (ws1 ++ ws2) m = apply_writes ws2 (apply_writes ws1 m).
Proof. unfold apply_writes. apply fold_left_app. Qed.
Lemma ip_apply_writes_cons w ws m : apply_writes (w :: ws) m = apply_writes ws (apply_write m w).
Proof. reflexivity. Qed.

(* the write misses byte a, or puts v there *)
Definition keeps (v a : Z) (w : write) : Prop :=
  in_range (fst w) (zlen (snd w)) a = true -> nth (Z.to_nat (a - fst w)) (snd w) 0 = v.

Lemma ip_apply_writes_stable ws : forall m a v, m a = v -> Forall (keeps v a) ws -> apply_writes ws m a = v.
Proof.
  induction ws as [|w ws IH]; intros m a v Hm Hk; [exact Hm|].
  inversion Hk as [|? ? Hw Hr]; subst. rewrite ip_apply_writes_cons. apply IH; [|exact Hr].
  destruct (in_range (fst w) (zlen (snd w)) a) eqn:E.
  - rewrite ip_apply_write_in by exact E. apply Hw. exact E.
  - rewrite ip_apply_write_out by exact E. reflexivity.
Qed.

Definition wdisj (w1 w2 : write) : Prop :=
  zlen (snd w1) <= 0 \/ zlen (snd w2) <= 0 \/
  fst w1 + zlen (snd w1) <= fst w2 \/ fst w2 + zlen (snd w2) <= fst w1.

Lemma ip_wdisj_keeps w w' a v : wdisj w w' -> in_range (fst w) (zlen (snd w)) a = true -> keeps v a w'.
Proof. unfold wdisj, keeps, in_range. intros H Ha Hb. lia. Qed.

(* every write of a list of pairwise (disjoint or equal) writes reads back after all of them *)
Lemma ip_apply_writes_in ws : forall m w a, In w ws ->
  (forall w', In w' ws -> wdisj w w' \/ w' = w) ->
  in_range (fst w) (zlen (snd w)) a = true ->
  apply_writes ws m a = nth (Z.to_nat (a - fst w)) (snd w) 0.
Proof.
  induction ws as [|w0 ws IH]; intros m w a Hin Hd Ha; [destruct Hin|].
  rewrite ip_apply_writes_cons.
  assert (Hrest : Forall (keeps (nth (Z.to_nat (a - fst w)) (snd w) 0) a) ws).
  { apply Forall_forall. intros w' Hw'. destruct (Hd w' (or_intror Hw')) as [H| ->].
    - apply (ip_wdisj_keeps w w'); assumption.
    - intros _. reflexivity. }
  destruct (Hd w0 (or_introl eq_refl)) as [H0|H0].
  - destruct Hin as [->|Hin].
    + unfold wdisj, in_range in *. pose proof (zlen_nonneg (snd w)). lia.
    + apply IH; [exact Hin| |exact Ha]. intros w' Hw'. apply Hd. right. exact Hw'.
  - subst w0. apply ip_apply_writes_stable; [|exact Hrest]. apply ip_apply_write_in. exact Ha.
Qed.

(* ---- byte strings that differ only on a set of positions ---- *)
Definition same_except (P : nat -> Prop) (b1 b2 : list Z) : Prop :=
  length b1 = length b2 /\ forall i, ~ P i -> nth i b1 0 = nth i b2 0.

Lemma ip_se_refl b : same_except (fun _ => False) b b.
Proof. split; reflexivity. Qed.
Lemma ip_se_all b1 b2 : length b1 = length b2 -> same_except (fun i => (i < length b1)%nat) b1 b2.
Proof.
  intros H. split; [exact H|]. intros i Hi. rewrite !nth_overflow by lia. reflexivity.
Qed.
Lemma ip_se_app P Q a1 a2 b1 b2 : same_except P a1 a2 -> same_except Q b1 b2 ->
  same_except (fun i => P i \/ (length a1 <= i)%nat /\ Q (i - length a1)%nat) (a1 ++ b1) (a2 ++ b2).
Proof.
  intros [La Ha] [Lb Hb]. split; [rewrite !app_length; lia|].
  intros i Hi. destruct (Nat.lt_ge_cases i (length a1)) as [Hlt|Hge].
  - rewrite !app_nth1 by lia. apply Ha. intros Hp. apply Hi. left. exact Hp.
  - rewrite !app_nth2 by lia. rewrite <- La. apply Hb. intros Hq. apply Hi. right. split; [exact Hge|exact Hq].
Qed.
Lemma ip_se_weaken (P Q : nat -> Prop) b1 b2 : same_except P b1 b2 -> (forall i, P i -> Q i) -> same_except Q b1 b2.
Proof. intros [L H] Hpq. split; [exact L|]. intros i Hi. apply H. intros Hp. apply Hi, Hpq, Hp. Qed.

(* ---- copy_data / zero_pad ---- *)
Lemma ip_nth_firstn {A} (l : list A) n i d : (i < n)%nat -> nth i (firstn n l) d = nth i l d.
Proof.
  revert n i. induction l as [|x l IH]; intros [|n] [|i] H; cbn; try reflexivity; try lia.
  apply IH. lia.
Qed.
Lemma ip_nth_skipn {A} (l : list A) n i d : nth i (skipn n l) d = nth (n + i) l d.
Proof.
  revert n. induction l as [|x l IH]; intros [|n]; cbn [skipn]; try reflexivity.
  - destruct i; reflexivity.
  - apply IH.
Qed.

(* the image after copy_data when the fp holds exactly [left] bytes *)
Lemma ip_copy_data_den fuel : forall left bs pos fp m ws p,
  0 < bs -> 0 <= left -> zlen fp = left -> (left + bs - 1) / bs <= Z.of_nat fuel ->
  copy_data fuel left bs pos fp = (ws, p) ->
  p = pos + left /\
  forall a, apply_writes ws m a = if in_range pos left a then nth (Z.to_nat (a - pos)) fp 0 else m a.
Proof.
  induction fuel as [|f IH]; intros left bs pos fp m ws p Hbs Hl Hfp Hfuel Hc.
  - assert (left = 0).
    { destruct (Z.eq_dec left 0) as [E|E]; [exact E|].
      pose proof (Z.div_str_pos (left + bs - 1) bs ltac:(lia)). lia. }
    cbn [copy_data] in Hc. injection Hc as <- <-. split; [lia|]. intros a. unfold in_range.
    replace ((pos <=? a) && (a <? pos + left)) with false by lia. reflexivity.
  - cbn [copy_data] in Hc. destruct (left >? 0) eqn:E.
    + cbv zeta in Hc.
      remember (Z.min bs left) as rs eqn:Hrs.
      assert (Hd : zlen (firstn (Z.to_nat rs) fp) = rs).
      { unfold zlen in *. rewrite firstn_length. lia. }
      rewrite Hd, Z.eqb_refl in Hc.
      destruct (copy_data f (left - rs) bs (pos + rs) (skipn (Z.to_nat rs) fp)) as [ws' p'] eqn:Er.
      injection Hc as <- <-.
      assert (Hsk : zlen (skipn (Z.to_nat rs) fp) = left - rs).
      { unfold zlen in *. rewrite skipn_length. lia. }
      assert (Hf2 : (left - rs + bs - 1) / bs <= Z.of_nat f).
      { destruct (Z.le_gt_cases bs left) as [Hge|Hlt].
        - replace rs with bs by lia. replace (left - bs + bs - 1) with (left + bs - 1 + (-1) * bs) by lia.
          rewrite Z.div_add by lia. lia.
        - replace rs with left by lia. replace (left - left + bs - 1) with (bs - 1) by lia.
          rewrite Z.div_small by lia. lia. }
      destruct (IH (left - rs) bs (pos + rs) _ (apply_write m (pos, firstn (Z.to_nat rs) fp)) ws' p'
                   Hbs ltac:(lia) Hsk Hf2 Er) as [Hp Hden].
      split; [lia|]. intros a. rewrite ip_apply_writes_cons, Hden.
      unfold apply_write. cbn [fst snd]. rewrite Hd. unfold in_range.
      destruct ((pos + rs <=? a) && (a <? pos + rs + (left - rs))) eqn:E1.
      * replace ((pos <=? a) && (a <? pos + left)) with true by lia.
        rewrite ip_nth_skipn. f_equal. lia.
      * destruct ((pos <=? a) && (a <? pos + rs)) eqn:E2.
        -- replace ((pos <=? a) && (a <? pos + left)) with true by lia.
           apply ip_nth_firstn. lia.
        -- replace ((pos <=? a) && (a <? pos + left)) with false by lia. reflexivity.
    + injection Hc as <- <-. split; [lia|]. intros a. unfold in_range.
      replace ((pos <=? a) && (a <? pos + left)) with false by lia. reflexivity.
Qed.

(* the image after the data step for new content [d] (length = zlen d):
   the new bytes, then -- only if the length is not a whole number of blocks -- ONE zero byte at the last
   position of the last block; the bytes in between keep their old values *)
Definition data_den (lbs start : Z) (d : list Z) (m : img) : img :=
  fun a => if in_range start (zlen d) a then nth (Z.to_nat (a - start)) d 0
           else if negb (zlen d mod lbs =? 0) && (a =? start + ceiling_div (zlen d) lbs * lbs - 1) then 0
           else m a.

Lemma ip_ceiling_div_2048 a : ceiling_div a 2048 = (a + 2047) / 2048.
Proof. unfold ceiling_div. lia. Qed.

Lemma ip_data_writes_den ext d m a :
  apply_writes (data_writes 2048 ext (zlen d) d) m a = data_den 2048 (ext * 2048) d m a.
Proof.
  unfold data_writes.
  destruct (copy_data (Z.to_nat (zlen d / 2048 + 1)) (zlen d) 2048 (ext * 2048) d) as [ws p] eqn:Ec.
  pose proof (zlen_nonneg d) as Hd.
  destruct (ip_copy_data_den (Z.to_nat (zlen d / 2048 + 1)) (zlen d) 2048 (ext * 2048) d m ws p
              ltac:(lia) Hd eq_refl ltac:(lia) Ec) as [Hp Hden].
  rewrite ip_apply_writes_app. unfold data_den, zero_pad. cbv zeta.
  rewrite ip_ceiling_div_2048.
  destruct (2048 - zlen d mod 2048 =? 2048) eqn:E.
  - cbn [apply_writes fold_left]. rewrite Hden.
    replace (zlen d mod 2048 =? 0) with true by lia. cbn [negb andb]. reflexivity.
  - cbn [apply_writes fold_left]. unfold apply_write at 1. cbn [fst snd]. unfold in_range at 1.
    change (zlen [0]) with 1.
    replace (zlen d mod 2048 =? 0) with false by lia. cbn [negb andb].
    assert (Hpos : p + (2048 - zlen d mod 2048 - 1) = ext * 2048 + (zlen d + 2047) / 2048 * 2048 - 1) by lia.
    rewrite Hpos, Hden. unfold in_range.
    destruct (a =? ext * 2048 + (zlen d + 2047) / 2048 * 2048 - 1) eqn:E2.
    + replace ((ext * 2048 <=? a) && (a <? ext * 2048 + zlen d)) with false by lia.
      replace ((ext * 2048 + (zlen d + 2047) / 2048 * 2048 - 1 <=? a) &&
               (a <? ext * 2048 + (zlen d + 2047) / 2048 * 2048 - 1 + 1)) with true by lia.
      replace (Z.to_nat (a - (ext * 2048 + (zlen d + 2047) / 2048 * 2048 - 1))) with 0%nat by lia. reflexivity.
    + replace ((ext * 2048 + (zlen d + 2047) / 2048 * 2048 - 1 <=? a) &&
               (a <? ext * 2048 + (zlen d + 2047) / 2048 * 2048 - 1 + 1)) with false by lia.
      reflexivity.
Qed.

Print Assumptions ip_apply_writes_stable.
Print Assumptions ip_apply_writes_in.
Print Assumptions ip_data_writes_den.
