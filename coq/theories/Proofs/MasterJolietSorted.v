(* C09 -- MasterJoliet: the ORDER of the records of a Joliet directory extent.
     joliet_sorted            after '.' and '..' the identifiers are those of children[2:], strictly
                              ascending for Python's bytes `<` on the UTF-16BE form
     joliet_sorted_units      i.e. lexicographic on the 16-bit code units, a proper prefix first
     joliet_sorted_ecma_refuted      a reader that expects ECMA-119 9.3 (the shorter identifier padded
                              with (20) BYTES) is not satisfied: 'a' is written before 'ab'
     joliet_sorted_ecma_partial      it is when no identifier is a proper prefix of its successor
     joliet_sorted_pad00      with (00) padding (the Joliet specification) the order always holds
     joliet_sorted_space_partial / _refuted   padding with the CHARACTER U+0020: holds when no name has a
                              control character below U+0020; 'a' before 'a\x01' otherwise *)
From Coq Require Import ZArith List Bool Lia ZifyBool.
From PV.Base Require Import Prim ListX.
From PV.Gen Require Import GenConst GenFun.
From PV.Model Require Import Codec Pack PathTable Master MasterJoliet.
From PV.Model Require Alloc Account AccountLinks AccountNs.
From PV.Proofs Require Import MasterPack MasterImage MasterBfs MasterWf.
From PV.Proofs Require Import MasterJolietWf MasterJolietDir MasterJolietRead MasterJolietLayout MasterJolietImage.
Import ListNotations.
Local Open Scope Z_scope.

Notation njol := AccountNs.njol.

Lemma mj_idents_kids dt s DB p kids : forall j,
  mj_idents (mj_kid_recs dt s DB p j kids) = map lname kids.
Proof.
  induction kids as [|c r IH]; intros j; [reflexivity|]. unfold mj_idents in *.
  cbn [mj_kid_recs map]. rewrite IH. f_equal. destruct c; reflexivity.
Qed.

Theorem joliet_sorted dt s : length dt = 7%nat -> mj_wf s = true ->
  forall p, mj_is_dir_at (njol s) p = true ->
  exists bytes recs nm dl kids,
    In (ms_ext_at (mj_JDB s) p, bytes) (mj_jdirs s dt) /\
    ms_scan (S (length bytes)) bytes 0 = Some recs /\
    mj_node_at (njol s) p = Some (LDir nm dl kids) /\
    mj_idents recs = [0] :: [1] :: map lname kids /\
    ms_sorted (map lname kids) = true.
Proof.
  intros Hdt Hwf p Hp. destruct (mj_j_hyps s Hwf) as (H1 & H2 & H3 & H4).
  destruct (mj_is_dir_node _ _ Hp) as (nm & dl & kids & Hn).
  destruct (mj_chunk_facts dt Hdt s (njol s) (mj_jdir_start s) H1 H2 H3 H4 (mj_fext_range s Hwf)
              (mj_len_range32 s Hwf) p nm dl kids Hn) as (F & _ & _ & _ & _ & Hscan).
  fold (mj_JDB s) in F, Hscan.
  exists (snd (mj_chunk dt s (njol s) (mj_JDB s) p)), (mj_dir_recs dt s (njol s) (mj_JDB s) p), nm, dl, kids.
  split.
  { rewrite <- F, <- surjective_pairing. unfold mj_jdirs. apply in_map.
    apply (mj_positions_complete dt Hdt s (njol s) (mj_jdir_start s) H1 H2 H3 H4 (mj_fext_range s Hwf)
             (mj_len_range32 s Hwf)). exact Hp. }
  split; [exact Hscan|]. split; [exact Hn|]. split.
  - unfold mj_dir_recs. rewrite Hn. unfold mj_idents. cbn [map ms_rec Codec.ident].
    f_equal. f_equal. apply mj_idents_kids.
  - destruct (mj_ok_dir _ _ _ (mj_ok_at p _ _ H2 Hn)) as (_ & _ & _ & Hs & _). exact Hs.
Qed.

(* ---- bytes `<` on UTF-16BE forms is `<` on the sequences of code units -------------------------------------- *)

Fixpoint mj_evenb (l : list Z) : bool :=
  match l with
  | [] => true
  | [_] => false
  | _ :: _ :: r => mj_evenb r
  end.
Definition mj_bytes (l : list Z) : Prop := forall x, In x l -> 0 <= x < 256.

Lemma mj_ltb_units : forall n a b, (length a <= n)%nat -> mj_evenb a = true -> mj_evenb b = true ->
  mj_bytes a -> mj_bytes b ->
  Account.bytes_ltb a b = Account.bytes_ltb (mj_units a) (mj_units b).
Proof.
  induction n as [|n IH]; intros a b Hn Ea Eb Ba Bb.
  - destruct a; [|cbn in Hn; lia]. destruct b as [|h' [|l' b]]; [reflexivity|discriminate|reflexivity].
  - destruct a as [|h [|l a]]; [|discriminate|].
    + destruct b as [|h' [|l' b]]; [reflexivity|discriminate|reflexivity].
    + destruct b as [|h' [|l' b]]; [reflexivity|discriminate|].
      cbn [mj_evenb] in Ea, Eb. cbn [mj_units Account.bytes_ltb].
      assert (Hh : 0 <= h < 256) by (apply Ba; left; reflexivity).
      assert (Hl : 0 <= l < 256) by (apply Ba; right; left; reflexivity).
      assert (Hh' : 0 <= h' < 256) by (apply Bb; left; reflexivity).
      assert (Hl' : 0 <= l' < 256) by (apply Bb; right; left; reflexivity).
      rewrite (IH a b); [|cbn in Hn; lia|exact Ea|exact Eb| |].
      2:{ intros x Hx. apply Ba. right. right. exact Hx. }
      2:{ intros x Hx. apply Bb. right. right. exact Hx. }
      destruct (h <? h') eqn:E1; [replace (h * 256 + l <? h' * 256 + l') with true by lia; reflexivity|].
      destruct (h =? h') eqn:E2.
      * destruct (l <? l') eqn:E3; [replace (h * 256 + l <? h' * 256 + l') with true by lia; reflexivity|].
        replace (h * 256 + l <? h' * 256 + l') with false by lia.
        destruct (l =? l') eqn:E4.
        -- replace (h * 256 + l =? h' * 256 + l') with true by lia. reflexivity.
        -- replace (h * 256 + l =? h' * 256 + l') with false by lia. reflexivity.
      * replace (h * 256 + l <? h' * 256 + l') with false by lia.
        replace (h * 256 + l =? h' * 256 + l') with false by lia. reflexivity.
Qed.

Theorem joliet_sorted_units names : ms_sorted names = true ->
  (forall a, In a names -> mj_evenb a = true /\ mj_bytes a) ->
  ms_sorted (map mj_units names) = true.
Proof.
  induction names as [|a r IH]; intros Hs Hn; [reflexivity|]. cbn [ms_sorted map] in *.
  apply andb_prop in Hs. destruct Hs as [Hab Hr].
  rewrite IH; [|exact Hr|intros x Hx; apply Hn; right; exact Hx]. rewrite andb_true_r.
  destruct r as [|b r']; [reflexivity|]. cbn [map].
  destruct (Hn a (or_introl eq_refl)) as [Ea Ba]. destruct (Hn b (or_intror (or_introl eq_refl))) as [Eb Bb].
  rewrite <- (mj_ltb_units (length a) a b (le_n _) Ea Eb Ba Bb). exact Hab.
Qed.

(* ---- ECMA-119 9.3: the shorter identifier padded -------------------------------------------------------------- *)

Fixpoint mj_is_prefix (a b : list Z) : bool :=
  match a, b with
  | [], _ => true
  | x :: a', y :: b' => (x =? y) && mj_is_prefix a' b'
  | _ :: _, [] => false
  end.

Lemma mj_prefix_free_cmp pad a : forall b, Account.bytes_ltb a b = true -> mj_is_prefix a b = false ->
  mj_pad_cmp pad a b = Lt.
Proof.
  induction a as [|x a IH]; intros [|y b] H Hp; cbn [Account.bytes_ltb mj_is_prefix mj_pad_cmp] in *;
    try discriminate.
  destruct (x <? y) eqn:E1.
  - replace (x ?= y) with Lt by (symmetry; apply Z.compare_lt_iff; lia). reflexivity.
  - destruct (x =? y) eqn:E2; [|discriminate].
    replace (x ?= y) with Eq by (symmetry; apply Z.compare_eq_iff; lia). cbn [andb] in Hp. apply IH; assumption.
Qed.

Lemma mj_vs_pad_ge pad a : (forall x, In x a -> pad <= x) -> mj_vs_pad pad a <> Lt.
Proof.
  induction a as [|x a IH]; intros H; cbn [mj_vs_pad]; [discriminate|].
  assert (Hx : pad <= x) by (apply H; left; reflexivity).
  destruct (Z.compare_spec x pad); [apply IH; intros y Hy; apply H; right; exact Hy|lia|discriminate].
Qed.

Lemma mj_pad_ge pad a : forall b, (forall x, In x a -> pad <= x) -> (forall x, In x b -> pad <= x) ->
  Account.bytes_ltb a b = true -> mj_pad_cmp pad a b <> Gt.
Proof.
  induction a as [|x a IH]; intros [|y b] Ha Hb H; cbn [Account.bytes_ltb mj_pad_cmp] in *; try discriminate.
  - pose proof (mj_vs_pad_ge pad (y :: b) Hb) as Hv. destruct (mj_vs_pad pad (y :: b)); cbn; congruence.
  - destruct (x <? y) eqn:E1.
    + replace (x ?= y) with Lt by (symmetry; apply Z.compare_lt_iff; lia). discriminate.
    + destruct (x =? y) eqn:E2; [|discriminate].
      replace (x ?= y) with Eq by (symmetry; apply Z.compare_eq_iff; lia).
      apply IH; [intros z Hz; apply Ha; right; exact Hz|intros z Hz; apply Hb; right; exact Hz|exact H].
Qed.

Fixpoint mj_prefix_free (l : list (list Z)) : bool :=
  match l with
  | [] => true
  | a :: r => match r with [] => true | b :: _ => negb (mj_is_prefix a b) end && mj_prefix_free r
  end.

(* ECMA-119 9.3 holds, for ANY padding byte, when no identifier is a proper prefix of its successor *)
Theorem joliet_sorted_ecma_partial pad names : ms_sorted names = true -> mj_prefix_free names = true ->
  mj_pad_sorted pad names = true.
Proof.
  induction names as [|a r IH]; intros Hs Hp; [reflexivity|]. cbn [ms_sorted mj_prefix_free mj_pad_sorted] in *.
  apply andb_prop in Hs. destruct Hs as [Hab Hr]. apply andb_prop in Hp. destruct Hp as [Hpa Hpr].
  rewrite (IH Hr Hpr), andb_true_r. destruct r as [|b r']; [reflexivity|].
  unfold mj_pad_leb. rewrite (mj_prefix_free_cmp pad a b Hab); [reflexivity|].
  destruct (mj_is_prefix a b); [discriminate|reflexivity].
Qed.

(* with a padding value that is below every byte / unit of the names the order always holds *)
Theorem joliet_sorted_pad_low pad names : ms_sorted names = true ->
  (forall a, In a names -> forall x, In x a -> pad <= x) ->
  mj_pad_sorted pad names = true.
Proof.
  induction names as [|a r IH]; intros Hs Hn; [reflexivity|]. cbn [ms_sorted mj_pad_sorted] in *.
  apply andb_prop in Hs. destruct Hs as [Hab Hr].
  rewrite (IH Hr) by (intros x Hx; apply Hn; right; exact Hx). rewrite andb_true_r.
  destruct r as [|b r']; [reflexivity|]. unfold mj_pad_leb.
  pose proof (mj_pad_ge pad a b (Hn a (or_introl eq_refl)) (Hn b (or_intror (or_introl eq_refl))) Hab) as H.
  destruct (mj_pad_cmp pad a b); congruence.
Qed.

(* (00) padding, the reading of the Joliet specification *)
Corollary joliet_sorted_pad00 names : ms_sorted names = true ->
  (forall a, In a names -> mj_bytes a) -> mj_pad_sorted 0 names = true.
Proof. intros Hs Hb. apply joliet_sorted_pad_low; [exact Hs|]. intros a Ha x Hx. apply (Hb a Ha x Hx). Qed.

(* padding with the CHARACTER U+0020: fine when no name has a control character *)
Corollary joliet_sorted_space_partial names : ms_sorted names = true ->
  (forall a, In a names -> mj_evenb a = true /\ mj_bytes a) ->
  (forall a, In a names -> forall u, In u (mj_units a) -> 32 <= u) ->
  mj_pad_sorted 32 (map mj_units names) = true.
Proof.
  intros Hs Hn Hu. apply joliet_sorted_pad_low; [apply joliet_sorted_units; assumption|].
  intros a Ha x Hx. apply in_map_iff in Ha. destruct Ha as (a0 & <- & Ha0). apply (Hu a0 Ha0 x Hx).
Qed.

(* ---- witnesses: accepted histories -------------------------------------------------------------------------------- *)

Definition mj_dt0 : list Z := [123; 11; 14; 22; 13; 20; 0].

(* add_fp(joliet_path='/a'); add_fp(joliet_path='/ab') *)
Definition mj_prefix_ops : list AccountNs.nop :=
  [AccountNs.NAddFile None (Some ([], [97])) 0; AccountNs.NAddFile None (Some ([], [97; 98])) 0].

(* add_fp(joliet_path='/a'); add_fp(joliet_path='/a\x01') *)
Definition mj_ctrl_ops : list AccountNs.nop :=
  [AccountNs.NAddFile None (Some ([], [97])) 0; AccountNs.NAddFile None (Some ([], [97; 1])) 0].

Definition mj_root_idents (ops : list AccountNs.nop) : option (list (list Z)) :=
  match master_joliet_dirs mj_dt0 (AccountNs.nrun ops) with
  | Some [(e, bytes)] =>
      match ms_scan (S (length bytes)) bytes 0 with
      | Some recs => Some (mj_idents recs)
      | None => None
      end
  | _ => None
  end.

Theorem joliet_sorted_ecma_refuted :
  exists ops, AccountNs.clean ops = true /\ mj_wf (AccountNs.nrun ops) = true /\
    mj_root_idents ops = Some [[0]; [1]; [0; 97]; [0; 97; 0; 98]] /\
    mj_pad_sorted 32 [[0; 97]; [0; 97; 0; 98]] = false.
Proof. exists mj_prefix_ops. vm_compute. repeat split. Qed.

Theorem joliet_sorted_space_refuted :
  exists ops, AccountNs.clean ops = true /\ mj_wf (AccountNs.nrun ops) = true /\
    mj_root_idents ops = Some [[0]; [1]; [0; 97]; [0; 97; 0; 1]] /\
    mj_pad_sorted 32 (map mj_units [[0; 97]; [0; 97; 0; 1]]) = false.
Proof. exists mj_ctrl_ops. vm_compute. repeat split. Qed.

Print Assumptions joliet_sorted.
Print Assumptions joliet_sorted_units.
Print Assumptions joliet_sorted_ecma_partial.
Print Assumptions joliet_sorted_pad00.
Print Assumptions joliet_sorted_space_partial.
Print Assumptions joliet_sorted_ecma_refuted.
Print Assumptions joliet_sorted_space_refuted.
