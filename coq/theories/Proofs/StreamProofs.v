From Coq Require Import ZArith List Bool Lia.
From PV.Base Require Import Prim ListX.
From PV.Model Require Import Stream.
Import ListNotations.
Local Open Scope Z_scope.

(* ---------------------------------------------------------------- slice algebra *)
Lemma zlen_slice {A} (a k : Z) (l : list A) :
  0 <= a -> 0 <= k -> a + k <= zlen l -> zlen (slice a (a + k) l) = k.
Proof.
  intros Ha Hk Hl. unfold slice, zlen in *.
  rewrite firstn_length, skipn_length. lia.
Qed.

Lemma slice_slice {A} (start len a k : Z) (data : list A) :
  0 <= start -> 0 <= a -> 0 <= k -> a + k <= len ->
  slice (start + a) (start + a + k) data = slice a (a + k) (slice start (start + len) data).
Proof.
  intros Hs Ha Hk Hl. unfold slice.
  replace (start + a + k - (start + a)) with k by lia.
  replace (a + k - a) with k by lia.
  replace (start + len - start) with len by lia.
  rewrite skipn_firstn_comm, firstn_firstn, skipn_skipn.
  replace (Nat.min (Z.to_nat k) (Z.to_nat len - Z.to_nat a))%nat with (Z.to_nat k) by lia.
  replace (Z.to_nat start + Z.to_nat a)%nat with (Z.to_nat (start + a)) by lia.
  reflexivity.
Qed.

Lemma slice_empty {A} (a : Z) (l : list A) : slice a (a + 0) l = [].
Proof. unfold slice. replace (a + 0 - a) with 0 by lia. reflexivity. Qed.

(* ---------------------------------------------------------------- list update algebra *)
Lemma abs_set data i s l :
  map (abs_stream data) (set_stream i s l) = aset i (abs_stream data s) (map (abs_stream data) l).
Proof.
  unfold set_stream, aset. rewrite map_app, firstn_map. cbn [map]. rewrite skipn_map. reflexivity.
Qed.

Lemma nth_error_abs data l i :
  nth_error (map (abs_stream data) l) i = option_map (abs_stream data) (nth_error l i).
Proof. apply nth_error_map. Qed.

Lemma content_len data s : wf_stream data s -> zlen (a_content (abs_stream data s)) = st_len s.
Proof.
  intros (H1 & H2 & H3 & H4). cbn [abs_stream a_content].
  apply zlen_slice; lia.
Qed.

(* ---------------------------------------------------------------- one step *)
Definition step_ok (w : world) (o : sop) : Prop :=
  let '(w', x) := step true w o in
  let '(l', y) := spec_step (w_data w) (abs w) o in
  x = y /\ abs w' = l' /\ wf w' /\ w_data w' = w_data w.

Ltac break_wf H := destruct H as (?Hs0 & ?Hl0 & ?Hb0 & ?Ho0).

Lemma wf_with_off data s o : wf_stream data s -> 0 <= o -> wf_stream data (with_off s o).
Proof. intros H Ho; break_wf H; unfold wf_stream; cbn; repeat split; lia. Qed.

Lemma abs_with_off data s o : abs_stream data (with_off s o) = a_with (abs_stream data s) o.
Proof. reflexivity. Qed.

Lemma upd_ok w i s s' pos :
  wf w -> nth_error (w_streams w) i = Some s -> wf_stream (w_data w) s' ->
  abs (upd w i s' pos) = aset i (abs_stream (w_data w) s') (abs w) /\ wf (upd w i s' pos) /\
  w_data (upd w i s' pos) = w_data w.
Proof.
  intros Hw Hn Hs'. unfold abs, upd, wf; cbn [w_data w_streams]. rewrite abs_set.
  repeat split; auto. unfold set_stream. apply Forall_set; auto.
Qed.

(* the bytes a fixed read returns are the bytes of the file at the stream's own offset *)
Lemma fread_fixed data s k :
  wf_stream data s -> 0 <= k -> st_off s + k <= st_len s ->
  fst (fread data (st_start s + st_off s) k) =
    slice (st_off s) (st_off s + k) (a_content (abs_stream data s)) /\
  zlen (fst (fread data (st_start s + st_off s) k)) = k.
Proof.
  intros H Hk Hle; break_wf H. unfold fread; cbn [fst abs_stream a_content].
  split.
  - apply slice_slice; lia.
  - apply zlen_slice; lia.
Qed.

Lemma readall_ok w i s :
  wf w -> nth_error (w_streams w) i = Some s ->
  let '(w', x) := do_readall true w i s in
  let '(s', y) := spec_read (abs_stream (w_data w) s) (zlen (a_content (abs_stream (w_data w) s))) in
  x = y /\ abs w' = aset i s' (abs w) /\ wf w' /\ w_data w' = w_data w.
Proof.
  intros Hw Hn.
  assert (Hs : wf_stream (w_data w) s).
  { eapply Forall_forall in Hw; [exact Hw|]. eapply nth_error_In; eauto. }
  pose proof (content_len _ _ Hs) as Hc. pose proof Hs as Hs'. break_wf Hs'.
  unfold do_readall, spec_read. rewrite Hc. cbn [abs_stream a_pos].
  destruct (st_len s - st_off s >? 0) eqn:E.
  - destruct (st_off s >=? st_len s) eqn:E2; [lia|].
    destruct (fread_fixed (w_data w) s (st_len s - st_off s) Hs ltac:(lia) ltac:(lia)) as [F1 F2].
    destruct (fread (w_data w) (st_start s + st_off s) (st_len s - st_off s)) as [d pos'] eqn:Ef.
    cbn [fst] in F1, F2.
    replace (Z.min (st_len s - st_off s) (st_len s)) with (st_len s - st_off s) by lia.
    destruct (upd_ok w i s (with_off s (st_off s + (st_len s - st_off s))) pos' Hw Hn) as (A & B & C).
    { apply wf_with_off; auto; lia. }
    split; [rewrite F1; reflexivity|]. split; [|split]; auto.
  - destruct (st_off s >=? st_len s) eqn:E2; [|lia].
    split; [reflexivity|]. split; [|split]; auto.
    unfold aset. symmetry. apply set_same. unfold abs. rewrite nth_error_abs, Hn. reflexivity.
Qed.

Lemma stream_wf w i s : wf w -> nth_error (w_streams w) i = Some s -> wf_stream (w_data w) s.
Proof. intros Hw Hn. eapply Forall_forall in Hw; [exact Hw|]. eapply nth_error_In; eauto. Qed.

Lemma aset_same w i s : nth_error (w_streams w) i = Some s -> abs w = aset i (abs_stream (w_data w) s) (abs w).
Proof.
  intros Hn. unfold aset. symmetry. apply set_same. unfold abs. rewrite nth_error_abs, Hn. reflexivity.
Qed.

(* read with an explicit non-negative size *)
Lemma readn_ok w i s size :
  wf w -> nth_error (w_streams w) i = Some s -> 0 <= size -> st_off s < st_len s ->
  let readsize := Z.min (st_len s - st_off s) size in
  let '(d, pos') := fread (w_data w) (st_start s + st_off s) readsize in
  let '(s', y) := spec_read (abs_stream (w_data w) s) size in
  OBytes d = y /\ a_with (abs_stream (w_data w) s) (st_off s + readsize) = s' /\ zlen d = readsize.
Proof.
  intros Hw Hn Hsz Hlt. pose proof (stream_wf _ _ _ Hw Hn) as Hs.
  pose proof (content_len _ _ Hs) as Hc. pose proof Hs as Hs'. break_wf Hs'.
  cbv zeta. unfold spec_read. rewrite Hc. cbn [abs_stream a_pos].
  destruct (st_off s >=? st_len s) eqn:E2; [lia|].
  destruct (fread_fixed (w_data w) s (Z.min (st_len s - st_off s) size) Hs ltac:(lia) ltac:(lia)) as [F1 F2].
  destruct (fread (w_data w) (st_start s + st_off s) (Z.min (st_len s - st_off s) size)) as [d pos'] eqn:Ef.
  cbn [fst] in F1, F2. split; [rewrite F1; reflexivity|]. split; [reflexivity|exact F2].
Qed.

Lemma read_ok w i s n :
  wf w -> nth_error (w_streams w) i = Some s ->
  let '(w', x) := do_read true w i s n in
  let len := zlen (a_content (abs_stream (w_data w) s)) in
  let want := match n with None => len | Some k => if k <? 0 then len else k end in
  let '(s', y) := spec_read (abs_stream (w_data w) s) want in
  x = y /\ abs w' = aset i s' (abs w) /\ wf w' /\ w_data w' = w_data w.
Proof.
  intros Hw Hn. pose proof (stream_wf _ _ _ Hw Hn) as Hs.
  pose proof (content_len _ _ Hs) as Hc. pose proof Hs as Hs'. break_wf Hs'.
  unfold do_read. cbv zeta.
  destruct (st_off s >=? st_len s) eqn:E.
  - (* at or past EOF *)
    unfold spec_read. rewrite Hc. cbn [abs_stream a_pos]. rewrite E.
    split; [reflexivity|]. split; [apply aset_same; exact Hn|]. split; auto.
  - destruct n as [size|].
    + destruct (size <? 0) eqn:En.
      * pose proof (readall_ok w i s Hw Hn) as H. exact H.
      * pose proof (readn_ok w i s size Hw Hn ltac:(lia) ltac:(lia)) as H. cbv zeta in H.
        destruct (fread (w_data w) (st_start s + st_off s) (Z.min (st_len s - st_off s) size)) as [d pos'].
        destruct (spec_read (abs_stream (w_data w) s) size) as [s' y].
        destruct H as (H1 & H2 & H3).
        destruct (upd_ok w i s (with_off s (st_off s + Z.min (st_len s - st_off s) size)) pos' Hw Hn) as (A & B & C).
        { apply wf_with_off; auto; lia. }
        rewrite abs_with_off, H2 in A. auto.
    + pose proof (readall_ok w i s Hw Hn) as H. exact H.
Qed.

Lemma readinto_ok w i s k :
  wf w -> nth_error (w_streams w) i = Some s -> 0 <= k ->
  let '(w', x) := do_readinto true w i s k in
  let '(s', y) := spec_read (abs_stream (w_data w) s) (Z.max k 0) in
  x = y /\ abs w' = aset i s' (abs w) /\ wf w' /\ w_data w' = w_data w.
Proof.
  intros Hw Hn Hk. pose proof (stream_wf _ _ _ Hw Hn) as Hs.
  pose proof (content_len _ _ Hs) as Hc. pose proof Hs as Hs'. break_wf Hs'.
  unfold do_readinto. cbv zeta. replace (Z.max k 0) with k by lia.
  destruct (st_len s - st_off s >? 0) eqn:E.
  - pose proof (readn_ok w i s k Hw Hn ltac:(lia) ltac:(lia)) as H. cbv zeta in H.
    destruct (fread (w_data w) (st_start s + st_off s) (Z.min (st_len s - st_off s) k)) as [d pos'].
    destruct (spec_read (abs_stream (w_data w) s) k) as [s' y].
    destruct H as (H1 & H2 & H3).
    destruct (upd_ok w i s (with_off s (st_off s + zlen d)) pos' Hw Hn) as (A & B & C).
    { apply wf_with_off; auto; lia. }
    rewrite abs_with_off, H3, H2 in A. rewrite <- H3 in A. auto.
  - unfold spec_read. rewrite Hc. cbn [abs_stream a_pos].
    destruct (st_off s >=? st_len s) eqn:E2; [|lia].
    split; [reflexivity|]. split; [apply aset_same; exact Hn|]. split; auto.
Qed.

Lemma seek_ok w i s off wh :
  wf w -> nth_error (w_streams w) i = Some s ->
  let '(w', x) := do_seek w i s off wh in
  let a := abs_stream (w_data w) s in
  let len := zlen (a_content a) in
  let target := if wh =? 0 then Some off else if wh =? 1 then Some (a_pos a + off)
                else if wh =? 2 then Some (len + off) else None in
  let '(l', y) := match target with
                  | Some t => if t <? 0 then (abs w, ORefused) else (aset i (a_with a t) (abs w), OInt t)
                  | None => (abs w, ORefused) end in
  x = y /\ abs w' = l' /\ wf w' /\ w_data w' = w_data w.
Proof.
  intros Hw Hn. pose proof (stream_wf _ _ _ Hw Hn) as Hs.
  pose proof (content_len _ _ Hs) as Hc. pose proof Hs as Hs'. break_wf Hs'.
  unfold do_seek. cbv zeta. rewrite Hc. cbn [abs_stream a_pos].
  destruct (wh =? 0) eqn:W0.
  { destruct (off <? 0) eqn:E; [auto|].
    match goal with |- context [upd w i ?s' ?p] =>
      destruct (upd_ok w i s s' p Hw Hn) as (A & B & C); [apply wf_with_off; auto; lia|] end.
    rewrite abs_with_off in A. auto. }
  destruct (wh =? 1) eqn:W1.
  { destruct (st_off s + off <? 0) eqn:E; [auto|].
    match goal with |- context [upd w i ?s' ?p] =>
      destruct (upd_ok w i s s' p Hw Hn) as (A & B & C); [apply wf_with_off; auto; lia|] end.
    rewrite abs_with_off in A. auto. }
  destruct (wh =? 2) eqn:W2; [|auto].
  destruct ((off <? 0) && (Z.abs off >? st_len s)) eqn:E.
  { apply andb_prop in E. destruct (st_len s + off <? 0) eqn:E3; [auto|lia]. }
  destruct (st_len s + off <? 0) eqn:E3.
  { apply andb_false_iff in E. lia. }
  match goal with |- context [upd w i ?s' ?p] =>
    destruct (upd_ok w i s s' p Hw Hn) as (A & B & C); [apply wf_with_off; auto; lia|] end.
  rewrite abs_with_off in A. auto.
Qed.

Lemma step_refines w o : wf w -> op_ok (w_data w) o -> step_ok w o.
Proof.
  intros Hw Ho. unfold step_ok.
  destruct o as [start len|i n|i|i k|i off wh|i|i|p]; cbn [step spec_step].
  - (* Open *)
    cbn [op_ok] in Ho. split; [reflexivity|]. unfold abs, wf; cbn [w_data w_streams].
    rewrite map_app. cbn [map]. split; [reflexivity|]. split; [|reflexivity].
    apply Forall_app; split; [exact Hw|]. constructor; [|constructor].
    unfold wf_stream; cbn; lia.
  - (* Read *)
    unfold abs at 1. rewrite nth_error_abs.
    destruct (nth_error (w_streams w) i) as [s|] eqn:Hn; cbn [option_map]; [|auto].
    cbn [abs_stream a_open]. destruct (st_open s); [|auto].
    pose proof (read_ok w i s n Hw Hn) as H. cbv zeta in H.
    destruct (do_read true w i s n) as [w' x].
    fold (abs_stream (w_data w) s).
    match type of H with context [spec_read ?a ?b] => destruct (spec_read a b) as [s' y] end.
    exact H.
  - (* ReadAll *)
    unfold abs at 1. rewrite nth_error_abs.
    destruct (nth_error (w_streams w) i) as [s|] eqn:Hn; cbn [option_map]; [|auto].
    cbn [abs_stream a_open]. destruct (st_open s); [|auto].
    pose proof (readall_ok w i s Hw Hn) as H.
    destruct (do_readall true w i s) as [w' x].
    fold (abs_stream (w_data w) s).
    match type of H with context [spec_read ?a ?b] => destruct (spec_read a b) as [s' y] end.
    exact H.
  - (* ReadInto *)
    unfold abs at 1. rewrite nth_error_abs.
    destruct (nth_error (w_streams w) i) as [s|] eqn:Hn; cbn [option_map]; [|auto].
    cbn [abs_stream a_open]. destruct (st_open s); [|auto].
    cbn [op_ok] in Ho.
    pose proof (readinto_ok w i s k Hw Hn Ho) as H.
    destruct (do_readinto true w i s k) as [w' x].
    fold (abs_stream (w_data w) s).
    match type of H with context [spec_read ?a ?b] => destruct (spec_read a b) as [s' y] end.
    exact H.
  - (* Seek *)
    unfold abs at 1. rewrite nth_error_abs.
    destruct (nth_error (w_streams w) i) as [s|] eqn:Hn; cbn [option_map]; [|auto].
    cbn [abs_stream a_open]. destruct (st_open s); [|auto].
    pose proof (seek_ok w i s off wh Hw Hn) as H. cbv zeta in H.
    destruct (do_seek w i s off wh) as [w' x].
    fold (abs_stream (w_data w) s).
    cbn [abs_stream a_pos] in *.
    destruct (wh =? 0); [destruct (off <? 0); exact H|].
    destruct (wh =? 1); [destruct (st_off s + off <? 0); exact H|].
    destruct (wh =? 2); [|exact H].
    match type of H with context [?a <? 0] => destruct (a <? 0) end; exact H.
  - (* Tell *)
    unfold abs at 1. rewrite nth_error_abs.
    destruct (nth_error (w_streams w) i) as [s|] eqn:Hn; cbn [option_map]; [|auto].
    cbn [abs_stream a_open a_pos]. destruct (st_open s); auto.
  - (* Close *)
    unfold abs at 1. rewrite nth_error_abs.
    destruct (nth_error (w_streams w) i) as [s|] eqn:Hn; cbn [option_map]; [|auto].
    split; [reflexivity|].
    match goal with |- context [upd w i ?s' ?p] =>
      destruct (upd_ok w i s s' p Hw Hn) as (A & B & C) end.
    { pose proof (stream_wf _ _ _ Hw Hn) as Hs. exact Hs. }
    auto.
  - (* EnvSetPos *)
    split; [reflexivity|]. unfold abs, wf; cbn [w_data w_streams]. auto.
Qed.

Theorem run_refines ops : forall w,
  wf w -> Forall (op_ok (w_data w)) ops -> run true w ops = spec_run (w_data w) (abs w) ops.
Proof.
  induction ops as [|o r IH]; intros w Hw Hops; cbn [run spec_run]; [reflexivity|].
  inversion Hops as [|? ? Ho Hr]; subst.
  pose proof (step_refines w o Hw Ho) as H. unfold step_ok in H.
  destruct (step true w o) as [w' x]. destruct (spec_step (w_data w) (abs w) o) as [l' y].
  destruct H as (H1 & H2 & H3 & H4). subst x l'. f_equal.
  rewrite <- H4. apply IH; [exact H3|]. rewrite H4. exact Hr.
Qed.

(* never bytes beyond the end: every byte list returned is a slice of the stream's own content *)
(* (a corollary of refinement: spec_read only returns slices of a_content) *)

(* ---------------------------------------------------------------- the pinned original is refuted *)
Definition demo_data : list Z := [10; 11; 12; 13; 20; 21; 22; 23].
Definition demo_world : world := {| w_data := demo_data; w_pos := 0; w_streams := [] |}.
Definition interleave_ops : list sop := [Open 0 4; Open 4 4; Read 0 (Some 2)].
Definition readinto_ops : list sop := [Open 0 4; ReadInto 0 3; Read 0 (Some 3)].

Lemma interleave_refuted :
  wf demo_world /\ Forall (op_ok (w_data demo_world)) interleave_ops /\
  run false demo_world interleave_ops <> spec_run (w_data demo_world) (abs demo_world) interleave_ops.
Proof.
  split; [constructor|]. split.
  - repeat constructor; cbn; lia.
  - vm_compute. discriminate.
Qed.

Lemma readinto_refuted :
  wf demo_world /\ Forall (op_ok (w_data demo_world)) readinto_ops /\
  run false demo_world readinto_ops <> spec_run (w_data demo_world) (abs demo_world) readinto_ops.
Proof.
  split; [constructor|]. split.
  - repeat constructor; cbn; lia.
  - vm_compute. discriminate.
Qed.

(* non-vacuity: a non-trivial world and script satisfy the hypotheses of run_refines *)
Lemma refines_nonvacuous :
  exists w ops, wf w /\ Forall (op_ok (w_data w)) ops /\ length ops = 6%nat /\
                run true w ops = [OUnit; OUnit; OBytes [10; 11]; OInt 1; OBytes [21; 22; 23]; OBytes [12; 13]].
Proof.
  exists demo_world, [Open 0 4; Open 4 4; Read 0 (Some 2); Seek 1 1 0; ReadInto 1 8; Read 0 None].
  split; [constructor|]. split; [repeat constructor; cbn; lia|]. split; reflexivity.
Qed.
