(* MasterJoliet, part 4: the layout of an ISO9660+Joliet image.
     mj_end_is_nlayout_end   the extents used here end where AccountNs.nlayout ends (every state)
     mj_regions              20 = L(iso) <= M(iso) <= L(joliet) <= M(joliet) <= ISO9660 directories <=
                             Joliet directories <= file data <= end <= 2^32
     mj_fext_range / mj_len_range   every file extent and file length fits 32 bits
     mj_ino_inside / mj_ino_disjoint  the data of an inode lies in [mj_data_start, mj_end); the data of
                             different inodes do not overlap
     mj_wf_of_ninv           a state that satisfies the invariant of AccountNs is mj_wf *)
From Coq Require Import ZArith List Bool Lia ZifyBool.
From PV.Base Require Import Prim ListX.
From PV.Gen Require Import GenConst GenFun.
From PV.Model Require Import Codec Pack PathTable Master MasterJoliet.
From PV.Model Require Alloc Account AccountLinks AccountNs Checksums.
From PV.Proofs Require Import PackProofs PathTableLemmas PathTableProofs.
From PV.Proofs Require AccountLemmas AccountLinksLemmas AccountNsLemmas AccountNsInv AccountNsProofs.
From PV.Proofs Require Import MasterPack MasterBfs MasterWf MasterJolietWf.
Import ListNotations.
Local Open Scope Z_scope.
Ltac Zify.zify_post_hook ::= Z.to_euclidean_division_equations.

(* ---- the end of the layout --------------------------------------------------------------------------- *)

Lemma mj_data_start_closed s :
  mj_data_start s = 20 + 2 * AccountNs.ipe s + 2 * AccountNs.jpe s
                    + AccountLinks.ltotal AccountLinks.lw_dblk (AccountNs.niso s)
                    + AccountLinks.ltotal AccountLinks.lw_dblk (AccountNs.njol s).
Proof.
  unfold mj_data_start, mj_jdir_start, mj_idir_start, mj_jptm, mj_jptl, mj_iptm, mj_iptl.
  rewrite !mj_assign_end. lia.
Qed.

Theorem mj_end_is_nlayout_end s : mj_end s = AccountNs.nlayout_end s.
Proof.
  unfold mj_end, AccountNs.nlayout_end, Alloc.bump_end, AccountNs.nobjects.
  rewrite !AccountLemmas.zsum_app. unfold AccountNs.nvisit_i, AccountNs.nvisit_j.
  rewrite !AccountNsLemmas.dirs_sum, mj_data_start_closed.
  change (Alloc.zsum [16; 1; 1; 1; 1; AccountNs.ipe s; AccountNs.ipe s; AccountNs.jpe s; AccountNs.jpe s])
    with (16 + (1 + (1 + (1 + (1 + (AccountNs.ipe s + (AccountNs.ipe s + (AccountNs.jpe s + (AccountNs.jpe s + 0))))))))).
  unfold mj_ino_sizes, mj_ino_len. change Account.C with BS. lia.
Qed.

(* ---- a table of placed objects ------------------------------------------------------------------------ *)

Lemma mj_assoc_bump (f : nat -> Z) : forall ks start, NoDup ks -> (forall i, In i ks -> 0 <= f i) ->
  let L := combine ks (Alloc.bump start (map f ks)) in
  (forall i, In i ks -> start <= mj_assoc i L /\ mj_assoc i L + f i <= start + Alloc.zsum (map f ks)) /\
  (forall i j, In i ks -> In j ks -> i <> j ->
     mj_assoc i L + f i <= mj_assoc j L \/ mj_assoc j L + f j <= mj_assoc i L).
Proof.
  induction ks as [|k r IH]; intros start Hnd Hf L; [split; intros; contradiction|].
  inversion Hnd as [|? ? Hk Hr]; subst.
  assert (Hfr : forall i, In i r -> 0 <= f i) by (intros i Hi; apply Hf; right; exact Hi).
  destruct (IH (start + f k) Hr Hfr) as [B D]. clear IH.
  assert (Hk0 : 0 <= f k) by (apply Hf; left; reflexivity).
  assert (Hz : 0 <= Alloc.zsum (map f r)).
  { apply AllocProofs.zsum_nonneg. apply Forall_forall. intros x Hx. apply in_map_iff in Hx.
    destruct Hx as (i & <- & Hi). apply Hfr. exact Hi. }
  unfold L. cbn [map Alloc.bump combine].
  change (Alloc.zsum (f k :: map f r)) with (f k + Alloc.zsum (map f r)).
  assert (Hhead : mj_assoc k ((k, (start, f k)) :: combine r (Alloc.bump (start + f k) (map f r))) = start).
  { cbn [mj_assoc]. rewrite Nat.eqb_refl. reflexivity. }
  assert (Htail : forall i, In i r ->
            mj_assoc i ((k, (start, f k)) :: combine r (Alloc.bump (start + f k) (map f r)))
            = mj_assoc i (combine r (Alloc.bump (start + f k) (map f r)))).
  { intros i Hi. cbn [mj_assoc]. destruct (Nat.eqb_spec k i) as [->|_]; [contradiction|reflexivity]. }
  split.
  - intros i [<-|Hi]; [rewrite Hhead; lia|]. rewrite (Htail i Hi). specialize (B i Hi). lia.
  - intros i j [<-|Hi] [<-|Hj] Hij; try congruence.
    + rewrite Hhead, (Htail j Hj). specialize (B j Hj). lia.
    + rewrite Hhead, (Htail i Hi). specialize (B i Hi). lia.
    + rewrite (Htail i Hi), (Htail j Hj). apply D; assumption.
Qed.

Lemma mj_assoc_absent i : forall ks vs, ~ In i ks -> mj_assoc i (combine ks vs) = 0.
Proof.
  induction ks as [|k r IH]; intros vs Hn; [reflexivity|]. destruct vs as [|[e z] vs]; [reflexivity|].
  cbn [combine mj_assoc]. destruct (Nat.eqb_spec k i) as [->|_]; [exfalso; apply Hn; left; reflexivity|].
  apply IH. intros H. apply Hn. right. exact H.
Qed.

(* ---- a well-formed state ------------------------------------------------------------------------------- *)

Section Wf.
  Variable s : nstate.
  Hypothesis Hwf : mj_wf s = true.

  Lemma mj_wf_parts :
    mj_root_ok (AccountNs.niso s) = true /\ mj_root_ok (AccountNs.njol s) = true /\
    mj_tree_ok (AccountNs.niso s) = true /\ mj_tree_ok (AccountNs.njol s) = true /\
    (forall e, In e (AccountNs.nall s) -> 0 <= snd e <= Account.max_len) /\
    0 <= AccountNs.ipe s /\ 0 <= AccountNs.jpe s /\
    AccountNs.jps s = AccountLinks.ltotal AccountLinks.lw_ptr (AccountNs.njol s) /\
    ceiling_div (AccountNs.jps s) 4096 * 2 <= AccountNs.jpe s /\
    mj_end s <= 4294967296.
  Proof.
    pose proof Hwf as H. unfold mj_wf in H. repeat (apply andb_prop in H; destruct H as [H ?]).
    repeat split; try assumption; try lia.
    all: match goal with Hf : forallb _ (AccountNs.nall s) = true |- _ =>
           rewrite forallb_forall in Hf end.
    all: intros; match goal with Hf : forall x, In x _ -> _ = true, Hi : In ?e _ |- _ =>
           specialize (Hf e Hi) end; lia.
  Qed.

  Lemma mj_len_range i : 0 <= mj_ino_len s i <= Account.max_len.
  Proof.
    destruct mj_wf_parts as (_ & _ & _ & _ & Ht & _). unfold mj_ino_len.
    induction (AccountNs.nall s) as [|[j l] r IH]; cbn [AccountLinks.len_of]; [unfold Account.max_len; lia|].
    destruct (Nat.eqb j i).
    - apply (Ht (j, l)). left. reflexivity.
    - apply IH. intros e He. apply Ht. right. exact He.
  Qed.

  Lemma mj_len_range32 i : 0 <= mj_ino_len s i <= 4294967295.
  Proof. pose proof (mj_len_range i). unfold Account.max_len in *. lia. Qed.

  Lemma mj_sizes_nonneg i : 0 <= ceiling_div (mj_ino_len s i) BS.
  Proof. pose proof (mj_len_range i). apply ms_ceil_nonneg. lia. Qed.

  Lemma mj_walk_le start t : mj_tree_ok t = true -> start <= assign_end start (mj_dtree t).
  Proof.
    intros Hok. destruct (mj_dtree t) as [nm bl ks] eqn:E.
    assert (Hin : In (mk_dirrec 1 1 nm bl start [] []) (bfs start (mj_dtree t))).
    { rewrite E, bfs_unfold. left. reflexivity. }
    pose proof (ms_bfs_bounds _ _ _ (mj_blocks_ok t Hok) Hin) as B. cbn [d_extent d_blocks] in B.
    rewrite E in B. lia.
  Qed.

  Theorem mj_regions :
    mj_iptl = 20 /\ mj_iptl <= mj_iptm s /\ mj_iptm s <= mj_jptl s /\ mj_jptl s <= mj_jptm s /\
    mj_jptm s <= mj_idir_start s /\ mj_idir_start s <= mj_jdir_start s /\
    mj_jdir_start s <= mj_data_start s /\ mj_data_start s <= mj_end s /\ mj_end s <= 4294967296.
  Proof.
    destruct mj_wf_parts as (_ & _ & Hi & Hj & _ & Hpi & Hpj & _ & _ & He).
    pose proof (mj_walk_le (mj_idir_start s) _ Hi). pose proof (mj_walk_le (mj_jdir_start s) _ Hj).
    assert (Hz : 0 <= Alloc.zsum (mj_ino_sizes s)).
    { apply AllocProofs.zsum_nonneg. apply Forall_forall. intros x Hx. unfold mj_ino_sizes in Hx.
      apply in_map_iff in Hx. destruct Hx as (i & <- & _). apply mj_sizes_nonneg. }
    unfold mj_end, Alloc.bump_end in *. fold (mj_jdir_start s) in *. fold (mj_data_start s) in *.
    unfold mj_idir_start, mj_jptm, mj_jptl, mj_iptm, mj_iptl in *. repeat split; lia.
  Qed.

  Definition mj_blocks_of (i : nat) : Z := ceiling_div (mj_ino_len s i) BS.

  Lemma mj_layout_facts :
    (forall i, In i (AccountNs.nlaid_out s) ->
       mj_data_start s <= mj_assoc i (mj_ino_layout s) /\
       mj_assoc i (mj_ino_layout s) + mj_blocks_of i <= mj_end s) /\
    (forall i j, In i (AccountNs.nlaid_out s) -> In j (AccountNs.nlaid_out s) -> i <> j ->
       mj_assoc i (mj_ino_layout s) + mj_blocks_of i <= mj_assoc j (mj_ino_layout s) \/
       mj_assoc j (mj_ino_layout s) + mj_blocks_of j <= mj_assoc i (mj_ino_layout s)).
  Proof.
    apply (mj_assoc_bump mj_blocks_of (AccountNs.nlaid_out s) (mj_data_start s)).
    - apply AccountLinksLemmas.dedup_nodup.
    - intros i _. apply mj_sizes_nonneg.
  Qed.

  (* an inode has its data laid out iff some record of either hierarchy names it and it is not empty *)
  Lemma mj_laid_out_iff i :
    In i (AccountNs.nlaid_out s) <->
    0 < AccountNs.nrefcount i (AccountNs.niso s) (AccountNs.njol s) /\ mj_ino_len s i <> 0.
  Proof. apply AccountNsLemmas.nlaid_out_iff. Qed.

  Theorem mj_fext_range i : 0 <= mj_fext s i <= 4294967295.
  Proof.
    unfold mj_fext. destruct (mj_ino_len s i =? 0) eqn:E0; [lia|].
    destruct (in_dec Nat.eq_dec i (AccountNs.nlaid_out s)) as [Hin|Hout].
    - destruct mj_layout_facts as [B _]. specialize (B i Hin). destruct mj_regions as (R0 & R1 & R2 & R3 & R4 & R5 & R6 & R7 & R8).
      pose proof (mj_len_range i). unfold mj_blocks_of, ceiling_div in B. rewrite ms_BS in B.
      assert (0 < mj_ino_len s i) by lia. lia.
    - unfold mj_ino_layout. rewrite (mj_assoc_absent i _ _ Hout). lia.
  Qed.

  (* the data of an inode with data: where it is, and that it lies in the data region *)
  Theorem mj_ino_inside i : In i (AccountNs.nlaid_out s) ->
    mj_fext s i = mj_assoc i (mj_ino_layout s) /\
    mj_data_start s <= mj_fext s i /\ mj_fext s i + mj_blocks_of i <= mj_end s /\ 0 < mj_blocks_of i.
  Proof.
    intros Hin. destruct (proj1 (mj_laid_out_iff i) Hin) as [_ Hl].
    destruct mj_layout_facts as [B _]. specialize (B i Hin).
    unfold mj_fext. destruct (Z.eqb_spec (mj_ino_len s i) 0) as [E|_]; [contradiction|].
    pose proof (mj_len_range i). unfold mj_blocks_of, ceiling_div in *. rewrite ms_BS in *. lia.
  Qed.

  Theorem mj_ino_disjoint i j : In i (AccountNs.nlaid_out s) -> In j (AccountNs.nlaid_out s) -> i <> j ->
    mj_fext s i + mj_blocks_of i <= mj_fext s j \/ mj_fext s j + mj_blocks_of j <= mj_fext s i.
  Proof.
    intros Hi Hj Hij. destruct (mj_ino_inside i Hi) as [-> _]. destruct (mj_ino_inside j Hj) as [-> _].
    apply (proj2 mj_layout_facts); assumption.
  Qed.
End Wf.

(* ---- from the invariant of AccountNs --------------------------------------------------------------------- *)

Lemma mj_root_of_troot t : AccountNsLemmas.troot_ok t -> mj_root_ok t = true /\ mj_name_ok (lname t) = true.
Proof.
  intros [Hn Hd]. destruct t as [nm i st|nm dl kids]; [discriminate|]. cbn [AccountLinks.lname] in Hn.
  subst nm. split; reflexivity.
Qed.

Theorem mj_wf_of_ninv k s : AccountNsInv.NInv k s -> AccountNs.nlayout_end s <= 4294967296 ->
  mj_dl_ok (AccountNs.niso s) = true -> mj_dl_ok (AccountNs.njol s) = true -> mj_wf s = true.
Proof.
  intros HI Hend Hdi Hdj. destruct HI.
  destruct (mj_root_of_troot _ ninv_iroot) as [Ri Ni]. destruct (mj_root_of_troot _ ninv_jroot) as [Rj Nj].
  unfold mj_wf. rewrite Ri, Rj, (mj_of_lall_ok _ Ni Hdi ninv_itree), (mj_of_lall_ok _ Nj Hdj ninv_jtree).
  cbn [andb]. destruct ninv_iptr as [Hi0 Hie]. destruct ninv_jptr as [Hj0 Hje].
  assert (Ht : forallb (fun e : nat * Z => (0 <=? snd e) && (snd e <=? Account.max_len)) (AccountNs.nall s) = true).
  { unfold AccountNs.nall. rewrite ninv_orph, app_nil_r. apply forallb_forall. intros e He.
    rewrite Forall_forall in ninv_len. specialize (ninv_len e He). lia. }
  rewrite Ht, <- ninv_jptr_sum, Z.eqb_refl, mj_end_is_nlayout_end. cbn [andb].
  unfold ceiling_div in *. repeat (apply andb_true_intro; split); lia.
Qed.

Print Assumptions mj_end_is_nlayout_end.
Print Assumptions mj_regions.
Print Assumptions mj_fext_range.
Print Assumptions mj_ino_disjoint.
Print Assumptions mj_wf_of_ninv.
