(* C11 / C02 -- Model/BootParse.v, part 8 (current code, commits 063269b + 9223b0e): a boot file without
   directory record comes back with ALL of its bytes and with the blocks it was written with, and the
   reopened state satisfies AccountBoot's invariant: pvd.space_size is again the end of the layout, and it
   stays so under every further edit history. *)
From Coq Require Import ZArith List Bool Lia ZifyBool Sorted Arith Permutation.
From PV.Base Require Import Prim.
From PV.Gen Require Import GenConst GenFun.
From PV.Model Require Import Names Checksums Pack Alloc Codec Eltorito Account AccountLinks AccountBoot BootParse.
From PV.Proofs Require Import PackProofs AllocProofs ChecksumsArithProofs AccountLemmas AccountProofs
     AccountLinksLemmas AccountLinksPurge AccountLinksInv EltoritoCatalogProofs EltoritoBuiltProofs
     AccountBootLemmas AccountBootInv AccountBootInv2 AccountBootFix AccountBootProofs BootParseLayout
     BootParseCat BootParseWalk BootParseLink BootParseTable BootParseReopen BootParseRoom.
Import ListNotations.
Local Open Scope Z_scope.
Ltac Zify.zify_post_hook ::= Z.to_euclidean_division_equations.

Section Exact.
  Variable s : bstate.
  Hypothesis HI : BInv s.
  Hypothesis HF : BFix s.
  Let tbl := linodes (bl s).
  Let t1 := bp_named_tbl (lnext (bl s)) tbl (lvisit (bl s)) [].
  Let ks := bp_nonempty_ids t1.

  Lemma bp_ks_placed : Forall (bp_placed s) ks.
  Proof.
    apply Forall_forall. intros j Hj. apply bp_nonempty_in in Hj. destruct Hj as (v & H1 & H2).
    destruct (bp_t1_in s j v H1) as [[H0 _]|(_ & _ & Hp & _)]; [contradiction|exact Hp].
  Qed.

  Lemma bp_ks_covers j : bp_placed s j -> 0 < lrefcount j (lroot (bl s)) -> In j ks.
  Proof.
    intros [Hp1 Hp2] Hr. destruct (bp_ref_visit (bl s) j Hr) as (nm & st & Hv).
    apply bp_nonempty_in. exists (len_of j tbl). split; [|exact Hp2].
    assert (Hlt : forall k, In k (ids tbl) -> (k < lnext (bl s))%nat).
    { intros k Hk. destruct (Nat.lt_ge_cases k (lnext (bl s))) as [H|H]; [exact H|].
      destruct (bi_fresh s HI k H) as [_ Hn]. contradiction. }
    apply (bp_named_covers (lnext (bl s)) tbl nm j st); [exact Hv|apply ab_has_ino_in, Hp1|exact Hp2|reflexivity].
  Qed.

  (* the length of every boot file without directory record in the reopened object *)
  Theorem bp_hidden_length b i v : bboot s = Some b ->
    In (i, v) (bp_hidden Cur s (binos b) (combine (binos b) (cat_scs (bcat b))) ks) ->
    In i (binos b) /\ lrefcount i (lroot (bl s)) = 0 /\
    v = if mem i (bbits s) && (64 <=? len_of i tbl) then len_of i tbl else blk_of s i * C.
  Proof.
    intros Hb Hin. pose proof (bp_binos_of s HI b Hb) as Hes.
    assert (Hi : In i (binos b)).
    { rewrite <- Hes. eapply bp_hidden_ids. eapply bp_in_ids, Hin. }
    split; [exact Hi|]. split.
    - destruct (proj2 (bp_hidden_nodup Cur s (binos b) (combine (binos b) (cat_scs (bcat b))) ks) i (bp_in_ids _ _ _ Hin)).
      pose proof (lrefcount_nonneg i (lroot (bl s))) as Hn.
      destruct (Z_lt_le_dec 0 (lrefcount i (lroot (bl s)))) as [Hr|Hr]; [|lia].
      assert (Hp : bp_placed s i).
      { apply (bp_entry_placed s HI HF). rewrite Hb. cbn [erefs]. apply ab_count_pos, Hi. }
      pose proof (bp_ks_covers i Hp Hr) as Hk. apply ab_mem_in in Hk.
      pose proof (proj2 (bp_hidden_nodup Cur s (binos b) (combine (binos b) (cat_scs (bcat b))) ks) i (bp_in_ids _ _ _ Hin)).
      fold ks in Hk. congruence.
    - destruct (bp_hidden_in Cur s (binos b) i v _ _ Hin) as (sc & known' & K1 & K2 & _ & ->).
      apply (bp_newlen_cur s HI HF b known' i sc Hb Hi).
      + apply Forall_forall. intros k Hk. destruct (K2 k Hk) as [Hk'|Hk'].
        * pose proof bp_ks_placed as P. rewrite Forall_forall in P. apply P, Hk'.
        * rewrite Hes in Hk'. apply (bp_entry_placed s HI HF). rewrite Hb. cbn [erefs]. apply ab_count_pos, Hk'.
      + intros j Hj Hr. apply K1, bp_ks_covers; assumption.
  Qed.

  Hypothesis HS : bp_stamps_ok s.

  Theorem bp_blocks_kept_cur : bp_blocks_kept s.
  Proof.
    unfold bp_blocks_kept, bp_blocks_kept_gen. intros i He.
    destruct (bboot s) as [b|] eqn:Hb; [|cbn in He; lia]. cbn [erefs] in He. apply ab_count_pos in He.
    pose proof (bp_t_some Cur s b Hb) as Ht. fold tbl t1 ks in Ht.
    pose proof (bp_binos_of s HI b Hb) as Hes.
    destruct (bp_hidden_covers s Cur (binos b) i (combine (binos b) (cat_scs (bcat b))) ks) as [H|H]; [rewrite Hes; exact He| |].
    - apply ab_mem_in in H. apply bp_nonempty_in in H. destruct H as (v & H1 & H2).
      destruct (bp_t1_in s i v H1) as [[H0 _]|(_ & Hv & _ & _)]; [contradiction|].
      assert (Hin : In (i, v) (linodes (bl (reopened_gen Cur s)))) by (rewrite Ht; apply in_or_app; left; exact H1).
      rewrite (bp_t_len Cur s HI HF HS i v Hin), Hv. reflexivity.
    - apply in_map_iff in H. destruct H as ([k v] & Hk & Hin2). cbn [fst] in Hk. subst k.
      assert (Hin : In (i, v) (linodes (bl (reopened_gen Cur s)))) by (rewrite Ht; apply in_or_app; right; exact Hin2).
      rewrite (bp_t_len Cur s HI HF HS i v Hin).
      destruct (bp_hidden_length b i v Hb Hin2) as (_ & _ & ->).
      destruct (mem i (bbits s) && (64 <=? len_of i tbl)); [reflexivity|].
      pose proof (bp_len_nonneg s i HI) as Hn. unfold blocks_of, blk_of, ceiling_div, C, tbl in *. lia.
  Qed.

  (* THE invariant is back *)
  Theorem bp_reopened_inv_cur : BInv (reopened s).
  Proof. apply (bp_reopened_inv Cur s HI HF HS bp_blocks_kept_cur). Qed.

  (* the current code keeps the boot files non-empty and the tables on boot files *)
  Theorem bp_reopened_fix_cur : BFix (reopened s).
  Proof.
    unfold reopened. split.
    - intros i He. assert (He' : 0 < erefs i (bboot s)).
      { unfold reopened_gen in He. destruct (bboot s); exact He. }
      pose proof (bp_blocks_kept_cur i He') as Hk. destruct (bp_entry_placed s HI HF i He') as [_ Hp].
      pose proof (bp_len_nonneg s i HI) as Hn. intros E0. fold (reopened s) in E0. unfold reopened in E0. rewrite E0 in Hk.
      unfold blocks_of, ceiling_div, C in *. lia.
    - intros i Hi. unfold reopened_gen in *. destruct (bboot s) as [b|]; cbn [bbits bboot erefs] in *; [|destruct Hi].
      apply dedup_in in Hi. destruct Hi as [Hi _]. apply filter_In in Hi. destruct Hi as [Hi _]. apply ab_count_pos, Hi.
  Qed.
End Exact.

Print Assumptions bp_reopened_inv_cur.
Print Assumptions bp_reopened_fix_cur.
