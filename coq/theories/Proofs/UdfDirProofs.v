(* Proofs about Model/UdfDir.v: the bookkeeping of one UDF directory over EVERY history of
   adds / removes (refused operations included), started from a freshly created directory.

   Main results
     udfdir_inv            info_len = length(parent FID) + sum of length(len(fi)); alloc_descs[0] = info_len;
                           blocks granted (1 + sum of the returned deltas) = ceiling_div(info_len, 2048)
     udfdir_lbr_fresh      log_block_recorded = ceiling_div(info_len, 2048) after every history (both
                           add and remove assign it) ; udfdir_refused_unchanged ; udfdir_lbr_never_read
     udfdir_names          parent first, then the names duplicate-free in INSERTION order; exact
                           acceptance conditions; refused operations change nothing
     udfdir_layout         descriptor lengths / tag locations (Fid.fid_locations) / blocks of the area
     udfdir_layout_bytes   the bytes _write_fp emits for the area: one record() per fi_desc, total info_len
     udfdir_reopen         tracking the descriptors back at parse time rebuilds the same list
   All closed under the global context (Print Assumptions at the end). *)
From Coq Require Import ZArith List Bool Lia ZifyBool.
From PV.Base Require Import Prim ListX.
From PV.Gen Require Import GenConst GenFun.
From PV.Model Require Import Codec Fid Udf UdfDir.
From PV.Proofs Require Import ChecksumsArithProofs CodecProofs FidProofs UdfProofs UdfFidProofs.
Import ListNotations.
Local Open Scope Z_scope.
Ltac Zify.zify_post_hook ::= Z.to_euclidean_division_equations.

(* ---- small facts ---- *)
Lemma zl_eqb_iff a : forall b, zlist_eqb a b = true <-> a = b.
Proof.
  induction a as [|x a IH]; intros [|y b]; cbn [zlist_eqb]; split; intros H;
    try reflexivity; try discriminate.
  - apply andb_prop in H. destruct H as [H1 H2]. apply Z.eqb_eq in H1. apply IH in H2. congruence.
  - injection H as -> ->. rewrite Z.eqb_refl. apply IH. reflexivity.
Qed.
Lemma zl_eqb_refl a : zlist_eqb a a = true.
Proof. apply zl_eqb_iff. reflexivity. Qed.

Lemma fzsum_app a b : Fid.zsum (a ++ b) = Fid.zsum a + Fid.zsum b.
Proof. unfold Fid.zsum. induction a as [|x a IH]; cbn [app fold_right]; lia. Qed.
Lemma fzsum_cons x a : Fid.zsum (x :: a) = x + Fid.zsum a.
Proof. reflexivity. Qed.

Lemma fid_len0 : udf_fid_length 0 = 40.
Proof. reflexivity. Qed.
Lemma fid_length_range n : 0 <= n <= 254 -> 40 <= udf_fid_length n <= 296.
Proof. intros H. unfold udf_fid_length, udf_fid_pad. destruct (Z.gtb_spec n 0); lia. Qed.

(* the length the code books for a child: UDFFileIdentifierDescriptor.length(len(fi)) *)
Definition clen (c : list Z * bool) : Z := udf_fid_length (zlen (fst c)).
Lemma clen_sum_nonneg cs : 0 <= Fid.zsum (map clen cs).
Proof.
  induction cs as [|c r IH]; cbn [map]; [unfold Fid.zsum; cbn; lia|]. rewrite fzsum_cons.
  pose proof (fid_length_lower (zlen (fst c)) (zlen_nonneg _)). unfold clen at 1. lia.
Qed.

(* the names left when [n] is deleted: the others keep their relative order *)
Definition remove_name (n : list Z) (cs : list (list Z * bool)) : list (list Z * bool) :=
  filter (fun c => negb (zlist_eqb (fst c) n)) cs.
Definition find_name (n : list Z) (cs : list (list Z * bool)) : option (list Z * bool) :=
  find (fun c => zlist_eqb (fst c) n) cs.

Lemma remove_name_notin n cs : ~ In n (map fst cs) -> remove_name n cs = cs.
Proof.
  induction cs as [|c r IH]; intros H; [reflexivity|]. unfold remove_name. cbn [filter].
  destruct (zlist_eqb (fst c) n) eqn:E.
  - apply zl_eqb_iff in E. exfalso. apply H. left. exact E.
  - cbn [negb]. f_equal. apply IH. intros Hin. apply H. right. exact Hin.
Qed.

Lemma find_name_present cs n d : NoDup (map fst cs) -> In (n, d) cs -> find_name n cs = Some (n, d).
Proof.
  induction cs as [|c r IH]; intros Hnd Hin; [destruct Hin|]. cbn [map] in Hnd.
  inversion Hnd as [|? ? Hc Hr]; subst. unfold find_name. cbn [find]. destruct Hin as [->|Hin].
  - cbn [fst]. rewrite zl_eqb_refl. reflexivity.
  - destruct (zlist_eqb (fst c) n) eqn:E.
    + apply zl_eqb_iff in E. exfalso. apply Hc. rewrite E. change n with (fst (n, d)). apply in_map. exact Hin.
    + apply IH; assumption.
Qed.

Lemma find_name_missing cs n : ~ In n (map fst cs) -> find_name n cs = None.
Proof.
  intros H. unfold find_name. destruct (find _ cs) as [c|] eqn:E; [|reflexivity].
  apply find_some in E. destruct E as [Hin E]. apply zl_eqb_iff in E. exfalso. apply H.
  rewrite <- E. apply in_map. exact Hin.
Qed.

Lemma find_name_split cs n c : NoDup (map fst cs) -> find_name n cs = Some c ->
  fst c = n /\ exists l1 l2, cs = l1 ++ c :: l2 /\ remove_name n cs = l1 ++ l2.
Proof.
  induction cs as [|c0 r IH]; intros Hnd Hf; [discriminate|]. cbn [map] in Hnd.
  inversion Hnd as [|? ? Hc Hr]; subst. unfold find_name in Hf. cbn [find] in Hf.
  unfold remove_name. cbn [filter]. destruct (zlist_eqb (fst c0) n) eqn:E.
  - apply some_inv in Hf. subst c0. apply zl_eqb_iff in E. split; [exact E|]. exists [], r.
    split; [reflexivity|]. cbn [negb app]. apply remove_name_notin. rewrite <- E. exact Hc.
  - destruct (IH Hr Hf) as (Hn & l1 & l2 & -> & Hrm). split; [exact Hn|]. exists (c0 :: l1), l2.
    split; [reflexivity|]. cbn [negb app]. f_equal. exact Hrm.
Qed.

(* take_first over the children = find + delete *)
Lemma take_first_children cs n : NoDup (map fst cs) ->
  take_first n (map child_fident cs) =
  match find_name n cs with
  | Some c => Some (child_fident c, map child_fident (remove_name n cs))
  | None => None
  end.
Proof.
  induction cs as [|c r IH]; intros Hnd; [reflexivity|]. cbn [map] in Hnd.
  inversion Hnd as [|? ? Hc Hr]; subst. unfold find_name, remove_name. cbn [map take_first find filter].
  change (fi_name (child_fident c)) with (fst c). destruct (zlist_eqb (fst c) n) eqn:E.
  - cbn [negb]. apply zl_eqb_iff in E. fold (remove_name n r). rewrite remove_name_notin; [reflexivity|].
    rewrite <- E. exact Hc.
  - cbn [negb map]. rewrite (IH Hr). unfold find_name, remove_name. destruct (find _ r); reflexivity.
Qed.

(* ---- the invariant ---- *)
Record wf (st : udfdir) (g : Z) (cs : list (list Z * bool)) : Prop := {
  wf_descs : ud_descs st = parent_fident :: map child_fident cs;
  wf_nodup : NoDup (map fst cs);
  wf_short : Forall (fun c => zlen (fst c) <= 254) cs;
  wf_info : ud_info_len st = udf_fid_length 0 + Fid.zsum (map clen cs);
  wf_ad : ud_ad_len st = ud_info_len st;
  wf_g : g = ceiling_div (ud_info_len st) 2048;
  wf_lbr : ud_lbr st = ceiling_div (ud_info_len st) 2048 }.

Lemma names_of_wf st g cs : wf st g cs -> dir_names st = cs.
Proof.
  intros W. unfold dir_names. rewrite (wf_descs _ _ _ W). cbn [filter parent_fident fi_isparent negb].
  clear W. induction cs as [|[n d] r IH]; [reflexivity|]. cbn [map filter child_fident fi_isparent negb fst snd fi_name fi_isdir].
  f_equal. exact IH.
Qed.

Lemma is_dup_children cs n d :
  udfdir_is_dup (parent_fident :: map child_fident cs) (mk_fident n d false) = true <-> In n (map fst cs).
Proof.
  unfold udfdir_is_dup. cbn [fi_isparent negb andb orb existsb parent_fident fi_name]. rewrite existsb_exists. split.
  - intros (x & Hin & Hx). apply in_map_iff in Hin. destruct Hin as (c & <- & Hc).
    unfold child_fident in Hx. cbn [fi_isparent fi_name negb andb] in Hx. apply zl_eqb_iff in Hx.
    rewrite <- Hx. apply in_map. exact Hc.
  - intros Hin. apply in_map_iff in Hin. destruct Hin as (c & <- & Hc). exists (child_fident c).
    split; [apply in_map; exact Hc|]. unfold child_fident. cbn [fi_isparent fi_name negb andb]. apply zl_eqb_refl.
Qed.

Lemma init_eq : udfdir_init_pair = (mk_udfdir [parent_fident] 40 40 1, 1).
Proof. vm_compute. reflexivity. Qed.

Lemma wf_init : wf udfdir_init udfdir_init_blocks [].
Proof.
  unfold udfdir_init, udfdir_init_blocks. rewrite init_eq. cbn [fst snd].
  constructor; cbn [ud_descs ud_info_len ud_ad_len ud_lbr map]; try reflexivity; try constructor.
Qed.

(* ---- Add ---- *)
Lemma add_refused st g cs n d : wf st g cs -> In n (map fst cs) \/ 254 < zlen n ->
  udfdir_step 2048 st (Add n d) = (st, false, 0).
Proof.
  intros W H. unfold udfdir_step. destruct (255 <? zlen n + 1) eqn:E; [reflexivity|].
  destruct H as [H|H]; [|lia]. unfold udfdir_add. rewrite (wf_descs _ _ _ W).
  apply is_dup_children with (d := d) in H. rewrite H. reflexivity.
Qed.

Lemma add_fresh st g cs n d : wf st g cs -> ~ In n (map fst cs) -> zlen n <= 254 ->
  exists st' dl, udfdir_step 2048 st (Add n d) = (st', true, dl) /\ wf st' (g + dl) (cs ++ [(n, d)]) /\
                 ud_lbr st' = ceiling_div (ud_info_len st') 2048 /\ 0 <= dl.
Proof.
  intros W Hn Hl. unfold udfdir_step. destruct (255 <? zlen n + 1) eqn:E; [lia|]. clear E.
  unfold udfdir_add. rewrite (wf_descs _ _ _ W).
  destruct (udfdir_is_dup _ _) eqn:Ed; [apply is_dup_children in Ed; contradiction|]. cbn [fi_name].
  pose proof (clen_sum_nonneg cs) as Hs. pose proof (wf_info _ _ _ W) as Hi. rewrite fid_len0 in Hi.
  pose proof (fid_add_delta 2048 (ud_info_len st) (zlen n) ltac:(lia) ltac:(lia) (zlen_nonneg n)) as Ha.
  destruct (fid_add 2048 (ud_info_len st) (zlen n)) as [info' dl]. destruct Ha as (Ha1 & Ha2 & Ha3).
  eexists. exists dl. split; [reflexivity|]. split; [|split; [reflexivity|exact Ha3]].
  constructor; cbn [ud_descs ud_info_len ud_ad_len ud_lbr].
  - rewrite map_app. reflexivity.
  - rewrite map_app. apply NoDup_app_single; [exact (wf_nodup _ _ _ W)|exact Hn].
  - apply Forall_app. split; [exact (wf_short _ _ _ W)|]. constructor; [exact Hl|constructor].
  - rewrite map_app, fzsum_app. cbn [map]. rewrite fzsum_cons. unfold clen at 2. cbn [fst].
    unfold Fid.zsum at 2. cbn [fold_right]. rewrite fid_len0. lia.
  - reflexivity.
  - rewrite (wf_g _ _ _ W). lia.
  - reflexivity.
Qed.

(* ---- Remove ---- *)
Lemma remove_missing st g cs n ne : wf st g cs -> ~ In n (map fst cs) ->
  udfdir_step 2048 st (Remove n ne) = (st, false, 0).
Proof.
  intros W Hn. unfold udfdir_step, udfdir_remove. rewrite (wf_descs _ _ _ W). cbn [take_first].
  change (fi_name parent_fident) with (@nil Z). destruct (zlist_eqb [] n) eqn:E; [reflexivity|].
  rewrite (take_first_children _ _ (wf_nodup _ _ _ W)), (find_name_missing _ _ Hn). reflexivity.
Qed.

Lemma remove_present st g cs n d ne : wf st g cs -> In (n, d) cs ->
  (n = [] \/ d && ne = true -> udfdir_step 2048 st (Remove n ne) = (st, false, 0)) /\
  (n <> [] -> d && ne = false ->
   exists st' dl, udfdir_step 2048 st (Remove n ne) = (st', true, - dl) /\
                  wf st' (g - dl) (remove_name n cs) /\ 0 <= dl).
Proof.
  intros W Hin. pose proof (wf_nodup _ _ _ W) as Hnd.
  pose proof (find_name_present _ _ _ Hnd Hin) as Hf.
  unfold udfdir_step, udfdir_remove. rewrite (wf_descs _ _ _ W). cbn [take_first].
  change (fi_name parent_fident) with (@nil Z). destruct (zlist_eqb [] n) eqn:E.
  - apply zl_eqb_iff in E. split; [intros _; reflexivity|intros N; congruence].
  - rewrite (take_first_children _ _ Hnd), Hf.
    change (fi_isdir (child_fident (n, d))) with d. change (fi_isparent (child_fident (n, d))) with false.
    change (fi_name (child_fident (n, d))) with n. cbn [orb]. split.
    + intros [->|Hd]; [rewrite zl_eqb_refl in E; discriminate|]. rewrite Hd. reflexivity.
    + intros _ Hd. rewrite Hd.
      destruct (find_name_split _ _ _ Hnd Hf) as (_ & l1 & l2 & Hcs & Hrm).
      pose proof (wf_info _ _ _ W) as Hi. rewrite fid_len0 in Hi.
      assert (Hsum : Fid.zsum (map clen cs) = udf_fid_length (zlen n) + Fid.zsum (map clen (l1 ++ l2))).
      { rewrite Hcs, !map_app, !fzsum_app. cbn [map]. rewrite fzsum_cons. unfold clen at 2. cbn [fst]. lia. }
      pose proof (clen_sum_nonneg (l1 ++ l2)) as Hs.
      pose proof (fid_remove_delta 2048 (ud_info_len st) (zlen n) ltac:(lia) (zlen_nonneg n) ltac:(lia)) as Hr.
      destruct (fid_remove 2048 (ud_info_len st) (zlen n)) as [info' dl]. destruct Hr as (Hr1 & Hr2 & Hr3).
      eexists. exists dl. split; [reflexivity|]. split; [|exact Hr3].
      rewrite Hrm. constructor; cbn [ud_descs ud_info_len ud_ad_len ud_lbr].
      * reflexivity.
      * rewrite Hcs, map_app in Hnd. cbn [map] in Hnd. apply NoDup_remove_1 in Hnd. rewrite map_app. exact Hnd.
      * pose proof (wf_short _ _ _ W) as Hsh. rewrite Hcs in Hsh. apply Forall_app in Hsh.
        destruct Hsh as [H1 H2]. inversion H2; subst. apply Forall_app. split; assumption.
      * rewrite fid_len0. lia.
      * reflexivity.
      * rewrite (wf_g _ _ _ W). lia.
      * reflexivity.
Qed.

(* ---- every history ---- *)
Lemma name_in_dec (n : list Z) (l : list (list Z)) : {In n l} + {~ In n l}.
Proof. apply in_dec. apply list_eq_dec. apply Z.eq_dec. Qed.

Lemma step_wf st g cs o : wf st g cs ->
  exists cs', wf (fst (fst (udfdir_step 2048 st o))) (g + snd (udfdir_step 2048 st o)) cs'.
Proof.
  intros W. destruct o as [n d|n ne].
  - destruct (name_in_dec n (map fst cs)) as [Hin|Hn].
    + rewrite (add_refused _ _ _ n d W (or_introl Hin)). cbn [fst snd]. exists cs. rewrite Z.add_0_r. exact W.
    + destruct (Z_le_gt_dec (zlen n) 254) as [Hl|Hl].
      * destruct (add_fresh _ _ _ n d W Hn Hl) as (st' & dl & -> & W' & _). cbn [fst snd]. eexists. exact W'.
      * assert (Hl' : 254 < zlen n) by lia.
        rewrite (add_refused _ _ _ n d W (or_intror Hl')). cbn [fst snd]. exists cs. rewrite Z.add_0_r. exact W.
  - destruct (name_in_dec n (map fst cs)) as [Hin|Hn].
    + apply in_map_iff in Hin. destruct Hin as ([n' d] & Hn' & Hin). cbn [fst] in Hn'. subst n'.
      destruct (remove_present _ _ _ n d ne W Hin) as [Hrefuse Hok].
      destruct n as [|x n'] eqn:En.
      * rewrite (Hrefuse (or_introl eq_refl)). cbn [fst snd]. exists cs. rewrite Z.add_0_r. exact W.
      * destruct (d && ne) eqn:Ed.
        -- rewrite (Hrefuse (or_intror eq_refl)). cbn [fst snd]. exists cs. rewrite Z.add_0_r. exact W.
        -- destruct (Hok ltac:(discriminate) eq_refl) as (st' & dl & -> & W' & _). cbn [fst snd].
           eexists. replace (g + - dl) with (g - dl) by lia. exact W'.
    + rewrite (remove_missing _ _ _ n ne W Hn). cbn [fst snd]. exists cs. rewrite Z.add_0_r. exact W.
Qed.

Lemma run_step_proj sg o :
  fst (run_step sg o) = fst (fst (udfdir_step 2048 (fst sg) o)) /\
  snd (run_step sg o) = snd sg + snd (udfdir_step 2048 (fst sg) o).
Proof. unfold run_step. destruct (udfdir_step 2048 (fst sg) o) as [[st' a] dl]. split; reflexivity. Qed.

Lemma fold_wf ops : forall sg cs, wf (fst sg) (snd sg) cs ->
  exists cs', wf (fst (fold_left run_step ops sg)) (snd (fold_left run_step ops sg)) cs'.
Proof.
  induction ops as [|o r IH]; intros sg cs W; cbn [fold_left]; [exists cs; exact W|].
  destruct (step_wf _ _ _ o W) as (cs' & W'). destruct (run_step_proj sg o) as [E1 E2].
  apply (IH (run_step sg o) cs'). rewrite E1, E2. exact W'.
Qed.

Lemma run_wf ops : exists cs, wf (fst (udfdir_run ops)) (snd (udfdir_run ops)) cs.
Proof. unfold udfdir_run. apply (fold_wf ops _ []). exact wf_init. Qed.

Lemma run_snoc ops o : udfdir_run (ops ++ [o]) = run_step (udfdir_run ops) o.
Proof. unfold udfdir_run. rewrite fold_left_app. reflexivity. Qed.

(* ---- 1. the space granted is the space needed ---- *)
Theorem udfdir_inv ops :
  let st := fst (udfdir_run ops) in
  ud_info_len st = udf_fid_length 0 +
                   Fid.zsum (map (fun c => udf_fid_length (zlen (fst c))) (dir_names st)) /\
  ud_ad_len st = ud_info_len st /\
  snd (udfdir_run ops) = ceiling_div (ud_info_len st) 2048.
Proof.
  cbv zeta. destruct (run_wf ops) as (cs & W). rewrite (names_of_wf _ _ _ W).
  split; [exact (wf_info _ _ _ W)|]. split; [exact (wf_ad _ _ _ W)|exact (wf_g _ _ _ W)].
Qed.

(* ---- 2. log_block_recorded ---- *)
(* new(0,'dir') leaves 1 with info_len 0; the add of the parent FID assigns ceiling_div(40, 2048) = 1;
   every accepted Add and every accepted Remove assign ceiling_div(info_len', lbs); a refused
   operation assigns nothing *)
Theorem udfdir_lbr_fresh ops :
  ud_lbr (fst (udfdir_run ops)) = ceiling_div (ud_info_len (fst (udfdir_run ops))) 2048.
Proof. destruct (run_wf ops) as (cs & W). exact (wf_lbr _ _ _ W). Qed.

Corollary udfdir_lbr_is_granted ops : ud_lbr (fst (udfdir_run ops)) = snd (udfdir_run ops).
Proof. destruct (run_wf ops) as (cs & W). rewrite (wf_lbr _ _ _ W). symmetry. exact (wf_g _ _ _ W). Qed.

(* a refused operation leaves the whole state (log_block_recorded included) and the grant as they were *)
Theorem udfdir_refused_unchanged ops o :
  udfdir_accepts (fst (udfdir_run ops)) o = false -> udfdir_run (ops ++ [o]) = udfdir_run ops.
Proof.
  intros Hacc. rewrite run_snoc. unfold run_step, udfdir_accepts in *. destruct (udfdir_run ops) as [st g].
  cbn [fst snd] in *. unfold udfdir_step in *. destruct o as [n d|n ne].
  - destruct (255 <? zlen n + 1); [rewrite Z.add_0_r; reflexivity|].
    destruct (udfdir_add 2048 st _) as [[st' dl]|]; [discriminate|rewrite Z.add_0_r; reflexivity].
  - destruct (udfdir_remove 2048 st n ne) as [[st' dl]|]; [discriminate|rewrite Z.add_0_r; reflexivity].
Qed.

(* growth past a block boundary and back: seven 254-byte names take two blocks; after one of them
   is removed the area needs one block and the File Entry says one *)
Definition lbr_witness : list op :=
  map (fun k => Add (repeat 97 253 ++ [k]) false) [1; 2; 3; 4; 5; 6; 7] ++ [Remove (repeat 97 253 ++ [1]) false].
Example lbr_witness_values :
  let st := fst (udfdir_run lbr_witness) in
  (ud_info_len st, ud_lbr st, snd (udfdir_run lbr_witness)) = (1816, 1, 1).
Proof. vm_compute. reflexivity. Qed.

(* log_block_recorded is write-only for the bookkeeping: acceptance, the returned delta, fi_descs,
   info_len and alloc_descs[0] are the same whatever it holds (e.g. the value parsed from a foreign
   image), and an accepted operation overwrites it *)
Definition set_lbr (st : udfdir) (l : Z) : udfdir := mk_udfdir (ud_descs st) (ud_info_len st) (ud_ad_len st) l.
Definition core (st : udfdir) := (ud_descs st, ud_info_len st, ud_ad_len st).
Theorem udfdir_lbr_never_read lbs st l o :
  let r1 := udfdir_step lbs st o in let r2 := udfdir_step lbs (set_lbr st l) o in
  snd (fst r1) = snd (fst r2) /\ snd r1 = snd r2 /\ core (fst (fst r1)) = core (fst (fst r2)).
Proof.
  cbv zeta. destruct o as [n d|n ne]; unfold udfdir_step, udfdir_add, udfdir_remove, set_lbr;
    cbn [ud_descs ud_info_len ud_ad_len ud_lbr].
  - destruct (255 <? zlen n + 1); [repeat split|]. destruct (udfdir_is_dup _ _); [repeat split|].
    destruct (fid_add lbs (ud_info_len st) _). repeat split.
  - destruct (take_first n (ud_descs st)) as [[t r]|]; [|repeat split].
    destruct (fi_isdir t && (fi_isparent t || ne)); [repeat split|].
    destruct (fid_remove lbs (ud_info_len st) _). repeat split.
Qed.

(* ---- 3. the name list ---- *)
(* fi_descs = the parent FID, then the children in INSERTION order (append at the end, "del" keeps
   the others in place; nothing sorts the list); no two children share an fi; the exact acceptance
   conditions; a refused operation returns the state unchanged with delta 0 *)
Theorem udfdir_names ops :
  let st := fst (udfdir_run ops) in let cs := dir_names st in
  ud_descs st = parent_fident :: map child_fident cs /\
  NoDup (map fst cs) /\ Forall (fun c => zlen (fst c) <= 254) cs /\
  (forall n d, In n (map fst cs) \/ 254 < zlen n -> udfdir_step 2048 st (Add n d) = (st, false, 0)) /\
  (forall n d, ~ In n (map fst cs) -> zlen n <= 254 ->
     exists st' dl, udfdir_step 2048 st (Add n d) = (st', true, dl) /\ dir_names st' = cs ++ [(n, d)]) /\
  (forall n ne, ~ In n (map fst cs) -> udfdir_step 2048 st (Remove n ne) = (st, false, 0)) /\
  (forall n d ne, In (n, d) cs -> n = [] \/ d && ne = true ->
     udfdir_step 2048 st (Remove n ne) = (st, false, 0)) /\
  (forall n d ne, In (n, d) cs -> n <> [] -> d && ne = false ->
     exists st' dl, udfdir_step 2048 st (Remove n ne) = (st', true, - dl) /\
                    dir_names st' = remove_name n cs).
Proof.
  cbv zeta. destruct (run_wf ops) as (cs & W). rewrite (names_of_wf _ _ _ W).
  split; [exact (wf_descs _ _ _ W)|]. split; [exact (wf_nodup _ _ _ W)|]. split; [exact (wf_short _ _ _ W)|].
  split; [intros n d H; exact (add_refused _ _ _ n d W H)|]. split; [|split; [|split]].
  - intros n d Hn Hl. destruct (add_fresh _ _ _ n d W Hn Hl) as (st' & dl & E & W' & _).
    exists st', dl. split; [exact E|exact (names_of_wf _ _ _ W')].
  - intros n ne Hn. exact (remove_missing _ _ _ n ne W Hn).
  - intros n d ne Hin H. exact (proj1 (remove_present _ _ _ n d ne W Hin) H).
  - intros n d ne Hin Hne Hd. destruct (proj2 (remove_present _ _ _ n d ne W Hin) Hne Hd) as (st' & dl & E & W' & _).
    exists st', dl. split; [exact E|exact (names_of_wf _ _ _ W')].
Qed.

(* ---- 4. the identifier area ---- *)
Lemma lens_of_wf st g cs : wf st g cs -> udfdir_lens st = udf_fid_length 0 :: map clen cs.
Proof.
  intros W. unfold udfdir_lens. rewrite (wf_descs _ _ _ W). cbn [map]. f_equal. rewrite map_map. reflexivity.
Qed.

Lemma fits_children cs : Forall (fun c => zlen (fst c) <= 254) cs -> fits 2048 (map clen cs).
Proof.
  unfold fits. induction 1 as [|c r Hc Hr IH]; cbn [map]; constructor; [|exact IH].
  pose proof (fid_length_range (zlen (fst c)) (conj (zlen_nonneg _) Hc)). unfold clen. lia.
Qed.

Lemma fzsum_pos_nonneg lens : Forall (fun x => 0 < x) lens -> 0 <= Fid.zsum lens.
Proof. induction 1 as [|x r Hx Hr IH]; [unfold Fid.zsum; cbn; lia|rewrite fzsum_cons; lia]. Qed.

Lemma starts_range lens : Forall (fun x => 0 < x) lens ->
  forall acc, Forall (fun s => acc <= s < acc + Fid.zsum lens) (starts acc lens).
Proof.
  induction 1 as [|x r Hx Hr IH]; intros acc; cbn [starts]; constructor.
  - rewrite fzsum_cons. pose proof (fzsum_pos_nonneg r Hr). lia.
  - eapply Forall_impl; [|apply (IH (acc + x))]. cbv beta. intros s Hs. rewrite fzsum_cons. lia.
Qed.

(* every tag location lies inside the blocks of the area *)
Lemma locs_in_range lens : fits 2048 lens ->
  Forall (fun l => 0 <= l < ceiling_div (Fid.zsum lens) 2048) (fid_locations 2048 lens).
Proof.
  intros Hf. rewrite (fid_location_is_block_of_first_byte 2048 lens ltac:(lia) Hf).
  apply Forall_map. assert (Hp : Forall (fun x => 0 < x) lens).
  { eapply Forall_impl; [|exact Hf]. cbv beta. intros x Hx. lia. }
  eapply Forall_impl; [|apply (starts_range lens Hp 0)]. cbv beta. intros s Hs.
  rewrite (ceiling_div_spec _ 2048 ltac:(lia)). lia.
Qed.

Theorem udfdir_layout ops :
  let st := fst (udfdir_run ops) in let lens := udfdir_lens st in let blocks := snd (udfdir_run ops) in
  lens = udf_fid_length 0 :: map (fun c => udf_fid_length (zlen (fst c))) (dir_names st) /\
  fits 2048 lens /\ Fid.zsum lens = ud_info_len st /\
  fid_locations 2048 lens = map (fun s => s / 2048) (starts 0 lens) /\
  Forall (fun l => 0 <= l < blocks) (fid_locations 2048 lens) /\
  fid_blocks 2048 lens = blocks /\ udfdir_data_blocks st = blocks /\
  ud_info_len st <= 2048 * blocks.
Proof.
  cbv zeta. destruct (run_wf ops) as (cs & W). rewrite (names_of_wf _ _ _ W), (lens_of_wf _ _ _ W).
  assert (Hf : fits 2048 (udf_fid_length 0 :: map clen cs)).
  { constructor; [rewrite fid_len0; lia|exact (fits_children _ (wf_short _ _ _ W))]. }
  assert (Hs : Fid.zsum (udf_fid_length 0 :: map clen cs) = ud_info_len (fst (udfdir_run ops))).
  { rewrite fzsum_cons. symmetry. exact (wf_info _ _ _ W). }
  pose proof (wf_g _ _ _ W) as Hg. split; [reflexivity|]. split; [exact Hf|]. split; [exact Hs|].
  split; [apply fid_location_is_block_of_first_byte; [lia|exact Hf]|]. split; [|split; [|split]].
  - rewrite Hg, <- Hs. apply locs_in_range. exact Hf.
  - rewrite (fid_blocks_is_ceiling 2048 _ ltac:(lia) Hf ltac:(discriminate)), Hs. symmetry. exact Hg.
  - unfold udfdir_data_blocks. rewrite (wf_ad _ _ _ W). symmetry. exact Hg.
  - rewrite Hg, (ceiling_div_spec _ 2048 ltac:(lia)). lia.
Qed.

(* what new() + set_extent_location() + set_icb() + record() produce for one list element *)
Lemma fid_of_case_len isdir isparent enc fi tl nl il f b :
  fid_of_case isdir isparent enc fi tl nl il = Some f -> fid_record f = Some b ->
  zlen b = udf_fid_length (zlen (if isparent then [] else fi)) /\ tg_location (fd_tag f) = tl.
Proof.
  unfold fid_of_case, fid_new, fid_set_icb. cbv zeta.
  destruct (255 <? (if isparent then 0 else zlen fi + 1)) eqn:E255; [discriminate|].
  cbn [fid_set_tag_location fd_icb fd_tag fd_chars fd_len_fi fd_len_impl_use fd_fi fd_isdir fd_isparent
       fd_impl_use fd_encoding tg_ident tg_version tg_serial tg_crclen tag_new].
  destruct (longad_set_loc (longad_new 2048 2) nl il) as [icb|]; [|discriminate].
  intros H; apply some_inv in H; subst f. intros Hr. split; [|reflexivity].
  rewrite (fid_length_is_method_partial _ _ Hr).
  - reflexivity.
  - split; cbn [fd_len_impl_use fd_impl_use fd_len_fi fd_fi]; [reflexivity|].
    destruct isparent; [left; reflexivity|right; reflexivity].
  - reflexivity.
  - cbn [fd_len_fi fd_fi]. destruct isparent; [reflexivity|]. pose proof (zlen_nonneg fi). lia.
Qed.

Lemma records_lens ds : forall locs ext recs, udfdir_records ds locs ext = Some recs ->
  Forall (fun d => fi_isparent d = true -> fi_name d = []) ds ->
  map (@zlen Z) recs = map (fun e => udf_fid_length (zlen (fi_name e))) ds.
Proof.
  induction ds as [|d r IH]; intros locs ext recs H Hp.
  - destruct locs, ext; try discriminate. cbn [udfdir_records] in H. apply some_inv in H. subst recs. reflexivity.
  - destruct locs as [|l locs]; [discriminate|]. destruct ext as [|[[enc nl] il] ext]; [discriminate|].
    cbn [udfdir_records] in H. inversion Hp as [|? ? Hd Hr]; subst.
    destruct (fid_of_case _ _ enc _ l nl il) as [f|] eqn:Ef; [|discriminate].
    destruct (fid_record f) as [b|] eqn:Eb; [|discriminate].
    destruct (udfdir_records r locs ext) as [rr|] eqn:Er; [|discriminate].
    apply some_inv in H. subst recs. cbn [map]. f_equal; [|exact (IH _ _ _ Er Hr)].
    destruct (fid_of_case_len _ _ _ _ _ _ _ _ _ Ef Eb) as [Hz _]. rewrite Hz.
    destruct (fi_isparent d) eqn:Ep; [rewrite (Hd eq_refl)|]; reflexivity.
Qed.

Lemma zlen_concat (recs : list (list Z)) : zlen (concat recs) = Fid.zsum (map (@zlen Z) recs).
Proof.
  induction recs as [|x r IH]; [reflexivity|]. cbn [concat map]. rewrite zlen_app, fzsum_cons, IH. reflexivity.
Qed.

(* the bytes _write_fp emits for the directory: the parent FID's record(), then one record() per
   name in list order, each of its booked length, [info_len] bytes in all; whatever the encoding
   bytes and ICB addresses are *)
Theorem udfdir_layout_bytes ops start ext area :
  let st := fst (udfdir_run ops) in
  udfdir_area start st ext = Some area ->
  exists recs, udfdir_records (ud_descs st) (udfdir_tag_locs start st) ext = Some recs /\
               area = concat recs /\ map (@zlen Z) recs = udfdir_lens st /\
               zlen area = ud_info_len st.
Proof.
  cbv zeta. destruct (run_wf ops) as (cs & W). unfold udfdir_area.
  destruct (udfdir_records _ _ ext) as [recs|] eqn:Er; [|discriminate]. intros H. apply some_inv in H. subst area.
  exists recs. split; [reflexivity|]. split; [reflexivity|].
  assert (Hl : map (@zlen Z) recs = udfdir_lens (fst (udfdir_run ops))).
  { apply (records_lens _ _ _ _ Er). rewrite (wf_descs _ _ _ W). constructor; [intros _; reflexivity|].
    apply Forall_map. apply Forall_forall. intros c _. unfold child_fident. cbn [fi_isparent]. discriminate. }
  split; [exact Hl|]. rewrite zlen_concat, Hl, (lens_of_wf _ _ _ W), fzsum_cons. symmetry. exact (wf_info _ _ _ W).
Qed.

(* parse time: _walk_udf_directories calls track_file_ident_desc for every descriptor it meets in
   the area, in order, on the File Entry whose info_len / alloc_descs / log_block_recorded were read
   from the disc; this rebuilds the same state *)
Lemma track_fold ds : forall st, ud_descs (fold_left udfdir_track ds st) = ud_descs st ++ ds /\
  ud_info_len (fold_left udfdir_track ds st) = ud_info_len st /\
  ud_ad_len (fold_left udfdir_track ds st) = ud_ad_len st /\ ud_lbr (fold_left udfdir_track ds st) = ud_lbr st.
Proof.
  induction ds as [|d r IH]; intros st; cbn [fold_left].
  - rewrite app_nil_r. repeat split.
  - destruct (IH (udfdir_track st d)) as (H1 & H2 & H3 & H4). rewrite H1, H2, H3, H4.
    unfold udfdir_track. cbn [ud_descs ud_info_len ud_ad_len ud_lbr]. rewrite <- app_assoc. repeat split.
Qed.
Theorem udfdir_reopen st :
  fold_left udfdir_track (ud_descs st) (mk_udfdir [] (ud_info_len st) (ud_ad_len st) (ud_lbr st)) = st.
Proof.
  destruct (track_fold (ud_descs st) (mk_udfdir [] (ud_info_len st) (ud_ad_len st) (ud_lbr st))) as (H1 & H2 & H3 & H4).
  destruct (fold_left _ _ _) as [a b c d]. destruct st as [a' b' c' d'].
  cbn [ud_descs ud_info_len ud_ad_len ud_lbr app] in *. congruence.
Qed.

(* ---- non-vacuity: values observed on the library (PYTHONPATH=/repo; iso.new(udf='2.60');
   iso.add_directory(udf_path='/d'); add_fp / add_directory / rm_hard_link / rm_directory on /d/<name>;
   blocks = 1 + the changes of partitions[0].part_length minus the File Entry blocks) ---- *)
Definition nm (k : Z) : list Z := repeat 97 253 ++ [k].                 (* 'a' * 253 + chr(k) *)
Definition wide254 : list Z := concat (repeat [1; 65] 127).             (* 'Ł' * 127 in utf-16_be *)
Definition ex_history : list op :=
  map (fun k => Add (nm k) false) [1; 2; 3; 4; 5; 6; 7] ++           (* the 7th crosses into block 2 *)
  [Add (nm 3) false;                                                   (* duplicate: refused *)
   Remove [122; 122] false;                                            (* missing: refused *)
   Remove (nm 2) false; Remove (nm 5) false;                           (* back to one block *)
   Add (repeat 120 255) false;                                         (* 255 bytes: refused *)
   Add [115; 117; 98] true;                                            (* add_directory('/d/sub') *)
   Remove [115; 117; 98] true;                                         (* rm_directory, not empty: refused *)
   Add (nm 2) false; Add wide254 false;                                (* into block 2 again *)
   Remove [115; 117; 98] false].
Example ex_history_probe :
  run_probe ex_history =
  [(1, 336, 336, 1); (1, 632, 632, 1); (1, 928, 928, 1); (1, 1224, 1224, 1); (1, 1520, 1520, 1);
   (1, 1816, 1816, 1); (1, 2112, 2112, 2); (0, 2112, 2112, 2); (0, 2112, 2112, 2); (1, 1816, 1816, 1);
   (1, 1520, 1520, 1); (0, 1520, 1520, 1); (1, 1564, 1564, 1); (0, 1564, 1564, 1); (1, 1860, 1860, 1);
   (1, 2156, 2156, 2); (1, 2112, 2112, 2)] /\
  run_probe_lbr ex_history = [1; 1; 1; 1; 1; 1; 2; 2; 2; 1; 1; 1; 1; 1; 1; 2; 2] /\
  run_final_fis ex_history = [[]; nm 1; nm 3; nm 4; nm 6; nm 7; nm 2; wide254].
Proof. vm_compute. repeat split; reflexivity. Qed.

(* /d holding a (empty file), U+0141 b (3-byte file), sub (directory), written with write_fp: the
   168 bytes at the directory's data location (relative block 5), with the encodings and ICB
   addresses read back from the library objects *)
Definition ex_area_bytes : list Z :=
  [1; 1; 2; 0; 202; 0; 0; 0; 71; 98; 24; 0; 5; 0; 0; 0; 1; 0; 10; 0; 0; 8; 0; 0; 2; 0; 0; 0; 0; 0; 0; 0; 0; 0; 0; 0; 0; 0; 0; 0;
   1; 1; 2; 0; 109; 0; 0; 0; 51; 25; 24; 0; 5; 0; 0; 0; 1; 0; 0; 2; 0; 8; 0; 0; 8; 0; 0; 0; 0; 0; 0; 0; 9; 1; 0; 0; 0; 0; 8; 97;
   1; 1; 2; 0; 122; 0; 0; 0; 94; 247; 28; 0; 5; 0; 0; 0; 1; 0; 0; 5; 0; 8; 0; 0; 9; 0; 0; 0; 0; 0; 0; 0; 10; 1; 0; 0; 0; 0; 16; 1;
   65; 0; 98; 0;
   1; 1; 2; 0; 71; 0; 0; 0; 56; 234; 28; 0; 5; 0; 0; 0; 1; 0; 2; 4; 0; 8; 0; 0; 6; 0; 0; 0; 0; 0; 0; 0; 7; 1; 0; 0; 0; 0; 8; 115;
   117; 98; 0; 0].
Example ex_area :
  let st := fst (udfdir_run [Add [97] false; Add [1; 65; 0; 98] false; Add [115; 117; 98] true]) in
  udfdir_area 5 st [(8, 0, 2); (8, 265, 8); (16, 266, 9); (8, 263, 6)] = Some ex_area_bytes /\
  udfdir_tag_locs 5 st = [5; 5; 5; 5] /\ ud_info_len st = 168.
Proof. vm_compute. repeat split; reflexivity. Qed.

(* the empty directory /d/sub of the same image (data at relative block 7): its parent FID points at
   the File Entry of /d, relative block 4, with a zero impl_use -- the input (8, 0, 4) *)
Example ex_area_sub :
  udfdir_area 7 (fst (udfdir_run [])) [(8, 0, 4)] =
  Some [1; 1; 2; 0; 193; 0; 0; 0; 252; 162; 24; 0; 7; 0; 0; 0; 1; 0; 10; 0; 0; 8; 0; 0; 4; 0; 0; 0; 0; 0; 0; 0; 0; 0; 0; 0;
        0; 0; 0; 0].
Proof. vm_compute. reflexivity. Qed.

(* the harness checker: the second case has a wrong block count in its last observation *)
Example ex_bad_cases :
  bad_udfdir_cases 0
    [([Add [97] false; Add [97] true; Remove [98] false; Remove [97] false],
      [(1, 80, 80, 1); (0, 80, 80, 1); (0, 80, 80, 1); (1, 40, 40, 1)], [1; 1; 1; 1], [[]]);
     (lbr_witness,
      [(1, 336, 336, 1); (1, 632, 632, 1); (1, 928, 928, 1); (1, 1224, 1224, 1); (1, 1520, 1520, 1);
       (1, 1816, 1816, 1); (1, 2112, 2112, 2); (1, 1816, 1816, 2)], [1; 1; 1; 1; 1; 1; 2; 1],
      [[]; nm 2; nm 3; nm 4; nm 5; nm 6; nm 7])] = [1%nat].
Proof. vm_compute. reflexivity. Qed.

Print Assumptions udfdir_inv.
Print Assumptions udfdir_lbr_fresh.
Print Assumptions udfdir_lbr_is_granted.
Print Assumptions udfdir_refused_unchanged.
Print Assumptions udfdir_lbr_never_read.
Print Assumptions udfdir_names.
Print Assumptions udfdir_layout.
Print Assumptions udfdir_layout_bytes.
Print Assumptions udfdir_reopen.
