(* MasterRR, part 9: what every state of an edit history (AccountRR.rr_run) knows about its records.
     mrr_place_redate   RockRidge.new places the same entries whatever the three time stamps are: the lengths and
                        the presence of a CE entry do not depend on the dates (only the TF payload does)
     mrr_metaP          the bookkeeping of a record IS what RockRidge.new returned for its names and kind
                        (dr_len, len_cont_area), and its continuation key lies inside the sector
     mrr_run_meta       ... holds for every record of every state rr_run reaches *)
From Coq Require Import ZArith List Bool Lia ZifyBool.
From PV.Base Require Import Prim.
From PV.Gen Require Import GenConst GenFun.
From PV.Model Require Import Names Pack Alloc CeAlloc Codec RREntries RRWalk RRPlace Account AccountRR.
From PV.Model Require Import MasterRR.
From PV.Proofs Require Import PackProofs CeAllocProofs AccountLemmas AccountRRPlace AccountRRLemmas AccountRRCe
                              AccountRRInv AccountRRProofs.
Import ListNotations.
Local Open Scope Z_scope.

(* ---- the dates do not matter --------------------------------------------------------------------------- *)
Definition mrr_redate (d : list (list Z)) (i : place_in) : place_in :=
  mk_pin (p_v i) (p_first i) (p_name i) (p_mode i) (p_target i) (p_child i) (p_reloc i) (p_parent i)
         (p_skip i) (p_dr_len i) d.
Definition mrr_retf (t : tf_rec) (E : rr_entries) : rr_entries :=
  let '(mk_entries sp rr ce px er es pn sl nm cl pl tf sf re st pd al) := E in
  mk_entries sp rr ce px er es pn sl nm cl pl (match tf with Some _ => Some t | None => None end) sf re st pd al.
Definition mrr_replaced (t : tf_rec) (r : placed) : placed :=
  mk_placed (mrr_retf t (pl_dr r)) (mrr_retf t (pl_ce r)) (pl_len r) (pl_celen r).

Lemma mrr_side_redate d i ws sd nm sl ce :
  side_entries (mrr_redate d i) ws sd nm sl ce = mrr_retf (tf_of (mrr_redate d i)) (side_entries i ws sd nm sl ce).
Proof. unfold side_entries, mrr_retf. destruct (w_tf ws) as [[]|]; destruct sd; reflexivity. Qed.

Lemma mrr_assign_redate d i hc c0 :
  assign (mrr_redate d i) hc c0 = option_map (mrr_replaced (tf_of (mrr_redate d i))) (assign i hc c0).
Proof.
  unfold assign. change (p_v (mrr_redate d i)) with (p_v i). change (p_first (mrr_redate d i)) with (p_first i).
  change (p_name (mrr_redate d i)) with (p_name i). change (target_of (mrr_redate d i)) with (target_of i).
  change (p_child (mrr_redate d i)) with (p_child i). change (p_reloc (mrr_redate d i)) with (p_reloc i).
  change (p_parent (mrr_redate d i)) with (p_parent i).
  repeat match goal with
  | |- context [match ?x with Some _ => _ | None => _ end] =>
      match x with
      | put_if _ _ _ _ => destruct x as [[? ?]|]; [|reflexivity]
      | len_px _ => destruct x; [|reflexivity]
      | (if _ then _ else _) => destruct x as [[[? ?] ?]|]; [|reflexivity]
      end
  end.
  cbn [option_map]. unfold mrr_replaced. cbn [pl_dr pl_ce pl_len pl_celen]. rewrite !mrr_side_redate. reflexivity.
Qed.

Theorem mrr_place_redate d i r : place i = Some r -> dates_ok (mrr_redate d i) = true ->
  place (mrr_redate d i) = Some (mrr_replaced (tf_of (mrr_redate d i)) r).
Proof.
  unfold place. change (p_v (mrr_redate d i)) with (p_v i). change (p_dr_len (mrr_redate d i)) with (p_dr_len i).
  intros H Hd. rewrite Hd. cbn [negb]. rewrite !mrr_assign_redate.
  destruct (p_v i); [discriminate H|..]; (destruct (negb (dates_ok i)); [discriminate H|]);
    (destruct (assign i false (p_dr_len i)) as [r0|]; cbn [option_map];
     [|destruct (assign i true (p_dr_len i + len_ce)) as [r1|]; cbn [option_map]; [|discriminate H]]);
    unfold finish in *; cbn [mrr_replaced pl_len];
    match goal with H : (if ?c then None else Some ?x) = Some r |- _ =>
      destruct c; [discriminate H|]; apply CodecProofs.some_inv in H; subst; reflexivity end.
Qed.

Lemma mrr_replaced_facts t r : pl_len (mrr_replaced t r) = pl_len r /\ pl_celen (mrr_replaced t r) = pl_celen r /\
  new_dr_len_of (mrr_replaced t r) = new_dr_len_of r /\
  is_some (ce_record (pl_dr (mrr_replaced t r))) = is_some (ce_record (pl_dr r)).
Proof. repeat split. cbn [mrr_replaced pl_dr]. destruct (pl_dr r); reflexivity. Qed.

(* ---- a record's bookkeeping is what RockRidge.new said ------------------------------------------------------ *)
Definition mrr_metaP (v : rrv) (c : rnode) : Prop :=
  rr_new v false (dr_len_of (m_name (meta_of c))) (m_rr (meta_of c)) (m_target (meta_of c)) (mrr_mode c)
    = Some (m_rlen (meta_of c), option_map (fun k : ckey => snd k) (m_ce (meta_of c))) /\
  match m_ce (meta_of c) with Some (_, off, len) => 0 <= off /\ off + len <= 2048 | None => True end.

Lemma mrr_dates_ok dt i : length dt = 7%nat -> dates_ok (mrr_redate [dt; dt; dt] i) = true.
Proof.
  intros H. unfold dates_ok. cbn [mrr_redate p_dates length forallb]. unfold zlen. rewrite H. reflexivity.
Qed.

Theorem mrr_metaP_ok v dt c : length dt = 7%nat -> mrr_metaP v c ->
  mrr_meta_ok v dt (mrr_spec0 c) (meta_of c) = true.
Proof.
  intros Hdt [Hnew Hb]. unfold rr_new in Hnew. unfold mrr_meta_ok, mrr_name_ok.
  destruct (ALLOWED_DR_SIZE <? dr_len_of (m_name (meta_of c)) + len_ce) eqn:G; [discriminate Hnew|].
  assert (G' : (Account.dr_len_of (m_name (meta_of c)) + len_ce <=? ALLOWED_DR_SIZE) = true).
  { unfold ALLOWED_DR_SIZE, len_ce in *. apply Z.leb_le. apply Z.ltb_ge in G. exact G. }
  rewrite G'. cbn [andb].
  set (i0 := mk_pin v false (m_rr (meta_of c)) (mrr_mode c)
                    (match m_target (meta_of c) with [] => None | _ :: _ => Some (m_target (meta_of c)) end)
                    false false false 0 (dr_len_of (m_name (meta_of c))) rr_dates) in *.
  change (mrr_pin v dt (mrr_spec0 c)) with (mrr_redate [dt; dt; dt] i0).
  destruct (place i0) as [r|] eqn:P; [|discriminate Hnew].
  rewrite (mrr_place_redate _ i0 r P (mrr_dates_ok dt i0 Hdt)).
  destruct (mrr_replaced_facts (tf_of (mrr_redate [dt; dt; dt] i0)) r) as (_ & F2 & F3 & F4). rewrite F2, F3, F4.
  destruct (is_some (ce_record (pl_dr r))).
  - destruct (M <? pl_celen r); [discriminate Hnew|]. apply CodecProofs.some_inv in Hnew. injection Hnew as E1 E2.
    destruct (m_ce (meta_of c)) as [[[i off] len]|]; [|discriminate E2]. cbn [option_map snd] in E2.
    injection E2 as E2. unfold BS. lia.
  - apply CodecProofs.some_inv in Hnew. injection Hnew as E1 E2.
    destruct (m_ce (meta_of c)) as [k|]; [discriminate E2|]. cbn [negb]. lia.
Qed.

(* ---- a predicate on every record below a node ------------------------------------------------------------------ *)
Fixpoint mrr_allP (P : rnode -> Prop) (n : rnode) : Prop :=
  match n with
  | RFile _ _ => True
  | RDir _ _ kids =>
      (fix go (l : list rnode) : Prop :=
         match l with [] => True | c :: r => (P c /\ mrr_allP P c) /\ go r end) kids
  end.

Lemma mrr_allP_dir P m dl kids : mrr_allP P (RDir m dl kids) <-> Forall (fun c => P c /\ mrr_allP P c) kids.
Proof.
  cbn [mrr_allP]. induction kids as [|c r IH]; [split; [constructor|trivial]|].
  rewrite IH. split; [intros [H1 H2]; constructor; assumption|intros H; inversion H; tauto].
Qed.

Section AllP.
  Variable P : rnode -> Prop.
  (* P looks at the record's own data only *)
  Hypothesis Pext : forall a b, meta_of a = meta_of b -> r_is_dir a = r_is_dir b -> P a -> P b.

  Lemma mrr_allP_subtree : forall p n c, mrr_allP P n -> rsubtree p n = Some c -> mrr_allP P c.
  Proof.
    induction p as [|x q IH]; intros n c Hn H; cbn [rsubtree] in H.
    - inversion H. subst. exact Hn.
    - destruct n as [m len|m dl kids]; [discriminate|].
      destruct (rlookup x kids) as [[k c']|] eqn:E; [|discriminate].
      apply arr_lookup_spec in E. destruct E as (Hk & _ & _).
      apply mrr_allP_dir in Hn. rewrite Forall_forall in Hn.
      apply (IH c' c); [exact (proj2 (Hn c' (nth_error_In _ _ Hk)))|exact H].
  Qed.

  Lemma mrr_allP_replace : forall p n t old, rsubtree p n = Some old -> meta_of t = meta_of old ->
    r_is_dir t = r_is_dir old -> mrr_allP P n -> mrr_allP P t -> mrr_allP P (rreplace p t n).
  Proof.
    induction p as [|x q IH]; intros n t old H E1 E2 Hn Ht; cbn [rsubtree rreplace] in *.
    - exact Ht.
    - destruct n as [m len|m dl kids]; [discriminate|].
      destruct (rlookup x kids) as [[k c]|] eqn:L; [|discriminate].
      apply arr_lookup_spec in L. destruct L as (Hk & _ & _).
      apply mrr_allP_dir in Hn. apply mrr_allP_dir.
      apply (Forall_set_at _ kids k c _ Hk Hn).
      pose proof (proj1 (Forall_forall _ _) Hn c (nth_error_In _ _ Hk)) as [Pc Ac].
      split.
      + apply (Pext c); [symmetry; exact (arr_replace_meta q c t old H E1)
                        |symmetry; exact (arr_replace_is_dir q c t old H E2)|exact Pc].
      + exact (IH c t old H E1 E2 Ac Ht).
  Qed.
End AllP.

Lemma mrr_metaP_ext v a b : meta_of a = meta_of b -> r_is_dir a = r_is_dir b -> mrr_metaP v a -> mrr_metaP v b.
Proof.
  intros E1 E2 H. unfold mrr_metaP in *. rewrite <- E1.
  replace (mrr_mode b) with (mrr_mode a); [exact H|].
  destruct a, b; cbn [r_is_dir meta_of mrr_mode] in *; try discriminate; subst; reflexivity.
Qed.

(* ---- along an edit history ------------------------------------------------------------------------------------ *)
Definition mrr_MI (s : rstate) : Prop := mrr_allP (mrr_metaP (r_ver s)) (r_root s).

Lemma mrr_ce_alloc_key bs nid celen added ky bs' : blocks_ok bs -> ids_below bs nid -> 0 < celen <= M ->
  ce_alloc bs nid celen = (added, ky, bs') -> snd ky = celen /\ 0 <= snd (fst ky) /\ snd (fst ky) + celen <= 2048.
Proof.
  intros B I C E. destruct (arr_ce_alloc_spec _ _ _ _ _ _ B I C E) as (_ & _ & _ & _ & H1 & H2 & H3).
  unfold M in H3. auto.
Qed.

Lemma mrr_add_record_MI s dirp dm dl kids mk nm x ce ptr extra :
  RInv s -> mrr_MI s -> rsubtree dirp (r_root s) = Some (RDir dm dl kids) ->
  match ce with Some l => 0 < l <= M | None => True end ->
  (forall ky, rkids (mk ky) = [] /\
     (option_map (fun k : ckey => snd k) ky = ce ->
      match ky with Some (_, off, len) => 0 <= off /\ off + len <= 2048 | None => True end ->
      mrr_metaP (r_ver s) (mk ky))) ->
  mrr_MI (fst (add_record s dirp dm dl kids mk nm x ce ptr extra)).
Proof.
  intros HI HM Hsub Hce Hmk. unfold add_record. cbv zeta.
  assert (G : forall cekey dl', option_map (fun k : ckey => snd k) cekey = ce ->
            match cekey with Some (_, off, len) => 0 <= off /\ off + len <= 2048 | None => True end ->
            mrr_allP (mrr_metaP (r_ver s))
              (rreplace dirp (RDir dm dl' (insert_at (pos nm (map rname kids)) (mk cekey) kids)) (r_root s))).
  { intros cekey dl' E1 E2.
    apply (mrr_allP_replace _ (mrr_metaP_ext (r_ver s)) dirp _ _ _ Hsub); [reflexivity|reflexivity|exact HM|].
    apply mrr_allP_dir. apply Forall_insert_at.
    - apply (proj1 (mrr_allP_dir _ dm dl kids)). exact (mrr_allP_subtree _ dirp _ _ HM Hsub).
    - destruct (Hmk cekey) as [Hleaf Hp]. split; [exact (Hp E1 E2)|].
      destruct (mk cekey) as [m l|m d ks]; [exact I|]. cbn [rkids] in Hleaf. subst ks. exact I. }
  destruct ce as [celen|].
  - destruct (ce_alloc (r_blocks s) (r_next s) celen) as [[added ky] bs'] eqn:E.
    destruct (mrr_ce_alloc_key _ _ _ _ _ _ (ri_blocks s HI) (ri_ids s HI) Hce E) as (K1 & K2 & K3).
    destruct ptr as [[b ps] pe]. unfold mrr_MI. cbn [fst r_ver r_root]. apply G.
    + cbn [option_map]. rewrite K1. reflexivity.
    + destruct ky as [[i off] len]. cbn [fst snd] in *. subst len. split; assumption.
  - destruct ptr as [[b ps] pe]. unfold mrr_MI. cbn [fst r_ver r_root]. apply G; [reflexivity|exact I].
Qed.

Lemma mrr_remove_MI s dirp dm dl kids dl' k ps pe sp bs nid :
  mrr_MI s -> rsubtree dirp (r_root s) = Some (RDir dm dl kids) ->
  mrr_MI {| r_ver := r_ver s; r_root := rreplace dirp (RDir dm dl' (remove_at k kids)) (r_root s);
            r_ptr_size := ps; r_ptr_ext := pe; r_space := sp; r_blocks := bs; r_next := nid |}.
Proof.
  intros HM Hsub. unfold mrr_MI. cbn [r_ver r_root].
  apply (mrr_allP_replace _ (mrr_metaP_ext (r_ver s)) dirp _ _ _ Hsub); [reflexivity|reflexivity|exact HM|].
  apply mrr_allP_dir. apply Forall_remove_at. apply (proj1 (mrr_allP_dir _ dm dl kids)).
  exact (mrr_allP_subtree _ dirp _ _ HM Hsub).
Qed.

Lemma mrr_new_metaP v nm rr tg mode x ce (mkn : option ckey -> rnode) :
  rr_new v false (dr_len_of nm) rr tg mode = Some (x, ce) ->
  (forall ky, meta_of (mkn ky) = mk_meta nm rr tg (m_ino (meta_of (mkn ky))) x ky /\ mrr_mode (mkn ky) = mode) ->
  forall ky, option_map (fun k : ckey => snd k) ky = ce ->
    match ky with Some (_, off, len) => 0 <= off /\ off + len <= 2048 | None => True end ->
    mrr_metaP v (mkn ky).
Proof.
  intros Hnew Hm ky E1 E2. destruct (Hm ky) as [M1 M2]. unfold mrr_metaP. rewrite M1, M2.
  cbn [m_name m_rr m_target m_rlen m_ce]. rewrite Hnew, E1. split; [reflexivity|exact E2].
Qed.

Lemma mrr_step_add_file_MI s dirp nm rr len : RInv s -> mrr_MI s -> mrr_MI (fst (step_add_file s dirp nm rr len)).
Proof.
  intros HI HM. unfold step_add_file, rrefuse.
  destruct (negb ((0 <=? len) && (len <=? max_len))) eqn:Hr; [exact HM|].
  destruct (negb (rr_name_ok rr)); [exact HM|].
  destruct (rsubtree dirp (r_root s)) as [parent|] eqn:Hsub; [|exact HM].
  destruct (check_iso9660_filename nm 3); try exact HM. cbv zeta.
  destruct (dr_len_of nm >? 255) eqn:Hx; [exact HM|].
  destruct (rr_new (r_ver s) false (dr_len_of nm) rr [] FILE_MODE) as [[x ce]|] eqn:Hnew; [|exact HM].
  destruct parent as [pm pl|dm dl kids]; [exact HM|].
  destruct (is_some (rlookup nm kids) && negb (dup_allowed (is_root_path dirp) dm)); [exact HM|].
  destruct (arr_rr_new_ce _ _ _ _ _ _ _ _ Hnew) as [_ Hce].
  apply mrr_add_record_MI; try assumption.
  intros ky. split; [reflexivity|].
  apply (mrr_new_metaP (r_ver s) nm rr [] FILE_MODE x ce (fun ky => RFile (mk_meta nm rr [] true x ky) len) Hnew).
  intros ky'. split; reflexivity.
Qed.

Lemma mrr_step_add_symlink_MI s dirp nm rr tg : RInv s -> mrr_MI s -> mrr_MI (fst (step_add_symlink s dirp nm rr tg)).
Proof.
  intros HI HM. unfold step_add_symlink, rrefuse.
  destruct (negb (plain_name nm)); [exact HM|].
  destruct (rsubtree dirp (r_root s)) as [parent|] eqn:Hsub; [|exact HM]. cbv zeta.
  destruct (dr_len_of nm >? 255) eqn:Hx; [exact HM|].
  destruct (rr_new (r_ver s) false (dr_len_of nm) rr tg LINK_MODE) as [[x ce]|] eqn:Hnew; [|exact HM].
  destruct parent as [pm pl|dm dl kids]; [exact HM|].
  destruct (is_some (rlookup nm kids) && negb (dup_allowed (is_root_path dirp) dm)); [exact HM|].
  destruct (arr_rr_new_ce _ _ _ _ _ _ _ _ Hnew) as [_ Hce].
  apply mrr_add_record_MI; try assumption.
  intros ky. split; [reflexivity|].
  apply (mrr_new_metaP (r_ver s) nm rr tg LINK_MODE x ce (fun ky => RFile (mk_meta nm rr tg false x ky) 0) Hnew).
  intros ky'. split; reflexivity.
Qed.

Lemma mrr_step_add_dir_MI s parent nm rr : RInv s -> mrr_MI s -> mrr_MI (fst (step_add_dir s parent nm rr)).
Proof.
  intros HI HM. unfold step_add_dir, rrefuse.
  destruct (negb (rr_name_ok rr)); [exact HM|].
  destruct (rr_too_deep parent); [exact HM|].
  destruct (rsubtree parent (r_root s)) as [par|] eqn:Hsub; [|exact HM].
  destruct (check_iso9660_directory nm 3); try exact HM.
  destruct (existsb _ _ && _); [exact HM|]. cbv zeta.
  destruct (dr_len_of nm >? 255) eqn:Hx; [exact HM|].
  destruct (rr_new (r_ver s) false (dr_len_of nm) rr [] DIR_MODE) as [[x ce]|] eqn:Hnew; [|exact HM].
  destruct par as [pm pl|dm dl kids]; [exact HM|].
  destruct (is_some (rlookup nm kids) && negb (dup_allowed (is_root_path parent) dm)); [exact HM|].
  destruct (arr_rr_new_ce _ _ _ _ _ _ _ _ Hnew) as [_ Hce].
  apply mrr_add_record_MI; try assumption.
  intros ky. split; [reflexivity|].
  apply (mrr_new_metaP (r_ver s) nm rr [] DIR_MODE x ce (fun ky => RDir (mk_meta nm rr [] false x ky) C []) Hnew).
  intros ky'. split; reflexivity.
Qed.

Lemma mrr_step_rm_file_MI s dirp nm : RInv s -> mrr_MI s -> mrr_MI (fst (step_rm_file true s dirp nm)).
Proof.
  intros HI HM. unfold step_rm_file, rrefuse.
  destruct (rsubtree dirp (r_root s)) as [[pm pl|dm dl kids]|] eqn:Hsub; try exact HM.
  destruct (rlookup nm kids) as [[k [cm len|cm cdl ckids]]|] eqn:Hl; try exact HM.
  rewrite orb_true_r. cbv zeta.
  destruct (release_of (r_blocks s) cm) as [[cebytes bs']|]; [|exact HM].
  cbn [fst]. apply (mrr_remove_MI s dirp dm dl kids); assumption.
Qed.

Lemma mrr_step_rm_dir_MI s p : RInv s -> mrr_MI s -> mrr_MI (fst (step_rm_dir s p)).
Proof.
  intros HI HM. unfold step_rm_dir, rrefuse.
  destruct (unsnoc p) as [[q y]|]; [|exact HM].
  destruct (rsubtree q (r_root s)) as [[pm pl|dm dl kids]|] eqn:Hsub; try exact HM.
  destruct (rlookup y kids) as [[k [cm len|cm cdl [|c0 ckids]]]|] eqn:Hl; try exact HM. cbv zeta.
  destruct (remove_from_ptr_size _ _ _) as [[[b ps] pe]|]; [|exact HM].
  destruct (release_of (r_blocks s) cm) as [[cebytes bs']|]; [|exact HM].
  cbn [fst]. apply (mrr_remove_MI s q dm dl kids); assumption.
Qed.

Lemma mrr_step_ver s o : r_ver (fst (rr_step s o)) = r_ver s.
Proof.
  pose proof (arr_refused_fst true s o) as R.
  destruct (snd (rr_step_gen true s o)) eqn:E; [|unfold rr_step; rewrite (R eq_refl); reflexivity].
  clear R E. unfold rr_step. destruct o; cbn [rr_step_gen].
  - unfold step_add_file, rrefuse, add_record.
    repeat match goal with |- context [match ?x with _ => _ end] => destruct x end; reflexivity.
  - unfold step_add_dir, rrefuse, add_record.
    repeat match goal with |- context [match ?x with _ => _ end] => destruct x end; reflexivity.
  - unfold step_add_symlink, rrefuse, add_record.
    repeat match goal with |- context [match ?x with _ => _ end] => destruct x end; reflexivity.
  - unfold step_rm_file, rrefuse.
    repeat match goal with |- context [match ?x with _ => _ end] => destruct x end; reflexivity.
  - unfold step_rm_dir, rrefuse.
    repeat match goal with |- context [match ?x with _ => _ end] => destruct x end; reflexivity.
Qed.

Theorem mrr_step_MI s o : RInv s -> mrr_MI s -> mrr_MI (fst (rr_step s o)).
Proof.
  destruct o; cbn [rr_step rr_step_gen];
    [apply mrr_step_add_file_MI|apply mrr_step_add_dir_MI|apply mrr_step_add_symlink_MI
    |apply mrr_step_rm_file_MI|apply mrr_step_rm_dir_MI].
Qed.

Theorem mrr_run_meta v ops : let s := rr_run (rr_init v) ops in RInv s /\ mrr_MI s /\ r_ver s = v.
Proof.
  assert (G : forall ops s, RInv s -> mrr_MI s -> RInv (rr_run s ops) /\ mrr_MI (rr_run s ops) /\ r_ver (rr_run s ops) = r_ver s).
  { unfold rr_run, rr_run_gen. induction ops0 as [|o r IH]; intros s HI HM; cbn [fold_left]; [auto|].
    destruct (IH (fst (rr_step_gen true s o)) (arr_step_preserves_inv s o HI) (mrr_step_MI s o HI HM)) as (A & B & D).
    split; [exact A|]. split; [exact B|]. rewrite D. exact (mrr_step_ver s o). }
  intros s. apply (G ops (rr_init v)); [apply arr_init_ok|exact I].
Qed.

Print Assumptions mrr_place_redate.
Print Assumptions mrr_metaP_ok.
Print Assumptions mrr_run_meta.
