(* Proofs/RelocExt.v -- extents of Model/RelocView.v: the breadth-first order is a strict total
   order on physical paths, the extents of different directories do not overlap
   ([rl_ext_lt]: ext p + sz p <= ext q when p comes first), hence [ext] is injective on the
   directories of a state. *)
From Coq Require Import ZArith List Bool Lia Permutation.
From PV.Model Require Import RelocCore RelocView.
From PV.Proofs Require Import RelocBase.
Import ListNotations.
Local Open Scope Z_scope.

Lemma rl_nlt_eq x y : nlt x y = false -> nlt y x = false -> x = y.
Proof. intros H1 H2. destruct (rl_nlt_trich x y) as [E|[E|E]]; [exact E|congruence|congruence]. Qed.

Lemma rl_plt_irrefl a : plt a a = false.
Proof. induction a as [|x a IH]; cbn [plt]; [reflexivity|]. rewrite rl_nlt_irrefl. exact IH. Qed.

Lemma rl_plt_trich a : forall b, length a = length b -> a = b \/ plt a b = true \/ plt b a = true.
Proof.
  induction a as [|x a IH]; intros [|y b] L; cbn [length] in L; try discriminate; [left; reflexivity|].
  cbn [plt]. destruct (nlt x y) eqn:E1; [right; left; reflexivity|].
  destruct (nlt y x) eqn:E2; [right; right; reflexivity|].
  pose proof (rl_nlt_eq _ _ E1 E2) as ->. destruct (IH b) as [->|[H|H]]; [lia|auto..].
Qed.

Lemma rl_plt_trans a : forall b c, plt a b = true -> plt b c = true -> plt a c = true.
Proof.
  induction a as [|x a IH]; intros [|y b] [|z c]; cbn [plt]; intros H1 H2; try discriminate.
  destruct (nlt x y) eqn:E1.
  - destruct (nlt y z) eqn:E2; [rewrite (rl_nlt_trans _ _ _ E1 E2); reflexivity|].
    destruct (nlt z y) eqn:E3; [discriminate|]. pose proof (rl_nlt_eq _ _ E2 E3) as <-.
    rewrite E1. reflexivity.
  - destruct (nlt y x) eqn:E1'; [discriminate|]. pose proof (rl_nlt_eq _ _ E1 E1') as <-.
    destruct (nlt x z) eqn:E2; [reflexivity|]. destruct (nlt z x) eqn:E3; [discriminate|].
    eapply IH; eassumption.
Qed.

Lemma rl_bfs_irrefl a : bfs_lt a a = false.
Proof. unfold bfs_lt. rewrite Nat.ltb_irrefl, Nat.eqb_refl, rl_plt_irrefl. reflexivity. Qed.

Lemma rl_bfs_trich a b : a = b \/ bfs_lt a b = true \/ bfs_lt b a = true.
Proof.
  unfold bfs_lt. destruct (Nat.lt_trichotomy (length a) (length b)) as [H|[H|H]].
  - right; left. apply Nat.ltb_lt in H. rewrite H. reflexivity.
  - destruct (rl_plt_trich a b H) as [E|[E|E]]; [left; exact E|right; left|right; right];
      rewrite E, ?H, Nat.eqb_refl, orb_true_r; reflexivity.
  - right; right. apply Nat.ltb_lt in H. rewrite H. reflexivity.
Qed.

Lemma rl_bfs_trans a b c : bfs_lt a b = true -> bfs_lt b c = true -> bfs_lt a c = true.
Proof.
  unfold bfs_lt. rewrite !orb_true_iff, !andb_true_iff, !Nat.ltb_lt, !Nat.eqb_eq.
  intros [H1|[H1 P1]] [H2|[H2 P2]]; [left; lia|left; lia|left; lia|].
  right. split; [lia|]. eapply rl_plt_trans; eassumption.
Qed.

(* ---- sums over the directories that come earlier ------------------------------------------- *)
Lemma rl_sum_filter_le (sz : ppath -> Z) f g l :
  (forall x, 0 <= sz x) -> (forall x, f x = true -> g x = true) ->
  sumZ (map sz (filter f l)) <= sumZ (map sz (filter g l)).
Proof.
  intros Hs Hfg. unfold sumZ. induction l as [|h l IH]; cbn [filter]; [lia|].
  destruct (f h) eqn:F.
  - rewrite (Hfg _ F). cbn [map fold_right]. lia.
  - destruct (g h); cbn [map fold_right]; [pose proof (Hs h)|]; lia.
Qed.

Lemma rl_sum_filter_lt (sz : ppath -> Z) f g l p :
  (forall x, 0 <= sz x) -> (forall x, f x = true -> g x = true) ->
  In p l -> f p = false -> g p = true ->
  sumZ (map sz (filter f l)) + sz p <= sumZ (map sz (filter g l)).
Proof.
  intros Hs Hfg Hin Fp Gp. pose proof (rl_sum_filter_le sz f g) as Hle. unfold sumZ in *.
  induction l as [|h l IH]; [destruct Hin|]. cbn [filter].
  destruct Hin as [->|Hin].
  - rewrite Fp, Gp. cbn [map fold_right]. specialize (Hle l Hs Hfg). lia.
  - specialize (IH Hin). destruct (f h) eqn:F.
    + rewrite (Hfg _ F). cbn [map fold_right]. lia.
    + destruct (g h); cbn [map fold_right]; [pose proof (Hs h)|]; lia.
Qed.

(* a directory that comes earlier ends before the later one starts *)
Theorem rl_ext_lt sz start all p q : (forall x, 1 <= sz x) -> In p all -> bfs_lt p q = true ->
  ext sz start all p + sz p <= ext sz start all q.
Proof.
  intros Hs Hp Hlt. unfold ext.
  pose proof (rl_sum_filter_lt sz (fun x => bfs_lt x p) (fun x => bfs_lt x q) all p) as H.
  cbv beta in H. rewrite rl_bfs_irrefl in H.
  assert (H0 : forall x, 0 <= sz x) by (intros x; specialize (Hs x); lia).
  specialize (H H0 (fun x Hx => rl_bfs_trans _ _ _ Hx Hlt) Hp eq_refl Hlt). lia.
Qed.

Theorem rl_ext_inj sz start all p q : (forall x, 1 <= sz x) -> In p all -> In q all ->
  ext sz start all p = ext sz start all q -> p = q.
Proof.
  intros Hs Hp Hq E. destruct (rl_bfs_trich p q) as [H|[H|H]]; [exact H| |].
  - pose proof (rl_ext_lt sz start all p q Hs Hp H). specialize (Hs p). lia.
  - pose proof (rl_ext_lt sz start all q p Hs Hq H). specialize (Hs q). lia.
Qed.

Lemma rl_NoDup_map_inj {A B} (f : A -> B) (l : list A) :
  NoDup l -> (forall x y, In x l -> In y l -> f x = f y -> x = y) -> NoDup (map f l).
Proof.
  induction l as [|h l IH]; intros N Hi; cbn [map]; [constructor|].
  inversion N as [|? ? Hh N']; subst. constructor.
  - rewrite in_map_iff. intros (y & Hy & Hin). apply Hh.
    rewrite (Hi h y); [exact Hin|left; reflexivity|right; exact Hin|symmetry; exact Hy].
  - apply IH; [exact N'|]. intros x y Hx Hy. apply Hi; right; assumption.
Qed.
