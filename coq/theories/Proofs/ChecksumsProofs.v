(* Proofs about the GENERATED CRC functions of Gen/GenFun.v (crc_ccitt, crc32) and their tables
   (Gen/GenConst.v) against the bitwise reference specifications of Model/Checksums.v.
   The additive checksums and the geometry / size accounting functions are in
   Proofs/ChecksumsArithProofs.v. *)
From Coq Require Import ZArith List Bool Lia ZifyBool.
Import ListNotations.
From PV.Base Require Import Prim Sweep ListX.
From PV.Gen Require Import GenConst GenFun.
From PV.Model Require Import Checksums.
Local Open Scope Z_scope.
Ltac Zify.zify_post_hook ::= Z.to_euclidean_division_equations.

(* ------------------------------------------------------------------------------------- *)
(* Generic helpers                                                                        *)
(* ------------------------------------------------------------------------------------- *)

(* two-dimensional finite sweep [0,n) x [0,m), Z-indexed *)
Definition sweep2 (f : Z -> Z -> bool) (n m : positive) : bool :=
  sweep (fun a => sweep (f a) 0 m) 0 n.

Lemma sweep2_sound f n m :
  sweep2 f n m = true ->
  forall a b, 0 <= a < Z.pos n -> 0 <= b < Z.pos m -> f a b = true.
Proof.
  intros H a b Ha Hb. unfold sweep2 in H.
  pose proof (sweep_sound _ _ _ H a ltac:(lia)) as H1. cbv beta in H1.
  exact (sweep_sound _ _ _ H1 b ltac:(lia)).
Qed.

Lemma iter_S {A} (f : A -> A) n x : Nat.iter (S n) f x = f (Nat.iter n f x).
Proof. reflexivity. Qed.

Lemma fold_left_bytes_cons (b : Z) l : bytes (b :: l) -> 0 <= b < 256 /\ bytes l.
Proof. intros H; inversion H; subst; split; assumption. Qed.

(* identities between xor-expressions, bit by bit *)
Ltac xor_ring :=
  apply Z.bits_inj'; intros ?n ?Hn; rewrite !Z.lxor_spec;
  repeat match goal with |- context [Z.testbit ?a ?n] => destruct (Z.testbit a n) end;
  reflexivity.

Lemma land_lxor_distr a b m : Z.land (Z.lxor a b) m = Z.lxor (Z.land a m) (Z.land b m).
Proof.
  apply Z.bits_inj'; intros n Hn. rewrite !Z.land_spec, !Z.lxor_spec, !Z.land_spec.
  destruct (Z.testbit a n), (Z.testbit b n), (Z.testbit m n); reflexivity.
Qed.

Lemma lxor_bound n a b :
  0 <= n -> 0 <= a < 2 ^ n -> 0 <= b < 2 ^ n -> 0 <= Z.lxor a b < 2 ^ n.
Proof.
  intros Hn Ha Hb.
  assert (Ea : Z.land a (Z.ones n) = a) by (rewrite Z.land_ones, Z.mod_small; lia).
  assert (Eb : Z.land b (Z.ones n) = b) by (rewrite Z.land_ones, Z.mod_small; lia).
  assert (E : Z.lxor a b = (Z.lxor a b) mod 2 ^ n).
  { rewrite <- Z.land_ones by lia. rewrite land_lxor_distr, Ea, Eb. reflexivity. }
  rewrite E. apply Z.mod_pos_bound. apply Z.pow_pos_nonneg; lia.
Qed.

Lemma split_low8 x : x = Z.lxor (Z.shiftl (Z.shiftr x 8) 8) (Z.land x 255).
Proof.
  apply Z.bits_inj'; intros n Hn.
  rewrite Z.lxor_spec, Z.land_spec, Z.shiftl_spec by lia.
  change 255 with (Z.ones 8). rewrite Z.testbit_ones_nonneg by lia.
  destruct (Z.ltb_spec n 8) as [Hlt|Hge].
  - rewrite (Z.testbit_neg_r _ (n - 8)) by lia. rewrite andb_true_r, xorb_false_l. reflexivity.
  - rewrite Z.shiftr_spec by lia. replace (n - 8 + 8) with n by lia.
    rewrite andb_false_r, xorb_false_r. reflexivity.
Qed.

Lemma land_255_range x : 0 <= Z.land x 255 < 256.
Proof. change 255 with (Z.ones 8). rewrite Z.land_ones by lia. change (2 ^ 8) with 256. lia. Qed.

(* GF(2)-linearity *)
Definition linear (f : Z -> Z) : Prop := forall x y, f (Z.lxor x y) = Z.lxor (f x) (f y).

Lemma iter_linear f n : linear f -> linear (Nat.iter n f).
Proof.
  intros Hf. induction n as [|n IH]; intros x y.
  - reflexivity.
  - rewrite !iter_S, IH, Hf. reflexivity.
Qed.

(* ------------------------------------------------------------------------------------- *)
(* A. CRC-16/XMODEM  (udf.crc_ccitt)                                                      *)
(* ------------------------------------------------------------------------------------- *)

(* the table-driven byte step exactly as it appears in the generated crc_ccitt *)
Definition crc16_tstep (crc x : Z) : Z :=
  Z.lxor (znth (Z.lxor x (Z.land (Z.shiftr crc 8) 255)) crc_ccitt_table)
         (Z.land (Z.shiftl crc 8) 65280).

Lemma crc_ccitt_unfold data : crc_ccitt data = fold_left crc16_tstep data 0.
Proof. reflexivity. Qed.

Lemma crc16_step_linear : linear crc16_bit_step.
Proof.
  intros x y. unfold crc16_bit_step.
  rewrite Z.lxor_spec, Z.shiftl_lxor, <- land_lxor_distr. f_equal.
  destruct (Z.testbit x 15), (Z.testbit y 15); cbn [xorb]; xor_ring.
Qed.

Lemma crc16_step_range r : 0 <= crc16_bit_step r < 65536.
Proof.
  unfold crc16_bit_step. change 0xFFFF with (Z.ones 16).
  rewrite Z.land_ones by lia. change (2 ^ 16) with 65536. lia.
Qed.

Lemma crc16_byte_range crc b : 0 <= crc16_byte crc b < 65536.
Proof. unfold crc16_byte. rewrite iter_S. apply crc16_step_range. Qed.

(* every table entry is the 8-step bitwise computation of its index *)
Definition crc16_table_chk (i : Z) : bool := znth i crc_ccitt_table =? crc16_byte 0 i.

Lemma crc16_table_sweep : sweep crc16_table_chk 0 256 = true.
Proof. vm_compute. reflexivity. Qed.

Theorem crc_ccitt_table_ok :
  length crc_ccitt_table = 256%nat /\
  forall i, 0 <= i < 256 -> znth i crc_ccitt_table = crc16_byte 0 i.
Proof.
  split; [reflexivity|]. intros i Hi.
  pose proof (sweep_sound _ _ _ crc16_table_sweep i ltac:(lia)) as H.
  unfold crc16_table_chk in H. lia.
Qed.

(* 8 bit steps move a low byte into the high byte *)
Definition crc16_low_chk (l : Z) : bool := Nat.iter 8 crc16_bit_step l =? Z.shiftl l 8.

Lemma crc16_low_sweep : sweep crc16_low_chk 0 256 = true.
Proof. vm_compute. reflexivity. Qed.

(* a 16-bit register is (high byte << 8) xor low byte; the shifted-and-masked term of the table
   step is the low byte moved up *)
Definition crc16_split_chk (crc : Z) : bool :=
  let h := Z.land (Z.shiftr crc 8) 255 in
  let l := Z.land crc 255 in
  (crc =? Z.lxor (Z.shiftl h 8) l) && (Z.land (Z.shiftl crc 8) 65280 =? Z.shiftl l 8).

Lemma crc16_split_sweep : sweep crc16_split_chk 0 65536 = true.
Proof. vm_compute. reflexivity. Qed.

Lemma crc16_byte_step crc b :
  0 <= crc < 65536 -> 0 <= b < 256 -> crc16_tstep crc b = crc16_byte crc b.
Proof.
  intros Hc Hb.
  pose proof (sweep_sound _ _ _ crc16_split_sweep crc ltac:(lia)) as Hs.
  unfold crc16_split_chk in Hs. cbv zeta in Hs. apply andb_prop in Hs. destruct Hs as [Hs1 Hs2].
  apply Z.eqb_eq in Hs1. apply Z.eqb_eq in Hs2.
  unfold crc16_tstep, crc16_byte. rewrite Hs2.
  remember (Z.land (Z.shiftr crc 8) 255) as h eqn:Eh.
  remember (Z.land crc 255) as l eqn:El.
  assert (Hh : 0 <= h < 256) by (subst h; apply land_255_range).
  assert (Hl : 0 <= l < 256) by (subst l; apply land_255_range).
  assert (Hv : 0 <= Z.lxor b h < 256) by (apply (lxor_bound 8); lia).
  assert (E : Z.lxor crc (Z.shiftl b 8) = Z.lxor (Z.shiftl (Z.lxor b h) 8) l).
  { rewrite Z.shiftl_lxor. rewrite Hs1 at 1. xor_ring. }
  rewrite E, (iter_linear _ 8 crc16_step_linear).
  pose proof (proj2 crc_ccitt_table_ok _ Hv) as Ht. unfold crc16_byte in Ht.
  change (Z.lxor 0 (Z.shiftl (Z.lxor b h) 8)) with (Z.shiftl (Z.lxor b h) 8) in Ht.
  pose proof (sweep_sound _ _ _ crc16_low_sweep l ltac:(lia)) as Hlo.
  unfold crc16_low_chk in Hlo. apply Z.eqb_eq in Hlo.
  rewrite <- Ht, Hlo. reflexivity.
Qed.

Lemma crc16_fold data :
  bytes data -> forall crc, 0 <= crc < 65536 ->
  fold_left crc16_tstep data crc = fold_left crc16_byte data crc.
Proof.
  induction data as [|b data IH]; intros Hd crc Hc; [reflexivity|].
  apply fold_left_bytes_cons in Hd. destruct Hd as [Hb Hd].
  cbn [fold_left]. rewrite (crc16_byte_step crc b Hc Hb).
  apply IH; [exact Hd|apply crc16_byte_range].
Qed.

Theorem crc_ccitt_spec : forall data, bytes data -> crc_ccitt data = crc16_bit data.
Proof.
  intros data Hd. rewrite crc_ccitt_unfold. unfold crc16_bit. apply crc16_fold; [exact Hd|lia].
Qed.

Corollary crc_ccitt_range data : bytes data -> 0 <= crc_ccitt data < 65536.
Proof.
  intros Hd. rewrite (crc_ccitt_spec data Hd). unfold crc16_bit.
  destruct data as [|b data] using rev_ind; [cbn; lia|].
  rewrite fold_left_app. cbn [fold_left]. apply crc16_byte_range.
Qed.

(* ------------------------------------------------------------------------------------- *)
(* B. CRC-32  (isohybrid.crc32)                                                           *)
(* ------------------------------------------------------------------------------------- *)

Definition crc32_tstep (crc x : Z) : Z :=
  Z.lxor (Z.land (Z.shiftr crc 8) 16777215) (znth (Z.land (Z.lxor crc x) 255) crc32_table).

Lemma crc32_unfold data :
  crc32 data = Z.lxor (fold_left crc32_tstep data 4294967295) 4294967295.
Proof. reflexivity. Qed.

Lemma crc32_step_linear : linear crc32_bit_step.
Proof.
  intros x y. unfold crc32_bit_step. rewrite Z.lxor_spec, Z.shiftr_lxor.
  destruct (Z.testbit x 0), (Z.testbit y 0); cbn [xorb]; xor_ring.
Qed.

Lemma crc32_step_range r : 0 <= r < 4294967296 -> 0 <= crc32_bit_step r < 4294967296.
Proof.
  intros Hr. unfold crc32_bit_step.
  assert (Hs : 0 <= Z.shiftr r 1 < 2 ^ 32).
  { rewrite Z.shiftr_div_pow2 by lia. change (2 ^ 1) with 2. change (2 ^ 32) with 4294967296. lia. }
  destruct (Z.testbit r 0).
  - change 4294967296 with (2 ^ 32). apply lxor_bound; [lia|exact Hs|].
    change (2 ^ 32) with 4294967296. lia.
  - change (2 ^ 32) with 4294967296 in Hs. exact Hs.
Qed.

Lemma crc32_byte_range crc b :
  0 <= crc < 4294967296 -> 0 <= b < 256 -> 0 <= crc32_byte crc b < 4294967296.
Proof.
  intros Hc Hb. unfold crc32_byte.
  assert (H0 : 0 <= Z.lxor crc b < 4294967296).
  { change 4294967296 with (2 ^ 32). apply lxor_bound; change (2 ^ 32) with 4294967296; lia. }
  rewrite !iter_S. cbn [Nat.iter nat_rect]. do 8 apply crc32_step_range. exact H0.
Qed.

Definition crc32_table_chk (i : Z) : bool := znth i crc32_table =? crc32_byte 0 i.

Lemma crc32_table_sweep : sweep crc32_table_chk 0 256 = true.
Proof. vm_compute. reflexivity. Qed.

Theorem crc32_table_ok :
  length crc32_table = 256%nat /\
  forall i, 0 <= i < 256 -> znth i crc32_table = crc32_byte 0 i.
Proof.
  split; [reflexivity|]. intros i Hi.
  pose proof (sweep_sound _ _ _ crc32_table_sweep i ltac:(lia)) as H.
  unfold crc32_table_chk in H. lia.
Qed.

(* a bit step undoes a left shift: the bit shifted out is 0 *)
Lemma crc32_step_shl1 y : crc32_bit_step (Z.shiftl y 1) = y.
Proof.
  unfold crc32_bit_step. rewrite Z.shiftl_spec_low by lia.
  rewrite Z.shiftr_shiftl_l by lia. apply Z.shiftl_0_r.
Qed.

Lemma crc32_iter_shl k y : Nat.iter k crc32_bit_step (Z.shiftl y (Z.of_nat k)) = y.
Proof.
  revert y; induction k as [|k IH]; intros y.
  - apply Z.shiftl_0_r.
  - rewrite iter_S. replace (Z.of_nat (S k)) with (1 + Z.of_nat k) by lia.
    rewrite <- Z.shiftl_shiftl by lia. rewrite IH. apply crc32_step_shl1.
Qed.

Lemma crc32_byte_step crc b :
  0 <= crc < 4294967296 -> 0 <= b < 256 -> crc32_tstep crc b = crc32_byte crc b.
Proof.
  intros Hc Hb. unfold crc32_tstep, crc32_byte.
  remember (Z.lxor crc b) as X eqn:EX.
  rewrite (split_low8 X) at 2.
  rewrite (iter_linear _ 8 crc32_step_linear).
  pose proof (crc32_iter_shl 8 (Z.shiftr X 8)) as Hsh. change (Z.of_nat 8) with 8 in Hsh.
  rewrite Hsh.
  pose proof (proj2 crc32_table_ok _ (land_255_range X)) as Ht. unfold crc32_byte in Ht.
  change (Z.lxor 0 (Z.land X 255)) with (Z.land X 255) in Ht. rewrite <- Ht. f_equal.
  subst X. rewrite Z.shiftr_lxor.
  assert (E0 : Z.shiftr b 8 = 0).
  { rewrite Z.shiftr_div_pow2 by lia. change (2 ^ 8) with 256. apply Z.div_small. lia. }
  rewrite E0, Z.lxor_0_r. change 16777215 with (Z.ones 24).
  rewrite Z.land_ones by lia. rewrite Z.shiftr_div_pow2 by lia.
  change (2 ^ 8) with 256. change (2 ^ 24) with 16777216. lia.
Qed.

Lemma crc32_fold data :
  bytes data -> forall crc, 0 <= crc < 4294967296 ->
  fold_left crc32_tstep data crc = fold_left crc32_byte data crc.
Proof.
  induction data as [|b data IH]; intros Hd crc Hc; [reflexivity|].
  apply fold_left_bytes_cons in Hd. destruct Hd as [Hb Hd].
  cbn [fold_left]. rewrite (crc32_byte_step crc b Hc Hb).
  apply IH; [exact Hd|apply crc32_byte_range; assumption].
Qed.

Theorem crc32_spec : forall data, bytes data -> crc32 data = crc32_bit data.
Proof.
  intros data Hd. rewrite crc32_unfold. unfold crc32_bit. f_equal.
  apply crc32_fold; [exact Hd|lia].
Qed.

(* the reference specifications are the standard algorithms: catalogue check values for the
   ASCII string "123456789" (CRC-16/XMODEM 0x31C3, CRC-32 0xCBF43926) *)
Lemma crc_check_values :
  crc16_bit [49; 50; 51; 52; 53; 54; 55; 56; 57] = 0x31C3 /\
  crc32_bit [49; 50; 51; 52; 53; 54; 55; 56; 57] = 0xCBF43926.
Proof. vm_compute. split; reflexivity. Qed.

Print Assumptions crc_ccitt_table_ok.
Print Assumptions crc_ccitt_spec.
Print Assumptions crc32_table_ok.
Print Assumptions crc32_spec.
