(* Master: the extents Master uses (two runs of PathTable's walk, over every record) are the extents
   of Account.layout (the from-scratch model of _reshuffle_extents used for the space accounting):
     ms_visit_sim           Account's breadth-first walk over nodes and PathTable's walk over the
                            tree of records visit the same nodes in the same order
     ms_layout_agrees_true  for every well-formed tree: after the 6 fixed objects Account.layout lists
                            exactly (extent, blocks) of the directories, then of the files with data,
                            and both layouts end at the same extent *)
From Coq Require Import ZArith List Bool Lia ZifyBool.
From PV.Base Require Import Prim ListX.
From PV.Gen Require Import GenConst GenFun.
From PV.Model Require Import Codec Pack PathTable Master.
From PV.Model Require Alloc.
From PV.Proofs Require Import PackProofs PathTableLemmas PathTableProofs.
From PV.Proofs Require AccountLemmas.
From PV.Proofs Require Import MasterPack MasterBfs MasterWf.
Import ListNotations.
Local Open Scope Z_scope.
Ltac Zify.zify_post_hook ::= Z.to_euclidean_division_equations.

(* ---- the two walks visit the same nodes ------------------------------------------------------- *)

Section Sim.
  Variable t : node.
  Variable g : node -> dtree.
  Hypothesis Hg : forall n, tkids (g n) = map g (Account.kids_of n).

  Definition ms_rel_q (n : node) (it : qitem) : Prop :=
    itree it = g n /\ ms_node_at t (ipos it) = Some n.
  Definition ms_rel_r (n : node) (r : dirrec) : Prop :=
    d_blocks r = tblocks (g n) /\ ms_node_at t (d_pos r) = Some n.

  Lemma ms_rel_children n0 pos pn path : ms_node_at t pos = Some n0 ->
    forall kids i, (forall j c, nth_error kids j = Some c ->
                               nth_error (Account.kids_of n0) (i + j) = Some c) ->
    Forall2 ms_rel_q kids (child_items_from i (map g kids) pn pos path).
  Proof.
    intros Hpos. induction kids as [|c kids IH]; intros i Hsub; [constructor|].
    cbn [map child_items_from]. constructor.
    - split; [reflexivity|]. unfold ipos. cbn [fst snd]. rewrite (ms_node_at_snoc pos i t n0 Hpos).
      specialize (Hsub 0%nat c eq_refl). rewrite Nat.add_0_r in Hsub. exact Hsub.
    - apply IH. intros j c' Hj. specialize (Hsub (S j) c' Hj).
      replace (S i + j)%nat with (i + S j)%nat by lia. exact Hsub.
  Qed.

  Lemma ms_nsize_kids n : Account.nsize n = S (AccountLemmas.nsizes (Account.kids_of n)).
  Proof. destruct n; reflexivity. Qed.

  Lemma ms_sim f2 ql idx cur : (qsize ql <= f2)%nat ->
    forall q f1, Forall2 ms_rel_q q ql -> (AccountLemmas.nsizes q <= f1)%nat ->
    Forall2 ms_rel_r (Account.bfs f1 q) (fst (go f2 ql idx cur)).
  Proof.
    revert f2 ql idx cur.
    apply (go_ind (fun ql idx cur res => forall q f1, Forall2 ms_rel_q q ql ->
             (AccountLemmas.nsizes q <= f1)%nat -> Forall2 ms_rel_r (Account.bfs f1 q) (fst res))).
    - intros idx cur q f1 HF _. inversion HF; subst. destruct f1; constructor.
    - intros f nm bl ks pn pos path ql0 idx cur Hf IH q f1 HF Hn.
      inversion HF as [|n it q0 ql' Hrel HF0]; subst. destruct Hrel as [Ht Hp].
      unfold itree, ipos in Ht, Hp. cbn [fst snd] in Ht, Hp.
      cbn [AccountLemmas.nsizes fold_right] in Hn. fold (AccountLemmas.nsizes q0) in Hn.
      rewrite ms_nsize_kids in Hn. destruct f1 as [|f1]; [lia|].
      cbn [Account.bfs fst]. constructor.
      + split; [cbn [d_blocks]; rewrite <- Ht; reflexivity|exact Hp].
      + apply IH; [|rewrite AccountLemmas.nsizes_app; lia].
        apply Forall2_app; [exact HF0|].
        assert (Hks : ks = map g (Account.kids_of n)) by (rewrite <- Hg, <- Ht; reflexivity).
        rewrite Hks. unfold child_items. apply (ms_rel_children n pos idx path Hp).
        intros j c Hj. exact Hj.
  Qed.

  Theorem ms_visit_sim start : Forall2 ms_rel_r (Account.bfs (Account.nsize t) [t]) (bfs start (g t)).
  Proof.
    destruct (g t) as [nm bl ks] eqn:Eg. rewrite bfs_unfold.
    rewrite ms_nsize_kids. cbn [Account.bfs app]. constructor.
    - split; [cbn [d_blocks]; rewrite Eg; reflexivity|reflexivity].
    - apply ms_sim; [apply le_n| |apply le_n].
      assert (Hks : ks = map g (Account.kids_of t)) by (rewrite <- Hg, Eg; reflexivity).
      rewrite Hks. unfold child_items. apply (ms_rel_children t [] 1 [] eq_refl).
      intros j c Hj. exact Hj.
  Qed.
End Sim.

(* ---- a filtered chain is a bump allocation ---------------------------------------------------- *)

Lemma ms_chain_bump f : forall rs e, chain e rs ->
  (forall r, In r rs -> f r = false -> d_blocks r = 0) ->
  map (fun r => (d_extent r, d_blocks r)) (filter f rs) = Alloc.bump e (map d_blocks (filter f rs)) /\
  sumZ (map d_blocks rs) = Alloc.zsum (map d_blocks (filter f rs)).
Proof.
  induction rs as [|r rs IH]; intros e Hc Hz; [split; reflexivity|].
  destruct Hc as [He Hc]. cbn [filter map]. rewrite sumZ_cons.
  destruct (f r) eqn:Ef.
  - destruct (IH (e + d_blocks r) Hc) as [I1 I2]; [intros r' Hr'; apply Hz; right; exact Hr'|].
    cbn [map Alloc.bump]. rewrite I1, He. split; [reflexivity|].
    change (Alloc.zsum (d_blocks r :: ?l)) with (d_blocks r + Alloc.zsum l). lia.
  - pose proof (Hz r (or_introl eq_refl) Ef) as H0. rewrite H0, Z.add_0_r in Hc.
    destruct (IH e Hc) as [I1 I2]; [intros r' Hr'; apply Hz; right; exact Hr'|].
    split; [exact I1|lia].
Qed.

Lemma ms_bump_app a : forall s b,
  Alloc.bump s (a ++ b) = Alloc.bump s a ++ Alloc.bump (s + Alloc.zsum a) b.
Proof.
  induction a as [|x a IH]; intros s b; cbn [app Alloc.bump].
  - change (Alloc.zsum []) with 0. rewrite Z.add_0_r. reflexivity.
  - rewrite IH. change (Alloc.zsum (x :: a)) with (x + Alloc.zsum a). rewrite Z.add_assoc. reflexivity.
Qed.

Lemma ms_zsum_app a b : Alloc.zsum (a ++ b) = Alloc.zsum a + Alloc.zsum b.
Proof. induction a as [|x a IH]; cbn [app]; [reflexivity|]. change (Alloc.zsum (x :: ?l)) with (x + Alloc.zsum l). lia. Qed.

(* ---- sizes agree ------------------------------------------------------------------------------ *)

Section Agree.
  Variable t : node.
  Hypothesis Hwf : wf_tree t = true.

  Lemma ms_dir_sizes ns rs : Forall2 (ms_rel_r t ms_dtree) ns rs ->
    map Account.obj_size (filter Account.is_dir ns)
    = map d_blocks (filter (fun r => ms_is_dir_at t (d_pos r)) rs).
  Proof.
    induction 1 as [|n r ns rs [Hb Hp] _ IH]; [reflexivity|]. cbn [filter].
    unfold ms_is_dir_at at 1. rewrite Hp. destruct n as [nm len|nm dl kids]; cbn [Account.is_dir].
    - exact IH.
    - cbn [map]. rewrite IH, Hb. reflexivity.
  Qed.

  Lemma ms_file_sizes ns rs : Forall2 (ms_rel_r t ms_ftree) ns rs ->
    map Account.obj_size (filter Account.in_file_list ns)
    = map d_blocks (filter (fun r => negb (d_blocks r =? 0)) rs).
  Proof.
    induction 1 as [|n r ns rs [Hb Hp] _ IH]; [reflexivity|]. cbn [filter]. rewrite Hb.
    destruct n as [nm len|nm dl kids]; cbn [Account.in_file_list ms_ftree tblocks].
    - destruct (ms_wf_at t Hwf _ _ Hp) as [b Hw]. destruct b as [|b]; [discriminate|].
      cbn [ms_wf_node] in Hw. repeat (apply andb_prop in Hw; destruct Hw as [Hw ?]).
      assert (E : (ceiling_div len BS =? 0) = (len =? 0)).
      { unfold ceiling_div. rewrite ms_BS. lia. }
      rewrite E. destruct (len =? 0); cbn [negb]; [exact IH|].
      cbn [map]. rewrite IH, Hb. reflexivity.
    - cbn. exact IH.
  Qed.

  Lemma ms_DB_file_zero r : In r (ms_DB t) -> ms_is_dir_at t (d_pos r) = false -> d_blocks r = 0.
  Proof.
    intros Hr Hf. destruct (bfs_describes_tree _ _ _ Hr) as (ks & Hs & _).
    rewrite ms_subtree_dtree in Hs. unfold ms_is_dir_at in Hf.
    destruct (ms_node_at t (d_pos r)) as [[nm len|nm dl kids]|]; try discriminate.
    cbn in Hs. injection Hs as _ Hb _. symmetry. exact Hb.
  Qed.

  Theorem ms_layout_agrees_true : ms_layout_agrees t = true.
  Proof.
    destruct (ms_wf_root t Hwf) as (dl0 & kids0 & _ & Hw & _).
    destruct (extents_disjoint_consecutive (first_dir_extent t) (ms_dtree t)) as (HcD & _ & HeD & _).
    destruct (extents_disjoint_consecutive (ms_dir_end t) (ms_ftree t)) as (HcF & _ & HeF & _).
    fold (ms_DB t) in HcD. fold (ms_FB t) in HcF.
    destruct (ms_chain_bump (fun r => ms_is_dir_at t (d_pos r)) _ _ HcD ms_DB_file_zero) as [D1 D2].
    destruct (ms_chain_bump (fun r => negb (d_blocks r =? 0)) _ _ HcF) as [F1 F2].
    { intros r _ H. lia. }
    pose proof (ms_dir_sizes _ _ (ms_visit_sim t ms_dtree ms_tkids_dtree (first_dir_extent t))) as SD.
    pose proof (ms_file_sizes _ _ (ms_visit_sim t ms_ftree ms_tkids_ftree (ms_dir_end t))) as SF.
    fold (ms_DB t) in SD. fold (ms_FB t) in SF.
    assert (HsD : sumZ (map d_blocks (ms_DB t)) = tree_blocks (ms_dtree t)).
    { rewrite tree_blocks_sum, <- (bfs_sum (fun _ b => b) (first_dir_extent t)). reflexivity. }
    assert (HsF : sumZ (map d_blocks (ms_FB t)) = tree_blocks (ms_ftree t)).
    { rewrite tree_blocks_sum, <- (bfs_sum (fun _ b => b) (ms_dir_end t)). reflexivity. }
    assert (Hend : ms_dir_end t = first_dir_extent t +
              Alloc.zsum (map d_blocks (filter (fun r => ms_is_dir_at t (d_pos r)) (ms_DB t)))).
    { unfold ms_dir_end. rewrite HeD, <- HsD, D2. reflexivity. }
    unfold ms_layout_agrees. apply andb_true_intro. split.
    - apply zz_list_eqb_eq. unfold Account.layout, Account.objects, ms_layout_pairs.
      change (Account.visit (ms_account_state t)) with (Account.bfs (Account.nsize t) [t]).
      rewrite SD, SF. cbn [Account.ptr_ext ms_account_state app Alloc.bump skipn].
      replace (0 + 16 + 1 + 1 + 1 + ms_ptr_ext t + ms_ptr_ext t) with (first_dir_extent t)
        by (unfold first_dir_extent; lia).
      rewrite ms_bump_app, <- Hend, <- D1, <- F1. reflexivity.
    - apply Z.eqb_eq. unfold Account.layout_end, Account.objects, Alloc.bump_end.
      change (Account.visit (ms_account_state t)) with (Account.bfs (Account.nsize t) [t]).
      rewrite SD, SF. cbn [Account.ptr_ext ms_account_state app].
      change (Alloc.zsum (16 :: 1 :: 1 :: 1 :: ms_ptr_ext t :: ms_ptr_ext t :: ?l))
        with (16 + (1 + (1 + (1 + (ms_ptr_ext t + (ms_ptr_ext t + Alloc.zsum l)))))).
      rewrite ms_zsum_app. unfold ms_layout_end. rewrite HeF, <- HsF, F2, Hend.
      unfold first_dir_extent. lia.
  Qed.
End Agree.

Print Assumptions ms_visit_sim.
Print Assumptions ms_layout_agrees_true.
