(* Parse, part 13 (C15, the directory walk as repaired by commit 863c802): ANY bytes, ANY root pointer, ANY path table.
     parse_file_total_any_image   the walk terminates: fuel 2048*(bytes/2048+1)/33 + 3, LINEAR in the size of the
                                  image, is never exhausted (parse_total_any_image: the Master.image reader)
     parse_work_linear            33 * records <= bytes + 2048, 33 * inodes <= bytes + 2048
     parse_work_bounded_refuted_old   for the walk BEFORE that commit the bound was false: directories could
                                  overlap (3 blocks, 304 records; n + 1 + k*n*(n+1)/2 records from n blocks);
                                  the repaired walk answers raise point 9 on those images
     parse_only_documented_errors every failure of the model is one of the nine raise points below, or leaves
                                  the modelled fragment
   NOT covered by these bounds (known finding): inside ONE directory track_child re-walks the children after the
   insertion point, quadratic for descending names (/var/tmp/parse/probe_quadratic.py) *)
From Coq Require Import ZArith List Bool Lia ZifyBool FinFun.
From PV.Base Require Import Prim ListX.
From PV.Gen Require Import GenConst GenFun.
From PV.Model Require Import Codec Pack Master Parse.
From PV.Proofs Require Import MasterPack MasterChecker ParseShareWalk ParseTotal.
Import ListNotations.
Local Open Scope Z_scope.
Ltac Zify.zify_post_hook ::= Z.to_euclidean_division_equations.

(* ---- the whole-file reader ----------------------------------------------------------------------------------- *)

Definition ps_file_U (bytes : list Z) : list Z := map Z.of_nat (seq 0 (S (length bytes / 2048))).

Lemma ps_filter_all {A} (f : A -> bool) l : (forall x, In x l -> f x = true) -> filter f l = l.
Proof.
  induction l as [|x l IH]; intros H; [reflexivity|]. cbn [filter]. rewrite (H x (or_introl eq_refl)).
  rewrite IH; [reflexivity|]. intros y Hy. apply H. right. exact Hy.
Qed.

(* the data handed out for a directory lies in the blocks of its dir_block_range, all of them inside the file *)
Lemma ps_file_rd_ok bytes : ps_rd_ok (ps_file_read bytes) (zlen bytes) (ps_file_U bytes) 2048.
Proof.
  intros ext len data H Hne. unfold ps_file_read in H.
  destruct ((ext <? 0) || (len <? 0)) eqn:E; [discriminate|]. injection H as <-.
  apply orb_false_elim in E. destruct E as [E1 E2].
  assert (Hk : ext * BS < zlen bytes).
  { destruct (Z.lt_ge_cases (ext * BS) (zlen bytes)) as [H|H]; [exact H|].
    exfalso. apply Hne. rewrite skipn_all2 by (unfold zlen in *; lia). apply firstn_nil. }
  assert (Hlen : 0 < len).
  { destruct (Z.lt_ge_cases 0 len) as [H|H]; [exact H|]. exfalso. apply Hne.
    replace (Z.to_nat (Z.min len (zlen bytes))) with 0%nat by lia. reflexivity. }
  set (d := Z.min len (Z.max (zlen bytes - ext * BS) 0)).
  assert (Hd : 0 < d <= zlen bytes - ext * BS /\ d <= len /\ Z.min len (zlen bytes - ext * BS) <= d) by (unfold d; lia).
  assert (Hr : ps_range (zlen bytes) ext len =
               map (fun k => ext + Z.of_nat k) (seq 0 (Z.to_nat (Z.max (ceiling_div d BS) 1)))) by reflexivity.
  clearbody d. rewrite Hr.
  set (R := map (fun k => ext + Z.of_nat k) (seq 0 (Z.to_nat (Z.max (ceiling_div d BS) 1)))).
  assert (Hall : ps_inU (ps_file_U bytes) R = R).
  { apply ps_filter_all. intros b Hb. apply ps_mem_in. unfold R in Hb.
    apply in_map_iff in Hb. destruct Hb as (k & <- & Hk'). apply in_seq in Hk'.
    unfold ps_file_U. apply in_map_iff. exists (Z.to_nat (ext + Z.of_nat k)). split; [lia|]. apply in_seq.
    split; [lia|]. cbn [Nat.add]. apply Nat.lt_succ_r. apply Nat.div_le_lower_bound; [lia|].
    unfold ceiling_div in Hk'. rewrite ms_BS in *. unfold zlen in *. lia. }
  rewrite Hall. unfold R. rewrite map_length, seq_length, firstn_length, skipn_length.
  unfold ceiling_div. rewrite ms_BS in *. unfold zlen in *. lia.
Qed.

Definition ps_file_fuel (bytes : list Z) : nat := ps_fuel_any (ps_file_U bytes) 2048.

(* ---- THEOREM 1 -------------------------------------------------------------------------------------------- *)
(* fuel = 2048 * (bytes/2048 + 1) / 33 + 3: LINEAR in the length of the image *)
Theorem parse_file_total_any_image bytes ptr re rl :
  parse_file (ps_file_fuel bytes) bytes ptr re rl <> PFuel.
Proof. apply ps_parse_total. apply ps_file_rd_ok. Qed.

Lemma ps_file_fuel_value bytes :
  ps_file_fuel bytes = (2048 * (length bytes / 2048 + 1) / 33 + 3)%nat /\
  (33 * ps_file_fuel bytes <= length bytes + 2048 + 99)%nat.
Proof.
  unfold ps_file_fuel, ps_fuel_any, ps_file_U. rewrite map_length, seq_length.
  replace (S (length bytes / 2048)) with (length bytes / 2048 + 1)%nat by lia. split; [reflexivity|].
  pose proof (Nat.div_mod (length bytes) 2048 ltac:(lia)).
  pose proof (Nat.div_mod (2048 * (length bytes / 2048 + 1)) 33 ltac:(lia)). lia.
Qed.

(* ---- THEOREM 2 -------------------------------------------------------------------------------------------- *)
(* every record that parses takes 33 bytes or more of a block that belongs to exactly one walked directory, and
   these blocks lie inside the file: 33 * records <= bytes + 2048 (the last block may be cut), same for inodes *)
Theorem parse_work_linear bytes fuel ptr re rl g : parse_file fuel bytes ptr re rl = POk g ->
  (33 * length (ps_all_recs g) <= length bytes + 2048)%nat /\
  (33 * length (g_inodes g) <= length bytes + 2048)%nat.
Proof.
  intros H. destruct (ps_parse_bounded _ _ _ _ _ _ _ _ _ (ps_file_rd_ok bytes) H) as [A B].
  unfold ps_file_U in A, B. rewrite map_length, seq_length in A, B.
  pose proof (Nat.div_mod (length bytes) 2048 ltac:(lia)). split; lia.
Qed.

(* ---- the Master.image reader ------------------------------------------------------------------------------------ *)

Definition ps_blocks (img : image) : list Z :=
  flat_map (fun c => map (fun k => fst c + Z.of_nat k) (seq 0 (Z.to_nat (zlen (snd c) / BS)))) img.

Lemma ps_get_block_cons e0 bs r e :
  ms_get_block ((e0, bs) :: r) e =
  if (e0 <=? e) && (e <? e0 + zlen bs / BS)
  then Some (firstn (Z.to_nat BS) (skipn (Z.to_nat ((e - e0) * BS)) bs)) else ms_get_block r e.
Proof. reflexivity. Qed.

Lemma ps_get_block_in img : forall e b, ms_get_block img e = Some b ->
  In e (ps_blocks img) /\ (length b <= 2048)%nat.
Proof.
  induction img as [|[e0 bs] img IH]; intros e b H; [discriminate|]. rewrite ps_get_block_cons in H.
  set (blk := firstn (Z.to_nat BS) (skipn (Z.to_nat ((e - e0) * BS)) bs)) in H.
  assert (Hblk : (length blk <= 2048)%nat) by (unfold blk; rewrite firstn_length, ms_BS; lia).
  clearbody blk.
  destruct ((e0 <=? e) && (e <? e0 + zlen bs / BS)) eqn:E.
  - injection H as <-. split.
    + cbn [ps_blocks flat_map fst snd]. apply in_or_app. left. apply in_map_iff. exists (Z.to_nat (e - e0)).
      split; [lia|]. apply in_seq. lia.
    + exact Hblk.
  - destruct (IH e b H) as [A B]. split; [|exact B]. cbn [ps_blocks flat_map]. apply in_or_app. right. exact A.
Qed.

Lemma ps_read_blocks_in img : forall n e d, ms_read_blocks img e n = Some d ->
  (length d <= n * 2048)%nat /\ forall k, (k < n)%nat -> In (e + Z.of_nat k) (ps_blocks img).
Proof.
  induction n as [|n IH]; intros e d H; cbn [ms_read_blocks] in H.
  - injection H as <-. split; [cbn; lia|]. intros k Hk. lia.
  - destruct (ms_get_block img e) as [a|] eqn:Ea; [|discriminate].
    destruct (ms_read_blocks img (e + 1) n) as [b|] eqn:Eb; [|discriminate]. injection H as <-.
    destruct (ps_get_block_in _ _ _ Ea) as [A1 A2]. destruct (IH _ _ Eb) as [B1 B2]. split.
    + rewrite app_length. lia.
    + intros [|k] Hk; [rewrite Z.add_0_r; exact A1|].
      replace (e + Z.of_nat (S k)) with (e + 1 + Z.of_nat k) by lia. apply B2. lia.
Qed.

Lemma ps_img_rd_ok img isz :
  ps_rd_ok (ms_img_read img) isz (ps_blocks img) (length (ps_blocks img) * 2048).
Proof.
  intros ext len data H Hne. unfold ms_img_read in H.
  destruct (ms_read_blocks img ext (Z.to_nat (ceiling_div len BS))) as [d|] eqn:E; [|discriminate].
  injection H as <-. destruct (ps_read_blocks_in _ _ _ _ E) as [A B].
  set (n := Z.to_nat (ceiling_div len BS)) in *.
  assert (Hn : (n <= length (ps_blocks img))%nat).
  { rewrite <- (seq_length n 0), <- (map_length (fun k => ext + Z.of_nat k)).
    apply NoDup_incl_length.
    - apply FinFun.Injective_map_NoDup; [intros a b Hab; lia|apply seq_NoDup].
    - intros x Hx. apply in_map_iff in Hx. destruct Hx as (k & <- & Hk). apply in_seq in Hk. apply B. lia. }
  assert (Hext : In ext (ps_blocks img)).
  { destruct n as [|n']; [cbn in A; destruct d; [|cbn in A; lia]; rewrite firstn_nil in Hne; congruence|].
    specialize (B 0%nat ltac:(lia)). rewrite Z.add_0_r in B. exact B. }
  assert (Hone : (1 <= length (ps_inU (ps_blocks img) (ps_range isz ext len)))%nat).
  { unfold ps_range.
    destruct (Z.to_nat (Z.max (ceiling_div (Z.min len (Z.max (isz - ext * BS) 0)) BS) 1)) as [|m] eqn:Em; [lia|].
    cbn [seq map ps_inU filter]. rewrite Z.add_0_r. apply ps_mem_in in Hext. rewrite Hext. cbn [length]. lia. }
  rewrite firstn_length. nia.
Qed.

Definition ps_img_fuel (img : image) : nat := ps_fuel_any (ps_blocks img) (length (ps_blocks img) * 2048).

Theorem parse_total_any_image img ptr isz re rl : parse (ps_img_fuel img) img ptr isz re rl <> PFuel.
Proof. apply ps_parse_total. apply ps_img_rd_ok. Qed.

Theorem parse_work_bounded_image img fuel ptr isz re rl g : parse fuel img ptr isz re rl = POk g ->
  (33 * length (ps_all_recs g) <= length (ps_blocks img) * 2048 * length (ps_blocks img))%nat.
Proof. intros H. exact (proj1 (ps_parse_bounded _ _ _ _ _ _ _ _ _ (ps_img_rd_ok img isz) H)). Qed.

(* ---- THEOREM 2 was FALSE for the walk before commit 863c802 ---------------------------------------------------------------------------- *)

(* n blocks at extents 0..n-1; the root covers all of them; block 0 also holds directory records D_b -> (extent b,
   the REST of the image) for b = 1..n-1; every block holds k zero-length file records *)
Definition ps_ch_dt : list Z := [123; 11; 14; 22; 13; 20; 0].
Definition ps_ch_files (b : nat) (k : nat) : list (list Z) :=
  map (fun j => ms_enc (ms_rec ps_ch_dt 0 0 0 [70; Z.of_nat b + 48; Z.of_nat j + 32])) (seq 0 k).
Definition ps_ch_block (n k b : nat) : list Z :=
  ms_dir_bytes 2048
    ((match b with
      | O => ms_enc (ms_rec ps_ch_dt 0 (Z.of_nat n * 2048) 2 [0])
             :: ms_enc (ms_rec ps_ch_dt 0 (Z.of_nat n * 2048) 2 [1])
             :: map (fun d => ms_enc (ms_rec ps_ch_dt (Z.of_nat d) (Z.of_nat (n - d) * 2048) 2 [68; Z.of_nat d + 48]))
                    (seq 1 (n - 1))
      | S _ => []
      end) ++ ps_ch_files b k).
Definition ps_chain (n k : nat) : list Z := flat_map (ps_ch_block n k) (seq 0 n).

Definition ps_chain_parse (fixed : bool) (n k : nat) : presult pgraph :=
  parse_file_gen fixed (length (ps_chain n k)) (ps_chain n k) (map Z.of_nat (seq 0 n)) 0 (Z.of_nat n * 2048).
Definition ps_chain_records (n k : nat) : option nat :=
  match ps_chain_parse false n k with
  | POk g => Some (length (ps_all_recs g))
  | _ => None
  end.

(* the OLD walk (parse_file_gen false): "33 * records <= bytes + 2048" was false; the counts are
   n + 1 + k*n*(n+1)/2.  The repaired walk refuses the same images: raise point 9 *)
Theorem parse_work_bounded_refuted_old :
  zlen (ps_chain 3 50) = 6144 /\ ps_chain_records 3 50 = Some 304%nat /\ 33 * 304 > 6144 + 2048 /\
  ps_chain_records 1 10 = Some 12%nat /\ ps_chain_records 2 10 = Some 33%nat /\
  ps_chain_records 3 10 = Some 64%nat /\ ps_chain_records 4 10 = Some 105%nat /\
  ps_chain_parse true 3 50 = PInvalid 9 /\ ps_chain_parse true 2 10 = PInvalid 9.
Proof. vm_compute. repeat split; lia. Qed.

(* ---- THEOREM 3 ------------------------------------------------------------------------------------------------ *)

(* the raise statements behind the failure codes, and the exception that leaves open_fp (through
   _open_fp_checked, which turns struct.error / IndexError / KeyError / ValueError / TypeError /
   AttributeError / ArithmeticError / UnicodeError into PyCdlibInvalidISO('Malformed ISO (...)')):
     1  raise PyCdlibInvalidISO('Invalid directory record')                         PyCdlibInvalidISO
     2  DirectoryRecord.parse: PyCdlibInvalidISO (extent / seqnum copies disagree, Record or Protection
        bit with extended attributes) or struct.error (fewer than 33 bytes)          PyCdlibInvalidISO
     3  extent_to_ptr[new_extent_loc]: KeyError                                      PyCdlibInvalidISO (converted)
     4  raise PyCdlibInvalidInput('Failed adding duplicate name to parent')          PyCdlibInvalidInput
     5  int(version): ValueError                                                     PyCdlibInvalidISO (converted)
     6  raise PyCdlibInvalidISO('Invalid padding on ISO')                            PyCdlibInvalidISO
     7  raise PyCdlibInvalidISO('Directory loop on the ISO')                         PyCdlibInvalidISO
     8  path_table_records[0]: IndexError                                            PyCdlibInvalidISO (converted)
     9  raise PyCdlibInvalidISO('Overlapping directories on the ISO')                PyCdlibInvalidISO
   (7 belongs to the walk before commit 863c802; after it the set seen_dir_extents is never filled) *)
Inductive ps_exn := PyCdlibInvalidISO | PyCdlibInvalidInput.
Definition ps_exn_of (w : Z) : option ps_exn :=
  if w =? 4 then Some PyCdlibInvalidInput
  else if (1 <=? w) && (w <=? 9) then Some PyCdlibInvalidISO else None.

Definition ps_documented {A} (r : presult A) : Prop :=
  match r with
  | PInvalid w => ps_exn_of w <> None
  | PUnsupported w => 1 <= w <= 3
  | _ => True
  end.

Lemma ps_record_documented ptr isz s b : ps_documented (ps_record ptr isz s b).
Proof.
  destruct s as [st l]. unfold ps_record.
  destruct (parse_dr b) as [r|]; [|cbn; discriminate].
  destruct (ps_outside (sysuse r) (znth 32 b)); [cbn; lia|].
  assert (Ht : forall cur child, ps_documented (ps_track cur child l)).
  { intros cur child. unfold ps_track. cbv zeta.
    match goal with |- ps_documented (if ?d then _ else _) => destruct d end; [|exact I].
    match goal with |- ps_documented (if ?d then _ else _) => destruct d end; cbn; [discriminate|lia]. }
  destruct (ps_is_dir r).
  - cbv beta iota zeta.
    match goal with |- context [if ?c then PInvalid 3 else _] => destruct c; [cbn; discriminate|] end.
    match goal with |- context [ps_track ?a ?c l] => pose proof (Ht a c) as H; destruct (ps_track a c l) end;
      exact H.
  - destruct (ps_link isz st (extent r) (data_len r)) as [[i d] st1].
    cbv beta iota zeta. cbn [andb]. cbv iota.
    match goal with |- context [ps_track ?a ?c l] => pose proof (Ht a c) as H; destruct (ps_track a c l) end;
      try exact H.
    match goal with |- ps_documented (match ?o with Some _ => _ | None => _ end) => destruct o end;
      [exact I|cbn; discriminate].
Qed.

Lemma ps_scan_documented {S} (step : S -> list Z -> presult S) :
  (forall s b, ps_documented (step s b)) ->
  forall fuel data off len s, ps_documented (ps_scan step fuel data off len s).
Proof.
  intros Hs. induction fuel as [|f IH]; intros data off len s; [exact I|]. cbn [ps_scan].
  destruct (off <? len); [|exact I]. destruct data as [|x data']; [cbn; discriminate|].
  destruct (x =? 0).
  - match goal with |- ps_documented (if ?c then _ else _) => destruct c end; [apply IH|cbn; discriminate].
  - pose proof (Hs s (firstn (Z.to_nat x) (x :: data'))) as H.
    destruct (step s (firstn (Z.to_nat x) (x :: data'))); try exact H. apply IH.
Qed.

Lemma ps_walk_documented fixed rd ptr isz : forall fuel st, ps_documented (ps_walk fixed fuel rd ptr isz st).
Proof.
  induction fuel as [|f IH]; intros st; [exact I|]. cbn [ps_walk].
  destruct (s_queue st) as [|[ext len] q]; [exact I|].
  destruct (ps_enter fixed isz (s_seen st) ext len) as [e|sn] eqn:Ee.
  { unfold ps_enter in Ee. destruct fixed.
    - cbv zeta in Ee. destruct (existsb _ _); [injection Ee as <-; cbn; discriminate|discriminate].
    - destruct (ps_mem ext (s_seen st)); [injection Ee as <-; cbn; discriminate|discriminate]. }
  destruct (rd ext len) as [data|]; [|cbn; lia].
  pose proof (ps_scan_documented (ps_record ptr isz) (ps_record_documented ptr isz) (S (length data)) data 0 len
                (ps_begin_dir st q sn, None)) as H.
  destruct (ps_scan _ _ data 0 len _) as [[st' l']| | |]; try exact H. apply IH.
Qed.

Theorem parse_only_documented_errors fixed fuel rd ptr isz re rl :
  match ps_parse_gen fixed fuel rd ptr isz re rl with
  | PInvalid w => exists e, ps_exn_of w = Some e       (* a PyCdlibInvalidISO, or for 4 a PyCdlibInvalidInput *)
  | PUnsupported w => 1 <= w <= 3                     (* outside the modelled fragment *)
  | _ => True
  end.
Proof.
  unfold ps_parse_gen. destruct ptr as [|e0 pt]; [exists PyCdlibInvalidISO; reflexivity|].
  pose proof (ps_walk_documented fixed rd (e0 :: pt) isz fuel (ps_init re rl)) as H.
  destruct (ps_walk fixed fuel rd (e0 :: pt) isz (ps_init re rl)); try exact H; try exact I.
  cbn in H. destruct (ps_exn_of why) as [e|]; [exists e; reflexivity|congruence].
Qed.

Print Assumptions parse_file_total_any_image.
Print Assumptions parse_total_any_image.
Print Assumptions parse_work_linear.
Print Assumptions parse_work_bounded_refuted_old.
Print Assumptions parse_only_documented_errors.
