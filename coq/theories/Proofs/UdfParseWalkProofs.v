(* C10 / C02 -- Model/UdfParse.v: the parser's loops on the view of a layout whose directories are linked
   as ul_bfs links them build exactly the writer's graph (ug_kids / ug_dirs), Inode table included.
   The hypotheses of the section are discharged for udf_layout in UdfParseProofs.v. *)
From Coq Require Import ZArith List Bool Lia ZifyBool Arith.
From PV.Base Require Import Prim.
From PV.Gen Require Import GenFun.
From PV.Model Require Import Codec Fid UdfDir UdfLayout UdfParse.
From PV.Proofs Require Import ChecksumsArithProofs FidProofs UdfDirProofs UdfLayoutBfsProofs UdfLayoutViewProofs
     UdfLayoutFactsProofs UdfLayoutWalkProofs UdfParseTableProofs.
Import ListNotations.
Local Open Scope Z_scope.

(* ---- where the directory children of the k-th popped directory are popped ---- *)
Fixpoint up_kid0 (k n : nat) (rs : list dirrec) : Prop :=
  match rs with
  | [] => True
  | r :: rs' => dr_kid0 r = (k + n)%nat /\ (1 <= n)%nat /\
                up_kid0 (S k) (n - 1 + length (ul_dir_children (dr_node r))) rs'
  end.

Lemma up_bfs_kid0 fuel : forall k cur q, up_kid0 k (length q) (fst (ul_bfs fuel k cur q)).
Proof.
  induction fuel as [|f IH]; intros k cur q; [exact I|].
  destruct q as [|[[p pf] cs] rest]; [exact I|]. cbn [ul_bfs].
  specialize (IH (S k) (cur + 1 + ul_dir_blocks cs) (rest ++ ul_dir_kids p cur cs)).
  destruct (ul_bfs f (S k) (cur + 1 + ul_dir_blocks cs) (rest ++ ul_dir_kids p cur cs)) as [rs e].
  cbn [fst up_kid0 dr_kid0 dr_node length] in *. split; [reflexivity|]. split; [lia|].
  rewrite app_length, ul_dir_kids_map, map_length in IH.
  replace (S (length rest) - 1 + length (ul_dir_children cs))%nat with (length rest + length (ul_dir_children cs))%nat by lia.
  exact IH.
Qed.

(* ---- one turn of the FID loop, as equations ---- *)
Definition up_cont (res : presult pacc) (f : pfid) (q : list pentry) : presult pacc :=
  match res with
  | POk (fs, q', nx, is) => POk (f :: fs, q ++ q', nx, is)
  | PInvalid w => PInvalid w
  | PUnsupported w => PUnsupported w
  | PFuel => PFuel
  end.

Lemma up_fids_nil ps v dobj apos alen off next inos : alen <= off ->
  up_fids ps v dobj apos alen [] off next inos = POk ([], [], next, inos).
Proof. intros H. cbn [up_fids]. replace (off <? alen) with false by lia. reflexivity. Qed.

Lemma up_fids_parent ps v dobj apos alen tag n isdir icb r off next inos :
  off + udf_fid_length (zlen n) <= alen -> 0 < udf_fid_length (zlen n) ->
  up_fids ps v dobj apos alen ((tag, n, isdir, true, icb) :: r) off next inos =
  up_cont (up_fids ps v dobj apos alen r (off + udf_fid_length (zlen n)) next inos)
          (mk_pfid [] isdir true icb (apos + off / 2048) None) [].
Proof.
  intros H1 H2. cbn [up_fids]. replace (off <? alen) with true by lia.
  replace (alen <? off + udf_fid_length (zlen n)) with false by lia. cbn [negb andb]. reflexivity.
Qed.

Lemma up_fids_dir ps v dobj apos alen tag n icb r off next inos fdir tg info ads :
  off + udf_fid_length (zlen n) <= alen -> 0 < udf_fid_length (zlen n) -> 1 <= zlen n ->
  vlookup icb v = Some (SFe fdir tg info ads) ->
  up_fids ps v dobj apos alen ((tag, n, true, false, icb) :: r) off next inos =
  up_cont (up_fids ps v dobj apos alen r (off + udf_fid_length (zlen n)) (S next) inos)
          (mk_pfid n true false icb (apos + off / 2048) (Some (mk_pentry next icb fdir info ads (Some dobj) None)))
          [mk_pentry next icb fdir info ads (Some dobj) None].
Proof.
  intros H1 H2 H3 Hv. cbn [up_fids]. replace (off <? alen) with true by lia.
  replace (alen <? off + udf_fid_length (zlen n)) with false by lia.
  replace (zlen n =? 0) with false by lia. cbn [negb andb]. rewrite Hv. reflexivity.
Qed.

Lemma up_fids_file ps v dobj apos alen tag n icb r off next inos fdir tg info ads inos' ix :
  off + udf_fid_length (zlen n) <= alen -> 0 < udf_fid_length (zlen n) -> 1 <= zlen n ->
  vlookup icb v = Some (SFe fdir tg info ads) ->
  up_link ps inos next icb info ads = Some (inos', ix) ->
  up_fids ps v dobj apos alen ((tag, n, false, false, icb) :: r) off next inos =
  up_cont (up_fids ps v dobj apos alen r (off + udf_fid_length (zlen n)) (S next) inos')
          (mk_pfid n false false icb (apos + off / 2048) (Some (mk_pentry next icb fdir info ads (Some dobj) (Some ix))))
          [].
Proof.
  intros H1 H2 H3 Hv Hl. cbn [up_fids]. replace (off <? alen) with true by lia.
  replace (alen <? off + udf_fid_length (zlen n)) with false by lia.
  replace (zlen n =? 0) with false by lia. cbn [negb andb]. rewrite Hv, Hl. reflexivity.
Qed.

Lemma up_clen_range c : 1 <= zlen (ut_name c) <= 254 -> 40 <= ul_clen c <= 296.
Proof. intros H. unfold ul_clen. apply fid_length_range. lia. Qed.

Lemma up_clen_sum cs : Forall (fun c => 1 <= zlen (ut_name c) <= 254) cs -> 0 <= Fid.zsum (map ul_clen cs).
Proof.
  induction 1 as [|c r Hc Hr IH]; [unfold Fid.zsum; cbn; lia|]. cbn [map]. rewrite fzsum_cons.
  pose proof (up_clen_range c Hc). lia.
Qed.

Lemma up_children_dir n sub r : ul_dir_children (UDir n sub :: r) = (n, sub) :: ul_dir_children r.
Proof. reflexivity. Qed.
Lemma up_children_file n l i r : ul_dir_children (UFile n l i :: r) = ul_dir_children r.
Proof. reflexivity. Qed.

Lemma up_zmem_fresh x seen : Forall (fun b => b < x) seen -> up_zmem x seen = false.
Proof.
  induction 1 as [|b r Hb Hr IH]; [reflexivity|]. unfold up_zmem in *. cbn [existsb]. rewrite IH.
  replace (x =? b) with false by lia. reflexivity.
Qed.

Section Parse.
  Variable lo : layout.
  Let ps := lo_ps lo.
  Let v := snd (view lo).
  Variable lo0 : Z.
  Variable N : list (nat * Z).
  Hypothesis Hkeys : ul_incr lo0 (map fst v).
  Hypothesis Hlink : ul_linked 0 (lo_dirs lo).
  Hypothesis Hok : Forall (fun r => ul_node_ok (dr_node r)) (lo_dirs lo).
  Hypothesis Hfiles : forall r n l i, In r (lo_dirs lo) -> In (UFile n l i) (dr_node r) ->
    exists fe, ul_find i (lo_fes lo) = Some fe /\ In (i, fe, l) (lo_fes lo) /\ 0 <= l /\ In (i, l) N.
  Hypothesis Hcons : forall i l l', In (i, l) N -> In (i, l') N -> l = l'.
  Hypothesis Hinj : forall i l j l', In (i, l) N -> In (j, l') N -> ug_key lo i l = ug_key lo j l' -> i = j.
  Hypothesis Hpos : forall i l, In (i, l) N -> 0 < l -> 0 < lo_ps lo + ul_data_pos lo i.

  Lemma up_view_file i fe l : In (i, fe, l) (lo_fes lo) ->
    vlookup (fe - ps) v = Some (SFe false (fe - ps) l (ul_ads (ul_data_pos lo i) l)).
  Proof.
    intros Hin. apply (ul_vlookup_in v lo0); [exact Hkeys|]. unfold v, view. cbn [snd]. apply in_or_app. right.
    change (fe - ps, SFe false (fe - ps) l (ul_ads (ul_data_pos lo i) l)) with (ul_file_entry lo (i, fe, l)).
    apply in_map. exact Hin.
  Qed.

  Definition up_qspec (j : nat) (q : list pentry) : Prop :=
    forall jj e, nth_error q jj = Some e -> exists r', nth_error (lo_dirs lo) (j + jj) = Some r' /\
      pe_block e = dr_fe r' - ps /\ pe_ads e = [(dr_fe r' - ps + 1, ul_dir_info (dr_node r'))].

  Lemma up_fids_kids dobj apos alen : forall cs2 off j next wt fs q nx wt',
    Forall (fun c => 1 <= zlen (ut_name c) <= 254) cs2 ->
    off + Fid.zsum (map ul_clen cs2) = alen ->
    (forall jj n cs', nth_error (ul_dir_children cs2) jj = Some (n, cs') ->
       exists r', nth_error (lo_dirs lo) (j + jj) = Some r' /\ dr_node r' = cs') ->
    (forall n l i, In (UFile n l i) cs2 ->
       exists fe, ul_find i (lo_fes lo) = Some fe /\ In (i, fe, l) (lo_fes lo) /\ 0 <= l /\ In (i, l) N) ->
    Forall (up_wt_inv lo N) wt ->
    ug_kids lo dobj cs2 (map (fun s => apos + s / 2048) (starts off (map ul_clen cs2))) (ul_kid_icbs lo j cs2) j next wt
      = (fs, q, nx, wt') ->
    up_fids ps v dobj apos alen
      (ul_mk_fids (map (fun c => child_fident (ut_fident c)) cs2)
                  (map (fun s => apos + s / 2048) (starts off (map ul_clen cs2))) (ul_kid_icbs lo j cs2))
      off next (map wi_ino wt) = POk (fs, q, nx, map wi_ino wt') /\
    Forall (up_wt_inv lo N) wt' /\
    length q = length (ul_dir_children cs2) /\ up_qspec j q.
  Proof.
    induction cs2 as [|c r IH]; intros off j next wt fs q nx wt' Hn Hsum Hd Hf Hwt Hug.
    - cbn [map starts ul_kid_icbs ug_kids ul_mk_fids] in *. inversion Hug; subst fs q nx wt'.
      unfold Fid.zsum in Hsum. cbn [fold_right] in Hsum.
      rewrite up_fids_nil by lia. repeat split; try assumption. intros [|jj] e H; discriminate.
    - pose proof (Forall_inv Hn) as Hc. pose proof (Forall_inv_tail Hn) as Hr. cbv beta in Hc.
      pose proof (up_clen_range c Hc) as Hlen. pose proof (up_clen_sum r Hr) as Hrest.
      cbn [map] in Hsum. rewrite fzsum_cons in Hsum.
      destruct c as [n l i|n sub].
      + (* a file *)
        destruct (Hf n l i (or_introl eq_refl)) as (fe & Hfind & Hin & Hl & HN).
        cbn [map starts ul_kid_icbs ug_kids ul_mk_fids] in Hug |- *. rewrite Hfind in Hug |- *.
        change (fi_isparent (child_fident (ut_fident (UFile n l i)))) with false.
        change (fi_name (child_fident (ut_fident (UFile n l i)))) with n.
        change (fi_isdir (child_fident (ut_fident (UFile n l i)))) with false.
        change (ul_clen (UFile n l i)) with (udf_fid_length (zlen n)) in *. cbn [ut_name] in Hc.
        destruct (up_link_sim lo N Hcons Hinj Hpos wt next i l Hwt HN Hl) as [Hlink1 Hwt1].
        unfold ug_fe_block in Hlink1. rewrite Hfind in Hlink1. fold ps in Hlink1.
        destruct (ug_link lo wt next i l) as [wt1 ix] eqn:EL. cbn [fst snd] in Hlink1, Hwt1.
        destruct (ug_kids lo dobj r (map (fun s => apos + s / 2048) (starts (off + udf_fid_length (zlen n)) (map ul_clen r)))
                    (ul_kid_icbs lo j r) j (S next) wt1) as [[[fs1 q1] nx1] wt1'] eqn:EK.
        inversion Hug; subst fs q nx wt'.
        destruct (IH (off + udf_fid_length (zlen n)) j (S next) wt1 fs1 q1 nx1 wt1' Hr ltac:(lia)) as (P1 & P2 & P3 & P4).
        { intros jj n' cs' H. apply (Hd jj n' cs'). rewrite up_children_file. exact H. }
        { intros n' l' i' H. apply (Hf n' l' i'). right. exact H. }
        { exact Hwt1. } { exact EK. }
        rewrite (up_fids_file ps v dobj apos alen _ n (fe - ps) _ off next (map wi_ino wt) false (fe - ps) l
                   (ul_ads (ul_data_pos lo i) l) (map wi_ino wt1) ix ltac:(lia) ltac:(lia) ltac:(lia)
                   (up_view_file i fe l Hin) Hlink1).
        rewrite P1. cbn [up_cont app]. repeat split; try assumption.
      + (* a directory *)
        destruct (Hd 0%nat n sub eq_refl) as (r' & Hr' & Enode). rewrite Nat.add_0_r in Hr'.
        cbn [map starts ul_kid_icbs ug_kids ul_mk_fids] in Hug |- *. rewrite Hr' in Hug |- *.
        change (fi_isparent (child_fident (ut_fident (UDir n sub)))) with false.
        change (fi_name (child_fident (ut_fident (UDir n sub)))) with n.
        change (fi_isdir (child_fident (ut_fident (UDir n sub)))) with true.
        change (ul_clen (UDir n sub)) with (udf_fid_length (zlen n)) in *. cbn [ut_name] in Hc.
        destruct (ug_kids lo dobj r (map (fun s => apos + s / 2048) (starts (off + udf_fid_length (zlen n)) (map ul_clen r)))
                    (ul_kid_icbs lo (S j) r) (S j) (S next) wt) as [[[fs1 q1] nx1] wt1'] eqn:EK.
        inversion Hug; subst fs q nx wt'.
        destruct (IH (off + udf_fid_length (zlen n)) (S j) (S next) wt fs1 q1 nx1 wt1' Hr ltac:(lia)) as (P1 & P2 & P3 & P4).
        { intros jj n' cs' H. destruct (Hd (S jj) n' cs') as (r'' & H1 & H2); [rewrite up_children_dir; exact H|].
          exists r''. split; [|exact H2]. rewrite <- H1. f_equal. lia. }
        { intros n' l' i' H. apply (Hf n' l' i'). right. exact H. }
        { exact Hwt. } { exact EK. }
        pose proof (ul_view_fe lo lo0 Hkeys r' (nth_error_In _ _ Hr')) as Hv. fold ps in Hv. fold v in Hv.
        rewrite (up_fids_dir ps v dobj apos alen _ n (dr_fe r' - ps) _ off next (map wi_ino wt) true (dr_fe r' - ps)
                   (ul_dir_info (dr_node r')) [(dr_fe r' - ps + 1, ul_dir_info (dr_node r'))]
                   ltac:(lia) ltac:(lia) ltac:(lia) Hv).
        rewrite P1, Enode. cbn [up_cont app]. split; [reflexivity|]. split; [exact P2|]. split.
        * rewrite up_children_dir. cbn [length]. rewrite P3. reflexivity.
        * intros [|jj] e H.
          -- cbn [nth_error] in H. inversion H; subst e. exists r'. rewrite Nat.add_0_r. cbn [pe_block pe_ads].
             rewrite Enode. repeat split; [exact Hr'].
          -- cbn [nth_error] in H. destruct (P4 jj e H) as (r'' & H1 & H2). exists r''. split; [|exact H2].
             rewrite <- H1. f_equal. lia.
  Qed.

  (* ---- the deque loop ---- *)
  Definition up_qinv (k : nat) (pq : list pentry) : Prop := up_qspec k pq.

  Lemma up_loop_dirs : forall rs fuel k cur pq seen next wt ds wt',
    (forall m, nth_error rs m = nth_error (lo_dirs lo) (k + m)) ->
    up_qinv k pq -> up_kid0 k (length pq) rs -> ul_chain cur rs ->
    Forall (fun b => b < cur - ps) seen ->
    Forall (up_wt_inv lo N) wt -> (length rs <= fuel)%nat ->
    ug_dirs lo rs (map pe_obj pq) next wt = (ds, wt') ->
    up_loop fuel ps v pq seen next (map wi_ino wt) = POk (ds, map wi_ino wt').
  Proof.
    induction rs as [|r rs' IH]; intros fuel k cur pq seen next wt ds wt' Hrs Hq Hk0 Hch Hseen Hwt Hfuel Hug.
    - destruct pq as [|e rest].
      + cbn [map ug_dirs] in Hug. inversion Hug; subst. destruct fuel; reflexivity.
      + destruct (Hq 0%nat e eq_refl) as (r0 & H0 & _). rewrite <- Hrs in H0. discriminate.
    - destruct pq as [|e rest].
      + cbn [map ug_dirs] in Hug. inversion Hug; subst. destruct fuel; reflexivity.
      + destruct fuel as [|f]; [cbn [length] in Hfuel; lia|].
        destruct (Hq 0%nat e eq_refl) as (r0 & H0 & Hblk & Hads).
        pose proof (Hrs 0%nat) as Hr0. cbn [nth_error] in Hr0. rewrite H0 in Hr0. inversion Hr0; subst r0. clear Hr0.
        rewrite Nat.add_0_r in H0.
        pose proof (nth_error_In _ _ H0) as Hin.
        pose proof (proj1 (Forall_forall _ _) Hok r Hin) as Hnok. cbv beta in Hnok.
        cbn [ul_chain] in Hch. destruct Hch as [Hfe Hch].
        cbn [up_kid0] in Hk0. destruct Hk0 as (Hkid & _ & Hk0). cbn [length] in Hkid, Hk0.
        pose proof (ul_info_lower _ Hnok) as Hinfo. pose proof (ul_blocks_pos _ Hnok) as Hblocks.
        cbn [up_loop]. rewrite Hblk, Hfe. rewrite (up_zmem_fresh _ _ Hseen). rewrite Hads, <- Hfe.
        cbn [up_areas]. replace (ul_dir_info (dr_node r) <=? 0) with false by lia.
        pose proof (ul_view_area lo lo0 Hkeys r Hin) as Hva. fold ps in Hva. fold v in Hva. rewrite Hva.
        (* the writer's side *)
        cbn [map ug_dirs] in Hug. unfold ug_dir in Hug.
        rewrite (ul_dir_tags_eq lo r Hnok) in Hug |- *. unfold ul_dir_icbs, ul_dir_descs, ul_lens in Hug |- *.
        cbn [starts map ul_mk_fids] in Hug |- *.
        replace (dr_fe r + 1 - lo_ps lo) with (dr_fe r - ps + 1) in Hug |- * by (unfold ps; lia).
        change (fi_isdir parent_fident) with true. change (fi_isparent parent_fident) with true.
        change (fi_name parent_fident) with (@nil Z).
        destruct (ug_kids lo (pe_obj e) (dr_node r)
                    (map (fun s => dr_fe r - ps + 1 + s / 2048) (starts (0 + udf_fid_length 0) (map ul_clen (dr_node r))))
                    (ul_kid_icbs lo (dr_kid0 r) (dr_node r)) (dr_kid0 r) next wt) as [[[fs1 q1] nx1] wt1] eqn:EK.
        destruct (ug_dirs lo rs' (map pe_obj rest ++ map pe_obj q1) nx1 wt1) as [ds2 wt2] eqn:ED.
        inversion Hug; subst ds wt'. clear Hug.
        rewrite (up_fids_parent ps v (pe_obj e) (dr_fe r - ps + 1) (ul_dir_info (dr_node r)) _ [] true _ _ 0 next (map wi_ino wt))
          by (change (zlen (@nil Z)) with 0; rewrite fid_len0; lia).
        change (zlen (@nil Z)) with 0.
        destruct (up_fids_kids (pe_obj e) (dr_fe r - ps + 1) (ul_dir_info (dr_node r)) (dr_node r) (0 + udf_fid_length 0)
                    (dr_kid0 r) next wt fs1 q1 nx1 wt1) as (P1 & P2 & P3 & P4).
        { exact (ul_node_ok_names _ Hnok). }
        { rewrite ul_info_eq. unfold ul_lens. rewrite fzsum_cons. lia. }
        { intros jj n cs' H. destruct (Hlink _ r H0) as [_ Hk]. destruct (Hk jj n cs' H) as (r' & H1 & (_ & _ & H2)).
          exists r'. rewrite Nat.sub_0_r in H1. split; assumption. }
        { intros n l i H. exact (Hfiles r n l i Hin H). }
        { exact Hwt. } { exact EK. }
        rewrite P1. cbn [up_cont app]. rewrite !app_nil_r.
        rewrite (IH f (S k) (cur + 1 + ul_dir_blocks (dr_node r)) (rest ++ q1) (dr_fe r - ps :: seen) nx1 wt1 ds2 wt2).
        * reflexivity.
        * intros m. pose proof (Hrs (S m)) as H. cbn [nth_error] in H. rewrite H. f_equal. lia.
        * intros m e' H. destruct (Nat.lt_ge_cases m (length rest)) as [Hlt|Hge].
          -- rewrite nth_error_app1 in H by exact Hlt. destruct (Hq (S m) e' H) as (r' & H1 & H2).
             exists r'. split; [|exact H2]. rewrite <- H1. f_equal. lia.
          -- rewrite nth_error_app2 in H by exact Hge. destruct (P4 _ e' H) as (r' & H1 & H2).
             exists r'. split; [|exact H2]. rewrite <- H1. f_equal. lia.
        * rewrite app_length, P3. replace (S (length rest) - 1 + length (ul_dir_children (dr_node r)))%nat
            with (length rest + length (ul_dir_children (dr_node r)))%nat in Hk0 by lia. exact Hk0.
        * exact Hch.
        * constructor; [lia|]. eapply Forall_impl; [|exact Hseen]. cbv beta. intros; lia.
        * exact P2.
        * cbn [length] in Hfuel. lia.
        * rewrite map_app. exact ED.
  Qed.
End Parse.

Print Assumptions up_loop_dirs.
Print Assumptions up_bfs_kid0.
