(* Examples and counterexamples for Model/InPlace.v on states taken from real pycdlib object graphs
   (Model/InPlaceExamples.v):
     ip_ex2_wf / ip_ex2_links / ip_ex2_run   the hypotheses of the theorems hold for a two-link file whose first
                                             record is the last of its directory block and whose second record
                                             is in the second block; the model issues pycdlib's writes
     ip_ex5_wf / ip_ex5_run                  the same with Joliet, UDF (File Entry linked twice), Rock Ridge
     inplace_zero_padding_refuted            "new bytes, then zeros up to the end of the sector" is FALSE: the
                                             old bytes between the new end and the last byte of the sector stay
     inplace_refused_writes_nothing_refuted  BEFORE /repo 0411073: with a negative length the call raised AFTER it
                                             had written a zero byte at absolute offset 4 of the image (inside the
                                             system area); now refused up front (ip_exn_run, inplace_negative_refused)
     ip_short_fp_example                     an fp holding fewer bytes than `length`: the zero byte lands early
   All closed under the global context (Print Assumptions at the end). *)
From Coq Require Import ZArith List Bool Lia.
From PV.Base Require Import Prim.
From PV.Gen Require Import GenFun.
From PV.Model Require Import Codec Udf InPlace InPlaceExamples.
From PV.Proofs Require Import InPlaceImgProofs InPlaceProofs InPlaceDecodeProofs.
Import ListNotations.
Local Open Scope Z_scope.

(* ---- two links across a directory block boundary ---- *)
Example ip_ex2_wf : wf_state ex2_st ex2_m = true.
Proof. vm_compute. reflexivity. Qed.

(* (extents_to_here, offset_to_here, dr_len): the first record ends at 2040 of block 1 -- the next 42-byte
   record does not fit into the 8 bytes left --, the second one starts block 2 *)
Example ip_ex2_links :
  map (fun l => match l with LDr _ _ eth oth dl _ _ => (eth, oth, dl) | _ => (0, 0, 0) end) (st_linked ex2_st)
  = [(1, 2040, 42); (2, 42, 42)] /\ st_ino_len ex2_st = 3000 /\ zlen ex2_fp = 2100.
Proof. vm_compute. repeat split. Qed.

Example ip_ex2_run : outcome_ok (modify ex2_st ex2_fp ex2_now) 1 (expand_writes ex2_logged) = true.
Proof. vm_compute. reflexivity. Qed.

Definition ex2_ws : list write := match modify ex2_st ex2_fp ex2_now with Done ws => ws | _ => [] end.
Lemma ip_ex2_done : modify ex2_st ex2_fp ex2_now = Done ex2_ws.
Proof. vm_compute. reflexivity. Qed.

(* the general theorems instantiated: both records decode to the old record with data_length := 2100 *)
Example ip_ex2_decodes : forall l rest, In l (st_linked ex2_st) ->
  match l with
  | LDr _ (Some pe) eth oth dl _ r =>
      dec_dr (read (apply_writes ex2_ws ex2_m) ((pe + eth - 1) * 2048 + (oth - dl)) (Z.to_nat dl) ++ rest)
      = Some (CodecProofs.pad_sysuse (dr_set_len r (zlen ex2_fp)), rest)
  | _ => False
  end.
Proof.
  intros l rest Hin.
  assert (Hc : st_child ex2_st = ChFile 69) by reflexivity.
  assert (Hn : length ex2_now = 17%nat) by reflexivity.
  unfold ex2_st in Hin. cbn [st_linked] in Hin.
  destruct Hin as [<-|[<-|[]]].
  - destruct (inplace_dr_decodes ex2_st ex2_m ex2_fp ex2_now ex2_ws 69 _ _ _ _ _ _ _ rest
                ip_ex2_wf Hn Hc ip_ex2_done (or_introl eq_refl)) as [H _]. exact H.
  - destruct (inplace_dr_decodes ex2_st ex2_m ex2_fp ex2_now ex2_ws 69 _ _ _ _ _ _ _ rest
                ip_ex2_wf Hn Hc ip_ex2_done (or_intror (or_introl eq_refl))) as [H _]. exact H.
Qed.

(* ---- zero padding ---- *)
Theorem inplace_zero_padding_refuted :
  exists st m d now ws ext a,
    wf_state st m = true /\ length now = 17%nat /\ st_child st = ChFile ext /\ modify st d now = Done ws /\
    ext * 2048 + zlen d <= a < ext * 2048 + ceiling_div (zlen d) 2048 * 2048 /\
    apply_writes ws m a = m a /\ m a <> 0.
Proof.
  exists ex2_st, ex2_m, ex2_fp, ex2_now, ex2_ws, 69, (69 * 2048 + 2100).
  split; [exact ip_ex2_wf|]. split; [reflexivity|]. split; [reflexivity|]. split; [exact ip_ex2_done|].
  split; [vm_compute; split; [discriminate|reflexivity]|].
  split; [vm_compute; reflexivity|vm_compute; discriminate].
Qed.

(* ---- refused after writing ---- *)
Example ip_exn_wf : wf_state exn_st exn_m = true.
Proof. vm_compute. reflexivity. Qed.

(* the code BEFORE /repo commit 0411073 (no "length < 0" test): exn_logged are the writes that library issued *)
Theorem inplace_refused_writes_nothing_refuted :
  exists st m len fp now ws,
    wf_state st m = true /\ length now = 17%nat /\ st_ino_len st = 0 /\ len = -5 /\
    modify_run_before_0411073 st len fp now = Partial ws /\ In (4, [0]) ws.
Proof.
  exists exn_st, exn_m, (-5), [], exn_now.
  exists (match modify_run_before_0411073 exn_st (-5) [] exn_now with Partial ws => ws | _ => [] end).
  split; [exact ip_exn_wf|]. split; [reflexivity|]. split; [reflexivity|]. split; [reflexivity|].
  split; [vm_compute; reflexivity|]. vm_compute. right. left. reflexivity.
Qed.
Example ip_exn_run_before :
  outcome_ok (modify_run_before_0411073 exn_st (-5) exn_fp exn_now) 2 (expand_writes exn_logged) = true.
Proof. vm_compute. reflexivity. Qed.
(* the code as it is now *)
Example ip_exn_run : modify_run exn_st (-5) exn_fp exn_now = Refused.
Proof. vm_compute. reflexivity. Qed.

(* ---- every namespace, File Entry linked twice ---- *)
Example ip_ex5_wf : wf_state ex5_st ex5_m = true.
Proof. vm_compute. reflexivity. Qed.
Example ip_ex5_run : outcome_ok (modify ex5_st ex5_fp ex5_now) 1 (expand_writes ex5_logged) = true.
Proof. vm_compute. reflexivity. Qed.
Example ip_ex5_kinds :
  map (fun l => match l with LDr j _ _ _ _ _ _ => if j then 2 else 1 | LFe _ _ => 3 | LEt => 4 | LOther => 5 end)
      (st_linked ex5_st) = [1; 1; 1; 2; 2; 3; 3].
Proof. vm_compute. reflexivity. Qed.

(* ---- an fp that holds fewer bytes than `length` (utils.copy_data stops silently): the records say 4200 bytes,
   3000 were written, and the zero byte of zero_pad lands 1200 bytes before the end of the sector ---- *)
Example ip_short_fp_example :
  exists ws, modify_run ex5_st 4200 (firstn 3000 ex5_fp) ex5_now = Done ws /\
             In (284 * 2048 + 3000 + (2048 - 4200 mod 2048 - 1), [0]) ws /\
             284 * 2048 + 3000 + (2048 - 4200 mod 2048 - 1) <> 284 * 2048 + 3 * 2048 - 1.
Proof.
  exists (match modify_run ex5_st 4200 (firstn 3000 ex5_fp) ex5_now with Done ws => ws | _ => [] end).
  split; [vm_compute; reflexivity|]. split; [|vm_compute; discriminate].
  vm_compute. do 4 right. left. reflexivity.
Qed.

Print Assumptions ip_ex2_decodes.
Print Assumptions inplace_zero_padding_refuted.
Print Assumptions inplace_refused_writes_nothing_refuted.
Print Assumptions ip_short_fp_example.
