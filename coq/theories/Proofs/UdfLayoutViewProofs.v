(* C10 -- Model/UdfLayout.v: facts about one directory of a well-formed tree (FID lengths fit,
   blocks = ceiling of info_len, tag locations), about the File Entries of files (ul_assign_fes),
   about allocation descriptors (ul_ads) and about looking things up in the recorded view. *)
From Coq Require Import ZArith List Bool Lia ZifyBool Arith.
From PV.Base Require Import Prim.
From PV.Gen Require Import GenFun.
From PV.Model Require Import Codec Fid UdfDir UdfLayout.
From PV.Proofs Require Import ChecksumsArithProofs FidProofs UdfDirProofs UdfLayoutBfsProofs.
Import ListNotations.
Local Open Scope Z_scope.

(* ---- one directory ---- *)
Definition ul_node_ok (cs : list utree) : Prop :=
  ul_names_distinct (map ut_name cs) = true /\ forallb ul_wf_node cs = true.
Definition ul_clen (c : utree) : Z := udf_fid_length (zlen (ut_name c)).
Definition ul_lens (cs : list utree) : list Z := udf_fid_length 0 :: map ul_clen cs.

Lemma ul_node_ok_child cs n cs' : ul_node_ok cs -> In (UDir n cs') cs -> ul_node_ok cs'.
Proof.
  intros [_ Hw] Hin. rewrite forallb_forall in Hw. specialize (Hw _ Hin). cbn [ul_wf_node] in Hw.
  apply andb_prop in Hw. destruct Hw as [Hw H2]. apply andb_prop in Hw. destruct Hw as [_ H1]. split; assumption.
Qed.

Lemma ul_node_ok_names cs : ul_node_ok cs -> Forall (fun c => 1 <= zlen (ut_name c) <= 254) cs.
Proof.
  intros [_ Hw]. rewrite forallb_forall in Hw. apply Forall_forall. intros c Hin. specialize (Hw c Hin).
  destruct c as [n l i|n cs']; cbn [ul_wf_node ut_name] in *; lia.
Qed.

Lemma ul_lens_eq cs : udfdir_lens (ul_dir_state cs) = ul_lens cs.
Proof.
  unfold udfdir_lens, ul_dir_state, ul_dir_descs, ul_lens. cbn [ud_descs map parent_fident fi_name]. f_equal.
  rewrite map_map. reflexivity.
Qed.

Lemma ul_info_eq cs : ul_dir_info cs = Fid.zsum (ul_lens cs).
Proof.
  unfold ul_dir_info, ul_dir_state, ul_dir_descs, ul_lens. cbn [ud_info_len map parent_fident fi_name].
  rewrite map_map. reflexivity.
Qed.

Lemma ul_fits cs : ul_node_ok cs -> fits 2048 (ul_lens cs).
Proof.
  intros H. constructor; [rewrite fid_len0; lia|]. apply ul_node_ok_names in H.
  induction H as [|c r Hc Hr IH]; cbn [map]; constructor; [|exact IH].
  unfold ul_clen. pose proof (fid_length_range (zlen (ut_name c)) ltac:(lia)). lia.
Qed.

Lemma ul_info_lower cs : ul_node_ok cs -> 40 <= ul_dir_info cs.
Proof.
  intros H. rewrite ul_info_eq. unfold ul_lens. rewrite fzsum_cons, fid_len0.
  pose proof (ul_fits cs H) as Hf. inversion Hf as [|? ? _ Hr]; subst.
  assert (0 <= Fid.zsum (map ul_clen cs)); [|lia]. apply fzsum_pos_nonneg.
  eapply Forall_impl; [|exact Hr]. cbv beta. intros; lia.
Qed.

Lemma ul_blocks_ceiling cs : ul_node_ok cs -> ul_dir_blocks cs = ceiling_div (ul_dir_info cs) 2048.
Proof.
  intros H. unfold ul_dir_blocks. rewrite ul_lens_eq, ul_info_eq.
  apply fid_blocks_is_ceiling; [lia|exact (ul_fits cs H)|discriminate].
Qed.

Lemma ul_blocks_pos cs : ul_node_ok cs -> 1 <= ul_dir_blocks cs.
Proof.
  intros H. rewrite (ul_blocks_ceiling cs H), (ceiling_div_spec _ 2048 ltac:(lia)).
  pose proof (ul_info_lower cs H). apply Z.div_le_lower_bound; lia.
Qed.

(* the recorded tag locations are the blocks of the first bytes *)
Lemma ul_dir_tags_eq lo r : ul_node_ok (dr_node r) ->
  ul_dir_tags lo r = map (fun s => dr_fe r + 1 - lo_ps lo + s / 2048) (starts 0 (ul_lens (dr_node r))).
Proof.
  intros H. unfold ul_dir_tags, udfdir_tag_locs. rewrite ul_lens_eq.
  rewrite (fid_location_is_block_of_first_byte 2048 _ ltac:(lia) (ul_fits _ H)), map_map. reflexivity.
Qed.

(* ---- increasing keys and lookups ---- *)
Fixpoint ul_incr (lo : Z) (ks : list Z) : Prop :=
  match ks with [] => True | k :: r => lo <= k /\ ul_incr (k + 1) r end.

Lemma ul_incr_weaken ks : forall a b, a <= b -> ul_incr b ks -> ul_incr a ks.
Proof. destruct ks as [|k r]; intros a b Hab H; [exact I|]. cbn [ul_incr] in *. destruct H. split; [lia|assumption]. Qed.

Lemma ul_incr_lb ks : forall lo k, ul_incr lo ks -> In k ks -> lo <= k.
Proof.
  induction ks as [|x r IH]; intros lo k H Hin; [destruct Hin|]. cbn [ul_incr] in H. destruct H as [H1 H2].
  destruct Hin as [<-|Hin]; [exact H1|]. specialize (IH _ _ H2 Hin). lia.
Qed.

Lemma ul_vlookup_in v : forall lo k s, ul_incr lo (map fst v) -> In (k, s) v -> vlookup k v = Some s.
Proof.
  induction v as [|[k' s'] r IH]; intros lo k s H Hin; [destruct Hin|]. cbn [map fst ul_incr] in H. destruct H as [H1 H2].
  cbn [vlookup]. destruct Hin as [E|Hin].
  - inversion E; subst. rewrite Z.eqb_refl. reflexivity.
  - destruct (k =? k') eqn:E.
    + apply Z.eqb_eq in E. subst k'. pose proof (ul_incr_lb _ _ k H2 (in_map fst _ _ Hin)) as Hlb. cbn [fst] in Hlb. lia.
    + exact (IH _ _ _ H2 Hin).
Qed.

Lemma ul_incr_NoDup ks : forall lo, ul_incr lo ks -> NoDup ks.
Proof.
  induction ks as [|k r IH]; intros lo H; [constructor|]. cbn [ul_incr] in H. destruct H as [_ H2]. constructor; [|exact (IH _ H2)].
  intros Hin. pose proof (ul_incr_lb _ _ _ H2 Hin). lia.
Qed.

(* ---- File Entries of files ---- *)
Lemma ul_nat_mem_iff i l : nat_mem i l = true <-> In i l.
Proof.
  unfold nat_mem. rewrite existsb_exists. split.
  - intros (x & Hx & E). apply Nat.eqb_eq in E. subst. exact Hx.
  - intros H. exists i. split; [exact H|apply Nat.eqb_refl].
Qed.

Lemma ul_assign_fes_end fs : forall cur seen,
  snd (ul_assign_fes cur seen fs) = cur + zlen (fst (ul_assign_fes cur seen fs)).
Proof.
  induction fs as [|[i l] r IH]; intros cur seen; cbn [ul_assign_fes]; [cbn [fst snd]; rewrite zlen_nil; lia|].
  destruct (nat_mem i seen); [apply IH|]. specialize (IH (cur + 1) (i :: seen)).
  destruct (ul_assign_fes (cur + 1) (i :: seen) r) as [a e]. cbn [fst snd] in *. rewrite zlen_cons. lia.
Qed.

Lemma ul_assign_fes_incr fs : forall cur seen,
  ul_incr cur (map (fun x => snd (fst x)) (fst (ul_assign_fes cur seen fs))).
Proof.
  induction fs as [|[i l] r IH]; intros cur seen; cbn [ul_assign_fes]; [exact I|].
  destruct (nat_mem i seen); [apply IH|]. specialize (IH (cur + 1) (i :: seen)).
  destruct (ul_assign_fes (cur + 1) (i :: seen) r) as [a e]. cbn [fst snd map ul_incr] in *. split; [lia|exact IH].
Qed.

(* every inode of the list that was not seen before gets exactly one File Entry *)
Lemma ul_assign_fes_fresh fs : forall cur seen x,
  In x (fst (ul_assign_fes cur seen fs)) -> ~ In (fst (fst x)) seen /\ In (fst (fst x), snd x) fs.
Proof.
  induction fs as [|[i l] r IH]; intros cur seen x Hin; cbn [ul_assign_fes] in Hin; [destruct Hin|].
  destruct (nat_mem i seen) eqn:E.
  - destruct (IH _ _ _ Hin) as [H1 H2]. split; [exact H1|right; exact H2].
  - specialize (IH (cur + 1) (i :: seen) x).
    destruct (ul_assign_fes (cur + 1) (i :: seen) r) as [a e]. cbn [fst] in *. destruct Hin as [<-|Hin].
    + cbn [fst snd]. split; [|left; reflexivity]. intros H. apply ul_nat_mem_iff in H. congruence.
    + destruct (IH Hin) as [H1 H2]. split; [|right; exact H2]. intros H. apply H1. right. exact H.
Qed.

Lemma ul_assign_fes_nodup fs : forall cur seen,
  NoDup (map (fun x => fst (fst x)) (fst (ul_assign_fes cur seen fs))).
Proof.
  induction fs as [|[i l] r IH]; intros cur seen; cbn [ul_assign_fes]; [constructor|].
  destruct (nat_mem i seen); [apply IH|]. pose proof (IH (cur + 1) (i :: seen)) as IH1.
  pose proof (ul_assign_fes_fresh r (cur + 1) (i :: seen)) as Hf.
  destruct (ul_assign_fes (cur + 1) (i :: seen) r) as [a e]. cbn [fst map] in *. constructor; [|exact IH1].
  intros Hin. apply in_map_iff in Hin. destruct Hin as (x & Hx & Hin). destruct (Hf x Hin) as [H _].
  apply H. left. symmetry. exact Hx.
Qed.

Lemma ul_assign_fes_find fs : forall cur seen i l, In (i, l) fs -> ~ In i seen ->
  exists fe l', ul_find i (fst (ul_assign_fes cur seen fs)) = Some fe /\
                In (i, fe, l') (fst (ul_assign_fes cur seen fs)).
Proof.
  induction fs as [|[j m] r IH]; intros cur seen i l Hin Hs; [destruct Hin|]. cbn [ul_assign_fes].
  destruct (nat_mem j seen) eqn:E.
  - destruct Hin as [Hx|Hin]; [|exact (IH _ _ _ _ Hin Hs)]. inversion Hx; subst. apply ul_nat_mem_iff in E. contradiction.
  - pose proof (IH (cur + 1) (j :: seen) i l) as IH1.
    destruct (ul_assign_fes (cur + 1) (j :: seen) r) as [a e]. cbn [fst ul_find] in *.
    destruct (Nat.eqb i j) eqn:Eij.
    + apply Nat.eqb_eq in Eij. subst j. exists cur, m. split; [reflexivity|left; reflexivity].
    + apply Nat.eqb_neq in Eij. destruct Hin as [Hx|Hin]; [inversion Hx; congruence|].
      destruct (IH1 Hin) as (fe & l' & H1 & H2). { intros [H|H]; [congruence|contradiction]. }
      exists fe, l'. split; [exact H1|right; exact H2].
Qed.

(* ---- allocation descriptors of a file ---- *)
Lemma ul_max_ad_pos : 0 < ul_max_ad. Proof. reflexivity. Qed.

Lemma ul_file_ads_sum fuel : forall pos len, 0 <= len <= Z.of_nat fuel * ul_max_ad ->
  Fid.zsum (map snd (ul_file_ads fuel pos len)) = len.
Proof.
  pose proof ul_max_ad_pos as HM. induction fuel as [|f IH]; intros pos len H.
  - cbn [ul_file_ads map]. unfold Fid.zsum. cbn [fold_right]. lia.
  - cbn [ul_file_ads]. destruct (len >? 0) eqn:E; [|cbn [map]; unfold Fid.zsum; cbn [fold_right]; lia].
    cbn [map snd]. rewrite fzsum_cons, IH; lia.
Qed.

Lemma ul_ads_sum pos len : 0 <= len -> Fid.zsum (map snd (ul_ads pos len)) = len.
Proof.
  intros H. pose proof ul_max_ad_pos as HM. unfold ul_ads. apply ul_file_ads_sum.
  rewrite Z2Nat.id by (pose proof (Z.div_pos len ul_max_ad H HM); lia).
  pose proof (Z.div_mod len ul_max_ad ltac:(lia)). pose proof (Z.mod_pos_bound len ul_max_ad HM). lia.
Qed.

(* ---- consistency of inode lengths ---- *)
Lemma ul_consistent_spec l : ul_consistent l = true ->
  forall i a b, In (i, a) l -> In (i, b) l -> a = b.
Proof.
  unfold ul_consistent. intros H i a b Ha Hb. rewrite forallb_forall in H. specialize (H _ Ha).
  rewrite forallb_forall in H. specialize (H _ Hb). cbn [fst snd] in H. rewrite Nat.eqb_refl in H. cbn [negb orb] in H. lia.
Qed.

Lemma ul_file_kids_inodes cs x : In x (ul_file_kids cs) -> In x (flat_map ul_inodes cs).
Proof.
  unfold ul_file_kids. intros H. apply in_flat_map in H. destruct H as (c & Hc & H). apply in_flat_map. exists c. split; [exact Hc|].
  destruct c; [exact H|destruct H].
Qed.

Lemma ul_file_kids_in cs n l i : In (UFile n l i) cs -> In (i, l) (ul_file_kids cs).
Proof. intros H. unfold ul_file_kids. apply in_flat_map. exists (UFile n l i). split; [exact H|left; reflexivity]. Qed.

Lemma ul_inodes_dir n cs : ul_inodes (UDir n cs) = flat_map ul_inodes cs.
Proof. reflexivity. Qed.

Print Assumptions ul_vlookup_in.
Print Assumptions ul_blocks_ceiling.
Print Assumptions ul_dir_tags_eq.
Print Assumptions ul_assign_fes_find.
Print Assumptions ul_ads_sum.
