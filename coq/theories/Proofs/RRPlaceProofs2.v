(* Proofs about Model/RRPlace.v, part 2 (part 1: Proofs/RRPlaceProofs.v).
     place_complete        what each entry object holds (see the statement); without CE entry ce_entries is empty
     place_reads_name      an RRIP reader gets rr_name back from the NM entries it sees
     place_reads_target    ... and the symlink target, for EVERY non-empty target (no guard any more)
     assign_first_fit / first_fit_assign / place_first_pass_iff   no CE entry <-> first_fit i, i.e. the static
                           lengths of all entries, the SL entry uncut, fit: before_sl + sl_uncut + after_sl <= 254
     place_total           curr_dr_len + 28 <= 254: RockRidge.new never raises
     place_ce_iff          CE entry present <-> continuation part non-empty (symlink or not) *)
From Coq Require Import ZArith List Bool Lia ZifyBool.
From PV.Base Require Import Prim.
From PV.Model Require Import Codec RREntries RRWalk RRPlace.
From PV.Model Require LongNames.
From PV.Proofs Require Import CodecProofs RREntriesProofs RRWalkProofs RRPlaceSLProofs RRPlaceProofs.
From PV.Proofs Require LongNamesProofs.
Import ListNotations.
Local Open Scope Z_scope.

(* ---- Theorem 3: nothing is lost ---- *)
Definition one_of {A} (a b : option A) (x : A) : Prop := (a = Some x /\ b = None) \/ (a = None /\ b = Some x).
Definition placed_as {A} (c : bool) (a b : option A) (x : A) : Prop :=
  if c then one_of a b x else a = None /\ b = None.
Lemma pick_placed {A} w (x : A) : placed_as (is_some w) (pick w true x) (pick w false x) x.
Proof. destruct w as [[]|]; cbn; unfold one_of; auto. Qed.
Lemma pick_noce {A} w (x : A) : w <> Some false -> pick w false x = None.
Proof. destruct w as [[]|]; intros H; try reflexivity. congruence. Qed.
Definition others_empty (E : rr_entries) : Prop :=
  es_records E = [] /\ pn_record E = None /\ sf_record E = None /\ st_record E = false /\
  pd_records E = [] /\ al_records E = [].

Theorem place_complete i r : place i = Some r -> 0 <= p_dr_len i ->
  let dr := pl_dr r in let ce := pl_ce r in
  LongNames.nm_join (map nm_pair (nm_records dr ++ nm_records ce)) = p_name i /\
  one_of (px_record dr) (px_record ce) (px_of i) /\
  one_of (tf_record dr) (tf_record ce) (tf_of i) /\
  placed_as (p_first i) (sp_record dr) (sp_record ce) (p_skip i) /\
  placed_as (p_first i) (er_record dr) (er_record ce) (er_of (p_v i)) /\
  placed_as (is_v109 (p_v i)) (rr_record dr) (rr_record ce) (rr_flags_of i) /\
  placed_as (p_child i) (cl_record dr) (cl_record ce) 0 /\
  placed_as (p_parent i) (pl_record dr) (pl_record ce) 0 /\
  (xorb (re_record dr) (re_record ce) = p_reloc i /\ re_record dr && re_record ce = false) /\
  others_empty dr /\ others_empty ce /\ ce_record ce = None /\
  (ce_record dr = None -> entries_list ce = []) /\
  (nonempty (target_of i) = false -> sl_records dr = [] /\ sl_records ce = []).
Proof.
  intros H H0. destruct (place_pass i r H H0) as (hc & ws & nm_d & nm_c & sl_d & sl_c & F & _).
  cbv zeta. rewrite (f_dr _ _ _ _ _ _ _ _ _ F), (f_ce _ _ _ _ _ _ _ _ _ F).
  destruct (f_created _ _ _ _ _ _ _ _ _ F) as (C1 & C2 & C3 & C4 & C5 & C6 & C7 & C8).
  cbn [side_entries nm_records px_record tf_record sp_record er_record rr_record cl_record pl_record re_record
       es_records pn_record sf_record st_record pd_records al_records ce_record sl_records].
  split; [exact (proj1 (f_nm _ _ _ _ _ _ _ _ _ F))|].
  split; [pose proof (pick_placed (w_px ws) (px_of i)) as P; rewrite C3 in P; exact P|].
  split; [pose proof (pick_placed (w_tf ws) (tf_of i)) as P; rewrite C4 in P; exact P|].
  split; [rewrite <- C1; apply pick_placed|]. split; [rewrite <- C8; apply pick_placed|].
  split; [rewrite <- C2; apply pick_placed|]. split; [rewrite <- C5; apply pick_placed|].
  split; [rewrite <- C7; apply pick_placed|].
  split; [rewrite <- C6; destruct (w_re ws) as [[]|]; split; reflexivity|].
  split; [repeat split|]. split; [repeat split|]. split; [reflexivity|].
  split.
  - intros Hce. destruct hc; [discriminate Hce|].
    destruct (f_noce _ _ _ _ _ _ _ _ _ F eq_refl) as ((N1 & N2 & N3 & N4 & N5 & N6 & N7 & N8) & -> & -> & _).
    rewrite side_list. unfold pickb. rewrite !pick_noce by assumption. reflexivity.
  - intros Ht. pose proof (f_sl _ _ _ _ _ _ _ _ _ F) as S. rewrite Ht in S. exact S.
Qed.

Lemma fm_opt {A B} (g : su_entry -> list B) (f : A -> su_entry) o :
  (forall x, g (f x) = []) -> flat_map g (opt_list f o) = [].
Proof. intros H. destruct o; cbn; [rewrite H|]; reflexivity. Qed.
Lemma fm_map {A B} (g : su_entry -> list B) (f : A -> su_entry) l :
  (forall x, g (f x) = []) -> flat_map g (map f l) = [].
Proof. intros H. induction l as [|x l IH]; cbn; [|rewrite H, IH]; reflexivity. Qed.
Lemma sl_of_side i ws d nm sl ce : sl_of (entries_list (side_entries i ws d nm sl ce)) = sl.
Proof.
  rewrite side_list. unfold sl_of. rewrite !flat_map_app, !fm_opt, (fm_map _ E_NM) by reflexivity.
  destruct (pickb (w_re ws) d); cbn [flag_list flat_map app]; rewrite app_nil_r;
    (induction sl as [|s sl IH]; [reflexivity|cbn [map flat_map app]; rewrite IH; reflexivity]).
Qed.
Lemma nm_list_side i ws d nm sl ce : nm_list (entries_list (side_entries i ws d nm sl ce)) = nm.
Proof.
  rewrite side_list. unfold nm_list. rewrite !flat_map_app, !fm_opt, (fm_map _ E_SL) by reflexivity.
  destruct (pickb (w_re ws) d); cbn [flag_list flat_map app]; rewrite app_nil_r;
    (induction nm as [|s nm IH]; [reflexivity|cbn [map flat_map app]; rewrite IH; reflexivity]).
Qed.

(* the name an RRIP reader reassembles from the NM entries it sees is rr_name -- always *)
Theorem place_reads_name i r : place i = Some r -> 0 <= p_dr_len i -> read_name r = p_name i.
Proof.
  intros H H0. destruct (place_pass i r H H0) as (hc & ws & nm_d & nm_c & sl_d & sl_c & F & _).
  unfold read_name, visible, nm_list. rewrite flat_map_app. fold (nm_list (entries_list (pl_dr r))).
  rewrite (f_dr _ _ _ _ _ _ _ _ _ F), (f_ce _ _ _ _ _ _ _ _ _ F), nm_list_side.
  cbn [side_entries ce_record]. destruct (f_nm _ _ _ _ _ _ _ _ _ F) as (J & _).
  destruct hc; cbn [is_some].
  - fold (nm_list (entries_list (side_entries i ws false nm_c sl_c None))). rewrite nm_list_side. exact J.
  - destruct (f_noce _ _ _ _ _ _ _ _ _ F eq_refl) as (_ & -> & _). cbn [flat_map]. exact J.
Qed.

(* the symlink target: every non-empty target is read back exactly *)
Theorem place_reads_target i r t : place i = Some r -> 0 <= p_dr_len i ->
  p_target i = Some t -> t <> [] -> read_target r = t.
Proof.
  intros H H0 Ht Hne. destruct (place_pass i r H H0) as (hc & ws & nm_d & nm_c & sl_d & sl_c & F & _).
  assert (Tg : target_of i = t) by (unfold target_of; rewrite Ht; reflexivity).
  assert (Tn : nonempty (target_of i) = true) by (rewrite Tg; destruct t; [contradiction|reflexivity]).
  destruct (sl_facts _ _ _ _ _ _ _ _ _ F) as (_ & _ & V & _). specialize (V Tn). rewrite Tg in V.
  assert (E : sl_of (visible r) = sl_d ++ sl_c).
  { unfold visible, sl_of. rewrite flat_map_app. fold (sl_of (entries_list (pl_dr r))).
    rewrite (f_dr _ _ _ _ _ _ _ _ _ F), (f_ce _ _ _ _ _ _ _ _ _ F) in *. rewrite sl_of_side.
    cbn [side_entries ce_record sl_records] in *. destruct hc; cbn [is_some] in *.
    - fold (sl_of (entries_list (side_entries i ws false nm_c sl_c None))). rewrite sl_of_side. reflexivity.
    - destruct (f_noce _ _ _ _ _ _ _ _ _ F eq_refl) as (_ & _ & -> & _). reflexivity. }
  unfold read_target. rewrite E, V. apply LongNamesProofs.sl_roundtrip_all; [lia|exact Hne].
Qed.

(* ---- Theorem 4: when is no continuation entry needed ---- *)
Lemma opt_len_nonneg b l : 0 <= l -> 0 <= opt_len b l.
Proof. destruct b; cbn; lia. Qed.

Lemma noce_sums i c0 r ws nm_d nm_c sl_d sl_c : facts i false c0 r ws nm_d nm_c sl_d sl_c ->
  cur_sl i c0 ws nm_d = before_sl i - p_dr_len i + c0 /\
  pl_len r = cur_sl i c0 ws nm_d + sl_uncut i + after_sl i.
Proof.
  intros F. destruct (f_noce _ _ _ _ _ _ _ _ _ F eq_refl) as ((N1 & N2 & N3 & N4 & N5 & N6 & N7 & N8) & _ & _ & _ & SU).
  destruct (f_created _ _ _ _ _ _ _ _ _ F) as (C1 & C2 & C3 & C4 & C5 & C6 & C7 & C8).
  destruct (f_nm _ _ _ _ _ _ _ _ _ F) as (_ & _ & NL). specialize (NL eq_refl).
  pose proof (f_len _ _ _ _ _ _ _ _ _ F) as L. unfold cur_sl in *. unfold before_sl, after_sl.
  rewrite (wl_true_opt _ _ _ N1 C1), (wl_true_opt _ _ _ N2 C2), (wl_true_opt _ _ _ N3 C3) in *.
  rewrite (wl_true_opt _ _ _ N4 C4), (wl_true_opt _ _ _ N5 C5), (wl_true_opt _ _ _ N6 C6),
          (wl_true_opt _ _ _ N7 C7), (wl_true_opt _ _ _ N8 C8) in L.
  change (opt_len true (px_len (p_v i))) with (px_len (p_v i)) in *.
  change (opt_len true (len_tf TF_FLAGS)) with (len_tf TF_FLAGS) in *. lia.
Qed.

Theorem assign_first_fit i r : assign i false (p_dr_len i) = Some r -> 0 <= p_dr_len i -> first_fit i = true.
Proof.
  intros A H0. destruct (assign_inv _ _ _ _ A H0) as (ws & nm_d & nm_c & sl_d & sl_c & F).
  destruct (noce_sums _ _ _ _ _ _ _ _ F) as [B L]. pose proof (f_bound0 _ _ _ _ _ _ _ _ _ F eq_refl) as Hb.
  unfold first_fit, ALLOWED_DR_SIZE in *. lia.
Qed.

Lemma nm_stage_fwd name cur cel : name <> [] -> cur + len_nm name <= ALLOWED_DR_SIZE ->
  nm_stage false name (cur, cel) = Some (([mk_nm 0 name], []), (cur + len_nm name, cel)).
Proof.
  intros Hn Hl. unfold nm_stage, ALLOWED_DR_SIZE, len_nm in *.
  assert (0 < zlen name) by (destruct name; [contradiction|unfold zlen; cbn [length]; lia]).
  replace (254 - cur - 5 <? zlen name) with false by lia. cbn [andb].
  rewrite nm_split_fits by (assumption || lia). replace (0 <? 254 - cur - 5) with true by lia.
  cbn [map firstn skipn nm_of fst snd]. unfold nm_lens, len_nm. cbn [map sumz nm_name].
  rewrite !Z.add_0_r. reflexivity.
Qed.

Theorem first_fit_assign i : p_v i <> V_unset -> 0 <= p_dr_len i -> first_fit i = true ->
  exists r, assign i false (p_dr_len i) = Some r.
Proof.
  intros Hv H0 Hf. destruct (len_consts (p_v i)) as (L1 & L2 & L3 & L4 & L5 & L6 & L7).
  assert (Hpx : len_px (p_v i) = Some (px_len (p_v i)))
    by (unfold px_len; destruct (p_v i); [congruence|reflexivity..]).
  pose proof (opt_len_nonneg (p_first i) _ L1) as P1. pose proof (opt_len_nonneg (is_v109 (p_v i)) _ L2) as P2.
  pose proof (opt_len_nonneg (p_child i) _ L5) as P5. pose proof (opt_len_nonneg (p_reloc i) _ L6) as P6.
  pose proof (opt_len_nonneg (p_parent i) _ L5) as P7. pose proof (opt_len_nonneg (p_first i) _ L7) as P8.
  assert (P3 : 0 <= opt_len (nonempty (p_name i)) (len_nm (p_name i)))
    by (apply opt_len_nonneg; unfold len_nm; pose proof (zlen_nonneg (p_name i)); lia).
  assert (T : exists sd sc l, (if nonempty (target_of i)
                 then sl_stage false (target_of i) (before_sl i, 0) = Some ((sd, sc), (before_sl i + l, 0))
                 else sd = [] /\ sc = [] /\ l = 0) /\ 0 <= l /\ before_sl i + l + after_sl i <= 254).
  { assert (Hb0 : 0 <= before_sl i) by (unfold before_sl; lia).
    assert (Ha : 26 <= after_sl i) by (unfold after_sl; change (len_tf TF_FLAGS) with 26; lia).
    unfold first_fit, sl_uncut, ALLOWED_DR_SIZE in Hf. destruct (nonempty (target_of i)) eqn:Et; cbn [opt_len] in Hf.
    - pose proof (uncut_len (target_of i)) as UL.
      pose proof (LongNamesProofs.comps_size_nonneg (LongNames.sl_components (target_of i))) as UN.
      destruct (sl_stage_some false (target_of i) (before_sl i, 0) Hb0 ltac:(right; cbn [fst]; unfold ALLOWED_DR_SIZE; lia))
        as ([[sd sc] [cur cel]] & E).
      destruct (sl_stage_spec _ _ _ _ _ _ E Hb0) as (_ & X1 & X2 & _ & _ & _ & _ & X5). cbn [fst snd] in *.
      assert (Hne : target_of i <> []) by (destruct (target_of i); [discriminate Et|discriminate]).
      assert (H8 : before_sl i + 8 < ALLOWED_DR_SIZE) by (unfold ALLOWED_DR_SIZE; lia).
      destruct (X5 eq_refl Hne H8) as [_ X6].
      exists sd, sc, (len_sl (LongNames.split_slash (target_of i))).
      replace (before_sl i + len_sl (LongNames.split_slash (target_of i))) with cur by lia.
      assert (Hcel : cel = 0) by lia. rewrite Hcel in E. split; [exact E|]. lia.
    - exists [], [], 0. repeat split; lia. }
  destruct T as (sd & sc & l & TS & Tl & Tb). unfold before_sl, after_sl in Tb.
  unfold assign. rewrite put_if_fwd by (cbn [fst]; unfold ALLOWED_DR_SIZE; lia). cbn [fst snd].
  rewrite put_if_fwd by (cbn [fst]; unfold ALLOWED_DR_SIZE; lia). cbn [fst snd].
  set (X := if nonempty (p_name i) then _ else _).
  assert (NM : X = Some ((if nonempty (p_name i) then [mk_nm 0 (p_name i)] else [], []),
                       (p_dr_len i + opt_len (p_first i) len_sp + opt_len (is_v109 (p_v i)) len_rr
                        + opt_len (nonempty (p_name i)) (len_nm (p_name i)), 0))).
  { subst X. destruct (p_name i) as [|x nm] eqn:En; cbn [nonempty opt_len].
    - rewrite Z.add_0_r. reflexivity.
    - rewrite nm_stage_fwd; [reflexivity|discriminate|]. cbn [nonempty opt_len] in Tb. unfold ALLOWED_DR_SIZE. lia. }
  rewrite NM, Hpx. clear X NM. rewrite put_if_fwd by (cbn [fst opt_len]; unfold ALLOWED_DR_SIZE; lia). cbn [fst snd opt_len].
  fold (before_sl i).
  set (X := if nonempty (target_of i) then _ else _).
  assert (SL : X = Some ((sd, sc), (before_sl i + l, 0))).
  { subst X. destruct (nonempty (target_of i)); [exact TS|]. destruct TS as (-> & -> & ->). rewrite Z.add_0_r. reflexivity. }
  rewrite SL. clear X SL. fold (before_sl i) in Tb.
  rewrite put_if_fwd by (cbn [fst opt_len]; unfold ALLOWED_DR_SIZE; lia). cbn [fst snd opt_len].
  rewrite put_if_fwd by (cbn [fst]; unfold ALLOWED_DR_SIZE; lia). cbn [fst snd].
  rewrite put_if_fwd by (cbn [fst]; unfold ALLOWED_DR_SIZE; lia). cbn [fst snd].
  rewrite put_if_fwd by (cbn [fst]; unfold ALLOWED_DR_SIZE; lia). cbn [fst snd].
  rewrite put_if_fwd by (cbn [fst]; unfold ALLOWED_DR_SIZE; lia). eexists. reflexivity.
Qed.

Theorem place_first_pass_iff i r : place i = Some r -> 0 <= p_dr_len i ->
  (ce_record (pl_dr r) = None <-> first_fit i = true).
Proof.
  intros H H0. destruct (place_inv i r H) as (Hv & _ & _ & [A|[A0 A]]).
  - split; [intros _; exact (assign_first_fit i r A H0)|intros _].
    destruct (assign_inv _ _ _ _ A H0) as (ws & a & b & c & d & F). rewrite (f_dr _ _ _ _ _ _ _ _ _ F). reflexivity.
  - destruct (assign_inv _ _ _ _ A ltac:(unfold len_ce; lia)) as (ws & a & b & c & d & F).
    rewrite (f_dr _ _ _ _ _ _ _ _ _ F). cbn [side_entries ce_record]. split; [discriminate|].
    intros Hf. destruct (first_fit_assign i Hv H0 Hf) as (r' & E). congruence.
Qed.

(* first_fit is a closed form: the static lengths of all entries, the SL entry uncut *)
Theorem first_fit_closed i : first_fit i = true <-> before_sl i + sl_uncut i + after_sl i <= ALLOWED_DR_SIZE.
Proof. unfold first_fit. lia. Qed.

(* ---- RockRidge.new never raises behind the guard of DirectoryRecord._rr_new ---- *)
Lemma nm_stage_some name s : exists res, nm_stage true name s = Some res.
Proof. destruct s as [cur cel]. unfold nm_stage. rewrite andb_false_r. eexists. reflexivity. Qed.

Lemma assign_ce_some i c0 : p_v i <> V_unset -> 0 <= c0 -> exists r, assign i true c0 = Some r.
Proof.
  intros Hv H0. destruct (len_consts (p_v i)) as (L1 & L2 & L3 & L4 & L5 & L6 & L7).
  assert (Hpx : len_px (p_v i) = Some (px_len (p_v i)))
    by (unfold px_len; destruct (p_v i); [congruence|reflexivity..]).
  unfold assign.
  destruct (put_if_some (p_first i) len_sp (c0, 0)) as (w1 & s1 & E1). rewrite E1.
  destruct (put_if_spec _ _ _ _ _ _ E1 L1) as (_ & _ & _ & _ & _ & G1 & _). cbn [fst] in G1.
  destruct (put_if_some (is_v109 (p_v i)) len_rr s1) as (w2 & s2 & E2). rewrite E2.
  destruct (put_if_spec _ _ _ _ _ _ E2 L2) as (_ & _ & _ & _ & _ & G2 & _).
  assert (NM : exists d c s3, (if nonempty (p_name i) then nm_stage true (p_name i) s2 else Some (([], []), s2))
                              = Some ((d, c), s3)).
  { destruct (nonempty (p_name i)); [|eauto]. destruct (nm_stage_some (p_name i) s2) as ([[d c] s3] & E). eauto. }
  destruct NM as (nd & nc & s3 & E3). rewrite E3.
  destruct (nm_cond_spec _ _ _ _ _ _ E3 ltac:(lia)) as (B3 & _ & _ & _ & _ & _ & G3 & _).
  rewrite Hpx. destruct (put_if_some true (px_len (p_v i)) s3) as (w4 & s4 & E4). rewrite E4.
  destruct (put_if_spec _ _ _ _ _ _ E4 L3) as (_ & _ & _ & _ & _ & G4 & _).
  assert (SL : exists d c s5, (if nonempty (target_of i) then sl_stage true (target_of i) s4 else Some (([], []), s4))
                              = Some ((d, c), s5)).
  { destruct (nonempty (target_of i)); [|eauto].
    destruct (sl_stage_some true (target_of i) s4 ltac:(lia) (or_introl eq_refl)) as ([[d c] s5] & E). eauto. }
  destruct SL as (sd & sc & s5 & E5). rewrite E5.
  destruct (put_if_some true (len_tf TF_FLAGS) s5) as (w6 & s6 & E6). rewrite E6.
  destruct (put_if_some (p_child i) len_link s6) as (w7 & s7 & E7). rewrite E7.
  destruct (put_if_some (p_reloc i) len_re s7) as (w8 & s8 & E8). rewrite E8.
  destruct (put_if_some (p_parent i) len_link s8) as (w9 & s9 & E9). rewrite E9.
  destruct (put_if_some (p_first i) (er_len (p_v i)) s9) as (w10 & s10 & E10). rewrite E10.
  eexists. reflexivity.
Qed.

Theorem place_total i : p_v i <> V_unset -> dates_ok i = true -> 0 <= p_dr_len i ->
  p_dr_len i + len_ce <= ALLOWED_DR_SIZE -> exists r, place i = Some r.
Proof.
  intros Hv Hd H0 Hg. unfold place. rewrite Hd. cbn [negb].
  assert (G : exists r, match assign i false (p_dr_len i) with
                        | Some r => finish r
                        | None => match assign i true (p_dr_len i + len_ce) with Some r => finish r | None => None end
                        end = Some r).
  { destruct (assign i false (p_dr_len i)) as [r|] eqn:A.
    - destruct (assign_inv _ _ _ _ A H0) as (ws & a & b & c & d & F).
      pose proof (f_bound0 _ _ _ _ _ _ _ _ _ F eq_refl). exists r. unfold finish.
      replace (ALLOWED_DR_SIZE <? pl_len r) with false by lia. reflexivity.
    - assert (H1 : 0 <= p_dr_len i + len_ce) by (unfold len_ce; lia).
      destruct (assign_ce_some i _ Hv H1) as (r & A'). rewrite A'.
      destruct (assign_inv _ _ _ _ A' H1) as (ws & a & b & c & d & F).
      pose proof (f_bound _ _ _ _ _ _ _ _ _ F Hg). exists r. unfold finish.
      replace (ALLOWED_DR_SIZE <? pl_len r) with false by lia. reflexivity. }
  destruct (p_v i); [congruence|exact G..].
Qed.

(* ---- Theorem 2, second half (partial): without symlink the CE entry is there iff it is needed ---- *)
Lemma nm_join_len ps : zlen (LongNames.nm_join ps) <= sumz (map (fun p => zlen (snd p)) ps).
Proof.
  induction ps as [|[f p] ps IH]; [reflexivity|]. cbn [LongNames.nm_join map sumz snd].
  pose proof (sumz_nonneg (map (fun p => zlen (snd p)) ps)) as Hn.
  assert (0 <= sumz (map (fun p : Z * list Z => zlen (snd p)) ps)).
  { apply Hn. apply Forall_forall. intros x Hx. apply in_map_iff in Hx. destruct Hx as (q & <- & _). apply zlen_nonneg. }
  destruct (Z.odd f); [rewrite zlen_app|]; lia.
Qed.
Lemma nm_lens_hdr l : 0 <= nm_lens l /\
  (l <> [] -> 5 + sumz (map (fun p => zlen (snd p)) (map nm_pair l)) <= nm_lens l).
Proof.
  unfold nm_lens, len_nm. induction l as [|n l IH]; cbn [map sumz]; [split; [lia|congruence]|].
  destruct IH as [IH1 IH2]. pose proof (zlen_nonneg (nm_name n)). split; [lia|]. intros _. cbn [nm_pair snd].
  destruct l as [|m l]; [cbn [map sumz] in *; lia|]. specialize (IH2 ltac:(discriminate)). lia.
Qed.
Lemma nm_lens_ge l name : LongNames.nm_join (map nm_pair l) = name ->
  opt_len (nonempty name) (len_nm name) <= nm_lens l.
Proof.
  intros J. destruct (nm_lens_hdr l) as [N0 N1].
  pose proof (nm_join_len (map nm_pair l)) as JL. rewrite J in JL.
  destruct name as [|x nm]; [cbn; lia|]. cbn [nonempty opt_len]. unfold len_nm.
  assert (l <> []) by (intros ->; discriminate J). specialize (N1 H). lia.
Qed.
Lemma wl_nonneg w d l : 0 <= l -> 0 <= wl w d l.
Proof. destruct w as [[]|]; destruct d; cbn; lia. Qed.
Lemma wl_sum w l : wl w true l + wl w false l = opt_len (is_some w) l.
Proof. destruct w as [[]|]; cbn; lia. Qed.

Theorem place_ce_iff i r : place i = Some r -> 0 <= p_dr_len i ->
  (ce_record (pl_dr r) = None <-> entries_list (pl_ce r) = []).
Proof.
  intros H H0. split.
  - intros Hc. destruct (place_complete i r H H0) as (_ & _ & _ & _ & _ & _ & _ & _ & _ & _ & _ & _ & X & _).
    exact (X Hc).
  - intros He. destruct (place_pass i r H H0) as (hc & ws & nm_d & nm_c & sl_d & sl_c & F & P1 & Hl & Hv & _).
    rewrite (f_dr _ _ _ _ _ _ _ _ _ F). cbn [side_entries ce_record]. destruct hc; [exfalso|reflexivity].
    destruct (len_consts (p_v i)) as (L1 & L2 & L3 & L4 & L5 & L6 & L7).
    assert (A0 : area (p_v i) (pl_ce r) = 0) by (unfold area; rewrite He; reflexivity).
    rewrite (f_ce _ _ _ _ _ _ _ _ _ F), side_area in A0. cbn [ce_size] in A0.
    destruct (sl_facts _ _ _ _ _ _ _ _ _ F) as (SM & _ & _ & SU). rewrite sl_lens_app in SU.
    apply Forall_app in SM. pose proof (sl_lens_nonneg _ (proj2 SM)) as Sc.
    destruct (f_nm _ _ _ _ _ _ _ _ _ F) as (J & NF & _).
    assert (Nn : forall l, 0 <= nm_lens l).
    { intros l. unfold nm_lens. apply sumz_nonneg. apply Forall_forall. intros x Hx. apply in_map_iff in Hx.
      destruct Hx as (n & <- & _). unfold len_nm. pose proof (zlen_nonneg (nm_name n)). lia. }
    pose proof (Nn nm_c). pose proof (nm_lens_ge _ _ J) as NG.
    assert (NA : nm_lens (nm_d ++ nm_c) = nm_lens nm_d + nm_lens nm_c)
      by (unfold nm_lens; rewrite map_app, sumz_app; reflexivity).
    pose proof (wl_nonneg (w_sp ws) false _ L1). pose proof (wl_nonneg (w_rr ws) false _ L2).
    pose proof (wl_nonneg (w_px ws) false _ L3). pose proof (wl_nonneg (w_tf ws) false _ L4).
    pose proof (wl_nonneg (w_cl ws) false _ L5). pose proof (wl_nonneg (w_pl ws) false _ L5).
    pose proof (wl_nonneg (w_re ws) false _ L6). pose proof (wl_nonneg (w_er ws) false _ L7).
    destruct (f_created _ _ _ _ _ _ _ _ _ F) as (C1 & C2 & C3 & C4 & C5 & C6 & C7 & C8).
    pose proof (wl_sum (w_sp ws) len_sp) as W1. pose proof (wl_sum (w_rr ws) len_rr) as W2.
    pose proof (wl_sum (w_px ws) (px_len (p_v i))) as W3. pose proof (wl_sum (w_tf ws) (len_tf TF_FLAGS)) as W4.
    pose proof (wl_sum (w_cl ws) len_link) as W5. pose proof (wl_sum (w_re ws) len_re) as W6.
    pose proof (wl_sum (w_pl ws) len_link) as W7. pose proof (wl_sum (w_er ws) (er_len (p_v i))) as W8.
    rewrite C1 in W1. rewrite C2 in W2. rewrite C3 in W3. rewrite C4 in W4. rewrite C5 in W5. rewrite C6 in W6.
    rewrite C7 in W7. rewrite C8 in W8. cbn [opt_len] in W3, W4.
    pose proof (f_len _ _ _ _ _ _ _ _ _ F) as FL. unfold cur_sl in FL.
    assert (Hf : first_fit i = true).
    { apply first_fit_closed. unfold before_sl, after_sl, ALLOWED_DR_SIZE, len_ce in *. lia. }
    destruct (first_fit_assign i Hv H0 Hf) as (r' & E). rewrite (P1 eq_refl) in E. discriminate E.
Qed.

Print Assumptions place_complete.
Print Assumptions place_reads_name.
Print Assumptions place_reads_target.
Print Assumptions place_first_pass_iff.
Print Assumptions place_total.
Print Assumptions place_ce_iff.
