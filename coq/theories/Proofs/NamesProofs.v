From Coq Require Import ZArith List Bool Lia ZifyBool.
From PV.Base Require Import Prim ListX.
From PV.Gen Require Import GenConst.
From PV.Model Require Import Names.
Import ListNotations.
Local Open Scope Z_scope.

(* ---------------------------------------------------------------- facts about the translated d1 set *)
Lemma d1_semi : is_d1 semi = false. Proof. vm_compute. reflexivity. Qed.
Lemma d1_dot : is_d1 dot = false. Proof. vm_compute. reflexivity. Qed.
Lemma d1_underscore : is_d1 underscore = true. Proof. vm_compute. reflexivity. Qed.

Lemma mem_false_notd1 c s : is_d1 c = false -> all_d1 s = true -> mem c s = false.
Proof.
  intros Hc. induction s as [|x s IH]; cbn [all_d1 forallb mem existsb]; [reflexivity|].
  intros H. apply andb_prop in H. destruct H as [Hx Hs].
  destruct (c =? x) eqn:E.
  - apply Z.eqb_eq in E. subst x. congruence.
  - cbn. apply IH. exact Hs.
Qed.

Lemma mem_app c a b : mem c (a ++ b) = mem c a || mem c b.
Proof. unfold mem. apply existsb_app. Qed.

(* ---------------------------------------------------------------- split_last *)
Lemma split_last_none sep l : mem sep l = false -> split_last sep l = None.
Proof.
  induction l as [|c r IH]; cbn [mem existsb split_last]; [reflexivity|].
  intros H. apply orb_false_elim in H. destruct H as [Hc Hr].
  rewrite (IH Hr). rewrite Z.eqb_sym in Hc. rewrite Hc. reflexivity.
Qed.

Lemma split_last_app sep x y : mem sep y = false -> split_last sep (x ++ sep :: y) = Some (x, y).
Proof.
  intros Hy. induction x as [|c x IH]; cbn [app split_last].
  - rewrite (split_last_none sep y Hy). rewrite Z.eqb_refl. reflexivity.
  - rewrite IH. reflexivity.
Qed.

Lemma split_last_some sep l b a :
  split_last sep l = Some (b, a) -> l = b ++ sep :: a /\ mem sep a = false.
Proof.
  revert b a. induction l as [|c r IH]; intros b a; cbn [split_last]; [discriminate|].
  destruct (split_last sep r) as [[b' a']|] eqn:E.
  - intros H. inversion H; subst. destruct (IH b' a eq_refl) as [H1 H2]. subst r. auto.
  - destruct (c =? sep) eqn:Ec; [|discriminate].
    intros H. inversion H; subst. apply Z.eqb_eq in Ec. subst c. split; [reflexivity|].
    (* sep does not occur in r because split_last found nothing *)
    clear -E. induction a as [|x a IH]; [reflexivity|]. cbn [split_last] in E.
    destruct (split_last sep a) as [[? ?]|]; [discriminate|].
    destruct (x =? sep) eqn:Ex; [discriminate|]. cbn [mem existsb]. rewrite Z.eqb_sym, Ex. cbn. apply IH. reflexivity.
Qed.

(* ---------------------------------------------------------------- shape of accepted identifiers *)
Definition maxlen_of (lvl : Z) (is_dir : bool) : Z := if lvl =? 1 then 8 else if is_dir then 31 else 30.

Lemma check_shape b e lvl :
  lvl = 1 \/ lvl = 2 \/ lvl = 3 ->
  all_d1 b = true -> all_d1 e = true -> (b <> [] \/ e <> []) ->
  (lvl = 1 -> zlen b <= 8 /\ zlen e <= 3) ->
  check_iso9660_filename (b ++ [dot] ++ e ++ [semi; 49]) lvl = Accept /\
  legal_file lvl (b ++ [dot] ++ e ++ [semi; 49]).
Proof.
  intros Hl Hb He Hne Hlen. split.
  - unfold check_iso9660_filename, check_iso9660_filename_gen, split_iso9660_filename.
    replace (b ++ [dot] ++ e ++ [semi; 49]) with ((b ++ dot :: e) ++ semi :: [49])
      by (rewrite <- app_assoc; reflexivity).
    rewrite (split_last_app semi (b ++ dot :: e) [49] eq_refl).
    rewrite (split_last_app dot b e (mem_false_notd1 dot e d1_dot He)).
    cbn [check_version]. change (all_digits [49]) with true. change (zlen [49]) with 1.
    change (digits_value [49] 0) with 1. cbn [negb orb Z.gtb Z.ltb Z.compare Pos.compare Pos.compare_cont].
    rewrite (mem_false_notd1 semi b d1_semi Hb), (mem_false_notd1 semi e d1_semi He), Hb, He.
    cbn [orb andb negb].
    assert (Hboth : (match b with [] => true | _ :: _ => false end) &&
                    (match e with [] => true | _ :: _ => false end) = false).
    { destruct b; destruct e; cbn; try reflexivity. destruct Hne; congruence. }
    rewrite Hboth.
    destruct (lvl =? 1) eqn:E1.
    + apply Z.eqb_eq in E1. destruct (Hlen E1) as [L1 L2].
      replace (zlen b >? 8) with false by lia. replace (zlen e >? 3) with false by lia. cbn.
      rewrite andb_false_r. reflexivity.
    + cbn. rewrite andb_false_r. reflexivity.
  - exists b, e, [49]. split; [left; reflexivity|]. repeat split; auto; cbn; lia.
Qed.

Section WithUpper.
  Variable up : Z -> list Z.
  Hypothesis up_nonempty : forall c, up c <> [].

  Lemma sub_char_d1 c : is_d1 (sub_char c) = true.
  Proof. unfold sub_char. destruct (is_d1 c) eqn:E; [exact E|exact d1_underscore]. Qed.

  Lemma all_d1_map_sub l : all_d1 (map sub_char l) = true.
  Proof.
    induction l as [|c l IH]; [reflexivity|]. unfold all_d1 in *. cbn [map forallb].
    rewrite sub_char_d1, IH. reflexivity.
  Qed.

  Lemma upper_nonempty s : s <> [] -> upper up s <> [].
  Proof.
    destruct s as [|c s]; [congruence|]. intros _. unfold upper. cbn [flat_map].
    destruct (up c) eqn:E; [exfalso; eapply up_nonempty; eauto|]. discriminate.
  Qed.

  Lemma firstn_nonempty {A} n (l : list A) : (0 < n)%nat -> l <> [] -> firstn n l <> [].
  Proof. destruct n; [lia|]. destruct l; [congruence|]. discriminate. Qed.

  Lemma zlen_firstn_le {A} n (l : list A) : zlen (firstn n l) <= Z.of_nat n.
  Proof. unfold zlen. rewrite firstn_length. lia. Qed.

  (* truncate_basename after the fix: d-characters only, within the level's length, non-empty *)
  Lemma truncate_props s lvl is_dir :
    lvl = 1 \/ lvl = 2 \/ lvl = 3 ->
    let r := truncate_basename up true s lvl is_dir in
    all_d1 r = true /\ zlen r <= maxlen_of lvl is_dir /\ (s <> [] -> r <> []).
  Proof.
    intros Hl. unfold truncate_basename, maxlen_of.
    replace (lvl =? 4) with false by lia.
    set (n := if lvl =? 1 then 8%nat else if is_dir then 31%nat else 30%nat).
    assert (Hn : (0 < n)%nat) by (subst n; destruct (lvl =? 1); [lia|destruct is_dir; lia]).
    assert (HnZ : Z.of_nat n = (if lvl =? 1 then 8 else if is_dir then 31 else 30))
      by (subst n; destruct (lvl =? 1); [reflexivity|destruct is_dir; reflexivity]).
    cbv zeta. split; [apply all_d1_map_sub|]. split.
    - unfold zlen. rewrite map_length. fold (zlen (firstn n (upper up (firstn n s)))).
      rewrite <- HnZ. apply zlen_firstn_le.
    - intros Hs H. apply map_eq_nil in H. revert H. apply firstn_nonempty; [exact Hn|].
      apply upper_nonempty. apply firstn_nonempty; assumption.
  Qed.

  (* every non-empty source name mangles to a legal, accepted file identifier (levels 1-3) *)
  Theorem mangle_file_legal orig lvl :
    lvl = 1 \/ lvl = 2 \/ lvl = 3 -> orig <> [] ->
    check_iso9660_filename (mangled_file_name up true orig lvl) lvl = Accept /\
    legal_file lvl (mangled_file_name up true orig lvl).
  Proof.
    intros Hl Hne. unfold mangled_file_name, mangle_file.
    replace (lvl =? 4) with false by lia.
    destruct (split_last dot orig) as [[base ext]|] eqn:Es.
    - set (ok := negb ((zlen ext =? 0) || (zlen ext >? 3)) && all_d1 (upper up ext) && (zlen (upper up ext) <=? 3)).
      destruct ok eqn:Eok.
      + (* a usable extension *)
        subst ok. apply andb_prop in Eok. destruct Eok as [Eok E3]. apply andb_prop in Eok. destruct Eok as [E1 E2].
        destruct (truncate_props base lvl false Hl) as (T1 & T2 & T3).
        replace (truncate_basename up true base lvl false ++ [dot] ++ upper up ext ++ [semi; 49])
          with (truncate_basename up true base lvl false ++ [dot] ++ upper up ext ++ [semi; 49]) by reflexivity.
        apply check_shape; auto.
        * right. apply upper_nonempty. intros ->. cbn in E1. discriminate.
        * intros ->. unfold maxlen_of in T2. rewrite Z.eqb_refl in T2. split; lia.
      + destruct (truncate_props orig lvl false Hl) as (T1 & T2 & T3).
        change ([semi; 49]) with ([] ++ [semi; 49]). apply check_shape; auto.
        intros ->. unfold maxlen_of in T2. rewrite Z.eqb_refl in T2. split; [lia|cbn; lia].
    - destruct (truncate_props orig lvl false Hl) as (T1 & T2 & T3).
      change ([semi; 49]) with ([] ++ [semi; 49]). apply check_shape; auto.
      intros ->. unfold maxlen_of in T2. rewrite Z.eqb_refl in T2. split; [lia|cbn; lia].
  Qed.

  Theorem mangle_dir_legal orig lvl :
    lvl = 1 \/ lvl = 2 \/ lvl = 3 -> orig <> [] ->
    check_iso9660_directory (mangle_dir up true orig lvl) lvl = Accept /\
    legal_dir lvl (mangle_dir up true orig lvl).
  Proof.
    intros Hl Hne. unfold mangle_dir.
    destruct (truncate_props orig lvl true Hl) as (T1 & T2 & T3). specialize (T3 Hne).
    set (r := truncate_basename up true orig lvl true) in *.
    unfold maxlen_of in T2.
    split.
    - unfold check_iso9660_directory. destruct r as [|c r'] eqn:Er; [congruence|]. rewrite <- Er in *.
      rewrite T1. cbn [negb]. rewrite andb_false_r.
      destruct (lvl =? 1) eqn:E1.
      + replace (zlen r >? 8) with false by lia. cbn.
        replace (lvl =? 2) with false by lia. replace (lvl =? 3) with false by lia. reflexivity.
      + cbn. destruct ((lvl =? 2) || (lvl =? 3)); [|reflexivity].
        replace (zlen r >? 207) with false; [reflexivity|]. destruct (lvl =? 1); try discriminate. lia.
    - unfold legal_dir. split; [exact T3|]. split; [exact T1|]. split.
      + intros ->. rewrite Z.eqb_refl in T2. lia.
      + intros _. destruct (lvl =? 1); lia.
  Qed.

  (* ---- already-legal input comes back unchanged (apart from the appended version) *)
  Hypothesis up_d1 : forall c, is_d1 c = true -> up c = [c].

  Lemma upper_d1 s : all_d1 s = true -> upper up s = s.
  Proof.
    induction s as [|c s IH]; [reflexivity|]. cbn [all_d1 forallb]. intros H.
    apply andb_prop in H. destruct H as [Hc Hs]. unfold upper in *. cbn [flat_map].
    rewrite (up_d1 c Hc), (IH Hs). reflexivity.
  Qed.

  Lemma map_sub_d1 s : all_d1 s = true -> map sub_char s = s.
  Proof.
    induction s as [|c s IH]; [reflexivity|]. cbn [all_d1 forallb map]. intros H.
    apply andb_prop in H. destruct H as [Hc Hs]. unfold sub_char at 1. rewrite Hc, (IH Hs). reflexivity.
  Qed.

  Lemma truncate_fixed s lvl is_dir :
    lvl = 1 \/ lvl = 2 \/ lvl = 3 -> all_d1 s = true -> zlen s <= maxlen_of lvl is_dir ->
    truncate_basename up true s lvl is_dir = s.
  Proof.
    intros Hl Hd Hlen. unfold truncate_basename, maxlen_of in *.
    replace (lvl =? 4) with false by lia.
    set (n := if lvl =? 1 then 8%nat else if is_dir then 31%nat else 30%nat).
    assert (Hn : (length s <= n)%nat).
    { subst n. unfold zlen in Hlen. destruct (lvl =? 1); [lia|destruct is_dir; lia]. }
    cbv zeta. rewrite (firstn_all2 s Hn), (upper_d1 s Hd), (firstn_all2 s Hn). apply map_sub_d1. exact Hd.
  Qed.

  Theorem mangle_file_fixed name ext lvl :
    lvl = 1 \/ lvl = 2 \/ lvl = 3 -> all_d1 name = true -> all_d1 ext = true ->
    1 <= zlen ext <= 3 -> zlen name <= maxlen_of lvl false ->
    mangle_file up true (name ++ dot :: ext) lvl = (name, ext ++ [semi; 49]).
  Proof.
    intros Hl Hn He Hel Hnl. unfold mangle_file. replace (lvl =? 4) with false by lia.
    rewrite (split_last_app dot name ext (mem_false_notd1 dot ext d1_dot He)).
    rewrite (upper_d1 ext He), He.
    replace (zlen ext =? 0) with false by lia. replace (zlen ext >? 3) with false by lia.
    replace (zlen ext <=? 3) with true by lia. cbn [negb orb andb].
    rewrite (truncate_fixed name lvl false Hl Hn Hnl). reflexivity.
  Qed.

  Theorem mangle_file_fixed_noext name lvl :
    lvl = 1 \/ lvl = 2 \/ lvl = 3 -> all_d1 name = true -> zlen name <= maxlen_of lvl false ->
    mangle_file up true name lvl = (name, [semi; 49]).
  Proof.
    intros Hl Hn Hnl. unfold mangle_file. replace (lvl =? 4) with false by lia.
    rewrite (split_last_none dot name (mem_false_notd1 dot name d1_dot Hn)).
    rewrite (truncate_fixed name lvl false Hl Hn Hnl). reflexivity.
  Qed.

  Theorem mangle_dir_fixed s lvl :
    lvl = 1 \/ lvl = 2 \/ lvl = 3 -> all_d1 s = true -> zlen s <= maxlen_of lvl true ->
    mangle_dir up true s lvl = s.
  Proof. intros. unfold mangle_dir. apply truncate_fixed; assumption. Qed.
End WithUpper.

(* ---------------------------------------------------------------- level 4 *)
Theorem mangle_level4 up fixed orig :
  orig <> [] -> orig <> [dot] -> mem semi orig = false ->
  check_iso9660_filename (mangled_file_name up fixed orig 4) 4 = Accept.
Proof.
  intros Hne Hnd Hs. unfold mangled_file_name, mangle_file. cbn [Z.eqb Pos.eqb].
  unfold check_iso9660_filename, check_iso9660_filename_gen, split_iso9660_filename.
  destruct (split_last dot orig) as [[base ext]|] eqn:Es.
  - destruct (split_last_some dot orig base ext Es) as [Ho Hm].
    assert (Hsame : base ++ [dot] ++ ext = orig) by (rewrite Ho; reflexivity).
    rewrite Hsame. rewrite (split_last_none semi orig Hs). rewrite Es. cbn [check_version].
    rewrite Ho in Hs. rewrite mem_app in Hs. apply orb_false_elim in Hs. destruct Hs as [Hs1 Hs2].
    cbn [mem existsb] in Hs2. apply orb_false_elim in Hs2. destruct Hs2 as [_ Hs2].
    fold (mem semi ext) in Hs2. rewrite Hs1, Hs2.
    assert (Hboth : (match base with [] => true | _ :: _ => false end) &&
                    (match ext with [] => true | _ :: _ => false end) = false).
    { destruct base; destruct ext; cbn; try reflexivity. subst orig. cbn in Hnd. congruence. }
    rewrite Hboth. reflexivity.
  - replace (orig ++ [dot] ++ []) with (orig ++ dot :: []) by reflexivity.
    assert (Hs' : mem semi (orig ++ [dot]) = false) by (rewrite mem_app, Hs; reflexivity).
    rewrite (split_last_none semi _ Hs'). rewrite (split_last_app dot orig [] eq_refl).
    cbn [check_version]. rewrite Hs. destruct orig; [congruence|]. reflexivity.
Qed.

Definition up_ascii (c : Z) : list Z := if (97 <=? c) && (c <=? 122) then [c - 32] else if c =? 223 then [83; 83] else [c].

Lemma level4_semicolon_refuted :
  check_iso9660_filename (mangled_file_name up_ascii true [97; 59] 4) 4 = Refuse /\
  check_iso9660_filename_gen false (mangled_file_name up_ascii false [97; 59] 4) 4 = Fault.
Proof. split; vm_compute; reflexivity. Qed.

(* the pinned original: eight sharp-s characters give a 16-character level-1 basename *)
Lemma original_refuted :
  check_iso9660_filename (mangled_file_name up_ascii false (repeat 223 8) 1) 1 = Refuse /\
  check_iso9660_filename (mangled_file_name up_ascii true (repeat 223 8) 1) 1 = Accept.
Proof. split; vm_compute; reflexivity. Qed.

(* by the letter of "equals the input when the input was already legal": legal level-2/3 inputs
   that the helpers change (recorded as known findings) *)
Lemma long_ext_changed :
  legal_file 3 [65; 46; 72; 84; 77; 76] /\
  mangle_file up_ascii true [65; 46; 72; 84; 77; 76] 3 = ([65; 95; 72; 84; 77; 76], [59; 49]).
Proof.
  split; [|vm_compute; reflexivity].
  exists [65], [72; 84; 77; 76], []. split; [right; left; split; reflexivity|].
  repeat split; try (vm_compute; reflexivity); try lia; try congruence.
  left; congruence.
Qed.

Lemma long_dir_changed :
  legal_dir 3 (repeat 90 32) /\ mangle_dir up_ascii true (repeat 90 32) 3 = repeat 90 31.
Proof.
  split; [|vm_compute; reflexivity].
  split; [cbn; congruence|]. split; [vm_compute; reflexivity|]. split; [lia|]. intros _. vm_compute. congruence.
Qed.

Lemma names_nonvacuous :
  mangled_file_name up_ascii true [102; 111; 111; 46; 116; 120; 116] 1 = [70; 79; 79; 46; 84; 88; 84; 59; 49] /\
  (forall c, up_ascii c <> []).
Proof.
  split; [vm_compute; reflexivity|]. intros c. unfold up_ascii.
  destruct ((97 <=? c) && (c <=? 122)); [discriminate|]. destruct (c =? 223); discriminate.
Qed.
