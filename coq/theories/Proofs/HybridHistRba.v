(* C12 -- Model/HybridHist.v, 9b70343: the MBR's boot file address (rba) is written only by the enc of
   the INITIAL El Torito entry; every other step of the loop keeps it. *)
From Coq Require Import ZArith List Bool Arith Lia.
From PV.Base Require Import Prim.
From PV.Gen Require Import GenConst GenFun.
From PV.Model Require Import Names Pack Alloc Codec Eltorito Account AccountLinks AccountBoot Hybrid HybridHist.
From PV.Proofs Require Import HybridHistProofs.
Import ListNotations.
Local Open Scope Z_scope.

Lemma hh_update_efi_rba y ext sc iso y' :
  hy_update_efi y ext sc iso = Some y' -> ih_rba (hy_ih y') = ih_rba (hy_ih y).
Proof.
  unfold hy_update_efi. destruct (negb _); [discriminate|].
  destruct (parts_update_efi (g_parts (hy_pri y)) _ _ _); [|discriminate].
  destruct (parts_update_efi (g_parts (hy_sec y)) _ _ _); [|discriminate].
  intros H. injection H as <-. reflexivity.
Qed.
Lemma hh_update_mac_rba y ext sc y' :
  hy_update_mac y ext sc = Some y' -> ih_rba (hy_ih y') = ih_rba (hy_ih y).
Proof.
  unfold hy_update_mac. destruct (negb _); [discriminate|].
  destruct (parts_update_mac (g_parts (hy_pri y)) _ _); [|discriminate].
  destruct (parts_update_mac (g_parts (hy_sec y)) _ _); [|discriminate].
  intros H. injection H as <-. reflexivity.
Qed.

(* one step of the loop (current tree): the enc of an entry other than the initial one (index <> 0)
   never changes rba; the enc of the initial entry, reached for the first time with platform 0,
   sets it to 4 * the extent of the entry's inode (placed or not) *)
Theorem hh_push_step_rba s st (e : henc) :
  let k := fst (snd e) in
  let i := fst (snd (snd e)) in
  let pf := fst (snd (snd (snd e))) in
  (k <> 0%nat -> ih_rba (hy_ih (p_hy (push_step s st e))) = ih_rba (hy_ih (p_hy st))) /\
  (k = 0%nat -> pf = 0 -> p_ok st = true -> AccountBoot.mem k (p_ents st) = false ->
   ih_rba (hy_ih (p_hy (push_step s st e))) = rba_of s i * 4 /\
   AccountBoot.mem 0%nat (p_ents (push_step s st e)) = true) /\
  (AccountBoot.mem k (p_ents st) = true -> push_step s st e = st).
Proof.
  cbv zeta. unfold push_step, push_step_gen. cbv zeta. split; [|split].
  - intros Hk. destruct (p_ok st); cbn [negb]; try reflexivity.
    destruct (AccountBoot.mem (fst (snd e)) (p_ents st)); [reflexivity|].
    rewrite andb_false_r.
    destruct (fst (snd (snd (snd e))) =? 239).
    + destruct (_ && _).
      * destruct (hy_update_efi _ _ _ _) eqn:E; [|reflexivity]. cbn [p_hy]. eapply hh_update_efi_rba; eassumption.
      * destruct (_ && _); [|reflexivity].
        destruct (hy_update_mac _ _ _) eqn:E; [|reflexivity]. cbn [p_hy]. eapply hh_update_mac_rba; eassumption.
    + replace (Nat.eqb (fst (snd e)) 0) with false by (symmetry; apply Nat.eqb_neq; exact Hk).
      rewrite andb_false_r. reflexivity.
  - intros Hk Hpf Hok Hm. rewrite Hok, Hm, Hk, Hpf. cbn [negb]. rewrite andb_false_r.
    change (0 =? 239) with false. change (0 =? 0) with true. cbn [Nat.eqb andb p_hy p_ents].
    split; reflexivity.
  - intros Hm. destruct (p_ok st); cbn [negb]; try reflexivity. rewrite Hm. reflexivity.
Qed.

(* the history of /var/tmp/hh_rba.py: ISOLINUX.BIN;1 (initial entry), ZBOOT.IMG;1 as a second platform-0
   section (it sorts after the boot file), add_isohybrid(), write.  The MBR points at the boot file of the
   initial entry (4 * 26 = 104); before 9b70343 (rule [true false]) the last platform-0 enc won: 108 *)
Definition n_isolinux : ident := [73; 83; 79; 76; 73; 78; 85; 88; 46; 66; 73; 78; 59; 49].
Definition n_zboot : ident := [90; 66; 79; 79; 84; 46; 73; 77; 71; 59; 49].
Definition w_second_section :=
  [HAddSigFile [] n_isolinux 2048;
   HBase (BAddEltorito [n_isolinux] [] n_cat (Some 4) 0 false false 0 true 0);
   HBase (BAddFile [] n_zboot 2048);
   HBase (BAddEltorito [n_zboot] [] n_cat None 0 false false 0 true 0);
   HAddHybrid 1 7 0 32 64 None false None hh_noguid; HWrite].

Theorem hh_rba_is_initial_entry :
  all_acc w_second_section = true /\
  let s := hrun hinit w_second_section in
  entry_rbas (hb s) = [26; 27] /\
  option_map v_rba (hybrid_view s) = Some (4 * nth 0 (entry_rbas (hb s)) 0).
Proof. vm_compute. repeat split. Qed.

Theorem hh_rba_is_initial_entry_old_refuted :
  let s := hrun_old2 hinit w_second_section in
  entry_rbas (hb s) = [26; 27] /\ option_map v_rba (hybrid_view s) = Some 108.
Proof. vm_compute. repeat split. Qed.

Print Assumptions hh_push_step_rba.
Print Assumptions hh_rba_is_initial_entry.
Print Assumptions hh_rba_is_initial_entry_old_refuted.
