(* Lemmas about the two splitting stages of Model/RRPlace.v (nm_stage = RockRidge._add_name, sl_group /
   sl_stage = RockRidge._new_symlink, the repaired one) and about the byte length of the entries RockRidge.new
   creates.  Used by Proofs/RRPlaceProofs.v.

     comp_len_bridge            Model/LongNames.v and Model/RREntries.v decide "." ".." "/" the same way
     sl_rec_ok                  an RRSLRecord built by sl_group records (rec_sl) to exactly
                                current_length() bytes, provided current_length() <= 255
     view_group                 the on-disk reading of the sl_group records is LongNames.group of the trace
     view_size                  current_length() = 5 + the bytes of the components read back
     sl_guard                   no record grows beyond the room it was opened with: add_component cannot raise, and
                                the record kept in the directory record has current_length() <= 5 + room
     sl_track_lens              the per-component bookkeeping of the code (complen) = sum of current_length()
     sl_single                  the uncut components fit the first room -> one record, of RRSLRecord.length(split)
     sl_total_ge                cutting only adds headers: the records together are >= the uncut entry
     nm_stage_spec / sl_stage_spec / sl_stage_some / sl_stage_no_ce / sl_stage_view / view_bytes *)
From Coq Require Import ZArith List Bool Lia ZifyBool.
From PV.Base Require Import Prim.
From PV.Model Require Import Codec RREntries RRWalk RRPlace.
From PV.Model Require LongNames.
From PV.Proofs Require Import CodecProofs RREntriesProofs RRSLProofs.
From PV.Proofs Require LongNamesProofs.
Import ListNotations.
Local Open Scope Z_scope.

(* ---- sums ---- *)
Lemma sumz_app a b : sumz (a ++ b) = sumz a + sumz b.
Proof. induction a as [|x a IH]; cbn [app sumz]; lia. Qed.
Lemma sumz_nonneg l : Forall (fun x => 0 <= x) l -> 0 <= sumz l.
Proof. induction 1; cbn [sumz]; lia. Qed.

(* ---- the two copies of zlist_eqb are the same term ---- *)
Lemma comp_len_bridge s : LongNames.comp_len_name s = sl_comp_length s.
Proof. reflexivity. Qed.
Lemma sl_comp_length_ge s : 2 <= sl_comp_length s <= 2 + zlen s.
Proof. unfold sl_comp_length. pose proof (zlen_nonneg s). destruct (is_special s); lia. Qed.

(* ---- an SL record: current_length, recorded bytes ---- *)
Definition comp_lens (cs : list comp) : Z := sumz (map comp_recorded_length cs).
Lemma current_length_sum s : sl_current_length s = 5 + comp_lens (sl_comps s).
Proof.
  unfold sl_current_length, comp_lens. rewrite fold_left_sum. f_equal.
  induction (sl_comps s) as [|c cs IH]; cbn [map fold_right sumz]; [reflexivity|rewrite IH; reflexivity].
Qed.
Lemma current_length_emit c s : sl_current_length (mk_sl (sl_flags s) (c :: sl_comps s))
  = comp_recorded_length c + sl_current_length s.
Proof. rewrite !current_length_sum. cbn [sl_comps]. unfold comp_lens. cbn [map sumz]. lia. Qed.

Definition sl_made (s : sl_rec) : Prop := Forall made (sl_comps s) /\ (sl_flags s = 0 \/ sl_flags s = 1).

Theorem sl_rec_ok s : sl_made s -> sl_current_length s <= 255 ->
  rec_sl s = Some (enc_sl s) /\ zlen (enc_sl s) = sl_current_length s.
Proof.
  destruct s as [fl cs]. intros [Hc Hf] Hl. cbn [sl_comps sl_flags] in *.
  assert (U : u8_ok fl = true) by (destruct Hf as [-> | ->]; reflexivity).
  destruct (sl_made_roundtrip fl cs [] U Hc Hl) as (R & _ & _ & _ & Z). auto.
Qed.

(* ---- sl_group ---- *)
Lemma sl_group_nonnil ts : sl_group ts <> [].
Proof.
  induction ts as [|t r IH]; cbn [sl_group]; [discriminate|].
  destruct (comp_of_tok t); [|discriminate]. destruct (sl_group r); [contradiction|discriminate].
Qed.
Definition tok_wf (t : LongNames.tok) : Prop :=
  match t with LongNames.TSpecial (LongNames.CName _ _) => False | _ => True end.

Lemma comp_of_tok_made t c : comp_of_tok t = Some c -> made c /\ comp_recorded_length c = tok_len t.
Proof.
  destruct t as [|k|b s]; cbn [comp_of_tok tok_len]; intros H; [discriminate| |]; apply some_inv in H; subst c.
  - split; [eexists; left; reflexivity|apply factory_recorded].
  - split; [exists s; destruct b; auto|destruct b; reflexivity].
Qed.
Lemma sl_group_made ts : Forall sl_made (sl_group ts).
Proof.
  induction ts as [|t r IH]; cbn [sl_group].
  - constructor; [split; [constructor|left; reflexivity]|constructor].
  - destruct (comp_of_tok t) as [c|] eqn:E.
    + destruct (comp_of_tok_made _ _ E) as [Hc _]. pose proof (sl_group_nonnil r) as Hn.
      destruct (sl_group r) as [|s rs]; [contradiction|]. inversion IH as [|? ? [H1 H2] H3]; subst.
      cbn [sl_emit]. constructor; [|exact H3]. split; [constructor; assumption|exact H2].
    + constructor; [split; [constructor|right; reflexivity]|exact IH].
Qed.

(* the on-disk reading (what RRSLRecord.parse of the recorded bytes yields, as LongNames components) *)
Lemma view_emit c k : k <> [] ->
  map sl_view (sl_emit c k) = LongNames.emit (LongNames.pair_comp (c_flags c, c_data c)) (map sl_view k).
Proof. destruct k as [|s rs]; [contradiction|reflexivity]. Qed.

Theorem view_group ts : Forall tok_wf ts -> map sl_view (sl_group ts) = LongNames.group ts.
Proof.
  induction 1 as [|t r Ht Hr IH]; [reflexivity|]. cbn [sl_group].
  destruct t as [|k|b s]; cbn [comp_of_tok LongNames.group].
  - cbn [map]. rewrite IH. reflexivity.
  - rewrite view_emit by apply sl_group_nonnil. rewrite IH. destruct k; [reflexivity..|destruct Ht].
  - rewrite view_emit by apply sl_group_nonnil. rewrite IH. destruct b; reflexivity.
Qed.

(* recorded_length() of a built component = the bytes of the component read back *)
Lemma made_view_size c : made c ->
  comp_recorded_length c = LongNames.comp_size (LongNames.pair_comp (c_flags c, c_data c)).
Proof.
  intros (s & H). assert (P : forall f, f = 0 \/ f = 1 ->
    comp_recorded_length (mk_comp f (zlen s) s) = LongNames.comp_size (LongNames.pair_comp (f, s))).
  { intros f [-> | ->]; [change (LongNames.pair_comp (0, s)) with (LongNames.CName false s)
                        |change (LongNames.pair_comp (1, s)) with (LongNames.CName true s)];
      rewrite LongNamesProofs.comp_size_name; reflexivity. }
  destruct H as [-> | [-> | ->]].
  - destruct (factory_cases s) as [[-> ->]|[[-> ->]|[[-> ->]| -> ]]]; try reflexivity. apply P. auto.
  - apply P. auto.
  - apply P. auto.
Qed.
Lemma view_size s : sl_made s -> sl_current_length s = 5 + LongNames.comps_size (snd (sl_view s)).
Proof.
  intros [Hc _]. rewrite current_length_sum. f_equal. unfold comp_lens, sl_view. cbn [snd].
  induction Hc as [|c cs H1 H2 IH]; [reflexivity|]. cbn [map sumz LongNames.comps_size fold_right].
  rewrite (made_view_size c H1), IH. reflexivity.
Qed.

Lemma wf_pre (b : bool) ts : Forall tok_wf ((if b then [LongNames.TBrk] else []) ++ ts) <-> Forall tok_wf ts.
Proof. destruct b; cbn [app]; [|reflexivity]. split; [intros H; inversion H; assumption|constructor; [exact I|assumption]]. Qed.
Lemma cut_wf fuel : forall r2 area rest ts a, LongNames.cut_name fuel r2 area rest = (ts, a) -> Forall tok_wf ts.
Proof.
  induction fuel as [|f IH]; intros r2 area rest ts a H; [inversion H; constructor|].
  rewrite LongNamesProofs.cut_name_S in H. cbv zeta in H.
  destruct (LongNames.len rest <=? _) in H.
  - inversion H; subst. apply wf_pre. repeat constructor.
  - destruct (LongNames.cut_name f _ _ _) as [ts' a'] eqn:R. inversion H; subst. apply wf_pre.
    constructor; [exact I|eapply IH; exact R].
Qed.
Lemma tokens_wf r2 cs : forall area, Forall tok_wf (LongNames.sl_tokens r2 area cs).
Proof.
  induction cs as [|c cs IH]; intros area; [constructor|]. cbn [LongNames.sl_tokens].
  destruct (LongNames.one_comp r2 area c) as [ts a] eqn:O. apply Forall_app. split; [|apply IH].
  destruct c; cbn [LongNames.one_comp] in O; try (inversion O; subst; apply wf_pre; repeat constructor).
  eapply cut_wf; exact O.
Qed.

(* ---- rooms ---- *)
Lemma tok_len_size t : tok_wf t -> t <> LongNames.TBrk -> tok_len t = LongNamesProofs.tok_size t.
Proof. destruct t as [|c|b s]; intros W N; [congruence| |reflexivity]. destruct c; [reflexivity..|destruct W]. Qed.

Lemma group_fits ts : forall room, Forall tok_wf ts -> LongNamesProofs.fits room 250 ts ->
  exists r0 rs, sl_group ts = r0 :: rs /\ sl_current_length r0 <= 5 + Z.max 0 room /\
                Forall (fun r => sl_current_length r <= 255) rs.
Proof.
  induction ts as [|t r IH]; intros room W H.
  - exists (mk_sl 0 []), []. split; [reflexivity|]. change (sl_current_length (mk_sl 0 [])) with 5. split; [lia|constructor].
  - inversion W as [|? ? Wt Wr]; subst. cbn [sl_group]. destruct (comp_of_tok t) as [c|] eqn:E.
    + assert (Nb : t <> LongNames.TBrk) by (intros ->; discriminate E).
      assert (H' : LongNamesProofs.tok_size t <= room /\ LongNamesProofs.fits (room - LongNamesProofs.tok_size t) 250 r)
        by (destruct t; [congruence|exact H|exact H]).
      destruct H' as [Hs H']. destruct (IH _ Wr H') as (r0 & rs & -> & H1 & H2).
      destruct (comp_of_tok_made _ _ E) as [_ Hl]. rewrite (tok_len_size t Wt Nb) in Hl.
      eexists _, rs. split; [reflexivity|]. split; [|exact H2]. rewrite current_length_emit.
      assert (0 <= LongNamesProofs.tok_size t).
      { destruct t as [|k|b s]; [congruence|apply LongNamesProofs.comp_size_nonneg|cbn [LongNamesProofs.tok_size]; unfold LongNames.len; lia]. }
      lia.
    + destruct t; try discriminate. cbn [LongNamesProofs.fits] in H. destruct (IH _ Wr H) as (r0 & rs & -> & H1 & H2).
      eexists _, _. split; [reflexivity|]. change (sl_current_length (mk_sl 1 [])) with 5.
      split; [lia|]. constructor; [lia|exact H2].
Qed.

(* add_component never raises; the first record fits the room it was opened with *)
Theorem sl_guard r1 cs : r1 <= 250 ->
  exists r0 rs, sl_group (LongNames.sl_tokens 250 r1 cs) = r0 :: rs /\ sl_current_length r0 <= 5 + Z.max 0 r1 /\
    forallb (fun r => sl_current_length r <=? 255) (r0 :: rs) = true.
Proof.
  intros Hr. destruct (group_fits _ r1 (tokens_wf 250 cs r1) (LongNamesProofs.tokens_fits 250 cs r1 ltac:(lia)))
    as (r0 & rs & E & H1 & H2).
  exists r0, rs. split; [exact E|]. split; [exact H1|]. cbn [forallb]. apply andb_true_iff. split; [lia|].
  apply forallb_forall. intros x Hx. pose proof (proj1 (Forall_forall _ _) H2 x Hx). cbv beta in *. lia.
Qed.

(* the code's bookkeeping (5 per record, complen per component) *)
Theorem sl_track_lens ts : sl_lens (sl_group ts) = sl_track ts.
Proof.
  unfold sl_track, sl_lens. induction ts as [|t r IH]; [reflexivity|]. cbn [sl_group map sumz].
  destruct (comp_of_tok t) as [c|] eqn:E.
  - destruct (comp_of_tok_made _ _ E) as [_ Hl]. pose proof (sl_group_nonnil r) as Hn.
    destruct (sl_group r) as [|s rs]; [contradiction|]. cbn [sl_emit map sumz] in *.
    rewrite current_length_emit. lia.
  - destruct t; try discriminate. cbn [map sumz tok_len]. change (sl_current_length (mk_sl 1 [])) with 5. lia.
Qed.

(* uncut size = RRSLRecord.length(split) *)
Lemma uncut_len t : len_sl (LongNames.split_slash t) = 5 + LongNames.comps_size (LongNames.sl_components t).
Proof.
  rewrite LongNamesProofs.components_size. unfold len_sl. rewrite fold_left_sum. reflexivity.
Qed.

(* the uncut components fit the first room: one record, of the uncut length *)
Theorem sl_single r1 t : t <> [] -> len_sl (LongNames.split_slash t) <= 5 + r1 ->
  exists r0, sl_group (LongNames.sl_tokens 250 r1 (LongNames.sl_components t)) = [r0] /\
             sl_current_length r0 = len_sl (LongNames.split_slash t).
Proof.
  intros Hne Hl. rewrite uncut_len in *.
  destruct (LongNamesProofs.render_components t Hne) as [_ L].
  pose proof (LongNamesProofs.single_record 250 _ r1 L ltac:(lia)) as G.
  pose proof (view_group _ (tokens_wf 250 (LongNames.sl_components t) r1)) as V. rewrite G in V.
  pose proof (sl_group_made (LongNames.sl_tokens 250 r1 (LongNames.sl_components t))) as M.
  destruct (sl_group _) as [|r0 [|r1' rs]]; try discriminate V. exists r0. split; [reflexivity|].
  inversion M as [|? ? M0 _]; subst. rewrite (view_size r0 M0).
  assert (Hv : sl_view r0 = (false, LongNames.sl_components t)) by (cbn [map] in V; congruence).
  rewrite Hv. reflexivity.
Qed.

(* cutting only adds headers *)
Lemma cut_total fuel : forall r2 area rest ts a, 3 <= r2 -> (length rest < fuel)%nat ->
  LongNames.cut_name fuel r2 area rest = (ts, a) -> 2 + zlen rest <= sumz (map tok_len ts).
Proof.
  induction fuel as [|f IH]; intros r2 area rest ts a Hr2 Hf H; [lia|].
  rewrite LongNamesProofs.cut_name_S in H. cbv zeta in H.
  destruct (LongNamesProofs.cut_step r2 area rest Hr2) as (Hm & Hd & Hn). cbv zeta in Hm, Hd, Hn.
  set (area1 := if area <? match rest with [] => 2 | _ => 3 end then r2 else area) in *.
  set (lz := if area1 <? LongNames.len rest + 2 then area1 - 2 else LongNames.len rest) in *.
  assert (Pre : forall (b : bool) l, sumz (map tok_len l) <= sumz (map tok_len ((if b then [LongNames.TBrk] else []) ++ l)))
    by (intros [] l; cbn [app map sumz tok_len]; lia).
  destruct (LongNames.len rest <=? lz) eqn:D.
  - inversion H; subst ts a; clear H. destruct (Hd eq_refl) as (_ & _ & E). rewrite E.
    eapply Z.le_trans; [|apply Pre]. cbn [map sumz tok_len]. lia.
  - destruct (LongNames.cut_name f r2 _ _) as [ts' a'] eqn:R. inversion H; subst ts a; clear H.
    destruct (Hn eq_refl) as (Hlz & Hlz1 & Hlz2). eapply Z.le_trans; [|apply Pre]. cbn [map sumz tok_len].
    assert (Hlen : (length (skipn (Z.to_nat lz) rest) < f)%nat)
      by (rewrite skipn_length; unfold LongNames.len in *; lia).
    pose proof (IH _ _ _ _ _ Hr2 Hlen R) as I.
    assert (zlen rest = zlen (firstn (Z.to_nat lz) rest) + zlen (skipn (Z.to_nat lz) rest))
      by (rewrite <- zlen_app, firstn_skipn; reflexivity).
    lia.
Qed.
Lemma tokens_total cs : forall area,
  LongNames.comps_size cs <= sumz (map tok_len (LongNames.sl_tokens 250 area cs)).
Proof.
  induction cs as [|c cs IH]; intros area; [cbn; lia|].
  cbn [LongNames.sl_tokens LongNames.comps_size fold_right]. fold (LongNames.comps_size cs).
  destruct (LongNames.one_comp 250 area c) as [ts a] eqn:O. rewrite map_app, sumz_app. specialize (IH a).
  assert (LongNames.comp_size c <= sumz (map tok_len ts)); [|lia].
  destruct c as [| | |b p]; cbn [LongNames.one_comp] in O;
    try (inversion O; subst ts a; destruct (area <? 2); cbn; lia).
  rewrite LongNamesProofs.comp_size_name. change (LongNames.len p) with (zlen p).
  eapply cut_total; [|
   |exact O]; lia.
Qed.

(* ---- stage specifications ---- *)
Definition nm_pair (n : nm_rec) : Z * list Z := (nm_flags n, nm_name n).
Lemma nm_pair_of l : map nm_pair (map nm_of l) = l.
Proof. induction l as [|[f p] l IH]; [reflexivity|]. cbn [map]. rewrite IH. reflexivity. Qed.

Lemma nm_split_fits room name : zlen name <= room -> name <> [] ->
  LongNames.nm_split room name = [(0, name)].
Proof.
  intros H Hn. unfold LongNames.nm_split. pose proof (zlen_nonneg name).
  assert (0 < zlen name) by (destruct name; [contradiction|unfold zlen; cbn [length]; lia]).
  replace (0 <? room) with true by lia.
  rewrite firstn_all2, skipn_all2 by (unfold zlen in *; lia).
  destruct (length name); reflexivity.
Qed.

Definition nm_fine (n : nm_rec) : Prop := len_nm (nm_name n) <= 255 /\ (nm_flags n = 0 \/ nm_flags n = 1).

Lemma nm_flag_fst ps : Forall (fun fp => fst fp = 0 \/ fst fp = 1) (LongNames.nm_flag ps).
Proof.
  induction ps as [|p ps IH]; [constructor|]. destruct ps as [|q ps']; [repeat constructor|].
  change (LongNames.nm_flag (p :: q :: ps')) with ((1, p) :: LongNames.nm_flag (q :: ps')).
  constructor; [right; reflexivity|exact IH].
Qed.

Theorem nm_stage_spec hc name s d c s' : nm_stage hc name s = Some ((d, c), s') -> 0 <= fst s ->
  fst s' = fst s + nm_lens d /\ snd s' = snd s + nm_lens c /\ (hc = false -> c = []) /\
  LongNames.nm_join (map nm_pair (d ++ c)) = name /\ Forall nm_fine (d ++ c) /\
  (fst s <= ALLOWED_DR_SIZE -> fst s' <= ALLOWED_DR_SIZE) /\ 0 <= nm_lens d /\ 0 <= nm_lens c /\
  (hc = false -> name <> [] -> d = [mk_nm 0 name]).
Proof.
  destruct s as [cur cel]. unfold nm_stage, ALLOWED_DR_SIZE. cbn [fst snd].
  set (len0 := 254 - cur - 5). intros H Hcur.
  destruct ((len0 <? zlen name) && negb hc) eqn:G; [discriminate|].
  set (len_here := if len0 <? zlen name then Z.max len0 0 else len0) in *.
  assert (Hlh : 0 <= len_here <= 249).
  { unfold len_here. pose proof (zlen_nonneg name). destruct (len0 <? zlen name) eqn:E; lia. }
  set (ps := LongNames.nm_split len_here name) in *.
  set (k := if 0 <? len_here then 1%nat else 0%nat) in *.
  apply some_inv in H. inversion H; subst d c s'; clear H. cbn [fst snd].
  rewrite firstn_skipn, nm_pair_of. fold ps.
  assert (Hfine : Forall nm_fine (map nm_of ps)).
  { destruct (LongNamesProofs.nm_piece_bounds len_here name (proj1 Hlh)) as (fs & rs & E & F1 & F2).
    apply Forall_forall. intros n Hn.
    apply in_map_iff in Hn. destruct Hn as ([f p] & <- & Hin). unfold nm_fine, nm_of. cbn [fst snd nm_name nm_flags].
    split.
    - assert (Hp : In p (fs ++ rs)) by (rewrite <- E; apply in_map_iff; exists (f, p); auto).
      unfold len_nm. change (zlen p) with (LongNames.len p). apply in_app_or in Hp. destruct Hp as [Hp|Hp].
      + pose proof (proj1 (Forall_forall _ _) F1 p Hp). cbv beta in *. lia.
      + pose proof (proj1 (Forall_forall _ _) F2 p Hp). cbv beta in *. lia.
    - exact (proj1 (Forall_forall _ _) (nm_flag_fst _) (f, p) Hin). }
  assert (Hnn : forall l, Forall nm_fine l -> 0 <= nm_lens l).
  { intros l Hl. unfold nm_lens. apply sumz_nonneg. apply Forall_forall. intros x Hx.
    apply in_map_iff in Hx. destruct Hx as (n & <- & _). unfold len_nm. pose proof (zlen_nonneg (nm_name n)). lia. }
  rewrite <- (firstn_skipn k (map nm_of ps)) in Hfine. apply Forall_app in Hfine. destruct Hfine as [Fd Fc].
  assert (Hno : hc = false -> zlen name <= len_here /\ len_here = len0).
  { intros ->. unfold len_here. destruct (len0 <? zlen name) eqn:E; [discriminate|lia]. }
  assert (Hdr : nm_lens (firstn k (map nm_of ps)) <= 5 + len_here /\ (len_here = 0 -> nm_lens (firstn k (map nm_of ps)) = 0)).
  { unfold k, ps, LongNames.nm_split. destruct (0 <? len_here) eqn:E; [|unfold nm_lens; cbn [firstn map sumz]; lia].
    cbn [app]. destruct (LongNames.nm_chunks _ _) as [|q qs]; cbn [LongNames.nm_flag map firstn nm_lens sumz nm_of nm_name snd];
      unfold len_nm, zlen; rewrite firstn_length; lia. }
  repeat split; try reflexivity.
  - intros Hc. destruct (Hno Hc) as [Hl _]. destruct name as [|x nm].
    + unfold ps, LongNames.nm_split. rewrite skipn_nil, firstn_nil. cbn [length LongNames.nm_chunks app].
      unfold k. destruct (0 <? len_here); reflexivity.
    + unfold ps. rewrite nm_split_fits by (first [exact Hl|discriminate]).
      unfold k. replace (0 <? len_here) with true by (unfold zlen in Hl; cbn [length] in Hl; lia). reflexivity.
  - apply LongNamesProofs.nm_roundtrip. lia.
  - rewrite <- (firstn_skipn k (map nm_of ps)). apply Forall_app. split; assumption.
  - intros Hc. unfold len_here, len0 in *. destruct (254 - cur - 5 <? zlen name) eqn:E; lia.
  - apply Hnn. exact Fd.
  - apply Hnn. exact Fc.
  - intros Hc Hne. destruct (Hno Hc) as [Hl _]. unfold ps. rewrite nm_split_fits by assumption.
    unfold k. destruct name as [|x nm]; [contradiction|].
    replace (0 <? len_here) with true by (unfold zlen in Hl; cbn [length] in Hl; lia). reflexivity.
Qed.


Theorem sl_total_ge r1 t :
  len_sl (LongNames.split_slash t) <= sl_lens (sl_group (LongNames.sl_tokens 250 r1 (LongNames.sl_components t))).
Proof.
  rewrite sl_track_lens, uncut_len. unfold sl_track.
  pose proof (tokens_total (LongNames.sl_components t) r1). lia.
Qed.

Lemma sl_lens_nonneg l : Forall sl_made l -> 0 <= sl_lens l.
Proof.
  intros H. unfold sl_lens. apply sumz_nonneg. apply Forall_forall. intros x Hx. apply in_map_iff in Hx.
  destruct Hx as (s & <- & Hs). rewrite (view_size s (proj1 (Forall_forall _ _) H s Hs)).
  pose proof (LongNamesProofs.comps_size_nonneg (snd (sl_view s))). lia.
Qed.
Lemma sl_lens_app a b : sl_lens (a ++ b) = sl_lens a + sl_lens b.
Proof. unfold sl_lens. rewrite map_app, sumz_app. reflexivity. Qed.

(* room and side the first RRSLRecord starts with *)
Definition sl_room (cur : Z) : Z := if cur + 8 <? 254 then 254 - cur - 5 else 250.
Lemma sl_room_range cur : 0 <= cur -> 0 <= sl_room cur <= 250.
Proof. unfold sl_room. destruct (cur + 8 <? 254) eqn:E; lia. Qed.

Theorem sl_stage_spec hc t s d c s' : sl_stage hc t s = Some ((d, c), s') -> 0 <= fst s ->
  d ++ c = sl_group (LongNames.sl_tokens 250 (sl_room (fst s)) (LongNames.sl_components t)) /\
  fst s' = fst s + sl_lens d /\ snd s' = snd s + (if hc then sl_lens c else 0) /\
  Forall sl_made (d ++ c) /\ Forall (fun r => sl_current_length r <= 255) (d ++ c) /\
  (fst s <= ALLOWED_DR_SIZE -> fst s' <= ALLOWED_DR_SIZE) /\
  (hc = false -> fst s + len_sl (LongNames.split_slash t) <= ALLOWED_DR_SIZE) /\
  (hc = false -> t <> [] -> fst s + 8 < ALLOWED_DR_SIZE ->
   c = [] /\ sl_lens d = len_sl (LongNames.split_slash t)).
Proof.
  destruct s as [cur cel]. unfold sl_stage, ALLOWED_DR_SIZE. cbn [fst snd]. intros H Hcur.
  destruct ((254 <? cur + len_sl (LongNames.split_slash t)) && negb hc) eqn:G; [discriminate|].
  change (len_sl [[97]]) with 8 in H. fold (sl_room cur) in H.
  pose proof (sl_room_range cur Hcur) as Hr.
  destruct (sl_guard (sl_room cur) (LongNames.sl_components t) (proj2 Hr)) as (r0 & rs & E & H1 & H2).
  rewrite E in H. rewrite H2 in H. cbn [negb] in H. apply some_inv in H. inversion H; subst d c s'; clear H.
  cbn [fst snd]. rewrite firstn_skipn. rewrite <- E.
  split; [reflexivity|]. split; [reflexivity|]. split; [destruct hc; lia|]. split; [apply sl_group_made|].
  split; [|split; [|split]].
  - rewrite E. apply Forall_forall. intros x Hx. pose proof (proj1 (forallb_forall _ _) H2 x Hx). cbv beta in *. lia.
  - intros Hle. rewrite E. unfold sl_room in H1. unfold sl_lens.
    destruct (cur + 8 <? 254) eqn:E8; cbn [firstn map sumz]; lia.
  - intros ->. cbn [negb] in G. lia.
  - intros -> Hne H8. cbn [negb] in G.
    assert (R : sl_room cur = 254 - cur - 5) by (unfold sl_room; replace (cur + 8 <? 254) with true by lia; reflexivity).
    destruct (sl_single (sl_room cur) t Hne ltac:(lia)) as (q & Eq & Lq). rewrite Eq.
    replace (cur + 8 <? 254) with true by lia. unfold sl_lens. cbn [firstn skipn map sumz]. split; [reflexivity|lia].
Qed.

Theorem sl_stage_some hc t s : 0 <= fst s ->
  hc = true \/ fst s + len_sl (LongNames.split_slash t) <= ALLOWED_DR_SIZE ->
  exists res, sl_stage hc t s = Some res.
Proof.
  destruct s as [cur cel]. unfold sl_stage, ALLOWED_DR_SIZE. cbn [fst snd]. intros Hcur Hc.
  replace ((254 <? cur + len_sl (LongNames.split_slash t)) && negb hc) with false
    by (destruct Hc as [->|Hc]; [rewrite andb_false_r; reflexivity|]; lia).
  change (len_sl [[97]]) with 8. fold (sl_room cur).
  destruct (sl_guard (sl_room cur) (LongNames.sl_components t) (proj2 (sl_room_range cur Hcur))) as (r0 & rs & E & _ & H2).
  rewrite E, H2. cbn [negb]. eexists. reflexivity.
Qed.

(* without a CE entry _new_symlink accepts exactly when the uncut SL entry fits *)
Corollary sl_stage_no_ce t cur cel : 0 <= cur ->
  (sl_stage false t (cur, cel) <> None <-> cur + len_sl (LongNames.split_slash t) <= ALLOWED_DR_SIZE).
Proof.
  intros Hcur. split.
  - destruct (sl_stage false t (cur, cel)) as [[[d c] s']|] eqn:E; [intros _|congruence].
    apply (sl_stage_spec _ _ _ _ _ _ E Hcur). reflexivity.
  - intros H. destruct (sl_stage_some false t (cur, cel) Hcur (or_intror H)) as (res & ->). discriminate.
Qed.

(* the records read back: the LongNames records for the same rooms *)
Lemma sl_stage_view hc t s d c s' : sl_stage hc t s = Some ((d, c), s') -> 0 <= fst s ->
  map sl_view (d ++ c) = LongNames.sl_records (sl_room (fst s)) 250 (LongNames.sl_components t).
Proof.
  intros H Hs. destruct (sl_stage_spec _ _ _ _ _ _ H Hs) as (E & _). rewrite E.
  unfold LongNames.sl_records. apply view_group. apply tokens_wf.
Qed.

(* bytes: the wire format of Model/LongNames.v applied to the view is what enc_sl writes *)
Lemma made_view_bytes c : made c ->
  LongNames.comp_bytes (LongNames.pair_comp (c_flags c, c_data c)) = sl_comp_enc c.
Proof.
  intros (s & H). destruct H as [-> | [-> | ->]]; [|reflexivity..].
  destruct (factory_cases s) as [[-> ->]|[[-> ->]|[[-> ->]| -> ]]]; reflexivity.
Qed.
Lemma view_bytes s : sl_made s -> LongNames.sl_record_bytes (sl_view s) = enc_sl s.
Proof.
  intros [Hc Hf]. unfold LongNames.sl_record_bytes, enc_sl. cbn [fst snd sl_view].
  assert (B : flat_map LongNames.comp_bytes
                (map (fun c => LongNames.pair_comp (c_flags c, c_data c)) (sl_comps s))
              = concat (map sl_comp_enc (sl_comps s))).
  { induction Hc as [|c cs H1 H2 IH]; [reflexivity|]. cbn [map flat_map concat]. rewrite IH, (made_view_bytes c H1). reflexivity. }
  unfold sl_view. cbn [fst snd]. rewrite B.
  assert (L : 5 + LongNames.len (concat (map sl_comp_enc (sl_comps s))) = sl_current_length s).
  { rewrite current_length_sum. f_equal. unfold comp_lens. change LongNames.len with (@zlen Z). clear B.
    induction Hc as [|c cs H1 H2 IH]; [reflexivity|]. cbn [map concat sumz]. rewrite zlen_app, IH.
    rewrite (made_view_size c H1), <- (made_view_bytes c H1). reflexivity. }
  rewrite L. destruct Hf as [-> | ->]; reflexivity.
Qed.

Print Assumptions sl_rec_ok.
Print Assumptions view_group.
Print Assumptions sl_guard.
Print Assumptions sl_track_lens.
Print Assumptions sl_single.
Print Assumptions sl_total_ge.
Print Assumptions nm_stage_spec.
Print Assumptions sl_stage_spec.
Print Assumptions sl_stage_no_ce.
Print Assumptions view_bytes.
