(* Lemmas about the two splitting stages of Model/RRPlace.v (nm_stage = RockRidge._add_name, sl_group /
   sl_stage = RockRidge._new_symlink) and about the byte length of the entries RockRidge.new creates.
   Used by Proofs/RRPlaceProofs.v.

     ln_eqb / comp_len_bridge   Model/LongNames.v and Model/RREntries.v decide "." ".." "/" the same way
     sl_rec_ok                  an RRSLRecord built by sl_group records (rec_sl) to exactly
                                current_length() bytes, provided current_length() <= 255
     view_group                 the on-disk reading of the sl_group records is LongNames.group of the trace
     tokens_within / sl_guard   the pessimistic room tracker of _new_symlink never lets a record grow beyond
                                the room it started with: add_component cannot raise, and the record kept
                                in the directory record has current_length() <= 5 + room
     sl_track_lens              the per-component bookkeeping of the code = sum of current_length()
     nm_stage_spec / sl_stage_spec / sl_stage_no_ce / sl_stage_some *)
From Coq Require Import ZArith List Bool Lia ZifyBool.
From PV.Base Require Import Prim.
From PV.Model Require Import Codec RREntries RRWalk RRPlace.
From PV.Model Require LongNames.
From PV.Proofs Require Import CodecProofs RREntriesProofs.
From PV.Proofs Require LongNamesProofs RRSLProofs.
Import ListNotations.
Local Open Scope Z_scope.

(* ---- sums ---- *)
Lemma sumz_app a b : sumz (a ++ b) = sumz a + sumz b.
Proof. induction a as [|x a IH]; cbn [app sumz]; lia. Qed.
Lemma sumz_nonneg l : Forall (fun x => 0 <= x) l -> 0 <= sumz l.
Proof. induction 1; cbn [sumz]; lia. Qed.
Lemma sumz_in l x : Forall (fun x => 0 <= x) l -> In x l -> x <= sumz l.
Proof.
  induction 1 as [|y l Hy Hl IH]; intros Hin; [destruct Hin|]. cbn [sumz].
  pose proof (sumz_nonneg l Hl). destruct Hin as [->|Hin]; [lia|specialize (IH Hin); lia].
Qed.

(* ---- the two copies of zlist_eqb ---- *)
Lemma ln_eqb a : forall b, LongNames.zlist_eqb a b = zlist_eqb a b.
Proof. reflexivity. Qed.   (* the two fixpoints are syntactically the same term *)
Lemma ln_special s :
  LongNames.is_dot s || LongNames.is_dotdot s || LongNames.is_slash s = is_special s.
Proof. reflexivity. Qed.
Lemma comp_len_bridge s : LongNames.comp_len_name s = sl_comp_length s.
Proof. unfold LongNames.comp_len_name, sl_comp_length. rewrite ln_special. reflexivity. Qed.
Lemma sl_comp_length_ge s : 2 <= sl_comp_length s <= 2 + zlen s.
Proof. unfold sl_comp_length. pose proof (zlen_nonneg s). destruct (is_special s); lia. Qed.

(* ---- components made by Component.factory (+ set_continued) ---- *)
Definition mk_fcomp (b : bool) (s : list Z) : comp := if b then comp_set_continued (sl_factory s) else sl_factory s.
Definition fcomp (c : comp) : Prop := exists b s, c = mk_fcomp b s.

Lemma fcomp_name b s : comp_name (mk_fcomp b s) = s.
Proof. destruct b; [apply RRSLProofs.continued_name|apply RRSLProofs.factory_name]. Qed.

Lemma fcomp_cases b s :
  (is_special s = true /\ zlen (sl_comp_enc (mk_fcomp b s)) = 2 /\ sl_comp_packable (mk_fcomp b s) = true) \/
  (is_special s = false /\ mk_fcomp b s = mk_comp (if b then 1 else 0) (zlen s) s).
Proof.
  unfold is_special, mk_fcomp, sl_factory.
  destruct (zlist_eqb s s_dot) eqn:E1; [apply zlist_eqb_eq in E1; subst; left; destruct b; repeat split|].
  destruct (zlist_eqb s s_dotdot) eqn:E2; [apply zlist_eqb_eq in E2; subst; left; destruct b; repeat split|].
  destruct (zlist_eqb s s_slash) eqn:E3; [apply zlist_eqb_eq in E3; subst; left; destruct b; repeat split|].
  right. destruct b; split; reflexivity.
Qed.

Lemma fcomp_enc_len c : fcomp c -> zlen (sl_comp_enc c) = sl_comp_length (comp_name c).
Proof.
  intros (b & s & ->). rewrite fcomp_name. unfold sl_comp_length.
  destruct (fcomp_cases b s) as [(Hs & Hl & _)|(Hs & ->)]; rewrite Hs; [exact Hl|].
  destruct b; [change (sl_comp_enc (mk_comp 1 (zlen s) s)) with ([1; zlen s] ++ s)
             |change (sl_comp_enc (mk_comp 0 (zlen s) s)) with ([0; zlen s] ++ s)];
    cbn [c_data]; rewrite zlen_app; reflexivity.
Qed.
Lemma fcomp_packable c : fcomp c -> sl_comp_length (comp_name c) <= 255 -> sl_comp_packable c = true.
Proof.
  intros (b & s & ->). rewrite fcomp_name. unfold sl_comp_length.
  destruct (fcomp_cases b s) as [(Hs & _ & Hp)|(Hs & ->)]; rewrite Hs; [intros _; exact Hp|].
  intros H. pose proof (zlen_nonneg s). unfold sl_comp_packable. cbn [c_flags c_len].
  destruct b; cbn [flag_set]; unfold u8_ok; cbn; lia.
Qed.

(* ---- an SL record: current_length, recorded bytes ---- *)
Definition comp_lens (cs : list comp) : Z := sumz (map (fun c => sl_comp_length (comp_name c)) cs).
Lemma current_length_sum s : sl_current_length s = 5 + comp_lens (sl_comps s).
Proof.
  unfold sl_current_length, len_sl, comp_lens. rewrite fold_left_sum. f_equal.
  induction (sl_comps s) as [|c cs IH]; cbn [map fold_right sumz]; [reflexivity|rewrite IH; reflexivity].
Qed.
Lemma comp_lens_nonneg cs : Forall (fun x => 0 <= x) (map (fun c => sl_comp_length (comp_name c)) cs).
Proof. apply Forall_forall. intros x Hx. apply in_map_iff in Hx. destruct Hx as (c & <- & _).
  pose proof (sl_comp_length_ge (comp_name c)). lia. Qed.

Definition sl_made (s : sl_rec) : Prop := Forall fcomp (sl_comps s) /\ (sl_flags s = 0 \/ sl_flags s = 1).

Lemma enc_comps_len cs : Forall fcomp cs -> zlen (concat (map sl_comp_enc cs)) = comp_lens cs.
Proof.
  induction 1 as [|c cs Hc Hcs IH]; [reflexivity|]. cbn [map concat]. unfold comp_lens in *.
  cbn [map sumz]. rewrite zlen_app, IH, (fcomp_enc_len c Hc). reflexivity.
Qed.

Theorem sl_rec_ok s : sl_made s -> sl_current_length s <= 255 ->
  rec_sl s = Some (enc_sl s) /\ zlen (enc_sl s) = sl_current_length s.
Proof.
  intros [Hc Hf] Hl. pose proof (current_length_sum s) as Hs.
  pose proof (sumz_nonneg _ (comp_lens_nonneg (sl_comps s))) as Hn. fold (comp_lens (sl_comps s)) in Hn.
  split.
  - unfold rec_sl.
    assert (P : forallb sl_comp_packable (sl_comps s) = true).
    { apply forallb_forall. intros c Hin. apply fcomp_packable; [exact (proj1 (Forall_forall _ _) Hc c Hin)|].
      assert (sl_comp_length (comp_name c) <= comp_lens (sl_comps s)); [|lia].
      apply sumz_in; [apply comp_lens_nonneg|]. apply in_map_iff. eauto. }
    rewrite P. replace (u8_ok (sl_current_length s)) with true by (unfold u8_ok; lia).
    replace (u8_ok (sl_flags s)) with true by (unfold u8_ok; lia). reflexivity.
  - unfold enc_sl. rewrite zlen_app, enc_comps_len by exact Hc. rewrite Hs. reflexivity.
Qed.

(* ---- sl_group ---- *)
Lemma sl_group_nonnil ts : sl_group ts <> [].
Proof.
  induction ts as [|t r IH]; cbn [sl_group]; [discriminate|].
  destruct (comp_of_tok t); [|discriminate]. destruct (sl_group r); [contradiction|discriminate].
Qed.
Lemma comp_of_tok_fcomp t c : comp_of_tok t = Some c -> fcomp c /\ sl_comp_length (comp_name c) = tok_len t.
Proof.
  destruct t as [|k|b s]; cbn [comp_of_tok tok_len]; intros H; [discriminate| |]; apply some_inv in H; subst c.
  - split; [exists false; eexists; reflexivity|]. rewrite (proj1 (RRSLProofs.factory_name _)). reflexivity.
  - split; [exists b, s; reflexivity|]. change (sl_comp_length (comp_name (mk_fcomp b s)) = sl_comp_length s).
    rewrite fcomp_name. reflexivity.
Qed.
Lemma sl_group_made ts : Forall sl_made (sl_group ts).
Proof.
  induction ts as [|t r IH]; cbn [sl_group].
  - constructor; [split; [constructor|left; reflexivity]|constructor].
  - destruct (comp_of_tok t) as [c|] eqn:E.
    + destruct (comp_of_tok_fcomp _ _ E) as [Hc _]. pose proof (sl_group_nonnil r) as Hn.
      destruct (sl_group r) as [|s rs]; [contradiction|]. inversion IH as [|? ? [H1 H2] H3]; subst.
      cbn [sl_emit]. constructor; [|exact H3]. split; [constructor; assumption|exact H2].
    + constructor; [split; [constructor|right; reflexivity]|exact IH].
Qed.

(* the on-disk reading (what RRSLRecord.parse of the recorded bytes yields, as LongNames components) *)
Definition tok_wf (t : LongNames.tok) : Prop :=
  match t with LongNames.TSpecial (LongNames.CName _ _) => False | _ => True end.

Lemma view_fcomp b s :
  LongNames.pair_comp (c_flags (mk_fcomp b s), c_data (mk_fcomp b s)) = LongNames.factory b s.
Proof.
  unfold LongNames.factory, LongNames.is_dot, LongNames.is_dotdot, LongNames.is_slash.
  change (LongNames.zlist_eqb s [46]) with (zlist_eqb s s_dot).
  change (LongNames.zlist_eqb s [46; 46]) with (zlist_eqb s s_dotdot).
  change (LongNames.zlist_eqb s [47]) with (zlist_eqb s s_slash).
  unfold mk_fcomp, sl_factory.
  destruct (zlist_eqb s s_dot); [destruct b; reflexivity|].
  destruct (zlist_eqb s s_dotdot); [destruct b; reflexivity|].
  destruct (zlist_eqb s s_slash); destruct b; reflexivity.
Qed.
Lemma view_emit c k : k <> [] ->
  map sl_view (sl_emit c k) = LongNames.emit (LongNames.pair_comp (c_flags c, c_data c)) (map sl_view k).
Proof. destruct k as [|s rs]; [contradiction|reflexivity]. Qed.

Theorem view_group ts : Forall tok_wf ts -> map sl_view (sl_group ts) = LongNames.group ts.
Proof.
  induction 1 as [|t r Ht Hr IH]; [reflexivity|]. cbn [sl_group].
  destruct t as [|k|b s]; cbn [comp_of_tok LongNames.group].
  - cbn [map]. rewrite IH. reflexivity.
  - rewrite view_emit by apply sl_group_nonnil. rewrite IH. destruct k; [reflexivity..|destruct Ht].
  - rewrite view_emit by apply sl_group_nonnil. rewrite IH.
    change (if b then comp_set_continued (sl_factory s) else sl_factory s) with (mk_fcomp b s).
    rewrite view_fcomp. reflexivity.
Qed.

Lemma wf_pre (b : bool) ts : Forall tok_wf ((if b then [LongNames.TBrk] else []) ++ ts) <-> Forall tok_wf ts.
Proof. destruct b; cbn [app]; [|reflexivity]. split; [intros H; inversion H; assumption|constructor; [exact I|assumption]]. Qed.
Lemma cut_wf fuel : forall r2 area rest ts a, LongNames.cut_name fuel r2 area rest = (ts, a) -> Forall tok_wf ts.
Proof.
  induction fuel as [|f IH]; intros r2 area rest ts a H; [inversion H; constructor|].
  rewrite LongNamesProofs.cut_name_S in H. cbv zeta in H.
  destruct (LongNames.len rest <=? _) in H.
  - inversion H; subst. apply wf_pre. repeat constructor.
  - destruct (LongNames.cut_name f _ _ _) as [ts' a'] eqn:R. inversion H; subst. apply wf_pre.
    constructor; [exact I|eapply IH; exact R].
Qed.
Lemma tokens_wf r2 cs : forall area, Forall tok_wf (LongNames.sl_tokens r2 area cs).
Proof.
  induction cs as [|c cs IH]; intros area; [constructor|]. cbn [LongNames.sl_tokens].
  destruct (LongNames.one_comp r2 area c) as [ts a] eqn:O. apply Forall_app. split; [|apply IH].
  destruct c; cbn [LongNames.one_comp] in O; try (inversion O; subst; apply wf_pre; repeat constructor).
  eapply cut_wf; exact O.
Qed.

(* ---- the room tracker ---- *)
Fixpoint within (room : Z) (ts : list LongNames.tok) : Prop :=
  match ts with
  | [] => 0 <= room
  | LongNames.TBrk :: r => 0 <= room /\ within 250 r
  | t :: r => within (room - tok_len t) r
  end.
Definition cont (a : Z) (tail : list LongNames.tok) : Prop :=
  forall room, a <= room -> 0 <= room -> within room tail.
Lemma within_pre (b : bool) room ts : 0 <= room ->
  within (if b then 250 else room) ts -> within room ((if b then [LongNames.TBrk] else []) ++ ts).
Proof. destruct b; cbn [app within]; auto. Qed.

Lemma cut_within fuel : forall area rest ts a tail room,
  LongNames.cut_name fuel 250 area rest = (ts, a) -> (length rest < fuel)%nat ->
  area <= room -> 0 <= room -> cont a tail -> within room (ts ++ tail).
Proof.
  induction fuel as [|f IH]; intros area rest ts a tail room H Hf Ha Hr Hc; [lia|].
  rewrite LongNamesProofs.cut_name_S in H. cbv zeta in H.
  set (brk := area <? 3) in *. set (area1 := if brk then 250 else area) in *.
  set (room1 := if brk then 250 else room).
  assert (H1 : 3 <= area1 <= room1 /\ 0 <= room1) by (unfold area1, room1, brk; destruct (area <? 3) eqn:E; lia).
  rewrite comp_len_bridge in H. pose proof (sl_comp_length_ge rest) as Hcl.
  pose proof (LongNamesProofs.comp_len_ge rest) as [Hge _]. rewrite comp_len_bridge in Hge.
  set (lz := if area1 <? sl_comp_length rest then area1 - 2 else sl_comp_length rest) in *.
  pose proof (sl_comp_length_ge (firstn (Z.to_nat lz) rest)) as Hsl.
  assert (Hfl : zlen (firstn (Z.to_nat lz) rest) <= lz).
  { unfold zlen. rewrite firstn_length. unfold lz. destruct (area1 <? sl_comp_length rest); lia. }
  destruct (LongNames.len rest <=? lz) eqn:D.
  - inversion H; subst ts a; clear H. rewrite <- app_assoc. apply within_pre; [exact Hr|].
    fold room1. cbn [app within tok_len]. apply Hc; [|].
    + assert (E : firstn (Z.to_nat lz) rest = rest) by (apply firstn_all2; unfold LongNames.len in D; lia).
      rewrite E in *. unfold lz in *. destruct (area1 <? sl_comp_length rest) eqn:E2; lia.
    + unfold lz in *. destruct (area1 <? sl_comp_length rest) eqn:E2; [lia|].
      rewrite firstn_all2 by (unfold LongNames.len in D; lia). lia.
  - destruct (LongNames.cut_name f 250 _ _) as [ts' a'] eqn:R. inversion H; subst ts a; clear H.
    rewrite <- app_assoc. apply within_pre; [exact Hr|]. fold room1. cbn [app within tok_len].
    assert (Hlz : lz = area1 - 2).
    { unfold lz in *. destruct (area1 <? sl_comp_length rest) eqn:E2; [reflexivity|].
      unfold LongNames.len, zlen in *. lia. }
    eapply IH; [exact R| | | |exact Hc].
    + rewrite skipn_length. unfold LongNames.len in D. lia.
    + lia.
    + lia.
Qed.

Lemma tokens_within cs : forall area room, area <= room -> 0 <= room ->
  within room (LongNames.sl_tokens 250 area cs).
Proof.
  induction cs as [|c cs IH]; intros area room Ha Hr; [exact Hr|]. cbn [LongNames.sl_tokens].
  destruct (LongNames.one_comp 250 area c) as [ts a] eqn:O.
  assert (Hc : cont a (LongNames.sl_tokens 250 a cs)) by (intros room' H1 H2; apply IH; assumption).
  destruct c as [| | |b p]; cbn [LongNames.one_comp] in O;
    try (inversion O; subst ts a; rewrite <- app_assoc; apply within_pre; [exact Hr|];
         cbn [app within tok_len]; apply Hc; destruct (area <? 2) eqn:E; cbn; lia).
  eapply cut_within; [exact O|lia|exact Ha|exact Hr|exact Hc].
Qed.

Lemma current_length_emit c s : sl_current_length (mk_sl (sl_flags s) (c :: sl_comps s))
  = sl_comp_length (comp_name c) + sl_current_length s.
Proof. rewrite !current_length_sum. cbn [sl_comps]. unfold comp_lens. cbn [map sumz]. lia. Qed.

Lemma group_within ts : forall room, within room ts ->
  exists r0 rs, sl_group ts = r0 :: rs /\ sl_current_length r0 <= 5 + room /\
                Forall (fun r => sl_current_length r <= 255) rs.
Proof.
  induction ts as [|t r IH]; intros room H.
  - exists (mk_sl 0 []), []. split; [reflexivity|]. change (sl_current_length (mk_sl 0 [])) with 5.
    cbn [within] in H. split; [lia|constructor].
  - cbn [sl_group]. destruct (comp_of_tok t) as [c|] eqn:E.
    + assert (H' : within (room - tok_len t) r) by (destruct t; [discriminate|exact H|exact H]).
      destruct (IH _ H') as (r0 & rs & -> & H1 & H2). destruct (comp_of_tok_fcomp _ _ E) as [_ Hl].
      eexists _, rs. split; [reflexivity|]. split; [|exact H2]. rewrite current_length_emit. lia.
    + destruct t; try discriminate. destruct H as [H0 H']. destruct (IH _ H') as (r0 & rs & -> & H1 & H2).
      eexists _, _. split; [reflexivity|]. change (sl_current_length (mk_sl 1 [])) with 5.
      split; [lia|]. constructor; [lia|exact H2].
Qed.

(* add_component never raises; the first record fits the room it was opened with *)
Theorem sl_guard r1 cs : 0 <= r1 <= 250 ->
  exists r0 rs, sl_group (LongNames.sl_tokens 250 r1 cs) = r0 :: rs /\ sl_current_length r0 <= 5 + r1 /\
    forallb (fun r => sl_current_length r <=? 255) (r0 :: rs) = true.
Proof.
  intros Hr. destruct (group_within _ _ (tokens_within cs r1 r1 (Z.le_refl _) (proj1 Hr))) as (r0 & rs & E & H1 & H2).
  exists r0, rs. split; [exact E|]. split; [exact H1|]. cbn [forallb]. apply andb_true_iff. split; [lia|].
  apply forallb_forall. intros x Hx. pose proof (proj1 (Forall_forall _ _) H2 x Hx). cbv beta in *. lia.
Qed.

(* the code's bookkeeping (5 per record, Component.length(compslice) per component) *)
Theorem sl_track_lens ts : sl_lens (sl_group ts) = sl_track ts.
Proof.
  unfold sl_track, sl_lens. induction ts as [|t r IH]; [reflexivity|]. cbn [sl_group map sumz].
  destruct (comp_of_tok t) as [c|] eqn:E.
  - destruct (comp_of_tok_fcomp _ _ E) as [_ Hl]. pose proof (sl_group_nonnil r) as Hn.
    destruct (sl_group r) as [|s rs]; [contradiction|]. cbn [sl_emit map sumz] in *.
    rewrite current_length_emit. lia.
  - destruct t; try discriminate. cbn [map sumz tok_len]. change (sl_current_length (mk_sl 1 [])) with 5. lia.
Qed.

(* ---- stage specifications ---- *)
Definition nm_pair (n : nm_rec) : Z * list Z := (nm_flags n, nm_name n).
Lemma nm_pair_of l : map nm_pair (map nm_of l) = l.
Proof. induction l as [|[f p] l IH]; [reflexivity|]. cbn [map]. rewrite IH. reflexivity. Qed.

Lemma nm_split_fits room name : zlen name <= room -> name <> [] ->
  LongNames.nm_split room name = [(0, name)].
Proof.
  intros H Hn. unfold LongNames.nm_split. pose proof (zlen_nonneg name).
  assert (0 < zlen name) by (destruct name; [contradiction|unfold zlen; cbn [length]; lia]).
  replace (0 <? room) with true by lia.
  rewrite firstn_all2, skipn_all2 by (unfold zlen in *; lia).
  destruct (length name); reflexivity.
Qed.

Definition nm_fine (n : nm_rec) : Prop := len_nm (nm_name n) <= 255 /\ (nm_flags n = 0 \/ nm_flags n = 1).

Lemma nm_flag_fst ps : Forall (fun fp => fst fp = 0 \/ fst fp = 1) (LongNames.nm_flag ps).
Proof.
  induction ps as [|p ps IH]; [constructor|]. destruct ps as [|q ps']; [repeat constructor|].
  change (LongNames.nm_flag (p :: q :: ps')) with ((1, p) :: LongNames.nm_flag (q :: ps')).
  constructor; [right; reflexivity|exact IH].
Qed.

Theorem nm_stage_spec hc name s d c s' : nm_stage hc name s = Some ((d, c), s') -> 0 <= fst s ->
  fst s' = fst s + nm_lens d /\ snd s' = snd s + nm_lens c /\ (hc = false -> c = []) /\
  LongNames.nm_join (map nm_pair (d ++ c)) = name /\ Forall nm_fine (d ++ c) /\
  (fst s <= ALLOWED_DR_SIZE -> fst s' <= ALLOWED_DR_SIZE) /\ 0 <= nm_lens d /\ 0 <= nm_lens c /\
  (hc = false -> name <> [] -> d = [mk_nm 0 name]).
Proof.
  destruct s as [cur cel]. unfold nm_stage, ALLOWED_DR_SIZE. cbn [fst snd].
  set (len0 := 254 - cur - 5). intros H Hcur.
  destruct ((len0 <? zlen name) && negb hc) eqn:G; [discriminate|].
  set (len_here := if len0 <? zlen name then Z.max len0 0 else len0) in *.
  assert (Hlh : 0 <= len_here <= 249).
  { unfold len_here. pose proof (zlen_nonneg name). destruct (len0 <? zlen name) eqn:E; lia. }
  set (ps := LongNames.nm_split len_here name) in *.
  set (k := if 0 <? len_here then 1%nat else 0%nat) in *.
  apply some_inv in H. inversion H; subst d c s'; clear H. cbn [fst snd].
  rewrite firstn_skipn, nm_pair_of. fold ps.
  assert (Hfine : Forall nm_fine (map nm_of ps)).
  { destruct (LongNamesProofs.nm_piece_bounds len_here name (proj1 Hlh)) as (fs & rs & E & F1 & F2).
    apply Forall_forall. intros n Hn.
    apply in_map_iff in Hn. destruct Hn as ([f p] & <- & Hin). unfold nm_fine, nm_of. cbn [fst snd nm_name nm_flags].
    split.
    - assert (Hp : In p (fs ++ rs)) by (rewrite <- E; apply in_map_iff; exists (f, p); auto).
      unfold len_nm. change (zlen p) with (LongNames.len p). apply in_app_or in Hp. destruct Hp as [Hp|Hp].
      + pose proof (proj1 (Forall_forall _ _) F1 p Hp). cbv beta in *. lia.
      + pose proof (proj1 (Forall_forall _ _) F2 p Hp). cbv beta in *. lia.
    - exact (proj1 (Forall_forall _ _) (nm_flag_fst _) (f, p) Hin). }
  assert (Hnn : forall l, Forall nm_fine l -> 0 <= nm_lens l).
  { intros l Hl. unfold nm_lens. apply sumz_nonneg. apply Forall_forall. intros x Hx.
    apply in_map_iff in Hx. destruct Hx as (n & <- & _). unfold len_nm. pose proof (zlen_nonneg (nm_name n)). lia. }
  rewrite <- (firstn_skipn k (map nm_of ps)) in Hfine. apply Forall_app in Hfine. destruct Hfine as [Fd Fc].
  assert (Hno : hc = false -> zlen name <= len_here /\ len_here = len0).
  { intros ->. unfold len_here. destruct (len0 <? zlen name) eqn:E; [discriminate|lia]. }
  assert (Hdr : nm_lens (firstn k (map nm_of ps)) <= 5 + len_here /\ (len_here = 0 -> nm_lens (firstn k (map nm_of ps)) = 0)).
  { unfold k, ps, LongNames.nm_split. destruct (0 <? len_here) eqn:E; [|unfold nm_lens; cbn [firstn map sumz]; lia].
    cbn [app]. destruct (LongNames.nm_chunks _ _) as [|q qs]; cbn [LongNames.nm_flag map firstn nm_lens sumz nm_of nm_name snd];
      unfold len_nm, zlen; rewrite firstn_length; lia. }
  repeat split; try reflexivity.
  - intros Hc. destruct (Hno Hc) as [Hl _]. destruct name as [|x nm].
    + unfold ps, LongNames.nm_split. rewrite skipn_nil, firstn_nil. cbn [length LongNames.nm_chunks app].
      unfold k. destruct (0 <? len_here); reflexivity.
    + unfold ps. rewrite nm_split_fits by (first [exact Hl|discriminate]).
      unfold k. replace (0 <? len_here) with true by (unfold zlen in Hl; cbn [length] in Hl; lia). reflexivity.
  - apply LongNamesProofs.nm_roundtrip. lia.
  - rewrite <- (firstn_skipn k (map nm_of ps)). apply Forall_app. split; assumption.
  - intros Hc. unfold len_here, len0 in *. destruct (254 - cur - 5 <? zlen name) eqn:E; lia.
  - apply Hnn. exact Fd.
  - apply Hnn. exact Fc.
  - intros Hc Hne. destruct (Hno Hc) as [Hl _]. unfold ps. rewrite nm_split_fits by assumption.
    unfold k. destruct name as [|x nm]; [contradiction|].
    replace (0 <? len_here) with true by (unfold zlen in Hl; cbn [length] in Hl; lia). reflexivity.
Qed.

Lemma sl_lens_nonneg l : 0 <= sl_lens l.
Proof.
  unfold sl_lens. apply sumz_nonneg. apply Forall_forall. intros x Hx. apply in_map_iff in Hx.
  destruct Hx as (s & <- & _). rewrite current_length_sum.
  pose proof (sumz_nonneg _ (comp_lens_nonneg (sl_comps s))). unfold comp_lens. lia.
Qed.

(* room and side the first RRSLRecord starts with *)
Definition sl_room (cur : Z) : Z := if cur + 8 <? 254 then 254 - cur - 5 else 250.
Lemma sl_room_range cur : 0 <= cur -> 0 <= sl_room cur <= 250.
Proof. unfold sl_room. destruct (cur + 8 <? 254) eqn:E; lia. Qed.

Theorem sl_stage_spec hc t s d c s' : sl_stage hc t s = Some ((d, c), s') -> 0 <= fst s ->
  d ++ c = sl_group (LongNames.sl_tokens 250 (sl_room (fst s)) (LongNames.sl_components t)) /\
  fst s' = fst s + sl_lens d /\ snd s' = snd s + (if hc then sl_lens c else 0) /\
  Forall sl_made (d ++ c) /\ Forall (fun r => sl_current_length r <= 255) (d ++ c) /\
  (fst s <= ALLOWED_DR_SIZE -> fst s' <= ALLOWED_DR_SIZE) /\
  (hc = false -> fst s + len_sl (LongNames.split_slash t) <= ALLOWED_DR_SIZE).
Proof.
  destruct s as [cur cel]. unfold sl_stage, ALLOWED_DR_SIZE. cbn [fst snd]. intros H Hcur.
  destruct ((254 <? cur + len_sl (LongNames.split_slash t)) && negb hc) eqn:G; [discriminate|].
  change (len_sl [[97]]) with 8 in H. fold (sl_room cur) in H.
  pose proof (sl_room_range cur Hcur) as Hr.
  destruct (sl_guard (sl_room cur) (LongNames.sl_components t) Hr) as (r0 & rs & E & H1 & H2).
  rewrite E in H. rewrite H2 in H. cbn [negb] in H. apply some_inv in H. inversion H; subst d c s'; clear H.
  cbn [fst snd]. rewrite firstn_skipn. rewrite <- E.
  repeat split.
  - destruct hc; lia.
  - apply sl_group_made.
  - rewrite E. apply Forall_forall. intros x Hx. pose proof (proj1 (forallb_forall _ _) H2 x Hx). cbv beta in *. lia.
  - intros Hle. rewrite E. unfold sl_room in H1. destruct (cur + 8 <? 254) eqn:E8; cbn [firstn sl_lens map sumz]; lia.
  - intros ->. cbn [negb] in G. lia.
Qed.

Theorem sl_stage_some hc t s : 0 <= fst s ->
  hc = true \/ fst s + len_sl (LongNames.split_slash t) <= ALLOWED_DR_SIZE ->
  exists res, sl_stage hc t s = Some res.
Proof.
  destruct s as [cur cel]. unfold sl_stage, ALLOWED_DR_SIZE. cbn [fst snd]. intros Hcur Hc.
  replace ((254 <? cur + len_sl (LongNames.split_slash t)) && negb hc) with false
    by (destruct Hc as [->|Hc]; [rewrite andb_false_r; reflexivity|]; lia).
  change (len_sl [[97]]) with 8. fold (sl_room cur).
  destruct (sl_guard (sl_room cur) (LongNames.sl_components t) (sl_room_range cur Hcur)) as (r0 & rs & E & _ & H2).
  rewrite E, H2. cbn [negb]. eexists. reflexivity.
Qed.

(* without a CE entry _new_symlink accepts exactly when the uncut SL entry fits *)
Corollary sl_stage_no_ce t cur cel : 0 <= cur ->
  (sl_stage false t (cur, cel) <> None <-> cur + len_sl (LongNames.split_slash t) <= ALLOWED_DR_SIZE).
Proof.
  intros Hcur. split.
  - destruct (sl_stage false t (cur, cel)) as [[[d c] s']|] eqn:E; [intros _|congruence].
    apply (sl_stage_spec _ _ _ _ _ _ E Hcur). reflexivity.
  - intros H. destruct (sl_stage_some false t (cur, cel) Hcur (or_intror H)) as (res & ->). discriminate.
Qed.

(* the records read back: the LongNames records for the same rooms *)
Lemma sl_stage_view hc t s d c s' : sl_stage hc t s = Some ((d, c), s') -> 0 <= fst s ->
  map sl_view (d ++ c) = LongNames.sl_records (sl_room (fst s)) 250 (LongNames.sl_components t).
Proof.
  intros H Hs. destruct (sl_stage_spec _ _ _ _ _ _ H Hs) as (E & _). rewrite E.
  unfold LongNames.sl_records. apply view_group. apply tokens_wf.
Qed.

(* bytes: the wire format of Model/LongNames.v applied to the view is what enc_sl writes *)
Lemma view_bytes s : sl_made s -> sl_current_length s <= 255 -> sl_flags s = 0 \/ sl_flags s = 1 ->
  LongNames.sl_record_bytes (sl_view s) = enc_sl s.
Proof.
  intros [Hc _] Hl Hf. unfold LongNames.sl_record_bytes, enc_sl, sl_view. cbn [fst snd].
  assert (B : flat_map LongNames.comp_bytes
                (map (fun c => LongNames.pair_comp (c_flags c, c_data c)) (sl_comps s))
              = concat (map sl_comp_enc (sl_comps s))).
  { induction Hc as [|c cs (b & x & ->) Hcs IH]; [reflexivity|]. cbn [map flat_map concat]. rewrite IH. f_equal.
    rewrite view_fcomp. unfold LongNames.factory, LongNames.is_dot, LongNames.is_dotdot, LongNames.is_slash.
    change (LongNames.zlist_eqb x [46]) with (zlist_eqb x s_dot).
    change (LongNames.zlist_eqb x [46; 46]) with (zlist_eqb x s_dotdot).
    change (LongNames.zlist_eqb x [47]) with (zlist_eqb x s_slash).
    unfold mk_fcomp, sl_factory.
    destruct (zlist_eqb x s_dot); [destruct b; reflexivity|].
    destruct (zlist_eqb x s_dotdot); [destruct b; reflexivity|].
    destruct (zlist_eqb x s_slash); destruct b; reflexivity. }
  rewrite B. rewrite (current_length_sum s), <- (enc_comps_len _ Hc).
  destruct Hf as [-> | ->]; reflexivity.
Qed.

Print Assumptions sl_rec_ok.
Print Assumptions view_group.
Print Assumptions sl_guard.
Print Assumptions sl_track_lens.
Print Assumptions nm_stage_spec.
Print Assumptions sl_stage_spec.
Print Assumptions sl_stage_no_ce.
Print Assumptions view_bytes.
