(* After an accepted modify_file_in_place the in-memory objects (Model.state_after: every linked record carries
   the new length, the inode's length is the new one) and the backing file AGREE again: wf_state holds for
   (state_after st n, the file after the writes).  Hence every theorem of InPlaceProofs.v applies to the next
   call in the same session, and what a later record()/write_fp would record for these objects is what the
   file already contains.
     inplace_wf_preserved
   Closed under the global context (Print Assumptions at the end). *)
From Coq Require Import ZArith List Bool Lia ZifyBool.
From PV.Base Require Import Prim.
From PV.Gen Require Import GenConst GenFun.
From PV.Model Require Import Codec Checksums Udf InPlace.
From PV.Proofs Require Import CodecProofs UdfProofs UdfFeProofs InPlaceImgProofs InPlaceBytesProofs InPlaceStepProofs
                              InPlaceProofs InPlaceDecodeProofs.
Import ListNotations.
Local Open Scope Z_scope.
Ltac Zify.zify_post_hook ::= Z.to_euclidean_division_equations.

(* ---- list plumbing ---- *)
Lemma ip_pairwise_app_l {A} (f : A -> A -> bool) l1 l2 : pairwise f (l1 ++ l2) = true -> pairwise f l1 = true.
Proof.
  induction l1 as [|a r IH]; intros H; [reflexivity|].
  cbn [app pairwise] in H |- *. apply andb_prop in H. destruct H as [Ha Hr].
  rewrite (IH Hr), andb_true_r. rewrite forallb_app in Ha. apply andb_prop in Ha. tauto.
Qed.

Lemma ip_pairwise_map {A B} (f : A -> A -> bool) (g : B -> B -> bool) (h : A -> B) l :
  pairwise f l = true ->
  (forall x y, In x l -> In y l -> f x y = true -> g (h x) (h y) = true) ->
  pairwise g (map h l) = true.
Proof.
  induction l as [|a r IH]; intros H Hfg; [reflexivity|].
  cbn [pairwise map] in H |- *. apply andb_prop in H. destruct H as [Ha Hr].
  apply andb_true_intro. split.
  - apply forallb_forall. intros y' Hy'. apply in_map_iff in Hy'. destruct Hy' as (y & <- & Hy).
    apply Hfg; [left; reflexivity|right; exact Hy|]. apply (proj1 (forallb_forall _ _) Ha y Hy).
  - apply IH; [exact Hr|]. intros x y Hx Hy. apply Hfg; right; assumption.
Qed.

(* ---- the unchanged parts of the state ---- *)
Lemma ip_after_vds st n :
  match st_enhanced st with Some v => vd_space v =? vd_space (st_pvd st) | None => true end = true ->
  vds (state_after st n) = vds st.
Proof.
  intros H. unfold vds, state_after. cbv zeta. cbn [st_pvd st_joliet st_enhanced]. rewrite ip_vd_resize_same.
  f_equal. f_equal. destruct (st_enhanced st) as [v|]; [|reflexivity]. cbn [option_map opt_list]. f_equal.
  apply Z.eqb_eq in H. destruct v as [e p s mi po]. unfold vd_with_space. cbn in *. subst s. reflexivity.
Qed.

Lemma ip_after_fixed st n ext : st_child st = ChFile ext -> st_lbs st = 2048 ->
  match st_enhanced st with Some v => vd_space v =? vd_space (st_pvd st) | None => true end = true ->
  ceiling_div (st_ino_len st) 2048 = ceiling_div n 2048 ->
  fixed_ivals (state_after st n) = fixed_ivals st.
Proof.
  intros Hc Hl He Hceil. unfold fixed_ivals. rewrite (ip_after_vds st n He). f_equal. f_equal.
  unfold data_ival, state_after. cbv zeta. cbn [st_child st_lbs st_ino_len]. rewrite Hc, Hl, Hceil. reflexivity.
Qed.

(* ---- one linked record afterwards ---- *)
Lemma ip_relen_short_ok ds ds' : Forall2 ad_relen ds ds' -> forallb short_ok ds' = true.
Proof.
  induction 1 as [|d d' r r' Hd Hr IH]; [reflexivity|]. cbn [forallb]. rewrite IH, andb_true_r.
  inversion Hd as [a l Hl Ht]; subst. cbn [short_ok sa_type sa_length]. lia.
Qed.

Lemma ip_fe_ok_with_len e n ds' bl : fe_ok e bl = true -> forallb short_ok ds' = true ->
  fe_ok (fe_with_len e n ds') bl = true.
Proof.
  unfold fe_ok. cbn [fe_with_len fe_icb fe_atime fe_mtime fe_attrtime fe_impl_ident fe_ea_icb fe_len_ea fe_ea fe_ads fe_tag].
  intros H Hs. rewrite Hs.
  repeat (apply andb_prop in H; let H2 := fresh "R" in destruct H as [H H2]).
  repeat (apply andb_true_intro; split); first [assumption|reflexivity].
Qed.

Lemma ip_lrec_after_ok m m' ext old n l b' : lrec_ok m 2048 ext old l = true ->
  0 <= old <= MAX_INODE_LEN -> 0 <= n -> ceiling_div old 2048 = ceiling_div n 2048 ->
  relink_one 2048 n l = StWrite (lrec_pos 2048 l, b') -> on_disk m' (lrec_pos 2048 l) b' = true ->
  lrec_ok m' 2048 ext n (lrec_after n l) = true /\ lrec_ival 2048 (lrec_after n l) = lrec_ival 2048 l /\
  lrec_bytes (lrec_after n l) = Some b'.
Proof.
  intros Hok Hold Hn Hc S Hdisk.
  destruct (ip_lrec_step m ext old n l Hok Hold Hn Hc) as [[_ S']|(b & b2 & B & S' & Hse & _ & _ & Hiv)];
    [rewrite S' in S; discriminate|].
  rewrite S' in S. injection S as ->. pose proof (ip_same_len b b' _ Hse) as Hlen. unfold MAX_INODE_LEN in *.
  destruct l as [j [pe|] eth oth dl lf r|x e| |]; cbn [lrec_ok] in Hok; try discriminate.
  - cbn [lrec_bytes] in B. rewrite B in Hok. cbn [relink_one] in S'.
    destruct (enc_dr_raw dl lf (dr_set_len r n)) as [b2|] eqn:E2; [|discriminate]. injection S' as <-.
    repeat (apply andb_prop in Hok; let H2 := fresh "R" in destruct Hok as [Hok H2]).
    cbn [lrec_after]. split; [|split].
    + cbn [lrec_ok]. rewrite E2. cbn [lrec_pos] in Hdisk |- *. rewrite Hdisk.
      change (dr_len_of (dr_set_len r n)) with (dr_len_of r).
      change (ident (dr_set_len r n)) with (ident r). change (date (dr_set_len r n)) with (date r).
      change (xattr_len (dr_set_len r n)) with (xattr_len r). change (extent (dr_set_len r n)) with (extent r).
      change (data_len (dr_set_len r n)) with n. rewrite R1, R0, Z.eqb_refl.
      replace (zlen b2 =? dl) with true by lia. rewrite R9, R8, R7, R6, R5, R4, R2. reflexivity.
    + unfold lrec_ival. cbn [lrec_bytes lrec_pos]. rewrite E2, B, Hlen. reflexivity.
    + cbn [lrec_bytes]. exact E2.
  - cbn [lrec_bytes] in B. rewrite B in Hok.
    repeat (apply andb_prop in Hok; let H2 := fresh "R" in destruct Hok as [Hok H2]).
    destruct (ip_fe_ok_inv _ _ R0) as (_ & Hshort & _ & _).
    pose proof R1 as R1'. apply ip_zlist_eqb_eq in R1'.
    destruct (ip_fe_set_len_wf e old n ltac:(lia) R1' Hshort ltac:(unfold UDF_MAX_AD in *; lia) Hn Hc)
      as (ds' & Eset & HF & Hlens & Hmax).
    cbn [relink_one] in S'. rewrite Eset in S'.
    destruct (fe_record (fe_with_len e n ds')) as [b2|] eqn:E2; [|discriminate]. injection S' as <-.
    cbn [lrec_after]. rewrite Eset. split; [|split].
    + cbn [lrec_ok]. rewrite E2. cbn [lrec_pos] in Hdisk |- *. rewrite Hdisk.
      cbn [fe_with_len fe_info_len fe_ads]. rewrite Hlens, ip_zlist_eqb_refl, Z.eqb_refl.
      rewrite Hlen. rewrite (ip_fe_ok_with_len e n ds' (zlen b) R0 (ip_relen_short_ok _ _ HF)).
      replace (0 <=? x) with true by lia. replace (zlen b <=? 2048) with true by lia.
      replace (n <=? UDF_MAX_AD) with true by lia. reflexivity.
    + unfold lrec_ival. cbn [lrec_bytes lrec_pos]. rewrite E2, B, Hlen. reflexivity.
    + cbn [lrec_bytes]. exact E2.
Qed.

(* two compatible records stay compatible *)
Lemma ip_compat_after m m' ext old n l1 l2 b1' b2' :
  lrec_ok m 2048 ext old l1 = true -> lrec_ok m 2048 ext old l2 = true ->
  0 <= old <= MAX_INODE_LEN -> 0 <= n -> ceiling_div old 2048 = ceiling_div n 2048 ->
  relink_one 2048 n l1 = StWrite (lrec_pos 2048 l1, b1') -> on_disk m' (lrec_pos 2048 l1) b1' = true ->
  relink_one 2048 n l2 = StWrite (lrec_pos 2048 l2, b2') -> on_disk m' (lrec_pos 2048 l2) b2' = true ->
  lrec_compat 2048 l1 l2 = true -> lrec_compat 2048 (lrec_after n l1) (lrec_after n l2) = true.
Proof.
  intros Ok1 Ok2 Hold Hn Hc S1 D1 S2 D2 Hcompat.
  destruct (ip_lrec_after_ok m m' ext old n l1 b1' Ok1 Hold Hn Hc S1 D1) as (_ & I1 & B1).
  destruct (ip_lrec_after_ok m m' ext old n l2 b2' Ok2 Hold Hn Hc S2 D2) as (_ & I2 & B2).
  unfold lrec_compat in Hcompat |- *. rewrite I1, I2.
  apply orb_prop in Hcompat. destruct Hcompat as [Hd|Hs]; [rewrite Hd; reflexivity|].
  apply orb_true_intro. right.
  destruct (ip_compat_writes m ext old n l1 l2 _ _ Ok1 Ok2 Hold Hn Hc
              ltac:(unfold lrec_compat; rewrite Hs; apply orb_true_r) S1 S2) as [Hw|Hw].
  - (* the same File Entry: the writes are identical anyway *)
    destruct l1 as [| x1 e1 | |]; try discriminate. destruct l2 as [| x2 e2 | |]; try discriminate.
    assert (Hsame : LFe x2 e2 = LFe x1 e1).
    { destruct (fe_record e1) as [c1|] eqn:C1; [|rewrite andb_false_r in Hs; discriminate].
      destruct (fe_record e2) as [c2|] eqn:C2; [|rewrite andb_false_r in Hs; discriminate].
      repeat (apply andb_prop in Hs; let H2 := fresh "R" in destruct Hs as [Hs H2]).
      apply ip_zlist_eqb_eq in R. subst c2. apply Z.eqb_eq in Hs. subst x2.
      cbn [lrec_ok] in Ok1, Ok2. rewrite C1 in Ok1. rewrite C2 in Ok2.
      repeat (apply andb_prop in Ok1; let H2 := fresh "P" in destruct Ok1 as [Ok1 H2]).
      repeat (apply andb_prop in Ok2; let H2 := fresh "Q" in destruct Ok2 as [Ok2 H2]).
      destruct (ip_fe_ok_inv _ _ P0) as (W1 & _ & C1' & _). destruct (ip_fe_ok_inv _ _ Q0) as (W2 & _ & C2' & _).
      pose proof (fe_roundtrip_exact e1 c1 [] 0 W1 C1 C1') as F1.
      pose proof (fe_roundtrip_exact e2 c1 [] 0 W2 C2 C2') as F2.
      assert (e2 = e1) by (replace (tg_location (fe_tag e2)) with (tg_location (fe_tag e1)) in F2 by lia; congruence).
      subst e2. reflexivity. }
    rewrite Hsame in *. rewrite B1 in B2. injection B2 as <-.
    destruct (lrec_after n (LFe x1 e1)) as [| y e' | |] eqn:Ea; cbn [lrec_bytes] in B1;
      try (cbn [lrec_after] in Ea; destruct (fe_set_len e1 n); discriminate).
    rewrite !Z.eqb_refl, B1, ip_zlist_eqb_refl. reflexivity.
  - destruct l1 as [| x1 e1 | |]; try discriminate. destruct l2 as [| x2 e2 | |]; try discriminate.
    injection Hw as Hp Hb. subst b2'.
    cbn [lrec_after] in *.
    destruct (fe_set_len e1 n) as [e1'|] eqn:E1; [|cbn [relink_one] in S1; rewrite E1 in S1; discriminate].
    destruct (fe_set_len e2 n) as [e2'|] eqn:E2; [|cbn [relink_one] in S2; rewrite E2 in S2; discriminate].
    cbn [lrec_bytes] in B1, B2. rewrite B1, B2, ip_zlist_eqb_refl.
    repeat (apply andb_prop in Hs; let H2 := fresh "R" in destruct Hs as [Hs H2]).
    rewrite Hs. unfold fe_set_len in E1, E2.
    destruct (fe_set_data_length (fe_info_len e1) (fe_ads e1) n) as [[i1 d1]|]; [|discriminate].
    destruct (fe_set_data_length (fe_info_len e2) (fe_ads e2) n) as [[i2 d2]|]; [|discriminate].
    injection E1 as <-. injection E2 as <-. cbn [fe_with_len fe_tag]. rewrite R0. reflexivity.
Qed.

(* ---- volume descriptors afterwards ---- *)
Lemma ip_vd_record_date v now b i : length (vd_pre v) = 80%nat -> length (vd_mid v) = 742%nat ->
  vd_record v now = Some b -> (i < length now)%nat -> nth (830 + i) b 0 = nth i now 0.
Proof.
  intros Hp Hm Hb Hi. unfold vd_record in Hb. destruct (u32_ok (vd_space v)); [|discriminate].
  injection Hb as <-.
  rewrite app_nth2 by (rewrite Hp; lia). rewrite Hp.
  replace (830 + i - 80)%nat with (8 + (742 + i))%nat by lia. cbn [Nat.add nth].
  rewrite app_nth2 by (rewrite Hm; lia). rewrite Hm.
  rewrite app_nth1 by lia. f_equal. lia.
Qed.

Lemma ip_vd_writes_miss now v0 a : in_range (vd_extent v0 * 2048) 2048 a = true ->
  forall r wr ok, vd_writes 2048 now r = (wr, ok) ->
  forallb (disjointb (vd_ival 2048 v0)) (map (vd_ival 2048) r) = true ->
  (forall v', In v' r -> forall b', vd_record v' now = Some b' -> zlen b' = 2048) ->
  forall w, In w wr -> in_range (fst w) (zlen (snd w)) a = false.
Proof.
  intros Ha. induction r as [|v1 r' IHr]; intros wr ok Er Hd Hlen w Hw.
  - cbn in Er. injection Er as <- _. destruct Hw.
  - cbn [vd_writes] in Er. destruct (vd_record v1 now) as [b1|] eqn:E1; [|injection Er as <- _; destruct Hw].
    destruct (vd_writes 2048 now r') as [wr' ok'] eqn:Er'. injection Er as <- _.
    cbn [map forallb] in Hd. apply andb_prop in Hd. destruct Hd as [Hd1 Hd'].
    destruct Hw as [<-|Hw].
    + cbn [fst snd]. rewrite (Hlen v1 (or_introl eq_refl) b1 E1).
      unfold disjointb, vd_ival, in_range in *. cbn [fst snd] in *. lia.
    + apply (IHr wr' ok' eq_refl Hd'); [|exact Hw]. intros v' Hv'. apply Hlen. right. exact Hv'.
Qed.

Lemma ip_vd_readback now vs : forall m wv v b a,
  pairwise disjointb (map (vd_ival 2048) vs) = true ->
  (forall v', In v' vs -> forall b', vd_record v' now = Some b' -> zlen b' = 2048) ->
  vd_writes 2048 now vs = (wv, true) -> In v vs -> vd_record v now = Some b ->
  in_range (vd_extent v * 2048) 2048 a = true ->
  apply_writes wv m a = nth (Z.to_nat (a - vd_extent v * 2048)) b 0.
Proof.
  induction vs as [|v0 r IH]; intros m wv v b a Hpw Hlen Ew Hin Hrec Ha; [destruct Hin|].
  cbn [vd_writes] in Ew. destruct (vd_record v0 now) as [b0|] eqn:E0; [|discriminate].
  destruct (vd_writes 2048 now r) as [wr okr] eqn:Er. injection Ew as <- ->.
  cbn [map pairwise] in Hpw. apply andb_prop in Hpw. destruct Hpw as [Hd Hpr].
  rewrite ip_apply_writes_cons.
  destruct (in_range (vd_extent v0 * 2048) 2048 a) eqn:Ea0.
  - (* a lies in the first sector written: the later writes miss it *)
    rewrite (ip_stable_outside wr _ a
               (ip_vd_writes_miss now v0 a Ea0 r wr true Er Hd (fun v' Hv' => Hlen v' (or_intror Hv')))).
    destruct Hin as [->|Hin].
    + rewrite E0 in Hrec. injection Hrec as <-. apply ip_apply_write_in. cbn [fst snd].
      rewrite (Hlen v (or_introl eq_refl) b0 E0). exact Ea0.
    + (* v in the tail with the same sector as v0: impossible, the intervals are disjoint and non-empty *)
      pose proof (proj1 (forallb_forall _ _) Hd (vd_ival 2048 v) (in_map _ _ _ Hin)) as Hdis.
      unfold disjointb, vd_ival, in_range in *. cbn [fst snd] in *. lia.
  - destruct Hin as [->|Hin]; [rewrite Ea0 in Ha; discriminate|].
    rewrite (IH (apply_write m (vd_extent v0 * 2048, b0)) wr v b a Hpr
                (fun v' Hv' => Hlen v' (or_intror Hv')) eq_refl Hin Hrec Ha).
    reflexivity.
Qed.

(* ---- the theorem ---- *)
Theorem inplace_wf_preserved st m d now ws ext : wf_state st m = true -> length now = 17%nat ->
  st_child st = ChFile ext -> modify st d now = Done ws ->
  wf_state (state_after st (zlen d)) (apply_writes ws m) = true.
Proof.
  intros Hwf Hn Hc Hd.
  destruct (ip_wf_inv st m ext Hwf Hc) as (Hlbs & Hext & Hold & Hvd & Henh & Hlr & Hfix & Hdis & Hpw).
  pose proof (ip_done_ceil st m d now ws ext Hwf Hc Hd) as Hceil.
  pose proof (ip_ceil_bound _ _ Hold Hceil) as Hnb. pose proof (zlen_nonneg d) as Hn0.
  set (n := zlen d) in *. set (m' := apply_writes ws m).
  (* every linked record: what it becomes and that the file holds it *)
  assert (Hrec : forall l, In l (st_linked st) ->
            l = LEt \/ exists b', relink_one 2048 n l = StWrite (lrec_pos 2048 l, b') /\ on_disk m' (lrec_pos 2048 l) b' = true).
  { intros l Hl. pose proof (proj1 (forallb_forall _ _) Hlr l Hl) as Hok.
    destruct (ip_lrec_step m ext _ n l Hok Hold Hn0 Hceil) as [[E _]|(b & b' & _ & S & _)]; [left; exact E|].
    right. exists b'. split; [exact S|]. unfold on_disk, m'.
    rewrite (inplace_content_record st m d now ws ext l b' Hwf Hn Hc Hd Hl S). apply ip_zlist_eqb_refl. }
  unfold wf_state. change (st_child (state_after st n)) with (st_child st). rewrite Hc.
  change (st_lbs (state_after st n)) with (st_lbs st). change (st_ino_len (state_after st n)) with n.
  change (st_linked (state_after st n)) with (map (lrec_after n) (st_linked st)).
  rewrite (ip_after_vds st n Henh), (ip_after_fixed st n ext Hc Hlbs Henh Hceil), Hlbs, Hfix.
  replace (2048 =? 2048) with true by reflexivity. replace (0 <=? ext) with true by lia.
  replace (0 <=? n) with true by lia. replace (n <=? MAX_INODE_LEN) with true by lia. cbn [andb].
  assert (Henh' : match st_enhanced (state_after st n) with
                  | Some v => vd_space v =? vd_space (st_pvd (state_after st n)) | None => true end = true).
  { unfold state_after. cbv zeta. cbn [st_enhanced st_pvd]. rewrite ip_vd_resize_same.
    destruct (st_enhanced st) as [v|]; [|reflexivity]. cbn [option_map]. destruct v; cbn. apply Z.eqb_refl. }
  rewrite Henh'.
  (* volume descriptors *)
  assert (Hvd' : forallb (vd_ok m' 2048) (vds st) = true).
  { apply forallb_forall. intros v Hv.
    pose proof (proj1 (forallb_forall _ _) Hvd v Hv) as Hok.
    destruct (ip_vd_ok_inv _ _ _ Hok) as (He & Hp & Hmi & Hq & Hs & _).
    destruct (ip_acc_shape st m d now ext ws Hwf Hn Hc Hd) as (wv & Ew & Ews).
    destruct (ip_vd_record_some m 2048 v now Hok) as [b Hb].
    pose proof (ip_vd_record_length v now b Hp Hmi Hn Hq Hb) as Hbl.
    assert (Hval : forall a, in_range (vd_extent v * 2048) 2048 a = true ->
                     m' a = nth (Z.to_nat (a - vd_extent v * 2048)) b 0).
    { intros a Ha. unfold m'. rewrite Ews, !ip_apply_writes_app.
      assert (Hnd : in_ival a (data_ival st) = false).
      { assert (Hdj : disjointb (vd_ival 2048 v) (data_ival st) = true).
        { apply (ip_pairwise_app disjointb _ _ Hfix); [rewrite Hlbs; apply in_map; exact Hv|left; reflexivity]. }
        unfold disjointb, vd_ival, in_ival, in_range in *. cbn [fst snd] in *. lia. }
      rewrite ip_stable_outside.
      - unfold n. rewrite ip_data_writes_den.
        rewrite (ip_data_den_outside st m d now ext ws Hwf Hn Hc Hd _ a Hnd).
        apply (ip_vd_readback now (vds st) m wv v b a); try assumption.
        + unfold fixed_ivals in Hfix. rewrite Hlbs in Hfix. apply (ip_pairwise_app_l _ _ _ Hfix).
        + intros v' Hv' b' Hb'. pose proof (proj1 (forallb_forall _ _) Hvd v' Hv') as Hok'.
          destruct (ip_vd_ok_inv _ _ _ Hok') as (_ & Hp' & Hmi' & Hq' & _ & _).
          apply (ip_vd_record_length v' now b' Hp' Hmi' Hn Hq' Hb').
      - intros w Hw.
        destruct (ip_acc_wl_inv st m d now ext ws Hwf Hc Hd w Hw) as (l & b0 & b0' & Hl & _ & -> & _ & Hse & _ & _ & Hiv & _).
        cbn [fst snd]. rewrite (ip_same_len _ _ _ Hse).
        destruct (in_range (lrec_pos 2048 l) (zlen b0) a) eqn:E; [|reflexivity].
        destruct (ip_acc_record_apart st m d now ext Hwf Hn Hc l b0 a Hl Hiv E) as [_ Hx].
        pose proof (Hx v Hv) as Hy. unfold in_ival, vd_ival, in_range in *. cbn [fst snd] in *. lia. }
    assert (Hdate : read m' (vd_extent v * 2048 + 830) 17 = now).
    { rewrite <- Hn. apply ip_read_eq. intros i Hi. rewrite Hval by (unfold in_range; lia).
      replace (Z.to_nat (vd_extent v * 2048 + 830 + Z.of_nat i - vd_extent v * 2048)) with (830 + i)%nat by lia.
      apply (ip_vd_record_date v now b i Hp Hmi Hb). lia. }
    unfold vd_ok. rewrite Hp, Hmi, Hq, Hs, Hdate. replace (0 <=? vd_extent v) with true by lia.
    cbn [Nat.eqb andb].
    pose proof Hb as Hb'. unfold vd_record in Hb'. rewrite Hs in Hb'. apply some_inv in Hb'. rewrite Hb'.
    unfold on_disk. rewrite (ip_read_eq m' _ b); [apply ip_zlist_eqb_refl|].
    intros i Hi. rewrite Hval by (unfold in_range, zlen in *; lia). f_equal. lia. }
  rewrite Hvd'. cbn [andb].
  (* linked records *)
  assert (Hlr' : forallb (lrec_ok m' 2048 ext n) (map (lrec_after n) (st_linked st)) = true).
  { apply forallb_forall. intros l' Hl'. apply in_map_iff in Hl'. destruct Hl' as (l & <- & Hl).
    pose proof (proj1 (forallb_forall _ _) Hlr l Hl) as Hok.
    destruct (Hrec l Hl) as [->|(b' & S & Hdisk)]; [reflexivity|].
    apply (ip_lrec_after_ok m m' ext _ n l b' Hok Hold Hn0 Hceil S Hdisk). }
  rewrite Hlr'. cbn [andb].
  assert (Hdis' : forallb (fun l => ivals_disjoint (lrec_ival 2048 l) (fixed_ivals st)) (map (lrec_after n) (st_linked st)) = true).
  { apply forallb_forall. intros l' Hl'. apply in_map_iff in Hl'. destruct Hl' as (l & <- & Hl).
    pose proof (proj1 (forallb_forall _ _) Hlr l Hl) as Hok.
    destruct (Hrec l Hl) as [->|(b' & S & Hdisk)]; [reflexivity|].
    destruct (ip_lrec_after_ok m m' ext _ n l b' Hok Hold Hn0 Hceil S Hdisk) as (_ & -> & _).
    apply (proj1 (forallb_forall _ _) Hdis l Hl). }
  rewrite Hdis'. cbn [andb].
  apply (ip_pairwise_map (lrec_compat 2048) (lrec_compat 2048) (lrec_after n) _ Hpw).
  intros l1 l2 H1 H2 Hcompat.
  pose proof (proj1 (forallb_forall _ _) Hlr l1 H1) as Ok1. pose proof (proj1 (forallb_forall _ _) Hlr l2 H2) as Ok2.
  destruct (Hrec l1 H1) as [->|(b1' & S1 & D1)].
  - unfold lrec_compat. cbn [lrec_after lrec_ival lrec_bytes ivals_disjoint forallb]. reflexivity.
  - destruct (Hrec l2 H2) as [->|(b2' & S2 & D2)].
    + unfold lrec_compat. cbn [lrec_after]. unfold lrec_ival at 2. cbn [lrec_bytes].
      unfold ivals_disjoint. apply orb_true_intro. left. apply forallb_forall. intros a _. reflexivity.
    + apply (ip_compat_after m m' ext _ n l1 l2 b1' b2' Ok1 Ok2 Hold Hn0 Hceil S1 D1 S2 D2 Hcompat).
Qed.

Print Assumptions inplace_wf_preserved.
