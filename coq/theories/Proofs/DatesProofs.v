From Coq Require Import ZArith List Bool Lia ZifyBool.
From PV.Base Require Import Prim Sweep.
From PV.Gen Require Import GenFun.
From PV.Model Require Import Dates.
Import ListNotations.
Local Open Scope Z_scope.
Ltac Zify.zify_post_hook ::= Z.to_euclidean_division_equations.

(* ---------------------------------------------------------------- the calendar, by a finite sweep *)
Definition day_ok (d : Z) : bool :=
  let '(y, m, dd) := civil_from_days d in
  let '(y2, m2, dd2) := civil_from_days (d + 1) in
  let yd := d - days_from_civil y 1 1 in
  let yd2 := d + 1 - days_from_civil y2 1 1 in
  (days_from_civil y m dd =? d) && (1 <=? m) && (m <=? 12) && (1 <=? dd) && (dd <=? 31) &&
  (1969 <=? y) && (y <=? 2100) && (0 <=? yd) && (yd <=? 365) &&
  (((y2 =? y) && (yd2 =? yd + 1)) || (y2 =? y + 1)).

(* days -2 .. 47484 : 1969-12-30 .. 2100-01-02 *)
Lemma days_swept : sweep day_ok (-2) 47487 = true.
Proof. vm_compute. reflexivity. Qed.

Lemma day_facts d : -2 <= d < 47485 ->
  let '(y, m, dd) := civil_from_days d in
  let '(y2, m2, dd2) := civil_from_days (d + 1) in
  days_from_civil y m dd = d /\ 1 <= m <= 12 /\ 1 <= dd <= 31 /\ 1969 <= y <= 2100 /\
  0 <= d - days_from_civil y 1 1 <= 365 /\
  ((y2 = y /\ d + 1 - days_from_civil y2 1 1 = d - days_from_civil y 1 1 + 1) \/ y2 = y + 1).
Proof.
  intros Hd. pose proof (sweep_sound day_ok (-2) 47487 days_swept d ltac:(lia)) as H.
  unfold day_ok in H.
  destruct (civil_from_days d) as [[y m] dd]. destruct (civil_from_days (d + 1)) as [[y2 m2] dd2].
  repeat (apply andb_prop in H; destruct H as [H ?]).
  match goal with H0 : (_ || _) = true |- _ => apply orb_prop in H0; destruct H0 as [H0|H0] end.
  - apply andb_prop in H0. destruct H0 as [Ha Hb]. repeat split; lia.
  - repeat split; try lia.
Qed.

(* ---------------------------------------------------------------- seconds-of-day arithmetic *)
Lemma minute_of_day s : 0 <= s < 86400 -> 60 * (s / 3600) + (s mod 3600) / 60 = s / 60.
Proof. intros; lia. Qed.

(* The heart of C19: the translated gmtoffset_from_tm returns the zone offset in 15-minute units. *)
Theorem gmtoffset_correct t q :
  0 <= t < t_max -> -48 <= q <= 56 -> gmtoffset (900 * q) t = q.
Proof.
  intros Ht Hq. unfold t_max in Ht. unfold gmtoffset, localtime, gmtime.
  set (d := t / 86400). set (s := t mod 86400).
  set (d' := (t + 900 * q) / 86400). set (s' := (t + 900 * q) mod 86400).
  assert (Hd : 0 <= d <= 47482) by (subst d; lia).
  assert (Hs : 0 <= s < 86400) by (subst s; lia).
  assert (Hs' : 0 <= s' < 86400) by (subst s'; lia).
  assert (Hrel : s' - s = 900 * q - 86400 * (d' - d)) by (subst d s d' s'; lia).
  assert (Hdelta : d' = d - 1 \/ d' = d \/ d' = d + 1) by lia.
  pose proof (minute_of_day s Hs) as Hm. pose proof (minute_of_day s' Hs') as Hm'.
  assert (Hmin : s' / 60 - s / 60 = 15 * q - 1440 * (d' - d)) by lia.
  pose proof (day_facts d ltac:(lia)) as Fd.
  pose proof (day_facts d' ltac:(lia)) as Fd'.
  destruct (civil_from_days d) as [[y m] dd] eqn:Ed.
  destruct (civil_from_days d') as [[y' m'] dd'] eqn:Ed'.
  cbn [tm_min tm_hour tm_yday tm_year].
  unfold gmtoffset_from_tm.
  set (A := (s' mod 3600) / 60 - (s mod 3600) / 60) in *.
  set (B := s' / 3600 - s / 3600) in *.
  assert (HAB : A + 60 * B = 15 * q - 1440 * (d' - d)) by (subst A B; lia).
  destruct Hdelta as [Hx|[Hx|Hx]].
  - (* local day is the previous UTC day: day_facts at d' relates d' and d'+1 = d *)
    replace (d' + 1) with d in Fd' by lia. rewrite Ed in Fd'.
    destruct Fd' as (F1 & F2 & F3 & F4 & F5 & F6).
    destruct F6 as [[Fy Fyd]|Fy].
    + subst y. replace (y' - y' =? 0) with true by lia. cbn [negb].
      replace (d' - days_from_civil y' 1 1 + 1 - (d - days_from_civil y' 1 1 + 1)) with (-1) by lia. lia.
    + replace (y' - y =? 0) with false by lia. cbn [negb]. lia.
  - (* same day *)
    rewrite Hx in Ed'. rewrite Ed in Ed'. inversion Ed'; subst y' m' dd'.
    replace (y - y =? 0) with true by lia. cbn [negb]. rewrite Hx.
    replace (d - days_from_civil y 1 1 + 1 - (d - days_from_civil y 1 1 + 1)) with 0 by lia. lia.
  - (* local day is the next UTC day *)
    rewrite Hx in Ed'. rewrite Ed' in Fd.
    destruct Fd as (F1 & F2 & F3 & F4 & F5 & F6).
    destruct F6 as [[Fy Fyd]|Fy].
    + subst y'. replace (y - y =? 0) with true by lia. cbn [negb]. rewrite Hx.
      replace (d + 1 - days_from_civil y 1 1 + 1 - (d - days_from_civil y 1 1 + 1)) with 1 by lia. lia.
    + replace (y' - y =? 0) with false by lia. cbn [negb]. lia.
Qed.

(* local broken-down fields put back together give the local clock reading t + off *)
Lemma timegm_localtime t off :
  -2 * 86400 <= t + off < 47485 * 86400 ->
  let l := localtime off t in
  timegm (tm_year l) (tm_mon l) (tm_mday l) (tm_hour l) (tm_min l) (tm_sec l) = t + off /\
  1969 <= tm_year l <= 2100 /\ 1 <= tm_mon l <= 12 /\ 1 <= tm_mday l <= 31 /\
  0 <= tm_hour l <= 23 /\ 0 <= tm_min l <= 59 /\ 0 <= tm_sec l <= 59.
Proof.
  intros Hr. unfold localtime, gmtime.
  set (d := (t + off) / 86400). set (s := (t + off) mod 86400).
  assert (Hd : -2 <= d < 47485) by (subst d; lia).
  assert (Hs : 0 <= s < 86400) by (subst s; lia).
  pose proof (day_facts d Hd) as F.
  destruct (civil_from_days d) as [[y m] dd]. destruct (civil_from_days (d + 1)) as [[y2 m2] dd2].
  destruct F as (F1 & F2 & F3 & F4 & F5 & F6).
  cbn [tm_year tm_mon tm_mday tm_hour tm_min tm_sec]. unfold timegm. rewrite F1.
  assert (t + off = 86400 * d + s) by (subst d s; lia).
  repeat split; try lia.
Qed.

(* ---------------------------------------------------------------- 7-byte directory record date *)
Theorem dr_date_decodes t q :
  0 <= t < t_max -> -48 <= q <= 56 ->
  dr_date_decode (dr_date_new (900 * q) t) = t /\
  exists b, dr_date_record (dr_date_new (900 * q) t) = Some b /\
            dr_date_parse b = dr_date_new (900 * q) t /\
            dr_date_record (dr_date_parse b) = Some b.
Proof.
  intros Ht Hq. pose proof (gmtoffset_correct t q Ht Hq) as Hg. unfold t_max in Ht.
  pose proof (timegm_localtime t (900 * q) ltac:(lia)) as Hl. cbv zeta in Hl.
  destruct Hl as (L1 & L2 & L3 & L4 & L5 & L6 & L7).
  unfold dr_date_new. rewrite Hg. cbn [dr_date_decode].
  replace (tm_year (localtime (900 * q) t) - 1900 + 1900) with (tm_year (localtime (900 * q) t)) by lia.
  split; [lia|].
  cbn [dr_date_record]. unfold pack_u8, pack_s8.
  repeat match goal with |- context [(?a <=? ?b) && (?c <=? ?e)] =>
    replace ((a <=? b) && (c <=? e)) with true by lia end.
  eexists. split; [reflexivity|]. cbn [dr_date_parse].
  assert (Hu : unpack_s8 (q mod 256) = q) by (unfold unpack_s8; destruct (q mod 256 >=? 128) eqn:E; lia).
  rewrite Hu. split; [reflexivity|].
  cbn [dr_date_record]. unfold pack_u8, pack_s8.
  repeat match goal with |- context [(?a <=? ?b) && (?c <=? ?e)] =>
    replace ((a <=? b) && (c <=? e)) with true by lia end.
  reflexivity.
Qed.

(* ---------------------------------------------------------------- 17-byte volume descriptor date *)
Lemma undigits4 v : 0 <= v < 10000 -> undigits (digits 4 v) 0 = v.
Proof. intros H. cbn [digits app undigits]. lia. Qed.
Lemma undigits2 v : 0 <= v < 100 -> undigits (digits 2 v) 0 = v.
Proof. intros H. cbn [digits app undigits]. lia. Qed.

Theorem vd_date_decodes t q :
  0 < t < t_max -> -48 <= q <= 56 ->
  exists b, vd_date_new (900 * q) t = Some b /\ length b = 17%nat /\ vd_date_decode b = t.
Proof.
  intros Ht Hq. pose proof (gmtoffset_correct t q ltac:(lia) Hq) as Hg. unfold t_max in Ht.
  pose proof (timegm_localtime t (900 * q) ltac:(lia)) as Hl. cbv zeta in Hl.
  destruct Hl as (L1 & L2 & L3 & L4 & L5 & L6 & L7).
  unfold vd_date_new. replace (t =? 0) with false by lia. rewrite Hg. unfold pack_s8.
  replace ((-128 <=? q) && (q <=? 127)) with true by lia.
  eexists. split; [reflexivity|]. split; [reflexivity|].
  set (l := localtime (900 * q) t) in *.
  pose proof (undigits4 (tm_year l) ltac:(lia)) as U1.
  pose proof (undigits2 (tm_mon l) ltac:(lia)) as U2.
  pose proof (undigits2 (tm_mday l) ltac:(lia)) as U3.
  pose proof (undigits2 (tm_hour l) ltac:(lia)) as U4.
  pose proof (undigits2 (tm_min l) ltac:(lia)) as U5.
  pose proof (undigits2 (tm_sec l) ltac:(lia)) as U6.
  cbn [digits app] in *. cbn [vd_date_decode].
  rewrite U1, U2, U3, U4, U5, U6.
  assert (Hu : unpack_s8 (q mod 256) = q) by (unfold unpack_s8; destruct (q mod 256 >=? 128) eqn:E; lia).
  rewrite Hu. lia.
Qed.

Lemma vd_date_zero off : vd_date_new off 0 = Some vd_empty.
Proof. reflexivity. Qed.

(* ---------------------------------------------------------------- UDF timestamp *)
Definition udf_tz_ok (q : Z) : bool :=
  let tz := 15 * q in
  let tmp := Z.land 65535 tz in
  let b0 := Z.land tmp 255 in
  let b1 := Z.lor (Z.land (Z.shiftr tmp 8) 15) (Z.shiftl 1 4) in
  (twos_comp12 (Z.lor (Z.shiftl (Z.land b1 15) 8) b0) =? tz) && (Z.shiftr b1 4 =? 1) &&
  (0 <=? b0) && (b0 <=? 255) && (0 <=? b1) && (b1 <=? 255).

Lemma udf_tz_swept : sweep udf_tz_ok (-48) 105 = true.
Proof. vm_compute. reflexivity. Qed.

Theorem udf_ts_decodes t q :
  0 <= t < t_max -> -48 <= q <= 56 ->
  let u := udf_ts_new 15 (900 * q) t in
  udf_ts_decode u = t /\ udf_ts_parse (udf_ts_record u) = u /\
  udf_ts_record (udf_ts_parse (udf_ts_record u)) = udf_ts_record u /\
  Forall (fun b => 0 <= b <= 255) (udf_ts_record u).
Proof.
  intros Ht Hq. pose proof (gmtoffset_correct t q Ht Hq) as Hg. unfold t_max in Ht.
  pose proof (timegm_localtime t (900 * q) ltac:(lia)) as Hl. cbv zeta in Hl.
  destruct Hl as (L1 & L2 & L3 & L4 & L5 & L6 & L7).
  pose proof (sweep_sound udf_tz_ok (-48) 105 udf_tz_swept q ltac:(lia)) as Hz.
  unfold udf_tz_ok in Hz. cbv zeta in Hz.
  repeat (apply andb_prop in Hz; destruct Hz as [Hz ?]).
  cbv zeta. unfold udf_ts_new. rewrite Hg.
  set (l := localtime (900 * q) t) in *.
  assert (Hparse : udf_ts_parse (udf_ts_record
     {| u_tz := q * 15; u_type := 1; u_year := tm_year l; u_mon := tm_mon l; u_day := tm_mday l;
        u_hour := tm_hour l; u_min := tm_min l; u_sec := tm_sec l |}) =
     {| u_tz := q * 15; u_type := 1; u_year := tm_year l; u_mon := tm_mon l; u_day := tm_mday l;
        u_hour := tm_hour l; u_min := tm_min l; u_sec := tm_sec l |}).
  { unfold udf_ts_parse, udf_ts_record. cbn [u_tz u_type u_year u_mon u_day u_hour u_min u_sec].
    replace (q * 15) with (15 * q) by lia.
    f_equal; try lia. }
  split; [|split; [|split]].
  - unfold udf_ts_decode. cbn [u_tz u_year u_mon u_day u_hour u_min u_sec]. lia.
  - exact Hparse.
  - rewrite Hparse. reflexivity.
  - unfold udf_ts_record. cbn [u_tz u_type u_year u_mon u_day u_hour u_min u_sec].
    replace (q * 15) with (15 * q) by lia.
    repeat (constructor; [lia|]). constructor.
Qed.

(* the pinned original stored the 15-minute count in the minutes field *)
Lemma udf_original_refuted :
  exists t q, 0 <= t < t_max /\ -48 <= q <= 56 /\ udf_ts_decode (udf_ts_new 1 (900 * q) t) <> t.
Proof. exists 1000000000, 22. split; [unfold t_max; lia|]. split; [lia|]. vm_compute. discriminate. Qed.

Lemma dates_nonvacuous :
  dr_date_new (900 * 22) 1000000000 = [101; 9; 9; 7; 16; 40; 22] /\
  gmtoffset (900 * (-32)) 1704067199 = -32.
Proof. split; vm_compute; reflexivity. Qed.
