(* Lemmas for Proofs/AccountNsInv.v: what the four tree mutations of Model/AccountNs.v do to the
   tree invariant and to every additive measure, and the closed form of nlayout_end. *)
From Coq Require Import ZArith List Bool Lia ZifyBool Sorted Arith Permutation.
From PV.Base Require Import Prim.
From PV.Gen Require Import GenConst GenFun.
From PV.Model Require Import Names Pack Alloc Account AccountLinks AccountNs.
From PV.Proofs Require Import PackProofs AllocProofs AccountLemmas AccountProofs
     AccountLinksLemmas AccountLinksPurge.
Import ListNotations.
Local Open Scope Z_scope.
Ltac Zify.zify_post_hook ::= Z.to_euclidean_division_equations.

(* a weight that does not look at data_length *)
Definition dl_free (w : lnode -> Z) : Prop := forall nm d d', w (LDir nm d []) = w (LDir nm d' []).

Lemma dl_free_ref j : dl_free (lw_ref j).  Proof. intros nm d d'. reflexivity. Qed.
Lemma dl_free_ptr : dl_free lw_ptr.        Proof. intros nm d d'. reflexivity. Qed.
Lemma dl_free_nrec : dl_free lw_nrec.      Proof. intros nm d d'. reflexivity. Qed.

Definition troot_ok (t : lnode) : Prop := lname t = [0] /\ l_is_dir t = true.

Lemma name_ok_len nm : (dr_len_of nm >? 255) = false -> name_ok nm.
Proof.
  intros Hx. pose proof (dr_len_of_even nm) as He. split; [|exact He].
  unfold dr_len_of in *. pose proof (zlen_nonneg nm). cbv zeta in *. lia.
Qed.

Lemma blocks_add dl g : g = 0 \/ g = 2048 -> C * blocks_of (dl + g) = C * blocks_of dl + g.
Proof. unfold blocks_of, ceiling_div, C. intros [-> | ->]; lia. Qed.

Lemma blocks_sub dl g : g = 0 \/ g = 2048 -> C * blocks_of (dl - g) = C * blocks_of dl - g.
Proof. unfold blocks_of, ceiling_div, C. intros [-> | ->]; lia. Qed.

(* ---- inserting a node ------------------------------------------------------------------------- *)

Lemma t_add_node_spec t dirp c t' g :
  lall_ok t -> lall_ok c -> t_add_node t dirp c = Some (t', g) ->
  lall_ok t' /\ lname t' = lname t /\ l_is_dir t' = l_is_dir t /\ (g = 0 \/ g = 2048) /\
  (forall w, dl_free w -> ltotal w t' = ltotal w t + ltotal w c) /\
  C * ltotal lw_dblk t' = C * ltotal lw_dblk t + g + C * ltotal lw_dblk c /\
  exists dn dl kids, lsubtree dirp t = Some (LDir dn dl kids) /\ llookup (lname c) kids = None.
Proof.
  intros Hok Hc. unfold t_add_node.
  destruct (lsubtree dirp t) as [[fn fi fs|dn dl kids]|] eqn:Hsub; try discriminate.
  cbv zeta. destruct (dr_len_of (lname c) >? 255) eqn:Hx; [discriminate|].
  destruct (llookup (lname c) kids) as [[k0 c0]|] eqn:Hl; [discriminate|].
  pose proof (lsubtree_all_ok dirp t _ Hok Hsub) as Hd. apply lall_ok_dir in Hd. destruct Hd as [Hd HF].
  unfold ldir_st. set (names := map lname kids) in *.
  set (gb := add_overflows (st_of dl names) (2 + pos (lname c) names) (dr_len_of (lname c))).
  assert (Edl : dlen (dir_add C (st_of dl names) (2 + pos (lname c) names) (dr_len_of (lname c))) =
                dl + (if gb then C else 0)) by (rewrite dlen_add; reflexivity).
  set (dl' := dlen (dir_add C (st_of dl names) (2 + pos (lname c) names) (dr_len_of (lname c)))) in *.
  intros H. injection H as <- <-.
  assert (Hg : (if gb then C else 0) = 0 \/ (if gb then C else 0) = 2048) by apply grow_cases.
  split; [|split; [|split; [|split; [exact Hg|split; [|split]]]]].
  - apply (lall_ok_replace dirp _ _ _ Hsub); [reflexivity|exact Hok|]. apply lall_ok_dir. split.
    + rewrite map_insert_at.
      apply dir_ok_add; [exact Hd|apply name_ok_len, Hx|apply llookup_none, Hl].
    + apply Forall_insert_at; assumption.
  - apply (lreplace_name dirp _ _ _ Hsub). reflexivity.
  - apply (lreplace_is_dir dirp _ _ _ Hsub). reflexivity.
  - intros w Hw. rewrite (ltotal_replace w dirp _ _ _ Hsub), !ltotal_dir, ltotals_insert_at.
    match goal with |- context [w (LDir dn ?d [])] =>
      lazymatch d with dl => fail | _ => rewrite (Hw dn d dl) end end. lia.
  - rewrite (ltotal_replace lw_dblk dirp _ _ _ Hsub), !ltotal_dir, ltotals_insert_at, Edl.
    change (lw_dblk (LDir dn ?d [])) with (blocks_of d).
    pose proof (blocks_add dl _ Hg). lia.
  - exists dn, dl, kids. split; [reflexivity|exact Hl].
Qed.

(* ---- finding and removing a node -------------------------------------------------------------- *)

Lemma t_find_spec t dirp nm dn dl kids k c :
  t_find t dirp nm = Some (dn, dl, kids, k, c) ->
  lsubtree dirp t = Some (LDir dn dl kids) /\ llookup nm kids = Some (k, c) /\
  nth_error kids k = Some c /\ lname c = nm.
Proof.
  unfold t_find. destruct (lsubtree dirp t) as [[fn fi fs|dn' dl' kids']|]; try discriminate.
  destruct (llookup nm kids') as [[k' c']|] eqn:Hl; [|discriminate].
  intros H. inversion H; subst. apply llookup_spec in Hl as Hs. tauto.
Qed.

Lemma t_remove_spec t dirp dn dl kids k c t' sh :
  lall_ok t -> lsubtree dirp t = Some (LDir dn dl kids) -> nth_error kids k = Some c ->
  t_remove t dirp dn dl kids k = (t', sh) ->
  lall_ok t' /\ lname t' = lname t /\ l_is_dir t' = l_is_dir t /\ (sh = 0 \/ sh = 2048) /\
  (forall w, dl_free w -> ltotal w t' = ltotal w t - ltotal w c) /\
  C * ltotal lw_dblk t' = C * ltotal lw_dblk t - sh - C * ltotal lw_dblk c /\
  lall_ok c /\ name_ok (lname c).
Proof.
  intros Hok Hsub Hk. unfold t_remove. cbv zeta.
  pose proof (lsubtree_all_ok dirp t _ Hok Hsub) as Hd. apply lall_ok_dir in Hd. destruct Hd as [Hd HF].
  unfold ldir_st. set (names := map lname kids) in *.
  set (ub := rm_underflows (st_of dl names) (2 + k)).
  assert (Edl : dlen (dir_remove C (st_of dl names) (2 + k)) = dl - (if ub then C else 0))
    by (rewrite dlen_remove; reflexivity).
  set (dl' := dlen (dir_remove C (st_of dl names) (2 + k))) in *.
  intros H. injection H as <- <-.
  assert (Hg : (if ub then C else 0) = 0 \/ (if ub then C else 0) = 2048) by apply grow_cases.
  split; [|split; [|split; [|split; [exact Hg|split; [|split; [|split]]]]]].
  - apply (lall_ok_replace dirp _ _ _ Hsub); [reflexivity|exact Hok|]. apply lall_ok_dir. split.
    + rewrite map_remove_at. apply dir_ok_remove, Hd.
    + apply Forall_remove_at, HF.
  - apply (lreplace_name dirp _ _ _ Hsub). reflexivity.
  - apply (lreplace_is_dir dirp _ _ _ Hsub). reflexivity.
  - intros w Hw. rewrite (ltotal_replace w dirp _ _ _ Hsub), !ltotal_dir, (ltotals_remove_at w kids k c Hk).
    match goal with |- context [w (LDir dn ?d [])] =>
      lazymatch d with dl => fail | _ => rewrite (Hw dn d dl) end end. lia.
  - rewrite (ltotal_replace lw_dblk dirp _ _ _ Hsub), !ltotal_dir, (ltotals_remove_at _ kids k c Hk), Edl.
    change (lw_dblk (LDir dn ?d [])) with (blocks_of d).
    pose proof (blocks_sub dl _ Hg). lia.
  - rewrite Forall_forall in HF. apply HF. eapply nth_error_In. exact Hk.
  - destruct Hd as (_ & _ & Hn). rewrite Forall_forall in Hn. apply Hn. apply in_map.
    eapply nth_error_In. exact Hk.
Qed.

(* a record counts for its inode *)
Lemma t_find_ref t dirp nm dn dl kids k cn i st :
  t_find t dirp nm = Some (dn, dl, kids, k, LFile cn i st) -> 0 < lrefcount i t.
Proof.
  intros H. apply t_find_spec in H. destruct H as (Hsub & _ & Hk & _).
  pose proof (ltotal_replace (lw_ref i) dirp t (LDir dn dl (remove_at k kids)) _ Hsub) as E.
  rewrite !ltotal_dir, (ltotals_remove_at _ kids k _ Hk), ltotal_file in E.
  pose proof (lrefcount_nonneg i (lreplace dirp (LDir dn dl (remove_at k kids)) t)) as N.
  unfold lrefcount in *. change (lw_ref i (LFile cn i st)) with (if Nat.eqb i i then 1 else 0) in E.
  rewrite Nat.eqb_refl in E. change (lw_ref i (LDir dn ?d [])) with 0 in E. lia.
Qed.

(* the data_length of a directory is a whole number of blocks *)
Lemma dir_blocks cn cdl ckids : lall_ok (LDir cn cdl ckids) -> C * blocks_of cdl = cdl.
Proof.
  intros H. apply lall_ok_dir in H. destruct H as [((Hm & _) & _) _]. cbn [st_of dlen] in Hm.
  unfold blocks_of, ceiling_div, C in *. lia.
Qed.

(* ---- the BFS traversals and the closed form of nlayout_end ------------------------------------ *)

Lemma lbfs_root_sum w t :
  Alloc.zsum (map (fun n => w (hdr n)) (lbfs (lnsize t) [t])) = ltotal w t.
Proof.
  rewrite lbfs_sum.
  - rewrite ltotals_cons, ltotals_nil. lia.
  - cbn [lnsizes fold_right]. lia.
Qed.

Theorem nlaid_out_iff s i :
  In i (nlaid_out s) <-> 0 < nrefcount i (niso s) (njol s) /\ len_of i (nall s) <> 0.
Proof.
  unfold nlaid_out. rewrite dedup_in, file_list_in. cbn [In].
  unfold nrefcount, lrefcount, nvisit_i, nvisit_j.
  rewrite <- (lbfs_root_sum (lw_ref i) (niso s)), <- (lbfs_root_sum (lw_ref i) (njol s)), <- zsum_app, <- map_app.
  rewrite (zsum_pos_iff _ _ (fun n => lw_ref_nonneg i (hdr n))).
  split.
  - intros [[(n & Hn & Hr) Hl] _]. split; [|exact Hl]. exists n. split; [exact Hn|].
    rewrite lw_ref_hdr. unfold lw_ref. rewrite Hr. lia.
  - intros [(n & Hn & Hr) Hl]. split; [|tauto]. split; [|exact Hl]. exists n. split; [exact Hn|].
    rewrite lw_ref_hdr in Hr. unfold lw_ref in Hr. destruct (is_ref i n); [reflexivity|lia].
Qed.

(* distinct ids, and an inode is in the table iff a record of EITHER hierarchy references it *)
Definition ntbl_ok (t : itable) (ti tj : lnode) : Prop :=
  NoDup (ids t) /\ forall i, In i (ids t) <-> 0 < nrefcount i ti tj.

Lemma nall_clean s : norphans s = [] -> nall s = ninodes s.
Proof. intros H. unfold nall. rewrite H. apply app_nil_r. Qed.

Lemma nlaid_out_sum s : norphans s = [] -> ntbl_ok (ninodes s) (niso s) (njol s) ->
  Alloc.zsum (map (fun i => blocks_of (len_of i (nall s))) (nlaid_out s)) = tbl_sum (ninodes s).
Proof.
  intros HO [HN HR]. pose proof (nlaid_out_iff s) as LI. rewrite (nall_clean s HO) in *.
  set (t := ninodes s) in *.
  set (nz := fun i => negb (len_of i t =? 0)).
  assert (HP : Permutation (nlaid_out s) (filter nz (ids t))).
  { apply NoDup_Permutation; [apply dedup_nodup|apply NoDup_filter, HN|].
    intros i. rewrite LI, filter_In, HR. unfold nz.
    destruct (Z.eqb_spec (len_of i t) 0); cbn [negb]; split; intros [H1 H2]; try tauto; try discriminate. }
  rewrite (zsum_perm _ _ (Permutation_map _ HP)), zsum_map_filter.
  unfold tbl_sum, ids. rewrite map_map.
  assert (E : map (fun e => blocks_of (snd e)) t = map (fun e => blocks_of (len_of (fst e) t)) t).
  { pose proof (f_equal (map blocks_of) (len_of_nodup t HN)) as E. rewrite !map_map in E.
    symmetry. exact E. }
  rewrite E. f_equal. apply map_ext. intros [j l]. cbn [fst]. unfold nz.
  destruct (Z.eqb_spec (len_of j t) 0) as [E0|E0]; cbn [negb]; [rewrite E0; reflexivity|reflexivity].
Qed.

Lemma dirs_sum t :
  Alloc.zsum (map lw_dblk (filter l_is_dir (lbfs (lnsize t) [t]))) = ltotal lw_dblk t.
Proof.
  rewrite zsum_map_filter.
  rewrite (map_ext (fun x => if l_is_dir x then lw_dblk x else 0) (fun n => lw_dblk (hdr n))).
  - apply lbfs_root_sum.
  - intros [nm ino st|nm dl kids]; reflexivity.
Qed.

Theorem nlayout_end_closed s : norphans s = [] -> ntbl_ok (ninodes s) (niso s) (njol s) ->
  nlayout_end s = 20 + 2 * ipe s + 2 * jpe s + ltotal lw_dblk (niso s) + ltotal lw_dblk (njol s)
                  + tbl_sum (ninodes s).
Proof.
  intros HO HT. unfold nlayout_end, bump_end, nobjects. rewrite !zsum_app.
  change (fun i => ceiling_div (len_of i (nall s)) C)
    with (fun i => blocks_of (len_of i (nall s))).
  rewrite (nlaid_out_sum s HO HT). unfold nvisit_i, nvisit_j. rewrite !dirs_sum.
  unfold Alloc.zsum at 1. cbn [fold_right]. lia.
Qed.
