(* C11 / C04 -- El Torito edit histories (Model/AccountBoot.v), part 1: lists, the release of boot
   files by rm_eltorito, the removal of the catalog's records, the order of the boot files, and the
   closed form of the end of the from-scratch layout. *)
From Coq Require Import ZArith List Bool Lia ZifyBool Sorted Arith Permutation.
From PV.Base Require Import Prim.
From PV.Gen Require Import GenConst GenFun.
From PV.Model Require Import Names Checksums Pack Alloc Codec Eltorito Account AccountLinks AccountBoot.
From PV.Proofs Require Import PackProofs AllocProofs ChecksumsArithProofs AccountLemmas AccountProofs
     AccountLinksLemmas AccountLinksPurge.
Import ListNotations.
Local Open Scope Z_scope.
Ltac Zify.zify_post_hook ::= Z.to_euclidean_division_equations.

(* ---- 1. membership ---------------------------------------------------------------------------- *)

Lemma ab_mem_in i l : mem i l = true <-> In i l.
Proof. apply existsb_eqb_in. Qed.

Lemma ab_mem_false i l : mem i l = false <-> ~ In i l.
Proof. rewrite <- ab_mem_in. destruct (mem i l); split; intros H; try discriminate; try reflexivity; tauto. Qed.

Lemma ab_has_ino_in i t : has_ino i t = true <-> In i (ids t).
Proof.
  unfold ids. induction t as [|[j l] r IH]; cbn [has_ino map fst In]; [split; [discriminate|tauto]|].
  rewrite orb_true_iff, IH, Nat.eqb_eq. tauto.
Qed.

Lemma ab_count_nonneg i l : 0 <= count i l.
Proof. induction l as [|j r IH]; cbn [count]; [lia|]. destruct (Nat.eqb j i); lia. Qed.

Lemma ab_count_pos i l : 0 < count i l <-> In i l.
Proof.
  induction l as [|j r IH]; cbn [count In]; [split; [lia|tauto]|].
  pose proof (ab_count_nonneg i r). destruct (Nat.eqb_spec j i) as [->|Hne].
  - split; [tauto|lia].
  - rewrite <- IH. split; [intros; right; lia|intros [E|Hp]; [congruence|lia]].
Qed.

Lemma ab_count_app i a b : count i (a ++ b) = count i a + count i b.
Proof. induction a as [|j r IH]; cbn [app count]; [lia|]. rewrite IH. lia. Qed.

Lemma ab_erefs_nonneg i b : 0 <= erefs i b.
Proof. destruct b as [b|]; cbn [erefs]; [apply ab_count_nonneg|lia]. Qed.

Lemma ab_nodup_app {A} (l1 l2 : list A) :
  NoDup l1 -> NoDup l2 -> (forall x, In x l1 -> ~ In x l2) -> NoDup (l1 ++ l2).
Proof.
  induction 1 as [|a l Ha Hl IH]; intros H2 Hd; cbn [app]; [exact H2|].
  constructor.
  - rewrite in_app_iff. intros [H|H]; [tauto|]. apply (Hd a); [left; reflexivity|exact H].
  - apply IH; [exact H2|]. intros x Hx. apply Hd. right. exact Hx.
Qed.

(* ---- 2. rm_eltorito: the boot files without names are released ----------------------------------- *)

Lemma ab_release_spec root : forall es tbl b, NoDup (ids tbl) ->
  let r := release_entries root es tbl b in
  NoDup (ids (fst r)) /\
  (forall i, In i (ids (fst r)) <-> In i (ids tbl) /\ ~ (In i es /\ lrefcount i root = 0)) /\
  (forall i, In i (ids (fst r)) -> len_of i (fst r) = len_of i tbl) /\
  snd r = b + C * (tbl_sum tbl - tbl_sum (fst r)) /\
  (forall P : nat * Z -> Prop, Forall P tbl -> Forall P (fst r)).
Proof.
  induction es as [|e r IH]; intros tbl b HN; cbn [release_entries].
  - cbn [fst snd In]. split; [exact HN|]. split; [intros i; tauto|]. split; [reflexivity|].
    split; [lia|]. intros P HP. exact HP.
  - destruct ((lrefcount e root =? 0) && negb (mem e r)) eqn:Hc.
    + apply andb_prop in Hc. destruct Hc as [Hz Hm]. apply Z.eqb_eq in Hz.
      apply negb_true_iff, ab_mem_false in Hm.
      destruct (ids_del e tbl HN) as (D1 & D2 & D3).
      specialize (IH (del_ino e tbl) (b + ceiling_div (len_of e tbl) C * C) D1). cbv zeta in IH.
      destruct IH as (I1 & I2 & I3 & I4 & I5).
      split; [exact I1|]. split; [|split; [|split]].
      * intros i. rewrite I2. cbn [In]. destruct (Nat.eq_dec i e) as [->|Hne].
        -- split; [tauto|]. intros [_ H]. exfalso. apply H. split; [left; reflexivity|exact Hz].
        -- rewrite (D3 i Hne). assert (Hx : e = i -> False) by congruence. tauto.
      * intros i Hi. rewrite (I3 i Hi). apply len_of_del. intros ->. apply I2 in Hi. tauto.
      * rewrite I4, tbl_sum_del. unfold blocks_of, C. lia.
      * intros P HP. apply I5, Forall_del, HP.
    + specialize (IH tbl b HN). cbv zeta in IH. destruct IH as (I1 & I2 & I3 & I4 & I5).
      split; [exact I1|]. split; [|split; [exact I3|split; [exact I4|exact I5]]].
      intros i. rewrite I2. cbn [In]. destruct (Nat.eq_dec e i) as [->|Hne].
      * apply andb_false_iff in Hc. destruct Hc as [Hc|Hc].
        -- apply Z.eqb_neq in Hc. tauto.
        -- apply negb_false_iff, ab_mem_in in Hc. tauto.
      * tauto.
Qed.

(* ---- 3. rm_eltorito: the catalog's records are removed ---------------------------------------------- *)

Lemma ab_purge_is_dir j n : l_is_dir (purge_node j n) = l_is_dir n.
Proof. destruct n; reflexivity. Qed.

Lemma ab_purge_all_cons j js n : purge_all (j :: js) n = purge_all js (purge_node j n).
Proof. reflexivity. Qed.

Lemma ab_purge_all_props js : forall n,
  lname (purge_all js n) = lname n /\ l_is_dir (purge_all js n) = l_is_dir n /\
  (lall_ok n -> lall_ok (purge_all js n)) /\
  ltotal lw_ptr (purge_all js n) = ltotal lw_ptr n /\
  C * ltotal lw_dblk (purge_all js n) = C * ltotal lw_dblk n - purge_all_bytes js n /\
  (forall p, ldirs p (purge_all js n) = ldirs p n).
Proof.
  induction js as [|j r IH]; intros n; [cbn; repeat split; try tauto; lia|].
  rewrite ab_purge_all_cons. cbn [purge_all_bytes].
  destruct (IH (purge_node j n)) as (I1 & I2 & I3 & I4 & I5 & I6).
  rewrite I1, I2, I4, lname_purge, ab_purge_is_dir, purge_ptr.
  pose proof (purge_dblk j n) as E.
  split; [reflexivity|]. split; [reflexivity|]. split; [intros H; apply I3, purge_all_ok, H|].
  split; [reflexivity|]. split; [lia|]. intros p. rewrite I6. apply purge_dirs.
Qed.

Lemma ab_purge_all_refcount js : forall n i, l_is_dir n = true ->
  lrefcount i (purge_all js n) = if mem i js then 0 else lrefcount i n.
Proof.
  induction js as [|j r IH]; intros n i Hd; [reflexivity|].
  rewrite ab_purge_all_cons, IH by (rewrite ab_purge_is_dir; exact Hd).
  unfold mem. cbn [existsb]. fold (mem i r). destruct (Nat.eqb_spec i j) as [->|Hne]; cbn [orb].
  - rewrite (purge_refcount_self j n Hd). destruct (mem j r); reflexivity.
  - rewrite (purge_refcount_other j i n Hne). reflexivity.
Qed.

Lemma ab_purge_all_records js : forall n, l_is_dir n = true ->
  forall p, lrecords p (purge_all js n) = filter (fun r => negb (mem (snd r) js)) (lrecords p n).
Proof.
  induction js as [|j r IH]; intros n Hd p.
  - cbn [purge_all fold_left mem existsb negb]. symmetry. apply filter_all, Forall_forall. reflexivity.
  - rewrite ab_purge_all_cons, IH by (rewrite ab_purge_is_dir; exact Hd).
    rewrite (purge_records j n Hd p). clear.
    induction (lrecords p n) as [|x l IHl]; [reflexivity|]. cbn [filter].
    assert (E : negb (mem (snd x) (j :: r)) = notrec j x && negb (mem (snd x) r)).
    { unfold notrec, rec_is, mem. cbn [existsb]. apply negb_orb. }
    rewrite E. destruct (notrec j x); cbn [andb filter]; [|exact IHl].
    destruct (negb (mem (snd x) r)); [f_equal|]; exact IHl.
Qed.

(* ---- 4. the order of the boot files ------------------------------------------------------------------ *)

Lemma ab_insort_snd x l j : In j (map snd (insort x l)) <-> j = snd x \/ In j (map snd l).
Proof.
  induction l as [|y r IH]; cbn [insort map In]; [intuition congruence|].
  destruct (bytes_ltb (fst x) (fst y)); cbn [map In]; [intuition congruence|]. rewrite IH. intuition congruence.
Qed.

Lemma ab_fold_insort_snd i j : forall names acc,
  In j (map snd (fold_left (fun a nm => insort (nm, i) a) names acc)) <->
  (names <> [] /\ j = i) \/ In j (map snd acc).
Proof.
  induction names as [|nm r IH]; intros acc; cbn [fold_left]; [intuition congruence|].
  rewrite IH, ab_insort_snd. cbn [snd]. split.
  - intros [[_ ->]|[->|H]]; [left|left|right; exact H]; (split; [discriminate|reflexivity]).
  - intros [[_ ->]|H]; [right; left; reflexivity|right; right; exact H].
Qed.

Lemma ab_enc_add_in root acc i j : In j (map snd (enc_add root acc i)) <-> j = i \/ In j (map snd acc).
Proof.
  unfold enc_add. destruct (linked_names i root) as [|n0 ns].
  - rewrite ab_insort_snd. reflexivity.
  - rewrite ab_fold_insort_snd. split; [intros [[_ H]|H]; tauto|intros [H|H]; [left|right; exact H]].
    split; [discriminate|exact H].
Qed.

Lemma ab_enc_list_in root j : forall es acc,
  In j (map snd (fold_left (enc_add root) es acc)) <-> In j es \/ In j (map snd acc).
Proof.
  induction es as [|e r IH]; intros acc; cbn [fold_left In]; [tauto|].
  rewrite IH, ab_enc_add_in. intuition congruence.
Qed.

Lemma ab_boot_order_in s i : In i (boot_order s) <-> 0 < erefs i (bboot s).
Proof.
  unfold boot_order. destruct (bboot s) as [b|]; cbn [erefs]; [|cbn [In]; lia].
  rewrite dedup_in. unfold enc_list. rewrite ab_enc_list_in, ab_count_pos. cbn [map In]. tauto.
Qed.

Lemma ab_boot_order_nodup s : NoDup (boot_order s).
Proof. unfold boot_order. destruct (bboot s); [apply dedup_nodup|constructor]. Qed.

(* ---- 5. the end of the from-scratch layout, in closed form --------------------------------------- *)

(* the inode table is in step with the records and the El Torito entries *)
Definition live (s : bstate) : Prop :=
  NoDup (ids (linodes (bl s))) /\
  (forall i, In i (ids (linodes (bl s))) -> 0 < lrefcount i (lroot (bl s)) + erefs i (bboot s)) /\
  (forall i, 0 < erefs i (bboot s) -> In i (ids (linodes (bl s)))).

Lemma ab_file_list_iff l i :
  In i (file_list (linodes l) (lvisit l)) <-> 0 < lrefcount i (lroot l) /\ len_of i (linodes l) <> 0.
Proof. rewrite <- laid_out_iff. unfold laid_out. rewrite dedup_in. cbn [In]. tauto. Qed.

Lemma ab_rest_order_in s i : In i (rest_order s) <->
  0 < lrefcount i (lroot (bl s)) /\ len_of i (linodes (bl s)) <> 0 /\ ~ 0 < erefs i (bboot s).
Proof. unfold rest_order. rewrite dedup_in, ab_file_list_iff, ab_boot_order_in. tauto. Qed.

Lemma ab_data_inos_nodup s : NoDup (data_inos s).
Proof.
  unfold data_inos. apply ab_nodup_app; [apply ab_boot_order_nodup|apply dedup_nodup|].
  intros x Hx. unfold rest_order. rewrite dedup_in. tauto.
Qed.

Lemma ab_data_inos_sum s : live s ->
  Alloc.zsum (map (blk_of s) (data_inos s)) = tbl_sum (linodes (bl s)).
Proof.
  intros (HN & HL & HE). set (t := linodes (bl s)) in *.
  set (nz := fun i => negb (len_of i t =? 0)).
  assert (HP : Permutation (filter nz (data_inos s)) (filter nz (ids t))).
  { apply NoDup_Permutation; [apply NoDup_filter, ab_data_inos_nodup|apply NoDup_filter, HN|].
    intros i. rewrite !filter_In. unfold data_inos. rewrite in_app_iff, ab_boot_order_in, ab_rest_order_in.
    fold t. unfold nz. pose proof (ab_erefs_nonneg i (bboot s)) as Hq.
    pose proof (lrefcount_nonneg i (lroot (bl s))) as Hr.
    destruct (Z.eqb_spec (len_of i t) 0) as [E0|E0]; cbn [negb]; [split; intros [_ H]; discriminate|].
    split; intros [H _]; (split; [|reflexivity]).
    - destruct H as [H|[_ _]]; [apply HE, H|].
      destruct (in_dec Nat.eq_dec i (ids t)) as [Hin|Hnin]; [exact Hin|].
      exfalso. apply E0, len_of_notin, Hnin.
    - specialize (HL i H). destruct (Z_lt_le_dec 0 (erefs i (bboot s))) as [Hp|Hp]; [left; exact Hp|].
      right. split; [lia|]. split; [exact E0|lia]. }
  assert (E1 : Alloc.zsum (map (blk_of s) (data_inos s)) = Alloc.zsum (map (blk_of s) (filter nz (data_inos s)))).
  { rewrite zsum_map_filter. f_equal. apply map_ext. intros i. unfold nz, blk_of. fold t.
    destruct (Z.eqb_spec (len_of i t) 0) as [E0|E0]; cbn [negb]; [rewrite E0; reflexivity|reflexivity]. }
  rewrite E1, (zsum_perm _ _ (Permutation_map _ HP)), zsum_map_filter.
  unfold tbl_sum, ids. rewrite map_map.
  assert (E : map (fun e => blocks_of (snd e)) t = map (fun e => blocks_of (len_of (fst e) t)) t).
  { pose proof (f_equal (map blocks_of) (len_of_nodup t HN)) as E. rewrite !map_map in E.
    symmetry. exact E. }
  rewrite E. f_equal. apply map_ext. intros [j l]. cbn [fst]. unfold nz, blk_of, blocks_of. fold t.
  destruct (Z.eqb_spec (len_of j t) 0) as [E0|E0]; cbn [negb]; [rewrite E0; reflexivity|reflexivity].
Qed.

Lemma ab_head_sum s :
  Alloc.zsum (head_objects s) =
  19 + (if has_boot s then 1 else 0) + 2 * lptr_ext (bl s) + ltotal lw_dblk (lroot (bl s)).
Proof.
  unfold head_objects. rewrite !zsum_app, zsum_map_filter.
  rewrite (map_ext (fun x => if l_is_dir x then lw_dblk x else 0) (fun n => lw_dblk (hdr n))).
  - rewrite lvisit_sum. destruct (has_boot s); unfold Alloc.zsum; cbn [fold_right]; lia.
  - intros [nm ino st|nm dl kids]; reflexivity.
Qed.

Theorem ab_layout_end_closed s : live s ->
  blayout_end s = 19 + (if has_boot s then 2 else 0) + 2 * lptr_ext (bl s)
                  + ltotal lw_dblk (lroot (bl s)) + tbl_sum (linodes (bl s)).
Proof.
  intros HL. unfold blayout_end, bump_end, bobjects. rewrite !zsum_app, ab_head_sum, (ab_data_inos_sum s HL).
  unfold cat_objects. destruct (has_boot s); unfold Alloc.zsum; cbn [fold_right]; lia.
Qed.

Lemma ab_cat_extent_closed s :
  cat_extent s = 19 + (if has_boot s then 1 else 0) + 2 * lptr_ext (bl s) + ltotal lw_dblk (lroot (bl s)).
Proof. unfold cat_extent, bump_end. rewrite ab_head_sum. lia. Qed.

Print Assumptions ab_release_spec.
Print Assumptions ab_layout_end_closed.
