(* Reader's view after an accepted modify_file_in_place (Model/InPlace.v): every linked directory record
   decodes (Codec.dec_dr, the model of pycdlib's own directory walk) to the old record with only
   data_length replaced; every linked UDF File Entry parses (Udf.fe_parse) to the old entry with only the
   information length and the descriptor lengths replaced; the slack after the new data is zero when it was.
     inplace_dr_decodes, inplace_fe_decodes, inplace_zero_padding_partial
   All closed under the global context (Print Assumptions at the end). *)
From Coq Require Import ZArith List Bool Lia ZifyBool.
From PV.Base Require Import Prim.
From PV.Gen Require Import GenConst GenFun.
From PV.Model Require Import Codec Checksums Udf InPlace.
From PV.Proofs Require Import CodecProofs UdfProofs UdfFeProofs InPlaceImgProofs InPlaceBytesProofs InPlaceStepProofs
                              InPlaceProofs.
Import ListNotations.
Local Open Scope Z_scope.
Ltac Zify.zify_post_hook ::= Z.to_euclidean_division_equations.

Lemma ip_done_ceil st m d now ws ext : wf_state st m = true -> st_child st = ChFile ext ->
  modify st d now = Done ws -> ceiling_div (st_ino_len st) 2048 = ceiling_div (zlen d) 2048.
Proof. intros Hwf Hc Hd. apply (ip_acc_ceil st m d now ext ws Hwf Hc Hd). Qed.

(* ---- directory records ---- *)
Theorem inplace_dr_decodes st m d now ws ext j pe eth oth dl lf r rest :
  wf_state st m = true -> length now = 17%nat -> st_child st = ChFile ext -> modify st d now = Done ws ->
  In (LDr j (Some pe) eth oth dl lf r) (st_linked st) ->
  dec_dr (read (apply_writes ws m) ((pe + eth - 1) * 2048 + (oth - dl)) (Z.to_nat dl) ++ rest)
  = Some (pad_sysuse (dr_set_len r (zlen d)), rest) /\
  (* the record was the old one before *)
  dec_dr (read m ((pe + eth - 1) * 2048 + (oth - dl)) (Z.to_nat dl) ++ rest) = Some (pad_sysuse r, rest).
Proof.
  intros Hwf Hn Hc Hd Hin.
  destruct (ip_wf_inv st m ext Hwf Hc) as (_ & _ & Hold & _ & _ & Hlr & _).
  pose proof (proj1 (forallb_forall _ _) Hlr _ Hin) as Hok.
  pose proof (ip_done_ceil st m d now ws ext Hwf Hc Hd) as Hceil.
  destruct (ip_lrec_step m ext _ (zlen d) _ Hok Hold (zlen_nonneg d) Hceil)
    as [[E _]|(b & b' & B & S & Hse & Hdisk & _ & _)]; [discriminate|].
  cbn [lrec_ok] in Hok. cbn [lrec_bytes] in B. rewrite B in Hok.
  repeat (apply andb_prop in Hok; let H2 := fresh "R" in destruct Hok as [Hok H2]).
  apply Nat.eqb_eq in R1.
  assert (Hdl : dl = dr_len_of r) by lia. assert (Hlf : lf = zlen (ident r)) by lia.
  assert (Hzb : zlen b = dl) by lia.
  pose proof (ip_same_len b b' _ Hse) as Hzb'.
  pose proof (inplace_content_record st m d now ws ext _ b' Hwf Hn Hc Hd Hin S) as Hread.
  cbn [lrec_pos] in Hread, Hdisk.
  replace (Z.to_nat dl) with (length b') by (unfold zlen in *; lia). rewrite Hread.
  cbn [relink_one] in S. destruct (enc_dr_raw dl lf (dr_set_len r (zlen d))) as [b2|] eqn:E2; [|discriminate].
  injection S as <-.
  split.
  - apply dr_roundtrip.
    + split; [exact R1|left; cbn; lia].
    + unfold enc_dr. replace (dr_len_of (dr_set_len r (zlen d))) with dl by (rewrite Hdl; reflexivity).
      replace (zlen (ident (dr_set_len r (zlen d)))) with lf by (rewrite Hlf; reflexivity). exact E2.
  - replace (length b2) with (length b) by (unfold zlen in *; lia).
    unfold on_disk in Hdisk. apply ip_zlist_eqb_eq in Hdisk. rewrite Hdisk.
    apply dr_roundtrip.
    + split; [exact R1|left; lia].
    + unfold enc_dr. rewrite <- Hdl, <- Hlf. exact B.
Qed.

(* ---- UDF File Entries ---- *)
Lemma ip_relen_short_wf ds ds' : Forall2 ad_relen ds ds' -> Forall short_wf ds'.
Proof.
  induction 1 as [|d d' r r' Hd Hr IH]; constructor; [|exact IH].
  inversion Hd as [a l Hl Ht]; subst. eexists. split; [reflexivity|]. cbn [sa_type sa_length]. split; [exact Ht|exact Hl].
Qed.

Theorem inplace_fe_decodes st m d now ws ext x e rest abs :
  wf_state st m = true -> length now = 17%nat -> st_child st = ChFile ext -> modify st d now = Done ws ->
  In (LFe x e) (st_linked st) ->
  exists ds' b',
    fe_set_len e (zlen d) = Some (fe_with_len e (zlen d) ds') /\
    map ad_extent_length ds' = fe_ad_lengths (zlen d) /\ map ad_pos ds' = map ad_pos (fe_ads e) /\
    fe_record (fe_with_len e (zlen d) ds') = Some b' /\
    fe_parse (read (apply_writes ws m) (x * 2048) (length b') ++ rest) abs (tg_location (fe_tag e))
    = Some (fe_with_len e (zlen d) ds') /\
    fe_parse (read m (x * 2048) (length b') ++ rest) abs (tg_location (fe_tag e)) = Some e.
Proof.
  intros Hwf Hn Hc Hd Hin.
  destruct (ip_wf_inv st m ext Hwf Hc) as (_ & _ & Hold & _ & _ & Hlr & _).
  pose proof (proj1 (forallb_forall _ _) Hlr _ Hin) as Hok.
  pose proof (ip_done_ceil st m d now ws ext Hwf Hc Hd) as Hceil.
  cbn [lrec_ok] in Hok. destruct (fe_record e) as [b|] eqn:B; [|discriminate].
  repeat (apply andb_prop in Hok; let H2 := fresh "R" in destruct Hok as [Hok H2]).
  destruct (ip_fe_ok_inv _ _ R0) as (Hfwf & Hshort & Hcrc & Hlea).
  apply ip_zlist_eqb_eq in R1. unfold MAX_INODE_LEN in *.
  destruct (ip_fe_set_len_wf e (st_ino_len st) (zlen d) ltac:(lia) R1 Hshort ltac:(unfold UDF_MAX_AD in *; lia)
              (zlen_nonneg d) Hceil) as (ds' & Eset & HF & Hlens & _).
  destruct (ip_fe_record_some e (zlen d) ds' b B HF ltac:(pose proof (zlen_nonneg d); unfold ceiling_div in *; lia))
    as (b' & Eb' & Hse).
  exists ds', b'. split; [exact Eset|]. split; [exact Hlens|]. split.
  { clear -HF. induction HF as [|a a' r r' Ha Hr IH]; [reflexivity|]. cbn [map]. rewrite IH. f_equal.
    inversion Ha; subst. reflexivity. }
  split; [exact Eb'|].
  assert (S : relink_one 2048 (zlen d) (LFe x e) = StWrite (lrec_pos 2048 (LFe x e), b')).
  { cbn [relink_one lrec_pos]. rewrite Eset, Eb'. reflexivity. }
  pose proof (inplace_content_record st m d now ws ext _ b' Hwf Hn Hc Hd Hin S) as Hread.
  cbn [lrec_pos] in Hread. rewrite Hread.
  pose proof (ip_same_len b b' _ Hse) as Hzb'.
  split.
  - apply (fe_roundtrip_exact (fe_with_len e (zlen d) ds') b' rest abs).
    + destruct Hfwf as (F1 & F2 & F3 & F4 & F5 & F6 & F7 & F8 & F9 & F10 & F11).
      unfold fe_wf. cbn [fe_with_len fe_icb fe_atime fe_mtime fe_attrtime fe_impl_ident fe_ea_icb fe_len_ea fe_ea fe_ads fe_tag].
      repeat split; try assumption. apply (ip_relen_short_wf _ _ HF).
    + exact Eb'.
    + cbn [fe_with_len fe_tag]. lia.
  - replace (length b') with (length b) by (unfold zlen in *; lia).
    unfold on_disk in R. apply ip_zlist_eqb_eq in R. cbn [lrec_pos] in R. rewrite R.
    apply (fe_roundtrip_exact e b rest abs Hfwf B Hcrc).
Qed.

(* ---- the slack after the new data ---- *)
(* it reads zero afterwards exactly where it read zero before (the last byte of the sector always does) *)
Theorem inplace_zero_padding_partial st m d now ws ext : wf_state st m = true -> length now = 17%nat ->
  st_child st = ChFile ext -> modify st d now = Done ws ->
  (forall a, ext * 2048 + zlen d <= a < ext * 2048 + ceiling_div (zlen d) 2048 * 2048 - 1 -> m a = 0) ->
  forall a, ext * 2048 + zlen d <= a < ext * 2048 + ceiling_div (zlen d) 2048 * 2048 -> apply_writes ws m a = 0.
Proof.
  intros Hwf Hn Hc Hd Hz a Ha.
  destruct (inplace_content_data st m d now ws ext Hwf Hn Hc Hd) as [_ H]. rewrite (H a Ha).
  destruct (a =? ext * 2048 + ceiling_div (zlen d) 2048 * 2048 - 1) eqn:E; [reflexivity|]. apply Hz. lia.
Qed.

Print Assumptions inplace_dr_decodes.
Print Assumptions inplace_fe_decodes.
Print Assumptions inplace_zero_padding_partial.
