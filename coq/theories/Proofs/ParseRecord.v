(* Parse, part 3: PyCdlib._walk_directories on ONE record, in the two situations the writer produces.
     ps_link_fresh    a file record whose extent is not yet a key of extent_to_inode (or whose length is
                      0) gets a NEW inode, appended to self.inodes; no truncation when it ends inside
                      the image
     ps_record_file   the whole step for such a file record that sorts after the children present
     ps_record_dir    the whole step for a record with the directory flag ('.', '..' or a directory
                      whose extent the path table knows) that sorts after the children present *)
From Coq Require Import ZArith List Bool Lia ZifyBool.
From PV.Base Require Import Prim ListX.
From PV.Gen Require Import GenConst GenFun.
From PV.Model Require Import Codec Pack PathTable Names Master Parse.
From PV.Proofs Require Import CodecProofs PackProofs MasterPack ParseTrack.
Import ListNotations.
Local Open Scope Z_scope.

Lemma ps_link_fresh isz st ext dl :
  let e := if dl =? 0 then 0 else ext in
  (dl = 0 \/ ps_assoc ext (s_e2i st) = None) -> e * BS + dl <= isz ->
  ps_link isz st ext dl =
  (length (s_inodes st), dl,
   mk_pstate (s_dirs st) (s_cur st) (s_queue st) (s_inodes st ++ [(e, dl)])
             (if dl =? 0 then s_e2i st else s_e2i st ++ [(e, length (s_inodes st))])
             (s_seen st) (s_level st) (Z.max (s_lastbyte st) (e * BS + dl))).
Proof.
  intros e Hfresh Hend. unfold ps_link, ps_link_gen, e in *. cbv zeta. destruct (dl =? 0) eqn:E.
  - apply Z.eqb_eq in E. subst dl. cbn [negb Z.eqb]. cbv iota.
    replace (0 * BS + 0 >? isz) with false by lia. reflexivity.
  - rewrite !E. cbn [negb]. cbv iota. destruct Hfresh as [H0|Hn]; [lia|]. rewrite Hn.
    replace (ext * BS + dl >? isz) with false by lia. reflexivity.
Qed.

Section Record.
  Variable ptr : list Z.
  Variable isz : Z.

  Lemma ps_record_file st last b r lv :
    parse_dr b = Some r -> sysuse r = [] -> flags r = 0 -> ps_plain (Codec.ident r) ->
    (data_len r = 0 \/ ps_assoc (extent r) (s_e2i st) = None) ->
    (if data_len r =? 0 then 0 else extent r) * BS + data_len r <= isz ->
    (forall a, In a (s_cur st) -> ps_lt (Codec.ident (p_rec a)) (Codec.ident r) = true) ->
    ps_level_file (Codec.ident r) = Some lv -> Z.max (s_level st) lv = s_level st ->
    ps_record ptr isz (st, last) b =
    POk (mk_pstate (s_dirs st)
           (s_cur st ++ [mk_prec r (znth 0 b) (znth 32 b) (data_len r) (Some (length (s_inodes st))) None
                                 (Z.of_nat (length (s_cur st)))
                                 (ps_step_n (fst (ps_last_cache (s_cur st))) (snd (ps_last_cache (s_cur st))) (znth 0 b))
                                 (ps_step_off (snd (ps_last_cache (s_cur st))) (znth 0 b))])
           (s_queue st)
           (s_inodes st ++ [(if data_len r =? 0 then 0 else extent r, data_len r)])
           (if data_len r =? 0 then s_e2i st
            else s_e2i st ++ [(if data_len r =? 0 then 0 else extent r, length (s_inodes st))])
           (s_seen st) (s_level st)
           (Z.max (s_lastbyte st) ((if data_len r =? 0 then 0 else extent r) * BS + data_len r)),
         Some (Codec.ident r)).
  Proof.
    intros Hp Hs Hf [Hn0 Hn1] Hfresh Hend Hlt Hlv Hmax.
    unfold ps_record. rewrite Hp, Hs. change (ps_outside (@nil Z) (znth 32 b)) with false. cbv iota.
    assert (Hd : ps_is_dir r = false) by (unfold ps_is_dir; rewrite Hf; reflexivity).
    assert (Hdot : ps_is_dot r = false) by (apply ps_zlist_eqb_false; exact Hn0).
    assert (Hdd : ps_is_dotdot r = false) by (apply ps_zlist_eqb_false; exact Hn1).
    assert (Hpr : ps_printable r = Codec.ident r) by (unfold ps_printable; rewrite Hdot, Hdd; reflexivity).
    rewrite Hd, Hdot, Hdd, Hpr. cbn [orb andb negb]. cbv iota.
    rewrite (ps_link_fresh isz st (extent r) (data_len r) Hfresh Hend). cbv iota beta zeta.
    cbn [s_dirs s_cur s_queue s_inodes s_e2i s_seen s_level s_lastbyte].
    rewrite ps_track_append by exact Hlt.
    rewrite Hlv, Hmax. reflexivity.
  Qed.

  Lemma ps_record_dir st last b r :
    parse_dr b = Some r -> sysuse r = [] -> flags r = 2 ->
    (ps_is_dot r || ps_is_dotdot r = false -> ps_mem (extent r) ptr = true) ->
    (forall a, In a (s_cur st) -> ps_lt (Codec.ident (p_rec a)) (Codec.ident r) = true) ->
    let queued := negb (ps_is_dot r || ps_is_dotdot r) in
    ps_record ptr isz (st, last) b =
    POk (mk_pstate (s_dirs st)
           (s_cur st ++ [mk_prec r (znth 0 b) (znth 32 b) (data_len r) None
                                 (if queued then Some (length (s_dirs st) + 1 + length (s_queue st))%nat else None)
                                 (Z.of_nat (length (s_cur st)))
                                 (ps_step_n (fst (ps_last_cache (s_cur st))) (snd (ps_last_cache (s_cur st))) (znth 0 b))
                                 (ps_step_off (snd (ps_last_cache (s_cur st))) (znth 0 b))])
           (if queued then s_queue st ++ [(extent r, data_len r)] else s_queue st)
           (s_inodes st) (s_e2i st) (s_seen st)
           (Z.max (s_level st) (ps_level_dir (ps_printable r))) (s_lastbyte st),
         Some (ps_printable r)).
  Proof.
    intros Hp Hs Hf Hptr Hlt queued.
    unfold ps_record. rewrite Hp, Hs. change (ps_outside (@nil Z) (znth 32 b)) with false. cbv iota.
    assert (Hd : ps_is_dir r = true) by (unfold ps_is_dir; rewrite Hf; reflexivity).
    rewrite Hd. cbv iota beta zeta. cbn [andb].
    fold queued. destruct queued eqn:Eq.
    - unfold queued in Eq. apply negb_true_iff in Eq. rewrite (Hptr Eq). cbn [negb]. cbv iota.
      rewrite ps_track_append by exact Hlt. reflexivity.
    - cbv iota. rewrite ps_track_append by exact Hlt. reflexivity.
  Qed.
End Record.

Print Assumptions ps_record_file.
Print Assumptions ps_record_dir.
