(* MasterRR, part 1: the independent System Use walker [mrr_su_walk] on the bytes RockRidge._record writes.
     mrr_absorb_e        what one entry means to the reader (NM piece, PX mode and links, SL record, CE pointer,
                         SP skip, ER identifier; everything else is skipped by its length byte)
     mrr_entry_shape     every entry kind RockRidge.new creates records to  sig, sig, its own length, 1, body  and the
                         byte-level reader extracts from the body exactly what mrr_absorb_e says
     mrr_walk_list       a whole area made of such entries (+ at most 3 trailing bytes) is walked to the fold of
                         mrr_absorb_e over the entries
     mrr_f_*             the five projections of that fold *)
From Coq Require Import ZArith List Bool Lia ZifyBool.
From PV.Base Require Import Prim.
From PV.Model Require Import Codec RREntries RRWalk RRPlace.
From PV.Model Require LongNames.
From PV.Model Require Import AccountRR MasterRR.
From PV.Proofs Require Import CodecProofs RREntriesProofs RRWalkProofs RRPlaceSLProofs RRPlaceProofs.
Import ListNotations.
Local Open Scope Z_scope.

Definition mrr_absorb_e (a : racc) (e : su_entry) : racc :=
  match e with
  | E_NM n => mk_racc (ra_nm a ++ [(nm_flags n, nm_name n)]) (ra_px a) (ra_sl a) (ra_ce a) (ra_sp a) (ra_er a)
  | E_PX p => mk_racc (ra_nm a) (Some (px_mode p, px_links p)) (ra_sl a) (ra_ce a) (ra_sp a) (ra_er a)
  | E_SL s => mk_racc (ra_nm a) (ra_px a) (ra_sl a ++ [sl_view s]) (ra_ce a) (ra_sp a) (ra_er a)
  | E_CE c => mk_racc (ra_nm a) (ra_px a) (ra_sl a) (Some (ce_bl c, ce_off c, ce_len c)) (ra_sp a) (ra_er a)
  | E_SP k => mk_racc (ra_nm a) (ra_px a) (ra_sl a) (ra_ce a) (Some k) (ra_er a)
  | E_ER x => mk_racc (ra_nm a) (ra_px a) (ra_sl a) (ra_ce a) (ra_sp a) (Some (er_id x))
  | _ => a
  end.

(* the entry kinds RockRidge.new creates, with the ranges under which record() succeeds *)
Definition mrr_readable (v : rrv) (e : su_entry) : Prop :=
  match e with
  | E_SP k => u8_ok k = true
  | E_RR f => u8_ok f = true
  | E_NM n => nm_fine n
  | E_PX p => px_ok v p = true
  | E_SL s => sl_made s /\ sl_current_length s <= 255
  | E_TF t => tf_ok t = true
  | E_CL b | E_PL b => u32_ok b = true
  | E_RE => True
  | E_ER x => er_ok x = true /\ u8_ok (zlen (er_id x)) = true /\ u8_ok (zlen (er_des x)) = true /\
              u8_ok (zlen (er_src x)) = true
  | E_CE c => u32_ok (ce_bl c) = true /\ u32_ok (ce_off c) = true /\ u32_ok (ce_len c) = true
  | _ => False
  end.

(* ---- one step of the walk ----------------------------------------------------------------------- *)
Lemma mrr_walk_step s0 s1 x body rest a f :
  (s0 =? 83) && (s1 =? 84) = false ->
  mrr_su_walk (S f) ((s0 :: s1 :: (4 + zlen body) :: x :: body) ++ rest) a =
  mrr_su_walk f rest (mrr_absorb s0 s1 body a).
Proof.
  intros Hst. cbn [app mrr_su_walk]. rewrite Hst.
  pose proof (zlen_nonneg body) as Hb. pose proof (zlen_nonneg rest) as Hr.
  replace ((4 + zlen body <? 4) || (zlen (s0 :: s1 :: 4 + zlen body :: x :: body ++ rest) <? 4 + zlen body))
    with false by (rewrite !zlen_cons, zlen_app; lia).
  replace (Z.to_nat (4 + zlen body - 4)) with (length body) by (unfold zlen; lia).
  rewrite firstn_length_app.
  replace (Z.to_nat (4 + zlen body)) with (S (S (S (S (length body))))) by (unfold zlen; lia).
  cbn [skipn]. rewrite skipn_length_app. reflexivity.
Qed.

Lemma mrr_walk_short f tail a : (length tail < 4)%nat -> mrr_su_walk f tail a = a.
Proof.
  intros H. destruct f as [|f]; [reflexivity|].
  destruct tail as [|a0 [|a1 [|a2 [|a3 t]]]]; try reflexivity. cbn [length] in H. lia.
Qed.

(* ---- little-endian fields ------------------------------------------------------------------------- *)
Lemma mrr_rd32_here a r : length a = 4%nat -> mrr_rd32 (a ++ r) 0 = dle32 a.
Proof. intros H. unfold mrr_rd32. cbn [skipn]. rewrite (firstn_app_exact 4) by exact H. reflexivity. Qed.
Lemma mrr_rd32_skip a r o : length a = 4%nat -> mrr_rd32 (a ++ r) (4 + o) = mrr_rd32 r o.
Proof.
  intros H. unfold mrr_rd32. f_equal. f_equal. rewrite skipn_app, (skipn_all2 a) by lia.
  cbn [app]. f_equal. lia.
Qed.
Lemma mrr_u32 x : u32_ok x = true -> u32 x.
Proof. unfold u32_ok, u32. lia. Qed.

(* ---- SL components -------------------------------------------------------------------------------- *)
Lemma mrr_pair_comp c : LongNames.pair_comp (LongNames.comp_pair c) = c.
Proof. destruct c as [| | |b d]; try reflexivity. destruct b; reflexivity. Qed.

Lemma mrr_comps_bytes cs : forall fuel, (length cs <= fuel)%nat ->
  mrr_comps fuel (flat_map LongNames.comp_bytes cs) = cs.
Proof.
  induction cs as [|c cs IH]; intros fuel Hf.
  - destruct fuel; reflexivity.
  - destruct fuel as [|f]; [cbn [length] in Hf; lia|]. cbn [flat_map].
    unfold LongNames.comp_bytes at 1. destruct (LongNames.comp_pair c) as [fl d] eqn:E.
    cbn [app mrr_comps]. change (LongNames.len d) with (zlen d). rewrite to_nat_zlen.
    rewrite firstn_length_app, skipn_length_app, <- E, mrr_pair_comp, IH; [reflexivity|].
    cbn [length] in Hf. lia.
Qed.

Lemma mrr_comps_len cs : (length cs <= length (flat_map LongNames.comp_bytes cs))%nat.
Proof.
  induction cs as [|c cs IH]; [cbn; lia|]. cbn [flat_map length]. rewrite app_length.
  unfold LongNames.comp_bytes at 1. destruct (LongNames.comp_pair c) as [fl d]. cbn [app length]. lia.
Qed.

(* ---- every created entry kind ---------------------------------------------------------------------- *)
Definition mrr_shape (e : su_entry) (b : list Z) : Prop :=
  exists s0 s1 body, b = s0 :: s1 :: (4 + zlen body) :: 1 :: body /\ (s0 =? 83) && (s1 =? 84) = false /\
                     forall a, mrr_absorb s0 s1 body a = mrr_absorb_e a e.

Ltac mrr_guard H :=
  match type of H with
  | (if ?c then _ else _) = Some _ => destruct c eqn:?; [|discriminate H]; apply some_inv in H; subst
  end.

Lemma mrr_shape_px v p b : px_ok v p = true -> rec_px v p = Some b -> mrr_shape (E_PX p) b.
Proof.
  intros Hok H. unfold rec_px in H. unfold px_ok in Hok.
  assert (Hm : u32 (px_mode p) /\ u32 (px_links p)) by (unfold u32_ok, u32 in *; lia).
  destruct Hm as [Hm Hl].
  destruct v; cbn [len_px] in H; try discriminate H; mrr_guard H; unfold enc_px; cbn [is_v112];
    unfold sig_PX, px_fields, px_serial_fields, SU_ENTRY_VERSION; cbn [concat app].
  1,2: exists 80, 88, (le32 (px_mode p) ++ le32 (swab32 (px_mode p)) ++ le32 (px_links p) ++
         le32 (swab32 (px_links p)) ++ le32 (px_uid p) ++ le32 (swab32 (px_uid p)) ++ le32 (px_gid p) ++
         le32 (swab32 (px_gid p)) ++ []).
  3: exists 80, 88, (le32 (px_mode p) ++ le32 (swab32 (px_mode p)) ++ le32 (px_links p) ++
         le32 (swab32 (px_links p)) ++ le32 (px_uid p) ++ le32 (swab32 (px_uid p)) ++ le32 (px_gid p) ++
         le32 (swab32 (px_gid p)) ++ [] ++ le32 (px_serial p) ++ le32 (swab32 (px_serial p)) ++ [] ++ []).
  all: (split; [rewrite ?app_nil_r; reflexivity|]); (split; [reflexivity|]); intros a;
    unfold mrr_absorb; cbn [Z.eqb Pos.eqb andb mrr_absorb_e];
    rewrite mrr_rd32_here by reflexivity;
    change 8%nat with (4 + (4 + 0))%nat; rewrite !mrr_rd32_skip by reflexivity;
    rewrite mrr_rd32_here by reflexivity; rewrite !le32_dle32 by assumption; reflexivity.
Qed.

Lemma mrr_shape_ce c b : u32_ok (ce_bl c) = true -> u32_ok (ce_off c) = true -> u32_ok (ce_len c) = true ->
  rec_ce c = Some b -> mrr_shape (E_CE c) b.
Proof.
  intros H1 H2 H3 H. unfold rec_ce in H. rewrite H1, H2, H3 in H. apply some_inv in H. subst b.
  unfold enc_ce, sig_CE, ce_fields, SU_ENTRY_VERSION, len_ce. cbn [concat app].
  exists 67, 69, (le32 (ce_bl c) ++ le32 (swab32 (ce_bl c)) ++ le32 (ce_off c) ++ le32 (swab32 (ce_off c)) ++
                 le32 (ce_len c) ++ le32 (swab32 (ce_len c)) ++ []).
  split; [reflexivity|]. split; [reflexivity|]. intros a.
  unfold mrr_absorb. cbn [Z.eqb Pos.eqb andb mrr_absorb_e].
  rewrite mrr_rd32_here by reflexivity.
  change 16%nat with (4 + (4 + (4 + (4 + 0))))%nat. change 8%nat with (4 + (4 + 0))%nat.
  rewrite !mrr_rd32_skip by reflexivity. rewrite !mrr_rd32_here by reflexivity.
  rewrite !le32_dle32 by (apply mrr_u32; assumption). reflexivity.
Qed.

Lemma mrr_shape_nm n b : nm_fine n -> rec_nm n = Some b -> mrr_shape (E_NM n) b.
Proof.
  intros _ H. unfold rec_nm in H. mrr_guard H.
  unfold enc_nm, sig_NM, SU_ENTRY_VERSION, len_nm. cbn [concat app].
  exists 78, 77, (nm_flags n :: nm_name n). split; [rewrite zlen_cons; f_equal; f_equal; f_equal; lia|].
  split; [reflexivity|]. intros a. reflexivity.
Qed.

Lemma mrr_shape_sl s b : sl_made s -> sl_current_length s <= 255 -> rec_sl s = Some b -> mrr_shape (E_SL s) b.
Proof.
  intros Hm Hl H. destruct (sl_rec_ok s Hm Hl) as [R _]. rewrite R in H. apply some_inv in H. subst b.
  rewrite <- (view_bytes s Hm). unfold LongNames.sl_record_bytes.
  set (cs := snd (sl_view s)). set (body := flat_map LongNames.comp_bytes cs).
  exists 83, 76, ((if fst (sl_view s) then 1 else 0) :: body).
  split; [cbn [app]; change (LongNames.len body) with (zlen body); rewrite zlen_cons; f_equal; f_equal; f_equal; lia|].
  split; [reflexivity|]. intros a. unfold mrr_absorb. cbn [Z.eqb Pos.eqb andb mrr_absorb_e hd tl].
  assert (E : (Z.odd (if fst (sl_view s) then 1 else 0), mrr_comps (length ((if fst (sl_view s) then 1 else 0) :: body)) body)
              = sl_view s).
  { rewrite (surjective_pairing (sl_view s)) at 3. f_equal; [destruct (fst (sl_view s)); reflexivity|].
    unfold body. apply mrr_comps_bytes. cbn [length]. pose proof (mrr_comps_len cs). fold cs. lia. }
  rewrite E. reflexivity.
Qed.

Lemma mrr_shape_er x b : u8_ok (zlen (er_id x)) = true -> rec_er x = Some b -> mrr_shape (E_ER x) b.
Proof.
  intros Hid H. unfold rec_er in H. mrr_guard H.
  unfold enc_er, sig_ER, er_fields, SU_ENTRY_VERSION, len_er. cbn [concat app].
  exists 69, 82, (zlen (er_id x) :: zlen (er_des x) :: zlen (er_src x) :: er_ver x :: er_id x ++ er_des x ++ er_src x).
  split; [rewrite !zlen_cons, !zlen_app; f_equal; f_equal; f_equal; lia|].
  split; [reflexivity|]. intros a. unfold mrr_absorb. cbn [Z.eqb Pos.eqb andb mrr_absorb_e hd skipn].
  rewrite to_nat_zlen, firstn_length_app. reflexivity.
Qed.

Lemma mrr_shape_tf t b : tf_ok t = true -> rec_tf t = Some b -> mrr_shape (E_TF t) b.
Proof.
  intros Hok H. destruct (tf_roundtrip t [] Hok) as (R & _ & L & _). rewrite R in H. apply some_inv in H. subst b.
  unfold enc_tf, sig_TF, SU_ENTRY_VERSION in *. cbn [concat app] in *.
  exists 84, 70, (tf_flags t :: concat (tf_present (tf_fields t))).
  split; [rewrite <- L, !zlen_cons; f_equal; f_equal; f_equal; lia|]. split; reflexivity.
Qed.

Theorem mrr_entry_shape v e b : mrr_readable v e -> rec_entry v e = Some b -> mrr_shape e b.
Proof.
  destruct e; cbn [mrr_readable rec_entry]; intros Hr H; try contradiction.
  - unfold rec_sp in H. mrr_guard H. exists 83, 80, [190; 239; skip]. repeat split; reflexivity.
  - unfold rec_rr in H. mrr_guard H. exists 82, 82, [fl]. repeat split; reflexivity.
  - destruct Hr as (A & B & D). exact (mrr_shape_ce c b A B D H).
  - exact (mrr_shape_px v p b Hr H).
  - destruct Hr as (_ & A & _). exact (mrr_shape_er e b A H).
  - destruct Hr as [A B]. exact (mrr_shape_sl s b A B H).
  - exact (mrr_shape_nm n b Hr H).
  - unfold rec_link in H. mrr_guard H. unfold enc_link, sig_CL, link_fields, SU_ENTRY_VERSION, len_link.
    cbn [concat app]. exists 67, 76, (le32 bl ++ le32 (swab32 bl) ++ []). repeat split; reflexivity.
  - unfold rec_link in H. mrr_guard H. unfold enc_link, sig_PL, link_fields, SU_ENTRY_VERSION, len_link.
    cbn [concat app]. exists 80, 76, (le32 bl ++ le32 (swab32 bl) ++ []). repeat split; reflexivity.
  - apply some_inv in H. subst b. exists 82, 69, []. repeat split; reflexivity.
  - exact (mrr_shape_tf t b Hr H).
Qed.

(* ---- a whole area ---------------------------------------------------------------------------------- *)
Theorem mrr_walk_list v es : Forall (mrr_readable v) es -> forall bs tail fuel a,
  record_list v es = Some bs -> (length tail < 4)%nat -> (length es <= fuel)%nat ->
  mrr_su_walk fuel (bs ++ tail) a = fold_left mrr_absorb_e es a.
Proof.
  induction 1 as [|e es He _ IH]; intros bs tail fuel a Hr Ht Hf.
  - apply some_inv in Hr. subst bs. cbn [app fold_left]. apply mrr_walk_short. exact Ht.
  - destruct (record_list_cons v e es bs Hr) as (b & bs' & Hb & Hbs & ->).
    destruct (mrr_entry_shape v e b He Hb) as (s0 & s1 & body & -> & Hst & Ha).
    destruct fuel as [|f]; [cbn [length] in Hf; lia|]. rewrite <- app_assoc, mrr_walk_step by exact Hst.
    cbn [fold_left]. rewrite Ha. apply IH; [exact Hbs|exact Ht|cbn [length] in Hf; lia].
Qed.

(* the entry's own length byte is its length: the lengths add up to the area *)
Lemma mrr_shape_len e b : mrr_shape e b -> nth 2 b 0 = zlen b /\ 4 <= zlen b.
Proof.
  intros (s0 & s1 & body & -> & _). cbn [nth]. rewrite !zlen_cons. pose proof (zlen_nonneg body). lia.
Qed.

(* ---- projections of the fold ------------------------------------------------------------------------ *)
Definition mrr_get_px (e : su_entry) : option (Z * Z) :=
  match e with E_PX p => Some (px_mode p, px_links p) | _ => None end.
Definition mrr_get_sp (e : su_entry) : option Z := match e with E_SP k => Some k | _ => None end.
Definition mrr_get_er (e : su_entry) : option (list Z) := match e with E_ER x => Some (er_id x) | _ => None end.
Definition mrr_get_ce (e : su_entry) : option (Z * Z * Z) :=
  match e with E_CE c => Some (ce_bl c, ce_off c, ce_len c) | _ => None end.
(* the last entry of the kind wins *)
Definition mrr_upd {B} (g : su_entry -> option B) (o : option B) (e : su_entry) : option B :=
  match g e with Some b => Some b | None => o end.

Lemma mrr_f_nm es : forall a, ra_nm (fold_left mrr_absorb_e es a) = ra_nm a ++ map nm_pair (nm_list es).
Proof.
  induction es as [|e es IH]; intros a; cbn [fold_left]; [cbn; rewrite app_nil_r; reflexivity|].
  rewrite IH. destruct e; cbn [mrr_absorb_e ra_nm nm_list flat_map app map]; try reflexivity.
  rewrite <- app_assoc. reflexivity.
Qed.
Lemma mrr_f_sl es : forall a, ra_sl (fold_left mrr_absorb_e es a) = ra_sl a ++ map sl_view (sl_of es).
Proof.
  induction es as [|e es IH]; intros a; cbn [fold_left]; [cbn; rewrite app_nil_r; reflexivity|].
  rewrite IH. destruct e; cbn [mrr_absorb_e ra_sl sl_of flat_map app map]; try reflexivity.
  rewrite <- app_assoc. reflexivity.
Qed.
Lemma mrr_f_px es : forall a, ra_px (fold_left mrr_absorb_e es a) = fold_left (mrr_upd mrr_get_px) es (ra_px a).
Proof. induction es as [|e es IH]; intros a; cbn [fold_left]; [reflexivity|]. rewrite IH. destruct e; reflexivity. Qed.
Lemma mrr_f_sp es : forall a, ra_sp (fold_left mrr_absorb_e es a) = fold_left (mrr_upd mrr_get_sp) es (ra_sp a).
Proof. induction es as [|e es IH]; intros a; cbn [fold_left]; [reflexivity|]. rewrite IH. destruct e; reflexivity. Qed.
Lemma mrr_f_er es : forall a, ra_er (fold_left mrr_absorb_e es a) = fold_left (mrr_upd mrr_get_er) es (ra_er a).
Proof. induction es as [|e es IH]; intros a; cbn [fold_left]; [reflexivity|]. rewrite IH. destruct e; reflexivity. Qed.
Lemma mrr_f_ce es : forall a, ra_ce (fold_left mrr_absorb_e es a) = fold_left (mrr_upd mrr_get_ce) es (ra_ce a).
Proof. induction es as [|e es IH]; intros a; cbn [fold_left]; [reflexivity|]. rewrite IH. destruct e; reflexivity. Qed.

(* when all entries of a kind say the same, and there is one (or the start value says so), the fold holds it *)
Lemma mrr_upd_all {B} (g : su_entry -> option B) es b0 : (forall e b, In e es -> g e = Some b -> b = b0) ->
  forall o, (o = Some b0 \/ exists e, In e es /\ g e <> None) -> fold_left (mrr_upd g) es o = Some b0.
Proof.
  induction es as [|e es IH]; intros Hall o Ho; cbn [fold_left].
  - destruct Ho as [Ho|(e & [] & _)]. exact Ho.
  - apply IH; [intros e' b Hin; apply Hall; right; exact Hin|]. unfold mrr_upd.
    destruct (g e) as [b|] eqn:E.
    + left. rewrite (Hall e b (or_introl eq_refl) E). reflexivity.
    + destruct Ho as [Ho|(e' & [<-|Hin] & Hg)]; [left; exact Ho|congruence|right; exists e'; split; assumption].
Qed.
Lemma mrr_upd_none {B} (g : su_entry -> option B) es : (forall e, In e es -> g e = None) ->
  forall o, fold_left (mrr_upd g) es o = o.
Proof.
  induction es as [|e es IH]; intros Hn o; cbn [fold_left]; [reflexivity|].
  rewrite IH by (intros e' Hin; apply Hn; right; exact Hin). unfold mrr_upd.
  rewrite (Hn e (or_introl eq_refl)). reflexivity.
Qed.

Print Assumptions mrr_entry_shape.
Print Assumptions mrr_walk_list.
