(* MasterRR, part 3: a continuation block as the zero-filled sector on which _write_directory_records pastes the
   continuation areas (seek + write).
     mrr_block_len    all writes inside the sector: the block stays 2048 bytes
     mrr_block_read   a write that every other write of the list either equals or misses (another block, or a range
                      that does not meet it) is read back from the finished block, whatever the order of the writes *)
From Coq Require Import ZArith List Bool Lia ZifyBool.
From PV.Base Require Import Prim.
From PV.Model Require Import MasterRR.
From PV.Proofs Require Import CodecProofs.
Import ListNotations.
Local Open Scope Z_scope.

(* ---- nth through firstn / skipn ---------------------------------------------------------------------- *)
Lemma mrr_nth_firstn {A} (d : A) : forall n l k, (k < n)%nat -> nth k (firstn n l) d = nth k l d.
Proof.
  induction n as [|n IH]; intros l k Hk; [lia|]. destruct l as [|x l]; [destruct k; reflexivity|].
  destruct k as [|k]; [reflexivity|]. cbn [firstn nth]. apply IH. lia.
Qed.
Lemma mrr_nth_skipn {A} (d : A) : forall n l k, nth k (skipn n l) d = nth (n + k) l d.
Proof.
  induction n as [|n IH]; intros l k; [reflexivity|]. destruct l as [|x l]; [destruct k; reflexivity|].
  cbn [skipn Nat.add nth]. apply IH.
Qed.

Definition mrr_paste_n (blk : list Z) (o : nat) (bs : list Z) : list Z :=
  firstn o blk ++ bs ++ skipn (o + length bs) blk.

Lemma mrr_paste_n_len blk o bs : (o + length bs <= length blk)%nat -> length (mrr_paste_n blk o bs) = length blk.
Proof. intros H. unfold mrr_paste_n. rewrite !app_length, firstn_length, skipn_length. lia. Qed.

Lemma mrr_paste_n_nth blk o bs k : (o + length bs <= length blk)%nat ->
  nth k (mrr_paste_n blk o bs) 0 =
  if (k <? o)%nat then nth k blk 0 else if (k <? o + length bs)%nat then nth (k - o) bs 0 else nth k blk 0.
Proof.
  intros H. unfold mrr_paste_n.
  assert (Lf : length (firstn o blk) = o) by (rewrite firstn_length; lia).
  destruct (k <? o)%nat eqn:E1.
  - apply Nat.ltb_lt in E1. rewrite app_nth1 by lia. apply mrr_nth_firstn. exact E1.
  - apply Nat.ltb_ge in E1. rewrite app_nth2 by lia. rewrite Lf.
    destruct (k <? o + length bs)%nat eqn:E2.
    + apply Nat.ltb_lt in E2. rewrite app_nth1 by lia. reflexivity.
    + apply Nat.ltb_ge in E2. rewrite app_nth2 by lia. rewrite mrr_nth_skipn. f_equal. lia.
Qed.

Definition mrr_slice_n (blk : list Z) (o l : nat) : list Z := firstn l (skipn o blk).

Lemma mrr_slice_n_len blk o l : (o + l <= length blk)%nat -> length (mrr_slice_n blk o l) = l.
Proof. intros H. unfold mrr_slice_n. rewrite firstn_length, skipn_length. lia. Qed.
Lemma mrr_slice_n_nth blk o l k : (k < l)%nat -> nth k (mrr_slice_n blk o l) 0 = nth (o + k) blk 0.
Proof. intros H. unfold mrr_slice_n. rewrite mrr_nth_firstn by exact H. apply mrr_nth_skipn. Qed.

Lemma mrr_paste_n_here blk o bs : (o + length bs <= length blk)%nat ->
  mrr_slice_n (mrr_paste_n blk o bs) o (length bs) = bs.
Proof.
  intros H. apply (nth_ext _ _ 0 0).
  - apply mrr_slice_n_len. rewrite mrr_paste_n_len by exact H. exact H.
  - intros k Hk. rewrite mrr_slice_n_len in Hk by (rewrite mrr_paste_n_len by exact H; exact H).
    rewrite mrr_slice_n_nth by exact Hk. rewrite mrr_paste_n_nth by exact H.
    replace (o + k <? o)%nat with false by (symmetry; apply Nat.ltb_ge; lia).
    replace (o + k <? o + length bs)%nat with true by (symmetry; apply Nat.ltb_lt; lia).
    f_equal. lia.
Qed.

Lemma mrr_paste_n_other blk o bs o' l' : (o + length bs <= length blk)%nat -> (o' + l' <= length blk)%nat ->
  (o' + l' <= o \/ o + length bs <= o')%nat ->
  mrr_slice_n (mrr_paste_n blk o bs) o' l' = mrr_slice_n blk o' l'.
Proof.
  intros H H' Hd. apply (nth_ext _ _ 0 0).
  - rewrite !mrr_slice_n_len; [reflexivity|exact H'|rewrite mrr_paste_n_len by exact H; exact H'].
  - intros k Hk. rewrite mrr_slice_n_len in Hk by (rewrite mrr_paste_n_len by exact H; exact H').
    rewrite !mrr_slice_n_nth by exact Hk. rewrite mrr_paste_n_nth by exact H.
    destruct (o' + k <? o)%nat eqn:E1; [reflexivity|]. apply Nat.ltb_ge in E1.
    replace (o' + k <? o + length bs)%nat with false by (symmetry; apply Nat.ltb_ge; lia). reflexivity.
Qed.

(* ---- the Z-indexed paste of the model ------------------------------------------------------------------ *)
Lemma mrr_paste_eq blk off bs : 0 <= off -> mrr_paste blk off bs = mrr_paste_n blk (Z.to_nat off) bs.
Proof. intros H. unfold mrr_paste, mrr_paste_n. f_equal. f_equal. f_equal. unfold zlen. lia. Qed.

Definition wr : Type := (Z * Z * list Z)%type.
Definition mrr_wfit (w : wr) : Prop := 0 <= snd (fst w) /\ snd (fst w) + zlen (snd w) <= BS.
(* another block, or ranges that do not meet *)
Definition mrr_wapart (w w0 : wr) : Prop :=
  fst (fst w) <> fst (fst w0) \/ snd (fst w) + zlen (snd w) <= snd (fst w0) \/
  snd (fst w0) + zlen (snd w0) <= snd (fst w).

Definition mrr_bstep (e : Z) (blk : list Z) (w : wr) : list Z :=
  if fst (fst w) =? e then mrr_paste blk (snd (fst w)) (snd w) else blk.
Lemma mrr_block_fold ws e : mrr_block ws e = fold_left (mrr_bstep e) ws (repeat 0 (Z.to_nat BS)).
Proof. reflexivity. Qed.

Lemma mrr_bstep_len e blk w : mrr_wfit w -> zlen blk = BS -> zlen (mrr_bstep e blk w) = BS.
Proof.
  intros [H0 H1] Hb. unfold mrr_bstep. destruct (fst (fst w) =? e); [|exact Hb].
  rewrite mrr_paste_eq by exact H0. unfold zlen in *. rewrite mrr_paste_n_len; [exact Hb|]. lia.
Qed.

Lemma mrr_fold_len e ws : Forall mrr_wfit ws -> forall blk, zlen blk = BS ->
  zlen (fold_left (mrr_bstep e) ws blk) = BS.
Proof.
  induction 1 as [|w ws Hw _ IH]; intros blk Hb; [exact Hb|]. cbn [fold_left]. apply IH.
  apply mrr_bstep_len; assumption.
Qed.

Theorem mrr_block_len ws e : Forall mrr_wfit ws -> zlen (mrr_block ws e) = BS.
Proof.
  intros H. rewrite mrr_block_fold. apply mrr_fold_len; [exact H|].
  unfold zlen. rewrite repeat_length. reflexivity.
Qed.

Theorem mrr_block_read ws e off bs : Forall mrr_wfit ws -> In (e, off, bs) ws ->
  Forall (fun w => w = (e, off, bs) \/ mrr_wapart w (e, off, bs)) ws ->
  firstn (Z.to_nat (zlen bs)) (skipn (Z.to_nat off) (mrr_block ws e)) = bs.
Proof.
  destruct bs as [|b0 bs0]; [reflexivity|]. set (bs := b0 :: bs0).
  assert (Hnz : 0 < zlen bs) by (unfold bs; rewrite zlen_cons; pose proof (zlen_nonneg bs0); lia). clearbody bs.
  rewrite mrr_block_fold.
  assert (Hb0 : zlen (repeat 0 (Z.to_nat BS)) = BS) by (unfold zlen; rewrite repeat_length; reflexivity).
  revert Hb0. generalize (repeat 0 (Z.to_nat BS)). intros blk0 Hb0.
  revert blk0 Hb0. pattern ws. apply rev_ind; [intros blk0 _ _ []|].
  intros w ws' IH blk0 Hb0 Hfit Hin Hall.
  apply Forall_app in Hfit. destruct Hfit as [Hfit Hw]. inversion Hw as [|? ? Hw1 _]; subst.
  apply Forall_app in Hall. destruct Hall as [Hall Hw']. inversion Hw' as [|? ? Hw2 _]; subst.
  rewrite fold_left_app. cbn [fold_left].
  pose proof (mrr_fold_len e ws' Hfit blk0 Hb0) as Hlen. set (blk := fold_left (mrr_bstep e) ws' blk0) in *.
  assert (Hfit0 : mrr_wfit (e, off, bs)).
  { apply in_app_or in Hin. destruct Hin as [Hin|[<-|[]]]; [|exact Hw1].
    exact (proj1 (Forall_forall _ _) Hfit _ Hin). }
  destruct Hfit0 as [F0 F1]. cbn [fst snd] in F0, F1.
  change (firstn (Z.to_nat (zlen bs)) (skipn (Z.to_nat off) ?x)) with (mrr_slice_n x (Z.to_nat off) (Z.to_nat (zlen bs))).
  rewrite to_nat_zlen.
  destruct Hw2 as [->|Hap].
  - unfold mrr_bstep. cbn [fst snd]. rewrite Z.eqb_refl, mrr_paste_eq by exact F0.
    apply mrr_paste_n_here. unfold zlen in *. lia.
  - assert (Hin' : In (e, off, bs) ws').
    { apply in_app_or in Hin. destruct Hin as [Hin|[E|[]]]; [exact Hin|]. subst w.
      exfalso. destruct Hap as [Hap|[Hap|Hap]]; cbn [fst snd] in Hap; [apply Hap; reflexivity|lia|lia]. }
    specialize (IH blk0 Hb0 Hfit Hin' Hall). fold blk in IH.
    change (firstn (Z.to_nat (zlen bs)) (skipn (Z.to_nat off) blk)) with (mrr_slice_n blk (Z.to_nat off) (Z.to_nat (zlen bs))) in IH.
    rewrite to_nat_zlen in IH.
    unfold mrr_bstep. destruct (fst (fst w) =? e) eqn:Ee; [|exact IH].
    destruct Hw1 as [G0 G1]. rewrite mrr_paste_eq by exact G0. rewrite <- IH at 2.
    unfold mrr_wapart in Hap. cbn [fst snd] in Hap. unfold BS, zlen in *.
    apply mrr_paste_n_other; lia.
Qed.

Print Assumptions mrr_block_len.
Print Assumptions mrr_block_read.
