(* Proofs about Model/VolDesc.v, part 2: the both-endian discipline of record()/parse() of a
   PrimaryOrSupplementaryVD, the space accounting arithmetic, and real descriptors (bytes produced by
   /repo's pycdlib) run through the harness checkers.

   Main results
     record_both_endian             in record(vd) the ten halves are le/be encodings of the same value
     record_passes_pair_checks      ... so the five "disagree" tests of parse() pass for every vd
     parse_rejects_altered_field    altering one half (field level) makes parse() raise
     parse_rejects_altered_half     the same at byte level (offsets 80 84 120 .. 136 of the 2048 bytes)
     add_remove_same add_multiple add_general ceiling_div_spec
     space_accounting_not_additive_refuted / _partial / space_accounting_drift_bound
     vd_add_remove_same vd_copy_sizes_spec  vddate_new_agrees_with_Dates
     real_*_check                   check_vd_bytes / check_pvd_new_case on real descriptors *)
From Coq Require Import ZArith List Bool Lia ZifyBool.
From PV.Base Require Import Prim.
From PV.Gen Require Import GenConst GenFun.
From PV.Model Require Import Codec VolDesc.
From PV.Proofs Require Import CodecProofs VolDescProofs.
From PV.Model Require Dates.
Import ListNotations.
Local Open Scope Z_scope.
Ltac Zify.zify_post_hook ::= Z.to_euclidean_division_equations.

(* ---- 2a. record() writes agreeing halves -------------------------------------------------- *)
Lemma record_vd_inv now v b : record_vd now v = Some b ->
  exists rb, root_record (vd_root v) = Some rb /\ vd_ranges_ok v = true /\
             b = concat (vd_fields now v rb).
Proof.
  unfold record_vd. destruct (root_record (vd_root v)) as [rb|]; [|discriminate].
  destruct (vd_ranges_ok v); [|discriminate]. intros E. apply some_inv in E. eauto.
Qed.

(* field numbers (in the generated fmt_pvd_widths) of the little-/big-endian halves *)
Theorem record_both_endian now v b : record_vd now v = Some b ->
  exists fs, split_widths (widths fmt_pvd_widths) b = Some (fs, []) /\
    fld 7 fs = le32 (vd_space v) /\ fld 8 fs = be32 (vd_space v) /\
    fld 10 fs = le16 (vd_setsize v) /\ fld 11 fs = be16 (vd_setsize v) /\
    fld 12 fs = le16 (vd_seqnum v) /\ fld 13 fs = be16 (vd_seqnum v) /\
    fld 14 fs = le16 (vd_lbs v) /\ fld 15 fs = be16 (vd_lbs v) /\
    fld 16 fs = le32 (vd_ptsize v) /\ fld 17 fs = be32 (vd_ptsize v) /\
    dle32 (fld 7 fs) = vd_space v /\ dbe32 (fld 8 fs) = vd_space v /\
    dle16 (fld 10 fs) = vd_setsize v /\ dbe16 (fld 11 fs) = vd_setsize v /\
    dle16 (fld 12 fs) = vd_seqnum v /\ dbe16 (fld 13 fs) = vd_seqnum v /\
    dle16 (fld 14 fs) = vd_lbs v /\ dbe16 (fld 15 fs) = vd_lbs v /\
    dle32 (fld 16 fs) = vd_ptsize v /\ dbe32 (fld 17 fs) = vd_ptsize v.
Proof.
  intros H. destruct (record_vd_inv now v b H) as (rb & _ & Hr & ->).
  apply vd_ranges in Hr.
  destruct Hr as (Rty & Rver & Rfl & Rsp & Rss & Rsq & Rlb & Rpt & Rle & Role & Rbe & Robe & Rfsv).
  exists (vd_fields now v rb). rewrite <- (vd_layout now v rb), split_concat_nil.
  unfold vd_fields, fld. cbn [nth]. rewrite !le32_swab32, !le16_swab16.
  rewrite !le32_dle32, !be32_dbe32, !le16_dle16, !be16_dbe16 by assumption.
  repeat split; reflexivity.
Qed.

(* the five "Little-endian and big-endian ... disagree" tests of parse() *)
Definition pair_checks (fs : list (list Z)) : bool :=
  (dle32 (fld 7 fs) =? swab32 (dle32 (fld 8 fs))) && (dle16 (fld 10 fs) =? swab16 (dle16 (fld 11 fs))) &&
  (dle16 (fld 12 fs) =? swab16 (dle16 (fld 13 fs))) && (dle16 (fld 14 fs) =? swab16 (dle16 (fld 15 fs))) &&
  (dle32 (fld 16 fs) =? swab32 (dle32 (fld 17 fs))).

Theorem record_passes_pair_checks now v b : record_vd now v = Some b ->
  exists fs, split_widths (widths fmt_pvd_widths) b = Some (fs, []) /\ pair_checks fs = true.
Proof.
  intros H. destruct (record_vd_inv now v b H) as (rb & _ & Hr & ->).
  apply vd_ranges in Hr.
  destruct Hr as (Rty & Rver & Rfl & Rsp & Rss & Rsq & Rlb & Rpt & Rle & Role & Rbe & Robe & Rfsv).
  exists (vd_fields now v rb). rewrite <- (vd_layout now v rb), split_concat_nil.
  split; [reflexivity|]. unfold pair_checks, vd_fields, fld. cbn [nth].
  rewrite !le32_dle32 by (first [assumption | apply swab32_range]).
  rewrite !le16_dle16 by (first [assumption | apply swab16_range]).
  rewrite !swab32_invol, !swab16_invol, !Z.eqb_refl by assumption. reflexivity.
Qed.

(* ---- 2b. parse() rejects an altered half -------------------------------------------------- *)
Lemma parse_vd_fields_pairs ty fs v : parse_vd_fields ty fs = Some v -> pair_checks fs = true.
Proof.
  unfold parse_vd_fields. cbv zeta.
  match goal with |- (if negb ?c then _ else _) = _ -> _ => destruct c eqn:E; [|discriminate] end.
  intros _. unfold vd_checks in E. split_andb E. unfold pair_checks. lia.
Qed.

Fixpoint upd_nth {A} (i : nat) (x : A) (l : list A) : list A :=
  match l, i with
  | [], _ => []
  | _ :: t, O => x :: t
  | h :: t, S j => h :: upd_nth j x t
  end.
(* overwrite the bytes at [off, off + len x) *)
Definition splice (off : nat) (x b : list Z) : list Z := firstn off b ++ x ++ skipn (off + length x) b.
Definition field_offset (i : nat) (fs : list (list Z)) : nat := length (concat (firstn i fs)).

Lemma skipn_app_plus {A} (h l : list A) n : skipn (length h + n) (h ++ l) = skipn n l.
Proof. induction h as [|a h IH]; cbn; [reflexivity|exact IH]. Qed.

Lemma map_length_upd_nth (fs : list (list Z)) : forall i x,
  length x = length (nth i fs []) -> map (@length Z) (upd_nth i x fs) = map (@length Z) fs.
Proof.
  induction fs as [|h t IH]; intros [|j] x Hx; cbn [upd_nth map nth] in *; try reflexivity.
  - rewrite Hx. reflexivity.
  - rewrite IH by exact Hx. reflexivity.
Qed.

Lemma concat_upd_nth (fs : list (list Z)) : forall i x, (i < length fs)%nat ->
  length x = length (nth i fs []) ->
  concat (upd_nth i x fs) = splice (field_offset i fs) x (concat fs) /\
  firstn (length x) (skipn (field_offset i fs) (concat fs)) = nth i fs [].
Proof.
  unfold splice, field_offset.
  induction fs as [|h t IH]; intros [|j] x Hi Hx; cbn [length] in Hi; try lia;
    cbn [upd_nth concat firstn nth length app skipn] in *.
  - rewrite Nat.add_0_l, Hx, skipn_length_app, firstn_length_app. split; reflexivity.
  - destruct (IH j x) as [I1 I2]; [lia|exact Hx|].
    rewrite app_length, firstn_app_2, <- Nat.add_assoc, !skipn_app_plus, I1, I2, <- app_assoc.
    split; reflexivity.
Qed.

Lemma half_le32 x s : bytes x -> length x = 4%nat -> u32 s ->
  (dle32 x =? swab32 (dle32 (le32 (swab32 s)))) = true -> x = le32 s.
Proof.
  intros Hb Hl Hs H. rewrite le32_dle32, swab32_invol in H by (assumption || apply swab32_range).
  destruct x as [|a [|b [|c [|d [|? ?]]]]]; try discriminate. unfold bytes in Hb.
  repeat match goal with Hz : Forall _ (_ :: _) |- _ => inversion Hz; clear Hz; subst end.
  rewrite <- (dle32_le32 a b c d) by assumption. f_equal. lia.
Qed.
Lemma half_be32 x s : bytes x -> length x = 4%nat -> u32 s ->
  (dle32 (le32 s) =? swab32 (dle32 x)) = true -> x = le32 (swab32 s).
Proof.
  intros Hb Hl Hs H. rewrite le32_dle32 in H by assumption.
  destruct x as [|a [|b [|c [|d [|? ?]]]]]; try discriminate. unfold bytes in Hb.
  repeat match goal with Hz : Forall _ (_ :: _) |- _ => inversion Hz; clear Hz; subst end.
  rewrite <- (dle32_le32 a b c d) by assumption. f_equal.
  assert (E : s = swab32 (dle32 [a; b; c; d])) by lia. rewrite E.
  symmetry. apply swab32_invol. apply dle32_range; assumption.
Qed.
Lemma half_le16 x s : bytes x -> length x = 2%nat -> u16 s ->
  (dle16 x =? swab16 (dle16 (le16 (swab16 s)))) = true -> x = le16 s.
Proof.
  intros Hb Hl Hs H. rewrite le16_dle16, swab16_invol in H by (assumption || apply swab16_range).
  destruct x as [|a [|b [|? ?]]]; try discriminate. unfold bytes in Hb.
  repeat match goal with Hz : Forall _ (_ :: _) |- _ => inversion Hz; clear Hz; subst end.
  rewrite <- (dle16_le16 a b) by assumption. f_equal. lia.
Qed.
Lemma half_be16 x s : bytes x -> length x = 2%nat -> u16 s ->
  (dle16 (le16 s) =? swab16 (dle16 x)) = true -> x = le16 (swab16 s).
Proof.
  intros Hb Hl Hs H. rewrite le16_dle16 in H by assumption.
  destruct x as [|a [|b [|? ?]]]; try discriminate. unfold bytes in Hb.
  repeat match goal with Hz : Forall _ (_ :: _) |- _ => inversion Hz; clear Hz; subst end.
  rewrite <- (dle16_le16 a b) by assumption. f_equal.
  assert (E : s = swab16 (dle16 [a; b])) by lia. rewrite E.
  symmetry. apply swab16_invol. apply dle16_range; assumption.
Qed.

(* the ten halves: space size, set size, seqnum, logical block size, path table size *)
Definition pair_halves : list nat := [7; 8; 10; 11; 12; 13; 14; 15; 16; 17]%nat.

(* field level: replace one half by any other bytes of the same width *)
Theorem parse_rejects_altered_field now v rb ty i x :
  vd_ranges_ok v = true -> In i pair_halves -> bytes x ->
  length x = length (nth i (vd_fields now v rb) []) -> x <> nth i (vd_fields now v rb) [] ->
  parse_vd ty (concat (upd_nth i x (vd_fields now v rb))) = None.
Proof.
  intros Hr Hi Hb Hl Hne. apply vd_ranges in Hr.
  destruct Hr as (Rty & Rver & Rfl & Rsp & Rss & Rsq & Rlb & Rpt & Rle & Role & Rbe & Robe & Rfsv).
  destruct (parse_vd ty (concat (upd_nth i x (vd_fields now v rb)))) as [v'|] eqn:E; [exfalso|reflexivity].
  unfold parse_vd in E.
  rewrite <- (vd_layout now v rb), <- (map_length_upd_nth _ i x Hl), split_concat_nil in E.
  apply parse_vd_fields_pairs in E. unfold pair_checks, fld in E. apply Hne. clear Hne.
  cbn [In pair_halves] in Hi.
  repeat (destruct Hi as [<-|Hi]; [cbn [vd_fields upd_nth nth] in E, Hl |- *; split_andb E|]);
    [ eapply half_le32 | eapply half_be32 | eapply half_le16 | eapply half_be16 | eapply half_le16
    | eapply half_be16 | eapply half_le16 | eapply half_be16 | eapply half_le32 | eapply half_be32 | ];
    try eassumption; try exact Hl. destruct Hi.
Qed.

Definition pair_offset (i : nat) : nat :=
  nth i [0; 0; 0; 0; 0; 0; 0; 80; 84; 0; 120; 122; 124; 126; 128; 130; 132; 136]%nat 0%nat.
Definition pair_width (i : nat) : nat :=
  nth i [0; 0; 0; 0; 0; 0; 0; 4; 4; 0; 2; 2; 2; 2; 2; 2; 4; 4]%nat 0%nat.

Lemma pair_offset_ok now v rb i : In i pair_halves ->
  field_offset i (vd_fields now v rb) = pair_offset i /\
  length (nth i (vd_fields now v rb) []) = pair_width i /\ (i < length (vd_fields now v rb))%nat.
Proof.
  intros Hi. cbn [In pair_halves] in Hi. unfold field_offset.
  repeat (destruct Hi as [<-|Hi];
    [rewrite length_concat; cbn [vd_fields firstn map nth]; rewrite !pack_s_length;
     repeat split; (reflexivity || (cbn [vd_fields length]; lia))|]).
  destruct Hi.
Qed.

(* byte level: overwrite the 4 (2) bytes of one half of the 2048 recorded bytes with anything else *)
Theorem parse_rejects_altered_half now v b ty i x :
  record_vd now v = Some b -> In i pair_halves -> bytes x -> length x = pair_width i ->
  x <> firstn (pair_width i) (skipn (pair_offset i) b) ->
  parse_vd ty (splice (pair_offset i) x b) = None.
Proof.
  intros H Hi Hb Hl Hne. destruct (record_vd_inv now v b H) as (rb & _ & Hr & ->).
  destruct (pair_offset_ok now v rb i Hi) as (Ho & Hw & Hlt).
  destruct (concat_upd_nth (vd_fields now v rb) i x Hlt) as [C1 C2]; [congruence|].
  rewrite Ho in C1, C2. rewrite <- C1. rewrite Hl in C2.
  apply parse_rejects_altered_field; try assumption; congruence.
Qed.

(* ---- 3. space accounting ------------------------------------------------------------------ *)
Lemma ceiling_div_spec n d : 0 < d -> (ceiling_div n d - 1) * d < n <= ceiling_div n d * d.
Proof. intros Hd. unfold ceiling_div. nia. Qed.
Lemma ceiling_div_alt n d : 0 < d -> ceiling_div n d = (n + d - 1) / d.
Proof. intros Hd. unfold ceiling_div. nia. Qed.

(* add(n) then remove(n) always restores: both calls round n the same way *)
Theorem add_remove_same s l n : remove_from_space_size (add_to_space_size s l n) l n = s.
Proof. unfold remove_from_space_size, add_to_space_size. lia. Qed.
Theorem add_multiple s l k : 0 < l -> add_to_space_size s l (k * l) = s + k.
Proof. intros Hl. unfold add_to_space_size. rewrite ceiling_div_alt by exact Hl. nia. Qed.
(* general n: the ceiling, i.e. n/l extents plus one more unless l divides n *)
Theorem add_general s l n : 0 < l ->
  add_to_space_size s l n = s + (n + l - 1) / l /\
  add_to_space_size s l n = s + n / l + (if n mod l =? 0 then 0 else 1) /\
  remove_from_space_size s l n = s - n / l - (if n mod l =? 0 then 0 else 1).
Proof.
  intros Hl. unfold add_to_space_size, remove_from_space_size. rewrite ceiling_div_alt by exact Hl.
  destruct (n mod l =? 0) eqn:E; nia.
Qed.

(* two additions followed by ONE removal of the sum do not cancel: each call rounds separately *)
Theorem space_accounting_not_additive_refuted :
  exists s l a b, 0 < l /\ 0 <= a /\ 0 <= b /\
    remove_from_space_size (add_to_space_size (add_to_space_size s l a) l b) l (a + b) <> s.
Proof. exists 17, 2048, 1, 1. vm_compute. repeat split; discriminate. Qed.
Lemma ceiling_div_decomp q r l : 0 < l -> 0 <= r < l ->
  ceiling_div (q * l + r) l = q + (if r =? 0 then 0 else 1).
Proof.
  intros Hl Hr. rewrite ceiling_div_alt by exact Hl.
  replace (q * l + r + l - 1) with (q * l + (r + l - 1)) by lia. rewrite Z.div_add_l by lia. f_equal.
  destruct (r =? 0) eqn:E; [apply Z.div_small; lia|].
  symmetry. apply (Z.div_unique (r + l - 1) l 1 (r - 1)); lia.
Qed.
(* the leak is 0 or 1 extent per such triple: 0 exactly when a remainder is 0 or they overflow l *)
Theorem space_accounting_drift_bound s l a b : 0 < l ->
  let r := remove_from_space_size (add_to_space_size (add_to_space_size s l a) l b) l (a + b) in
  s <= r <= s + 1 /\ (r = s <-> (a mod l = 0 \/ b mod l = 0 \/ l < a mod l + b mod l)).
Proof.
  intros Hl. cbv zeta. unfold remove_from_space_size, add_to_space_size.
  pose proof (Z.div_mod a l) as Ea. pose proof (Z.div_mod b l) as Eb.
  pose proof (Z.mod_pos_bound a l Hl) as Ba. pose proof (Z.mod_pos_bound b l Hl) as Bb.
  set (qa := a / l) in *. set (ra := a mod l) in *. set (qb := b / l) in *. set (rb := b mod l) in *.
  clearbody qa ra qb rb. rewrite Ea, Eb by lia.
  replace (l * qa + ra) with (qa * l + ra) by lia. replace (l * qb + rb) with (qb * l + rb) by lia.
  rewrite !ceiling_div_decomp by assumption.
  destruct (ra + rb <? l) eqn:E.
  - replace (qa * l + ra + (qb * l + rb)) with ((qa + qb) * l + (ra + rb)) by lia.
    rewrite ceiling_div_decomp by lia.
    destruct (ra =? 0) eqn:E1; destruct (rb =? 0) eqn:E2; destruct (ra + rb =? 0) eqn:E3; lia.
  - replace (qa * l + ra + (qb * l + rb)) with ((qa + qb + 1) * l + (ra + rb - l)) by lia.
    rewrite ceiling_div_decomp by lia.
    destruct (ra =? 0) eqn:E1; destruct (rb =? 0) eqn:E2; destruct (ra + rb - l =? 0) eqn:E3; lia.
Qed.
Theorem space_accounting_additive_partial s l a b : 0 < l -> a mod l = 0 ->
  remove_from_space_size (add_to_space_size (add_to_space_size s l a) l b) l (a + b) = s.
Proof. intros Hl Ha. apply (space_accounting_drift_bound s l a b Hl). left; exact Ha. Qed.

Theorem vd_add_remove_same v n : vd_remove_from_space_size (vd_add_to_space_size v n) n = v.
Proof.
  unfold vd_remove_from_space_size, vd_add_to_space_size, vd_set_space, vd_with.
  cbn [vd_type vd_version vd_flags vd_sysid vd_volid vd_space vd_escape vd_setsize vd_seqnum vd_lbs
       vd_ptsize vd_ptextents vd_ptloc_le vd_optloc_le vd_ptloc_be vd_optloc_be vd_root vd_volset
       vd_pub vd_prep vd_app vd_copyright vd_abstract vd_biblio vd_cdate vd_mdate vd_xdate vd_edate
       vd_fsv vd_appuse vd_utf16].
  rewrite add_remove_same. destruct v; reflexivity.
Qed.
Theorem vd_copy_sizes_spec v o :
  vd_space (vd_copy_sizes v o) = vd_space o /\ vd_ptsize (vd_copy_sizes v o) = vd_ptsize o /\
  vd_ptextents (vd_copy_sizes v o) = vd_ptextents o /\ vd_copy_sizes v v = v /\
  vd_sysid (vd_copy_sizes v o) = vd_sysid v /\ vd_root (vd_copy_sizes v o) = vd_root v /\
  vd_ptloc_le (vd_copy_sizes v o) = vd_ptloc_le v /\ vd_ptloc_be (vd_copy_sizes v o) = vd_ptloc_be v.
Proof. destruct v, o. repeat split; reflexivity. Qed.
(* ---- link to Model/Dates.v: the date string vd_date_new builds from the clock and the zone offset
   is record() of vddate_new applied to the broken-down local time ---------------------------- *)
Lemma vddate_new_agrees_with_Dates off t : t <> 0 ->
  Dates.vd_date_new off t =
  option_map record_vddate
    (let l := Dates.localtime off t in
     vddate_new (Dates.tm_year l) (Dates.tm_mon l) (Dates.tm_mday l) (Dates.tm_hour l) (Dates.tm_min l)
                (Dates.tm_sec l) (Dates.gmtoffset off t)).
Proof.
  intros Ht. unfold Dates.vd_date_new, vddate_new. replace (t =? 0) with false by lia. cbv zeta.
  unfold Dates.pack_s8, s8_ok, enc_s8.
  destruct ((-128 <=? Dates.gmtoffset off t) && (Dates.gmtoffset off t <=? 127)); reflexivity.
Qed.

(* ---- non-vacuity: descriptors written by /repo's pycdlib (clock patched to 1790000000) ----------------
   PyCdlib().new(joliet=3, vol_ident='MYVOL', sys_ident='LINUX', app_ident_str='app', xa=True,
   vol_expire_date=1800000000.0); add_fp /BOOT.;1; add_eltorito; write_fp: sectors 16..19.
   real_enh: sector 17 of PyCdlib().new(interchange_level=4). *)
Definition real_pvd : list Z :=
  [1; 67; 68; 48; 48; 49; 1; 0; 76; 73; 78; 85; 88] ++ repeat 32 27 ++ [77; 89; 86; 79; 76] ++ repeat 32 27 ++
  repeat 0 8 ++ [33] ++ repeat 0 6 ++ [33] ++ repeat 0 32 ++ [1; 0; 0; 1; 1; 0; 0; 1; 0; 8; 8; 0; 10] ++ repeat
  0 6 ++ [10; 21] ++ repeat 0 10 ++ [23; 0; 0; 0; 0; 34; 0; 29] ++ repeat 0 6 ++ [29; 0; 8; 0; 0; 0; 0; 8; 0;
  126; 9; 21; 14; 13; 20; 0; 2; 0; 0; 1; 0; 0; 1; 1; 0] ++ repeat 32 384 ++ [97; 112; 112] ++ repeat 32 236 ++
  [50; 48; 50; 54; 48; 57; 50; 49; 49; 52; 49; 51; 50; 48; 48; 48; 0; 50; 48; 50; 54; 48; 57; 50; 49; 49; 52;
  49; 51; 50; 48; 48; 48; 0; 50; 48; 50; 55; 48; 49; 49; 53; 48; 56] ++ repeat 48 6 ++ [0; 50; 48; 50; 54; 48;
  57; 50; 49; 49; 52; 49; 51; 50; 48; 48; 48; 0; 1; 0] ++ repeat 32 141 ++ [67; 68; 45; 88; 65; 48; 48; 49] ++
  repeat 0 18 ++ repeat 32 345 ++ repeat 0 653.
Definition real_br : list Z :=
  [0; 67; 68; 48; 48; 49; 1; 69; 76; 32; 84; 79; 82; 73; 84; 79; 32; 83; 80; 69; 67; 73; 70; 73; 67; 65; 84; 73;
  79; 78] ++ repeat 0 41 ++ [31] ++ repeat 0 1976.
Definition real_svd : list Z :=
  [2; 67; 68; 48; 48; 49; 1; 0; 0; 76; 0; 73; 0; 78; 0; 85; 0; 88; 0; 32; 0; 32; 0; 32; 0; 32; 0; 32; 0; 32; 0;
  32; 0; 32; 0; 32; 0; 32; 0; 32; 0; 77; 0; 89; 0; 86; 0; 79; 0; 76; 0; 32; 0; 32; 0; 32; 0; 32; 0; 32; 0; 32;
  0; 32; 0; 32; 0; 32; 0; 32; 0; 32] ++ repeat 0 8 ++ [33] ++ repeat 0 6 ++ [33; 37; 47; 69] ++ repeat 0 29 ++
  [1; 0; 0; 1; 1; 0; 0; 1; 0; 8; 8; 0; 10] ++ repeat 0 6 ++ [10; 25] ++ repeat 0 10 ++ [27; 0; 0; 0; 0; 34; 0;
  30] ++ repeat 0 6 ++ [30; 0; 8; 0; 0; 0; 0; 8; 0; 126; 9; 21; 14; 13; 20; 0; 2; 0; 0; 1; 0; 0; 1; 1; 0; 0; 32;
  0; 32; 0; 32; 0; 32; 0; 32; 0; 32; 0; 32; 0; 32; 0; 32; 0; 32; 0; 32; 0; 32; 0; 32; 0; 32; 0; 32; 0; 32; 0;
  32; 0; 32; 0; 32; 0; 32; 0; 32; 0; 32; 0; 32; 0; 32; 0; 32; 0; 32; 0; 32; 0; 32; 0; 32; 0; 32; 0; 32; 0; 32;
  0; 32; 0; 32; 0; 32; 0; 32; 0; 32; 0; 32; 0; 32; 0; 32; 0; 32; 0; 32; 0; 32; 0; 32; 0; 32; 0; 32; 0; 32; 0;
  32; 0; 32; 0; 32; 0; 32; 0; 32; 0; 32; 0; 32; 0; 32; 0; 32; 0; 32; 0; 32; 0; 32; 0; 32; 0; 32; 0; 32; 0; 32;
  0; 32; 0; 32; 0; 32; 0; 32; 0; 32; 0; 32; 0; 32; 0; 32; 0; 32; 0; 32; 0; 32; 0; 32; 0; 32; 0; 32; 0; 32; 0;
  32; 0; 32; 0; 32; 0; 32; 0; 32; 0; 32; 0; 32; 0; 32; 0; 32; 0; 32; 0; 32; 0; 32; 0; 32; 0; 32; 0; 32; 0; 32;
  0; 32; 0; 32; 0; 32; 0; 32; 0; 32; 0; 32; 0; 32; 0; 32; 0; 32; 0; 32; 0; 32; 0; 32; 0; 32; 0; 32; 0; 32; 0;
  32; 0; 32; 0; 32; 0; 32; 0; 32; 0; 32; 0; 32; 0; 32; 0; 32; 0; 32; 0; 32; 0; 32; 0; 32; 0; 32; 0; 32; 0; 32;
  0; 32; 0; 32; 0; 32; 0; 32; 0; 32; 0; 32; 0; 32; 0; 32; 0; 32; 0; 32; 0; 32; 0; 32; 0; 32; 0; 32; 0; 32; 0;
  32; 0; 32; 0; 32; 0; 32; 0; 32; 0; 32; 0; 32; 0; 32; 0; 32; 0; 32; 0; 32; 0; 32; 0; 32; 0; 32; 0; 32; 0; 32;
  0; 32; 0; 32; 0; 32; 0; 32; 0; 32; 0; 32; 0; 32; 0; 32; 0; 32; 0; 32; 0; 32; 0; 32; 0; 32; 0; 32; 0; 32; 0;
  32; 0; 32; 0; 32; 0; 32; 0; 32; 0; 32; 0; 32; 0; 32; 0; 32; 0; 32; 0; 32; 0; 32; 0; 32; 0; 32; 0; 32; 0; 32;
  0; 32; 0; 32; 0; 32; 0; 32; 0; 32; 0; 97; 0; 112; 0; 112; 0; 32; 0; 32; 0; 32; 0; 32; 0; 32; 0; 32; 0; 32; 0;
  32; 0; 32; 0; 32; 0; 32; 0; 32; 0; 32; 0; 32; 0; 32; 0; 32; 0; 32; 0; 32; 0; 32; 0; 32; 0; 32; 0; 32; 0; 32;
  0; 32; 0; 32; 0; 32; 0; 32; 0; 32; 0; 32; 0; 32; 0; 32; 0; 32; 0; 32; 0; 32; 0; 32; 0; 32; 0; 32; 0; 32; 0;
  32; 0; 32; 0; 32; 0; 32; 0; 32; 0; 32; 0; 32; 0; 32; 0; 32; 0; 32; 0; 32; 0; 32; 0; 32; 0; 32; 0; 32; 0; 32;
  0; 32; 0; 32; 0; 32; 0; 32; 0; 32; 0; 32; 0; 32; 0; 32; 0; 32; 0; 32; 0; 32; 0; 32; 0; 32; 0; 32; 0; 32; 0;
  32; 0; 32; 0; 32; 0; 32; 0; 32; 0; 32; 0; 32; 0; 32; 0; 32; 0; 32; 0; 0; 32; 0; 32; 0; 32; 0; 32; 0; 32; 0;
  32; 0; 32; 0; 32; 0; 32; 0; 32; 0; 32; 0; 32; 0; 32; 0; 32; 0; 32; 0; 32; 0; 32; 0; 32; 0; 0; 32; 0; 32; 0;
  32; 0; 32; 0; 32; 0; 32; 0; 32; 0; 32; 0; 32; 0; 32; 0; 32; 0; 32; 0; 32; 0; 32; 0; 32; 0; 32; 0; 32; 0; 32;
  0; 50; 48; 50; 54; 48; 57; 50; 49; 49; 52; 49; 51; 50; 48; 48; 48; 0; 50; 48; 50; 54; 48; 57; 50; 49; 49; 52;
  49; 51; 50; 48; 48; 48; 0; 50; 48; 50; 55; 48; 49; 49; 53; 48; 56] ++ repeat 48 6 ++ [0; 50; 48; 50; 54; 48;
  57; 50; 49; 49; 52; 49; 51; 50; 48; 48; 48; 0; 1; 0] ++ repeat 32 141 ++ [67; 68; 45; 88; 65; 48; 48; 49] ++
  repeat 0 18 ++ repeat 32 345 ++ repeat 0 653.
Definition real_enh : list Z :=
  [2; 67; 68; 48; 48; 49; 2; 0] ++ repeat 32 64 ++ repeat 0 8 ++ [25] ++ repeat 0 6 ++ [25] ++ repeat 0 32 ++
  [1; 0; 0; 1; 1; 0; 0; 1; 0; 8; 8; 0; 10] ++ repeat 0 6 ++ [10; 20] ++ repeat 0 10 ++ [22; 0; 0; 0; 0; 34; 0;
  24] ++ repeat 0 6 ++ [24; 0; 8; 0; 0; 0; 0; 8; 0; 126; 9; 21; 14; 13; 20; 0; 2; 0; 0; 1; 0; 0; 1; 1; 0] ++
  repeat 32 384 ++ [80; 121; 67; 100; 108; 105; 98; 32; 40; 67; 41; 32; 50; 48; 49; 53; 45; 50; 48; 50; 48; 32;
  67; 104; 114; 105; 115; 32; 76; 97; 108; 97; 110; 99; 101; 116; 116; 101] ++ repeat 32 201 ++ [50; 48; 50; 54;
  48; 57; 50; 49; 49; 52; 49; 51; 50; 48; 48; 48; 0; 50; 48; 50; 54; 48; 57; 50; 49; 49; 52; 49; 51; 50; 48; 48;
  48; 0] ++ repeat 48 16 ++ [0; 50; 48; 50; 54; 48; 57; 50; 49; 49; 52; 49; 51; 50; 48; 48; 48; 0; 2; 0] ++
  repeat 32 512 ++ repeat 0 653.
Definition real_vdst : list Z :=
  [255; 67; 68; 48; 48; 49; 1] ++ repeat 0 2041.
(* headervd.pvd_factory(b'LINUX', b'MYVOL', 1, 1, 2048, b'', b'', b'', b'app', b'', b'', b'', 1800000000.0, b'',
   True) + the attribute values pycdlib.py had set at write time: record() == sector 16 above *)
Example real_pvd_new_check :
  check_pvd_new_case [76; 73; 78; 85; 88] [77; 89; 86; 79; 76] [] [] [] [97; 112; 112] [] [] [] [] true 1 1 2048
    [50; 48; 50; 54; 48; 57; 50; 49; 49; 52; 49; 51; 50; 48; 48; 48; 0]
    [50; 48; 50; 55; 48; 49; 49; 53; 48; 56; 48; 48; 48; 48; 48; 48; 0]
    [126; 9; 21; 14; 13; 20; 0] 33 10 21 23 29 2048
    [50; 48; 50; 54; 48; 57; 50; 49; 49; 52; 49; 51; 50; 48; 48; 48; 0] real_pvd = true.
Proof. vm_compute. reflexivity. Qed.

Example real_bytes_check :
  bad_vd_bytes_cases 0 [(0, real_pvd); (4, real_br); (1, real_svd); (2, real_enh); (3, real_vdst)] = [] /\
  map (@length Z) [real_pvd; real_br; real_svd; real_enh; real_vdst] = repeat 2048%nat 5.
Proof. split; vm_compute; reflexivity. Qed.
(* the checker does detect a wrong kind / a Joliet SVD offered as enhanced VD / a flipped byte *)
Example real_bytes_check_detects :
  bad_vd_bytes_cases 0 [(1, real_pvd); (0, real_pvd); (2, real_svd); (1, real_enh); (4, real_vdst);
                        (3, firstn 2047 real_vdst ++ [1])] = [0; 2; 3; 4; 5]%nat.
Proof. vm_compute. reflexivity. Qed.
(* the parsed real descriptors satisfy the range predicate of the round trip theorem *)
Example real_parsed_ok :
  match parse_vd 1 real_pvd, parse_vd 2 real_svd, parse_vd 2 real_enh with
  | Some p, Some s, Some e =>
      vd_ok p && vd_ok s && vd_ok e && vddate_ok (vd_mdate p) && vd_utf16 s && negb (vd_utf16 e) &&
      negb (vd_utf16 p) && (vd_space p =? 33) && (vd_version e =? 2) &&
      zlist_eqb (firstn 3 (vd_escape s)) esc_e && (vd_ptextents p =? 2)
  | _, _, _ => false
  end = true /\
  match parse_br real_br with Some b => br_ok b | None => false end = true.
Proof. split; vm_compute; reflexivity. Qed.
(* flipping one bit of either half of each both-endian pair of the real PVD: the model's parse
   rejects it, as does headervd.PrimaryOrSupplementaryVD(1).parse (PyCdlibInvalidISO "... disagree") *)
Definition flip_at (off : nat) (b : list Z) : list Z :=
  firstn off b ++ [Z.lxor (nth off b 0) 1] ++ skipn (S off) b.
Example real_pvd_half_flips_rejected :
  forallb (fun off => match parse_vd 1 (flip_at off real_pvd) with None => true | Some _ => false end)
          [80; 84; 120; 122; 124; 126; 128; 130; 132; 136]%nat = true.
Proof. vm_compute. reflexivity. Qed.
(* what parse tolerates (escape sequences of a PVD, the trailing 653 bytes, a wrong file structure
   version, which is forced to 1) and what it rejects (unused1, unused2, PVD flags): as in Python *)
Example real_pvd_tolerated_and_rejected :
  let set (off : nat) (x : Z) (b : list Z) := firstn off b ++ [x] ++ skipn (S off) b in
  match parse_vd 1 (set 88%nat 9 (set 2047%nat 7 (set 881%nat 5 real_pvd))) with
  | Some v => vd_fsv v =? 1 | None => false end = true /\
  parse_vd 1 (set 72%nat 1 real_pvd) = None /\ parse_vd 1 (set 882%nat 1 real_pvd) = None /\
  parse_vd 1 (set 7%nat 1 real_pvd) = None /\ parse_vd 2 real_pvd = None.
Proof. cbv zeta. repeat split; vm_compute; reflexivity. Qed.
(* existence form of the modification-date refutation, on the real PVD *)
Example vd_roundtrip_moddate_refuted_witness :
  exists v now b, vd_ok v = true /\ vddate_ok now = true /\ vddate_ok (vd_mdate v) = true /\
    record_vd now v = Some b /\ parse_vd (vd_type v) b <> Some v.
Proof.
  destruct (parse_vd 1 real_pvd) as [v|] eqn:E; [|vm_compute in E; discriminate].
  assert (Hok : vd_ok v = true /\ vddate_ok (vd_mdate v) = true /\ (dd_year (vd_mdate v) =? 0) = false).
  { vm_compute in E. apply some_inv in E. subst v. repeat split; vm_compute; reflexivity. }
  destruct Hok as (H1 & H2 & H3).
  destruct (vd_roundtrip vddate_zero v H1 eq_refl) as (b & Hb & _ & _).
  exists v, vddate_zero, b. repeat split; try assumption.
  apply (vd_roundtrip_moddate_refuted v vddate_zero H1 eq_refl); [|exact Hb].
  intros Heq. rewrite Heq in H3. discriminate.
Qed.
(* 17-byte dates as parsed by dates.VolumeDescriptorDate (fields, then the re-recorded string) *)
Example real_vddate_cases :
  bad_vddate_cases 0
    [ ([50; 48; 50; 54; 48; 57; 50; 49; 49; 52; 49; 51; 50; 48; 48; 48; 0], [2026; 9; 21; 14; 13; 20; 0; 0],
       [50; 48; 50; 54; 48; 57; 50; 49; 49; 52; 49; 51; 50; 48; 48; 48; 0]);
      (repeat 48 16 ++ [0], [0; 0; 0; 0; 0; 0; 0; 0], repeat 48 16 ++ [0]);
      (repeat 0 17, [0; 0; 0; 0; 0; 0; 0; 0], repeat 48 16 ++ [0]);
      ([50; 48; 50; 48; 48; 50; 50; 57; 49; 50; 51; 48; 53; 57; 57; 57; 240], [2020; 2; 29; 12; 30; 59; 99; -16],
       [50; 48; 50; 48; 48; 50; 50; 57; 49; 50; 51; 48; 53; 57; 57; 57; 240]);
      ([50; 48; 50; 48; 48; 50; 51; 48; 48; 48; 48; 48; 48; 48; 48; 48; 0], [0; 0; 0; 0; 0; 0; 0; 0],
       repeat 48 16 ++ [0]);
      ([50; 48; 50; 48; 48; 49; 32; 53; 49; 50; 51; 48; 53; 57; 32; 53; 4], [2020; 1; 5; 12; 30; 59; 5; 4],
       [50; 48; 50; 48; 48; 49; 32; 53; 49; 50; 51; 48; 53; 57; 32; 53; 4]);
      ([50; 48; 50; 48; 48; 49; 48; 53; 49; 50; 51; 48; 53; 57; 0; 0; 128], [2020; 1; 5; 12; 30; 59; 0; -128],
       [50; 48; 50; 48; 48; 49; 48; 53; 49; 50; 51; 48; 53; 57; 0; 0; 128]);
      (repeat 48 16, [], []) ] = [].
Proof. vm_compute. reflexivity. Qed.

Print Assumptions record_both_endian.
Print Assumptions record_passes_pair_checks.
Print Assumptions parse_rejects_altered_field.
Print Assumptions parse_rejects_altered_half.
Print Assumptions add_remove_same.
Print Assumptions add_general.
Print Assumptions space_accounting_not_additive_refuted.
Print Assumptions space_accounting_additive_partial.
Print Assumptions space_accounting_drift_bound.
Print Assumptions vd_add_remove_same.
Print Assumptions vd_copy_sizes_spec.
Print Assumptions vddate_new_agrees_with_Dates.
Print Assumptions real_bytes_check.
Print Assumptions real_pvd_new_check.
Print Assumptions vd_roundtrip_moddate_refuted_witness.
