(* Proofs about Model/Eltorito.v, part 3: EltoritoBootInfoTable record/parse and
   PyCdlib._calculate_eltorito_boot_info_table_csum (as of commit ec27ab7: a block is read with
   min(2048, data_len - curr_sector*2048), so nothing beyond data_len is read).

   Main results
     bit_roundtrip            parse (record t) = t, |record t| = 56 (16 + 40 reserved), mismatch -> False
     bit_csum_exact_prefix    for EVERY fp and data_len: no exception, and the value is the sum mod
                              2^32 of the little-endian 32-bit words of fp[:data_len][64:], the last
                              1..3 bytes completed with zeros
     bit_csum_exact           the case data_len = len(fp)
     bit_csum_prefix_only     bytes beyond data_len do not matter *)
From Coq Require Import ZArith List Bool Lia ZifyBool.
From PV.Base Require Import Prim ListX.
From PV.Gen Require Import GenConst GenFun.
From PV.Model Require Import Codec Eltorito.
From PV.Proofs Require Import ChecksumsArithProofs CodecProofs EltoritoProofs.
Import ListNotations.
Local Open Scope Z_scope.
Ltac Zify.zify_post_hook ::= Z.to_euclidean_division_equations.

(* ---- record / parse ---- *)
Lemma bit_bytes_length t : length (bit_bytes t) = 56%nat.
Proof. reflexivity. Qed.

Theorem bit_roundtrip t : bit_ok t = true ->
  bit_record t = Some (bit_bytes t) /\ length (bit_bytes t) = 56%nat /\
  bit_parse (b_vd_extent t) (b_ino_extent t) (bit_bytes t) = Some (Some t) /\
  bit_parse (b_vd_extent t) (b_ino_extent t) (firstn 16 (bit_bytes t)) = Some (Some t) /\
  (forall vd ino, vd <> b_vd_extent t \/ ino <> b_ino_extent t ->
                  bit_parse vd ino (bit_bytes t) = Some None).
Proof.
  intros H. unfold bit_record. rewrite H. unfold bit_ok, u32_ok in H.
  assert (H1 : u32 (b_vd_extent t)) by (unfold u32; lia).
  assert (H2 : u32 (b_ino_extent t)) by (unfold u32; lia).
  assert (H3 : u32 (b_orig_len t)) by (unfold u32; lia).
  assert (H4 : u32 (b_csum t)) by (unfold u32; lia).
  assert (Hs : forall r, split_widths (widths bit_widths) (concat (bit_fields t) ++ r) = Some (bit_fields t, r)).
  { intros r. apply (split_concat (bit_fields t)). }
  assert (Hp : forall r vd ino, bit_parse vd ino (concat (bit_fields t) ++ r) =
     if negb (b_vd_extent t =? vd) || negb (b_ino_extent t =? ino) then Some None
     else Some (Some (mk_bit vd ino (b_orig_len t) (b_csum t)))).
  { intros r vd ino. unfold bit_parse. rewrite Hs. unfold bit_fields. cbv beta iota.
    rewrite !le32_dle32 by assumption. reflexivity. }
  split; [reflexivity|]. split; [reflexivity|]. split; [|split].
  - unfold bit_bytes. rewrite Hp, !Z.eqb_refl. destruct t; reflexivity.
  - unfold bit_bytes. rewrite (firstn_app_exact 16) by reflexivity.
    rewrite <- (app_nil_r (concat _)), Hp, !Z.eqb_refl. destruct t; reflexivity.
  - intros vd ino Hne. unfold bit_bytes. rewrite Hp.
    destruct (b_vd_extent t =? vd) eqn:E1; destruct (b_ino_extent t =? ino) eqn:E2; try reflexivity. lia.
Qed.

(* ---- word sums ---- *)
Definition M32 : Z := 4294967296.
Definition nextp (p : nat) : nat := match p with 0 => 1 | 1 => 2 | 2 => 3 | _ => 0 end%nat.
Definition wt (p : nat) : Z := nth p [1; 256; 65536; 16777216] 0.
(* bytes weighted 1, 256, 65536, 16777216 cyclically, starting in phase p *)
Fixpoint wsum (p : nat) (l : list Z) : Z :=
  match l with [] => 0 | x :: r => wt p * x + wsum (nextp p) r end.

Lemma wsum_zeros k : forall p, wsum p (repeat 0 k) = 0.
Proof. induction k as [|k IH]; intros p; cbn [repeat wsum]; [reflexivity|rewrite IH; lia]. Qed.
Lemma wsum_pad l k : forall p, wsum p (l ++ repeat 0 k) = wsum p l.
Proof.
  induction l as [|x l IH]; intros p; cbn [app wsum]; [apply wsum_zeros|rewrite IH; reflexivity].
Qed.
Lemma wsum4 a b c d r :
  wsum 0 (a :: b :: c :: d :: r) = a + 256 * b + 65536 * c + 16777216 * d + wsum 0 r.
Proof. cbn [wsum nextp wt nth]. lia. Qed.

Lemma wsum_app4 b : forall k a, length a = (4 * k)%nat -> wsum 0 (a ++ b) = wsum 0 a + wsum 0 b.
Proof.
  induction k as [|k IH]; intros a Hl.
  - destruct a; [reflexivity|discriminate Hl].
  - destruct a as [|a0 [|a1 [|a2 [|a3 a']]]]; cbn [length] in Hl; try lia.
    cbn [app]. rewrite !wsum4, (IH a') by lia. lia.
Qed.

Lemma zsum32_wsum l : zsum32 l = wsum 0 l.
Proof.
  assert (H : forall n (l : list Z), (length l <= n)%nat -> zsum32 l = wsum 0 l).
  { intros n; induction n as [|n IH]; intros l0 Hl.
    - destruct l0; [reflexivity|cbn [length] in Hl; lia].
    - destruct l0 as [|a [|b [|c [|d r]]]]; unfold zsum32;
        try (cbn [words32 fold_right wsum nextp wt nth]; unfold dle32; cbn [nth]; lia).
      cbn [words32 fold_right]. fold (zsum32 r). rewrite wsum4, (IH r) by (cbn [length] in Hl; lia). lia. }
  apply (H (length l)). lia.
Qed.

(* ---- the inner loop ---- *)
Lemma land_m32 x : Z.land x 4294967295 = x mod M32.
Proof. change 4294967295 with (Z.ones 32). rewrite Z.land_ones by lia. reflexivity. Qed.

Lemma block_loop_spec : forall m rest pre block c fuel,
  block = pre ++ rest -> length rest = (4 * m)%nat -> (m < fuel)%nat -> 0 <= c < M32 ->
  bit_block_loop fuel block (zlen pre) c = Some ((c + wsum 0 rest) mod M32).
Proof.
  induction m as [|m IH]; intros rest pre block c fuel Hb Hl Hf Hc;
    (destruct fuel as [|f]; [lia|]); cbn [bit_block_loop].
  - destruct rest; [|discriminate Hl]. subst block. rewrite app_nil_r.
    replace (zlen pre <? zlen pre) with false by lia. cbn [wsum]. f_equal. unfold M32 in *. lia.
  - destruct rest as [|a0 [|a1 [|a2 [|a3 rest']]]]; cbn [length] in Hl; try lia.
    assert (Hzl : zlen block = zlen pre + 4 + zlen rest').
    { subst block. rewrite zlen_app, !zlen_cons. lia. }
    pose proof (zlen_nonneg rest') as Hnn. pose proof (zlen_nonneg pre) as Hnp.
    replace (zlen pre <? zlen block) with true by lia.
    assert (Hbuf : firstn (Z.to_nat (zlen pre + 4)) block = pre ++ [a0; a1; a2; a3]).
    { subst block. replace (Z.to_nat (zlen pre + 4)) with (length pre + 4)%nat by (unfold zlen; lia).
      rewrite firstn_app_2. reflexivity. }
    rewrite Hbuf. replace (zlen (pre ++ [a0; a1; a2; a3]) <? zlen pre + 4) with false
      by (rewrite zlen_app, !zlen_cons, zlen_nil; lia).
    rewrite to_nat_zlen, skipn_length_app, land_m32.
    replace (zlen pre + 4) with (zlen (pre ++ [a0; a1; a2; a3])) by (rewrite zlen_app, !zlen_cons, zlen_nil; lia).
    rewrite (IH rest' (pre ++ [a0; a1; a2; a3]) block); try lia.
    + f_equal. rewrite wsum4. unfold dle32. cbn [nth]. unfold M32. lia.
    + subst block. rewrite <- app_assoc. reflexivity.
Qed.

Lemma block_length (fp : list Z) :
  length (firstn 2048 fp ++ repeat 0 (2048 - length (firstn 2048 fp))) = 2048%nat.
Proof. rewrite app_length, repeat_length. pose proof (firstn_le_length 2048 fp). lia. Qed.

(* one (completed) sector, from offset i = 0 or 64 *)
Lemma block_sum block (i : nat) c : length block = 2048%nat -> (i = 0 \/ i = 64)%nat -> 0 <= c < M32 ->
  bit_block_loop (S (length block)) block (Z.of_nat i) c = Some ((c + wsum 0 (skipn i block)) mod M32).
Proof.
  intros Hl Hi Hc.
  assert (Hp : length (firstn i block) = i) by (rewrite firstn_length; lia).
  replace (Z.of_nat i) with (zlen (firstn i block)) by (unfold zlen; lia).
  apply (block_loop_spec ((2048 - i) / 4)%nat).
  - symmetry. apply firstn_skipn.
  - rewrite skipn_length, Hl. destruct Hi; subst i; reflexivity.
  - rewrite Hl. destruct Hi; subst i; cbn; lia.
  - exact Hc.
Qed.

Lemma repeat_app0 a b : repeat 0 a ++ repeat 0 b = repeat 0 (a + b).
Proof. induction a as [|a IH]; cbn [repeat app plus]; [reflexivity|rewrite IH; reflexivity]. Qed.
Lemma skipn_repeat0 j k : skipn j (repeat 0 k) = repeat 0 (k - j).
Proof.
  revert k; induction j as [|j IH]; intros k; [rewrite Nat.sub_0_r; reflexivity|].
  destruct k as [|k]; [reflexivity|]. cbn [repeat skipn Nat.sub]. apply IH.
Qed.
Lemma firstn_add {A} (a b : nat) (l : list A) : firstn (a + b) l = firstn a l ++ firstn b (skipn a l).
Proof.
  revert l; induction a as [|a IH]; intros l; [reflexivity|].
  destruct l as [|x l]; [cbn; rewrite firstn_nil; reflexivity|]. cbn [plus firstn skipn app]. rewrite IH. reflexivity.
Qed.

(* one sector: A = what was read (at most 2048 bytes), B = the rest of the file; either the sector
   is full or nothing follows it *)
Lemma sector_sum_step (i : nat) (A B : list Z) :
  (i = 0 \/ i = 64)%nat -> (length A <= 2048)%nat -> (length A = 2048%nat \/ B = []) ->
  wsum 0 (skipn i (A ++ B)) = wsum 0 (skipn i (A ++ repeat 0 (2048 - length A))) + wsum 0 B.
Proof.
  intros Hi Hle [Hfull|Hnil].
  - rewrite Hfull. cbn [Nat.sub repeat]. rewrite app_nil_r, skipn_app, Hfull.
    replace (i - 2048)%nat with 0%nat by lia. cbn [skipn].
    apply (wsum_app4 B ((2048 - i) / 4)%nat). rewrite skipn_length, Hfull.
    destruct Hi as [Hi|Hi]; rewrite Hi; reflexivity.
  - subst B. rewrite app_nil_r. cbn [wsum]. rewrite skipn_app, skipn_repeat0, wsum_pad. lia.
Qed.

(* the outer loop, in terms of what remains of the file: R = data_len - curr_sector * 2048 *)
Lemma sector_loop_spec data_len : forall n cs fp c,
  0 <= cs -> n = Z.to_nat (ceiling_div (data_len - cs * 2048) 2048) -> 0 <= c < M32 ->
  bit_sector_loop n data_len cs fp c =
  Some ((c + wsum 0 (skipn (if cs =? 0 then 64 else 0)
                           (firstn (Z.to_nat (data_len - cs * 2048)) fp))) mod M32).
Proof.
  induction n as [|n IH]; intros cs fp c Hcs Hn Hc; rewrite ceiling_div_spec in Hn by lia.
  - cbn [bit_sector_loop]. replace (Z.to_nat (data_len - cs * 2048)) with 0%nat by lia.
    cbn [firstn]. destruct (cs =? 0); cbn [skipn wsum]; f_equal; unfold M32 in *; lia.
  - cbn [bit_sector_loop]. set (R := data_len - cs * 2048) in *.
    assert (HR : 0 < R) by lia.
    replace (Z.min 2048 R <? 0) with false by lia.
    set (got := Z.to_nat (Z.min 2048 R)).
    set (A := firstn got fp).
    set (i := if cs =? 0 then 64%nat else 0%nat).
    replace (if cs =? 0 then 64 else 0) with (Z.of_nat i) by (unfold i; destruct (cs =? 0); reflexivity).
    assert (Hi : (i = 0 \/ i = 64)%nat) by (unfold i; destruct (cs =? 0); auto).
    assert (HA : (length A <= 2048)%nat) by (unfold A; rewrite firstn_length; lia).
    assert (Hl : length (A ++ repeat 0 (2048 - length A)) = 2048%nat)
      by (rewrite app_length, repeat_length; lia).
    rewrite (block_sum _ i c Hl Hi Hc).
    rewrite (IH (cs + 1) (skipn got fp)); [| lia | rewrite ceiling_div_spec by lia; lia | unfold M32; lia].
    replace (cs + 1 =? 0) with false by lia. cbn [skipn]. f_equal.
    replace (data_len - (cs + 1) * 2048) with (R - 2048) by lia.
    set (B := firstn (Z.to_nat (R - 2048)) (skipn got fp)).
    assert (HAB : firstn (Z.to_nat R) fp = A ++ B).
    { replace (Z.to_nat R) with (got + Z.to_nat (R - 2048))%nat by lia. apply firstn_add. }
    rewrite HAB. replace (Z.to_nat (Z.of_nat i)) with i by lia.
    rewrite (sector_sum_step i A B Hi HA).
    + unfold M32. lia.
    + destruct (Z_le_gt_dec R 2048) as [Hs|Hg].
      * right. unfold B. replace (Z.to_nat (R - 2048)) with 0%nat by lia. reflexivity.
      * destruct (Nat.le_gt_cases 2048 (length fp)) as [Hf|Hf].
        -- left. unfold A. rewrite firstn_length. lia.
        -- right. unfold B. rewrite skipn_all2 by lia. apply firstn_nil.
Qed.

(* Theorem 4: for every file object content and every data_len there is no exception, and the
   checksum is the sum mod 2^32 of the little-endian 32-bit words of the first data_len bytes of
   the file from offset 64; when that length is not a multiple of 4 the last word is completed with
   zero bytes.  Bytes the file object holds beyond data_len are never read. *)
Theorem bit_csum_exact_prefix fp data_len :
  bit_csum fp data_len = Some (zsum32 (skipn 64 (firstn (Z.to_nat data_len) fp)) mod M32).
Proof.
  unfold bit_csum. rewrite (sector_loop_spec data_len _ 0 fp 0); try lia.
  - change (0 =? 0) with true. cbv iota. rewrite zsum32_wsum. replace (data_len - 0 * 2048) with data_len by lia.
    reflexivity.
  - replace (data_len - 0 * 2048) with data_len by lia. reflexivity.
  - unfold M32. lia.
Qed.
Corollary bit_csum_exact fp : bit_csum fp (zlen fp) = Some (zsum32 (skipn 64 fp) mod M32).
Proof. rewrite bit_csum_exact_prefix, to_nat_zlen, firstn_all. reflexivity. Qed.
(* the former over-read is gone: only the first data_len bytes matter *)
Corollary bit_csum_prefix_only fp data_len :
  bit_csum fp data_len = bit_csum (firstn (Z.to_nat data_len) fp) data_len.
Proof. rewrite !bit_csum_exact_prefix, firstn_firstn, Nat.min_id. reflexivity. Qed.
Corollary bit_csum_range fp data_len : exists c, bit_csum fp data_len = Some c /\ 0 <= c < M32.
Proof. eexists. split; [apply bit_csum_exact_prefix|unfold M32; lia]. Qed.

(* ---- real objects ---- *)
(* body = bytes(range(70)) + b'\x01\x02\x03\x04\x05\x06\x07' (77 bytes); add_eltorito(boot_info_table=True) *)
Definition real_body : list Z := map Z.of_nat (seq 0 70) ++ [1; 2; 3; 4; 5; 6; 7].
Example real_boot_info_table :
  bit_csum real_body 77 = Some 1263045262 /\
  bit_record (mk_bit 16 26 77 1263045262) =
    Some ([16; 0; 0; 0; 26; 0; 0; 0; 77; 0; 0; 0; 142; 138; 72; 75] ++ repeat 0 40) /\
  bit_parse 16 26 [16; 0; 0; 0; 26; 0; 0; 0; 77; 0; 0; 0; 142; 138; 72; 75]
    = Some (Some (mk_bit 16 26 77 1263045262)) /\
  bit_parse 16 27 [16; 0; 0; 0; 26; 0; 0; 0; 77; 0; 0; 0; 142; 138; 72; 75] = Some None /\
  bit_parse 16 26 [16; 0; 0] = None /\
  (* the same file given as a longer fp: the same checksum (1263045237 before commit ec27ab7) *)
  bit_csum (real_body ++ repeat 255 100) 77 = Some 1263045262.
Proof. vm_conj. Qed.

Print Assumptions bit_roundtrip.
Print Assumptions bit_csum_exact_prefix.
Print Assumptions bit_csum_exact.
Print Assumptions bit_csum_prefix_only.
