(* Proofs about Model/Eltorito.v, part 3: EltoritoBootInfoTable record/parse and
   PyCdlib._calculate_eltorito_boot_info_table_csum.

   Main results
     bit_roundtrip            parse (record t) = t, |record t| = 56 (16 + 40 reserved), mismatch -> False
     bit_csum_spec            csum = sum of the LE 32-bit words, from offset 64, of the
                              ceiling_div(data_len, 2048) sectors READ FROM data_fp, each completed with
                              zeros to 2048 bytes  (mod 2^32); never a struct.error
     bit_csum_exact           when data_fp holds exactly data_len bytes: the sum of the LE words of
                              fp[64:], the last 1..3 bytes completed with zeros
     bit_csum_overread_refuted   the result is NOT a function of the first data_len bytes *)
From Coq Require Import ZArith List Bool Lia ZifyBool.
From PV.Base Require Import Prim ListX.
From PV.Gen Require Import GenConst GenFun.
From PV.Model Require Import Codec Eltorito.
From PV.Proofs Require Import ChecksumsArithProofs CodecProofs EltoritoProofs.
Import ListNotations.
Local Open Scope Z_scope.
Ltac Zify.zify_post_hook ::= Z.to_euclidean_division_equations.

(* ---- record / parse ---- *)
Lemma bit_bytes_length t : length (bit_bytes t) = 56%nat.
Proof. reflexivity. Qed.

Theorem bit_roundtrip t : bit_ok t = true ->
  bit_record t = Some (bit_bytes t) /\ length (bit_bytes t) = 56%nat /\
  bit_parse (b_vd_extent t) (b_ino_extent t) (bit_bytes t) = Some (Some t) /\
  bit_parse (b_vd_extent t) (b_ino_extent t) (firstn 16 (bit_bytes t)) = Some (Some t) /\
  (forall vd ino, vd <> b_vd_extent t \/ ino <> b_ino_extent t ->
                  bit_parse vd ino (bit_bytes t) = Some None).
Proof.
  intros H. unfold bit_record. rewrite H. unfold bit_ok, u32_ok in H.
  assert (H1 : u32 (b_vd_extent t)) by (unfold u32; lia).
  assert (H2 : u32 (b_ino_extent t)) by (unfold u32; lia).
  assert (H3 : u32 (b_orig_len t)) by (unfold u32; lia).
  assert (H4 : u32 (b_csum t)) by (unfold u32; lia).
  assert (Hs : forall r, split_widths (widths bit_widths) (concat (bit_fields t) ++ r) = Some (bit_fields t, r)).
  { intros r. apply (split_concat (bit_fields t)). }
  assert (Hp : forall r vd ino, bit_parse vd ino (concat (bit_fields t) ++ r) =
     if negb (b_vd_extent t =? vd) || negb (b_ino_extent t =? ino) then Some None
     else Some (Some (mk_bit vd ino (b_orig_len t) (b_csum t)))).
  { intros r vd ino. unfold bit_parse. rewrite Hs. unfold bit_fields. cbv beta iota.
    rewrite !le32_dle32 by assumption. reflexivity. }
  split; [reflexivity|]. split; [reflexivity|]. split; [|split].
  - unfold bit_bytes. rewrite Hp, !Z.eqb_refl. destruct t; reflexivity.
  - unfold bit_bytes. rewrite (firstn_app_exact 16) by reflexivity.
    rewrite <- (app_nil_r (concat _)), Hp, !Z.eqb_refl. destruct t; reflexivity.
  - intros vd ino Hne. unfold bit_bytes. rewrite Hp.
    destruct (b_vd_extent t =? vd) eqn:E1; destruct (b_ino_extent t =? ino) eqn:E2; try reflexivity. lia.
Qed.

(* ---- word sums ---- *)
Definition M32 : Z := 4294967296.
Definition nextp (p : nat) : nat := match p with 0 => 1 | 1 => 2 | 2 => 3 | _ => 0 end%nat.
Definition wt (p : nat) : Z := nth p [1; 256; 65536; 16777216] 0.
(* bytes weighted 1, 256, 65536, 16777216 cyclically, starting in phase p *)
Fixpoint wsum (p : nat) (l : list Z) : Z :=
  match l with [] => 0 | x :: r => wt p * x + wsum (nextp p) r end.

Lemma wsum_zeros k : forall p, wsum p (repeat 0 k) = 0.
Proof. induction k as [|k IH]; intros p; cbn [repeat wsum]; [reflexivity|rewrite IH; lia]. Qed.
Lemma wsum_pad l k : forall p, wsum p (l ++ repeat 0 k) = wsum p l.
Proof.
  induction l as [|x l IH]; intros p; cbn [app wsum]; [apply wsum_zeros|rewrite IH; reflexivity].
Qed.
Lemma wsum4 a b c d r :
  wsum 0 (a :: b :: c :: d :: r) = a + 256 * b + 65536 * c + 16777216 * d + wsum 0 r.
Proof. cbn [wsum nextp wt nth]. lia. Qed.

Lemma wsum_app4 b : forall k a, length a = (4 * k)%nat -> wsum 0 (a ++ b) = wsum 0 a + wsum 0 b.
Proof.
  induction k as [|k IH]; intros a Hl.
  - destruct a; [reflexivity|discriminate Hl].
  - destruct a as [|a0 [|a1 [|a2 [|a3 a']]]]; cbn [length] in Hl; try lia.
    cbn [app]. rewrite !wsum4, (IH a') by lia. lia.
Qed.

Lemma zsum32_wsum l : zsum32 l = wsum 0 l.
Proof.
  assert (H : forall n (l : list Z), (length l <= n)%nat -> zsum32 l = wsum 0 l).
  { intros n; induction n as [|n IH]; intros l0 Hl.
    - destruct l0; [reflexivity|cbn [length] in Hl; lia].
    - destruct l0 as [|a [|b [|c [|d r]]]]; unfold zsum32;
        try (cbn [words32 fold_right wsum nextp wt nth]; unfold dle32; cbn [nth]; lia).
      cbn [words32 fold_right]. fold (zsum32 r). rewrite wsum4, (IH r) by (cbn [length] in Hl; lia). lia. }
  apply (H (length l)). lia.
Qed.

(* ---- the inner loop ---- *)
Lemma land_m32 x : Z.land x 4294967295 = x mod M32.
Proof. change 4294967295 with (Z.ones 32). rewrite Z.land_ones by lia. reflexivity. Qed.

Lemma block_loop_spec : forall m rest pre block c fuel,
  block = pre ++ rest -> length rest = (4 * m)%nat -> (m < fuel)%nat -> 0 <= c < M32 ->
  bit_block_loop fuel block (zlen pre) c = Some ((c + wsum 0 rest) mod M32).
Proof.
  induction m as [|m IH]; intros rest pre block c fuel Hb Hl Hf Hc;
    (destruct fuel as [|f]; [lia|]); cbn [bit_block_loop].
  - destruct rest; [|discriminate Hl]. subst block. rewrite app_nil_r.
    replace (zlen pre <? zlen pre) with false by lia. cbn [wsum]. f_equal. unfold M32 in *. lia.
  - destruct rest as [|a0 [|a1 [|a2 [|a3 rest']]]]; cbn [length] in Hl; try lia.
    assert (Hzl : zlen block = zlen pre + 4 + zlen rest').
    { subst block. rewrite zlen_app, !zlen_cons. lia. }
    pose proof (zlen_nonneg rest') as Hnn. pose proof (zlen_nonneg pre) as Hnp.
    replace (zlen pre <? zlen block) with true by lia.
    assert (Hbuf : firstn (Z.to_nat (zlen pre + 4)) block = pre ++ [a0; a1; a2; a3]).
    { subst block. replace (Z.to_nat (zlen pre + 4)) with (length pre + 4)%nat by (unfold zlen; lia).
      rewrite firstn_app_2. reflexivity. }
    rewrite Hbuf. replace (zlen (pre ++ [a0; a1; a2; a3]) <? zlen pre + 4) with false
      by (rewrite zlen_app, !zlen_cons, zlen_nil; lia).
    rewrite to_nat_zlen, skipn_length_app, land_m32.
    replace (zlen pre + 4) with (zlen (pre ++ [a0; a1; a2; a3])) by (rewrite zlen_app, !zlen_cons, zlen_nil; lia).
    rewrite (IH rest' (pre ++ [a0; a1; a2; a3]) block); try lia.
    + f_equal. rewrite wsum4. unfold dle32. cbn [nth]. unfold M32. lia.
    + subst block. rewrite <- app_assoc. reflexivity.
Qed.

Lemma block_length (fp : list Z) :
  length (firstn 2048 fp ++ repeat 0 (2048 - length (firstn 2048 fp))) = 2048%nat.
Proof. rewrite app_length, repeat_length. pose proof (firstn_le_length 2048 fp). lia. Qed.

(* one (completed) sector, from offset i = 0 or 64 *)
Lemma block_sum block (i : nat) c : length block = 2048%nat -> (i = 0 \/ i = 64)%nat -> 0 <= c < M32 ->
  bit_block_loop (S (length block)) block (Z.of_nat i) c = Some ((c + wsum 0 (skipn i block)) mod M32).
Proof.
  intros Hl Hi Hc.
  assert (Hp : length (firstn i block) = i) by (rewrite firstn_length; lia).
  replace (Z.of_nat i) with (zlen (firstn i block)) by (unfold zlen; lia).
  apply (block_loop_spec ((2048 - i) / 4)%nat).
  - symmetry. apply firstn_skipn.
  - rewrite skipn_length, Hl. destruct Hi; subst i; reflexivity.
  - rewrite Hl. destruct Hi; subst i; cbn; lia.
  - exact Hc.
Qed.

Lemma sector_loop_spec : forall n fp (first : bool) c, 0 <= c < M32 ->
  bit_sector_loop n first fp c =
  Some ((c + wsum 0 (skipn (if first then 64 else 0) (padded_sectors n fp))) mod M32).
Proof.
  induction n as [|n IH]; intros fp first c Hc.
  - cbn [bit_sector_loop padded_sectors]. destruct first; cbn [skipn wsum]; f_equal; unfold M32 in *; lia.
  - cbn [bit_sector_loop padded_sectors].
    set (block := firstn 2048 fp ++ repeat 0 (2048 - length (firstn 2048 fp))).
    assert (Hl : length block = 2048%nat) by apply block_length.
    set (i := if first then 64%nat else 0%nat).
    replace (if first then 64 else 0) with (Z.of_nat i) by (destruct first; reflexivity).
    assert (Hi : (i = 0 \/ i = 64)%nat) by (destruct first; auto).
    rewrite (block_sum block i c Hl Hi Hc).
    rewrite IH by (unfold M32; lia). cbn [skipn]. f_equal.
    rewrite skipn_app, Hl. replace (i - 2048)%nat with 0%nat by lia. cbn [skipn].
    rewrite (wsum_app4 _ ((2048 - i) / 4)%nat).
    + unfold M32. lia.
    + rewrite skipn_length, Hl. destruct Hi as [Hi|Hi]; rewrite Hi; reflexivity.
Qed.

(* Theorem 4 (general form): no exception; the value is the sum mod 2^32 of the little-endian
   32-bit words, from offset 64, of what was READ: ceiling_div(data_len, 2048) reads of 2048 bytes
   from data_fp, each completed with zeros to 2048 bytes. *)
Theorem bit_csum_spec fp data_len :
  bit_csum fp data_len =
  Some (zsum32 (skipn 64 (padded_sectors (Z.to_nat (ceiling_div data_len 2048)) fp)) mod M32).
Proof.
  unfold bit_csum. rewrite sector_loop_spec by (unfold M32; lia). rewrite zsum32_wsum. reflexivity.
Qed.

Lemma repeat_app0 a b : repeat 0 a ++ repeat 0 b = repeat 0 (a + b).
Proof. induction a as [|a IH]; cbn [repeat app plus]; [reflexivity|rewrite IH; reflexivity]. Qed.
Lemma skipn_repeat0 j k : skipn j (repeat 0 k) = repeat 0 (k - j).
Proof.
  revert k; induction j as [|j IH]; intros k; [rewrite Nat.sub_0_r; reflexivity|].
  destruct k as [|k]; [reflexivity|]. cbn [repeat skipn Nat.sub]. apply IH.
Qed.

Lemma padded_exact : forall n fp, (length fp <= 2048 * n)%nat ->
  padded_sectors n fp = fp ++ repeat 0 (2048 * n - length fp).
Proof.
  induction n as [|n IH]; intros fp Hl.
  - destruct fp; [reflexivity|cbn [length] in Hl; lia].
  - cbn [padded_sectors]. destruct (Nat.le_gt_cases (length fp) 2048) as [Hs|Hg].
    + rewrite firstn_all2, skipn_all2 by lia. rewrite (IH []) by (cbn [length]; lia).
      cbn [app length]. rewrite <- app_assoc, repeat_app0. f_equal. f_equal. lia.
    + assert (Hf : length (firstn 2048 fp) = 2048%nat) by (rewrite firstn_length; lia).
      rewrite Hf. cbn [Nat.sub repeat]. rewrite app_nil_r.
      rewrite IH by (rewrite skipn_length; lia). rewrite app_assoc, firstn_skipn, skipn_length.
      f_equal. f_equal. lia.
Qed.

(* Theorem 4 (the intended case): data_fp delivers exactly data_len bytes.  The checksum is the sum
   mod 2^32 of the little-endian 32-bit words of the file from offset 64; when the length is not a
   multiple of 4 the last word is completed with zero bytes (nothing is read past the end). *)
Theorem bit_csum_exact fp :
  bit_csum fp (zlen fp) = Some (zsum32 (skipn 64 fp) mod M32).
Proof.
  rewrite bit_csum_spec, !zsum32_wsum. rewrite ceiling_div_spec by lia.
  rewrite padded_exact by (unfold zlen; lia).
  rewrite skipn_app, skipn_repeat0, wsum_pad. reflexivity.
Qed.
Corollary bit_csum_exact_words fp : (64 <= length fp)%nat -> (length fp mod 4 = 0)%nat ->
  exists c, bit_csum fp (zlen fp) = Some c /\ 0 <= c < M32 /\
            c = fold_right Z.add 0 (words32 (skipn 64 fp)) mod M32.
Proof.
  intros _ _. eexists. split; [apply bit_csum_exact|]. split; [unfold M32; lia|reflexivity].
Qed.

(* the checksum is not determined by the data_len bytes that make up the file: bytes that data_fp
   delivers beyond data_len (a user fp longer than the length given to add_fp; on the parse side the
   rest of the last sector of a foreign image) are summed too.  Reproduced on the library:
   add_fp(BytesIO(body + b'\xff'*100), len(body), ...); add_eltorito(boot_info_table=True) stores a
   checksum that does not match the image it writes, and open() then drops the table. *)
Theorem bit_csum_overread_refuted :
  exists fp data_len, 0 <= data_len <= zlen fp /\
    bit_csum fp data_len <> bit_csum (firstn (Z.to_nat data_len) fp) data_len.
Proof.
  exists (repeat 0 64 ++ [1; 255]), 65. split; [vm_compute; split; discriminate|].
  vm_compute. discriminate.
Qed.
(* what does hold: only the sectors up to ceiling_div(data_len, 2048) matter *)
Theorem bit_csum_partial fp fp' data_len :
  firstn (2048 * Z.to_nat (ceiling_div data_len 2048)) fp =
  firstn (2048 * Z.to_nat (ceiling_div data_len 2048)) fp' ->
  bit_csum fp data_len = bit_csum fp' data_len.
Proof.
  rewrite !bit_csum_spec. generalize (Z.to_nat (ceiling_div data_len 2048)). intros n H.
  f_equal. f_equal. f_equal. f_equal. revert fp fp' H.
  induction n as [|n IH]; intros fp fp' H; [reflexivity|]. cbn [padded_sectors].
  assert (H1 : firstn 2048 fp = firstn 2048 fp').
  { apply (f_equal (firstn 2048)) in H. rewrite !firstn_firstn in H.
    replace (Nat.min 2048 (2048 * S n)) with 2048%nat in H by lia. exact H. }
  rewrite H1. f_equal. apply IH.
  apply (f_equal (skipn 2048)) in H. rewrite !skipn_firstn_comm in H.
  replace (2048 * S n - 2048)%nat with (2048 * n)%nat in H by lia. exact H.
Qed.

(* ---- real objects ---- *)
(* body = bytes(range(70)) + b'\x01\x02\x03\x04\x05\x06\x07' (77 bytes); add_eltorito(boot_info_table=True) *)
Definition real_body : list Z := map Z.of_nat (seq 0 70) ++ [1; 2; 3; 4; 5; 6; 7].
Example real_boot_info_table :
  bit_csum real_body 77 = Some 1263045262 /\
  bit_record (mk_bit 16 26 77 1263045262) =
    Some ([16; 0; 0; 0; 26; 0; 0; 0; 77; 0; 0; 0; 142; 138; 72; 75] ++ repeat 0 40) /\
  bit_parse 16 26 [16; 0; 0; 0; 26; 0; 0; 0; 77; 0; 0; 0; 142; 138; 72; 75]
    = Some (Some (mk_bit 16 26 77 1263045262)) /\
  bit_parse 16 27 [16; 0; 0; 0; 26; 0; 0; 0; 77; 0; 0; 0; 142; 138; 72; 75] = Some None /\
  bit_parse 16 26 [16; 0; 0] = None /\
  (* the same file given as a longer fp: the stored checksum differs *)
  bit_csum (real_body ++ repeat 255 100) 77 = Some 1263045237.
Proof. vm_conj. Qed.

Print Assumptions bit_roundtrip.
Print Assumptions bit_csum_spec.
Print Assumptions bit_csum_exact.
Print Assumptions bit_csum_overread_refuted.
Print Assumptions bit_csum_partial.
