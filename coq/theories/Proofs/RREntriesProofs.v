(* Proofs about Model/RREntries.v: the System Use entry codecs of pycdlib/rockridge.py.

   Main results (all "for every rest": parse() is handed the whole remainder of the area)
     <k>_roundtrip   k in sp rr es ce px er pn link bare pd nm sl al tf sf:
                     <k>_ok x = true -> rec_<k> x = Some (enc_<k> x) /\ parse_<k> (enc_<k> x ++ rest) = Some x
     entry_roundtrip entry_ok v e -> rec_entry v e = Some b /\ parse_entry (sig_of e) (b ++ rest) = Some (e, aux)
                     (a PD entry only with rest = []: pd_swallows_rest)
     entry_layout    b = sig_of e ++ [zlen b; 1] ++ payload, 4 <= zlen b <= 255
     entry_static_len  zlen b = the class's static length()
     refuted: sl_factory_dot_roundtrip_refuted (sl_plain_dot_length_refuted is gone with the repair of
              current_length(): Example sl_plain_dot_roundtrip), sf_high_without_depth_refuted,
              px_serial_dropped_refuted, pd_swallows_rest
     tf_length_popcount  for all 256 flag bytes: length(flags) = 5 + (7|17) * #(bits 0..6 set) <= 124 (sweep)
     tf_roundtrip     flags any byte, date contents universally quantified (7 or 17 bytes each, present
                      exactly for the set bits)
   SL name()/factory are in Proofs/RRSLProofs.v, the walker in Proofs/RRWalkProofs.v. *)
From Coq Require Import ZArith List Bool Lia ZifyBool.
From PV.Base Require Import Prim Sweep.
From PV.Model Require Import Codec RREntries.
From PV.Proofs Require Import CodecProofs.
Import ListNotations.
Local Open Scope Z_scope.
Ltac Zify.zify_post_hook ::= Z.to_euclidean_division_equations.

(* ---- helpers ---- *)
Lemma zlist_eqb_eq a b : zlist_eqb a b = true <-> a = b.
Proof.
  revert b; induction a as [|x a IH]; intros [|y b]; cbn; split; intros H; try discriminate; auto.
  - apply andb_prop in H. destruct H as [H1 H2]. apply Z.eqb_eq in H1. apply IH in H2. congruence.
  - inversion H; subst. rewrite Z.eqb_refl. cbn. apply IH. reflexivity.
Qed.
Lemma zlist_eqb_refl a : zlist_eqb a a = true.
Proof. apply zlist_eqb_eq. reflexivity. Qed.

Lemma u32_ok_u32 v : u32_ok v = true -> u32 v.
Proof. unfold u32_ok, u32. lia. Qed.
Lemma u8_ok_byte v : u8_ok v = true -> byte v.
Proof. unfold u8_ok, byte. lia. Qed.

Lemma dboth32_enc v : u32_ok v = true -> dboth32 (le32 v) (le32 (swab32 v)) = Some v.
Proof.
  intros H. apply u32_ok_u32 in H. unfold dboth32.
  rewrite !le32_dle32 by (first [assumption | apply swab32_range]).
  rewrite swab32_invol, Z.eqb_refl by assumption. reflexivity.
Qed.

(* struct.unpack_from on what struct.pack produced, whatever follows *)
Lemma unpack_from_ge pre fs rest ws lim off :
  length pre = off -> (length (pre ++ concat fs) <= lim)%nat -> map (@length Z) fs = ws ->
  unpack_from ws ((pre ++ concat fs) ++ rest) lim off = Some fs.
Proof.
  intros <- Hl <-. unfold unpack_from.
  replace lim with (length (pre ++ concat fs) + (lim - length (pre ++ concat fs)))%nat by lia.
  rewrite firstn_app_2, <- app_assoc, skipn_length_app, split_concat. reflexivity.
Qed.
Lemma unpack_from_exact pre fs rest ws lim off :
  length pre = off -> length (pre ++ concat fs) = lim -> map (@length Z) fs = ws ->
  unpack_from ws ((pre ++ concat fs) ++ rest) lim off = Some fs.
Proof. intros H1 H2 H3. apply unpack_from_ge; [exact H1|lia|exact H3]. Qed.

Lemma zlen_length {A} (l : list A) n : length l = n -> zlen l = Z.of_nat n.
Proof. intros <-. reflexivity. Qed.

Ltac split_ok H :=
  repeat match type of H with
         | (_ && _) = true => let H1 := fresh H in apply andb_prop in H; destruct H as [H H1]
         end.

(* ---- SP RR ES ---- *)
Theorem sp_roundtrip x rest : u8_ok x = true ->
  rec_sp x = Some (enc_sp x) /\ parse_sp (enc_sp x ++ rest) = Some x.
Proof.
  intros H. unfold rec_sp. rewrite H. split; [reflexivity|].
  unfold parse_sp, enc_sp. rewrite (unpack_from_exact sig_SP (sp_fields x) rest) by reflexivity.
  reflexivity.
Qed.
Theorem rr_roundtrip x rest : u8_ok x = true ->
  rec_rr x = Some (enc_rr x) /\ parse_rr (enc_rr x ++ rest) = Some x.
Proof.
  intros H. unfold rec_rr. rewrite H. split; [reflexivity|].
  unfold parse_rr, enc_rr. rewrite (unpack_from_exact sig_RR _ rest) by reflexivity. reflexivity.
Qed.
Theorem es_roundtrip x rest : u8_ok x = true ->
  rec_es x = Some (enc_es x) /\ parse_es (enc_es x ++ rest) = Some x.
Proof.
  intros H. unfold rec_es. rewrite H. split; [reflexivity|].
  unfold parse_es, enc_es. rewrite (unpack_from_exact sig_ES _ rest) by reflexivity. reflexivity.
Qed.

(* ---- CE PN CL/PL ---- *)
Definition ce_ok (c : ce_rec) : bool := u32_ok (ce_bl c) && u32_ok (ce_off c) && u32_ok (ce_len c).
Theorem ce_roundtrip c rest : ce_ok c = true ->
  rec_ce c = Some (enc_ce c) /\ parse_ce (enc_ce c ++ rest) = Some c.
Proof.
  intros H. unfold rec_ce. fold (ce_ok c). rewrite H. split; [reflexivity|].
  unfold ce_ok in H. split_ok H.
  unfold parse_ce, enc_ce. rewrite (unpack_from_exact sig_CE (ce_fields c) rest) by reflexivity.
  unfold ce_fields. cbv beta iota. rewrite !dboth32_enc by assumption.
  destruct c; reflexivity.
Qed.
Definition pn_ok (p : pn_rec) : bool := u32_ok (pn_high p) && u32_ok (pn_low p).
Theorem pn_roundtrip p rest : pn_ok p = true ->
  rec_pn p = Some (enc_pn p) /\ parse_pn (enc_pn p ++ rest) = Some p.
Proof.
  intros H. unfold rec_pn. fold (pn_ok p). rewrite H. split; [reflexivity|].
  unfold pn_ok in H. split_ok H.
  unfold parse_pn, enc_pn. rewrite (unpack_from_exact sig_PN (pn_fields p) rest) by reflexivity.
  unfold pn_fields. cbv beta iota. rewrite !dboth32_enc by assumption.
  destruct p; reflexivity.
Qed.
Theorem link_roundtrip sg bl rest : length sg = 2%nat -> u32_ok bl = true ->
  rec_link sg bl = Some (enc_link sg bl) /\ parse_link (enc_link sg bl ++ rest) = Some bl.
Proof.
  intros Hs H. unfold rec_link. rewrite H. split; [reflexivity|].
  unfold parse_link, enc_link.
  rewrite (unpack_from_exact sg (link_fields bl) rest [1; 1; 4; 4]%nat 12 2);
    [|exact Hs|rewrite app_length, Hs; reflexivity|reflexivity].
  unfold link_fields. cbv beta iota. apply dboth32_enc. exact H.
Qed.

(* ---- RE ST PD ---- *)
Theorem bare_roundtrip sg rest : length sg = 2%nat -> parse_bare (enc_bare sg ++ rest) = Some tt.
Proof.
  intros Hs. unfold parse_bare, enc_bare.
  rewrite (unpack_from_exact sg _ rest [1; 1]%nat 4 2);
    [reflexivity|exact Hs|rewrite app_length, Hs; reflexivity|reflexivity].
Qed.
(* PD: parse takes rrstr[4:], i.e. everything after the header including the following entries *)
Theorem pd_parse p rest : parse_pd (enc_pd p ++ rest) = Some (p ++ rest).
Proof.
  unfold parse_pd, enc_pd. rewrite <- app_assoc.
  rewrite (unpack_from_exact sig_PD _ (p ++ rest) [1; 1]%nat 4 2) by reflexivity.
  reflexivity.
Qed.
Theorem pd_roundtrip p : len_pd p <=? 255 = true ->
  rec_pd p = Some (enc_pd p) /\ parse_pd (enc_pd p ++ []) = Some p.
Proof.
  intros H. unfold rec_pd. replace (u8_ok (len_pd p)) with true.
  - split; [reflexivity|]. rewrite pd_parse, app_nil_r. reflexivity.
  - unfold u8_ok, len_pd in *. pose proof (zlen_nonneg p). lia.
Qed.
Theorem pd_swallows_rest :
  exists p rest, rec_pd p = Some (enc_pd p) /\ parse_pd (enc_pd p ++ rest) <> Some p.
Proof. exists [], (enc_bare sig_ST). split; [reflexivity|]. vm_compute. discriminate. Qed.

(* ---- PX ---- *)
Definition px_aux (v : rrv) : Z := match len_px v with Some l => l | None => 0 end.
Theorem px_roundtrip v p rest : px_ok v p = true ->
  exists l, len_px v = Some l /\ rec_px v p = Some (enc_px l v p) /\
            parse_px (enc_px l v p ++ rest) = Some (p, l).
Proof.
  intros H. unfold px_ok in H. rewrite !andb_true_iff in H.
  destruct H as ((((Hm & Hk) & Hu) & Hg) & H3).
  assert (Hl : exists l, len_px v = Some l /\ (l = 36 \/ l = 44) /\ (is_v112 v = true <-> l = 44)).
  { destruct v; try discriminate; cbn; eexists; (split; [reflexivity|]); (split; [auto|]);
      split; intros; (discriminate || reflexivity || lia). }
  destruct Hl as (l & Hl & Hl2 & Hl3). exists l. split; [exact Hl|].
  unfold rec_px. rewrite Hl, Hm, Hk, Hu, Hg. cbn [andb].
  assert (Hs : negb (is_v112 v) || u32_ok (px_serial p) = true).
  { destruct v; try reflexivity; try discriminate. exact H3. }
  rewrite Hs. split; [reflexivity|].
  unfold parse_px.
  assert (Eq : enc_px l v p ++ rest = (sig_PX ++ concat (px_fields l p))
               ++ ((if is_v112 v then concat (px_serial_fields p) else []) ++ rest)).
  { unfold enc_px. rewrite <- !app_assoc. reflexivity. }
  rewrite Eq. clear Eq.
  rewrite (unpack_from_ge sig_PX (px_fields l p) _ _ 38 2);
    [|reflexivity|cbn; lia|reflexivity].
  unfold px_fields at 1. cbv beta iota. rewrite !dboth32_enc by assumption.
  unfold d8. cbn [nth].
  destruct (is_v112 v) eqn:Ev.
  - assert (l = 44) by (apply Hl3; reflexivity). subst l. cbn [Z.eqb Pos.eqb].
    destruct v; try discriminate.
    rewrite app_assoc.
    rewrite (unpack_from_exact (sig_PX ++ concat (px_fields 44 p)) (px_serial_fields p) rest [4; 4]%nat 44 36)
      by reflexivity.
    unfold px_serial_fields. rewrite dboth32_enc by exact H3. destruct p; reflexivity.
  - assert (l = 36) by (destruct Hl2 as [?|E44]; [assumption|apply Hl3 in E44; discriminate]).
    subst l. cbn [Z.eqb Pos.eqb].
    assert (px_serial p = 0) by (destruct v; try discriminate; lia).
    destruct p; cbn in *; subst; reflexivity.
Qed.

(* ---- ER ---- *)
Lemma concat3 (a b c : list Z) : concat [a; b; c] = a ++ b ++ c.
Proof. cbn [concat]. rewrite app_nil_r. reflexivity. Qed.

Theorem er_roundtrip e rest : er_ok e = true ->
  rec_er e = Some (enc_er e) /\ parse_er (enc_er e ++ rest) = Some e.
Proof.
  intros H. unfold er_ok in H. apply andb_prop in H. destruct H as [Hl Hv].
  pose proof (zlen_nonneg (er_id e)) as P1. pose proof (zlen_nonneg (er_des e)) as P2.
  pose proof (zlen_nonneg (er_src e)) as P3. pose proof (zlen_nonneg rest) as P4.
  unfold len_er in Hl.
  assert (U0 : u8_ok (len_er (er_id e) (er_des e) (er_src e)) = true) by (unfold u8_ok, len_er; lia).
  assert (U1 : u8_ok (zlen (er_id e)) = true) by (unfold u8_ok; lia).
  assert (U2 : u8_ok (zlen (er_des e)) = true) by (unfold u8_ok; lia).
  assert (U3 : u8_ok (zlen (er_src e)) = true) by (unfold u8_ok; lia).
  unfold rec_er. rewrite U0, U1, U2, U3, Hv. split; [reflexivity|].
  unfold parse_er, enc_er. rewrite <- (app_assoc _ _ rest).
  rewrite (unpack_from_exact sig_ER (er_fields e) _ _ 8 2) by reflexivity.
  unfold er_fields. cbv beta iota zeta. unfold d8. cbn [nth].
  rewrite !zlen_app. change (zlen sig_ER) with 2.
  assert (Z1 : forall a b c d f g : Z, zlen (concat [[a]; [b]; [c]; [d]; [f]; [g]]) = 6) by reflexivity.
  rewrite Z1.
  replace (_ <? len_er _ _ _) with false by (unfold len_er; lia).
  replace (len_er _ _ _ <? _) with false by (unfold len_er; lia).
  rewrite (skipn_app_exact 8) by reflexivity.
  rewrite !to_nat_zlen, <- !app_assoc, <- concat3.
  change [length (er_id e); length (er_des e); length (er_src e)]
    with (map (@length Z) [er_id e; er_des e; er_src e]).
  rewrite concat3, !app_assoc, <- (app_assoc (er_id e)), <- concat3, split_concat.
  destruct e; reflexivity.
Qed.

(* ---- NM ---- *)
Theorem nm_roundtrip n rest : nm_ok n = true ->
  rec_nm n = Some (enc_nm n) /\ parse_nm (enc_nm n ++ rest) = Some n.
Proof.
  intros H. unfold nm_ok in H. rewrite !andb_true_iff in H. destruct H as (((Hf & Hl) & Hv) & Hn).
  pose proof (zlen_nonneg (nm_name n)) as P1.
  assert (U0 : u8_ok (len_nm (nm_name n)) = true) by (unfold u8_ok, len_nm in *; lia).
  unfold rec_nm. rewrite U0, Hf. split; [reflexivity|].
  unfold parse_nm, enc_nm. rewrite <- (app_assoc _ _ rest).
  rewrite (unpack_from_exact sig_NM _ _ _ 5 2) by reflexivity.
  cbv beta iota zeta. unfold d8. cbn [nth]. rewrite Hv. cbn [negb].
  destruct n as [fl name]. cbn [nm_flags nm_name] in *. destruct name as [|x name].
  - reflexivity.
  - replace (len_nm (x :: name) - 5 =? 0) with false
      by (unfold len_nm; rewrite zlen_cons; pose proof (zlen_nonneg name); lia).
    cbn [negb].
    apply negb_true_iff in Hn. rewrite Hn. f_equal. f_equal.
    unfold slice. replace (5 + (len_nm (x :: name) - 5) - 5) with (zlen (x :: name)) by (unfold len_nm; lia).
    change (Z.to_nat 5) with 5%nat. rewrite (skipn_app_exact 5) by reflexivity.
    rewrite to_nat_zlen. apply firstn_length_app.
Qed.

(* ---- SL / AL components ---- *)
Definition raw (c : comp) : list Z := [c_flags c; c_len c] ++ c_data c.
Definition comp_wf (ok : Z -> Z -> bool) (c : comp) : Prop :=
  ok (c_flags c) (c_len c) = true /\ c_len c = zlen (c_data c).

Lemma raw_total_ge cs : 2 * Z.of_nat (length cs) <= zlen (concat (map raw cs)).
Proof.
  induction cs as [|c cs IH]; [cbn; lia|].
  cbn [map concat length]. rewrite zlen_app. unfold raw at 1. rewrite zlen_app.
  pose proof (zlen_nonneg (c_data c)). change (zlen [c_flags c; c_len c]) with 2. lia.
Qed.

Lemma parse_comps_raw ok cs : Forall (comp_wf ok) cs ->
  forall fuel pre rest, (length cs < fuel)%nat ->
  parse_comps ok fuel (pre ++ concat (map raw cs) ++ rest) (zlen pre) (zlen (concat (map raw cs)))
  = Some cs.
Proof.
  induction 1 as [|c cs [Hok Hlen] Hcs IH]; intros fuel pre rest Hf.
  - destruct fuel; [lia|]. reflexivity.
  - destruct fuel as [|f]; [cbn in Hf; lia|]. cbn [length] in Hf.
    destruct c as [fl ln d]. cbn [c_flags c_len c_data] in Hok, Hlen.
    cbn [map concat]. set (tailc := concat (map raw cs)) in *.
    unfold raw at 1 2. cbn [c_flags c_len c_data].
    cbn [parse_comps].
    pose proof (zlen_nonneg d) as Pd. pose proof (zlen_nonneg tailc) as Pt.
    replace (0 <? zlen (([fl; ln] ++ d) ++ tailc)) with true
      by (rewrite !zlen_app; change (zlen [fl; ln]) with 2; lia).
    replace (Z.to_nat (zlen pre + 2)) with (length pre + 2)%nat by (unfold zlen; lia).
    rewrite to_nat_zlen, firstn_app_2.
    cbn [app firstn]. rewrite skipn_length_app, Hok.
    assert (Es : slice (zlen pre + 2) (zlen pre + 2 + ln) (pre ++ fl :: ln :: (d ++ tailc) ++ rest) = d).
    { unfold slice. replace (zlen pre + 2 + ln - (zlen pre + 2)) with (zlen d) by lia.
      replace (Z.to_nat (zlen pre + 2)) with (length (pre ++ [fl; ln])) by (rewrite app_length; unfold zlen; cbn; lia).
      change (pre ++ fl :: ln :: (d ++ tailc) ++ rest) with (pre ++ [fl; ln] ++ ((d ++ tailc) ++ rest)).
      rewrite app_assoc, skipn_length_app, to_nat_zlen, <- app_assoc. apply firstn_length_app. }
    rewrite Es.
    replace (pre ++ fl :: ln :: (d ++ tailc) ++ rest) with ((pre ++ [fl; ln] ++ d) ++ tailc ++ rest)
      by (rewrite <- !app_assoc; reflexivity).
    replace (zlen pre + 2 + ln) with (zlen (pre ++ [fl; ln] ++ d))
      by (rewrite !zlen_app; change (zlen [fl; ln]) with 2; lia).
    replace (zlen (fl :: ln :: d ++ tailc) - 2 - ln) with (zlen tailc)
      by (change (fl :: ln :: d ++ tailc) with ([fl; ln] ++ d ++ tailc); rewrite !zlen_app;
          change (zlen [fl; ln]) with 2; lia).
    rewrite IH by lia. reflexivity.
Qed.

Lemma fold_left_sum {A} (f : A -> Z) l a :
  fold_left (fun x n => x + f n) l a = a + fold_right (fun n acc => f n + acc) 0 l.
Proof. revert a; induction l as [|x l IH]; intros a; cbn; [lia|rewrite IH; lia]. Qed.

Lemma flags01 fl : mem_z fl [0; 1] = true ->
  flag_set fl 1 = false /\ flag_set fl 2 = false /\ flag_set fl 3 = false /\
  mem_z fl [0; 1; 2; 4; 8] = true /\ u8_ok fl = true.
Proof.
  intros H. assert (E : fl = 0 \/ fl = 1) by (unfold mem_z in H; cbn in H; lia).
  destruct E as [-> | ->]; repeat split; reflexivity.
Qed.

Lemma sl_comp_facts c : sl_comp_ok c = true ->
  sl_comp_enc c = raw c /\ comp_wf sl_comp_init_ok c /\ sl_comp_packable c = true /\
  zlen (raw c) = comp_recorded_length c.
Proof.
  destruct c as [fl ln d]. unfold sl_comp_ok. cbn [c_flags c_len c_data]. intros H.
  apply orb_prop in H. destruct H as [H|H]; rewrite !andb_true_iff in H.
  - destruct H as ((Hf & Hl) & Hd). destruct d; [|discriminate].
    assert (ln = 0) by lia. subst ln.
    assert (E : fl = 2 \/ fl = 4 \/ fl = 8) by (unfold mem_z in Hf; cbn in Hf; lia).
    destruct E as [-> | [-> | ->]]; repeat split; reflexivity.
  - destruct H as ((Hf & Hl) & Hu).
    destruct (flags01 fl Hf) as (F1 & F2 & F3 & Fm & Fu).
    unfold sl_comp_enc, comp_wf, sl_comp_packable, comp_recorded_length, sl_comp_init_ok, raw.
    cbn [c_flags c_len c_data]. rewrite F1, F2, F3, Fm, Fu, Hu. cbn [orb andb negb].
    repeat split; try reflexivity; try lia.
    rewrite zlen_app. change (zlen [fl; ln]) with 2. lia.
Qed.

Lemma sl_comps_facts cs : forallb sl_comp_ok cs = true ->
  map sl_comp_enc cs = map raw cs /\ Forall (comp_wf sl_comp_init_ok) cs /\
  forallb sl_comp_packable cs = true /\
  zlen (concat (map raw cs)) = fold_right (fun c acc => comp_recorded_length c + acc) 0 cs.
Proof.
  induction cs as [|c cs IH]; intros H; [repeat split; constructor|].
  cbn [forallb] in H. apply andb_prop in H. destruct H as [Hc H].
  destruct (sl_comp_facts c Hc) as (E1 & E2 & E3 & E4). destruct (IH H) as (I1 & I2 & I3 & I4).
  cbn [map forallb concat fold_right]. rewrite E1, I1, E3, I3, zlen_app, E4, I4.
  repeat split. constructor; assumption.
Qed.

Lemma comps_parse ok (hdr : list Z) cs rest su_len : Forall (comp_wf ok) cs ->
  length hdr = 5%nat -> su_len = 5 + zlen (concat (map raw cs)) ->
  parse_comps ok (S (Z.to_nat su_len)) (hdr ++ concat (map raw cs) ++ rest) 5 (su_len - 5) = Some cs.
Proof.
  intros Hw Hh ->.
  replace (5 + zlen (concat (map raw cs)) - 5) with (zlen (concat (map raw cs))) by lia.
  change 5 with (Z.of_nat 5) at 2. rewrite <- Hh. fold (zlen hdr).
  apply parse_comps_raw; [exact Hw|]. pose proof (raw_total_ge cs). lia.
Qed.

Theorem sl_roundtrip s rest : sl_ok s = true ->
  rec_sl s = Some (enc_sl s) /\ parse_sl (enc_sl s ++ rest) = Some s /\
  zlen (enc_sl s) = sl_current_length s.
Proof.
  intros H. unfold sl_ok in H. rewrite !andb_true_iff in H. destruct H as ((Hf & Hc) & Hl).
  destruct (sl_comps_facts _ Hc) as (E1 & E2 & E3 & E4).
  assert (Hcur : sl_current_length s = 5 + zlen (concat (map raw (sl_comps s)))).
  { unfold sl_current_length. rewrite fold_left_sum, E4. reflexivity. }
  pose proof (zlen_nonneg (concat (map raw (sl_comps s)))) as P.
  assert (U : u8_ok (sl_current_length s) = true) by (unfold u8_ok; lia).
  unfold rec_sl. rewrite U, Hf, E3. split; [reflexivity|].
  unfold enc_sl. rewrite E1. split.
  - unfold parse_sl. rewrite <- (app_assoc _ _ rest).
    rewrite (unpack_from_exact sig_SL _ _ _ 5 2) by reflexivity.
    cbv beta iota zeta. unfold d8. cbn [nth].
    rewrite (comps_parse sl_comp_init_ok _ _ rest) by (first [assumption | reflexivity]).
    destruct s; reflexivity.
  - rewrite zlen_app. rewrite Hcur. reflexivity.
Qed.

Lemma al_comp_facts c : al_comp_ok c = true ->
  al_comp_enc c = raw c /\ comp_wf al_comp_init_ok c /\ al_comp_packable c = true.
Proof.
  destruct c as [fl ln d]. unfold al_comp_ok. cbn [c_flags c_len c_data]. intros H.
  rewrite !andb_true_iff in H. destruct H as ((Hf & Hl) & Hu).
  destruct (flags01 fl Hf) as (_ & _ & _ & _ & Fu).
  unfold al_comp_enc, comp_wf, al_comp_packable, al_comp_init_ok, raw. cbn [c_flags c_len c_data].
  rewrite Hf, Fu, Hu. repeat split; lia.
Qed.
Lemma al_comps_facts cs : forallb al_comp_ok cs = true ->
  map al_comp_enc cs = map raw cs /\ Forall (comp_wf al_comp_init_ok) cs /\
  forallb al_comp_packable cs = true /\
  zlen (concat (map raw cs)) = fold_right (fun n acc => 2 + zlen n + acc) 0 (map c_data cs).
Proof.
  induction cs as [|c cs IH]; intros H; [repeat split; constructor|].
  cbn [forallb] in H. apply andb_prop in H. destruct H as [Hc H].
  destruct (al_comp_facts c Hc) as (E1 & E2 & E3). destruct (IH H) as (I1 & I2 & I3 & I4).
  cbn [map forallb concat fold_right]. rewrite E1, I1, E3, I3, zlen_app, I4.
  repeat split; [constructor; assumption|]. unfold raw. rewrite zlen_app. reflexivity.
Qed.

Theorem al_roundtrip a rest : al_ok a = true ->
  rec_al a = Some (enc_al a) /\ parse_al (enc_al a ++ rest) = Some a /\
  zlen (enc_al a) = al_current_length a.
Proof.
  intros H. unfold al_ok in H. rewrite !andb_true_iff in H. destruct H as ((Hf & Hc) & Hl).
  destruct (al_comps_facts _ Hc) as (E1 & E2 & E3 & E4).
  assert (Hcur : al_current_length a = 5 + zlen (concat (map raw (al_comps a)))).
  { unfold al_current_length, len_al.
    rewrite (fold_left_sum (fun x => 2 + zlen x)), E4. reflexivity. }
  pose proof (zlen_nonneg (concat (map raw (al_comps a)))) as P.
  assert (U : u8_ok (al_current_length a) = true) by (unfold u8_ok; lia).
  unfold rec_al. rewrite U, Hf, E3. split; [reflexivity|].
  unfold enc_al. rewrite E1. split.
  - unfold parse_al. rewrite <- (app_assoc _ _ rest).
    rewrite (unpack_from_exact sig_AL _ _ _ 5 2) by reflexivity.
    cbv beta iota zeta. unfold d8. cbn [nth].
    rewrite (comps_parse al_comp_init_ok _ _ rest) by (first [assumption | reflexivity]).
    destruct a; reflexivity.
  - rewrite zlen_app. rewrite Hcur. reflexivity.
Qed.

(* ---- TF ---- *)
Definition count_set (fl : Z) (idxs : list Z) : Z :=
  fold_right (fun i acc => (if flag_set fl i then 1 else 0) + acc) 0 idxs.

Lemma tf_parse_fields_enc idxs fl : forall fs, tf_fields_ok idxs fl fs = true ->
  forall pre rest,
  tf_parse_fields idxs fl (tf_each fl) (pre ++ concat (tf_present fs) ++ rest) (zlen pre) = Some fs.
Proof.
  induction idxs as [|i r IH]; intros [|[b|] fs] H pre rest; cbn [tf_fields_ok] in H;
    try discriminate; [reflexivity| |].
  - rewrite !andb_true_iff in H. destruct H as ((Hb & Hlen) & Hr).
    cbn [tf_parse_fields]. rewrite Hb.
    change (concat (tf_present (Some b :: fs))) with (b ++ concat (tf_present fs)).
    assert (Es : slice (zlen pre) (zlen pre + tf_each fl) (pre ++ (b ++ concat (tf_present fs)) ++ rest) = b).
    { unfold slice. replace (zlen pre + tf_each fl - zlen pre) with (zlen b) by lia.
      rewrite !to_nat_zlen, skipn_length_app, <- app_assoc. apply firstn_length_app. }
    rewrite Es, Hlen.
    replace (pre ++ (b ++ concat (tf_present fs)) ++ rest) with ((pre ++ b) ++ concat (tf_present fs) ++ rest)
      by (rewrite <- !app_assoc; reflexivity).
    replace (zlen pre + tf_each fl) with (zlen (pre ++ b)) by (rewrite zlen_app; lia).
    rewrite IH by exact Hr. reflexivity.
  - apply andb_prop in H. destruct H as [Hb Hr]. apply negb_true_iff in Hb.
    cbn [tf_parse_fields]. rewrite Hb.
    change (concat (tf_present (None :: fs))) with (concat (tf_present fs)).
    rewrite IH by exact Hr. reflexivity.
Qed.

Lemma tf_body_len idxs fl : forall fs, tf_fields_ok idxs fl fs = true ->
  zlen (concat (tf_present fs)) = tf_each fl * count_set fl idxs.
Proof.
  induction idxs as [|i r IH]; intros [|[b|] fs] H; cbn [tf_fields_ok] in H; try discriminate.
  - cbn. lia.
  - rewrite !andb_true_iff in H. destruct H as ((Hb & Hlen) & Hr).
    change (concat (tf_present (Some b :: fs))) with (b ++ concat (tf_present fs)).
    rewrite zlen_app, (IH fs Hr). cbn [count_set fold_right]. rewrite Hb. fold (count_set fl r). lia.
  - apply andb_prop in H. destruct H as [Hb Hr]. apply negb_true_iff in Hb.
    change (concat (tf_present (None :: fs))) with (concat (tf_present fs)).
    rewrite (IH fs Hr). cbn [count_set fold_right]. rewrite Hb. fold (count_set fl r). lia.
Qed.

(* RRTFRecord.length(): Kernighan's loop counts the set bits among bits 0..6 -- all 256 flag bytes *)
Definition tf_len_chk (fl : Z) : bool :=
  (popcount_loop 8 (Z.land fl 127) =? count_set fl tf_indices) && (len_tf fl <=? 124).
Lemma tf_popcount_sweep : sweep tf_len_chk 0 256 = true.
Proof. vm_compute. reflexivity. Qed.
Theorem tf_length_popcount fl : u8_ok fl = true ->
  len_tf fl = 5 + tf_each fl * count_set fl tf_indices /\ len_tf fl <= 124.
Proof.
  intros H. assert (Hr : 0 <= fl < 0 + Z.pos 256) by (unfold u8_ok in H; lia).
  pose proof (sweep_sound tf_len_chk 0 256 tf_popcount_sweep fl Hr) as S.
  unfold tf_len_chk in S. apply andb_prop in S. destruct S as [S1 S2]. unfold len_tf at 1. split; lia.
Qed.

Theorem tf_roundtrip t rest : tf_ok t = true ->
  rec_tf t = Some (enc_tf t) /\ parse_tf (enc_tf t ++ rest) = Some t /\
  zlen (enc_tf t) = len_tf (tf_flags t) /\
  len_tf (tf_flags t) = 5 + tf_each (tf_flags t) * count_set (tf_flags t) tf_indices.
Proof.
  intros H. unfold tf_ok in H. apply andb_prop in H. destruct H as [Hf Hfs].
  destruct (tf_length_popcount _ Hf) as [L1 L2].
  assert (L0 : 5 <= len_tf (tf_flags t)).
  { unfold len_tf. assert (forall n f, 0 <= popcount_loop n f).
    { induction n as [|n IHn]; intros f; cbn [popcount_loop]; [lia|].
      destruct (f =? 0); [lia|]. specialize (IHn (Z.land f (f - 1))). lia. }
    specialize (H 8%nat (Z.land (tf_flags t) 127)). unfold tf_each. destruct (flag_set _ 7); lia. }
  assert (U : u8_ok (len_tf (tf_flags t)) = true) by (unfold u8_ok; lia).
  unfold rec_tf. rewrite U, Hf. split; [reflexivity|]. split; [|split; [|exact L1]].
  - unfold parse_tf, enc_tf. rewrite <- (app_assoc _ _ rest).
    rewrite (unpack_from_exact sig_TF _ _ _ 5 2) by reflexivity.
    cbv beta iota zeta. unfold d8. cbn [nth].
    replace (len_tf (tf_flags t) <? 5) with false by lia.
    set (hdr := sig_TF ++ concat [[len_tf (tf_flags t)]; [SU_ENTRY_VERSION]; [tf_flags t]]).
    change 5 with (zlen hdr). rewrite tf_parse_fields_enc by exact Hfs. destruct t; reflexivity.
  - unfold enc_tf. rewrite zlen_app, (tf_body_len _ _ _ Hfs), L1. reflexivity.
Qed.

(* ---- SF ---- *)
Theorem sf_roundtrip s rest : sf_ok s = true ->
  rec_sf s = Some (enc_sf s) /\ parse_sf (enc_sf s ++ rest) = Some s.
Proof.
  destruct s as [[h|] low [d|]]; unfold sf_ok; cbn [sf_high sf_depth sf_low]; intros H;
    try discriminate.
  - rewrite !andb_true_iff in H. destruct H as ((Hh & Hl) & Hd).
    unfold rec_sf. cbn [sf_high sf_depth sf_low]. rewrite Hh, Hl, Hd. split; [reflexivity|].
    unfold parse_sf, enc_sf. cbn [sf_high sf_depth sf_low sf_len_byte]. rewrite <- (app_assoc _ _ rest).
    rewrite (unpack_from_exact sig_SF _ _ _ 4 2) by reflexivity.
    cbv beta iota zeta. unfold d8 at 1. cbn [nth Z.eqb Pos.eqb]. rewrite app_assoc.
    rewrite (unpack_from_exact (sig_SF ++ concat [[21]; [SU_ENTRY_VERSION]]) _ rest _ 21 4) by reflexivity.
    rewrite !dboth32_enc by assumption. reflexivity.
  - unfold rec_sf. cbn [sf_high sf_depth sf_low]. rewrite H. split; [reflexivity|].
    unfold parse_sf, enc_sf. cbn [sf_high sf_depth sf_low sf_len_byte]. rewrite <- (app_assoc _ _ rest).
    rewrite (unpack_from_exact sig_SF _ _ _ 4 2) by reflexivity.
    cbv beta iota zeta. unfold d8 at 1. cbn [nth Z.eqb Pos.eqb]. rewrite app_assoc.
    rewrite (unpack_from_exact (sig_SF ++ concat [[12]; [SU_ENTRY_VERSION]]) _ rest _ 12 4) by reflexivity.
    rewrite !dboth32_enc by assumption. reflexivity.
Qed.

(* ---- one entry: dispatch, layout, static length ---- *)
Definition entry_aux (v : rrv) (e : su_entry) : Z := match e with E_PX _ => px_aux v | _ => 0 end.
Definition is_pd (e : su_entry) : bool := match e with E_PD _ => true | _ => false end.

Lemma pe_SP s : parse_entry sig_SP s = opt_map (fun a => (E_SP a, 0)) (parse_sp s).
Proof. reflexivity. Qed.
Lemma pe_RR s : parse_entry sig_RR s = opt_map (fun a => (E_RR a, 0)) (parse_rr s).
Proof. reflexivity. Qed.
Lemma pe_CE s : parse_entry sig_CE s = opt_map (fun a => (E_CE a, 0)) (parse_ce s).
Proof. reflexivity. Qed.
Lemma pe_ER s : parse_entry sig_ER s = opt_map (fun a => (E_ER a, 0)) (parse_er s).
Proof. reflexivity. Qed.
Lemma pe_ES s : parse_entry sig_ES s = opt_map (fun a => (E_ES a, 0)) (parse_es s).
Proof. reflexivity. Qed.
Lemma pe_PN s : parse_entry sig_PN s = opt_map (fun a => (E_PN a, 0)) (parse_pn s).
Proof. reflexivity. Qed.
Lemma pe_SL s : parse_entry sig_SL s = opt_map (fun a => (E_SL a, 0)) (parse_sl s).
Proof. reflexivity. Qed.
Lemma pe_NM s : parse_entry sig_NM s = opt_map (fun a => (E_NM a, 0)) (parse_nm s).
Proof. reflexivity. Qed.
Lemma pe_CL s : parse_entry sig_CL s = opt_map (fun a => (E_CL a, 0)) (parse_link s).
Proof. reflexivity. Qed.
Lemma pe_PL s : parse_entry sig_PL s = opt_map (fun a => (E_PL a, 0)) (parse_link s).
Proof. reflexivity. Qed.
Lemma pe_TF s : parse_entry sig_TF s = opt_map (fun a => (E_TF a, 0)) (parse_tf s).
Proof. reflexivity. Qed.
Lemma pe_SF s : parse_entry sig_SF s = opt_map (fun a => (E_SF a, 0)) (parse_sf s).
Proof. reflexivity. Qed.
Lemma pe_PD s : parse_entry sig_PD s = opt_map (fun a => (E_PD a, 0)) (parse_pd s).
Proof. reflexivity. Qed.
Lemma pe_AL s : parse_entry sig_AL s = opt_map (fun a => (E_AL a, 0)) (parse_al s).
Proof. reflexivity. Qed.
Lemma pe_PX s : parse_entry sig_PX s = opt_map (fun pl => (E_PX (fst pl), snd pl)) (parse_px s).
Proof. reflexivity. Qed.
Lemma pe_RE s : parse_entry sig_RE s = opt_map (fun _ => (E_RE, 0)) (parse_bare s).
Proof. reflexivity. Qed.
Lemma pe_ST s : parse_entry sig_ST s = opt_map (fun _ => (E_ST, 0)) (parse_bare s).
Proof. reflexivity. Qed.

Theorem entry_roundtrip v e rest : entry_ok v e = true -> (is_pd e = true -> rest = []) ->
  exists b, rec_entry v e = Some b /\ parse_entry (sig_of e) (b ++ rest) = Some (e, entry_aux v e).
Proof.
  intros H Hpd. destruct e; cbn [entry_ok] in H; cbn [rec_entry sig_of entry_aux].
  - destruct (sp_roundtrip skip rest H) as [R P]. eexists; split; [exact R|]. rewrite pe_SP. rewrite P. reflexivity.
  - destruct (rr_roundtrip fl rest H) as [R P]. eexists; split; [exact R|]. rewrite pe_RR. rewrite P. reflexivity.
  - destruct (ce_roundtrip c rest H) as [R P]. eexists; split; [exact R|]. rewrite pe_CE. rewrite P. reflexivity.
  - destruct (px_roundtrip v p rest H) as (l & Hl & R & P). eexists; split; [exact R|]. rewrite pe_PX.
    rewrite P. unfold px_aux. rewrite Hl. reflexivity.
  - destruct (er_roundtrip e rest H) as [R P]. eexists; split; [exact R|]. rewrite pe_ER. rewrite P. reflexivity.
  - destruct (es_roundtrip sq rest H) as [R P]. eexists; split; [exact R|]. rewrite pe_ES. rewrite P. reflexivity.
  - destruct (pn_roundtrip p rest H) as [R P]. eexists; split; [exact R|]. rewrite pe_PN. rewrite P. reflexivity.
  - destruct (sl_roundtrip s rest H) as (R & P & _). eexists; split; [exact R|]. rewrite pe_SL. rewrite P. reflexivity.
  - destruct (nm_roundtrip n rest H) as [R P]. eexists; split; [exact R|]. rewrite pe_NM. rewrite P. reflexivity.
  - destruct (link_roundtrip sig_CL bl rest eq_refl H) as [R P]. eexists; split; [exact R|]. rewrite pe_CL. rewrite P. reflexivity.
  - destruct (link_roundtrip sig_PL bl rest eq_refl H) as [R P]. eexists; split; [exact R|]. rewrite pe_PL. rewrite P. reflexivity.
  - eexists; split; [reflexivity|]. rewrite pe_RE.
    rewrite (bare_roundtrip sig_RE rest eq_refl). reflexivity.
  - eexists; split; [reflexivity|]. rewrite pe_ST.
    rewrite (bare_roundtrip sig_ST rest eq_refl). reflexivity.
  - destruct (tf_roundtrip t rest H) as (R & P & _). eexists; split; [exact R|]. rewrite pe_TF. rewrite P. reflexivity.
  - destruct (sf_roundtrip s rest H) as [R P]. eexists; split; [exact R|]. rewrite pe_SF. rewrite P. reflexivity.
  - rewrite (Hpd eq_refl). destruct (pd_roundtrip padding H) as [R P]. eexists; split; [exact R|]. rewrite pe_PD. rewrite P. reflexivity.
  - destruct (al_roundtrip a rest H) as (R & P & _). eexists; split; [exact R|]. rewrite pe_AL. rewrite P. reflexivity.
Qed.

(* record() = signature ++ [its own length; 1] ++ payload; the length is the class's static length()
   (SF: record() picks 12/21 by the presence of the high word, length(rr_version) by the version) *)
Definition static_ok (v : rrv) (e : su_entry) (L : Z) : Prop :=
  match e with E_SF s => L = sf_len_byte s | _ => static_len v e = Some L end.

Theorem entry_layout v e b : entry_ok v e = true -> rec_entry v e = Some b ->
  exists payload, b = sig_of e ++ [zlen b; 1] ++ payload /\ 4 <= zlen b <= 255 /\ static_ok v e (zlen b).
Proof.
  intros H R.
  assert (G : forall L payload, b = sig_of e ++ [L; 1] ++ payload -> zlen b = L -> 4 <= L <= 255 ->
              static_ok v e L ->
              exists payload, b = sig_of e ++ [zlen b; 1] ++ payload /\ 4 <= zlen b <= 255 /\ static_ok v e (zlen b)).
  { intros L payload E1 E2 E3 E4. exists payload. rewrite E2. auto. }
  destruct e; cbn [entry_ok] in H; cbn [rec_entry] in R.
  - unfold rec_sp in R. rewrite H in R. apply some_inv in R. subst b.
    apply (G 7 [190; 239; skip]); [reflexivity|reflexivity|lia|reflexivity].
  - unfold rec_rr in R. rewrite H in R. apply some_inv in R. subst b.
    apply (G 5 [fl]); [reflexivity|reflexivity|lia|reflexivity].
  - destruct (ce_roundtrip c [] H) as [R' _]. rewrite R' in R. apply some_inv in R. subst b.
    eapply (G 28); [reflexivity|reflexivity|lia|reflexivity].
  - destruct (px_roundtrip v p [] H) as (l & Hl & R' & _). rewrite R' in R. apply some_inv in R. subst b.
    destruct v; try discriminate; apply some_inv in Hl; subst l;
      (eapply G; [reflexivity|reflexivity|lia|reflexivity]).
  - destruct (er_roundtrip e [] H) as [R' _]. rewrite R' in R. apply some_inv in R. subst b.
    unfold er_ok in H. apply andb_prop in H. destruct H as [H _].
    pose proof (zlen_nonneg (er_id e)). pose proof (zlen_nonneg (er_des e)). pose proof (zlen_nonneg (er_src e)).
    eapply (G (len_er (er_id e) (er_des e) (er_src e))); [reflexivity| |unfold len_er in *; lia|reflexivity].
    unfold enc_er. rewrite !zlen_app. change (zlen sig_ER) with 2.
    change (zlen (concat (er_fields e))) with 6. unfold len_er. lia.
  - unfold rec_es in R. rewrite H in R. apply some_inv in R. subst b.
    apply (G 5 [sq]); [reflexivity|reflexivity|lia|reflexivity].
  - destruct (pn_roundtrip p [] H) as [R' _]. rewrite R' in R. apply some_inv in R. subst b.
    eapply (G 20); [reflexivity|reflexivity|lia|reflexivity].
  - destruct (sl_roundtrip s [] H) as (R' & _ & Hz). rewrite R' in R. apply some_inv in R. subst b.
    unfold sl_ok in H. rewrite !andb_true_iff in H. destruct H as (_ & H).
    assert (5 <= sl_current_length s).
    { rewrite <- Hz. unfold enc_sl. rewrite zlen_app.
      pose proof (zlen_nonneg (concat (map sl_comp_enc (sl_comps s)))).
      change (zlen (sig_SL ++ _)) with 5. lia. }
    eapply (G (sl_current_length s)); [reflexivity|exact Hz|lia|reflexivity].
  - destruct (nm_roundtrip n [] H) as [R' _]. rewrite R' in R. apply some_inv in R. subst b.
    unfold nm_ok in H. rewrite !andb_true_iff in H. destruct H as (((_ & H) & _) & _).
    pose proof (zlen_nonneg (nm_name n)).
    eapply (G (len_nm (nm_name n))); [reflexivity| |unfold len_nm in *; lia|reflexivity].
    unfold enc_nm. rewrite zlen_app. unfold len_nm. reflexivity.
  - unfold rec_link in R. rewrite H in R. apply some_inv in R. subst b.
    eapply (G 12); [reflexivity|reflexivity|lia|reflexivity].
  - unfold rec_link in R. rewrite H in R. apply some_inv in R. subst b.
    eapply (G 12); [reflexivity|reflexivity|lia|reflexivity].
  - apply some_inv in R. subst b. apply (G 4 []); [reflexivity|reflexivity|lia|reflexivity].
  - apply some_inv in R. subst b. apply (G 4 []); [reflexivity|reflexivity|lia|reflexivity].
  - destruct (tf_roundtrip t [] H) as (R' & _ & Hz & _). rewrite R' in R. apply some_inv in R. subst b.
    unfold tf_ok in H. apply andb_prop in H. destruct H as [H _].
    destruct (tf_length_popcount _ H) as [L1 L2].
    assert (5 <= len_tf (tf_flags t)).
    { rewrite <- Hz. unfold enc_tf. rewrite zlen_app.
      pose proof (zlen_nonneg (concat (tf_present (tf_fields t)))).
      change (zlen (sig_TF ++ _)) with 5. lia. }
    eapply (G (len_tf (tf_flags t))); [reflexivity|exact Hz|lia|reflexivity].
  - destruct (sf_roundtrip s [] H) as [R' _]. rewrite R' in R. apply some_inv in R. subst b.
    destruct s as [[h|] low [d|]]; try discriminate H;
      (eapply G; [reflexivity|reflexivity|cbn; lia|reflexivity]).
  - destruct (pd_roundtrip padding H) as [R' _]. rewrite R' in R. apply some_inv in R. subst b.
    pose proof (zlen_nonneg padding).
    eapply (G (len_pd padding)); [reflexivity| |unfold len_pd in *; lia|reflexivity].
    unfold enc_pd. rewrite zlen_app. unfold len_pd. reflexivity.
  - destruct (al_roundtrip a [] H) as (R' & _ & Hz). rewrite R' in R. apply some_inv in R. subst b.
    unfold al_ok in H. rewrite !andb_true_iff in H. destruct H as (_ & H).
    assert (5 <= al_current_length a).
    { unfold al_current_length, len_al. rewrite (fold_left_sum (fun x => 2 + zlen x)).
      assert (forall l : list (list Z), 0 <= fold_right (fun n acc => 2 + zlen n + acc) 0 l).
      { induction l as [|x l IH]; cbn [fold_right]; [lia|]. pose proof (zlen_nonneg x). lia. }
      specialize (H0 (map c_data (al_comps a))). lia. }
    eapply (G (al_current_length a)); [reflexivity|exact Hz|lia|reflexivity].
Qed.

Corollary entry_len_byte v e b : entry_ok v e = true -> rec_entry v e = Some b ->
  firstn 2 b = sig_of e /\ nth 2 b 0 = zlen b /\ nth 3 b 0 = 1.
Proof.
  intros H R. destruct (entry_layout v e b H R) as (payload & E & _).
  assert (Hs : exists s0 s1, sig_of e = [s0; s1]) by (destruct e; do 2 eexists; reflexivity).
  destruct Hs as (s0 & s1 & Hs). rewrite Hs in *.
  remember (zlen b) as L eqn:HL. clear HL. subst b. cbn. auto.
Qed.

(* ---- what the range predicates exclude, by counterexample (all reproduced on the real library) ---- *)
(* a plain component whose data spells "." (what parse() produces for the slice "." of a longer name, and what
   factory(b'.', literal=True) builds) is counted by recorded_length() with the 3 bytes record() writes: such an
   entry re-records to itself (before the repair of current_length() its length byte came out as 7) *)
Example sl_plain_dot_roundtrip :
  let area := [83; 76; 8; 1; 0; 0; 1; 46] in
  parse_sl area = Some (mk_sl 0 [mk_comp 0 1 [46]]) /\ rec_sl (mk_sl 0 [mk_comp 0 1 [46]]) = Some area /\
  sl_ok (mk_sl 0 [mk_comp 0 1 [46]]) = true.
Proof. repeat split. Qed.
(* Component.factory(b'.') keeps data = b'.', parse() of its record has data = b'' *)
Theorem sl_factory_dot_roundtrip_refuted :
  exists s b s', rec_sl s = Some b /\ parse_sl b = Some s' /\ s' <> s /\
                 sl_name (sl_comps s') = sl_name (sl_comps s).
Proof.
  exists (mk_sl 0 [sl_factory [46]]), [83; 76; 7; 1; 0; 2; 0], (mk_sl 0 [mk_comp 2 0 []]).
  repeat split; try reflexivity. vm_compute. discriminate.
Qed.
(* RRSFRecord.new(high, low, None): length byte 21, 12 bytes written *)
Theorem sf_high_without_depth_refuted :
  exists s b, rec_sf s = Some b /\ nth 2 b 0 = 21 /\ zlen b = 12 /\ parse_sf b = None.
Proof. exists (mk_sf (Some 1) 2 None). eexists. repeat split; vm_compute; reflexivity. Qed.
(* a PX serial number is not written under 1.09 / 1.10 *)
Theorem px_serial_dropped_refuted :
  exists p b, rec_px V109 p = Some b /\ parse_px b = Some (mk_px 33188 1 0 0 0, 36) /\ px_serial p <> 0.
Proof. exists (mk_px 33188 1 0 0 7). eexists. repeat split; vm_compute; (reflexivity || discriminate). Qed.

Print Assumptions entry_roundtrip.
Print Assumptions entry_layout.
Print Assumptions entry_len_byte.
Print Assumptions tf_roundtrip.
Print Assumptions tf_length_popcount.
Print Assumptions sl_roundtrip.
Print Assumptions al_roundtrip.
Print Assumptions px_roundtrip.
Print Assumptions pd_swallows_rest.
Print Assumptions sl_factory_dot_roundtrip_refuted.
Print Assumptions sf_high_without_depth_refuted.
