(* Proofs about Model/RRWalk.v: the System Use area walker (RockRidge.parse) and recorder
   (RockRidge._record) of pycdlib/rockridge.py.

   Main results
     su_loop_split          the faithful interleaved loop = stateless walk, then classification (ins_all)
     walk_su_records        walking the concatenation of the records of any list of in-range entries
                            (PD excluded, SP only in the first record of the root) returns that list, with
                            what PX parse returned and len(recslice); by induction on the list, using only
                            RREntriesProofs.entry_layout / entry_roundtrip
     ins_entries_list       inserting the entries in recorder order rebuilds the RockRidgeEntries
     parse_record_entries   parse_su (record_entries v E ++ pad) = Some (E, hints)   [no PN, no PD]
     parse_version_112      with a 44-byte PX the inferred version is 1.12
     refuted: pn_not_recorded_refuted, pd_then_entry_refuted, bytes_to_skip_refuted
   and Examples on bytes produced by the real library. *)
From Coq Require Import ZArith List Bool Lia ZifyBool.
From PV.Base Require Import Prim.
From PV.Model Require Import Codec RREntries RRWalk.
From PV.Proofs Require Import CodecProofs RREntriesProofs.
Import ListNotations.
Local Open Scope Z_scope.

(* ---- interleaved loop = walk + classification ---- *)
Lemma parse_entry_sig rtype s e aux : parse_entry rtype s = Some (e, aux) -> rtype = sig_of e.
Proof.
  unfold parse_entry.
  repeat match goal with
  | |- (if zlist_eqb rtype ?sg then ?x else _) = _ -> _ =>
      let E := fresh "E" in
      destruct (zlist_eqb rtype sg) eqn:E;
      [apply zlist_eqb_eq in E; subst rtype;
       match goal with |- opt_map _ ?p = _ -> _ => destruct p; cbn [opt_map] end;
       intros H; inversion H; reflexivity|]
  end.
  discriminate.
Qed.
Lemma dispatch_sig first left rtype s e aux : dispatch first left rtype s = Some (e, aux) -> rtype = sig_of e.
Proof. unfold dispatch. destruct (_ && _); [discriminate|]. apply parse_entry_sig. Qed.

Theorem su_loop_split first other record : forall fuel offset left acc vi,
  su_loop fuel first other record offset left acc vi =
  match walk_su fuel first record offset left with
  | Some es => ins_all other es acc vi
  | None => None
  end.
Proof.
  induction fuel as [|f IH]; intros offset left acc vi; cbn [su_loop walk_su]; [reflexivity|].
  destruct (su_header record offset left) as [| |rtype su_len s]; try reflexivity.
  destruct (dispatch first left rtype s) as [[e aux]|] eqn:D.
  - rewrite IH. rewrite (dispatch_sig _ _ _ _ _ _ D).
    destruct (walk_su f first record (offset + su_len) (left - su_len)) as [es|]; cbn [ins_all].
    + reflexivity.
    + destruct (_ || _); reflexivity.
  - destruct (_ || _); reflexivity.
Qed.

(* ---- walking recorded entries ---- *)
Definition is_sp (e : su_entry) : bool := match e with E_SP _ => true | _ => false end.
Definition good (v : rrv) (first : bool) (e : su_entry) : Prop :=
  entry_ok v e = true /\ is_pd e = false /\ (is_sp e = true -> first = true).
Definition entry_len (v : rrv) (e : su_entry) : Z :=
  match rec_entry v e with Some b => zlen b | None => 0 end.
Definition rest_len (v : rrv) (es : list su_entry) : Z := fold_right (fun e a => entry_len v e + a) 0 es.
(* what the walk reports: (entry, su_len returned by the PX parser or 0, len(recslice)) *)
Fixpoint annot (v : rrv) (es : list su_entry) (after : Z) : list (su_entry * Z * Z) :=
  match es with
  | [] => []
  | e :: r => (e, entry_aux v e, entry_len v e + rest_len v r + after) :: annot v r after
  end.

Lemma record_list_cons v e r bs : record_list v (e :: r) = Some bs ->
  exists b bs', rec_entry v e = Some b /\ record_list v r = Some bs' /\ bs = b ++ bs'.
Proof.
  unfold record_list. cbn [map concat_opt]. destruct (rec_entry v e) as [b|]; [|discriminate].
  destruct (concat_opt (map (rec_entry v) r)) as [bs'|]; [|discriminate].
  intros H. apply some_inv in H. eauto.
Qed.
Lemma record_list_len v es bs : record_list v es = Some bs -> zlen bs = rest_len v es.
Proof.
  revert bs; induction es as [|e r IH]; intros bs H.
  - apply some_inv in H. subst. reflexivity.
  - destruct (record_list_cons _ _ _ _ H) as (b & bs' & Hb & Hr & ->).
    rewrite zlen_app, (IH _ Hr). cbn [rest_len fold_right]. unfold entry_len. rewrite Hb. reflexivity.
Qed.

Definition pad_ok (tail : list Z) : Prop := tail = [] \/ tail = [0].

Lemma header_end pre tail : pad_ok tail -> su_header (pre ++ tail) (zlen pre) (zlen tail) = R_end.
Proof.
  intros [-> | ->]; unfold su_header; [reflexivity|]. cbn [zlen length Z.of_nat Pos.of_succ_nat Z.eqb Pos.eqb].
  rewrite to_nat_zlen, skipn_length_app. reflexivity.
Qed.

Lemma header_entry pre s0 s1 L payload more left :
  4 <= L <= 255 -> 4 <= left ->
  su_header (pre ++ ([s0; s1] ++ [L; 1] ++ payload) ++ more) (zlen pre) left =
  R_entry [s0; s1] L (([s0; s1] ++ [L; 1] ++ payload) ++ more).
Proof.
  intros HL Hleft. unfold su_header.
  replace (left =? 0) with false by lia. replace (left =? 1) with false by lia.
  replace (left <? 4) with false by lia.
  replace (Z.to_nat (zlen pre + 4)) with (length pre + 4)%nat by (unfold zlen; lia).
  rewrite to_nat_zlen, firstn_app_2. cbn [app firstn]. rewrite !skipn_length_app.
  unfold SU_ENTRY_VERSION. cbn [Z.eqb Pos.eqb negb].
  replace (L =? 0) with false by lia. reflexivity.
Qed.

Theorem walk_su_records v first tail : pad_ok tail -> forall es, Forall (good v first) es ->
  forall bs pre fuel, record_list v es = Some bs -> (length es < fuel)%nat ->
  walk_su fuel first (pre ++ bs ++ tail) (zlen pre) (zlen bs + zlen tail) = Some (annot v es (zlen tail)).
Proof.
  intros Ht. induction 1 as [|e r (Hok & Hpd & Hsp) Hr IH]; intros bs pre fuel Hrec Hf.
  - apply some_inv in Hrec. subst bs. destruct fuel; [cbn in Hf; lia|].
    cbn [walk_su app]. change (zlen [] + zlen tail) with (zlen tail). rewrite header_end by exact Ht. reflexivity.
  - destruct fuel as [|f]; [cbn in Hf; lia|]. cbn [length] in Hf.
    destruct (record_list_cons _ _ _ _ Hrec) as (b & bs' & Hb & Hr' & ->).
    destruct (entry_layout v e b Hok Hb) as (payload & Eb & HL & Hst).
    assert (Hs : exists s0 s1, sig_of e = [s0; s1]) by (destruct e; do 2 eexists; reflexivity).
    destruct Hs as (s0 & s1 & Hs).
    pose proof (zlen_nonneg bs') as P1. pose proof (zlen_nonneg tail) as P2.
    cbn [walk_su]. rewrite <- (app_assoc b bs' tail).
    rewrite Eb at 1. rewrite Hs, header_entry by (rewrite ?zlen_app; lia).
    rewrite <- Hs, <- Eb.
    assert (D : dispatch first (zlen (b ++ bs') + zlen tail) (sig_of e) (b ++ bs' ++ tail)
                = Some (e, entry_aux v e)).
    { unfold dispatch.
      destruct (entry_roundtrip v e (bs' ++ tail) Hok) as (b2 & Hb2 & Hp);
        [rewrite Hpd; discriminate|].
      rewrite Hb in Hb2. apply some_inv in Hb2. subst b2.
      destruct (zlist_eqb (sig_of e) sig_SP) eqn:Es; [|exact Hp].
      assert (is_sp e = true) by (destruct e; try discriminate Es; reflexivity).
      rewrite (Hsp H). destruct e; try discriminate. cbn [static_ok static_len] in Hst.
      apply some_inv in Hst. rewrite zlen_app.
      replace (zlen b + zlen bs' + zlen tail <? 7) with false by (unfold len_sp in Hst; lia).
      exact Hp. }
    rewrite D.
    replace (pre ++ b ++ bs' ++ tail) with ((pre ++ b) ++ bs' ++ tail) by (rewrite <- app_assoc; reflexivity).
    replace (zlen pre + zlen b) with (zlen (pre ++ b)) by (rewrite zlen_app; reflexivity).
    replace (zlen (b ++ bs') + zlen tail - zlen b) with (zlen bs' + zlen tail) by (rewrite zlen_app; lia).
    rewrite (IH bs' (pre ++ b) f Hr') by lia.
    cbn [annot]. unfold entry_len at 1. rewrite Hb, <- (record_list_len _ _ _ Hr'), !zlen_app.
    rewrite Z.add_assoc. reflexivity.
Qed.

(* ---- classification: entries in recorder order rebuild the structure ---- *)
Fixpoint ins_ents (other : rr_entries) (es : list su_entry) (acc : rr_entries) : option rr_entries :=
  match es with
  | [] => Some acc
  | e :: r => if slot_filled acc (sig_of e) || slot_filled other (sig_of e) then None
              else ins_ents other r (insert e acc)
  end.
Definition vi_step (vi : vinfo) (x : su_entry * Z * Z) : vinfo :=
  let '(e, aux, sl) := x in vi_update e aux sl vi.
Lemma ins_all_ents other : forall aes acc vi,
  ins_all other aes acc vi =
  match ins_ents other (map (fun x => fst (fst x)) aes) acc with
  | Some acc' => Some (acc', fold_left vi_step aes vi)
  | None => None
  end.
Proof.
  induction aes as [|[[e aux] sl] r IH]; intros acc vi; cbn [ins_all map ins_ents fold_left fst]; [reflexivity|].
  destruct (_ || _); [reflexivity|]. apply IH.
Qed.
Lemma annot_ents v es after : map (fun x => fst (fst x)) (annot v es after) = es.
Proof. induction es as [|e r IH]; cbn [annot map fst]; [reflexivity|rewrite IH; reflexivity]. Qed.

Lemma step_SP other rr ce px er es pn sl nm cl pl tf sf re st pd al (o : _) rest :
  (is_some o = true -> slot_filled other sig_SP = false) ->
  ins_ents other (opt_list E_SP o ++ rest) (mk_entries None rr ce px er es pn sl nm cl pl tf sf re st pd al) =
  ins_ents other rest (mk_entries o rr ce px er es pn sl nm cl pl tf sf re st pd al).
Proof.
  intros H. destruct o; [|reflexivity]. cbn [opt_list flag_list app ins_ents sig_of].
  rewrite (H eq_refl). reflexivity.
Qed.
Lemma step_RR other sp ce px er es pn sl nm cl pl tf sf re st pd al (o : _) rest :
  (is_some o = true -> slot_filled other sig_RR = false) ->
  ins_ents other (opt_list E_RR o ++ rest) (mk_entries sp None ce px er es pn sl nm cl pl tf sf re st pd al) =
  ins_ents other rest (mk_entries sp o ce px er es pn sl nm cl pl tf sf re st pd al).
Proof.
  intros H. destruct o; [|reflexivity]. cbn [opt_list flag_list app ins_ents sig_of].
  rewrite (H eq_refl). reflexivity.
Qed.
Lemma step_NM other sp rr ce px er es pn sl cl pl tf sf re st pd al l rest : forall nm,
  ins_ents other (map E_NM l ++ rest) (mk_entries sp rr ce px er es pn sl nm cl pl tf sf re st pd al) =
  ins_ents other rest (mk_entries sp rr ce px er es pn sl (nm ++ l) cl pl tf sf re st pd al).
Proof.
  induction l as [|x l IH]; intros nm; cbn [map app]; [rewrite app_nil_r; reflexivity|].
  cbn [ins_ents sig_of]. change (slot_filled other sig_NM) with false. cbn [orb insert].
  rewrite IH, <- app_assoc. reflexivity.
Qed.
Lemma step_PX other sp rr ce er es pn sl nm cl pl tf sf re st pd al (o : _) rest :
  (is_some o = true -> slot_filled other sig_PX = false) ->
  ins_ents other (opt_list E_PX o ++ rest) (mk_entries sp rr ce None er es pn sl nm cl pl tf sf re st pd al) =
  ins_ents other rest (mk_entries sp rr ce o er es pn sl nm cl pl tf sf re st pd al).
Proof.
  intros H. destruct o; [|reflexivity]. cbn [opt_list flag_list app ins_ents sig_of].
  rewrite (H eq_refl). reflexivity.
Qed.
Lemma step_SL other sp rr ce px er es pn nm cl pl tf sf re st pd al l rest : forall sl,
  ins_ents other (map E_SL l ++ rest) (mk_entries sp rr ce px er es pn sl nm cl pl tf sf re st pd al) =
  ins_ents other rest (mk_entries sp rr ce px er es pn (sl ++ l) nm cl pl tf sf re st pd al).
Proof.
  induction l as [|x l IH]; intros sl; cbn [map app]; [rewrite app_nil_r; reflexivity|].
  cbn [ins_ents sig_of]. change (slot_filled other sig_SL) with false. cbn [orb insert].
  rewrite IH, <- app_assoc. reflexivity.
Qed.
Lemma step_TF other sp rr ce px er es pn sl nm cl pl sf re st pd al (o : _) rest :
  (is_some o = true -> slot_filled other sig_TF = false) ->
  ins_ents other (opt_list E_TF o ++ rest) (mk_entries sp rr ce px er es pn sl nm cl pl None sf re st pd al) =
  ins_ents other rest (mk_entries sp rr ce px er es pn sl nm cl pl o sf re st pd al).
Proof.
  intros H. destruct o; [|reflexivity]. cbn [opt_list flag_list app ins_ents sig_of].
  rewrite (H eq_refl). reflexivity.
Qed.
Lemma step_CL other sp rr ce px er es pn sl nm pl tf sf re st pd al (o : _) rest :
  (is_some o = true -> slot_filled other sig_CL = false) ->
  ins_ents other (opt_list E_CL o ++ rest) (mk_entries sp rr ce px er es pn sl nm None pl tf sf re st pd al) =
  ins_ents other rest (mk_entries sp rr ce px er es pn sl nm o pl tf sf re st pd al).
Proof.
  intros H. destruct o; [|reflexivity]. cbn [opt_list flag_list app ins_ents sig_of].
  rewrite (H eq_refl). reflexivity.
Qed.
Lemma step_PL other sp rr ce px er es pn sl nm cl tf sf re st pd al (o : _) rest :
  (is_some o = true -> slot_filled other sig_PL = false) ->
  ins_ents other (opt_list E_PL o ++ rest) (mk_entries sp rr ce px er es pn sl nm cl None tf sf re st pd al) =
  ins_ents other rest (mk_entries sp rr ce px er es pn sl nm cl o tf sf re st pd al).
Proof.
  intros H. destruct o; [|reflexivity]. cbn [opt_list flag_list app ins_ents sig_of].
  rewrite (H eq_refl). reflexivity.
Qed.
Lemma step_RE other sp rr ce px er es pn sl nm cl pl tf sf st pd al (o : bool) rest :
  (o = true -> slot_filled other sig_RE = false) ->
  ins_ents other (flag_list E_RE o ++ rest) (mk_entries sp rr ce px er es pn sl nm cl pl tf sf false st pd al) =
  ins_ents other rest (mk_entries sp rr ce px er es pn sl nm cl pl tf sf o st pd al).
Proof.
  intros H. destruct o; [|reflexivity]. cbn [opt_list flag_list app ins_ents sig_of].
  rewrite (H eq_refl). reflexivity.
Qed.
Lemma step_ES other sp rr ce px er pn sl nm cl pl tf sf re st pd al l rest : forall es,
  ins_ents other (map E_ES l ++ rest) (mk_entries sp rr ce px er es pn sl nm cl pl tf sf re st pd al) =
  ins_ents other rest (mk_entries sp rr ce px er (es ++ l) pn sl nm cl pl tf sf re st pd al).
Proof.
  induction l as [|x l IH]; intros es; cbn [map app]; [rewrite app_nil_r; reflexivity|].
  cbn [ins_ents sig_of]. change (slot_filled other sig_ES) with false. cbn [orb insert].
  rewrite IH, <- app_assoc. reflexivity.
Qed.
Lemma step_ER other sp rr ce px es pn sl nm cl pl tf sf re st pd al (o : _) rest :
  (is_some o = true -> slot_filled other sig_ER = false) ->
  ins_ents other (opt_list E_ER o ++ rest) (mk_entries sp rr ce px None es pn sl nm cl pl tf sf re st pd al) =
  ins_ents other rest (mk_entries sp rr ce px o es pn sl nm cl pl tf sf re st pd al).
Proof.
  intros H. destruct o; [|reflexivity]. cbn [opt_list flag_list app ins_ents sig_of].
  rewrite (H eq_refl). reflexivity.
Qed.
Lemma step_AL other sp rr ce px er es pn sl nm cl pl tf sf re st pd l rest : forall al,
  ins_ents other (map E_AL l ++ rest) (mk_entries sp rr ce px er es pn sl nm cl pl tf sf re st pd al) =
  ins_ents other rest (mk_entries sp rr ce px er es pn sl nm cl pl tf sf re st pd (al ++ l)).
Proof.
  induction l as [|x l IH]; intros al; cbn [map app]; [rewrite app_nil_r; reflexivity|].
  cbn [ins_ents sig_of]. change (slot_filled other sig_AL) with false. cbn [orb insert].
  rewrite IH, <- app_assoc. reflexivity.
Qed.
Lemma step_CE other sp rr px er es pn sl nm cl pl tf sf re st pd al (o : _) rest :
  (is_some o = true -> slot_filled other sig_CE = false) ->
  ins_ents other (opt_list E_CE o ++ rest) (mk_entries sp rr None px er es pn sl nm cl pl tf sf re st pd al) =
  ins_ents other rest (mk_entries sp rr o px er es pn sl nm cl pl tf sf re st pd al).
Proof.
  intros H. destruct o; [|reflexivity]. cbn [opt_list flag_list app ins_ents sig_of].
  rewrite (H eq_refl). reflexivity.
Qed.
Lemma step_PD other sp rr ce px er es pn sl nm cl pl tf sf re st al l rest : forall pd,
  ins_ents other (map E_PD l ++ rest) (mk_entries sp rr ce px er es pn sl nm cl pl tf sf re st pd al) =
  ins_ents other rest (mk_entries sp rr ce px er es pn sl nm cl pl tf sf re st (pd ++ l) al).
Proof.
  induction l as [|x l IH]; intros pd; cbn [map app]; [rewrite app_nil_r; reflexivity|].
  cbn [ins_ents sig_of]. change (slot_filled other sig_PD) with false. cbn [orb insert].
  rewrite IH, <- app_assoc. reflexivity.
Qed.
Lemma step_ST other sp rr ce px er es pn sl nm cl pl tf sf re pd al (o : bool) rest :
  (o = true -> slot_filled other sig_ST = false) ->
  ins_ents other (flag_list E_ST o ++ rest) (mk_entries sp rr ce px er es pn sl nm cl pl tf sf re false pd al) =
  ins_ents other rest (mk_entries sp rr ce px er es pn sl nm cl pl tf sf re o pd al).
Proof.
  intros H. destruct o; [|reflexivity]. cbn [opt_list flag_list app ins_ents sig_of].
  rewrite (H eq_refl). reflexivity.
Qed.
Lemma step_SF other sp rr ce px er es pn sl nm cl pl tf re st pd al (o : _) rest :
  (is_some o = true -> slot_filled other sig_SF = false) ->
  ins_ents other (opt_list E_SF o ++ rest) (mk_entries sp rr ce px er es pn sl nm cl pl tf None re st pd al) =
  ins_ents other rest (mk_entries sp rr ce px er es pn sl nm cl pl tf o re st pd al).
Proof.
  intros H. destruct o; [|reflexivity]. cbn [opt_list flag_list app ins_ents sig_of].
  rewrite (H eq_refl). reflexivity.
Qed.

(* `other` (the other of dr_entries / ce_entries) holds none of the single records E holds *)
Definition compat (other E : rr_entries) : Prop :=
  (is_some (sp_record E) = true -> slot_filled other sig_SP = false) /\
  (is_some (rr_record E) = true -> slot_filled other sig_RR = false) /\
  (is_some (px_record E) = true -> slot_filled other sig_PX = false) /\
  (is_some (tf_record E) = true -> slot_filled other sig_TF = false) /\
  (is_some (cl_record E) = true -> slot_filled other sig_CL = false) /\
  (is_some (pl_record E) = true -> slot_filled other sig_PL = false) /\
  (re_record E = true -> slot_filled other sig_RE = false) /\
  (is_some (er_record E) = true -> slot_filled other sig_ER = false) /\
  (is_some (ce_record E) = true -> slot_filled other sig_CE = false) /\
  (st_record E = true -> slot_filled other sig_ST = false) /\
  (is_some (sf_record E) = true -> slot_filled other sig_SF = false).
Lemma compat_empty E : compat empty_entries E.
Proof. repeat split; intros; reflexivity. Qed.

Theorem ins_entries_list other E : pn_record E = None -> compat other E ->
  ins_ents other (entries_list E) empty_entries = Some E.
Proof.
  destruct E as [sp rr ce px er es pn sl nm cl pl tf sf re st pd al]. cbn [pn_record]. intros ->.
  unfold compat.
  cbn [sp_record rr_record ce_record px_record er_record tf_record cl_record pl_record re_record
       st_record sf_record].
  intros (C1 & C2 & C3 & C4 & C5 & C6 & C7 & C8 & C9 & C10 & C11).
  unfold entries_list, empty_entries.
  cbn [sp_record rr_record ce_record px_record er_record es_records pn_record sl_records nm_records
       cl_record pl_record tf_record sf_record re_record st_record pd_records al_records].
  rewrite step_SP by exact C1. rewrite step_RR by exact C2. rewrite step_NM.
  rewrite step_PX by exact C3. rewrite step_SL. rewrite step_TF by exact C4.
  rewrite step_CL by exact C5. rewrite step_PL by exact C6. rewrite step_RE by exact C7.
  rewrite step_ES. rewrite step_ER by exact C8. rewrite step_AL. rewrite step_CE by exact C9.
  rewrite step_PD. rewrite step_ST by exact C10.
  rewrite <- (app_nil_r (opt_list E_SF sf)). rewrite step_SF by exact C11. reflexivity.
Qed.

Lemma records_long v first es : Forall (good v first) es -> forall bs, record_list v es = Some bs ->
  (length es <= length bs)%nat.
Proof.
  induction 1 as [|e r (Hok & _) Hr IH]; intros bs H; [cbn; lia|].
  destruct (record_list_cons _ _ _ _ H) as (b & bs' & Hb & Hr' & ->).
  destruct (entry_layout v e b Hok Hb) as (_ & _ & HL & _). specialize (IH _ Hr').
  rewrite app_length. unfold zlen in HL. cbn [length]. lia.
Qed.

(* RockRidge.parse of what RockRidge._record wrote (optionally followed by the pad byte) gives the
   RockRidgeEntries back: no PN record (never written), no PD record (pd_then_entry_refuted) *)
Theorem parse_record_entries v first other E bs tail :
  Forall (good v first) (entries_list E) -> pn_record E = None -> compat other E -> pad_ok tail ->
  record_entries v E = Some bs ->
  parse_su first 0 other empty_entries (bs ++ tail)
  = Some (E, fold_left vi_step (annot v (entries_list E) (zlen tail)) vi0).
Proof.
  intros Hg Hpn Hc Ht Hrec. unfold parse_su. rewrite su_loop_split.
  pose proof (records_long v first _ Hg bs Hrec) as Hlen.
  change (bs ++ tail) with ([] ++ bs ++ tail) at 2. change 0 with (zlen (@nil Z)).
  rewrite zlen_app.
  rewrite (walk_su_records v first tail Ht _ Hg bs [] _ Hrec) by (rewrite app_length; lia).
  rewrite ins_all_ents, annot_ents, ins_entries_list by assumption. reflexivity.
Qed.

(* the version hint: a 44-byte PX makes the parsed object 1.12 *)
Lemma fold_px_112 es after : forall vi,
  (exists p, In (E_PX p) es) \/ vi_px_len vi = Some 44 ->
  vi_px_len (fold_left vi_step (annot V112 es after) vi) = Some 44.
Proof.
  induction es as [|e r IH]; intros vi H; cbn [annot fold_left].
  - destruct H as [[p []]|H]; exact H.
  - apply IH. unfold vi_step.
    destruct e; try (destruct H as [[q [Hq|Hq]]|H]; [discriminate Hq|left; eauto|right; exact H]).
    right. reflexivity.
Qed.
Theorem parse_version_112 first E bs tail p :
  Forall (good V112 first) (entries_list E) -> pn_record E = None -> pad_ok tail ->
  px_record E = Some p -> record_entries V112 E = Some bs ->
  rr_parse (bs ++ tail) first 0 false (empty_entries, empty_entries, V_unset)
  = Some (E, empty_entries, V112).
Proof.
  intros Hg Hpn Ht Hpx Hrec. unfold rr_parse.
  rewrite (parse_record_entries V112 first empty_entries E bs tail Hg Hpn (compat_empty E) Ht Hrec).
  unfold infer_version2. rewrite fold_px_112; [reflexivity|].
  left. exists p. unfold entries_list. rewrite Hpx. rewrite !in_app_iff. do 3 right. left. left. reflexivity.
Qed.

(* ---- what is excluded, by counterexample (reproduced on the real library) ---- *)
(* _record never writes the PN record: parse then record loses the device number *)
Theorem pn_not_recorded_refuted :
  exists E bs E' vi, Forall (fun e => entry_ok V109 e = true) (entries_list E) /\
    record_entries V109 E = Some bs /\
    parse_su false 0 empty_entries empty_entries bs = Some (E', vi) /\ E' <> E /\
    pn_record E <> None /\ pn_record E' = None.
Proof.
  exists (mk_entries None None None None None [] (Some (mk_pn 3 4)) [] [] None None None None true false [] []).
  do 3 eexists. split; [repeat constructor|]. split; [vm_compute; reflexivity|].
  split; [vm_compute; reflexivity|]. repeat split; discriminate.
Qed.
(* a PD record followed by another entry: parse puts the following entries into the padding *)
Theorem pd_then_entry_refuted :
  exists E bs E' vi, Forall (fun e => entry_ok V109 e = true) (entries_list E) /\ pn_record E = None /\
    record_entries V109 E = Some bs /\
    parse_su false 0 empty_entries empty_entries bs = Some (E', vi) /\ E' <> E /\
    record_entries V109 E' <> Some bs.
Proof.
  exists (mk_entries None None None None None [] None [] [] None None None None false true [[]] []).
  do 3 eexists. split; [repeat constructor|]. split; [reflexivity|]. split; [vm_compute; reflexivity|].
  split; [vm_compute; reflexivity|]. split; [discriminate|]. vm_compute. discriminate.
Qed.
(* `left = len(record)` does not discount bytes_to_skip: any non-zero skip makes the walk fail *)
Theorem bytes_to_skip_refuted :
  exists area, parse_su false 0 empty_entries empty_entries area <> None /\
               parse_su false 1 empty_entries empty_entries (0 :: area) = None.
Proof. exists (enc_bare sig_RE). split; vm_compute; [discriminate|reflexivity]. Qed.

(* ---- bytes obtained from the real library (rec.rock_ridge.record_dr_entries() / record_ce_entries()
        of images written with rock_ridge='1.09' / '1.12') ---- *)
Definition area_sym109 : list Z :=
  [82; 82; 5; 1; 141; 78; 77; 8; 1; 0; 115; 121; 109; 80; 88; 36; 1; 109; 161; 0; 0; 0; 0; 161; 109;
  1; 0; 0; 0; 0; 0; 0; 1; 0; 0; 0; 0; 0; 0; 0; 0; 0; 0; 0; 0; 0; 0; 0; 0; 83; 76; 29; 1; 0; 8; 0; 0;
  3; 117; 115; 114; 4; 0; 0; 3; 101; 116; 99; 2; 0; 0; 6; 112; 97; 115; 115; 119; 100; 84; 70; 26; 1;
  14; 126; 10; 1; 23; 6; 23; 0; 126; 10; 1; 23; 6; 23; 0; 126; 10; 1; 23; 6; 23; 0].
Definition area_rootdot112 : list Z :=
  [83; 80; 7; 1; 190; 239; 0; 80; 88; 44; 1; 109; 65; 0; 0; 0; 0; 65; 109; 4; 0; 0; 0; 0; 0; 0; 4; 0;
  0; 0; 0; 0; 0; 0; 0; 0; 0; 0; 0; 0; 0; 0; 0; 0; 0; 0; 0; 0; 0; 0; 0; 84; 70; 26; 1; 14; 126; 10; 1;
  23; 6; 23; 0; 126; 10; 1; 23; 6; 23; 0; 126; 10; 1; 23; 6; 23; 0; 67; 69; 28; 1; 35; 0; 0; 0; 0; 0;
  0; 35; 0; 0; 0; 0; 0; 0; 0; 0; 183; 0; 0; 0; 0; 0; 0; 183].
Definition area_er112 : list Z :=
  [69; 82; 183; 1; 10; 72; 93; 1; 73; 69; 69; 69; 95; 80; 49; 50; 56; 50; 84; 72; 69; 32; 73; 69; 69;
  69; 32; 80; 49; 50; 56; 50; 32; 80; 82; 79; 84; 79; 67; 79; 76; 32; 80; 82; 79; 86; 73; 68; 69; 83;
  32; 83; 85; 80; 80; 79; 82; 84; 32; 70; 79; 82; 32; 80; 79; 83; 73; 88; 32; 70; 73; 76; 69; 32; 83;
  89; 83; 84; 69; 77; 32; 83; 69; 77; 65; 78; 84; 73; 67; 83; 80; 76; 69; 65; 83; 69; 32; 67; 79; 78;
  84; 65; 67; 84; 32; 84; 72; 69; 32; 73; 69; 69; 69; 32; 83; 84; 65; 78; 68; 65; 82; 68; 83; 32; 68;
  69; 80; 65; 82; 84; 77; 69; 78; 84; 44; 32; 80; 73; 83; 67; 65; 84; 65; 87; 65; 89; 44; 32; 78; 74;
  44; 32; 85; 83; 65; 32; 70; 79; 82; 32; 84; 72; 69; 32; 80; 49; 50; 56; 50; 32; 83; 80; 69; 67; 73;
  70; 73; 67; 65; 84; 73; 79; 78].
Definition area_sym112 : list Z :=
  [78; 77; 8; 1; 0; 115; 121; 109; 80; 88; 44; 1; 109; 161; 0; 0; 0; 0; 161; 109; 1; 0; 0; 0; 0; 0; 0;
  1; 0; 0; 0; 0; 0; 0; 0; 0; 0; 0; 0; 0; 0; 0; 0; 0; 0; 0; 0; 0; 0; 0; 0; 0; 83; 76; 29; 1; 0; 8; 0;
  0; 3; 117; 115; 114; 4; 0; 0; 3; 101; 116; 99; 2; 0; 0; 6; 112; 97; 115; 115; 119; 100; 84; 70; 26;
  1; 14; 126; 10; 1; 23; 6; 23; 0; 126; 10; 1; 23; 6; 23; 0; 126; 10; 1; 23; 6; 23; 0].

Example real_areas_check :
  bad_su_areas 0 [area_sym109; area_rootdot112; area_er112; area_sym112] = [].
Proof. vm_compute. reflexivity. Qed.
(* add_symlink('/SYM.;1', 'sym', '/usr/../etc/./passwd') under 1.09: RR NM PX SL TF *)
Example sym109_parses :
  exists px tf, parse_su false 0 empty_entries empty_entries area_sym109 =
    Some (mk_entries None (Some 141) None (Some px) None [] None
            [mk_sl 0 [mk_comp 8 0 []; mk_comp 0 3 [117; 115; 114]; mk_comp 4 0 [];
                      mk_comp 0 3 [101; 116; 99]; mk_comp 2 0 []; mk_comp 0 6 [112; 97; 115; 115; 119; 100]]]
            [mk_nm 0 [115; 121; 109]] None None (Some tf) None false false [] [],
          mk_vi (Some 36) false None None).
Proof. do 2 eexists. vm_compute. reflexivity. Qed.
Example sym109_name :
  sl_name [mk_comp 8 0 []; mk_comp 0 3 [117; 115; 114]; mk_comp 4 0 []; mk_comp 0 3 [101; 116; 99];
           mk_comp 2 0 []; mk_comp 0 6 [112; 97; 115; 115; 119; 100]]
  = [47; 117; 115; 114; 47; 46; 46; 47; 101; 116; 99; 47; 46; 47; 112; 97; 115; 115; 119; 100].
Proof. vm_compute. reflexivity. Qed.
(* the dot record of the root under 1.12 (SP PX(44) TF CE) and its continuation area (ER) *)
Example rootdot112_version :
  match rr_parse area_rootdot112 true 0 false (empty_entries, empty_entries, V_unset) with
  | Some (dr, ce, v) =>
      match rr_parse area_er112 false 0 true (dr, ce, v) with
      | Some (dr', ce', v') =>
          (rrv_code v =? 112) && (rrv_code v' =? 112) && is_some (sp_record dr') && is_some (er_record ce')
          && opt_bytes_eqb (record_entries v' dr') area_rootdot112
          && opt_bytes_eqb (record_entries v' ce') area_er112
      | None => false
      end
  | None => false
  end = true.
Proof. vm_compute. reflexivity. Qed.
(* an SP record outside the first record of the root, a second PX, a wrong version byte are refused *)
Example walker_refuses :
  parse_su false 0 empty_entries empty_entries area_rootdot112 = None /\
  parse_su true 0 empty_entries empty_entries (area_sym112 ++ area_sym112) = None /\
  parse_su true 0 empty_entries empty_entries [82; 69; 4; 2] = None /\
  parse_su true 0 empty_entries empty_entries [82; 69; 4; 1; 0; 0] = None /\
  parse_su true 0 empty_entries empty_entries [82; 69; 4; 1; 0] <> None.
Proof. repeat split; vm_compute; (reflexivity || discriminate). Qed.
(* the checkers do detect a wrong byte *)
Example checkers_detect :
  bad_su_areas 0 [area_sym109; 82 :: 83 :: skipn 2 area_sym109] = [1%nat] /\
  bad_px_cases 0 [(109, (41325, 1, 0, 0, 0), firstn 36 (skipn 13 area_sym109));
                  (109, (33188, 1, 0, 0, 0), firstn 36 (skipn 13 area_sym109));
                  (0, (1, 1, 0, 0, 0), [])] = [1%nat] /\
  bad_nm_cases 0 [((0, [115; 121; 109]), [78; 77; 8; 1; 0; 115; 121; 109]);
                  ((1, [115; 121; 109]), [78; 77; 8; 1; 0; 115; 121; 109])] = [1%nat].
Proof. repeat split; vm_compute; reflexivity. Qed.

(* RRTFRecord.new(0x0e, t) and new(0x8e, t): short and long form; the SL cases of the known findings *)
Definition d7 : list Z := [123; 11; 14; 22; 13; 34; 0].
Definition d17 : list Z := [50; 48; 50; 51; 49; 49; 49; 52; 50; 50; 49; 53; 52; 50; 48; 48; 0].
Example tf_real_cases :
  bad_tf_cases 0 [((14, [[]; d7; d7; d7; []; []; []]), [84; 70; 26; 1; 14] ++ d7 ++ d7 ++ d7);
                  ((142, [[]; d17; d17; d17; []; []; []]), [84; 70; 56; 1; 142] ++ d17 ++ d17 ++ d17);
                  ((142, [[]; d17; d17; d17; []; []; []]), [84; 70; 26; 1; 14] ++ d7 ++ d7 ++ d7)]
  = [2%nat] /\ tf_ok (tf_of_tuple (142, [[]; d17; d17; d17; []; []; []])) = true /\
  len_tf 14 = 26 /\ len_tf 142 = 56 /\ len_tf 255 = 124.
Proof. repeat split; vm_compute; reflexivity. Qed.
Example sl_real_cases :
  bad_sl_cases 0 [(0, [(8, 0, [47]); (0, 3, [117; 115; 114]); (4, 0, [46; 46])],
                      [83; 76; 14; 1; 0; 8; 0; 0; 3; 117; 115; 114; 4; 0]);
                  (0, [(3, 0, [46]); (0, 1, [98])], [83; 76; 10; 1; 0; 2; 0; 0; 1; 98])] = [1%nat].
Proof. vm_compute. reflexivity. Qed.

Print Assumptions su_loop_split.
Print Assumptions walk_su_records.
Print Assumptions ins_entries_list.
Print Assumptions parse_record_entries.
Print Assumptions parse_version_112.
Print Assumptions pn_not_recorded_refuted.
Print Assumptions pd_then_entry_refuted.
Print Assumptions bytes_to_skip_refuted.
