(* MasterJoliet, part 5: the two readings of _reassign_vd_dirrecord_extents agree.
   The directory records take their extents from the walk over EVERY record (mj_dtree: a file is a
   leaf of 0 blocks); the path table is PathTable's walk over the DIRECTORIES only (mj_ptree).
     mj_walk_sim        the directories of the first walk, in order, have the names, blocks, extents
                        and name paths of the records of the second walk; both end at the same extent
     mj_walk_is_dir     in the first walk a record is a directory iff it has blocks
     mj_walk_names      d_path of a record is the list of identifiers along its position
     mj_ptree_size      the path table of mj_ptree has ltotal lw_ptr bytes *)
From Coq Require Import ZArith List Bool Lia ZifyBool.
From PV.Base Require Import Prim ListX.
From PV.Gen Require Import GenConst GenFun.
From PV.Model Require Import Codec Pack PathTable Master MasterJoliet.
From PV.Model Require Alloc Account AccountLinks AccountNs.
From PV.Proofs Require Import PackProofs PathTableLemmas PathTableProofs.
From PV.Proofs Require AccountLemmas AccountLinksLemmas.
From PV.Proofs Require Import MasterPack MasterBfs MasterWf MasterJolietWf.
Import ListNotations.
Local Open Scope Z_scope.
Ltac Zify.zify_post_hook ::= Z.to_euclidean_division_equations.

Fixpoint mj_pkids (l : list lnode) : list dtree :=
  match l with
  | [] => []
  | c :: r => match c with
              | LDir _ _ _ => mj_ptree c :: mj_pkids r
              | LFile _ _ _ => mj_pkids r
              end
  end.

Lemma mj_ptree_dir nm dl kids : mj_ptree (LDir nm dl kids) = Node nm (ceiling_div dl BS) (mj_pkids kids).
Proof.
  cbn [mj_ptree]. f_equal.
Qed.

Lemma mj_tname_dtree n : tname (mj_dtree n) = lname n.
Proof. destruct n; reflexivity. Qed.
Lemma mj_tname_ptree n : tname (mj_ptree n) = lname n.
Proof. destruct n; reflexivity. Qed.

Definition mj_proj (r : dirrec) : list Z * Z * Z * list (list Z) :=
  (d_name r, d_blocks r, d_extent r, d_path r).
Definition mj_big (r : dirrec) : bool := 0 <? d_blocks r.

(* the deque of the walk over every record against the deque of the walk over directories *)
Inductive mj_qrel : list qitem -> list qitem -> Prop :=
| mj_qr_nil : mj_qrel [] []
| mj_qr_file nm pn pos path q q' : mj_qrel q q' -> mj_qrel ((Node nm 0 [], pn, pos, path) :: q) q'
| mj_qr_dir n pn pos path pn' pos' q q' :
    AccountLinks.l_is_dir n = true -> mj_tree_ok n = true -> mj_qrel q q' ->
    mj_qrel ((mj_dtree n, pn, pos, path) :: q) ((mj_ptree n, pn', pos', path) :: q').

Lemma mj_qrel_app a a' : mj_qrel a a' -> forall b b', mj_qrel b b' -> mj_qrel (a ++ b) (a' ++ b').
Proof. induction 1; intros b b' Hb; cbn [app]; [exact Hb|constructor; auto|constructor; auto]. Qed.

Lemma mj_qrel_kids kids : (forall c, In c kids -> mj_tree_ok c = true) ->
  forall i i' pn pn' pos pos' path,
  mj_qrel (child_items_from i (map mj_dtree kids) pn pos path)
          (child_items_from i' (mj_pkids kids) pn' pos' path).
Proof.
  induction kids as [|c r IH]; intros Hk i i' pn pn' pos pos' path; [constructor|].
  assert (Hr : forall c', In c' r -> mj_tree_ok c' = true) by (intros c' H; apply Hk; right; exact H).
  destruct c as [nm ino st|nm dl ks].
  - cbn [map mj_dtree child_items_from mj_pkids tname]. apply mj_qr_file. apply IH. exact Hr.
  - cbn [map child_items_from mj_pkids]. rewrite mj_tname_dtree, mj_tname_ptree.
    apply mj_qr_dir; [reflexivity|apply Hk; left; reflexivity|]. apply IH. exact Hr.
Qed.

Lemma mj_go_nil f idx cur : go f [] idx cur = ([], cur).
Proof. destruct f; reflexivity. Qed.

Lemma mj_go_sim : forall f q idx cur q' f' idx', mj_qrel q q' ->
  (qsize q <= f)%nat -> (qsize q' <= f')%nat ->
  map mj_proj (filter mj_big (fst (go f q idx cur))) = map mj_proj (fst (go f' q' idx' cur)) /\
  snd (go f q idx cur) = snd (go f' q' idx' cur).
Proof.
  induction f as [|f IH]; intros q idx cur q' f' idx' Hrel Hf Hf'.
  - destruct Hrel as [|nm pn pos path q q' Hr|n pn pos path pn' pos' q q' Hd Hok Hr].
    + rewrite !mj_go_nil. split; reflexivity.
    + exfalso. rewrite qsize_cons in Hf. lia.
    + exfalso. rewrite qsize_cons' in Hf. cbn [fst] in Hf. pose proof (tsize_pos (mj_dtree n)). lia.
  - destruct Hrel as [|nm pn pos path q q' Hr|n pn pos path pn' pos' q q' Hd Hok Hr].
    + rewrite !mj_go_nil. split; reflexivity.
    + cbn [go]. unfold child_items. cbn [child_items_from]. rewrite app_nil_r, Z.add_0_r.
      cbn [fst snd filter]. unfold mj_big at 1. cbn [d_blocks]. change (0 <? 0) with false. cbv iota.
      apply IH; [exact Hr| |exact Hf']. rewrite qsize_cons in Hf. cbn [map list_sum] in Hf. lia.
    + destruct n as [nm ino st|nm dl kids]; [discriminate|].
      destruct (mj_ok_dir _ _ _ Hok) as (_ & _ & Hr' & _ & Hk).
      rewrite mj_ptree_dir in *. cbn [mj_dtree] in *.
      destruct f' as [|f']; [exfalso; rewrite qsize_cons in Hf'; lia|].
      cbn [go fst snd filter]. unfold mj_big at 1. cbn [d_blocks].
      assert (Hb : (0 <? ceiling_div dl BS) = true).
      { unfold ceiling_div. rewrite ms_BS in *. lia. }
      rewrite Hb. cbv iota. cbn [map].
      destruct (IH (q ++ child_items (map mj_dtree kids) idx pos path) (idx + 1) (cur + ceiling_div dl BS)
                   (q' ++ child_items (mj_pkids kids) idx' pos' path) f' (idx' + 1)) as [I1 I2].
      * apply mj_qrel_app; [exact Hr|]. unfold child_items. apply mj_qrel_kids. exact Hk.
      * rewrite qsize_app. unfold child_items. rewrite qsize_child. rewrite qsize_cons in Hf. lia.
      * rewrite qsize_app. unfold child_items. rewrite qsize_child. rewrite qsize_cons in Hf'. lia.
      * split; [|exact I2]. rewrite I1. reflexivity.
Qed.

Theorem mj_walk_sim start t : AccountLinks.l_is_dir t = true -> mj_tree_ok t = true ->
  map mj_proj (filter mj_big (bfs start (mj_dtree t))) = map mj_proj (bfs start (mj_ptree t)) /\
  assign_end start (mj_dtree t) = assign_end start (mj_ptree t).
Proof.
  intros Hd Hok. destruct t as [nm ino st|nm dl kids]; [discriminate|].
  destruct (mj_ok_dir _ _ _ Hok) as (_ & _ & Hr & _ & Hk).
  unfold assign_end, bfs, reassign. rewrite mj_ptree_dir. cbn [mj_dtree fst snd filter].
  unfold mj_big at 1. cbn [d_blocks].
  assert (Hb : (0 <? ceiling_div dl BS) = true).
  { unfold ceiling_div. rewrite ms_BS in *. lia. }
  rewrite Hb. cbv iota. cbn [map].
  destruct (mj_go_sim (qsize (child_items (map mj_dtree kids) 1 [] [])) (child_items (map mj_dtree kids) 1 [] [])
              2 (start + ceiling_div dl BS) (child_items (mj_pkids kids) 1 [] [])
              (qsize (child_items (mj_pkids kids) 1 [] [])) 2) as [I1 I2]; try apply le_n.
  - unfold child_items. apply mj_qrel_kids. exact Hk.
  - split; [rewrite I1; reflexivity|exact I2].
Qed.

(* ---- in the walk over every record, the directories are the records with blocks ----------------------- *)

Lemma mj_walk_is_dir start t r : mj_tree_ok t = true -> In r (bfs start (mj_dtree t)) ->
  mj_is_dir_at t (d_pos r) = mj_big r.
Proof.
  intros Hok Hr. destruct (bfs_describes_tree _ _ _ Hr) as (ks & Hs & _).
  rewrite mj_subtree_dtree in Hs. unfold mj_is_dir_at, mj_big.
  destruct (mj_node_at t (d_pos r)) as [[nm i st|nm dl kids]|] eqn:E; try discriminate.
  - cbn in Hs. injection Hs as _ Hb _. rewrite <- Hb. reflexivity.
  - cbn in Hs. injection Hs as _ Hb _. rewrite <- Hb.
    destruct (mj_ok_dir _ _ _ (mj_ok_at _ _ _ Hok E)) as (_ & _ & Hr' & _).
    unfold ceiling_div. rewrite ms_BS in *. lia.
Qed.

Lemma mj_filter_ext {A} (f g : A -> bool) l : (forall x, In x l -> f x = g x) -> filter f l = filter g l.
Proof.
  induction l as [|a l IH]; intros H; [reflexivity|]. cbn [filter].
  rewrite (H a (or_introl eq_refl)), IH; [reflexivity|]. intros x Hx. apply H. right. exact Hx.
Qed.

Lemma mj_filter_map {A B} (f : A -> B) (p : B -> bool) l :
  filter p (map f l) = map f (filter (fun x => p (f x)) l).
Proof.
  induction l as [|a l IH]; [reflexivity|]. cbn [map filter]. destruct (p (f a)); cbn [map]; rewrite IH; reflexivity.
Qed.

(* the written directory positions are the positions of the records with blocks, in walk order *)
Lemma mj_positions_walk start t : mj_tree_ok t = true ->
  mj_dir_positions t = map d_pos (filter mj_big (bfs start (mj_dtree t))).
Proof.
  intros Hok. unfold mj_dir_positions. rewrite (write_order_is_bfs start), mj_filter_map.
  f_equal. apply mj_filter_ext. intros r Hr. apply (mj_walk_is_dir start); assumption.
Qed.

(* ---- d_path is the list of identifiers along the position ----------------------------------------------- *)

Fixpoint mj_names_at (n : lnode) (p : list nat) : list (list Z) :=
  match p with
  | [] => []
  | i :: q => match nth_error (lkids n) i with
              | Some c => lname c :: mj_names_at c q
              | None => []
              end
  end.

Lemma mj_names_at_snoc p j : forall n c d, mj_node_at n p = Some c -> nth_error (lkids c) j = Some d ->
  mj_names_at n (p ++ [j]) = mj_names_at n p ++ [lname d].
Proof.
  induction p as [|i p IH]; intros n c d H Hj; cbn [mj_node_at mj_names_at app] in *.
  - injection H as <-. rewrite Hj. reflexivity.
  - destruct (nth_error (lkids n) i) as [k|]; [|discriminate]. cbn [app]. f_equal. apply (IH k c d H Hj).
Qed.

Theorem mj_walk_names start t r : In r (bfs start (mj_dtree t)) -> d_path r = mj_names_at t (d_pos r).
Proof.
  set (Q := fun it : qitem => exists n, mj_node_at t (ipos it) = Some n /\ itree it = mj_dtree n /\
                                        ipath it = mj_names_at t (ipos it)).
  assert (Hch : forall nm bl ks pn pos path idx it, Q (Node nm bl ks, pn, pos, path) ->
                  In it (child_items ks idx pos path) -> Q it).
  { intros nm bl ks pn pos path idx it (n & Hn & Ht & Hp) Hin. apply in_child_items in Hin.
    destruct Hin as (k & j & -> & Hk & _). rewrite Nat.sub_0_r in Hk.
    unfold Q, ipos, ipath, itree in *. cbn [fst snd] in *.
    assert (Hks : ks = map mj_dtree (lkids n)) by (rewrite <- mj_tkids_dtree, <- Ht; reflexivity).
    rewrite Hks, nth_error_map in Hk. destruct (nth_error (lkids n) j) as [c|] eqn:Ec; [|discriminate].
    injection Hk as <-. exists c. split; [rewrite (mj_node_at_snoc pos j t n Hn); exact Ec|].
    split; [reflexivity|]. rewrite (mj_names_at_snoc pos j t n c Hn Ec), mj_tname_dtree, Hp. reflexivity. }
  destruct (mj_dtree t) as [nm bl ks] eqn:E. rewrite bfs_unfold. intros [<-|H]; [reflexivity|].
  assert (Hroot : Q (Node nm bl ks, 1, [], [])).
  { exists t. split; [reflexivity|]. split; [symmetry; exact E|reflexivity]. }
  apply (go_items Q Hch) in H; [|lia|intros it Hin; exact (Hch _ _ _ _ _ _ _ _ Hroot Hin)].
  destruct H as (ks' & n & _ & _ & Hp). exact Hp.
Qed.

(* ---- the size of the path table ---------------------------------------------------------------------------- *)

Lemma mj_pkids_size kids : Forall (fun c => tree_ptr_size (mj_ptree c) =
    if AccountLinks.l_is_dir c then AccountLinks.ltotal AccountLinks.lw_ptr c else tree_ptr_size (mj_ptree c)) kids ->
  (forall c, In c kids -> AccountLinks.l_is_dir c = false -> AccountLinks.ltotal AccountLinks.lw_ptr c = 0) ->
  sumZ (map tree_ptr_size (mj_pkids kids)) = AccountLinksLemmas.ltotals AccountLinks.lw_ptr kids.
Proof.
  induction 1 as [|c r Hc _ IH]; intros Hf; [reflexivity|].
  rewrite AccountLinksLemmas.ltotals_cons.
  assert (Hr : forall c', In c' r -> AccountLinks.l_is_dir c' = false ->
                          AccountLinks.ltotal AccountLinks.lw_ptr c' = 0)
    by (intros c' H; apply Hf; right; exact H).
  destruct c as [nm i st|nm dl ks]; cbn [mj_pkids].
  - rewrite (Hf _ (or_introl eq_refl) eq_refl), (IH Hr). lia.
  - cbn [map]. rewrite sumZ_cons, (IH Hr). cbn [AccountLinks.l_is_dir] in Hc. rewrite Hc. reflexivity.
Qed.

Theorem mj_ptree_size : forall n, AccountLinks.l_is_dir n = true ->
  tree_ptr_size (mj_ptree n) = AccountLinks.ltotal AccountLinks.lw_ptr n.
Proof.
  apply (AccountLinksLemmas.lnode_ind' (fun n => AccountLinks.l_is_dir n = true ->
           tree_ptr_size (mj_ptree n) = AccountLinks.ltotal AccountLinks.lw_ptr n)).
  - intros nm i st H. discriminate.
  - intros nm dl kids IH _. rewrite mj_ptree_dir, AccountLinksLemmas.ltotal_dir. cbn [tree_ptr_size].
    unfold AccountLinks.lw_ptr at 1. f_equal. apply mj_pkids_size.
    + eapply Forall_impl; [|exact IH]. intros c Hc. cbv beta in *.
      destruct (AccountLinks.l_is_dir c) eqn:E; [apply Hc; first [exact E|reflexivity]|reflexivity].
    + intros c _ Hc. destruct c; [reflexivity|discriminate].
Qed.

Print Assumptions mj_walk_sim.
Print Assumptions mj_positions_walk.
Print Assumptions mj_walk_names.
Print Assumptions mj_ptree_size.
