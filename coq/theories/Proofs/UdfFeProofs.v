(* Proofs about Model/Udf.v, part 3: UDFFileEntry -- how new() / set_data_length() split a length
   into allocation descriptors, how set_data_location() chains them, and record() / parse().

   Main results
     fe_ad_lengths_closed fe_ad_lengths_sum fe_ad_lengths_all_but_last fe_new_file_spec
     fe_new_positions_chain (chained_set_location)      positions are contiguous, block by block
     fe_set_data_length_sum, fe_set_data_length_lbr_refuted, fe_set_data_length_grow_from_empty
     fe_record_zlen fe_record_length_partial fe_record_length_refuted (inline descriptor)
     fe_record_verifies fe_roundtrip
   All closed under the global context (Print Assumptions at the end). *)
From Coq Require Import ZArith List Bool Lia ZifyBool.
From PV.Base Require Import Prim ListX.
From PV.Gen Require Import GenConst GenFun.
From PV.Model Require Import Codec Checksums Udf.
From PV.Proofs Require Import ChecksumsProofs ChecksumsArithProofs CodecProofs UdfProofs UdfFidProofs.
Import ListNotations.
Local Open Scope Z_scope.
Ltac Zify.zify_post_hook ::= Z.to_euclidean_division_equations.

(* ---- the split of a length into allocation descriptors ---- *)
Lemma split_ads_zero f : split_ads f 0 = [].
Proof. destruct f; reflexivity. Qed.

Lemma split_ads_closed k : forall fuel len, (k < fuel)%nat ->
  UDF_MAX_AD * Z.of_nat k < len <= UDF_MAX_AD * (Z.of_nat k + 1) ->
  split_ads fuel len = repeat UDF_MAX_AD k ++ [len - UDF_MAX_AD * Z.of_nat k].
Proof.
  unfold UDF_MAX_AD. induction k as [|k IH]; intros [|f] len Hf Hl; try lia; cbn [split_ads]; unfold UDF_MAX_AD.
  - replace (len >? 0) with true by lia. cbv zeta. replace (Z.min len 1073739776) with len by lia.
    rewrite Z.sub_diag, split_ads_zero. cbn [repeat app]. f_equal. lia.
  - replace (len >? 0) with true by lia. cbv zeta. replace (Z.min len 1073739776) with 1073739776 by lia.
    rewrite (IH f (len - 1073739776)) by lia. cbn [repeat app]. f_equal. f_equal. f_equal. lia.
Qed.

(* closed form: q full descriptors of 0x3ffff800 bytes and one last descriptor with the rest *)
Theorem fe_ad_lengths_closed len : 0 < len ->
  let q := (len - 1) / UDF_MAX_AD in
  fe_ad_lengths len = repeat UDF_MAX_AD (Z.to_nat q) ++ [len - UDF_MAX_AD * q] /\
  0 < len - UDF_MAX_AD * q <= UDF_MAX_AD.
Proof.
  intros Hl. cbv zeta. unfold fe_ad_lengths, UDF_MAX_AD.
  split; [|lia]. rewrite (split_ads_closed (Z.to_nat ((len - 1) / 1073739776))).
  - unfold UDF_MAX_AD. f_equal. f_equal. lia.
  - lia.
  - unfold UDF_MAX_AD. lia.
Qed.
Lemma fe_ad_lengths_nonpos len : len <= 0 -> fe_ad_lengths len = [].
Proof.
  intros H. unfold fe_ad_lengths. destruct (Z.to_nat _); [reflexivity|].
  cbn [split_ads]. replace (len >? 0) with false by lia. reflexivity.
Qed.

Lemma zsum_repeat x n : zsum (repeat x n) = x * Z.of_nat n.
Proof. induction n as [|n IH]; [cbn; lia|]. cbn [repeat]. rewrite zsum_cons, IH. lia. Qed.

(* the descriptor lengths add up to the file length, for EVERY length (no 30-bit limit) *)
Theorem fe_ad_lengths_sum len : 0 <= len -> zsum (fe_ad_lengths len) = len.
Proof.
  intros H. destruct (Z.eq_dec len 0) as [->|Hne]; [reflexivity|].
  destruct (fe_ad_lengths_closed len ltac:(lia)) as [E _]. cbv zeta in E. rewrite E.
  rewrite zsum_app, zsum_repeat, zsum_cons. change (zsum []) with 0. unfold UDF_MAX_AD. lia.
Qed.

(* every descriptor but the last is exactly 0x3ffff800 = 2048 * 524287 bytes; all are in (0, 0x3ffff800] *)
Theorem fe_ad_lengths_all_but_last len :
  Forall (fun l => l = UDF_MAX_AD /\ l mod 2048 = 0) (removelast (fe_ad_lengths len)) /\
  Forall (fun l => 0 < l <= UDF_MAX_AD) (fe_ad_lengths len) /\
  zlen (fe_ad_lengths len) = ceiling_div (Z.max len 0) UDF_MAX_AD.
Proof.
  destruct (Z_le_gt_dec len 0) as [Hle|Hgt].
  - rewrite fe_ad_lengths_nonpos by exact Hle. replace (Z.max len 0) with 0 by lia.
    split; [constructor|split; [constructor|reflexivity]].
  - destruct (fe_ad_lengths_closed len ltac:(lia)) as [E Hlast]. cbv zeta in E, Hlast. rewrite E.
    rewrite removelast_last. split; [|split].
    + apply Forall_forall. intros x Hx. apply repeat_spec in Hx. subst x. split; reflexivity.
    + apply Forall_app. split.
      * apply Forall_forall. intros x Hx. apply repeat_spec in Hx. subst x. unfold UDF_MAX_AD. lia.
      * constructor; [exact Hlast|constructor].
    + rewrite zlen_app, zlen_repeat. change (zlen [_]) with 1.
      unfold ceiling_div, UDF_MAX_AD in *. lia.
Qed.

Lemma ads_length_acc ds : forall acc, fold_left (fun a d => a + ad_length d) ds acc = acc + ads_length ds.
Proof.
  unfold ads_length. induction ds as [|d r IH]; intros acc; cbn [fold_left]; [lia|].
  rewrite IH, (IH (0 + ad_length d)). lia.
Qed.
Lemma ads_length_cons d r : ads_length (d :: r) = ad_length d + ads_length r.
Proof. unfold ads_length at 1. cbn [fold_left]. rewrite ads_length_acc. lia. Qed.

Lemma short_list_props lens : Forall (fun l => 0 < l <= UDF_MAX_AD) lens ->
  let ds := map (fun l => ADShort (mk_shortad l 0 0)) lens in
  zsum (map ad_extent_length ds) = zsum lens /\ ads_length ds = 8 * zlen ds /\
  Forall (fun d => exists l, d = ADShort (mk_shortad l 0 0) /\ 0 < l <= UDF_MAX_AD) ds.
Proof.
  cbv zeta. induction lens as [|x l IH]; intros H.
  - split; [reflexivity|split; [reflexivity|constructor]].
  - inversion H as [|? ? Hx Hr]; subst. destruct (IH Hr) as (I1 & I2 & I3).
    cbn [map ad_extent_length sa_length]. rewrite !zsum_cons, ads_length_cons, zlen_cons, I1, I2.
    cbn [ad_length]. split; [reflexivity|split; [lia|]]. constructor; [exists x; auto|exact I3].
Qed.

(* what new(length, 'file', ...) stores *)
Theorem fe_new_file_spec len lbs : 0 <= len -> 0 < lbs ->
  let '(info_len, lbr, ds) := fe_new_file len lbs in
  info_len = len /\ lbr = ceiling_div len lbs /\ lbr = (len + lbs - 1) / lbs /\
  zsum (map ad_extent_length ds) = info_len /\ ads_length ds = 8 * zlen ds /\
  Forall (fun d => exists l, d = ADShort (mk_shortad l 0 0) /\ 0 < l <= UDF_MAX_AD) ds.
Proof.
  intros Hl Hb. unfold fe_new_file.
  split; [reflexivity|]. split; [reflexivity|]. split; [apply ceiling_div_spec; exact Hb|].
  destruct (fe_ad_lengths_all_but_last len) as (_ & Hall & _).
  destruct (short_list_props _ Hall) as (I1 & I2 & I3).
  split; [rewrite I1; apply fe_ad_lengths_sum; exact Hl|]. split; assumption.
Qed.

(* ---- set_data_location: the descriptors describe one contiguous run of blocks ---- *)
(* byte position of each descriptor = byte position of the previous one + its length *)
Fixpoint chained (cur_bytes : Z) (ds : list ad) : Prop :=
  match ds with
  | [] => True
  | d :: r => ad_pos d * 2048 = cur_bytes /\ chained (cur_bytes + ad_extent_length d) r
  end.
Fixpoint all_but_last_aligned (ds : list ad) : Prop :=
  match ds with
  | [] => True
  | d :: r => (r = [] \/ (ad_extent_length d mod 2048 = 0)) /\ all_but_last_aligned r
  end.

Lemma ad_pos_set v d : ad_pos (ad_set_pos v d) = v.
Proof. destruct d; reflexivity. Qed.
Lemma ad_len_set_pos v d : ad_extent_length (ad_set_pos v d) = ad_extent_length d.
Proof. destruct d; reflexivity. Qed.

Theorem chained_set_location ds : forall start, all_but_last_aligned ds ->
  chained (2048 * start) (ads_set_location start ds) /\
  map ad_extent_length (ads_set_location start ds) = map ad_extent_length ds.
Proof.
  induction ds as [|d r IH]; intros start Hal; [split; [exact I|reflexivity]|].
  destruct Hal as [Hd Hr]. cbn [ads_set_location chained map]. rewrite ad_pos_set, ad_len_set_pos.
  destruct Hd as [->|Hd].
  - cbn [ads_set_location chained map]. split; [split; [lia|exact I]|reflexivity].
  - destruct (IH (start + ceiling_div (ad_extent_length d) 2048) Hr) as [I1 I2].
    split; [split; [lia|]|rewrite I2; reflexivity].
    replace (2048 * start + ad_extent_length d)
      with (2048 * (start + ceiling_div (ad_extent_length d) 2048)); [exact I1|].
    unfold ceiling_div. lia.
Qed.

Lemma new_file_aligned lens :
  Forall (fun l => l = UDF_MAX_AD /\ l mod 2048 = 0) (removelast lens) ->
  all_but_last_aligned (map (fun l => ADShort (mk_shortad l 0 0)) lens).
Proof.
  induction lens as [|x [|y l] IH]; intros H; [exact I|cbn; auto|].
  change (removelast (x :: y :: l)) with (x :: removelast (y :: l)) in H.
  inversion H as [|? ? [_ Hx] Hr]; subst. split; [right; exact Hx|apply IH; exact Hr].
Qed.

(* new() followed by set_data_location(_, start): descriptor k starts exactly where descriptor k-1 ends *)
Theorem fe_new_positions_chain len lbs start :
  let '(_, _, ds) := fe_new_file len lbs in
  chained (2048 * start) (ads_set_location start ds) /\
  zsum (map ad_extent_length (ads_set_location start ds)) = Z.max len 0.
Proof.
  unfold fe_new_file. destruct (fe_ad_lengths_all_but_last len) as (Hal & _ & _).
  destruct (chained_set_location _ start (new_file_aligned _ Hal)) as [C E].
  split; [exact C|]. rewrite E, map_map. cbn [ad_extent_length sa_length]. rewrite map_id.
  destruct (Z_le_gt_dec len 0) as [Hle|Hgt].
  - rewrite fe_ad_lengths_nonpos by exact Hle. cbn. lia.
  - rewrite fe_ad_lengths_sum by lia. lia.
Qed.

(* ---- set_data_length ---- *)
Lemma ad_len_set_len v d : ad_extent_length (ad_set_extent_length v d) = v.
Proof. destruct d; reflexivity. Qed.

Lemma shrink_ads_sum ds : forall len ds', 0 <= len -> shrink_ads len ds = Some ds' ->
  zsum (map ad_extent_length ds') = len /\
  Forall (fun l => l = UDF_MAX_AD) (removelast (map ad_extent_length ds')).
Proof.
  unfold UDF_MAX_AD. induction ds as [|d r IH]; intros len ds' Hl; cbn [shrink_ads]; unfold UDF_MAX_AD.
  - destruct (len >? 0) eqn:E; [discriminate|]. intros H; apply some_inv in H; subst ds'.
    split; [cbn; lia|constructor].
  - destruct (len >? 0) eqn:E.
    + cbv zeta. destruct (shrink_ads (len - Z.min len 1073739776) r) as [r'|] eqn:Er; [|discriminate].
      intros H; apply some_inv in H; subst ds'. destruct (IH (len - Z.min len 1073739776) r' ltac:(lia) Er) as [I1 I2].
      cbn [map]. rewrite zsum_cons, ad_len_set_len, I1. split; [lia|].
      destruct r' as [|d' r'']; [constructor|].
      change (removelast (?a :: map ad_extent_length (d' :: r'')))
        with (a :: removelast (map ad_extent_length (d' :: r''))).
      constructor; [|exact I2]. cbn [map] in I1. rewrite zsum_cons in I1.
      destruct r as [|d0 r0]; cbn [shrink_ads] in Er.
      * destruct (len - Z.min len 1073739776 >? 0); discriminate Er.
      * destruct (len - Z.min len 1073739776 >? 0) eqn:E2; [lia|discriminate Er].
    + intros H; apply some_inv in H; subst ds'. split; [cbn; lia|constructor].
Qed.

(* whenever set_data_length returns, the descriptor lengths add up to the new length *)
Theorem fe_set_data_length_sum info ds len info' ds' :
  zsum (map ad_extent_length ds) = info -> 0 <= len ->
  fe_set_data_length info ds len = Some (info', ds') ->
  info' = len /\ zsum (map ad_extent_length ds') = len.
Proof.
  intros Hs Hl. unfold fe_set_data_length. cbv zeta.
  destruct (len - info >? 0) eqn:E1.
  - destruct (rev ds) as [|last front] eqn:Er; [discriminate|].
    destruct (_ >? UDF_MAX_AD); [discriminate|]. intros H; apply some_inv in H. injection H as <- <-.
    split; [reflexivity|].
    assert (Ed : ds = rev front ++ [last]) by (rewrite <- (rev_involutive ds), Er; reflexivity).
    rewrite Ed in Hs. rewrite map_app, zsum_app in *. cbn [map] in *. rewrite zsum_cons in *.
    rewrite ad_len_set_len. change (zsum []) with 0 in *. lia.
  - destruct (len - info <? 0) eqn:E2.
    + destruct (shrink_ads len ds) as [d2|] eqn:Es; [|discriminate].
      intros H; apply some_inv in H. injection H as <- <-.
      split; [reflexivity|]. apply (shrink_ads_sum ds len d2 Hl Es).
    + intros H; apply some_inv in H. injection H as <- <-. split; [reflexivity|lia].
Qed.

(* ... but log_block_recorded keeps its old value: new(0x3ffff800*2+5) then set_data_length(0)
   leaves 1048575 recorded blocks for an empty file (reproduced on the library) *)
Theorem fe_set_data_length_lbr_refuted :
  exists len0 len1 info lbr ds,
    fe_set_data_length_st (fe_new_file len0 2048) len1 = Some (info, lbr, ds) /\
    info = len1 /\ lbr = 1048575 /\ lbr <> ceiling_div len1 2048.
Proof.
  exists 2147479557, 0. eexists. eexists. eexists. split; [vm_compute; reflexivity|].
  split; [reflexivity|]. split; [reflexivity|]. vm_compute. discriminate.
Qed.
(* a file created empty has no descriptor, so it can never grow: alloc_descs[-1] raises IndexError *)
Theorem fe_set_data_length_grow_from_empty len : 0 < len ->
  fe_set_data_length_st (fe_new_file 0 2048) len = None.
Proof.
  intros H. unfold fe_set_data_length_st, fe_new_file, fe_set_data_length. cbv zeta.
  change (fe_ad_lengths 0) with (@nil Z). cbn [map rev]. replace (len - 0 >? 0) with true by lia. reflexivity.
Qed.

(* ---- record(): length ---- *)

Definition not_inline (d : ad) : Prop := match d with ADInline _ _ _ => False | _ => True end.

Lemma ads_record_zlen ds : forall b, ads_record ds = Some b -> Forall not_inline ds -> zlen b = ads_length ds.
Proof.
  induction ds as [|d r IH]; intros b H Hn; cbn [ads_record] in H.
  - apply some_inv in H; subst b. reflexivity.
  - destruct (ad_record d) as [bd|] eqn:Ed; [|discriminate].
    destruct (ads_record r) as [br|] eqn:Er; [|discriminate]. apply some_inv in H; subst b.
    inversion Hn as [|? ? Hd Hr]; subst. rewrite zlen_app, ads_length_cons, (IH br eq_refl Hr). f_equal.
    destruct d as [a|a|? ? ?]; [| |destruct Hd]; cbn [ad_record ad_length] in *; unfold zlen.
    + rewrite (shortad_record_length _ _ Ed). reflexivity.
    + rewrite (longad_record_length _ _ Ed). reflexivity.
Qed.

Lemma fe_layout t e icbrec earec lad : length t = 16%nat ->
  map (@length Z) (t :: fe_fields e icbrec earec lad) = widths fmt_udf_fe_widths.
Proof. intros H. cbn [map fe_fields]. rewrite !pack_s_length, H. reflexivity. Qed.
Lemma fe_head_zlen t e icbrec earec lad : length t = 16%nat ->
  zlen (concat (t :: fe_fields e icbrec earec lad)) = 176.
Proof. intros H. unfold zlen. rewrite length_concat, fe_layout by exact H. reflexivity. Qed.

Lemma fe_record_inv e b : fe_record e = Some b ->
  exists t icbrec earec adrec,
    icb_record (fe_icb e) = Some icbrec /\ longad_record (fe_ea_icb e) = Some earec /\
    ads_record (fe_ads e) = Some adrec /\ fe_ranges_ok e (ads_length (fe_ads e)) = true /\
    let body := concat (fe_fields e icbrec earec (ads_length (fe_ads e))) ++ fe_ea e ++ adrec in
    tag_record (fe_tag e) body = Some t /\ b = t ++ body.
Proof.
  unfold fe_record, fe_body. cbv zeta.
  destruct (icb_record (fe_icb e)) as [icbrec|]; [|discriminate].
  destruct (longad_record (fe_ea_icb e)) as [earec|]; [|discriminate].
  destruct (ads_record (fe_ads e)) as [adrec|]; [|discriminate].
  destruct (fe_ranges_ok e (ads_length (fe_ads e))) eqn:Hr; [|discriminate].
  destruct (tag_record (fe_tag e) _) as [t|] eqn:Et; [|discriminate].
  intros H; apply some_inv in H. exists t, icbrec, earec, adrec.
  repeat (split; [reflexivity|]). split; [exact Et|symmetry; exact H].
Qed.

(* exact length of record(): 176 + extended attributes + what the descriptors' record() return *)
Theorem fe_record_zlen e b : fe_record e = Some b ->
  exists adrec, ads_record (fe_ads e) = Some adrec /\ zlen b = 176 + zlen (fe_ea e) + zlen adrec.
Proof.
  intros H. destruct (fe_record_inv _ _ H) as (t & icbrec & earec & adrec & _ & _ & Ha & _ & Ht & ->).
  exists adrec. split; [exact Ha|]. pose proof (tag_record_length _ _ _ Ht) as Htl.
  pose proof (fe_head_zlen t e icbrec earec (ads_length (fe_ads e)) Htl) as Hh.
  cbn [concat] in Hh. rewrite zlen_app in Hh. rewrite !zlen_app. lia.
Qed.

(* = 176 + len_extended_attrs + len_alloc_descs when no descriptor is an inline one *)
Theorem fe_record_length_partial e b : fe_record e = Some b ->
  fe_len_ea e = zlen (fe_ea e) -> Forall not_inline (fe_ads e) ->
  zlen b = 176 + fe_len_ea e + ads_length (fe_ads e) /\
  dle32 (firstn 4 (skipn 172 b)) = ads_length (fe_ads e).
Proof.
  intros H He Hn. destruct (fe_record_zlen _ _ H) as (adrec & Ha & Hz).
  rewrite (ads_record_zlen _ _ Ha Hn) in Hz. split; [lia|].
  destruct (fe_record_inv _ _ H) as (t & icbrec & earec & adrec' & _ & _ & _ & Hr & Ht & ->).
  pose proof (tag_record_length _ _ _ Ht) as Htl.
  unfold fe_ranges_ok in Hr. apply andb_prop in Hr. destruct Hr as [_ Hr]. apply u32_ok_spec in Hr.
  set (lad := ads_length (fe_ads e)) in *.
  assert (E : exists pre, t ++ concat (fe_fields e icbrec earec lad) = pre ++ le32 lad /\ length pre = 172%nat).
  { exists (t ++ concat (removelast (fe_fields e icbrec earec lad))). split.
    - rewrite <- app_assoc. f_equal. cbn [fe_fields removelast concat]. rewrite <- !app_assoc. reflexivity.
    - rewrite app_length, length_concat, Htl. cbn [fe_fields removelast map]. rewrite !pack_s_length. reflexivity. }
  destruct E as (pre & E & Hp). rewrite app_assoc, E, <- !app_assoc.
  rewrite (skipn_app_exact 172) by exact Hp. change (firstn 4 (le32 lad ++ _)) with (le32 lad).
  apply le32_dle32. exact Hr.
Qed.

(* an inline descriptor counts extent_length bytes in the header but record() writes none of them:
   flags |= 3, alloc_descs = [UDFInlineAD(5, 0, 176)] gives 176 bytes announcing 5 more
   (reproduced on the library) *)
Theorem fe_record_length_refuted :
  exists e b, fe_record e = Some b /\ fe_len_ea e = zlen (fe_ea e) /\
              zlen b = 176 /\ ads_length (fe_ads e) = 5 /\ dle32 (firstn 4 (skipn 172 b)) = 5.
Proof.
  exists (mk_fentry (mk_utag 261 2 0 0 (-1)) (mk_icbtag 0 4 0 1 5 0 0 563) 4294967295 4294967295 4228 1 5 0
                    (repeat 0 12%nat) (repeat 0 12%nat) (repeat 0 12%nat) (longad_new 0 0)
                    (repeat 0 32%nat) 0 0 [] [ADInline 5 0 176]).
  eexists. split; [vm_compute; reflexivity|]. repeat split.
Qed.

(* ---- record(): the tag verifies ---- *)
Definition fe_zbytes (e : fentry) : Prop :=
  zbytes (fe_atime e) /\ zbytes (fe_mtime e) /\ zbytes (fe_attrtime e) /\ zbytes (fe_impl_ident e) /\
  zbytes (fe_ea e) /\ zbytes (la_impl (fe_ea_icb e)) /\
  Forall (fun d => match d with ADLong a => zbytes (la_impl a) | _ => True end) (fe_ads e).

Lemma zbytes_le64 v : zbytes (le64 v).
Proof. apply zbytes_app; apply zbytes_le32. Qed.

Lemma icb_record_zbytes i b : icb_record i = Some b -> zbytes b.
Proof.
  unfold icb_record. destruct (u32_ok (it_prior i) && _ && _ && _ && _ && _ && _ && _) eqn:Hr; [|discriminate].
  intros H; apply some_inv in H; subst b.
  do 7 (apply andb_prop in Hr; let H2 := fresh "R" in destruct Hr as [Hr H2]). apply u8_ok_spec in R2.
  cbn [icb_fields concat]. rewrite app_nil_r.
  repeat apply zbytes_app;
    first [ apply zbytes_le32 | apply zbytes_le16 | apply zbytes_one; lia | apply zbytes_repeat0
          | apply zbytes_firstn; apply zbytes_app; [apply zbytes_le32|apply zbytes_le16] ].
Qed.

Lemma ads_record_zbytes ds : forall b, ads_record ds = Some b ->
  Forall (fun d => match d with ADLong a => zbytes (la_impl a) | _ => True end) ds -> zbytes b.
Proof.
  induction ds as [|d r IH]; intros b H Hb; cbn [ads_record] in H.
  - apply some_inv in H; subst b. constructor.
  - destruct (ad_record d) as [bd|] eqn:Ed; [|discriminate].
    destruct (ads_record r) as [br|] eqn:Er; [|discriminate]. apply some_inv in H; subst b.
    inversion Hb as [|? ? Hd Hr]; subst. apply zbytes_app; [|apply (IH br eq_refl Hr)].
    destruct d as [a|a|? ? ?]; cbn [ad_record] in Ed.
    + unfold shortad_record in Ed. cbv zeta in Ed. destruct (_ && _); [|discriminate].
      apply some_inv in Ed; subst bd. apply zbytes_app; apply zbytes_le32.
    + apply (longad_record_zbytes _ _ Ed Hd).
    + apply some_inv in Ed; subst bd. constructor.
Qed.

Theorem fe_record_verifies e b : fe_record e = Some b -> fe_zbytes e ->
  (tg_crclen (fe_tag e) < 0 \/ tg_crclen (fe_tag e) <= zlen b - 16) ->
  verify_tag b = true.
Proof.
  intros H (B1 & B2 & B3 & B4 & B5 & B6 & B7) Hfit.
  destruct (fe_record_inv _ _ H) as (t & icbrec & earec & adrec & Hi & Hea & Ha & _ & Ht & ->).
  cbv zeta in Ht. pose proof (tag_record_length _ _ _ Ht) as Htl.
  set (body := concat _ ++ fe_ea e ++ adrec) in *.
  assert (Hz : zlen (t ++ body) - 16 = zlen body) by (rewrite zlen_app; unfold zlen at 1; rewrite Htl; lia).
  rewrite Hz in Hfit. apply (tag_record_verifies_partial (fe_tag e) body t); [|exact Ht|exact Hfit].
  pose proof (icb_record_zbytes _ _ Hi) as Bi. pose proof (longad_record_zbytes _ _ Hea B6) as Be.
  pose proof (ads_record_zbytes _ _ Ha B7) as Ba.
  unfold body. cbn [fe_fields concat]. rewrite app_nil_r.
  repeat apply zbytes_app;
    first [ apply zbytes_le32 | apply zbytes_le16 | apply zbytes_one; lia | apply zbytes_repeat0
          | apply zbytes_firstn; assumption | assumption ].
Qed.

(* ---- round trip through udf.parse_file_entry (short allocation descriptors) ---- *)
Definition short_wf (d : ad) : Prop :=
  exists a, d = ADShort a /\ sa_type a = 0 /\ 0 <= sa_length a <= 1073741823.

Definition fe_wf (e : fentry) : Prop :=
  (it_strategy_type (fe_icb e) = 4 \/ it_strategy_type (fe_icb e) = 4096) /\
  Z.land (it_flags (fe_icb e)) 7 = 0 /\
  length (fe_atime e) = 12%nat /\ length (fe_mtime e) = 12%nat /\ length (fe_attrtime e) = 12%nat /\
  length (fe_impl_ident e) = 32%nat /\ length (la_impl (fe_ea_icb e)) = 6%nat /\
  fe_len_ea e = zlen (fe_ea e) /\ Forall short_wf (fe_ads e) /\
  tg_ident (fe_tag e) = 261 /\ (tg_version (fe_tag e) = 2 \/ tg_version (fe_tag e) = 3).

Definition fe_with_tag (e : fentry) (t : utag) : fentry :=
  mk_fentry t (fe_icb e) (fe_uid e) (fe_gid e) (fe_perms e) (fe_link_count e) (fe_info_len e) (fe_lbr e)
            (fe_atime e) (fe_mtime e) (fe_attrtime e) (fe_ea_icb e) (fe_impl_ident e) (fe_unique_id e)
            (fe_len_ea e) (fe_ea e) (fe_ads e).

Lemma shortad_parse_record a b rest : shortad_record a = Some b -> sa_type a = 0 ->
  0 <= sa_length a <= 1073741823 -> shortad_parse (b ++ rest) = Some a.
Proof.
  intros H Ht Hl. rewrite (shortad_parse_record_general a b rest H Hl) by lia.
  destruct a as [l ty p]. cbn in Ht. subst ty. reflexivity.
Qed.

Lemma short_ads_length ds : Forall short_wf ds -> ads_length ds = 8 * zlen ds /\ Forall not_inline ds.
Proof.
  induction ds as [|d r IH]; intros H; [split; [reflexivity|constructor]|].
  inversion H as [|? ? (a & -> & _) Hr]; subst. destruct (IH Hr) as [I1 I2].
  rewrite ads_length_cons, zlen_cons, I1. cbn [ad_length]. split; [lia|constructor; [exact I|exact I2]].
Qed.

Lemma parse_short_ads_rec ds : forall fuel pre adrec rest,
  Forall short_wf ds -> ads_record ds = Some adrec -> (length ds < fuel)%nat ->
  parse_short_ads fuel (zlen pre) (zlen pre + 8 * zlen ds) (pre ++ adrec ++ rest) = Some ds.
Proof.
  induction ds as [|d r IH]; intros [|f] pre adrec rest Hw Hrec Hf; cbn [length] in Hf; try lia;
    cbn [parse_short_ads].
  - change (zlen (@nil ad)) with 0. replace (zlen pre <? zlen pre + 8 * 0) with false by lia. reflexivity.
  - inversion Hw as [|? ? (a & -> & Ht & Hl) Hr]; subst. cbn [ads_record ad_record] in Hrec.
    destruct (shortad_record a) as [b1|] eqn:E1; [|discriminate].
    destruct (ads_record r) as [br|] eqn:Er; [|discriminate]. apply some_inv in Hrec; subst adrec.
    pose proof (shortad_record_length _ _ E1) as H8. pose proof (zlen_nonneg r) as Hr0.
    rewrite zlen_cons. replace (zlen pre <? zlen pre + 8 * (1 + zlen r)) with true by lia.
    rewrite to_nat_zlen, skipn_length_app, <- app_assoc, (shortad_parse_record _ _ _ E1 Ht Hl).
    replace (zlen pre + 8) with (zlen (pre ++ b1)) by (rewrite zlen_app; unfold zlen at 2; rewrite H8; lia).
    replace (zlen pre + 8 * (1 + zlen r)) with (zlen (pre ++ b1) + 8 * zlen r)
      by (rewrite zlen_app; unfold zlen at 2; rewrite H8; lia).
    replace (pre ++ b1 ++ br ++ rest) with ((pre ++ b1) ++ br ++ rest) by (rewrite <- app_assoc; reflexivity).
    rewrite (IH f (pre ++ b1) br rest Hr eq_refl) by lia. reflexivity.
Qed.

Lemma le64_dle64 v : 0 <= v <= 18446744073709551615 -> dle64 (le64 v) = v.
Proof.
  intros H. unfold dle64, le64. change (firstn 4 (le32 ?a ++ le32 ?b)) with (le32 a).
  change (skipn 4 (le32 ?a ++ le32 ?b)) with (le32 b).
  rewrite !le32_dle32 by (unfold u32; lia). lia.
Qed.
Lemma u64_ok_spec v : u64_ok v = true -> 0 <= v <= 18446744073709551615.
Proof. unfold u64_ok. lia. Qed.

Lemma icb_parse_record i b : icb_record i = Some b ->
  (it_strategy_type i = 4 \/ it_strategy_type i = 4096) -> length b = 20%nat /\ icb_parse b = Some i.
Proof. intros H Hs. rewrite <- (app_nil_r b) at 2. apply (icb_roundtrip i b [] H Hs). Qed.

Theorem fe_roundtrip e b rest abs ext : fe_wf e -> fe_record e = Some b ->
  (tg_crclen (fe_tag e) < 0 \/ tg_crclen (fe_tag e) <= zlen b - 16) ->
  fe_parse (b ++ rest) abs ext =
  Some (fe_with_tag e (mk_utag 261 (tg_version (fe_tag e)) (tg_serial (fe_tag e)) ext
                               (tag_crc_byte_len (fe_tag e) (skipn 16 b)))).
Proof.
  intros (Hst & Hfl & L1 & L2 & L3 & L4 & L5 & Hlea & Hads & Hid & Hver) Hrec Hfit.
  destruct (fe_record_inv _ _ Hrec) as (t & icbrec & earec & adrec & Hi & Hea & Ha & Hrg & Htag & ->).
  cbv zeta in Htag. pose proof (tag_record_length _ _ _ Htag) as Htl.
  destruct (short_ads_length _ Hads) as [Hlad _].
  set (lad := ads_length (fe_ads e)) in *.
  set (body := concat _ ++ fe_ea e ++ adrec) in *.
  assert (Hz : zlen (t ++ body) - 16 = zlen body) by (rewrite zlen_app; unfold zlen at 1; rewrite Htl; lia).
  rewrite Hz in Hfit. rewrite (skipn_app_exact 16) by exact Htl.
  unfold fe_parse. rewrite <- app_assoc, (tag_roundtrip _ _ _ rest ext Htag Hver Hfit).
  cbn [tg_ident]. rewrite Hid. change (negb (261 =? 261)) with false. cbv iota.
  set (t' := mk_utag _ _ _ _ _). clear Hz Hfit Hrec.
  destruct (icb_parse_record _ _ Hi Hst) as [Hil Hip].
  destruct (longad_roundtrip _ _ [] Hea L5) as [Hel _].
  pose proof (longad_parse_record _ _ Hea L5) as Hep.
  pose proof (fe_head_zlen t e icbrec earec lad Htl) as Hh.
  unfold fe_ranges_ok in Hrg.
  do 8 (apply andb_prop in Hrg; let H2 := fresh "R" in destruct Hrg as [Hrg H2]).
  apply u32_ok_spec in Hrg, R5, R6, R0, R. apply u16_ok_spec in R4. apply u64_ok_spec in R3, R2, R1.
  unfold body.
  replace (t ++ (concat (fe_fields e icbrec earec lad) ++ fe_ea e ++ adrec) ++ rest)
    with (concat (t :: fe_fields e icbrec earec lad) ++ fe_ea e ++ adrec ++ rest)
    by (cbn [concat]; rewrite <- !app_assoc; reflexivity).
  unfold fe_parse_body. rewrite <- (fe_layout t e icbrec earec lad Htl), split_concat.
  set (hd := concat (t :: fe_fields e icbrec earec lad)) in *.
  cbn [fe_fields]. cbv zeta. unfold d8. cbn [nth].
  rewrite !pack_s_exact by assumption. rewrite Hip, Hep.
  rewrite !le32_dle32, le16_dle16, !le64_dle64 by (first [assumption|unfold u32; lia]).
  change (negb (0 =? 0)) with false. change (negb (1 =? 1)) with false. cbv iota.
  unfold fmt_udf_fe_size.
  rewrite (slice_at hd (fe_ea e) (adrec ++ rest)) by lia.
  replace (hd ++ fe_ea e ++ adrec ++ rest) with ((hd ++ fe_ea e) ++ adrec ++ rest)
    by (rewrite <- app_assoc; reflexivity).
  rewrite (skipn_app_exact (Z.to_nat (176 + fe_len_ea e))) by (rewrite app_length; unfold zlen in *; lia).
  unfold parse_ads. rewrite Hfl. change (0 =? 0) with true. cbv iota.
  rewrite Hlad.
  rewrite (parse_short_ads_rec (fe_ads e) _ [] adrec rest Hads Ha)
    by (pose proof (zlen_nonneg (fe_ads e)); unfold zlen in *; lia).
  unfold fe_with_tag. destruct e; reflexivity.
Qed.

(* the exact parse(record x) = x form *)
Corollary fe_roundtrip_exact e b rest abs : fe_wf e -> fe_record e = Some b ->
  tg_crclen (fe_tag e) = zlen b - 16 ->
  fe_parse (b ++ rest) abs (tg_location (fe_tag e)) = Some e.
Proof.
  intros Hw Hrec Hc. rewrite (fe_roundtrip e b rest abs _ Hw Hrec) by (right; lia).
  destruct Hw as (_ & _ & _ & _ & _ & _ & _ & _ & _ & Hid & _).
  destruct (fe_record_inv _ _ Hrec) as (t & ? & ? & ? & _ & _ & _ & _ & Htag & ->).
  pose proof (tag_record_length _ _ _ Htag) as Htl.
  rewrite (skipn_app_exact 16) by exact Htl. unfold tag_crc_byte_len.
  assert (0 <= tg_crclen (fe_tag e)).
  { rewrite Hc, zlen_app. unfold zlen at 1. rewrite Htl. match goal with |- 0 <= _ + zlen ?l - 16 => pose proof (zlen_nonneg l) end. lia. }
  replace (0 <=? tg_crclen (fe_tag e)) with true by lia.
  destruct e as [[ti tv ts tl tc] ? ? ? ? ? ? ? ? ? ? ? ? ? ? ? ?]. cbn in Hid. subst ti. reflexivity.
Qed.

(* ---- non-vacuity: values obtained from the library (PYTHONPATH=/repo, time.time patched) ---- *)
(* fe.new(length, 'file', None, 2048); fe.set_data_location(0, 0); (extent_length, log_block_num) *)
Example ex_fe_ads :
  bad_fe_ads_cases 0
    [(0, []);
     (1, [(1, 0)]);
     (2048, [(2048, 0)]);
     (2049, [(2049, 0)]);
     (1073739776, [(1073739776, 0)]);
     (1073739777, [(1073739776, 0); (1, 524287)]);
     (2147479557, [(1073739776, 0); (1073739776, 524287); (5, 1048574)]);
     (1099511627793, map (fun k => (1073739776, 524287 * k)) (map Z.of_nat (seq 0 1024)) ++ [(2097169, 536869888)]);
     (2049, [(2049, 1)])] = [8%nat].
Proof. vm_compute. reflexivity. Qed.
(* fe.new(0x3ffff800*2+5, 'file', None, 2048); set_data_location(0, 100); set_extent_location(300, 43); record() *)
Definition ex_fe_bytes : list Z := [5; 1; 2; 0; 189; 0; 0; 0; 4; 206; 184; 0; 43; 0; 0; 0; 0; 0; 0; 0; 4; 0; 0; 0; 1; 0; 0; 5; 0;
   0; 0; 0; 0; 0; 48; 2; 255; 255; 255; 255; 255; 255; 255; 255; 132; 16; 0; 0; 1; 0; 0; 0; 0;
   0; 0; 0; 5; 240; 255; 127; 0; 0; 0; 0; 255; 255; 15; 0; 0; 0; 0; 0; 0; 16; 231; 7; 11; 14;
   22; 13; 20; 0; 0; 0; 0; 16; 231; 7; 11; 14; 22; 13; 20; 0; 0; 0; 0; 16; 231; 7; 11; 14; 22;
   13; 20; 0; 0; 0; 1; 0; 0; 0; 0; 0; 0; 0; 0; 0; 0; 0; 0; 0; 0; 0; 0; 0; 0; 0; 0; 42; 112;
   121; 99; 100; 108; 105; 98; 0; 0; 0; 0; 0; 0; 0; 0; 0; 0; 0; 0; 0; 0; 0; 0; 0; 0; 0; 0; 0;
   0; 0; 44; 1; 0; 0; 0; 0; 0; 0; 0; 0; 0; 0; 24; 0; 0; 0; 0; 248; 255; 63; 100; 0; 0; 0; 0;
   248; 255; 63; 99; 0; 8; 0; 5; 0; 0; 0; 98; 0; 16; 0].
(* fe.new(2048, 'dir', None, 2048); set_extent_location(260, 3); record() *)
Definition ex_fe_dir_bytes : list Z := [5; 1; 2; 0; 159; 0; 0; 0; 1; 235; 168; 0; 3; 0; 0; 0; 0; 0; 0; 0; 4; 0; 0; 0; 1; 0; 0; 4; 0;
   0; 0; 0; 0; 0; 48; 2; 255; 255; 255; 255; 255; 255; 255; 255; 165; 20; 0; 0; 0; 0; 0; 0; 0;
   0; 0; 0; 0; 0; 0; 0; 0; 0; 0; 0; 1; 0; 0; 0; 0; 0; 0; 0; 0; 16; 231; 7; 11; 14; 22; 13; 20;
   0; 0; 0; 0; 16; 231; 7; 11; 14; 22; 13; 20; 0; 0; 0; 0; 16; 231; 7; 11; 14; 22; 13; 20; 0;
   0; 0; 1; 0; 0; 0; 0; 0; 0; 0; 0; 0; 0; 0; 0; 0; 0; 0; 0; 0; 0; 0; 0; 42; 112; 121; 99; 100;
   108; 105; 98; 0; 0; 0; 0; 0; 0; 0; 0; 0; 0; 0; 0; 0; 0; 0; 0; 0; 0; 0; 0; 0; 0; 0; 4; 1; 0;
   0; 0; 0; 0; 0; 0; 0; 0; 0; 8; 0; 0; 0; 0; 8; 0; 0; 0; 0; 0; 0].
Example ex_fe_parse_record :
  bad_parse_record_cases 0 [(5, ex_fe_bytes); (5, ex_fe_bytes ++ repeat 0 1848%nat); (5, ex_fe_dir_bytes);
                            (5, firstn 60 ex_fe_bytes ++ [6] ++ skipn 61 ex_fe_bytes)] = [3%nat] /\
  length ex_fe_bytes = 200%nat /\ verify_tag ex_fe_bytes = true /\ verify_tag ex_fe_dir_bytes = true.
Proof. repeat split; vm_compute; reflexivity. Qed.
Example ex_fe_parse_ads :
  match fe_parse ex_fe_bytes 300 43 with
  | Some e => fe_info_len e = 2147479557 /\ fe_lbr e = 1048575 /\ fe_unique_id e = 300 /\
              map (fun d => (ad_extent_length d, ad_pos d)) (fe_ads e) =
              [(1073739776, 100); (1073739776, 524387); (5, 1048674)]
  | None => False
  end.
Proof. vm_compute. repeat split. Qed.

Print Assumptions fe_ad_lengths_closed.
Print Assumptions fe_ad_lengths_sum.
Print Assumptions fe_ad_lengths_all_but_last.
Print Assumptions fe_new_file_spec.
Print Assumptions chained_set_location.
Print Assumptions fe_new_positions_chain.
Print Assumptions fe_set_data_length_sum.
Print Assumptions fe_set_data_length_lbr_refuted.
Print Assumptions fe_set_data_length_grow_from_empty.
Print Assumptions fe_record_zlen.
Print Assumptions fe_record_length_partial.
Print Assumptions fe_record_length_refuted.
Print Assumptions fe_record_verifies.
Print Assumptions fe_roundtrip.
Print Assumptions fe_roundtrip_exact.
