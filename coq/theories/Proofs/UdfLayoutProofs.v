(* C10 -- Model/UdfLayout.v: main theorems about the layout PyCdlib gives to a whole UDF tree.
     udf_walk_layout       an independent reader following recorded pointers recovers the namespace
     udf_layout_disjoint   File Entries, identifier areas and file data tile the partition without
                           overlap, inside [part_start + 2, part_start + part_length); inodes stored once;
                           the space granted by the accounting is exactly the space used
     udf_layout_ads_partial / udf_layout_disjoint_refuted
                           allocation descriptors cover exactly the inode's data (lengths <= 0xfffff800);
                           beyond that bound they run over the data of other files (reproduced on pycdlib)
     udf_parent_fid        first FID of every directory = parent FID pointing at the parent's File Entry
     udf_counts            num_files = NAMES of files (a hard link counts again), num_dirs = directories
                           incl. the root, unique_id = first extent behind all File Entries *)
From Coq Require Import ZArith List Bool Lia ZifyBool Arith.
From PV.Base Require Import Prim.
From PV.Gen Require Import GenFun.
From PV.Model Require Import Codec Fid UdfDir UdfLayout.
From PV.Proofs Require Import ChecksumsArithProofs FidProofs UdfDirProofs UdfLayoutBfsProofs UdfLayoutViewProofs
     UdfLayoutFactsProofs UdfLayoutWalkProofs UdfLayoutSpaceProofs.
Import ListNotations.
Local Open Scope Z_scope.

(* ---- 1. the reader recovers exactly the namespace ---- *)
Theorem udf_walk_layout_iso ps iso t fuel : wf_utree t = true -> (ul_depth t <= fuel)%nat ->
  udf_walk fuel (view (udf_layout_iso ps iso t)) = Some (namespace t).
Proof.
  intros Hwf Hd. pose proof (ul_facts_of_wf ps iso t Hwf) as F. set (lo := udf_layout_iso ps iso t) in *.
  destruct (uf_root _ _ _ _ F) as (r0 & Hr0 & (E1 & E2 & E3)).
  pose proof (uf_chain _ _ _ _ F) as Hc. destruct (lo_dirs lo) as [|x rs] eqn:Edirs; [discriminate|].
  cbn [nth_error] in Hr0. inversion Hr0; subst x. cbn [ul_chain] in Hc. destruct Hc as [Hfe _].
  destruct (ul_wf_is_dir t Hwf) as (n & cs & Et & _ & _).
  pose proof (ul_walk_all lo 2 (ul_view_keys _ _ _ _ F) (uf_link _ _ _ _ F) (uf_ok _ _ _ _ F)
                (ul_facts_files _ _ _ _ Hwf F) t r0 fuel) as W.
  rewrite Edirs in W. specialize (W (or_introl eq_refl) E3 ltac:(subst t; reflexivity) Hd).
  rewrite E1, E2, Hfe, (uf_ps _ _ _ _ F) in W. replace (ps + 2 - ps) with 2 in W by lia.
  unfold udf_walk, view. cbn [fst snd]. exact W.
Qed.

Theorem udf_walk_layout s t fuel : wf_utree t = true -> (ul_depth t <= fuel)%nat ->
  udf_walk fuel (view (udf_layout s t)) = Some (namespace t).
Proof. apply udf_walk_layout_iso. Qed.

(* ---- 2. nothing overlaps, everything is inside the partition, the accounting is exact ---- *)
Lemma ul_wf_iso_split iso t : wf_iso iso t = true ->
  0 <= iso_meta iso /\ Forall (fun x => 0 < snd x <= ul_max_piece) (iso_files iso) /\
  ul_consistent (iso_files iso ++ ul_inodes t) = true.
Proof.
  unfold wf_iso. intros H. apply andb_prop in H. destruct H as [H H3]. apply andb_prop in H. destruct H as [H1 H2].
  split; [lia|]. split; [|exact H3]. apply Forall_forall. intros x Hx. rewrite forallb_forall in H2. specialize (H2 x Hx). lia.
Qed.

Lemma ul_udf_files_pos fes : Forall (fun x => 0 <= snd x) (ul_udf_files fes).
Proof.
  unfold ul_udf_files. apply Forall_forall. intros x Hx. apply in_flat_map in Hx. destruct Hx as ([[i fe] l] & _ & Hx).
  destruct (ul_last_piece l >? 0) eqn:E; [|destruct Hx]. destruct Hx as [<-|[]]. cbn [snd]. lia.
Qed.

Theorem udf_layout_disjoint ps iso t : wf_utree t = true -> wf_iso iso t = true ->
  let lo := udf_layout_iso ps iso t in
  ul_tiled (ps + 2) (ul_regions lo) (ps + lo_part_length lo) /\
  lo_end lo = ps + lo_part_length lo /\
  NoDup (map (fun x => fst (fst x)) (lo_fes lo)) /\ NoDup (map (fun x => fst (fst x)) (lo_data lo)).
Proof.
  intros Hwf Hiso lo. pose proof (ul_facts_of_wf ps iso t Hwf) as F. fold lo in F.
  destruct (ul_wf_iso_split iso t Hiso) as (Hm & Hfiles & _).
  pose proof (ul_end_exact _ _ _ _ F) as Hend. split; [|split; [exact Hend|split]].
  - unfold ul_regions. rewrite <- Hend.
    apply (ul_tiled_app _ _ (ul_chain_end (ps + 2) (lo_dirs lo))); [exact (ul_dirs_tiled _ _ (uf_chain _ _ _ _ F) (uf_ok _ _ _ _ F))|].
    apply (ul_tiled_app _ _ (lo_udf_end lo)).
    + rewrite (uf_fes _ _ _ _ F), (uf_udf_end _ _ _ _ F). apply ul_fes_tiled.
    + apply (ul_tiled_weaken _ (lo_udf_end lo + iso_meta iso)); [lia|]. rewrite (uf_data _ _ _ _ F), (uf_end _ _ _ _ F).
      apply ul_data_tiled. apply Forall_app. split; [|apply ul_udf_files_pos].
      eapply Forall_impl; [|exact Hfiles]. cbv beta. intros; lia.
  - rewrite (uf_fes _ _ _ _ F). apply ul_assign_fes_nodup.
  - rewrite (uf_data _ _ _ _ F). apply ul_assign_data_nodup.
Qed.

Corollary udf_layout_inside ps iso t a n : wf_utree t = true -> wf_iso iso t = true ->
  let lo := udf_layout_iso ps iso t in
  In (a, n) (ul_regions lo) -> ps + 2 <= a /\ a + n <= ps + lo_part_length lo.
Proof. intros Hwf Hiso lo Hin. exact (ul_tiled_in _ _ _ a n (proj1 (udf_layout_disjoint ps iso t Hwf Hiso)) Hin). Qed.

Corollary udf_layout_pairwise ps iso t l1 a n l2 b m l3 : wf_utree t = true -> wf_iso iso t = true ->
  ul_regions (udf_layout_iso ps iso t) = l1 ++ (a, n) :: l2 ++ (b, m) :: l3 -> a + n <= b.
Proof.
  intros Hwf Hiso E. pose proof (proj1 (udf_layout_disjoint ps iso t Hwf Hiso)) as H. cbv zeta in H. rewrite E in H.
  exact (ul_tiled_disjoint _ _ _ _ _ _ _ _ _ H).
Qed.

(* the allocation descriptors recorded for a file start at its inode's data and cover exactly its blocks *)
Theorem udf_layout_ads_partial ps iso t i fe l : wf_utree t = true -> wf_iso iso t = true ->
  let lo := udf_layout_iso ps iso t in
  In (i, fe, l) (lo_fes lo) -> 0 < l ->
  exists d, ul_find i (lo_data lo) = Some d /\ In (i, d, l) (lo_data lo) /\
            ul_ads_end (d - ps) (ul_ads (ul_data_pos lo i) l) = Some (d - ps + ceiling_div l 2048).
Proof.
  intros Hwf Hiso lo Hin Hl. pose proof (ul_facts_of_wf ps iso t Hwf) as F. fold lo in F.
  destruct (ul_wf_iso_split iso t Hiso) as (_ & _ & Hcons).
  pose proof (ul_fes_bounds _ _ _ _ F) as Hb.
  assert (Hsub : forall j m, In (j, m) (ul_udf_files (lo_fes lo)) -> In (j, m) (ul_inodes t)).
  { intros j m Hj. rewrite (ul_udf_files_filter _ Hb) in Hj. apply filter_In in Hj. destruct Hj as [Hj _].
    apply in_map_iff in Hj. destruct Hj as ([[j' fe'] m'] & E & Hj). inversion E; subst.
    rewrite (uf_fes _ _ _ _ F) in Hj. destruct (ul_assign_fes_fresh _ _ _ _ Hj) as [_ Hn]. cbn [fst snd] in Hn.
    exact (ul_names_sub _ _ _ _ F _ Hn). }
  assert (Hudf : In (i, l) (ul_udf_files (lo_fes lo))).
  { rewrite (ul_udf_files_filter _ Hb). apply filter_In. split; [|cbn [snd]; lia].
    apply in_map_iff. exists (i, fe, l). split; [reflexivity|exact Hin]. }
  destruct (ul_assign_data_find (iso_files iso ++ ul_udf_files (lo_fes lo)) (lo_udf_end lo + iso_meta iso) [] i l
              ltac:(apply in_or_app; right; exact Hudf) ltac:(intros [])) as (d & l' & H1 & H2).
  rewrite <- (uf_data _ _ _ _ F) in H1, H2.
  assert (l' = l).
  { rewrite (uf_data _ _ _ _ F) in H2. destruct (proj2 (ul_assign_data_nodup _ _ _) _ H2) as [_ H3]. cbn [fst snd] in H3.
    apply (ul_consistent_spec _ Hcons i).
    - apply in_app_or in H3. apply in_or_app. destruct H3 as [H3|H3]; [left; exact H3|right; exact (Hsub _ _ H3)].
    - apply in_or_app. right. exact (Hsub _ _ Hudf). }
  subst l'. exists d. split; [exact H1|]. split; [exact H2|].
  unfold ul_data_pos. rewrite H1, (uf_ps _ _ _ _ F). apply ul_ads_cover. lia.
Qed.

(* FALSE without the length bound: a file of 0xfffff801 bytes (a perfectly legal UDF file) is cut into
   two Inodes by _add_fp, its File Entry is linked to the last one (1 byte) but describes all
   4294965249 bytes from there: its descriptors run over the data of the next file, and the space
   granted for the first piece is never used *)
Definition ul_big_witness : utree := UDir [] [UFile [97] (ul_max_piece + 1) 0; UFile [122] 3 1].
Theorem udf_layout_disjoint_refuted :
  exists t, let lo := udf_layout udf_part_start t in
    exists i fe l j d l' p a,
      In (i, fe, l) (lo_fes lo) /\ In (j, d, l') (lo_data lo) /\ i <> j /\
      In (p, a) (ul_ads (ul_data_pos lo i) l) /\ p <= d - lo_ps lo < p + ceiling_div a 2048 /\
      lo_end lo < lo_ps lo + lo_part_length lo.
Proof.
  exists ul_big_witness. cbv zeta. exists 0%nat, 261, (ul_max_piece + 1), 1%nat, 269, 3, 11, ul_max_ad.
  vm_compute. repeat split; try (intros; discriminate); auto.
Qed.

(* ---- 3. parent FIDs ---- *)
Theorem udf_parent_fid ps iso t : wf_utree t = true ->
  let lo := udf_layout_iso ps iso t in
  (exists r0, nth_error (lo_dirs lo) 0 = Some r0 /\ dr_path r0 = [] /\ dr_fe r0 = ps + 2 /\ dr_parent_fe r0 = dr_fe r0) /\
  (forall r, In r (lo_dirs lo) -> exists fids,
     vlookup (dr_fe r + 1 - ps) (snd (view lo)) =
     Some (SArea ((dr_fe r + 1 - ps, [], true, true, dr_parent_fe r - ps) :: fids))) /\
  (forall r j n cs', In r (lo_dirs lo) -> nth_error (ul_dir_children (dr_node r)) j = Some (n, cs') ->
     exists r', nth_error (lo_dirs lo) (dr_kid0 r + j) = Some r' /\
                dr_path r' = dr_path r ++ [n] /\ dr_parent_fe r' = dr_fe r /\ dr_node r' = cs') /\
  length (lo_dirs lo) = ul_count_dirs t.
Proof.
  intros Hwf lo. pose proof (ul_facts_of_wf ps iso t Hwf) as F. fold lo in F. split; [|split; [|split]].
  - destruct (uf_root _ _ _ _ F) as (r0 & Hr0 & (E1 & E2 & E3)). exists r0. pose proof (uf_chain _ _ _ _ F) as Hc.
    destruct (lo_dirs lo) as [|x rs]; [discriminate|]. cbn [nth_error] in Hr0. inversion Hr0; subst x.
    cbn [ul_chain] in Hc. destruct Hc as [Hfe _]. repeat split; [exact E1|exact Hfe|]. rewrite E2, Hfe. reflexivity.
  - intros r Hr. pose proof (ul_view_area lo 2 (ul_view_keys _ _ _ _ F) r Hr) as Ha.
    pose proof (proj1 (Forall_forall _ _) (uf_ok _ _ _ _ F) r Hr) as Hnok. cbv beta in Hnok.
    rewrite (ul_dir_tags_eq lo r Hnok) in Ha. unfold ul_dir_descs, ul_dir_icbs, ul_lens in Ha. cbn [starts map ul_mk_fids] in Ha.
    change (fi_isdir parent_fident) with true in Ha. change (fi_isparent parent_fident) with true in Ha.
    change (fi_name parent_fident) with (@nil Z) in Ha. change (0 / 2048) with 0 in Ha. rewrite Z.add_0_r, (uf_ps _ _ _ _ F) in Ha.
    replace (dr_fe r - ps + 1) with (dr_fe r + 1 - ps) in Ha by lia. eexists. exact Ha.
  - intros r j n cs' Hr Hj. destruct (In_nth_error _ _ Hr) as (ix & Hix).
    destruct (uf_link _ _ _ _ F ix r Hix) as [_ Hk]. destruct (Hk j n cs' Hj) as (r' & H1 & (E1 & E2 & E3)).
    rewrite Nat.sub_0_r in H1. exists r'. repeat split; assumption.
  - exact (uf_ndirs _ _ _ _ F).
Qed.

(* ---- 4. the counters of the Logical Volume Integrity Descriptor ---- *)
Theorem udf_counts ps iso t : wf_utree t = true ->
  let lo := udf_layout_iso ps iso t in
  lo_num_files lo = Z.of_nat (ul_count_files t) /\            (* file NAMES: a hard link counts again *)
  lo_num_dirs lo = Z.of_nat (ul_count_dirs t) /\              (* directories, the root included *)
  zlen (lo_fes lo) <= lo_num_files lo /\                       (* File Entries of files: one per inode *)
  lo_unique_id lo = lo_udf_end lo /\
  (forall r, In r (lo_dirs lo) -> ps + 2 <= dr_fe r < lo_unique_id lo) /\          (* FE.unique_id = FE extent *)
  (forall i fe l, In (i, fe, l) (lo_fes lo) -> ps + 2 <= fe < lo_unique_id lo).
Proof.
  intros Hwf lo. pose proof (ul_facts_of_wf ps iso t Hwf) as F. fold lo in F.
  pose proof (ul_dirs_tiled _ _ (uf_chain _ _ _ _ F) (uf_ok _ _ _ _ F)) as Td.
  pose proof (ul_fes_tiled (ul_names lo) (ul_chain_end (ps + 2) (lo_dirs lo)) []) as Tf.
  rewrite <- (uf_fes _ _ _ _ F), <- (uf_udf_end _ _ _ _ F) in Tf. pose proof (ul_tiled_le _ _ _ Tf) as Hle.
  split; [|split; [|split; [|split; [|split]]]].
  - rewrite (uf_num_files _ _ _ _ F). unfold zlen. rewrite (uf_nfiles _ _ _ _ F). reflexivity.
  - rewrite (uf_num_dirs _ _ _ _ F). unfold zlen. rewrite (uf_ndirs _ _ _ _ F). reflexivity.
  - rewrite (uf_num_files _ _ _ _ F), (uf_fes _ _ _ _ F). unfold zlen. apply inj_le.
    generalize (ul_chain_end (ps + 2) (lo_dirs lo)) ([] : list nat). induction (ul_names lo) as [|[i l] r IH]; intros cur seen; [cbn; lia|].
    cbn [ul_assign_fes]. destruct (nat_mem i seen); [specialize (IH cur seen); cbn [length]; lia|].
    specialize (IH (cur + 1) (i :: seen)). destruct (ul_assign_fes (cur + 1) (i :: seen) r) as [a e]. cbn [fst length] in *. lia.
  - exact (uf_unique _ _ _ _ F).
  - intros r Hr. rewrite (uf_unique _ _ _ _ F).
    destruct (ul_tiled_in _ _ _ (dr_fe r) 1 Td) as [H1 H2]; [|lia].
    apply in_flat_map. exists r. split; [exact Hr|left; reflexivity].
  - intros i fe l Hin. rewrite (uf_unique _ _ _ _ F). pose proof (ul_tiled_le _ _ _ Td).
    destruct (ul_tiled_in _ _ _ fe 1 Tf) as [H1 H2]; [|lia].
    apply in_map_iff. exists (i, fe, l). split; [reflexivity|exact Hin].
Qed.

(* ---- an example: 3 levels, a two-block identifier area, an empty file, a two-name inode, a 3-block file ---- *)
Definition ul_long (k : Z) : uname := repeat 97 249 ++ [k].
Definition ul_ex_tree : utree :=
  UDir [] [UDir [100] [UDir [101] [UFile [102] 5000 0; UFile [103] 0 1]; UFile [104] 5000 0];
           UDir [105] (map (fun k => UFile (ul_long k) 1 (Z.to_nat k)) [48; 49; 50; 51; 52; 53; 54; 55])].

Example ul_ex_wf : wf_utree ul_ex_tree = true. Proof. vm_compute. reflexivity. Qed.
Example ul_ex_shape :
  ul_depth ul_ex_tree = 3%nat /\
  map (fun r => ul_dir_blocks (dr_node r)) (lo_dirs (udf_layout 257 ul_ex_tree)) = [1; 1; 2; 1] /\
  map (fun r => (dr_fe r, dr_parent_fe r)) (lo_dirs (udf_layout 257 ul_ex_tree)) = [(259, 259); (261, 259); (263, 259); (266, 261)] /\
  lo_fes (udf_layout 257 ul_ex_tree) = [(0%nat, 268, 5000); (48%nat, 269, 1); (49%nat, 270, 1); (50%nat, 271, 1); (51%nat, 272, 1);
                                        (52%nat, 273, 1); (53%nat, 274, 1); (54%nat, 275, 1); (55%nat, 276, 1); (1%nat, 277, 0)] /\
  ul_globals (udf_layout 257 ul_ex_tree) = [257; 37; 37; 11; 4; 278; 295; 294].
Proof. vm_compute. repeat split. Qed.
Example ul_ex_walk : udf_walk 3 (view (udf_layout 257 ul_ex_tree)) = Some (namespace ul_ex_tree).
Proof. apply udf_walk_layout; [exact ul_ex_wf|vm_compute; lia]. Qed.

Print Assumptions udf_walk_layout_iso.
Print Assumptions udf_walk_layout.
Print Assumptions udf_layout_disjoint.
Print Assumptions udf_layout_inside.
Print Assumptions udf_layout_pairwise.
Print Assumptions udf_layout_ads_partial.
Print Assumptions udf_layout_disjoint_refuted.
Print Assumptions udf_parent_fid.
Print Assumptions udf_counts.
Print Assumptions ul_ex_walk.
