(* Proofs about the symlink-target side of Model/RREntries.v: RRSLRecord.Component.factory (literal or not),
   Component.name / is_continued / set_continued / recorded_length and RRSLRecord.name(), for rockridge.py AFTER
   the repair "Rock Ridge symlink components are accounted and recorded by their real length".

   Main results
     sl_name_factory          for EVERY target t: name() of the components _new_symlink builds for an
                              uncut target (factory of each '/'-piece, a leading empty piece -> b'/') is t
     sl_name_slices           in memory, pieces cut into continued (literal) slices are glued back by name()
     sl_made_roundtrip        record() -> parse() of any components _new_symlink can build (factory, literal
                              factory, literal + set_continued): the parsed ones are the normal forms, name() and
                              is_continued() are unchanged
     sl_slices_roundtrip      hence: pieces cut into slices at ANY place (a slice may spell "." or ".."), recorded
                              and parsed, are read back by name() as the pieces joined with '/'
                              (replaces the former sl_continued_dot_refuted; its witness: sl_continued_dot_roundtrip)
     sl_factory_roundtrip     the uncut case, statement unchanged
   Still refuted (reader side, unchanged code; reproduced on the real library):
     sl_name_root_only_refuted  name() of the single ROOT component is b'' (an RRIP reader reads "/"); pycdlib
                                itself never writes that record: the target "/" is [ROOT; NAME ""], which name()
                                reads as "/" (sl_root_target_roundtrip)
     sl_empty_target_is_root    the empty target would be encoded as that very record *)
From Coq Require Import ZArith List Bool Lia ZifyBool.
From PV.Base Require Import Prim.
From PV.Model Require Import Codec RREntries.
From PV.Model Require LongNames.
From PV.Proofs Require Import CodecProofs RREntriesProofs.
From PV.Proofs Require LongNamesProofs.
Import ListNotations.
Local Open Scope Z_scope.

Lemma factory_cases s :
  (s = s_dot /\ sl_factory s = mk_comp 2 0 s) \/ (s = s_dotdot /\ sl_factory s = mk_comp 4 0 s) \/
  (s = s_slash /\ sl_factory s = mk_comp 8 0 s) \/ (sl_factory s = mk_comp 0 (zlen s) s).
Proof.
  unfold sl_factory.
  destruct (zlist_eqb s s_dot) eqn:E1; [apply zlist_eqb_eq in E1; auto|].
  destruct (zlist_eqb s s_dotdot) eqn:E2; [apply zlist_eqb_eq in E2; auto|].
  destruct (zlist_eqb s s_slash) eqn:E3; [apply zlist_eqb_eq in E3; auto 6|]. auto 6.
Qed.

Lemma factory_name s : comp_name (sl_factory s) = s /\ comp_is_continued (sl_factory s) = false.
Proof.
  destruct (factory_cases s) as [[-> ->]|[[-> ->]|[[-> ->]| -> ]]]; split; reflexivity.
Qed.
Lemma continued_name s :
  comp_name (comp_set_continued (sl_factory s)) = s /\
  comp_is_continued (comp_set_continued (sl_factory s)) = true.
Proof.
  destruct (factory_cases s) as [[-> ->]|[[-> ->]|[[-> ->]| -> ]]]; split; reflexivity.
Qed.

Lemma not_slash q : ~ In 47 q -> zlist_eqb q s_slash = false.
Proof.
  intros H. destruct (zlist_eqb q s_slash) eqn:E; [|reflexivity].
  apply zlist_eqb_eq in E. subst q. exfalso. apply H. left. reflexivity.
Qed.

(* whole pieces: every step appends the piece *)
Lemma name_fold_pieces ps : Forall (fun q => ~ In 47 q) ps -> forall out,
  fold_left sl_name_step (map sl_factory ps) (out, false) = (out ++ ps, false).
Proof.
  induction 1 as [|q ps Hq Hps IH]; intros out; cbn [map fold_left]; [rewrite app_nil_r; reflexivity|].
  unfold sl_name_step at 2. destruct (factory_name q) as [Hn Hc]. rewrite Hn, Hc, (not_slash q Hq).
  cbn [negb]. rewrite IH, <- app_assoc. reflexivity.
Qed.

Theorem sl_name_factory t : sl_name (components_of_target t) = t.
Proof.
  unfold sl_name, components_of_target.
  pose proof (LongNamesProofs.join_split t) as J. pose proof (LongNamesProofs.split_no_slash t) as N.
  destruct (LongNames.split_slash t) as [|p ps] eqn:E; [exact J|].
  apply Forall_cons_iff in N. destruct N as [Hp Hps].
  assert (F : sl_name_step ([], false) (sl_factory match p with [] => s_slash | _ :: _ => p end)
              = ([p], false)).
  { destruct p as [|x p]; [reflexivity|].
    unfold sl_name_step. destruct (factory_name (x :: p)) as [Hn Hc]. rewrite Hn, Hc, (not_slash _ Hp).
    reflexivity. }
  cbn [fold_left]. rewrite F, name_fold_pieces by exact Hps. exact J.
Qed.

(* cut pieces: a piece is a non-empty list of slices.  An uncut piece goes through factory(piece) when it is
   '.' or '..' and through factory(piece, literal=True) otherwise -- the same component as factory(piece) for a
   piece that is not "/"; the slices of a cut piece are literal, every slice but the last is marked continued
   (set_last_component_continued); name() concatenates the slices of a piece *)
Fixpoint lit_comps (slices : list (list Z)) : list comp :=
  match slices with
  | [] => []
  | [s] => [sl_factory_lit s]
  | s :: r => comp_set_continued (sl_factory_lit s) :: lit_comps r
  end.
Definition slice_comps (slices : list (list Z)) : list comp :=
  match slices with [s] => [sl_factory s] | _ => lit_comps slices end.

Lemma lit_name s : comp_name (sl_factory_lit s) = s /\ comp_is_continued (sl_factory_lit s) = false.
Proof. split; reflexivity. Qed.
Lemma lit_continued_name s : comp_name (comp_set_continued (sl_factory_lit s)) = s /\
  comp_is_continued (comp_set_continued (sl_factory_lit s)) = true.
Proof. split; reflexivity. Qed.

Lemma append_last_snoc out x s : append_last (out ++ [x]) s = out ++ [x ++ s].
Proof. unfold append_last. rewrite rev_app_distr. cbn [rev app]. rewrite rev_involutive. reflexivity. Qed.

Lemma name_fold_slices slices : slices <> [] -> Forall (fun q => ~ In 47 q) slices ->
  forall out x rest,
  fold_left sl_name_step (lit_comps slices ++ rest) (out ++ [x], true) =
  fold_left sl_name_step rest (out ++ [x ++ concat slices], false).
Proof.
  induction slices as [|s r IH]; intros Hne Hs out x rest; [congruence|].
  inversion Hs as [|? ? Hq Hr]; subst. destruct r as [|s2 r].
  - cbn [lit_comps app fold_left concat]. unfold sl_name_step at 2.
    destruct (lit_name s) as [Hn Hc]. rewrite Hn, Hc, (not_slash s Hq). cbn [negb].
    rewrite append_last_snoc, app_nil_r. reflexivity.
  - change (lit_comps (s :: s2 :: r)) with (comp_set_continued (sl_factory_lit s) :: lit_comps (s2 :: r)).
    cbn [app fold_left]. unfold sl_name_step at 2.
    destruct (lit_continued_name s) as [Hn Hc]. rewrite Hn, Hc, (not_slash s Hq). cbn [negb].
    rewrite append_last_snoc, IH by (congruence || assumption).
    cbn [concat]. rewrite <- !app_assoc. reflexivity.
Qed.

Lemma name_fold_cut pieces : Forall (fun sl => sl <> [] /\ Forall (fun q => ~ In 47 q) sl) pieces ->
  forall out,
  fold_left sl_name_step (flat_map slice_comps pieces) (out, false) = (out ++ map (@concat Z) pieces, false).
Proof.
  induction 1 as [|sl pieces [Hne Hs] Hp IH]; intros out; cbn [flat_map map]; [rewrite app_nil_r; reflexivity|].
  destruct sl as [|s r]; [congruence|]. inversion Hs as [|? ? Hq Hr]; subst.
  destruct r as [|s2 r].
  - cbn [slice_comps app fold_left concat]. unfold sl_name_step at 2.
    destruct (factory_name s) as [Hn Hc]. rewrite Hn, Hc, (not_slash s Hq). cbn [negb].
    rewrite IH, <- app_assoc, app_nil_r. reflexivity.
  - change (slice_comps (s :: s2 :: r)) with (comp_set_continued (sl_factory_lit s) :: lit_comps (s2 :: r)).
    cbn [app fold_left]. unfold sl_name_step at 2.
    destruct (lit_continued_name s) as [Hn Hc]. rewrite Hn, Hc, (not_slash s Hq). cbn [negb].
    rewrite name_fold_slices by (congruence || assumption).
    rewrite IH, <- app_assoc. reflexivity.
Qed.

(* in memory (before record()) the CONTINUE merging of name() is right for any cutting of the pieces *)
Theorem sl_name_slices pieces :
  Forall (fun sl => sl <> [] /\ Forall (fun q => ~ In 47 q) sl) pieces ->
  sl_name (flat_map slice_comps pieces) = LongNames.join_slash (map (@concat Z) pieces).
Proof. intros H. unfold sl_name. rewrite name_fold_cut by exact H. reflexivity. Qed.

(* ---- record() -> parse() ---- *)
Lemma factory_recorded_aux s : comp_recorded_length (sl_factory s) = sl_comp_length s.
Proof.
  unfold sl_comp_length, is_special, sl_factory.
  destruct (zlist_eqb s s_dot); [reflexivity|]. destruct (zlist_eqb s s_dotdot); [reflexivity|].
  destruct (zlist_eqb s s_slash); reflexivity.
Qed.
Definition norm_comp (c : comp) : comp :=
  if flag_set (c_flags c) 1 then mk_comp 2 0 [] else if flag_set (c_flags c) 2 then mk_comp 4 0 []
  else if flag_set (c_flags c) 3 then mk_comp 8 0 [] else c.
(* the components _new_symlink can build *)
Definition made (c : comp) : Prop :=
  exists s, c = sl_factory s \/ c = sl_factory_lit s \/ c = comp_set_continued (sl_factory_lit s).

Lemma made_recorded_ge c : made c -> 2 <= comp_recorded_length c.
Proof.
  intros (s & H). pose proof (zlen_nonneg s).
  destruct H as [-> | [-> | ->]]; [rewrite factory_recorded_aux|..].
  - unfold sl_comp_length. destruct (is_special s); lia.
  - unfold comp_recorded_length, sl_factory_lit. cbn [c_flags c_len]. change (flag_set 0 1) with false.
    change (flag_set 0 2) with false. change (flag_set 0 3) with false. cbn [orb]. lia.
  - unfold comp_recorded_length, sl_factory_lit, comp_set_continued. cbn [c_flags c_len]. change (Z.lor 0 1) with 1.
    change (flag_set 1 1) with false. change (flag_set 1 2) with false. change (flag_set 1 3) with false. cbn [orb]. lia.
Qed.

Lemma norm_made c : made c -> comp_recorded_length c <= 255 ->
  sl_comp_ok (norm_comp c) = true /\ sl_comp_enc (norm_comp c) = sl_comp_enc c /\
  comp_name (norm_comp c) = comp_name c /\ comp_is_continued (norm_comp c) = comp_is_continued c /\
  comp_recorded_length (norm_comp c) = comp_recorded_length c /\ sl_comp_packable c = true /\
  zlen (sl_comp_enc c) = comp_recorded_length c.
Proof.
  intros (s & H) Hr. pose proof (zlen_nonneg s) as Hn.
  assert (Plain : forall f, f = 0 \/ f = 1 -> comp_recorded_length (mk_comp f (zlen s) s) <= 255 ->
            sl_comp_ok (norm_comp (mk_comp f (zlen s) s)) = true /\
            sl_comp_enc (norm_comp (mk_comp f (zlen s) s)) = sl_comp_enc (mk_comp f (zlen s) s) /\
            comp_name (norm_comp (mk_comp f (zlen s) s)) = comp_name (mk_comp f (zlen s) s) /\
            comp_is_continued (norm_comp (mk_comp f (zlen s) s)) = comp_is_continued (mk_comp f (zlen s) s) /\
            comp_recorded_length (norm_comp (mk_comp f (zlen s) s)) = comp_recorded_length (mk_comp f (zlen s) s) /\
            sl_comp_packable (mk_comp f (zlen s) s) = true /\
            zlen (sl_comp_enc (mk_comp f (zlen s) s)) = comp_recorded_length (mk_comp f (zlen s) s)).
  { intros f Hf Hl.
    assert (Hl' : zlen s <= 253).
    { destruct Hf as [-> | ->]; unfold comp_recorded_length in Hl; cbn [c_flags c_len] in Hl;
        [change (flag_set 0 1) with false in Hl; change (flag_set 0 2) with false in Hl; change (flag_set 0 3) with false in Hl
        |change (flag_set 1 1) with false in Hl; change (flag_set 1 2) with false in Hl; change (flag_set 1 3) with false in Hl];
        cbn [orb] in Hl; lia. }
    destruct Hf as [-> | ->]; (repeat split; try reflexivity);
      try (unfold norm_comp, sl_comp_ok, sl_comp_packable; cbn [c_flags c_len c_data];
           try change (flag_set 0 1) with false; try change (flag_set 0 2) with false; try change (flag_set 0 3) with false;
           try change (flag_set 1 1) with false; try change (flag_set 1 2) with false; try change (flag_set 1 3) with false;
           cbn [c_flags c_len c_data orb]; rewrite ?Z.eqb_refl;
           replace (u8_ok (zlen s)) with true by (unfold u8_ok; lia); reflexivity);
      [change (sl_comp_enc (mk_comp 0 (zlen s) s)) with ([0; zlen s] ++ s)
      |change (sl_comp_enc (mk_comp 1 (zlen s) s)) with ([1; zlen s] ++ s)];
      rewrite zlen_app; reflexivity. }
  destruct H as [-> | [-> | ->]].
  - destruct (factory_cases s) as [[-> ->]|[[-> ->]|[[-> ->]| E ]]]; try (repeat split; reflexivity).
    rewrite E in *. apply Plain; [left; reflexivity|exact Hr].
  - apply Plain; [left; reflexivity|exact Hr].
  - apply Plain; [right; reflexivity|exact Hr].
Qed.

Lemma sl_name_ext : forall a b st, map comp_name a = map comp_name b ->
  map comp_is_continued a = map comp_is_continued b ->
  fold_left sl_name_step a st = fold_left sl_name_step b st.
Proof.
  induction a as [|x a IH]; intros [|y b] st Hn Hc; try discriminate; [reflexivity|].
  cbn [map] in Hn, Hc. injection Hn as Hn1 Hn2. injection Hc as Hc1 Hc2. cbn [fold_left].
  replace (sl_name_step st y) with (sl_name_step st x)
    by (destruct st; unfold sl_name_step; rewrite Hn1, Hc1; reflexivity).
  apply IH; assumption.
Qed.

Lemma current_length_fold fl cs :
  sl_current_length (mk_sl fl cs) = 5 + fold_right (fun c acc => comp_recorded_length c + acc) 0 cs.
Proof. unfold sl_current_length. cbn [sl_comps]. apply fold_left_sum. Qed.

(* record() -> parse() of any components _new_symlink builds: the parsed components are the normal forms
   (no data on ./../root), name() and is_continued() are unchanged *)
Lemma sum_member (cs : list comp) c : Forall (fun c => 0 <= comp_recorded_length c) cs -> In c cs ->
  comp_recorded_length c <= fold_right (fun c acc => comp_recorded_length c + acc) 0 cs.
Proof.
  induction 1 as [|x cs Hx Hcs IH]; intros Hin; [destruct Hin|]. cbn [fold_right].
  assert (0 <= fold_right (fun c acc => comp_recorded_length c + acc) 0 cs)
    by (clear IH Hin; induction Hcs; cbn [fold_right]; lia).
  destruct Hin as [->|Hin]; [lia|specialize (IH Hin); lia].
Qed.

Theorem sl_made_roundtrip fl cs rest :
  u8_ok fl = true -> Forall made cs -> sl_current_length (mk_sl fl cs) <= 255 ->
  rec_sl (mk_sl fl cs) = Some (enc_sl (mk_sl fl cs)) /\
  parse_sl (enc_sl (mk_sl fl cs) ++ rest) = Some (mk_sl fl (map norm_comp cs)) /\
  sl_name (map norm_comp cs) = sl_name cs /\
  map comp_is_continued (map norm_comp cs) = map comp_is_continued cs /\
  zlen (enc_sl (mk_sl fl cs)) = sl_current_length (mk_sl fl cs).
Proof.
  intros Hf Hm Hl. rewrite current_length_fold in Hl.
  assert (Hb : Forall (fun c => made c /\ comp_recorded_length c <= 255) cs).
  { assert (Hnn : Forall (fun c => 0 <= comp_recorded_length c) cs).
    { apply Forall_forall. intros c Hc. pose proof (made_recorded_ge c (proj1 (Forall_forall _ _) Hm c Hc)). lia. }
    apply Forall_forall. intros c Hc. split; [exact (proj1 (Forall_forall _ _) Hm c Hc)|].
    pose proof (sum_member cs c Hnn Hc). lia. }
  assert (A : map comp_name (map norm_comp cs) = map comp_name cs /\
              map comp_is_continued (map norm_comp cs) = map comp_is_continued cs /\
              map sl_comp_enc (map norm_comp cs) = map sl_comp_enc cs /\
              forallb sl_comp_ok (map norm_comp cs) = true /\
              forallb sl_comp_packable cs = true /\
              fold_right (fun c acc => comp_recorded_length c + acc) 0 (map norm_comp cs)
              = fold_right (fun c acc => comp_recorded_length c + acc) 0 cs).
  { clear Hl Hm. induction Hb as [|c cs [Hc Hc2] Hcs IH]; [repeat split; reflexivity|].
    destruct IH as (I1 & I2 & I3 & I4 & I5 & I6). destruct (norm_made c Hc Hc2) as (N1 & N2 & N3 & N4 & N5 & N6 & _).
    cbn [map forallb fold_right]. rewrite I1, I2, I3, I4, I5, I6, N1, N2, N3, N4, N5, N6. repeat split; reflexivity. }
  destruct A as (A1 & A2 & A3 & A4 & A5 & A6).
  assert (Ecur : sl_current_length (mk_sl fl (map norm_comp cs)) = sl_current_length (mk_sl fl cs))
    by (rewrite !current_length_fold, A6; reflexivity).
  assert (Eenc : enc_sl (mk_sl fl (map norm_comp cs)) = enc_sl (mk_sl fl cs)).
  { unfold enc_sl. rewrite Ecur. cbn [sl_comps sl_flags]. rewrite A3. reflexivity. }
  assert (Hok : sl_ok (mk_sl fl (map norm_comp cs)) = true).
  { unfold sl_ok. cbn [sl_flags sl_comps]. rewrite Hf, A4, Ecur, current_length_fold. cbn [andb]. lia. }
  destruct (sl_roundtrip _ rest Hok) as (R & P & Z). rewrite Eenc in P, Z. rewrite Ecur in Z.
  split; [|split; [exact P|split; [|split; [exact A2|exact Z]]]].
  - unfold rec_sl. cbn [sl_flags sl_comps]. rewrite Hf, A5.
    assert (5 <= sl_current_length (mk_sl fl cs)).
    { rewrite <- Z. unfold enc_sl. rewrite zlen_app.
      pose proof (zlen_nonneg (concat (map sl_comp_enc (sl_comps (mk_sl fl cs))))).
      change (zlen (sig_SL ++ _)) with 5. lia. }
    rewrite current_length_fold in *.
    replace (u8_ok (5 + fold_right (fun c acc => comp_recorded_length c + acc) 0 cs)) with true by (unfold u8_ok; lia).
    reflexivity.
  - unfold sl_name. rewrite (sl_name_ext _ _ _ A1 A2). reflexivity.
Qed.

Lemma lit_made slices : Forall made (lit_comps slices).
Proof.
  induction slices as [|s r IH]; [constructor|]. destruct r as [|s2 r].
  - constructor; [exists s; auto|constructor].
  - change (lit_comps (s :: s2 :: r)) with (comp_set_continued (sl_factory_lit s) :: lit_comps (s2 :: r)).
    constructor; [exists s; auto|exact IH].
Qed.
Lemma slice_made slices : Forall made (slice_comps slices).
Proof.
  destruct slices as [|s [|s2 r]]; [constructor| |apply lit_made].
  constructor; [exists s; auto|constructor].
Qed.

(* pieces of a target cut into slices at ANY place -- a slice may spell "." or ".." --, recorded in one SL entry and
   parsed back, are read by name() as the pieces joined with '/' *)
Theorem sl_slices_roundtrip fl pieces rest :
  u8_ok fl = true ->
  Forall (fun sl => sl <> [] /\ Forall (fun q => ~ In 47 q) sl) pieces ->
  let cs := flat_map slice_comps pieces in
  sl_current_length (mk_sl fl cs) <= 255 ->
  exists b s', rec_sl (mk_sl fl cs) = Some b /\ parse_sl (b ++ rest) = Some s' /\ sl_flags s' = fl /\
    sl_name (sl_comps s') = LongNames.join_slash (map (@concat Z) pieces).
Proof.
  intros Hf Hp cs Hl.
  assert (M : Forall made cs).
  { clear Hl Hp. subst cs. induction pieces as [|sl ps IH]; [constructor|]. cbn [flat_map].
    apply Forall_app. split; [apply slice_made|exact IH]. }
  destruct (sl_made_roundtrip fl cs rest Hf M Hl) as (R & P & N & _).
  eexists _, _. split; [exact R|]. split; [exact P|]. split; [reflexivity|]. cbn [sl_comps]. rewrite N.
  apply sl_name_slices. exact Hp.
Qed.

(* the former witness of c08:symlink-target-not-recovered:piece-starting-with-dot: the name ".b" cut after its
   dot; the slice "." is now the plain component (1, 1, ".") and ".b" is read back *)
Example sl_continued_dot_roundtrip :
  exists comps b s',
    comps = slice_comps [[46]; [98]] /\ sl_name comps = [46; 98] /\
    rec_sl (mk_sl 0 comps) = Some b /\ b = [83; 76; 11; 1; 0; 1; 1; 46; 0; 1; 98] /\ parse_sl b = Some s' /\
    sl_name (sl_comps s') = [46; 98].
Proof. do 3 eexists. repeat split; vm_compute; reflexivity. Qed.

(* ---- reader side, unchanged ---- *)
(* known finding c08:symlink-target-not-recovered:root-only, in RRSLRecord.name(): a foreign image that stores
   the target "/" as the single ROOT component *)
Theorem sl_name_root_only_refuted :
  parse_sl [83; 76; 7; 1; 0; 8; 0] = Some (mk_sl 0 [mk_comp 8 0 []]) /\
  sl_name [mk_comp 8 0 []] = [] /\
  LongNames.render [LongNames.pair_comp (8, [])] = [47].
Proof. repeat split; vm_compute; reflexivity. Qed.
(* pycdlib itself records the target "/" as [ROOT; NAME ""]: split gives ['', ''], and name() reads "/" back *)
Example sl_root_target_roundtrip :
  components_of_target [47] = [mk_comp 8 0 [47]; mk_comp 0 0 []] /\
  rec_sl (mk_sl 0 (components_of_target [47])) = Some [83; 76; 9; 1; 0; 8; 0; 0; 0] /\
  parse_sl [83; 76; 9; 1; 0; 8; 0; 0; 0] = Some (mk_sl 0 [mk_comp 8 0 []; mk_comp 0 0 []]) /\
  sl_name [mk_comp 8 0 []; mk_comp 0 0 []] = [47].
Proof. repeat split; vm_compute; reflexivity. Qed.
(* the empty target is recorded as the ROOT component: name() agrees ("" = ""), an RRIP reader reads "/" *)
Theorem sl_empty_target_is_root :
  components_of_target [] = [mk_comp 8 0 [47]] /\
  rec_sl (mk_sl 0 (components_of_target [])) = Some [83; 76; 7; 1; 0; 8; 0].
Proof. split; vm_compute; reflexivity. Qed.

Lemma factory_recorded s : comp_recorded_length (sl_factory s) = sl_comp_length s.
Proof. apply factory_recorded_aux. Qed.

(* record() -> parse() of factory-made (uncut) components: the parsed components are the normal forms
   (no data on ./../root) and name() is unchanged; together with sl_name_factory: the target is read back *)
Theorem sl_factory_roundtrip fl ss rest :
  u8_ok fl = true -> forallb (fun s => zlen s <=? 255) ss = true -> (len_sl ss <=? 255) = true ->
  let cs := map sl_factory ss in
  rec_sl (mk_sl fl cs) = Some (enc_sl (mk_sl fl cs)) /\
  parse_sl (enc_sl (mk_sl fl cs) ++ rest) = Some (mk_sl fl (map norm_comp cs)) /\
  sl_name (map norm_comp cs) = sl_name cs.
Proof.
  intros Hf Hs Hl cs.
  assert (M : Forall made cs).
  { subst cs. apply Forall_forall. intros c Hc. apply in_map_iff in Hc. destruct Hc as (s & <- & Hin).
    exists s. auto. }
  assert (L : sl_current_length (mk_sl fl cs) = len_sl ss).
  { rewrite current_length_fold. unfold len_sl. rewrite fold_left_sum. f_equal. subst cs. clear.
    induction ss as [|s ss IH]; [reflexivity|]. cbn [map fold_right]. rewrite factory_recorded, IH. reflexivity. }
  destruct (sl_made_roundtrip fl cs rest Hf M ltac:(lia)) as (R & P & N & _). auto.
Qed.

Print Assumptions sl_name_factory.
Print Assumptions sl_name_slices.
Print Assumptions sl_made_roundtrip.
Print Assumptions sl_slices_roundtrip.
Print Assumptions sl_factory_roundtrip.
Print Assumptions sl_continued_dot_roundtrip.
Print Assumptions sl_name_root_only_refuted.
Print Assumptions sl_root_target_roundtrip.
Print Assumptions sl_empty_target_is_root.
