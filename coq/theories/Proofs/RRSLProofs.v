(* Proofs about the symlink-target side of Model/RREntries.v: RRSLRecord.Component.factory,
   Component.name / is_continued / set_continued and RRSLRecord.name().

   Main results
     sl_name_factory          for EVERY target t: name() of the components _new_symlink builds for an
                              uncut target (factory of each '/'-piece, a leading empty piece -> b'/') is t
     sl_name_slices           in memory, pieces cut into continued slices are glued back by name()
     sl_factory_roundtrip     ... and for uncut targets also after record() -> parse() (normal forms)
   Refuted (both reproduced on the real library; the two known findings of C08):
     sl_continued_dot_refuted   a continued slice spelling "." : Component.record() writes (2, 0) and drops
                                the CONTINUE bit, so after record() -> parse() name() is "./b", not ".b"
     sl_name_root_only_refuted  name() of the single ROOT component is b'' (an RRIP reader reads "/");
     sl_empty_target_is_root    and the empty target is encoded as that very record *)
From Coq Require Import ZArith List Bool Lia ZifyBool.
From PV.Base Require Import Prim.
From PV.Model Require Import Codec RREntries.
From PV.Model Require LongNames.
From PV.Proofs Require Import CodecProofs RREntriesProofs.
From PV.Proofs Require LongNamesProofs.
Import ListNotations.
Local Open Scope Z_scope.

Lemma factory_cases s :
  (s = s_dot /\ sl_factory s = mk_comp 2 0 s) \/ (s = s_dotdot /\ sl_factory s = mk_comp 4 0 s) \/
  (s = s_slash /\ sl_factory s = mk_comp 8 0 s) \/ (sl_factory s = mk_comp 0 (zlen s) s).
Proof.
  unfold sl_factory.
  destruct (zlist_eqb s s_dot) eqn:E1; [apply zlist_eqb_eq in E1; auto|].
  destruct (zlist_eqb s s_dotdot) eqn:E2; [apply zlist_eqb_eq in E2; auto|].
  destruct (zlist_eqb s s_slash) eqn:E3; [apply zlist_eqb_eq in E3; auto 6|]. auto 6.
Qed.

Lemma factory_name s : comp_name (sl_factory s) = s /\ comp_is_continued (sl_factory s) = false.
Proof.
  destruct (factory_cases s) as [[-> ->]|[[-> ->]|[[-> ->]| -> ]]]; split; reflexivity.
Qed.
Lemma continued_name s :
  comp_name (comp_set_continued (sl_factory s)) = s /\
  comp_is_continued (comp_set_continued (sl_factory s)) = true.
Proof.
  destruct (factory_cases s) as [[-> ->]|[[-> ->]|[[-> ->]| -> ]]]; split; reflexivity.
Qed.

Lemma not_slash q : ~ In 47 q -> zlist_eqb q s_slash = false.
Proof.
  intros H. destruct (zlist_eqb q s_slash) eqn:E; [|reflexivity].
  apply zlist_eqb_eq in E. subst q. exfalso. apply H. left. reflexivity.
Qed.

(* whole pieces: every step appends the piece *)
Lemma name_fold_pieces ps : Forall (fun q => ~ In 47 q) ps -> forall out,
  fold_left sl_name_step (map sl_factory ps) (out, false) = (out ++ ps, false).
Proof.
  induction 1 as [|q ps Hq Hps IH]; intros out; cbn [map fold_left]; [rewrite app_nil_r; reflexivity|].
  unfold sl_name_step at 2. destruct (factory_name q) as [Hn Hc]. rewrite Hn, Hc, (not_slash q Hq).
  cbn [negb]. rewrite IH, <- app_assoc. reflexivity.
Qed.

Theorem sl_name_factory t : sl_name (components_of_target t) = t.
Proof.
  unfold sl_name, components_of_target.
  pose proof (LongNamesProofs.join_split t) as J. pose proof (LongNamesProofs.split_no_slash t) as N.
  destruct (LongNames.split_slash t) as [|p ps] eqn:E; [exact J|].
  apply Forall_cons_iff in N. destruct N as [Hp Hps].
  assert (F : sl_name_step ([], false) (sl_factory match p with [] => s_slash | _ :: _ => p end)
              = ([p], false)).
  { destruct p as [|x p]; [reflexivity|].
    unfold sl_name_step. destruct (factory_name (x :: p)) as [Hn Hc]. rewrite Hn, Hc, (not_slash _ Hp).
    reflexivity. }
  cbn [fold_left]. rewrite F, name_fold_pieces by exact Hps. exact J.
Qed.

(* cut pieces: a piece is a non-empty list of slices, every slice but the last is marked continued
   (set_last_component_continued); name() concatenates the slices of a piece *)
Fixpoint slice_comps (slices : list (list Z)) : list comp :=
  match slices with
  | [] => []
  | [s] => [sl_factory s]
  | s :: r => comp_set_continued (sl_factory s) :: slice_comps r
  end.
Lemma append_last_snoc out x s : append_last (out ++ [x]) s = out ++ [x ++ s].
Proof. unfold append_last. rewrite rev_app_distr. cbn [rev app]. rewrite rev_involutive. reflexivity. Qed.

Lemma name_fold_slices slices : slices <> [] -> Forall (fun q => ~ In 47 q) slices ->
  forall out x rest,
  fold_left sl_name_step (slice_comps slices ++ rest) (out ++ [x], true) =
  fold_left sl_name_step rest (out ++ [x ++ concat slices], false).
Proof.
  induction slices as [|s r IH]; intros Hne Hs out x rest; [congruence|].
  inversion Hs as [|? ? Hq Hr]; subst. destruct r as [|s2 r].
  - cbn [slice_comps app fold_left concat]. unfold sl_name_step at 2.
    destruct (factory_name s) as [Hn Hc]. rewrite Hn, Hc, (not_slash s Hq). cbn [negb].
    rewrite append_last_snoc, app_nil_r. reflexivity.
  - change (slice_comps (s :: s2 :: r)) with (comp_set_continued (sl_factory s) :: slice_comps (s2 :: r)).
    cbn [app fold_left]. unfold sl_name_step at 2.
    destruct (continued_name s) as [Hn Hc]. rewrite Hn, Hc, (not_slash s Hq). cbn [negb].
    rewrite append_last_snoc, IH by (congruence || assumption).
    cbn [concat]. rewrite <- !app_assoc. reflexivity.
Qed.

Lemma name_fold_cut pieces : Forall (fun sl => sl <> [] /\ Forall (fun q => ~ In 47 q) sl) pieces ->
  forall out,
  fold_left sl_name_step (flat_map slice_comps pieces) (out, false) = (out ++ map (@concat Z) pieces, false).
Proof.
  induction 1 as [|sl pieces [Hne Hs] Hp IH]; intros out; cbn [flat_map map]; [rewrite app_nil_r; reflexivity|].
  destruct sl as [|s r]; [congruence|]. inversion Hs as [|? ? Hq Hr]; subst.
  destruct r as [|s2 r].
  - cbn [slice_comps app fold_left concat]. unfold sl_name_step at 2.
    destruct (factory_name s) as [Hn Hc]. rewrite Hn, Hc, (not_slash s Hq). cbn [negb].
    rewrite IH, <- app_assoc, app_nil_r. reflexivity.
  - change (slice_comps (s :: s2 :: r)) with (comp_set_continued (sl_factory s) :: slice_comps (s2 :: r)).
    cbn [app fold_left]. unfold sl_name_step at 2.
    destruct (continued_name s) as [Hn Hc]. rewrite Hn, Hc, (not_slash s Hq). cbn [negb].
    rewrite name_fold_slices by (congruence || assumption).
    rewrite IH, <- app_assoc. reflexivity.
Qed.

(* in memory (before record()) the CONTINUE merging of name() is right for any cutting of the pieces *)
Theorem sl_name_slices pieces :
  Forall (fun sl => sl <> [] /\ Forall (fun q => ~ In 47 q) sl) pieces ->
  sl_name (flat_map slice_comps pieces) = LongNames.join_slash (map (@concat Z) pieces).
Proof. intros H. unfold sl_name. rewrite name_fold_cut by exact H. reflexivity. Qed.

(* ---- refuted ---- *)
(* known finding c08:symlink-target-not-recovered:piece-starting-with-dot, in Component.record():
   the slice "." of the name ".b" carries flags 2|1 in memory; record() writes (2, 0) *)
Theorem sl_continued_dot_refuted :
  exists comps b s',
    comps = slice_comps [[46]; [98]] /\ sl_name comps = [46; 98] /\
    rec_sl (mk_sl 0 comps) = Some b /\ parse_sl b = Some s' /\
    sl_name (sl_comps s') = [46; 47; 98] /\ sl_name (sl_comps s') <> sl_name comps.
Proof.
  do 3 eexists. split; [reflexivity|]. split; [vm_compute; reflexivity|].
  split; [vm_compute; reflexivity|]. split; [vm_compute; reflexivity|].
  split; [vm_compute; reflexivity|]. vm_compute. discriminate.
Qed.
(* known finding c08:symlink-target-not-recovered:root-only, in RRSLRecord.name() *)
Theorem sl_name_root_only_refuted :
  parse_sl [83; 76; 7; 1; 0; 8; 0] = Some (mk_sl 0 [mk_comp 8 0 []]) /\
  sl_name [mk_comp 8 0 []] = [] /\
  LongNames.render [LongNames.pair_comp (8, [])] = [47].
Proof. repeat split; vm_compute; reflexivity. Qed.
(* the empty target is recorded as the ROOT component: name() agrees ("" = ""), an RRIP reader reads "/" *)
Theorem sl_empty_target_is_root :
  components_of_target [] = [mk_comp 8 0 [47]] /\
  rec_sl (mk_sl 0 (components_of_target [])) = Some [83; 76; 7; 1; 0; 8; 0].
Proof. split; vm_compute; reflexivity. Qed.

(* record() -> parse() keeps name() for every uncut target whose record fits in 255 bytes *)
Definition norm_comp (c : comp) : comp :=
  if flag_set (c_flags c) 1 then mk_comp 2 0 [] else if flag_set (c_flags c) 2 then mk_comp 4 0 []
  else if flag_set (c_flags c) 3 then mk_comp 8 0 [] else c.
Lemma norm_factory s : (zlen s <=? 255) = true ->
  sl_comp_ok (norm_comp (sl_factory s)) = true /\
  sl_comp_enc (norm_comp (sl_factory s)) = sl_comp_enc (sl_factory s) /\
  comp_name (norm_comp (sl_factory s)) = comp_name (sl_factory s) /\
  comp_is_continued (norm_comp (sl_factory s)) = comp_is_continued (sl_factory s) /\
  sl_comp_length (comp_name (norm_comp (sl_factory s))) = sl_comp_length (comp_name (sl_factory s)).
Proof.
  intros Hl. unfold sl_factory.
  destruct (zlist_eqb s s_dot) eqn:E1; [repeat split; reflexivity|].
  destruct (zlist_eqb s s_dotdot) eqn:E2; [repeat split; reflexivity|].
  destruct (zlist_eqb s s_slash) eqn:E3; [repeat split; reflexivity|].
  repeat split; try reflexivity.
  unfold norm_comp, sl_comp_ok. cbn [c_flags c_len c_data flag_set].
  change (flag_set 0 1) with false. change (flag_set 0 2) with false. change (flag_set 0 3) with false.
  cbn [c_flags c_len c_data]. unfold is_special. rewrite E1, E2, E3, Z.eqb_refl.
  pose proof (zlen_nonneg s). replace (u8_ok (zlen s)) with true by (unfold u8_ok; lia). reflexivity.
Qed.

Lemma norm_factory_packable s : (zlen s <=? 255) = true -> sl_comp_packable (sl_factory s) = true.
Proof.
  intros Hl. destruct (factory_cases s) as [[-> ->]|[[-> ->]|[[-> ->]| -> ]]]; try reflexivity.
  unfold sl_comp_packable. cbn [c_flags c_len]. pose proof (zlen_nonneg s).
  replace (u8_ok (zlen s)) with true by (unfold u8_ok; lia). reflexivity.
Qed.

Lemma sl_name_ext : forall a b st, map comp_name a = map comp_name b ->
  map comp_is_continued a = map comp_is_continued b ->
  fold_left sl_name_step a st = fold_left sl_name_step b st.
Proof.
  induction a as [|x a IH]; intros [|y b] st Hn Hc; try discriminate; [reflexivity|].
  cbn [map] in Hn, Hc. injection Hn as Hn1 Hn2. injection Hc as Hc1 Hc2. cbn [fold_left].
  replace (sl_name_step st y) with (sl_name_step st x)
    by (destruct st; unfold sl_name_step; rewrite Hn1, Hc1; reflexivity).
  apply IH; assumption.
Qed.

(* record() -> parse() of factory-made (uncut) components: the parsed components are the normal forms
   (no data on ./../root) and name() is unchanged; together with sl_name_factory: the target is read back *)
Theorem sl_factory_roundtrip fl ss rest :
  u8_ok fl = true -> forallb (fun s => zlen s <=? 255) ss = true -> (len_sl ss <=? 255) = true ->
  let cs := map sl_factory ss in
  rec_sl (mk_sl fl cs) = Some (enc_sl (mk_sl fl cs)) /\
  parse_sl (enc_sl (mk_sl fl cs) ++ rest) = Some (mk_sl fl (map norm_comp cs)) /\
  sl_name (map norm_comp cs) = sl_name cs.
Proof.
  intros Hf Hs Hl cs.
  assert (A : map comp_name (map norm_comp cs) = map comp_name cs /\
              map comp_is_continued (map norm_comp cs) = map comp_is_continued cs /\
              map sl_comp_enc (map norm_comp cs) = map sl_comp_enc cs /\
              forallb sl_comp_ok (map norm_comp cs) = true /\
              forallb sl_comp_packable cs = true /\ map comp_name cs = ss).
  { subst cs. induction ss as [|s ss IH]; [repeat split; reflexivity|].
    cbn [forallb] in Hs. apply andb_prop in Hs. destruct Hs as [Hs1 Hs2].
    assert (Hl2 : (len_sl ss <=? 255) = true).
    { unfold len_sl in *. cbn [fold_left] in Hl. rewrite fold_left_sum in *.
      unfold sl_comp_length at 1 in Hl. pose proof (zlen_nonneg s). destruct (is_special s); lia. }
    destruct (IH Hs2 Hl2) as (I1 & I2 & I3 & I4 & I5 & I6).
    destruct (norm_factory s Hs1) as (N1 & N2 & N3 & N4 & _).
    cbn [map forallb]. rewrite I1, I2, I3, I4, I5, I6, N1, N2, N3, N4, (norm_factory_packable s Hs1).
    rewrite (proj1 (factory_name s)). repeat split; reflexivity. }
  destruct A as (A1 & A2 & A3 & A4 & A5 & A6).
  assert (Ecur : sl_current_length (mk_sl fl (map norm_comp cs)) = sl_current_length (mk_sl fl cs)).
  { unfold sl_current_length. cbn [sl_comps]. rewrite A1. reflexivity. }
  assert (Eenc : enc_sl (mk_sl fl (map norm_comp cs)) = enc_sl (mk_sl fl cs)).
  { unfold enc_sl. rewrite Ecur. cbn [sl_comps sl_flags]. rewrite A3. reflexivity. }
  assert (Hcur : sl_current_length (mk_sl fl cs) = len_sl ss).
  { unfold sl_current_length. cbn [sl_comps]. rewrite A6. reflexivity. }
  assert (Hok : sl_ok (mk_sl fl (map norm_comp cs)) = true).
  { unfold sl_ok. cbn [sl_flags sl_comps]. rewrite Hf, A4, Ecur, Hcur, Hl. reflexivity. }
  destruct (sl_roundtrip _ rest Hok) as (_ & P & _). rewrite Eenc in P.
  split; [|split; [exact P|]].
  - unfold rec_sl. cbn [sl_flags sl_comps]. rewrite Hf, A5, Hcur.
    assert (5 <= len_sl ss).
    { unfold len_sl. rewrite fold_left_sum.
      assert (G : forall l, 0 <= fold_right (fun n acc => sl_comp_length n + acc) 0 l).
      { induction l as [|x l IHl]; cbn [fold_right]; [lia|]. unfold sl_comp_length at 1.
        pose proof (zlen_nonneg x). destruct (is_special x); lia. }
      specialize (G ss). lia. }
    replace (u8_ok (len_sl ss)) with true by (unfold u8_ok; lia). reflexivity.
  - unfold sl_name. rewrite (sl_name_ext _ _ _ A1 A2). reflexivity.
Qed.

Print Assumptions sl_name_factory.
Print Assumptions sl_name_slices.
Print Assumptions sl_factory_roundtrip.
Print Assumptions sl_continued_dot_refuted.
Print Assumptions sl_name_root_only_refuted.
Print Assumptions sl_empty_target_is_root.
