(* Proofs/RelocLinks.v -- where every directory object of a state sits ([rl_at]: the chain of
   logical parents), and the structure of the image of Model/RelocView.v: which directory holds
   which records.  Used by Proofs/RelocProofs.v for the CL / PL / RE consistency theorems. *)
From Coq Require Import ZArith List Bool Lia Permutation.
From PV.Model Require Import RelocCore RelocView.
From PV.Proofs Require Import RelocBase RelocPath RelocInv RelocExt RelocPaths RelocReader.
Import ListNotations.
Local Open Scope Z_scope.

(* k's record (or placeholder) lives in the directory with physical path pcur; pl = the PX count a
   '..' inside a child of that directory copies *)
Inductive rl_at (s : state) : ppath -> Z -> node -> Prop :=
| rl_at_root k : In k (s_kids s) -> rl_at s [] (s_dot s) k
| rl_at_kid pcur pl i r e d m ks k :
    rl_at s pcur pl (Dir i r e d m ks) -> In k ks ->
    rl_at s (self_path pcur (Dir i r e d m ks)) e k.

Lemma rl_nodes_of_at s n : forall pcur pl x, rl_at s pcur pl n -> In x (nodes_of pcur pl n) ->
  rl_at s (fst (fst x)) (snd (fst x)) (snd x) /\ is_dir (snd x) = true.
Proof.
  induction n as [i r e d m ks IH|sy i r] using rl_node_ind; intros pcur pl x A H; [|destruct H].
  cbn [nodes_of] in H. destruct H as [<-|H]; [split; [exact A|reflexivity]|].
  apply in_flat_map in H. destruct H as (k & Hk & H). rewrite Forall_forall in IH.
  apply (IH k Hk (self_path pcur (Dir i r e d m ks)) e x); [|exact H].
  apply (rl_at_kid s pcur pl i r e d m ks k A Hk).
Qed.

Lemma rl_all_nodes_at s x : In x (all_nodes s) ->
  rl_at s (fst (fst x)) (snd (fst x)) (snd x) /\ is_dir (snd x) = true.
Proof.
  unfold all_nodes. intros H. apply in_flat_map in H. destruct H as (k & Hk & H).
  apply (rl_nodes_of_at s k [] (s_dot s) x); [constructor; exact Hk|exact H].
Qed.

Lemma rl_nodes_of_head pcur pl n : is_dir n = true -> In (pcur, pl, n) (nodes_of pcur pl n).
Proof. destruct n; [left; reflexivity|discriminate]. Qed.

Lemma rl_nodes_of_down n : forall pcur pl pc' pl' i r e d m ks k,
  In (pc', pl', Dir i r e d m ks) (nodes_of pcur pl n) -> In k ks -> is_dir k = true ->
  In (self_path pc' (Dir i r e d m ks), e, k) (nodes_of pcur pl n).
Proof.
  induction n as [i0 r0 e0 d0 m0 ks0 IH|sy i0 r0] using rl_node_ind;
    intros pcur pl pc' pl' i r e d m ks k H Hk Dk; [|destruct H].
  cbn [nodes_of] in H |- *. destruct H as [H|H].
  - injection H as <- <- <- <- <- <- <- <-. right. apply in_flat_map. exists k.
    split; [exact Hk|apply rl_nodes_of_head; exact Dk].
  - right. apply in_flat_map in H. destruct H as (k0 & Hk0 & H). apply in_flat_map. exists k0.
    split; [exact Hk0|]. rewrite Forall_forall in IH. eapply IH; eassumption.
Qed.

Lemma rl_at_all_nodes s pcur pl n : rl_at s pcur pl n -> is_dir n = true ->
  In (pcur, pl, n) (all_nodes s).
Proof.
  induction 1 as [k Hk|pcur pl i r e d m ks k A IH Hk]; intros D.
  - unfold all_nodes. apply in_flat_map. exists k. split; [exact Hk|apply rl_nodes_of_head; exact D].
  - specialize (IH eq_refl). unfold all_nodes in *. apply in_flat_map in IH.
    destruct IH as (k0 & Hk0 & H). apply in_flat_map. exists k0. split; [exact Hk0|].
    eapply rl_nodes_of_down; eassumption.
Qed.

(* well-formedness and the uniqueness of relocation names reach every node *)
Lemma rl_at_ok s pcur pl n : rl_inv s -> rl_at s pcur pl n -> rl_ok n /\ NoDup (mnames_n n).
Proof.
  intros [Ik _ Im _ _ _]. induction 1 as [k Hk|pcur pl i r e d m ks k A IH Hk].
  - split; [rewrite Forall_forall in Ik; apply Ik; exact Hk|].
    destruct (in_split _ _ Hk) as (a & b & E). rewrite E, rl_mnames_app, rl_mnames_cons in Im.
    apply rl_NoDup_app_inv in Im. destruct Im as (_ & Im & _).
    apply rl_NoDup_app_inv in Im. tauto.
  - destruct IH as [Ok M]. inversion Ok as [? ? ? ? ? ? _ _ _ _ Fs|]; subst.
    split; [rewrite Forall_forall in Fs; apply Fs; exact Hk|].
    cbn [mnames_n] in M. fold (mnames ks) in M. apply rl_NoDup_app_inv in M. destruct M as (_ & M & _).
    destruct (in_split _ _ Hk) as (a & b & E). rewrite E, rl_mnames_app, rl_mnames_cons in M.
    apply rl_NoDup_app_inv in M. destruct M as (_ & M & _). apply rl_NoDup_app_inv in M. tauto.
Qed.

Lemma rl_at_kids_mnames s pcur pl i r e d m ks : rl_inv s -> rl_at s pcur pl (Dir i r e d m ks) ->
  NoDup (mnames ks).
Proof.
  intros I A. destruct (rl_at_ok _ _ _ _ I A) as [_ M]. cbn [mnames_n] in M. fold (mnames ks) in M.
  apply rl_NoDup_app_inv in M. tauto.
Qed.

(* two children that carry the same relocation name are the same child *)
Lemma rl_same_mname ks : NoDup (mnames ks) -> forall k1 k2 mn, In k1 ks -> In k2 ks ->
  In mn (mnames_n k1) -> In mn (mnames_n k2) -> k1 = k2.
Proof.
  induction ks as [|h t IH]; intros M k1 k2 mn H1 H2 I1 I2; [destruct H1|].
  rewrite rl_mnames_cons in M. destruct (rl_NoDup_app_inv _ _ M) as (_ & Mt & Md).
  destruct H1 as [<-|H1], H2 as [<-|H2].
  - reflexivity.
  - exfalso. apply (Md mn I1). apply (rl_mnames_in _ _ H2). exact I2.
  - exfalso. apply (Md mn I2). apply (rl_mnames_in _ _ H1). exact I1.
  - eapply IH; eassumption.
Qed.

(* every relocation name of the state belongs to a node of the state *)
Lemma rl_mnames_node n : forall pcur pl mn, In mn (mnames_n n) ->
  exists pc' pl' i r e d ks, In (pc', pl', Dir i r e d (Some mn) ks) (nodes_of pcur pl n).
Proof.
  induction n as [i r e d m ks IH|sy i r] using rl_node_ind; intros pcur pl mn H; [|destruct H].
  cbn [mnames_n] in H. apply in_app_or in H. destruct H as [H|H].
  - destruct m as [mn0|]; [|destruct H]. destruct H as [<-|[]].
    exists pcur, pl, i, r, e, d, ks. left. reflexivity.
  - apply in_flat_map in H. destruct H as (k & Hk & H). rewrite Forall_forall in IH.
    destruct (IH k Hk (self_path pcur (Dir i r e d m ks)) e mn H) as (pc' & pl' & i' & r' & e' & d' & ks' & Hin).
    exists pc', pl', i', r', e', d', ks'. right. apply in_flat_map. exists k. split; assumption.
Qed.

Lemma rl_nodes_mnames n : forall pcur pl pc' pl' i r e d mn ks,
  In (pc', pl', Dir i r e d (Some mn) ks) (nodes_of pcur pl n) -> In mn (mnames_n n).
Proof.
  induction n as [i0 r0 e0 d0 m0 ks0 IH|sy i0 r0] using rl_node_ind;
    intros pcur pl pc' pl' i r e d mn ks H; [|destruct H].
  cbn [nodes_of] in H. cbn [mnames_n]. apply in_or_app. destruct H as [H|H].
  - injection H as _ _ _ _ _ _ -> _. left. left. reflexivity.
  - right. apply in_flat_map in H. destruct H as (k & Hk & H). apply in_flat_map. exists k.
    split; [exact Hk|]. rewrite Forall_forall in IH. eapply IH; eassumption.
Qed.

Lemma rl_all_nodes_mnames s pc pl i r e d mn ks :
  In (pc, pl, Dir i r e d (Some mn) ks) (all_nodes s) -> In mn (mnames (s_kids s)).
Proof.
  unfold all_nodes, mnames. intros H. apply in_flat_map in H. destruct H as (k & Hk & H).
  apply in_flat_map. exists k. split; [exact Hk|]. eapply rl_nodes_mnames. exact H.
Qed.

(* ---- sorted insertion of records keeps the members ----------------------------------------- *)
Lemma rl_in_ins_rec r a l : In r (ins_rec a l) <-> r = a \/ In r l.
Proof.
  induction l as [|h l IH]; cbn [ins_rec]; [cbn; intuition congruence|].
  destruct (nlt (r_iso h) (r_iso a)); cbn [In]; [rewrite IH|]; intuition congruence.
Qed.

Lemma rl_in_sort_recs r l : In r (fold_right ins_rec [] l) <-> In r l.
Proof.
  induction l as [|h l IH]; cbn [fold_right]; [tauto|]. rewrite rl_in_ins_rec, IH. cbn [In].
  intuition congruence.
Qed.

(* ---- which records a directory of the image holds ------------------------------------------ *)
Section Image.
Variables (sz : ppath -> Z) (start : Z) (s : state).
Hypothesis Hsz : forall x, 1 <= sz x.
Hypothesis Hinv : rl_inv s.

Let E := ext_of sz start s.
Let im := view sz start s.

(* the three kinds of directories of the image *)
Lemma rl_im_cases e recs : In (e, recs) im ->
  (e = E [] /\ recs = snd (root_entry E s)) \/
  (moved_live s = true /\ e = E [moved_name] /\ In ([moved_name], recs) (moved_entry E s)) \/
  (exists x, In x (all_nodes s) /\ e = E (node_path x) /\ recs = snd (entry E (moved_ent s) x)).
Proof.
  unfold im, view. intros H. apply in_map_iff in H. destruct H as ([p rc] & H & Hin).
  cbn [fst snd] in H. injection H as <- <-. unfold phys in Hin. destruct Hin as [Hin|Hin].
  - left. unfold root_entry in Hin. injection Hin as <- <-. split; reflexivity.
  - apply in_app_or in Hin. destruct Hin as [Hin|Hin].
    + right; left. unfold moved_entry in *. destruct (moved_live s); [|destruct Hin].
      destruct Hin as [Hin|[]]. injection Hin as <- <-. repeat split. left. reflexivity.
    + right; right. apply in_map_iff in Hin. destruct Hin as (x & Hx & Hin). exists x.
      split; [exact Hin|]. pose proof (rl_entry_fst sz start s (moved_ent s) x) as Ef.
      unfold E in *. rewrite Hx in Ef |- *. cbn [fst snd] in *. subst p. split; reflexivity.
Qed.

Lemma rl_moved_recs_in r : In r (moved_recs E s) ->
  exists pc pl i rr e d mn ks, In (pc, pl, Dir i rr e d (Some mn) ks) (all_nodes s) /\
    r = mkRec mn rr true false true e (E [moved_name; mn]) None None.
Proof.
  unfold moved_recs. rewrite rl_in_sort_recs. intros H. apply in_flat_map in H.
  destruct H as ([[pc pl] n] & Hx & H). cbn [snd] in H.
  destruct n as [i rr e d [mn|] ks|]; cbn [moved_rec] in H; [|destruct H|destruct H].
  destruct H as [<-|[]]. exists pc, pl, i, rr, e, d, mn, ks. split; [exact Hx|reflexivity].
Qed.

Lemma rl_moved_recs_of pc pl i rr e d mn ks : In (pc, pl, Dir i rr e d (Some mn) ks) (all_nodes s) ->
  In (mkRec mn rr true false true e (E [moved_name; mn]) None None) (moved_recs E s).
Proof.
  intros H. unfold moved_recs. rewrite rl_in_sort_recs. apply in_flat_map.
  exists (pc, pl, Dir i rr e d (Some mn) ks). split; [exact H|left; reflexivity].
Qed.

(* something is relocated => RR_MOVED exists *)
Lemma rl_live_of_node pc pl i rr e d mn ks :
  In (pc, pl, Dir i rr e d (Some mn) ks) (all_nodes s) -> moved_live s = true.
Proof.
  intros H. apply rl_all_nodes_mnames in H. destruct Hinv as [_ _ _ _ _ Imv]. unfold moved_live.
  destruct (s_moved s); [reflexivity|]. rewrite Imv in H. destruct H.
Qed.

Lemma rl_moved_lookup : moved_live s = true ->
  lookup im (E [moved_name]) =
  Some (mkRec dot_name [] true false false (moved_dot s) (E [moved_name]) None None ::
        mkRec dotdot_name [] true false false (s_dot s) (E []) None None :: moved_recs E s).
Proof.
  intros L. apply (rl_im_lookup sz start s Hsz Hinv). unfold phys, moved_entry. rewrite L.
  right. left. reflexivity.
Qed.

(* a record with CL is the placeholder of a relocated child of that directory *)
Lemma rl_cl_record e recs r c : In (e, recs) im -> In r recs -> r_cl r = Some c ->
  exists pcur pl k i rr en d mn ks, k = Dir i rr en d (Some mn) ks /\
    rl_at s pcur pl k /\ e = E pcur /\ r = kid_rec E pcur k /\ c = E [moved_name; mn].
Proof.
  intros Hin Hr Hc. destruct (rl_im_cases _ _ Hin) as [[-> ->]|[(L & -> & Hm)|(x & Hx & -> & ->)]].
  - cbn [root_entry snd] in Hr. destruct Hr as [<-|[<-|Hr]]; try discriminate.
    assert (Hk : In r (map (kid_rec E []) (s_kids s))).
    { destruct (moved_live s); [|exact Hr]. apply rl_in_ins_rec in Hr. destruct Hr as [->|Hr]; [discriminate|exact Hr]. }
    apply in_map_iff in Hk. destruct Hk as (k & <- & Hk).
    destruct k as [i rr en d [mn|] ks|]; cbn [kid_rec r_cl] in Hc; try discriminate. injection Hc as <-.
    exists [], (s_dot s), (Dir i rr en d (Some mn) ks), i, rr, en, d, mn, ks.
    repeat split. constructor. exact Hk.
  - unfold moved_entry in Hm. rewrite L in Hm. destruct Hm as [Hm|[]]. injection Hm as <-.
    destruct Hr as [<-|[<-|Hr]]; try discriminate.
    destruct (rl_moved_recs_in _ Hr) as (? & ? & ? & ? & ? & ? & ? & ? & _ & ->). discriminate.
  - destruct (rl_all_nodes_at _ _ Hx) as [A D]. destruct x as [[pcur pl] n]. cbn [fst snd] in *.
    destruct n as [i0 r0 e0 d0 m0 ks0|]; [|discriminate].
    destruct (rl_entry_shape sz start s pcur pl i0 r0 e0 d0 m0 ks0) as (par & ddl & plv & Es).
    fold E in Es. rewrite Es in Hr. unfold dir_recs in Hr. destruct Hr as [<-|[<-|Hr]]; try discriminate.
    apply in_map_iff in Hr. destruct Hr as (k & <- & Hk).
    destruct k as [i rr en d [mn|] ks|]; cbn [kid_rec r_cl] in Hc; try discriminate. injection Hc as <-.
    exists (self_path pcur (Dir i0 r0 e0 d0 m0 ks0)), e0, (Dir i rr en d (Some mn) ks), i, rr, en, d, mn, ks.
    repeat split. eapply rl_at_kid; eassumption.
Qed.

(* a record with RE is the record of a relocated directory inside RR_MOVED *)
Lemma rl_re_record e recs r : In (e, recs) im -> In r recs -> r_re r = true ->
  e = E [moved_name] /\ In r (moved_recs E s).
Proof.
  intros Hin Hr Hre. destruct (rl_im_cases _ _ Hin) as [[-> ->]|[(L & -> & Hm)|(x & Hx & -> & ->)]].
  - cbn [root_entry snd] in Hr. destruct Hr as [<-|[<-|Hr]]; try discriminate.
    assert (Hk : In r (map (kid_rec E []) (s_kids s))).
    { destruct (moved_live s); [|exact Hr]. apply rl_in_ins_rec in Hr. destruct Hr as [->|Hr]; [discriminate|exact Hr]. }
    apply in_map_iff in Hk. destruct Hk as (k & <- & Hk).
    destruct k as [i rr en d [mn|] ks|]; discriminate.
  - unfold moved_entry in Hm. rewrite L in Hm. destruct Hm as [Hm|[]]. injection Hm as <-.
    split; [reflexivity|]. destruct Hr as [<-|[<-|Hr]]; try discriminate. exact Hr.
  - destruct x as [[pcur pl] n]. destruct n as [i0 r0 e0 d0 m0 ks0|]; [|destruct Hr].
    destruct (rl_entry_shape sz start s pcur pl i0 r0 e0 d0 m0 ks0) as (par & ddl & plv & Es).
    fold E in Es. rewrite Es in Hr. unfold dir_recs in Hr. destruct Hr as [<-|[<-|Hr]]; try discriminate.
    apply in_map_iff in Hr. destruct Hr as (k & <- & Hk).
    destruct k as [i rr en d [mn|] ks|]; discriminate.
Qed.
End Image.
