(* Master, part 2: the image as a finite map from extents to blocks.
     ms_img_read_chunk   when the chunks of an image do not overlap, reading [len] bytes at the
                         first extent of a chunk of exactly [len] bytes (a multiple of the block
                         size) returns that chunk, wherever it sits in the list *)
From Coq Require Import ZArith List Bool Lia ZifyBool.
From PV.Base Require Import Prim ListX.
From PV.Gen Require Import GenConst GenFun.
From PV.Model Require Import Codec Pack PathTable Master.
From PV.Proofs Require Import MasterPack.
Import ListNotations.
Local Open Scope Z_scope.
Ltac Zify.zify_post_hook ::= Z.to_euclidean_division_equations.

(* number of blocks a chunk covers *)
Definition ms_cblocks (c : Z * list Z) : Z := zlen (snd c) / BS.

Definition ms_disjoint (a b : Z * list Z) : Prop :=
  fst a + ms_cblocks a <= fst b \/ fst b + ms_cblocks b <= fst a.

(* any two chunks are the same chunk or do not overlap *)
Definition ms_img_ok (img : image) : Prop :=
  forall c1 c2, In c1 img -> In c2 img -> c1 = c2 \/ ms_disjoint c1 c2.

Lemma ms_img_ok_tail c img : ms_img_ok (c :: img) -> ms_img_ok img.
Proof. intros H c1 c2 H1 H2. apply H; right; assumption. Qed.

Lemma ms_get_block_in img : ms_img_ok img -> forall e0 bs e, In (e0, bs) img ->
  e0 <= e < e0 + zlen bs / BS ->
  ms_get_block img e = Some (firstn (Z.to_nat BS) (skipn (Z.to_nat ((e - e0) * BS)) bs)).
Proof.
  induction img as [|[e1 b1] img IH]; intros Hok e0 bs e Hin He; [destruct Hin|].
  cbn [ms_get_block].
  destruct ((e1 <=? e) && (e <? e1 + zlen b1 / BS)) eqn:E.
  - destruct (Hok (e1, b1) (e0, bs) (or_introl eq_refl) Hin) as [Heq|Hd].
    + injection Heq as -> ->. reflexivity.
    + exfalso. unfold ms_disjoint, ms_cblocks in Hd. cbn [fst snd] in Hd. lia.
  - destruct Hin as [Heq|Hin].
    + injection Heq as -> ->. exfalso. lia.
    + apply IH; [exact (ms_img_ok_tail _ _ Hok)|exact Hin|exact He].
Qed.

Lemma ms_read_blocks_chunk img e0 bs (k : nat) : ms_img_ok img -> In (e0, bs) img ->
  length bs = (k * 2048)%nat ->
  forall m j, (j + m = k)%nat ->
  ms_read_blocks img (e0 + Z.of_nat j) m = Some (skipn (j * 2048) bs).
Proof.
  intros Hok Hin Hlen. induction m as [|m IH]; intros j Hj.
  - cbn [ms_read_blocks]. rewrite skipn_all2 by lia. reflexivity.
  - cbn [ms_read_blocks].
    rewrite (ms_get_block_in img Hok e0 bs (e0 + Z.of_nat j) Hin).
    2:{ unfold zlen. rewrite Hlen, ms_BS. lia. }
    replace (e0 + Z.of_nat j + 1) with (e0 + Z.of_nat (S j)) by lia.
    rewrite (IH (S j)) by lia.
    replace (Z.to_nat ((e0 + Z.of_nat j - e0) * BS)) with (j * 2048)%nat by (rewrite ms_BS; lia).
    replace (S j * 2048)%nat with (j * 2048 + 2048)%nat by lia.
    rewrite <- skipn_skipn. change (Z.to_nat BS) with 2048%nat.
    rewrite firstn_skipn. reflexivity.
Qed.

Theorem ms_img_read_chunk img e0 bs : ms_img_ok img -> In (e0, bs) img ->
  zlen bs mod BS = 0 -> ms_img_read img e0 (zlen bs) = Some bs.
Proof.
  intros Hok Hin Hmod. unfold ms_img_read.
  assert (Hk : exists k, length bs = (k * 2048)%nat).
  { exists (Z.to_nat (zlen bs / 2048)). unfold zlen in *. rewrite ms_BS in Hmod. lia. }
  destruct Hk as [k Hk].
  replace (Z.to_nat (ceiling_div (zlen bs) BS)) with k.
  2:{ unfold ceiling_div, zlen. rewrite Hk, ms_BS. lia. }
  pose proof (ms_read_blocks_chunk img e0 bs k Hok Hin Hk k 0%nat eq_refl) as H.
  rewrite Z.add_0_r in H. rewrite H. cbn [Nat.mul skipn].
  rewrite firstn_all2; [reflexivity|]. unfold zlen. lia.
Qed.

Print Assumptions ms_img_read_chunk.
