(* MasterJoliet, part 2: the directory extents of ONE hierarchy of an ISO9660+Joliet image (mj_area), for
   any hierarchy [t] that is mj_tree_ok, any first extent [start] and any placement of the file data
   whose extents and lengths fit 32 bits.  Used twice: t = njol s (the Joliet area) and t = niso s.
     mj_dext_spec / mj_dext_range   a directory: its record of the walk, its extent in range
     mj_dir_recs_good    the records of a directory all encode; Codec decodes each of them back
     mj_chunk_facts      a chunk is data_length bytes, whole blocks, and scans back to its records
     mj_area_some        mj_area does not fail
     mj_positions_*      the written directories are exactly the directory positions, once each
     mj_chunks_disjoint / mj_area_img_ok   chunks of different directories do not overlap
     mj_area_read_in     reading (extent, data_length) of a directory returns its chunk *)
From Coq Require Import ZArith List Bool Lia ZifyBool.
From PV.Base Require Import Prim ListX.
From PV.Gen Require Import GenConst GenFun.
From PV.Model Require Import Codec Pack PathTable Master MasterJoliet.
From PV.Model Require Alloc Account AccountLinks AccountNs.
From PV.Proofs Require Import CodecProofs PackProofs PathTableLemmas PathTableProofs.
From PV.Proofs Require AccountLemmas.
From PV.Proofs Require Import MasterPack MasterImage MasterBfs MasterWf MasterJolietWf.
Import ListNotations.
Local Open Scope Z_scope.
Ltac Zify.zify_post_hook ::= Z.to_euclidean_division_equations.

Section Dir.
  Set Default Proof Using "All".
  Variable dt : list Z.
  Hypothesis Hdt : length dt = 7%nat.
  Variable s : nstate.
  Variable t : lnode.
  Variable start : Z.
  Hypothesis Hroot : mj_root_ok t = true.
  Hypothesis Hok : mj_tree_ok t = true.
  Hypothesis Hstart : 0 <= start.
  Hypothesis Hend : assign_end start (mj_dtree t) <= 4294967296.
  Hypothesis Hfext : forall i, 0 <= mj_fext s i <= 4294967295.
  Hypothesis Hlen : forall i, 0 <= mj_ino_len s i <= 4294967295.

  Local Notation DB := (bfs start (mj_dtree t)).
  Local Notation chunk := (mj_chunk dt s t DB).

  Lemma mj_root_node : exists dl kids, t = LDir [0] dl kids.
  Proof.
    destruct t as [nm i st|nm dl kids]; [discriminate|]. cbn [mj_root_ok] in Hroot.
    apply AccountLemmas.bytes_eqb_eq in Hroot. subst nm. exists dl, kids. reflexivity.
  Qed.

  Lemma mj_root_is_dir : mj_is_dir_at t [] = true.
  Proof. destruct mj_root_node as (dl & kids & ->). reflexivity. Qed.

  (* ---- extents ------------------------------------------------------------------------------------ *)

  Lemma mj_dext_spec p nm dl kids : mj_node_at t p = Some (LDir nm dl kids) ->
    exists r, In r DB /\ d_pos r = p /\ ms_ext_at DB p = d_extent r /\
              d_blocks r = ceiling_div dl BS.
  Proof.
    intros H.
    destruct (ms_ext_at_spec start (mj_dtree t) p (mj_dtree (LDir nm dl kids)))
      as (r & Hr & Hp & He & _ & Hb).
    { rewrite mj_subtree_dtree, H. reflexivity. }
    exists r. repeat split; assumption.
  Qed.

  Lemma mj_dext_range p nm dl kids : mj_node_at t p = Some (LDir nm dl kids) ->
    start <= ms_ext_at DB p /\
    ms_ext_at DB p + dl / BS <= assign_end start (mj_dtree t) /\
    0 <= ms_ext_at DB p <= 4294967295 /\ dl mod BS = 0 /\ BS <= dl <= 4294967295.
  Proof.
    intros H. destruct (mj_dext_spec p nm dl kids H) as (r & Hr & _ & He & Hb).
    pose proof (ms_bfs_bounds _ _ r (mj_blocks_ok t Hok) Hr) as B.
    destruct (mj_ok_dir _ _ _ (mj_ok_at p t _ Hok H)) as (Hm & _ & Hr' & _).
    rewrite He, Hb in *. unfold ceiling_div in B. rewrite ms_BS in *. lia.
  Qed.

  (* ---- records ------------------------------------------------------------------------------------ *)

  Lemma mj_kid_rec_good p nm dl kids j c :
    mj_node_at t p = Some (LDir nm dl kids) -> nth_error kids j = Some c ->
    exists b, enc_dr (mj_kid_rec dt s DB (p ++ [j]) c) = Some b /\
              ms_good (mj_kid_rec dt s DB (p ++ [j]) c) b /\
              zlen b = Account.dr_len_of (lname c).
  Proof.
    intros Hp Hj. pose proof (mj_ok_kid _ _ _ _ _ (mj_ok_at p t _ Hok Hp) Hj) as Hk.
    pose proof (mj_ok_name c Hk) as Hn.
    assert (Hc : mj_node_at t (p ++ [j]) = Some c).
    { rewrite (mj_node_at_snoc p j t _ Hp). exact Hj. }
    destruct c as [n i st|n dl' kids']; cbn [mj_kid_rec AccountLinks.lname] in *.
    - apply ms_rec_good; [exact Hdt|apply Hfext|apply Hlen|lia|exact Hn].
    - destruct (mj_dext_range _ n dl' kids' Hc) as (_ & _ & He & _ & Hd).
      apply ms_rec_good; [exact Hdt|exact He|rewrite ms_BS in Hd; lia|lia|exact Hn].
  Qed.

  Lemma mj_kid_recs_good p nm dl kids : mj_node_at t p = Some (LDir nm dl kids) ->
    forall kids' j0, (forall i c, nth_error kids' i = Some c -> nth_error kids (j0 + i) = Some c) ->
    Forall2 ms_good (mj_kid_recs dt s DB p j0 kids') (map ms_enc (mj_kid_recs dt s DB p j0 kids')) /\
    map zlen (map ms_enc (mj_kid_recs dt s DB p j0 kids'))
      = map Account.dr_len_of (map lname kids') /\
    forallb ms_enc_ok (mj_kid_recs dt s DB p j0 kids') = true.
  Proof.
    intros Hp. induction kids' as [|c kids' IH]; intros j0 Hsub.
    - cbn. repeat split. constructor.
    - cbn [mj_kid_recs map forallb].
      destruct (mj_kid_rec_good p nm dl kids j0 c Hp) as (b & He & Hg & Hl).
      { specialize (Hsub 0%nat c eq_refl). rewrite Nat.add_0_r in Hsub. exact Hsub. }
      destruct (ms_enc_of _ _ He) as [E1 E2]. rewrite E1, E2.
      destruct (IH (S j0)) as (I1 & I2 & I3).
      { intros i c' Hi. specialize (Hsub (S i) c' Hi).
        replace (S j0 + i)%nat with (j0 + S i)%nat by lia. exact Hsub. }
      split; [constructor; assumption|]. split; [rewrite I2, Hl; reflexivity|exact I3].
  Qed.

  Lemma mj_dir_recs_eq p nm dl kids : mj_node_at t p = Some (LDir nm dl kids) ->
    mj_dir_recs dt s t DB p =
      ms_rec dt (ms_ext_at DB p) dl 2 [0]
      :: ms_rec dt (ms_ext_at DB (removelast p)) (mj_dlen_at t (removelast p)) 2 [1]
      :: mj_kid_recs dt s DB p 0 kids.
  Proof. intros Hp. unfold mj_dir_recs. rewrite Hp. reflexivity. Qed.

  Lemma mj_parent_facts p c : mj_node_at t p = Some c ->
    exists nm dl kids, mj_node_at t (removelast p) = Some (LDir nm dl kids) /\
                       mj_dlen_at t (removelast p) = dl.
  Proof.
    intros Hp. pose proof (mj_parent_dir t p c mj_root_is_dir Hp) as H.
    destruct (mj_is_dir_node _ _ H) as (nm & dl & kids & Hn).
    exists nm, dl, kids. split; [exact Hn|apply (mj_dlen_at_dir _ _ _ _ _ Hn)].
  Qed.

  Theorem mj_dir_recs_good p nm dl kids : mj_node_at t p = Some (LDir nm dl kids) ->
    let rs := mj_dir_recs dt s t DB p in
    Forall2 ms_good rs (map ms_enc rs) /\
    map zlen (map ms_enc rs) = 34 :: 34 :: map Account.dr_len_of (map lname kids) /\
    forallb ms_enc_ok rs = true.
  Proof.
    intros Hp rs. unfold rs. rewrite (mj_dir_recs_eq p nm dl kids Hp).
    destruct (mj_parent_facts p _ Hp) as (nm' & dl' & kids' & Hpar & Hdl'). rewrite Hdl'.
    destruct (mj_dext_range p nm dl kids Hp) as (_ & _ & He & _ & Hr).
    destruct (mj_dext_range _ nm' dl' kids' Hpar) as (_ & _ & He' & _ & Hr').
    rewrite ms_BS in Hr, Hr'.
    destruct (ms_rec_good dt (ms_ext_at DB p) dl 2 [0] Hdt) as (b1 & E1 & G1 & L1);
      [exact He|lia|lia|vm_compute; split; discriminate|].
    destruct (ms_rec_good dt (ms_ext_at DB (removelast p)) dl' 2 [1] Hdt) as (b2 & E2 & G2 & L2);
      [exact He'|lia|lia|vm_compute; split; discriminate|].
    destruct (mj_kid_recs_good p nm dl kids Hp kids 0%nat) as (I1 & I2 & I3); [intros i c Hi; exact Hi|].
    cbn [map forallb]. destruct (ms_enc_of _ _ E1) as [-> ->]. destruct (ms_enc_of _ _ E2) as [-> ->].
    split; [constructor; [exact G1|constructor; [exact G2|exact I1]]|].
    split; [rewrite L1, L2, I2; reflexivity|exact I3].
  Qed.

  (* ---- chunks ------------------------------------------------------------------------------------- *)

  Theorem mj_chunk_facts p nm dl kids : mj_node_at t p = Some (LDir nm dl kids) ->
    fst (chunk p) = ms_ext_at DB p /\ zlen (snd (chunk p)) = dl /\ dl mod BS = 0 /\ BS <= dl /\
    ms_cblocks (chunk p) = ceiling_div dl BS /\
    ms_scan (S (length (snd (chunk p)))) (snd (chunk p)) 0 = Some (mj_dir_recs dt s t DB p).
  Proof.
    intros Hp. destruct (mj_dir_recs_good p nm dl kids Hp) as (HG & HL & _).
    destruct (mj_ok_dir _ _ _ (mj_ok_at p t _ Hok Hp)) as (Hm & Hn & Hr & _).
    unfold mj_chunk. cbn [fst snd]. rewrite (mj_dlen_at_dir _ _ _ _ _ Hp).
    assert (Hsz : Forall (fun x => zlen x <= BS) (map ms_enc (mj_dir_recs dt s t DB p))).
    { clear -HG. induction HG as [|r x rs bs (_ & _ & Hl) _ IH]; constructor; [lia|exact IH]. }
    rewrite <- HL in Hn.
    pose proof (ms_dir_bytes_len dl _ Hsz Hn) as Hlen'.
    split; [reflexivity|]. split; [exact Hlen'|]. split; [exact Hm|]. split; [lia|]. split.
    - unfold ms_cblocks. cbn [snd]. rewrite Hlen'. unfold ceiling_div. rewrite ms_BS in *. lia.
    - apply ms_scan_dir; assumption.
  Qed.

  (* ---- the written directories ---------------------------------------------------------------------- *)

  Lemma mj_positions_dir p : In p (mj_dir_positions t) -> mj_is_dir_at t p = true.
  Proof. unfold mj_dir_positions. intros H. apply filter_In in H. exact (proj2 H). Qed.

  Lemma mj_positions_complete p : mj_is_dir_at t p = true -> In p (mj_dir_positions t).
  Proof.
    intros H. unfold mj_dir_positions. apply filter_In. split; [|exact H].
    rewrite (write_order_is_bfs start).
    destruct (mj_is_dir_node _ p H) as (nm & dl & kids & Hp).
    destruct (ms_bfs_complete start (mj_dtree t) p (mj_dtree (LDir nm dl kids)))
      as (r & Hr & Hpos); [rewrite mj_subtree_dtree, Hp; reflexivity|].
    rewrite <- Hpos. apply in_map. exact Hr.
  Qed.

  Lemma mj_positions_nodup : NoDup (mj_dir_positions t).
  Proof.
    unfold mj_dir_positions. apply NoDup_filter.
    rewrite (write_order_is_bfs start). apply ms_bfs_nodup.
  Qed.

  Theorem mj_area_some : mj_area dt s start t = Some (map chunk (mj_dir_positions t)).
  Proof.
    unfold mj_area. cbv zeta.
    replace (forallb _ (mj_dir_positions t)) with true; [reflexivity|].
    symmetry. apply forallb_forall. intros p Hp.
    destruct (mj_is_dir_node _ p (mj_positions_dir p Hp)) as (nm & dl & kids & Hn).
    exact (proj2 (proj2 (mj_dir_recs_good p nm dl kids Hn))).
  Qed.

  (* ---- chunks of different directories do not overlap ----------------------------------------------- *)

  Lemma mj_chunks_disjoint p1 p2 : mj_is_dir_at t p1 = true -> mj_is_dir_at t p2 = true ->
    p1 <> p2 -> ms_disjoint (chunk p1) (chunk p2).
  Proof.
    intros H1 H2 Hne.
    destruct (mj_is_dir_node _ p1 H1) as (n1 & d1 & k1 & N1).
    destruct (mj_is_dir_node _ p2 H2) as (n2 & d2 & k2 & N2).
    destruct (mj_chunk_facts p1 n1 d1 k1 N1) as (F1 & _ & _ & _ & C1 & _).
    destruct (mj_chunk_facts p2 n2 d2 k2 N2) as (F2 & _ & _ & _ & C2 & _).
    destruct (mj_dext_spec p1 n1 d1 k1 N1) as (r1 & R1 & P1 & E1 & B1).
    destruct (mj_dext_spec p2 n2 d2 k2 N2) as (r2 & R2 & P2 & E2 & B2).
    unfold ms_disjoint. rewrite F1, F2, C1, C2, E1, E2, <- B1, <- B2.
    apply (ms_bfs_disjoint _ _ r1 r2 (mj_blocks_ok t Hok) R1 R2). congruence.
  Qed.

  (* every chunk lies inside [start, end of the walk) *)
  Lemma mj_chunk_inside p : mj_is_dir_at t p = true ->
    start <= fst (chunk p) /\ fst (chunk p) + ms_cblocks (chunk p) <= assign_end start (mj_dtree t) /\
    0 < ms_cblocks (chunk p) /\ zlen (snd (chunk p)) = ms_cblocks (chunk p) * BS.
  Proof.
    intros H. destruct (mj_is_dir_node _ p H) as (nm & dl & kids & Hn).
    destruct (mj_chunk_facts p nm dl kids Hn) as (F & L & M & G & Cb & _).
    destruct (mj_dext_range p nm dl kids Hn) as (R1 & R2 & _).
    rewrite F, Cb, L. unfold ceiling_div. rewrite ms_BS in *. repeat split; lia.
  Qed.

  Theorem mj_area_img_ok : ms_img_ok (map chunk (mj_dir_positions t)).
  Proof.
    intros c1 c2 H1 H2. apply in_map_iff in H1. apply in_map_iff in H2.
    destruct H1 as (p1 & <- & P1). destruct H2 as (p2 & <- & P2).
    destruct (list_eq_dec Nat.eq_dec p1 p2) as [->|Hne]; [left; reflexivity|right].
    apply mj_chunks_disjoint; [apply mj_positions_dir; exact P1|apply mj_positions_dir; exact P2|exact Hne].
  Qed.

  (* ---- reading a directory's extent returns its chunk, in ANY image that contains the chunks and
          whose chunks do not overlap (the whole medium) ------------------------------------------------ *)
  Theorem mj_area_read_in img' p nm dl kids : ms_img_ok img' ->
    incl (map chunk (mj_dir_positions t)) img' ->
    mj_node_at t p = Some (LDir nm dl kids) ->
    ms_img_read img' (ms_ext_at DB p) dl = Some (snd (chunk p)).
  Proof.
    intros Hiok Hincl Hp. destruct (mj_chunk_facts p nm dl kids Hp) as (F & L & M & _).
    rewrite <- F, <- L. apply ms_img_read_chunk; [exact Hiok| |rewrite L; exact M].
    apply Hincl. rewrite <- surjective_pairing. apply in_map. apply mj_positions_complete.
    unfold mj_is_dir_at. rewrite Hp. reflexivity.
  Qed.
End Dir.

Print Assumptions mj_dir_recs_good.
Print Assumptions mj_area_some.
Print Assumptions mj_area_img_ok.
Print Assumptions mj_area_read_in.
