(* Proofs about Model/Hybrid.v, part 1: geometry (_calc_cc, CHS), the MBR written by
   IsoHybrid.record / read by IsoHybrid.parse, and the APM entry.  The GPT is in HybridGptProofs.v.

   Main results
     cc_range                  0 < iso_size -> 1 <= cc <= 1024  (cc = 0 for the empty image: cc_zero_size)
     record_padding_aligned    iso_size + len(record_padding) is a multiple of heads*sectors*512 (and of 512)
     psize_when_not_clamped    psize = padded_size/512 - part_offset when (padded/cylsize) <= 1024
     psize_when_clamped        else cc = 1024, CHS end saturates (sectors+192, 255), psize is TOO SMALL
     psize_clamped_refuted     witness 64/32 geometry, 1 GiB + 1 byte
     chs_end_decodes           CHS end bytes decode to (cc-1, heads-1, sectors) for cc 1..1024, heads 1..256, sectors 1..63
     mbr_length mbr_layout mbr_active_entry_plain   512 bytes, 55 AA, entry k at 446+16(k-1), others zero
     mbr_roundtrip             parse(record(h) ++ rest) = h with geometry_sectors := parsed_sectors h iso
     mbr_roundtrip_exact       = h when part_offset = 0 and 1 <= cc <= 256
     mbr_roundtrip_refuted     (a) cc > 256 -> sectors 63 not 32; (b) part_offset 16 -> 31 not 32;
                               (c) efi & part_entry = 2 -> no active entry, parse raises
                               all three reproduced on the real library:
         h=IsoHybrid(); h.new(False,False,1,1,0,32,64,0); r=h.record(600*2**20); h2=IsoHybrid(); h2.parse(r); h2.geometry_sectors == 63
         h.new(False,False,1,1,16,32,64,0x17); record(5*2**20) -> parsed geometry_sectors == 31
         h.new(True,False,2,1,0,32,64,0); record(5*2**20) -> parse: PyCdlibInvalidISO 'No valid partition found in IsoHybrid!'
     apm_record_length apm_roundtrip
   All closed under the global context (Print Assumptions at the end). *)
From Coq Require Import ZArith List Bool Lia ZifyBool.
From PV.Base Require Import Prim Sweep ListX.
From PV.Gen Require Import GenConst GenFun.
From PV.Model Require Import Codec Hybrid.
From PV.Proofs Require Import ChecksumsProofs ChecksumsArithProofs CodecProofs.
Import ListNotations.
Local Open Scope Z_scope.
Ltac Zify.zify_post_hook ::= Z.to_euclidean_division_equations.

(* ---- helpers ---- *)
Ltac zeqb_closed :=
  repeat match goal with
  | |- context [Z.eqb (Zpos ?a) (Zpos ?b)] =>
      let v := eval compute in (Z.eqb (Zpos a) (Zpos b)) in change (Z.eqb (Zpos a) (Zpos b)) with v
  end.

Lemma zlist_eqb_refl l : zlist_eqb l l = true.
Proof. induction l as [|x l IH]; cbn; [reflexivity|rewrite Z.eqb_refl; exact IH]. Qed.
Lemma zlist_eqb_eq a b : zlist_eqb a b = true -> a = b.
Proof.
  revert b; induction a as [|x a IH]; intros [|y b] H; try discriminate; [reflexivity|].
  cbn in H. apply andb_prop in H. destruct H as [H1 H2]. apply Z.eqb_eq in H1. subst y.
  f_equal. apply IH; exact H2.
Qed.

Lemma slice_mid {A} (a b : Z) (pre x post : list A) :
  length pre = Z.to_nat a -> length x = Z.to_nat (b - a) -> slice a b (pre ++ x ++ post) = x.
Proof. intros H1 H2. unfold slice. rewrite <- H1, skipn_length_app, <- H2. apply firstn_length_app. Qed.

Lemma le64_length v : length (le64 v) = 8%nat. Proof. reflexivity. Qed.
Lemma le64_dle64 v : 0 <= v <= 18446744073709551615 -> dle64 (le64 v) = v.
Proof.
  intros Hv. unfold dle64, le64.
  change (firstn 4 (le32 (v mod 4294967296) ++ le32 (v / 4294967296))) with (le32 (v mod 4294967296)).
  change (skipn 4 (le32 (v mod 4294967296) ++ le32 (v / 4294967296))) with (le32 (v / 4294967296)).
  rewrite !le32_dle32 by (unfold u32; lia). lia.
Qed.

(* ---- 2. geometry ---- *)
Theorem cc_range h s size : 0 < h -> 0 < s -> 0 < size -> 1 <= fst (calc_cc h s size) <= 1024.
Proof.
  intros Hh Hs Hsz. pose proof (calc_cc_padding h s size Hh Hs ltac:(lia)) as H.
  destruct (calc_cc h s size) as [cc pad]. cbv zeta in H. destruct H as (Hp & Hm & Hcc). cbn [fst].
  assert (Hcyl : 0 < h * s * 512) by nia.
  remember (h * s * 512) as cyl eqn:Ecyl. clear Ecyl.
  assert (Hq : 1 <= (size + pad) / cyl).
  { apply Z.div_le_lower_bound; [lia|].
    apply Z.mod_divide in Hm; [|lia]. destruct Hm as [k Hk].
    assert (0 < k) by (destruct (Z_le_gt_dec k 0); [exfalso; nia|lia]). nia. }
  lia.
Qed.

(* cc = 0 exactly for the empty image *)
Lemma cc_zero_size h s : 0 < h -> 0 < s -> calc_cc h s 0 = (0, 0).
Proof.
  intros Hh Hs. rewrite calc_cc_unfold. cbv zeta. assert (0 < h * s * 512) by nia.
  rewrite Z.mod_0_l by lia. cbn [Z.gtb Z.compare]. rewrite Z.add_0_r, Z.div_0_l by lia. reflexivity.
Qed.

Theorem record_padding_aligned y iso : 0 < ih_heads y -> 0 < ih_sectors y -> 0 <= iso ->
  let cyl := ih_heads y * ih_sectors y * 512 in
  0 <= ih_padlen y iso < cyl /\ zlen (ih_record_padding y iso) = ih_padlen y iso /\
  (iso + zlen (ih_record_padding y iso)) mod cyl = 0 /\
  (iso + zlen (ih_record_padding y iso)) mod 512 = 0.
Proof.
  intros Hh Hs Hsz. pose proof (calc_cc_padding _ _ iso Hh Hs Hsz) as H.
  unfold ih_record_padding, ih_padlen.
  destruct (calc_cc (ih_heads y) (ih_sectors y) iso) as [cc pad]. cbv zeta in *. cbn [snd].
  destruct H as (Hp & Hm & _). rewrite zlen_repeat, Z2Nat.id by lia.
  split; [exact Hp|]. split; [reflexivity|]. split; [exact Hm|].
  apply Z.mod_divide in Hm; [|nia]. destruct Hm as [k Hk]. rewrite Hk.
  replace (k * (ih_heads y * ih_sectors y * 512)) with (k * ih_heads y * ih_sectors y * 512) by ring.
  apply Z.mod_mul. lia.
Qed.

(* psize is the true partition size (padded image in 512-byte sectors minus the offset) exactly
   when cc was not clamped; when it is clamped psize is strictly too small *)
Theorem psize_when_not_clamped y iso : 0 < ih_heads y -> 0 < ih_sectors y -> 0 <= iso ->
  (iso + ih_padlen y iso) / (ih_heads y * ih_sectors y * 512) <= 1024 ->
  ih_psize y iso = (iso + ih_padlen y iso) / 512 - ih_part_offset y.
Proof.
  intros Hh Hs Hsz Hsmall. pose proof (calc_cc_exact_when_small _ _ iso Hh Hs Hsz) as H.
  unfold ih_psize, ih_cc, ih_padlen in *.
  destruct (calc_cc (ih_heads y) (ih_sectors y) iso) as [cc pad]. cbv zeta in H. cbn [fst snd] in *.
  specialize (H Hsmall). rewrite <- H.
  replace (cc * (ih_heads y * ih_sectors y * 512)) with (cc * ih_heads y * ih_sectors y * 512) by ring.
  rewrite Z.div_mul by lia. reflexivity.
Qed.

Theorem psize_when_clamped y iso : 0 < ih_heads y -> 0 < ih_sectors y -> 0 <= iso ->
  1024 < (iso + ih_padlen y iso) / (ih_heads y * ih_sectors y * 512) ->
  ih_cc y iso = 1024 /\
  ih_psize y iso = 1024 * ih_heads y * ih_sectors y - ih_part_offset y /\
  ih_psize y iso < (iso + ih_padlen y iso) / 512 - ih_part_offset y /\
  chs_esect (ih_sectors y) (ih_cc y iso) = ih_sectors y + 192 /\ chs_ecyle (ih_cc y iso) = 255.
Proof.
  intros Hh Hs Hsz Hbig. pose proof (calc_cc_clamped _ _ iso Hh Hs Hsz) as H.
  pose proof (calc_cc_padding _ _ iso Hh Hs Hsz) as Hp.
  unfold ih_psize, ih_cc, ih_padlen in *.
  destruct (calc_cc (ih_heads y) (ih_sectors y) iso) as [cc pad]. cbv zeta in H, Hp. cbn [fst snd] in *.
  destruct (H Hbig) as [Hcc Hlt]. destruct Hp as (_ & Hm & _). subst cc.
  split; [reflexivity|]. split; [reflexivity|]. split; [|split; reflexivity].
  assert (Hhs : 0 < ih_heads y * ih_sectors y) by nia.
  apply Z.mod_divide in Hm; [|lia]. destruct Hm as [k Hk]. rewrite Hk in *.
  replace (k * (ih_heads y * ih_sectors y * 512)) with (k * (ih_heads y * ih_sectors y) * 512) by ring.
  rewrite Z.div_mul by lia.
  assert (1024 < k) by nia. nia.
Qed.

Theorem psize_clamped_refuted :
  exists y iso, 0 < ih_heads y /\ 0 < ih_sectors y /\ 0 <= iso /\
    ~ (ih_psize y iso = (iso + ih_padlen y iso) / 512 - ih_part_offset y).
Proof.
  exists (mk_ih [] [] 0 0 1 0 1 0 0 63 0 64 32 false 0 0 false 0 0), 1073741825.
  vm_compute. repeat split; try reflexivity; discriminate.
Qed.

(* CHS end bytes decode back to (cc-1, heads-1, sectors) *)
Definition chs_chk (c s : Z) : bool :=
  let cc := c + 1 in let sec := s + 1 in
  let '(cy, _, se) := chs_decode 0 (chs_esect sec cc) (chs_ecyle cc) in
  (cy =? cc - 1) && (se =? sec) && u8_ok (chs_esect sec cc) && u8_ok (chs_ecyle cc).
Lemma chs_sweep : sweep2 chs_chk 1024 63 = true.
Proof. vm_compute. reflexivity. Qed.

Theorem chs_end_decodes cc heads sectors :
  1 <= cc <= 1024 -> 1 <= heads <= 256 -> 1 <= sectors <= 63 ->
  chs_decode (heads - 1) (chs_esect sectors cc) (chs_ecyle cc) = (cc - 1, heads - 1, sectors) /\
  0 <= heads - 1 <= 255 /\ 0 <= chs_esect sectors cc <= 255 /\ 0 <= chs_ecyle cc <= 255.
Proof.
  intros Hc Hh Hs.
  pose proof (sweep2_sound _ _ _ chs_sweep (cc - 1) (sectors - 1) ltac:(lia) ltac:(lia)) as H.
  unfold chs_chk in H. cbv zeta in H. replace (cc - 1 + 1) with cc in H by lia.
  replace (sectors - 1 + 1) with sectors in H by lia.
  unfold chs_decode in *. unfold u8_ok in H. split; [|lia]. f_equal; [f_equal|]; lia.
Qed.

(* ---- 1. MBR: shape of the entries ---- *)
Lemma ih_part_raw_length y iso e : ih_part_raw y iso = Some e -> length e = 16%nat.
Proof.
  unfold ih_part_raw. cbv zeta. destruct (_ && _); [|discriminate].
  intros H; apply some_inv in H; subst e. reflexivity.
Qed.
Lemma ih_boot_raw_length hdr l c e : length hdr = 8%nat -> ih_boot_raw hdr l c = Some e -> length e = 16%nat.
Proof.
  intros Hh. unfold ih_boot_raw. destruct (_ && _); [|discriminate].
  intros H; apply some_inv in H; subst e. rewrite app_length, Hh. reflexivity.
Qed.

(* the value of raw after the three assignments of one loop iteration *)
Lemma ih_entry_shape y iso i e : ih_entry y iso i = Some e ->
  if (i =? 3) && ih_mac y then ih_boot_raw MAC_HEADER (ih_mac_lba y) (ih_mac_count y) = Some e
  else if (i =? 2) && ih_efi y then ih_boot_raw EFI_HEADER (ih_efi_lba y) (ih_efi_count y) = Some e
  else if i =? ih_part_entry y then ih_part_raw y iso = Some e
  else e = repeat 0 16.
Proof.
  unfold ih_entry.
  destruct (i =? ih_part_entry y); [destruct (ih_part_raw y iso) as [r|]; [|discriminate]|];
  (destruct ((i =? 2) && ih_efi y);
   [destruct (ih_boot_raw EFI_HEADER (ih_efi_lba y) (ih_efi_count y)) as [r2|]; [|discriminate]|]);
  destruct ((i =? 3) && ih_mac y); intros H; try exact H; apply some_inv in H; subst e; reflexivity.
Qed.

Lemma ih_entry_length y iso i e : ih_entry y iso i = Some e -> length e = 16%nat.
Proof.
  intros H. apply ih_entry_shape in H.
  destruct ((i =? 3) && ih_mac y); [eapply ih_boot_raw_length; [|exact H]; reflexivity|].
  destruct ((i =? 2) && ih_efi y); [eapply ih_boot_raw_length; [|exact H]; reflexivity|].
  destruct (i =? ih_part_entry y); [exact (ih_part_raw_length _ _ _ H)|subst e; reflexivity].
Qed.

(* without efi / mac: the active entry is entry number part_entry, the others are 16 zero bytes *)
Lemma ih_entry_plain y iso i : ih_efi y = false -> ih_mac y = false ->
  ih_entry y iso i = if i =? ih_part_entry y then ih_part_raw y iso else Some (repeat 0 16).
Proof.
  intros He Hm. unfold ih_entry. rewrite He, Hm, !andb_false_r.
  destruct (i =? ih_part_entry y); [destruct (ih_part_raw y iso)|]; reflexivity.
Qed.

(* ---- 1. MBR: layout ---- *)
Definition mbr_prefix (y : isohybrid) : list Z :=
  pack_s 32 (ih_header y) ++ pack_s 400 (ih_mbr y) ++ le32 (ih_rba y) ++ [0; 0; 0; 0]
  ++ le32 (ih_mbr_id y) ++ [0; 0].
Lemma mbr_prefix_length y : length (mbr_prefix y) = 446%nat.
Proof. unfold mbr_prefix. rewrite !app_length, !pack_s_length. reflexivity. Qed.

Definition mbr_entry_at (b : list Z) (k : Z) : list Z := slice (446 + 16 * (k - 1)) (446 + 16 * k) b.

Lemma ih_record_mbr_inv y iso b : ih_record_mbr y iso = Some b ->
  exists e1 e2 e3 e4,
    ih_entry y iso 1 = Some e1 /\ ih_entry y iso 2 = Some e2 /\ ih_entry y iso 3 = Some e3 /\
    ih_entry y iso 4 = Some e4 /\ u32 (ih_rba y) /\ u32 (ih_mbr_id y) /\
    b = concat (ih_mbr_head y ++ [e1; e2; e3; e4; [85; 170]]) /\
    b = mbr_prefix y ++ e1 ++ e2 ++ e3 ++ e4 ++ [85; 170].
Proof.
  unfold ih_record_mbr. destruct (u32_ok (ih_rba y) && u32_ok (ih_mbr_id y)) eqn:Hr; [|discriminate].
  destruct (ih_entry y iso 1) as [e1|]; [|discriminate].
  destruct (ih_entry y iso 2) as [e2|]; [|discriminate].
  destruct (ih_entry y iso 3) as [e3|]; [|discriminate].
  destruct (ih_entry y iso 4) as [e4|]; [|discriminate].
  intros H; apply some_inv in H. exists e1, e2, e3, e4.
  repeat (split; [first [reflexivity | unfold u32_ok in Hr; unfold u32; lia]|]).
  split; [symmetry; exact H|]. subst b. unfold mbr_prefix, ih_mbr_head. cbn [app concat].
  rewrite <- !app_assoc. reflexivity.
Qed.

Theorem mbr_length y iso b : ih_record_mbr y iso = Some b -> length b = 512%nat.
Proof.
  intros H. destruct (ih_record_mbr_inv _ _ _ H) as (e1 & e2 & e3 & e4 & H1 & H2 & H3 & H4 & _ & _ & _ & Hb).
  subst b. rewrite !app_length, mbr_prefix_length.
  rewrite (ih_entry_length _ _ _ _ H1), (ih_entry_length _ _ _ _ H2), (ih_entry_length _ _ _ _ H3),
          (ih_entry_length _ _ _ _ H4). reflexivity.
Qed.

Theorem mbr_layout y iso b : ih_record_mbr y iso = Some b ->
  slice 0 446 b = mbr_prefix y /\ slice 510 512 b = [85; 170] /\
  forall k, 1 <= k <= 4 -> ih_entry y iso k = Some (mbr_entry_at b k).
Proof.
  intros H. destruct (ih_record_mbr_inv _ _ _ H) as (e1 & e2 & e3 & e4 & H1 & H2 & H3 & H4 & _ & _ & _ & Hb).
  pose proof (ih_entry_length _ _ _ _ H1) as L1. pose proof (ih_entry_length _ _ _ _ H2) as L2.
  pose proof (ih_entry_length _ _ _ _ H3) as L3. pose proof (ih_entry_length _ _ _ _ H4) as L4.
  pose proof (mbr_prefix_length y) as L0. subst b. split; [|split].
  - unfold slice. cbn [Z.to_nat skipn]. change (Z.to_nat (446 - 0)) with 446%nat.
    apply firstn_app_exact; exact L0.
  - rewrite 4!app_assoc. rewrite <- (app_nil_r [85; 170]) at 1.
    apply slice_mid; [|reflexivity]. rewrite !app_length, L0, L1, L2, L3, L4. reflexivity.
  - intros k Hk. unfold mbr_entry_at.
    assert (Hc : k = 1 \/ k = 2 \/ k = 3 \/ k = 4) by lia.
    destruct Hc as [-> | [-> | [-> | ->]]].
    + rewrite H1. f_equal. symmetry. apply slice_mid; [exact L0|exact L1].
    + rewrite H2. f_equal. symmetry. rewrite (app_assoc _ e1).
      apply slice_mid; [rewrite app_length, L0, L1; reflexivity|exact L2].
    + rewrite H3. f_equal. symmetry. rewrite (app_assoc _ e1), (app_assoc _ e2).
      apply slice_mid; [rewrite !app_length, L0, L1, L2; reflexivity|exact L3].
    + rewrite H4. f_equal. symmetry. rewrite (app_assoc _ e1), (app_assoc _ e2), (app_assoc _ e3).
      apply slice_mid; [rewrite !app_length, L0, L1, L2, L3; reflexivity|exact L4].
Qed.

(* the wanted statement: plain (no efi, no mac) hybrid, part_entry k *)
Theorem mbr_active_entry_plain y iso b : ih_efi y = false -> ih_mac y = false ->
  ih_record_mbr y iso = Some b ->
  nth 510 b 0 = 85 /\ nth 511 b 0 = 170 /\
  forall k, 1 <= k <= 4 ->
    if k =? ih_part_entry y then ih_part_raw y iso = Some (mbr_entry_at b k) /\ nth 0 (mbr_entry_at b k) 0 = 128
    else mbr_entry_at b k = repeat 0 16.
Proof.
  intros He Hm H. destruct (mbr_layout _ _ _ H) as (_ & Ht & Hk).
  pose proof (mbr_length _ _ _ H) as Hl.
  split; [|split].
  - unfold slice in Ht. change (Z.to_nat (512 - 510)) with 2%nat in Ht. change (Z.to_nat 510) with 510%nat in Ht.
    rewrite <- (firstn_skipn 510 b) at 1. rewrite app_nth2; rewrite firstn_length, Hl; [|cbn; lia].
    change (510 - Nat.min 510 512)%nat with 0%nat.
    destruct (skipn 510 b) as [|x [|x2 r]]; try discriminate. cbn [firstn] in Ht. cbn [nth]. congruence.
  - unfold slice in Ht. change (Z.to_nat (512 - 510)) with 2%nat in Ht. change (Z.to_nat 510) with 510%nat in Ht.
    rewrite <- (firstn_skipn 510 b) at 1. rewrite app_nth2; rewrite firstn_length, Hl; [|cbn; lia].
    change (511 - Nat.min 510 512)%nat with 1%nat.
    destruct (skipn 510 b) as [|x [|x2 r]]; try discriminate. cbn [firstn] in Ht. cbn [nth]. congruence.
  - intros k Hr. specialize (Hk k Hr). rewrite (ih_entry_plain _ _ _ He Hm) in Hk.
    destruct (k =? ih_part_entry y).
    + split; [exact Hk|]. unfold ih_part_raw in Hk. cbv zeta in Hk. destruct (_ && _); [|discriminate].
      apply some_inv in Hk. rewrite <- Hk. reflexivity.
    + apply some_inv in Hk. symmetry; exact Hk.
Qed.

(* ---- 1. MBR: round trip ---- *)
Definition ih_wf (y : isohybrid) : Prop :=
  (ih_header y = ORIG_HEADER \/ ih_header y = MAC_AFP) /\ length (ih_mbr y) = 400%nat /\
  1 <= ih_part_entry y <= 4 /\
  (ih_efi y = true -> ih_part_entry y <> 2) /\ (ih_mac y = true -> ih_part_entry y <> 3) /\
  ih_heads y = ih_ehead y + 1 /\
  (ih_efi y = false -> ih_efi_lba y = 0 /\ ih_efi_count y = 0) /\
  (ih_mac y = false -> ih_mac_lba y = 0 /\ ih_mac_count y = 0).

(* the value parse() computes for geometry_sectors from the bytes record(iso_size) wrote *)
Definition parsed_sectors (y : isohybrid) (iso : Z) : Z :=
  Z.min (ih_psize y iso / ((chs_ecyle (ih_cc y iso) + 1) * (ih_ehead y + 1))) 63.

Lemma part_raw_decode a0 a1 a2 a3 a4 a5 a6 a7 po ps : u32 po -> u32 ps ->
  let e := [a0; a1; a2; a3; a4; a5; a6; a7] ++ le32 po ++ le32 ps in
  dle32 (firstn 4 (skipn 8 e)) = po /\ dle32 (skipn 12 e) = ps.
Proof. intros Hpo Hps. split; [exact (le32_dle32 po Hpo)|exact (le32_dle32 ps Hps)]. Qed.

Lemma boot_raw_decode h0 h1 h2 h3 h4 h5 h6 h7 lba c e :
  ih_boot_raw [h0; h1; h2; h3; h4; h5; h6; h7] lba c = Some e ->
  firstn 8 e = [h0; h1; h2; h3; h4; h5; h6; h7] /\ d8 e = h0 /\
  dle32 (firstn 4 (skipn 8 e)) / 4 = lba /\ dle32 (skipn 12 e) = c.
Proof.
  unfold ih_boot_raw. destruct (u32_ok (lba * 4) && u32_ok c) eqn:Hr; [|discriminate].
  intros H; apply some_inv in H; subst e.
  destruct (part_raw_decode h0 h1 h2 h3 h4 h5 h6 h7 (lba * 4) c) as [D1 D2];
    try (unfold u32_ok in Hr; unfold u32; lia).
  cbv zeta in D1, D2. split; [reflexivity|]. split; [reflexivity|].
  rewrite D1, D2, Z.div_mul by lia. split; reflexivity.
Qed.

Lemma ih_part_raw_d8 y iso e : ih_part_raw y iso = Some e -> d8 e = 128.
Proof.
  unfold ih_part_raw. cbv zeta. destruct (_ && _); [|discriminate].
  intros H; apply some_inv in H; subst e. reflexivity.
Qed.

Lemma ih_entry_d8 y iso i e :
  (ih_efi y = true -> ih_part_entry y <> 2) -> (ih_mac y = true -> ih_part_entry y <> 3) ->
  ih_entry y iso i = Some e -> (d8 e =? 128) = (i =? ih_part_entry y).
Proof.
  intros We Wm H. apply ih_entry_shape in H.
  destruct ((i =? 3) && ih_mac y) eqn:C3.
  { apply andb_prop in C3. destruct C3 as [Ci Cm]. apply boot_raw_decode in H.
    destruct H as (_ & D & _). rewrite D. specialize (Wm Cm). lia. }
  destruct ((i =? 2) && ih_efi y) eqn:C2.
  { apply andb_prop in C2. destruct C2 as [Ci Ce]. apply boot_raw_decode in H.
    destruct H as (_ & D & _). rewrite D. specialize (We Ce). lia. }
  destruct (i =? ih_part_entry y) eqn:Cp.
  - rewrite (ih_part_raw_d8 _ _ _ H). reflexivity.
  - subst e. reflexivity.
Qed.

Lemma fold_active e1 e2 e3 e4 pe : 1 <= pe <= 4 ->
  (d8 e1 =? 128) = (1 =? pe) -> (d8 e2 =? 128) = (2 =? pe) ->
  (d8 e3 =? 128) = (3 =? pe) -> (d8 e4 =? 128) = (4 =? pe) ->
  exists e, fold_left parse_active [(1, e1); (2, e2); (3, e3); (4, e4)] (-1, []) = (pe, e) /\
            In (pe, e) [(1, e1); (2, e2); (3, e3); (4, e4)].
Proof.
  intros Hpe D1 D2 D3 D4. unfold fold_left, parse_active. cbn [snd]. rewrite D1, D2, D3, D4.
  assert (Hc : pe = 1 \/ pe = 2 \/ pe = 3 \/ pe = 4) by lia.
  destruct Hc as [-> | [-> | [-> | ->]]]; zeqb_closed; cbv iota;
    eexists; (split; [reflexivity|]); cbn [In]; tauto.
Qed.

(* entry 2 / entry 3 carry exactly the efi / mac flags and values *)
Lemma entry2_efi y iso e2 : ih_entry y iso 2 = Some e2 ->
  zlist_eqb (firstn 8 e2) EFI_HEADER = ih_efi y /\
  (ih_efi y = true -> dle32 (firstn 4 (skipn 8 e2)) / 4 = ih_efi_lba y /\ dle32 (skipn 12 e2) = ih_efi_count y).
Proof.
  intros H. apply ih_entry_shape in H. change ((2 =? 3) && ih_mac y) with false in H. cbv iota in H.
  change (2 =? 2) with true in H. cbn [andb] in H. destruct (ih_efi y).
  - apply boot_raw_decode in H. destruct H as (F & _ & D1 & D2). rewrite F. split; [reflexivity|auto].
  - split; [|discriminate]. destruct (2 =? ih_part_entry y).
    + unfold ih_part_raw in H. cbv zeta in H. destruct (_ && _); [|discriminate].
      apply some_inv in H; subst e2. reflexivity.
    + subst e2. reflexivity.
Qed.
Lemma entry3_mac y iso e3 : ih_entry y iso 3 = Some e3 ->
  zlist_eqb (firstn 8 e3) MAC_HEADER = ih_mac y /\
  (ih_mac y = true -> dle32 (firstn 4 (skipn 8 e3)) / 4 = ih_mac_lba y /\ dle32 (skipn 12 e3) = ih_mac_count y).
Proof.
  intros H. apply ih_entry_shape in H. change (3 =? 3) with true in H. cbn [andb] in H.
  destruct (ih_mac y).
  - apply boot_raw_decode in H. destruct H as (F & _ & D1 & D2). rewrite F. split; [reflexivity|auto].
  - change ((3 =? 2) && ih_efi y) with false in H. cbv iota in H.
    split; [|discriminate]. destruct (3 =? ih_part_entry y).
    + unfold ih_part_raw in H. cbv zeta in H. destruct (_ && _); [|discriminate].
      apply some_inv in H; subst e3. reflexivity.
    + subst e3. reflexivity.
Qed.

Theorem mbr_roundtrip y iso b rest : ih_wf y -> ih_record_mbr y iso = Some b ->
  ih_parse_mbr (b ++ rest) = POk (ih_set_sectors y (parsed_sectors y iso)).
Proof.
  intros (Whdr & Wmbr & Wpe & We & Wm & Wh & We0 & Wm0) H.
  pose proof (mbr_length _ _ _ H) as Hl.
  destruct (ih_record_mbr_inv _ _ _ H) as (e1 & e2 & e3 & e4 & H1 & H2 & H3 & H4 & Hrba & Hid & Hb & _).
  unfold ih_parse_mbr.
  replace (zlen (b ++ rest) <? 512) with false by (unfold zlen; rewrite app_length, Hl; lia).
  rewrite (firstn_app_exact 512 b rest Hl).
  assert (Hw : widths mbr_widths = map (@length Z) (ih_mbr_head y ++ [e1; e2; e3; e4; [85; 170]])).
  { cbn [ih_mbr_head app map].
    rewrite !pack_s_length, (ih_entry_length _ _ _ _ H1), (ih_entry_length _ _ _ _ H2),
            (ih_entry_length _ _ _ _ H3), (ih_entry_length _ _ _ _ H4). reflexivity. }
  rewrite Hw, Hb, split_concat_nil. cbn [ih_mbr_head app].
  rewrite (pack_s_exact 32 (ih_header y)) by (destruct Whdr as [-> | ->]; reflexivity).
  rewrite (pack_s_exact 400 (ih_mbr y) Wmbr).
  assert (Hhd : (negb (zlist_eqb (ih_header y) ORIG_HEADER) && negb (zlist_eqb (ih_header y) MAC_AFP)) = false
                /\ (if zlist_eqb (ih_header y) ORIG_HEADER then ORIG_HEADER else MAC_AFP) = ih_header y).
  { destruct Whdr as [-> | ->]; split; reflexivity. }
  destruct Hhd as [Hhd1 Hhd2]. rewrite Hhd1, Hhd2.
  change (dle32 (le32 0)) with 0. change (dle16 (le16 0)) with 0. change (negb (0 =? 0)) with false.
  cbv iota.
  destruct (fold_active e1 e2 e3 e4 (ih_part_entry y) Wpe
              (ih_entry_d8 _ _ _ _ We Wm H1) (ih_entry_d8 _ _ _ _ We Wm H2)
              (ih_entry_d8 _ _ _ _ We Wm H3) (ih_entry_d8 _ _ _ _ We Wm H4)) as (e & Hf & Hin).
  rewrite Hf. cbv iota beta.
  assert (He : ih_entry y iso (ih_part_entry y) = Some e).
  { cbn [In] in Hin. destruct Hin as [E|[E|[E|[E|[]]]]]; injection E as E1 E2; rewrite <- E1, <- E2; assumption. }
  apply ih_entry_shape in He.
  replace ((ih_part_entry y =? 3) && ih_mac y) with false in He
    by (destruct (ih_mac y); [specialize (Wm eq_refl); lia|symmetry; apply andb_false_r]).
  replace ((ih_part_entry y =? 2) && ih_efi y) with false in He
    by (destruct (ih_efi y); [specialize (We eq_refl); lia|symmetry; apply andb_false_r]).
  rewrite Z.eqb_refl in He. unfold ih_part_raw in He. cbv zeta in He.
  match type of He with (if ?c then _ else _) = _ => destruct c eqn:Hr; [|discriminate] end.
  apply some_inv in He.
  destruct (part_raw_decode 128 (ih_bhead y) (ih_bsect y) (ih_bcyle y) (ih_ptype y) (ih_ehead y)
              (chs_esect (ih_sectors y) (ih_cc y iso)) (chs_ecyle (ih_cc y iso))
              (ih_part_offset y) (ih_psize y iso)) as [D1 D2];
    try (unfold u32_ok in Hr; unfold u32; lia).
  cbv zeta in D1, D2. rewrite He in D1, D2. rewrite D1, D2.
  rewrite <- He. cbn [nth app]. clear D1 D2 He Hr.
  replace (ih_part_entry y <? 0) with false by lia.
  change (negb (zlist_eqb [85; 170] [85; 170])) with false. cbv iota.
  destruct (entry2_efi _ _ _ H2) as [F2 V2]. destruct (entry3_mac _ _ _ H3) as [F3 V3].
  rewrite F2, F3, !le32_dle32 by assumption.
  unfold ih_set_sectors, parsed_sectors. f_equal.
  destruct (ih_efi y) eqn:Ce; [destruct (V2 eq_refl) as [-> ->]|destruct (We0 eq_refl) as [-> ->]];
  (destruct (ih_mac y) eqn:Cm; [destruct (V3 eq_refl) as [-> ->]|destruct (Wm0 eq_refl) as [-> ->]]);
  rewrite Wh; reflexivity.
Qed.

(* geometry_sectors survives exactly when part_offset = 0 and cc <= 256 *)
Lemma parsed_sectors_exact y iso : ih_wf y -> 1 <= ih_sectors y <= 63 -> 0 < ih_heads y ->
  ih_part_offset y = 0 -> 1 <= ih_cc y iso <= 256 -> parsed_sectors y iso = ih_sectors y.
Proof.
  intros (_ & _ & _ & _ & _ & Wh & _) Hs Hh Hpo Hcc. unfold parsed_sectors, ih_psize, chs_ecyle.
  rewrite Hpo, Z.sub_0_r, <- Wh. change 255 with (Z.ones 8). rewrite Z.land_ones by lia.
  change (2 ^ 8) with 256. rewrite Z.mod_small by lia.
  replace (ih_cc y iso - 1 + 1) with (ih_cc y iso) by lia.
  replace (ih_cc y iso * ih_heads y * ih_sectors y) with (ih_sectors y * (ih_cc y iso * ih_heads y)) by ring.
  rewrite Z.div_mul by nia. lia.
Qed.

Theorem mbr_roundtrip_exact y iso b rest : ih_wf y -> 1 <= ih_sectors y <= 63 -> 0 < ih_heads y ->
  ih_part_offset y = 0 -> 1 <= ih_cc y iso <= 256 -> ih_record_mbr y iso = Some b ->
  ih_parse_mbr (b ++ rest) = POk y.
Proof.
  intros W Hs Hh Hpo Hcc H. rewrite (mbr_roundtrip _ _ _ _ W H), (parsed_sectors_exact _ _ W Hs Hh Hpo Hcc).
  destruct y; reflexivity.
Qed.

(* objects made by new() + update_rba are well formed when the active entry is not overwritten *)
Lemma ih_new_wf efi mac pe id po gs gh pt y ext : ih_new efi mac pe id po gs gh pt = Some y ->
  1 <= pe <= 4 -> (efi = true -> pe <> 2) -> (mac = true -> pe <> 3) ->
  ih_wf (ih_update_rba y ext) /\ ih_heads y = gh /\ ih_sectors y = gs /\ 1 <= gs <= 63 /\ 1 <= gh <= 256 /\
  ih_part_offset y = po.
Proof.
  unfold ih_new. destruct ((gs <? 1) || (63 <? gs)) eqn:C1; [discriminate|].
  destruct ((gh <? 1) || (256 <? gh)) eqn:C2; [discriminate|].
  destruct (mac && negb (pt =? 0)); [discriminate|]. cbv zeta.
  intros H; apply some_inv in H; subst y. intros Hpe He Hm. unfold ih_wf, ih_update_rba, ih_set_rba.
  cbn [ih_header ih_mbr ih_part_entry ih_efi ih_mac ih_heads ih_ehead ih_efi_lba ih_efi_count
       ih_mac_lba ih_mac_count ih_sectors ih_part_offset].
  repeat split; try assumption; try lia; try reflexivity.
  destruct mac; [right|left]; reflexivity.
Qed.

(* REFUTED: parse(record(h)) = h in general.  (a) cc > 256: the end-cylinder byte wraps and
   geometry_sectors comes back as 63 instead of 32 (600 MiB image, default 64/32 geometry);
   (b) part_offset > 0: 31 instead of 32;  (c) efi with part_entry = 2: the EFI entry overwrites
   the active entry, no entry carries 0x80 and parse raises. *)
Definition rt_ok (y : isohybrid) (iso : Z) : Prop :=
  forall b, ih_record_mbr y iso = Some b -> ih_parse_mbr b = POk y.
Theorem mbr_roundtrip_refuted :
  (exists y, ih_new false false 1 1 0 32 64 0 = Some y /\ ih_record_mbr y 629145600 <> None /\
             ~ rt_ok y 629145600 /\
             forall b, ih_record_mbr y 629145600 = Some b ->
               exists y', ih_parse_mbr b = POk y' /\ ih_sectors y' = 63 /\ ih_sectors y = 32) /\
  (exists y, ih_new false false 1 1 16 32 64 23 = Some y /\ ih_record_mbr y 5242880 <> None /\
             ~ rt_ok y 5242880 /\
             forall b, ih_record_mbr y 5242880 = Some b ->
               exists y', ih_parse_mbr b = POk y' /\ ih_sectors y' = 31 /\ ih_sectors y = 32) /\
  (exists y, ih_new true false 2 1 0 32 64 0 = Some y /\ ih_record_mbr y 5242880 <> None /\
             forall b, ih_record_mbr y 5242880 = Some b ->
               ih_parse_mbr b = PRaise /\ forall k, 1 <= k <= 4 -> nth 0 (mbr_entry_at b k) 0 <> 128).
Proof.
  split; [|split].
  - eexists. split; [reflexivity|]. split; [vm_compute; discriminate|]. split.
    + intros R. specialize (R _ eq_refl). vm_compute in R. discriminate.
    + intros b Hb. vm_compute in Hb. apply some_inv in Hb. subst b.
      eexists. split; [vm_compute; reflexivity|]. split; reflexivity.
  - eexists. split; [reflexivity|]. split; [vm_compute; discriminate|]. split.
    + intros R. specialize (R _ eq_refl). vm_compute in R. discriminate.
    + intros b Hb. vm_compute in Hb. apply some_inv in Hb. subst b.
      eexists. split; [vm_compute; reflexivity|]. split; reflexivity.
  - eexists. split; [reflexivity|]. split; [vm_compute; discriminate|].
    intros b Hb. vm_compute in Hb. apply some_inv in Hb. subst b. split; [vm_compute; reflexivity|].
    intros k Hk. assert (Hc : k = 1 \/ k = 2 \/ k = 3 \/ k = 4) by lia.
    destruct Hc as [-> | [-> | [-> | ->]]]; vm_compute; discriminate.
Qed.

(* ---- 4. APM ---- *)
Lemma rstrip0_zeros k : rstrip0 (repeat 0 k) = [].
Proof. induction k as [|k IH]; [reflexivity|]. cbn [repeat rstrip0]. rewrite IH. reflexivity. Qed.
Lemma rstrip0_app_zeros l k : rstrip0 (l ++ repeat 0 k) = rstrip0 l.
Proof.
  induction l as [|x l IH]; [apply rstrip0_zeros|]. cbn [app rstrip0]. rewrite IH. reflexivity.
Qed.
Lemma pack_s_pad n l : (length l <= n)%nat -> pack_s n l = l ++ repeat 0 (n - length l).
Proof. intros H. unfold pack_s. rewrite firstn_all2 by exact H. reflexivity. Qed.
Lemma ascii_ok_pack_s n l : ascii_ok l = true -> ascii_ok (pack_s n l) = true.
Proof.
  intros H. unfold ascii_ok, pack_s in *. rewrite forallb_app. apply andb_true_intro. split.
  - rewrite forallb_forall in *. intros x Hx. apply H. eapply ListX.In_firstn. exact Hx.
  - apply forallb_forall. intros x Hx. apply repeat_spec in Hx. subst x. reflexivity.
Qed.

Lemma apm_layout a : map (@length Z) (apm_fields a) = widths fmt_apm_part_widths.
Proof. cbn [apm_fields map]. rewrite !pack_s_length. reflexivity. Qed.

Theorem apm_record_length a b : apm_record a = Some b -> length b = 512%nat.
Proof.
  unfold apm_record. destruct (_ && _); [|discriminate]. intros H; apply some_inv in H; subst b.
  rewrite length_concat, apm_layout. reflexivity.
Qed.

(* what parse returns of processor: the 16 raw bytes *)
Definition apm_norm (a : apm_part) : apm_part :=
  mk_apm (apm_map_count a) (apm_start_block a) (apm_block_count a) (apm_name a) (apm_type_desc a)
         (apm_data_start a) (apm_data_count a) (apm_status a) (apm_boot_start a) (apm_boot_count a)
         (apm_boot_load a) (apm_boot_load2 a) (apm_boot_entry a) (apm_boot_entry2 a) (apm_boot_cksum a)
         (pack_s 16 (apm_processor a)) (apm_driver_sig a).
Definition name_ok (n : nat) (l : list Z) : Prop := (length l <= n)%nat /\ rstrip0 l = l.

Theorem apm_roundtrip a b rest : apm_record a = Some b ->
  name_ok 32 (apm_name a) -> name_ok 32 (apm_type_desc a) -> apm_parse (b ++ rest) = Some (apm_norm a).
Proof.
  unfold apm_record. destruct (apm_ranges_ok a && ascii_ok (apm_name a) && ascii_ok (apm_type_desc a)) eqn:Hr;
    [|discriminate].
  intros H [Ln Sn] [Lt St]; apply some_inv in H; subst b.
  apply andb_prop in Hr. destruct Hr as [Hr At]. apply andb_prop in Hr. destruct Hr as [Hr An].
  unfold apm_parse. rewrite <- (apm_layout a), split_concat. unfold apm_fields.
  change (negb (dbe16 (be16 MAC_PARTITION_MAGIC) =? MAC_PARTITION_MAGIC)) with false. cbv iota.
  rewrite (ascii_ok_pack_s 32 _ An), (ascii_ok_pack_s 32 _ At). cbn [andb negb].
  rewrite (pack_s_pad 32 _ Ln), (pack_s_pad 32 _ Lt), !rstrip0_app_zeros, Sn, St.
  unfold apm_ranges_ok, u32_ok in Hr. rewrite !be32_dbe32 by (unfold u32; lia). reflexivity.
Qed.

(* objects made by new() satisfy the side conditions *)
Lemma apm_new_ok : forall a, In a [apm_new A_APPLE A_APPLE_PARTITION_MAP 3; apm_new A_EFI A_APPLE_HFS 51] ->
  name_ok 32 (apm_name a) /\ name_ok 32 (apm_type_desc a) /\ apm_record a <> None.
Proof.
  intros a [<-|[<-|[]]]; (split; [split; [cbn; lia|reflexivity]|]);
  (split; [split; [cbn; lia|reflexivity]|vm_compute; discriminate]).
Qed.


(* ---- 6. the harness helpers on real objects (PYTHONPATH=/repo /venv/bin/python) ---------------- *)
(* h.new(False, False, 1, 0x12345678, 0, 32, 64, 0x17); h.update_rba(27); h.record(5*1024*1024+1) *)
Definition real_mbr1 : list Z :=
  ORIG_HEADER ++ isohybrid_data_hd0 ++
  [108; 0; 0; 0; 0; 0; 0; 0; 120; 86; 52; 18; 0; 0; 128; 0; 1; 0; 23; 63; 32; 5; 0; 0; 0; 0; 0; 48; 0; 0]
  ++ repeat 0 48 ++ [85; 170].
Example mbr_example :
  check_mbr_case (0, 0, 1, 305419896, 0, 32, 64, 23, 27, 0, 0, 0, 0, isohybrid_data_hd0, 5242881) real_mbr1 = true /\
  length isohybrid_data_hd0 = 400%nat /\ length real_mbr1 = 512%nat /\
  (* h2.parse(record) -> rba 108, mbr_id, part_entry 1, bhead 0, bsect 1, bcyle 0, ptype 23, ehead 63, ... *)
  check_mbr_parse_case real_mbr1 [108; 305419896; 1; 0; 1; 0; 23; 63; 0; 64; 32; 0; 0; 0; 0; 0; 0] = true /\
  (* new(..., geometry_sectors=64, ...) raises PyCdlibInvalidInput *)
  check_mbr_case (0, 0, 1, 1, 0, 64, 64, 0, 5, 0, 0, 0, 0, [], 1000) [] = true /\
  (* mbr_id = 2**32: struct.error in record() *)
  check_mbr_case (0, 0, 1, 4294967296, 0, 32, 64, 0, 5, 0, 0, 0, 0, [], 1000000) [] = true /\
  (* parse(b'\x00' * 512) returns False *)
  check_mbr_parse_case (repeat 0 512) [-1] = true.
Proof. repeat split; vm_compute; reflexivity. Qed.
(* h.new(True, True, 1, 7, 0, 32, 64, 0); update_rba(30); efi_lba=40; efi_count=2880; mac_lba=800;
   mac_count=5000; record(700 MiB)[:512]  (cc = 700: esect = 32 + 128, ecyle = 187) *)
Example mbr_example_efi_mac :
  bad_mbr_cases 0
    [ ((1, 1, 1, 7, 0, 32, 64, 0, 30, 40, 2880, 800, 5000, isohybrid_data_hd0, 734003200),
       MAC_AFP ++ isohybrid_data_hd0 ++
       [120; 0; 0; 0; 0; 0; 0; 0; 7; 0; 0; 0; 0; 0; 128; 0; 1; 0; 0; 63; 160; 187; 0; 0; 0; 0; 0; 224; 21;
        0; 0; 254; 255; 255; 239; 254; 255; 255; 160; 0; 0; 0; 64; 11; 0; 0; 0; 254; 255; 255; 0; 254; 255;
        255; 128; 12; 0; 0; 136; 19] ++ repeat 0 18 ++ [85; 170]);
      ((0, 0, 1, 305419896, 0, 32, 64, 23, 28, 0, 0, 0, 0, isohybrid_data_hd0, 5242881), real_mbr1) ]
  = [1%nat].
Proof. vm_compute. reflexivity. Qed.
(* len(h.record_padding(iso_size)) for (iso_size, heads, sectors) *)
Example padding_example :
  check_padding_case 5242881 64 32 1048575 = true /\ check_padding_case 0 64 32 0 = true /\
  check_padding_case 2147483648 255 63 7539712 = true /\
  bad_padding_cases 0 [(1048576, 64, 32, 0); (777, 1, 1, 247); (777, 1, 1, 248)] = [2%nat].
Proof. repeat split; vm_compute; reflexivity. Qed.
(* GPT(True).new(True).apm_parts[0] with start_block = 1, block_count = 3: record() *)
Example apm_example :
  let t := (3, 1, 3, A_APPLE, A_APPLE_PARTITION_MAP, 0, 0, 3, 0, 0, 0, 0, 0, 0, 0, [], 0) in
  let real := [80; 77; 0; 0; 0; 0; 0; 3; 0; 0; 0; 1; 0; 0; 0; 3; 65; 112; 112; 108; 101] ++ repeat 0 27 ++
              A_APPLE_PARTITION_MAP ++ repeat 0 13 ++ repeat 0 11 ++ [3] ++ repeat 0 420 in
  check_apm_case t real = true /\ length real = 512%nat /\
  apm_parse real = Some (apm_norm (apm_of_tuple t)) /\
  bad_apm_cases 0 [(t, real); (t, repeat 0 512)] = [1%nat].
Proof. repeat split; vm_compute; reflexivity. Qed.

Print Assumptions cc_range.
Print Assumptions record_padding_aligned.
Print Assumptions psize_when_not_clamped.
Print Assumptions psize_when_clamped.
Print Assumptions psize_clamped_refuted.
Print Assumptions chs_end_decodes.
Print Assumptions mbr_length.
Print Assumptions mbr_layout.
Print Assumptions mbr_active_entry_plain.
Print Assumptions mbr_roundtrip.
Print Assumptions mbr_roundtrip_exact.
Print Assumptions ih_new_wf.
Print Assumptions mbr_roundtrip_refuted.
Print Assumptions apm_record_length.
Print Assumptions apm_roundtrip.
Print Assumptions mbr_example.
