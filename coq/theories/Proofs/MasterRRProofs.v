(* MasterRR: the main theorems, for EVERY well-formed state (mrr_wf: a boolean on the AccountRR state -- names that
   pass the guard of _rr_new, each record's bookkeeping (dr_len, continuation key) equal to what RockRidge.new gives for
   its names, continuation areas of one block apart and inside the sector, Pack's data_length invariant, depth <= 7
   below the root, 32-bit fields; Rock Ridge names and symlink targets of ANY length and shape, all three versions).

     read_master_rr            master_rr succeeds and the independent reader run on its bytes returns mrr_view:
                               for every entry the Rock Ridge name, mode (hence kind), link count and symlink target
                               that were given, the extents, SP skip 0 and the ER identifier of the version
     read_master_rr_frame      ... on any larger image whose chunks do not overlap
     master_rr_su_wellformed   every record of every directory: the System Use field is a concatenation of entries whose
                               length bytes are their lengths (they add up to record length - 33 - identifier - pad [- final
                               pad]); a CE entry names (block, offset, length) of a 2048-byte block that IS in the image,
                               inside the sector, whose bytes there are exactly the recorded continuation entries of that
                               record, which the walker decodes to exactly those entries
     master_rr_areas_disjoint  continuation areas of different records: different blocks or ranges that do not meet;
                               no area lies in the ER sector; blocks and directory extents do not overlap (mrr_img_ok)
     master_rr_root_er         the root's first record: SP first (skip 0), CE to the ER sector at offset 0, which holds the
                               ER entry with the version's extension identifier *)
From Coq Require Import ZArith List Bool Lia ZifyBool.
From PV.Base Require Import Prim.
From PV.Gen Require Import GenConst GenFun.
From PV.Model Require Import Codec Pack PathTable RREntries RRWalk RRPlace.
From PV.Model Require Master Account LongNames.
From PV.Model Require Import AccountRR MasterRR.
From PV.Proofs Require Import CodecProofs PackProofs PathTableLemmas PathTableProofs MasterPack MasterImage MasterBfs.
From PV.Proofs Require Import RRWalkProofs RRPlaceProofs RRPlaceProofs2.
From PV.Proofs Require Import MasterRRWalk MasterRRRec MasterRRBlock MasterRRTree MasterRRLayout MasterRRDir
                              MasterRRImage MasterRRRead.
Import ListNotations.
Local Open Scope Z_scope.

Lemma mrr_master_img dt s : length dt = 7%nat -> mrr_wf dt s = true -> master_rr dt s = Some (mrr_img dt s).
Proof. intros Hdt Hwf. exact (mrr_master_some dt s Hdt Hwf). Qed.

(* ---- 1. the reader recovers everything ----------------------------------------------------------------------- *)
Theorem read_master_rr_frame dt s img img' : length dt = 7%nat -> mrr_wf dt s = true ->
  master_rr dt s = Some img -> ms_img_ok img' -> incl img img' ->
  read_rr (mrr_fuel s) img' (mrr_root_extent s) (mrr_root_len s) = Some (mrr_view s).
Proof.
  intros Hdt Hwf Hm Hok Hincl. rewrite (mrr_master_img dt s Hdt Hwf) in Hm. injection Hm as <-.
  destruct (mrr_wf_root dt s Hwf) as (_ & m & dl & kids & Et & _).
  assert (Hp : mrr_node_at (r_root s) [] = Some (RDir m dl kids)) by (rewrite Et; reflexivity).
  destruct (mrr_scan_dir dt s Hdt Hwf img' Hok Hincl [] m dl kids Hp) as (data & Er & Es).
  destruct (mrr_read_root dt s Hdt Hwf img' Hok Hincl m dl kids Et) as (a & Ea & A1 & A2 & A3).
  pose proof (mrr_read_node dt s Hdt Hwf img' Hok Hincl (mrr_fuel s) [] m dl kids Hp) as Hn.
  rewrite (mrr_root_ext s) in Er, Hn.
  unfold read_rr, mrr_root_extent, mrr_root_len, mrr_dlen_at. rewrite Hp, Er, Es, Ea, A1, A2, A3.
  rewrite Hn by (unfold mrr_fuel; rewrite Et; lia).
  unfold mrr_view. rewrite Et at 3. rewrite mrr_vnode_dir. reflexivity.
Qed.

Theorem read_master_rr dt s : length dt = 7%nat -> mrr_wf dt s = true ->
  exists img, master_rr dt s = Some img /\
              read_rr (mrr_fuel s) img (mrr_root_extent s) (mrr_root_len s) = Some (mrr_view s).
Proof.
  intros Hdt Hwf. exists (mrr_img dt s). split; [exact (mrr_master_img dt s Hdt Hwf)|].
  apply (read_master_rr_frame dt s (mrr_img dt s) (mrr_img dt s) Hdt Hwf (mrr_master_img dt s Hdt Hwf));
    [exact (mrr_img_ok dt s Hdt Hwf)|apply incl_refl].
Qed.

(* what the view says about one entry: kind from the PX mode *)
Definition mrr_kind (mode : Z) : Z := Z.land mode 61440.     (* S_IFMT: 0o040000 dir, 0o100000 regular, 0o120000 link *)
Lemma mrr_kinds : mrr_kind DIR_MODE = 16384 /\ mrr_kind FILE_MODE = 32768 /\ mrr_kind LINK_MODE = 40960.
Proof. repeat split. Qed.

(* ---- 2. System Use areas are well formed ------------------------------------------------------------------------ *)
Definition mrr_entry_wf (e : list Z) : Prop := nth 2 e 0 = zlen e /\ 4 <= zlen e.

Lemma mrr_list_entries v es : Forall (mrr_readable v) es -> forall bs, record_list v es = Some bs ->
  exists ents, bs = concat ents /\ Forall mrr_entry_wf ents /\ length ents = length es.
Proof.
  induction 1 as [|e es He _ IH]; intros bs Hr.
  - apply some_inv in Hr. subst bs. exists []. repeat split. constructor.
  - destruct (record_list_cons v e es bs Hr) as (b & bs' & Hb & Hbs & ->).
    destruct (IH bs' Hbs) as (ents & -> & Hf & Hl). exists (b :: ents). split; [reflexivity|].
    split; [constructor; [exact (mrr_shape_len e b (mrr_entry_shape v e b He Hb))|exact Hf]|cbn; lia].
Qed.

Section WellFormed.
  Variable dt : list Z.
  Variable s : rstate.
  Hypothesis Hdt : length dt = 7%nat.
  Hypothesis Hwf : mrr_wf dt s = true.

  Local Notation t := (r_root s).
  Local Notation v := (r_ver s).
  Local Notation L := (mrr_layout s).
  Local Notation ws := (mrr_writes v dt t L).

  (* every record of every directory: placement succeeds with its fields in range, and where its continuation
     area is (if any) the finished block holds its bytes *)
  Lemma mrr_spec_cont p m dl kids x : mrr_node_at t p = Some (RDir m dl kids) -> In x (mrr_dir_specs t L p) ->
    exists len, mrr_good dt s x len /\
      forall r bc, place (mrr_pin v dt x) = Some r -> is_some (ce_record (pl_dr r)) = true ->
        record_list v (map (mrr_patch x) (entries_list (pl_ce r))) = Some bc ->
        In (rs_bl x) (mrr_block_exts t L) /\
        firstn (Z.to_nat (zlen bc)) (skipn (Z.to_nat (rs_off x)) (mrr_block ws (rs_bl x))) = bc.
  Proof.
    intros Hp Hx. destruct (mrr_wf_root dt s Hwf) as (Hv & _).
    unfold mrr_dir_specs in Hx. rewrite Hp in Hx. destruct Hx as [<-|[<-|Hx]].
    - pose proof (mrr_dot_good dt s Hdt Hwf p m dl kids Hp) as G. eexists. split; [exact G|].
      intros r bc Hpl Hs Ec. destruct p as [|j p].
      + assert (Et : t = RDir m dl kids) by (cbn [mrr_node_at] in Hp; congruence).
        split; [apply mrr_er_in|].
        destruct (mrr_cw_good dt s Hdt _ _ G) as (r2 & bc2 & Hpl2 & Ec2 & Ecw & _).
        rewrite Hpl in Hpl2. injection Hpl2 as <-. rewrite Ec in Ec2. injection Ec2 as <-. rewrite Hs in Ecw.
        apply (mrr_root_w_read dt s Hdt Hwf m dl kids bc Et). unfold mrr_dot_spec. rewrite Ecw. left. reflexivity.
      + exfalso. pose proof (mrr_dot_ok v dt false [0] Hdt Hv (or_introl eq_refl)) as Hck. unfold mrr_dot_check in Hck.
        change (mk_pin v false [] DIR_MODE None false false false 0 (Account.dr_len_of [0]) [dt; dt; dt])
          with (mrr_pin v dt (mk_rspec (mrr_is_root (j :: p)) [0] [] [] DIR_MODE (mrr_links_at t (j :: p))
                  (Master.ms_ext_at (l_DB L) (j :: p)) dl 2 (if mrr_is_root (j :: p) then l_er L else 0) 0)) in Hck.
        rewrite Hpl in Hck. repeat (apply andb_prop in Hck; destruct Hck as [Hck ?]).
        rewrite Hs in *. discriminate.
    - pose proof (mrr_dotdot_good dt s Hdt Hwf p m dl kids Hp) as G. eexists. split; [exact G|].
      intros r bc Hpl Hs Ec. exfalso.
      pose proof (mrr_dot_ok v dt false [1] Hdt Hv (or_intror eq_refl)) as Hck. unfold mrr_dot_check in Hck.
      change (mk_pin v false [] DIR_MODE None false false false 0 (Account.dr_len_of [1]) [dt; dt; dt])
        with (mrr_pin v dt (mk_rspec false [1] [] [] DIR_MODE (mrr_links_at t (removelast p))
                (Master.ms_ext_at (l_DB L) (removelast p)) (mrr_dlen_at t (removelast p)) 2 0 0)) in Hck.
      rewrite Hpl in Hck. repeat (apply andb_prop in Hck; destruct Hck as [Hck ?]).
      rewrite Hs in *. discriminate.
    - destruct (mrr_kid_specs_in t L p kids 0%nat x Hx) as (j & c & Hj & ->). cbn [Nat.add].
      pose proof (mrr_kid_good dt s Hdt Hwf p m dl kids j c Hp Hj) as G. eexists. split; [exact G|].
      intros r bc Hpl Hs Ec.
      destruct (mrr_kid_place dt s Hdt Hwf p m dl kids j c Hp Hj) as (Hc & _ & r' & Hpl' & _ & Hce).
      rewrite Hpl in Hpl'. injection Hpl' as <-.
      destruct (m_ce (meta_of c)) as [[[i off] len]|] eqn:Ek; [|congruence].
      destruct Hce as (_ & -> & H0 & H1).
      assert (Ebl : rs_bl (mrr_kid_spec t L (p ++ [j]) c) = mrr_ce_ext t L i /\ rs_off (mrr_kid_spec t L (p ++ [j]) c) = off).
      { destruct c; cbn [mrr_kid_spec rs_bl rs_off meta_of] in *; unfold mrr_ce_of; rewrite Ek; split; reflexivity. }
      destruct Ebl as [E1 E2]. rewrite E1, E2.
      split; [exact (mrr_ce_ext_in dt s Hwf (p ++ [j]) c (i, off, pl_celen r) Hc Ek)|].
      destruct (mrr_cw_good dt s Hdt _ _ G) as (r2 & bc2 & Hpl2 & Ec2 & Ecw & _).
      rewrite Hpl in Hpl2. injection Hpl2 as <-. rewrite Ec in Ec2. injection Ec2 as <-. rewrite Hs in Ecw.
      apply (mrr_kid_w_read dt s Hdt Hwf (p ++ [j]) c i off (pl_celen r) bc Hc); [destruct p; discriminate| |exact Ek].
      rewrite Ecw, E1, E2. left. reflexivity.
  Qed.

  Theorem master_rr_su_wellformed img : master_rr dt s = Some img ->
    forall p m dl kids x, mrr_node_at t p = Some (RDir m dl kids) -> In x (mrr_dir_specs t L p) ->
    exists r b bd bc ents cents,
      place (mrr_pin v dt x) = Some r /\
      (* the record as it lies in the directory extent, and its System Use field *)
      enc_dr (mrr_drec v dt x) = Some b /\ sysuse (mrr_drec v dt x) = bd /\
      record_list v (map (mrr_patch x) (entries_list (pl_dr r))) = Some bd /\
      bd = concat ents /\ Forall mrr_entry_wf ents /\
      zlen b = 33 + zlen (rs_nm x) + (1 - zlen (rs_nm x) mod 2) + zlen bd + zlen bd mod 2 /\ zlen b <= 254 /\
      (* the continuation entries *)
      record_list v (map (mrr_patch x) (entries_list (pl_ce r))) = Some bc /\
      bc = concat cents /\ Forall mrr_entry_wf cents /\
      (forall a, mrr_su_walk (length bc) bc a =
                 fold_left mrr_absorb_e (map (mrr_patch x) (entries_list (pl_ce r))) a) /\
      (ce_record (pl_dr r) = None -> bc = []) /\
      (forall c, ce_record (pl_dr r) = Some c ->
         In (E_CE (mk_ce (rs_bl x) (rs_off x) (zlen bc))) (map (mrr_patch x) (entries_list (pl_dr r))) /\
         0 < zlen bc /\ 0 <= rs_off x /\ rs_off x + zlen bc <= 2048 /\
         exists blk, In (rs_bl x, blk) img /\ zlen blk = 2048 /\
                     firstn (Z.to_nat (zlen bc)) (skipn (Z.to_nat (rs_off x)) blk) = bc).
  Proof.
    intros Hm p m dl kids x Hp Hx. rewrite (mrr_master_img dt s Hdt Hwf) in Hm. injection Hm as <-.
    destruct (mrr_spec_cont p m dl kids x Hp Hx) as (len & G & Hcont).
    pose proof G as (r0 & P0 & _ & Hmo & Hl & Hb & Ho & C0 & C1 & _).
    destruct (mrr_good_enc dt s Hdt x len G) as (r & b & bd & bc & Hpl & _ & Ed & Ec & Hz & Es & Hsum & Eb & Zb & Hr & _).
    rewrite Hpl in P0. injection P0 as <-.
    assert (Hcel : u32_ok (pl_celen r) = true) by (unfold u32_ok, BS in *; lia).
    destruct (mrr_rec_readable v dt x r Hpl Hmo Hl Hb Ho Hcel) as [Rd Rc].
    destruct (mrr_list_entries v _ Rd bd Ed) as (ents & E1 & F1 & _).
    destruct (mrr_list_entries v _ Rc bc Ec) as (cents & E2 & F2 & _).
    exists r, b, bd, bc, ents, cents. split; [exact Hpl|]. split; [exact Eb|]. split; [exact Es|]. split; [exact Ed|].
    split; [exact E1|]. split; [exact F1|]. split.
    { destruct (dr_len_value _ b Eb) as [Z1 _]. rewrite Z1. unfold Codec.dr_len_of. rewrite Es. cbn [Codec.ident mrr_drec].
      unfold fmt_dr_size. pose proof (zlen_nonneg (rs_nm x)). pose proof (zlen_nonneg bd).
      Ltac Zify.zify_post_hook ::= Z.to_euclidean_division_equations. cbv zeta. lia. }
    split; [lia|]. split; [exact Ec|]. split; [exact E2|]. split; [exact F2|]. split.
    { intros a. apply (mrr_walk_list0 v _ Rc bc _ a Ec). exact (mrr_list_len v _ bc Rc Ec). }
    assert (Hin : 0 <= Account.dr_len_of (rs_nm x)) by (exact (mrr_drlen_nonneg x r)).
    split.
    { intros Hnone.
      destruct (place_complete _ r Hpl Hin) as (_ & _ & _ & _ & _ & _ & _ & _ & _ & _ & _ & _ & Hemp & _).
      rewrite (Hemp Hnone) in Ec. apply some_inv in Ec. symmetry. exact Ec. }
    intros c Hc. assert (Hs : is_some (ce_record (pl_dr r)) = true) by (rewrite Hc; reflexivity).
    destruct (Hcont r bc Hpl Hs Ec) as [Hbin Hslice]. specialize (Hz Hs).
    assert (Hinp : input_ok (mrr_pin v dt x) r).
    { split; [exact Hin|]. split; [exact Hmo|]. split; [reflexivity|exact Hcel]. }
    pose proof (AccountRRPlace.arr_celen_pos _ r Hpl Hin Hs) as Hpos.
    split.
    { destruct (place_ce_len _ r c Hpl Hinp Hc) as (bc0 & _ & -> & Z3 & _).
      apply in_map_iff. exists (E_CE (mk_ce 0 0 (zlen bc0))). split; [cbn [mrr_patch ce_len]; rewrite <- Z3, Hz; reflexivity|].
      apply mrr_ce_in. exact Hc. }
    unfold u32_ok, BS in *. split; [lia|]. split; [lia|]. split; [lia|].
    exists (mrr_block ws (rs_bl x)). split.
    - unfold mrr_img. apply in_or_app. right. apply (in_map (fun e => (e, mrr_block ws e))). exact Hbin.
    - split; [exact (mrr_block_len ws _ (mrr_writes_fit dt s Hdt Hwf))|exact Hslice].
  Qed.

  (* continuation areas of different records never overlap; none lies in the ER sector *)
  Theorem master_rr_areas_disjoint q1 q2 n1 n2 i1 o1 l1 i2 o2 l2 : q1 <> q2 ->
    mrr_node_at t q1 = Some n1 -> mrr_node_at t q2 = Some n2 ->
    m_ce (meta_of n1) = Some (i1, o1, l1) -> m_ce (meta_of n2) = Some (i2, o2, l2) ->
    (mrr_ce_ext t L i1 <> mrr_ce_ext t L i2 \/ o1 + l1 <= o2 \/ o2 + l2 <= o1) /\
    mrr_start s <= mrr_ce_ext t L i1 < l_er L.
  Proof.
    intros Hne H1 H2 K1 K2. split; [|exact (mrr_ce_range dt s Hwf q1 n1 _ H1 K1)].
    destruct (mrr_wf_root dt s Hwf) as (_ & _ & _ & _ & _ & _ & _ & _ & Fop & _).
    pose proof (mrr_keys_pos q1 t q2 n1 n2 _ _ Fop Hne H1 H2 K1 K2) as Hap.
    unfold mrr_apartP, mrr_key_apart in Hap. destruct (Nat.eqb i1 i2) eqn:Ei.
    - right. cbn [negb orb] in Hap. lia.
    - left. apply Nat.eqb_neq in Ei. exact (mrr_ce_inj dt s Hwf q1 n1 _ q2 n2 _ H1 K1 H2 K2 Ei).
  Qed.
End WellFormed.

(* ---- 3. the root's first record ----------------------------------------------------------------------------------- *)
Lemma mrr_rootdot_shape v dt : length dt = 7%nat -> v <> V_unset ->
  match place (mk_pin v true [] DIR_MODE None false false false 0 (Account.dr_len_of [0]) [dt; dt; dt]) with
  | Some r => (exists rest, entries_list (pl_dr r) = E_SP 0 :: rest) /\ entries_list (pl_ce r) = [E_ER (er_of v)]
  | None => False
  end.
Proof.
  intros Hdt Hv. destruct dt as [|a0 [|a1 [|a2 [|a3 [|a4 [|a5 [|a6 [|a7 dt]]]]]]]]; try discriminate Hdt.
  destruct v; [congruence|..]; vm_compute; (split; [eexists; reflexivity|reflexivity]).
Qed.

Theorem master_rr_root_er dt s img : length dt = 7%nat -> mrr_wf dt s = true -> master_rr dt s = Some img ->
  exists m dl kids r rest c bc blk,
    r_root s = RDir m dl kids /\
    place (mrr_pin (r_ver s) dt (mrr_dot_spec s [] dl)) = Some r /\
    (* SP first, with skip 0 *)
    entries_list (pl_dr r) = E_SP 0 :: rest /\
    (* the CE entry points to offset 0 of the ER sector, for the length of the ER entry *)
    ce_record (pl_dr r) = Some c /\
    In (E_CE (mk_ce (l_er (mrr_layout s)) 0 (zlen bc)))
       (map (mrr_patch (mrr_dot_spec s [] dl)) (entries_list (pl_dr r))) /\
    (* which is there, and is the ER entry of the version *)
    entries_list (pl_ce r) = [E_ER (er_of (r_ver s))] /\ rec_entry (r_ver s) (E_ER (er_of (r_ver s))) = Some bc /\
    In (l_er (mrr_layout s), blk) img /\ firstn (Z.to_nat (zlen bc)) blk = bc /\
    er_id (er_of (r_ver s)) = (match r_ver s with V112 => EXT_ID_112 | _ => EXT_ID_109 end).
Proof.
  intros Hdt Hwf Hm. destruct (mrr_wf_root dt s Hwf) as (Hv & m & dl & kids & Et & _).
  assert (Hp : mrr_node_at (r_root s) [] = Some (RDir m dl kids)) by (rewrite Et; reflexivity).
  assert (Hx : In (mrr_dot_spec s [] dl) (mrr_dir_specs (r_root s) (mrr_layout s) [])).
  { unfold mrr_dir_specs. rewrite Hp. left. reflexivity. }
  destruct (master_rr_su_wellformed dt s Hdt Hwf img Hm [] m dl kids _ Hp Hx)
    as (r & b & bd & bc & ents & cents & Hpl & _ & _ & _ & _ & _ & _ & _ & Ec & _ & _ & _ & _ & Hce).
  pose proof (mrr_rootdot_shape (r_ver s) dt Hdt Hv) as Hsh.
  change (mk_pin (r_ver s) true [] DIR_MODE None false false false 0 (Account.dr_len_of [0]) [dt; dt; dt])
    with (mrr_pin (r_ver s) dt (mrr_dot_spec s [] dl)) in Hsh.
  rewrite Hpl in Hsh. destruct Hsh as [(rest & Hd) Hc].
  destruct (mrr_root_dot_ce dt s Hdt Hwf m dl kids Et) as (r' & Hpl' & Hs). rewrite Hpl in Hpl'. injection Hpl' as <-.
  destruct (ce_record (pl_dr r)) as [c|] eqn:Ece; [|discriminate Hs].
  destruct (Hce c eq_refl) as (Hin & _ & _ & _ & blk & Hb & _ & Hsl).
  rewrite Hc in Ec. cbn [map mrr_patch] in Ec. unfold record_list in Ec. cbn [map concat_opt] in Ec.
  destruct (rec_entry (r_ver s) (E_ER (er_of (r_ver s)))) as [be|] eqn:Ee; [|discriminate Ec].
  apply some_inv in Ec. rewrite app_nil_r in Ec. subst bc.
  exists m, dl, kids, r, rest, c, be, blk. split; [exact Et|]. split; [exact Hpl|]. split; [exact Hd|].
  split; [exact Ece|]. split; [exact Hin|]. split; [exact Hc|]. split; [reflexivity|].
  split; [exact Hb|]. split; [exact Hsl|]. destruct (r_ver s); reflexivity.
Qed.

Print Assumptions read_master_rr.
Print Assumptions read_master_rr_frame.
Print Assumptions master_rr_su_wellformed.
Print Assumptions master_rr_areas_disjoint.
Print Assumptions master_rr_root_er.
