(* C12 -- Model/HybridHist.v: in the current tree (07829f6, 09176f7, b44c076, ed6ec41) the reshuffle of a hybrid image
   never raises, for every history; write_fp succeeds exactly when the record() calls and the seek
   before the backup GPT accept their values ([record_ok]). *)
From Coq Require Import ZArith List Bool Arith Lia.
From PV.Base Require Import Prim.
From PV.Gen Require Import GenConst GenFun.
From PV.Model Require Import Names Pack Alloc Codec Eltorito Account AccountLinks AccountBoot Hybrid HybridHist.
Import ListNotations.
Local Open Scope Z_scope.

(* the GPT objects hold the partitions that update_efi / update_mac index *)
Definition hy_wf (y : hybrid) : Prop :=
  (ih_efi (hy_ih y) = true ->
   (2 <= length (g_parts (hy_pri y)))%nat /\ (2 <= length (g_parts (hy_sec y)))%nat) /\
  (ih_mac (hy_ih y) = true ->
   (3 <= length (g_parts (hy_pri y)))%nat /\ (3 <= length (g_parts (hy_sec y)))%nat).

Definition hwf (s : hstate) : Prop := match hhyb s with Some y => hy_wf y | None => True end.

Lemma hh_update_efi_some y ext sc iso :
  hy_wf y -> ih_efi (hy_ih y) = true ->
  exists y', hy_update_efi y ext sc iso = Some y' /\ hy_wf y'.
Proof.
  intros [He Hm] Hefi. destruct (He Hefi) as [Hp Hs].
  unfold hy_update_efi. rewrite Hefi. cbn [negb].
  destruct y as [h [pp ph pparts pa] [sp sh sparts sa]]. cbn [hy_ih hy_pri hy_sec g_parts g_header g_primary g_apm] in *.
  destruct pparts as [|p0 [|p1 pr]]; cbn [length] in Hp; try lia.
  destruct sparts as [|q0 [|q1 qr]]; cbn [length] in Hs; try lia.
  cbn [parts_update_efi]. eexists. split; [reflexivity|].
  unfold hy_wf. cbn [hy_ih hy_pri hy_sec g_parts]. unfold ih_set_efi; cbn [Hybrid.ih_efi Hybrid.ih_mac] in *.
  split; intros H; [split; cbn [length]; lia|]. specialize (Hm H). cbn [length] in *. exact Hm.
Qed.

Lemma hh_update_mac_some y ext sc :
  hy_wf y -> ih_mac (hy_ih y) = true ->
  exists y', hy_update_mac y ext sc = Some y' /\ hy_wf y'.
Proof.
  intros [He Hm] Hmac. destruct (Hm Hmac) as [Hp Hs].
  unfold hy_update_mac. rewrite Hmac. cbn [negb].
  destruct y as [h [pp ph pparts pa] [sp sh sparts sa]]. cbn [hy_ih hy_pri hy_sec g_parts g_header g_primary g_apm] in *.
  destruct pparts as [|p0 [|p1 [|p2 pr]]]; cbn [length] in Hp; try lia.
  destruct sparts as [|q0 [|q1 [|q2 qr]]]; cbn [length] in Hs; try lia.
  cbn [parts_update_mac]. eexists. split; [reflexivity|].
  unfold hy_wf. cbn [hy_ih hy_pri hy_sec g_parts]. unfold ih_set_mac; cbn [Hybrid.ih_efi Hybrid.ih_mac] in *.
  split; intros H; split; cbn [length]; lia.
Qed.

Lemma hh_update_rba_wf y ext : hy_wf y -> hy_wf (hy_update_rba y ext).
Proof.
  unfold hy_wf, hy_update_rba, ih_update_rba, ih_set_rba. destruct y as [h p s]. cbn. tauto.
Qed.

Definition pst_good (st : pst) : Prop := p_ok st = true /\ hy_wf (p_hy st).

Lemma hh_push_step_good s st e : pst_good st -> pst_good (push_step s st e).
Proof.
  intros [Hok Hwf]. unfold push_step, push_step_gen. cbv zeta. rewrite Hok. cbn [negb orb].
  destruct (AccountBoot.mem (fst (snd e)) (p_ents st)); [split; assumption|].
  rewrite andb_false_r.
  set (seen := if AccountBoot.mem (fst (snd (snd e))) (p_seen st) then p_seen st
               else fst (snd (snd e)) :: p_seen st).
  clearbody seen.
  destruct (fst (snd (snd (snd e))) =? 239).
  - destruct (p_nefi st =? 0) eqn:E0; cbn [andb].
    + destruct (ih_efi (hy_ih (p_hy st))) eqn:Ee.
      * destruct (hh_update_efi_some (p_hy st) (rba_of s (fst (snd (snd e)))) (snd (snd (snd (snd e))))
                    (lspace (bl s) * C) Hwf Ee) as (y' & Hy & Hw).
        rewrite Hy. split; [reflexivity|exact Hw].
      * destruct (p_nefi st =? 1); cbn [andb]; [|split; [reflexivity|exact Hwf]].
        destruct (ih_mac (hy_ih (p_hy st))) eqn:Em; [|split; [reflexivity|exact Hwf]].
        destruct (hh_update_mac_some (p_hy st) (rba_of s (fst (snd (snd e)))) (snd (snd (snd (snd e)))) Hwf Em)
          as (y' & Hy & Hw).
        rewrite Hy. split; [reflexivity|exact Hw].
    + destruct (p_nefi st =? 1); cbn [andb]; [|split; [reflexivity|exact Hwf]].
      destruct (ih_mac (hy_ih (p_hy st))) eqn:Em; [|split; [reflexivity|exact Hwf]].
      destruct (hh_update_mac_some (p_hy st) (rba_of s (fst (snd (snd e)))) (snd (snd (snd (snd e)))) Hwf Em)
        as (y' & Hy & Hw).
      rewrite Hy. split; [reflexivity|exact Hw].
  - destruct ((fst (snd (snd (snd e))) =? 0) && _); (split; [reflexivity|]); [apply hh_update_rba_wf|]; exact Hwf.
Qed.

Lemma hh_fold_push_good s l st : pst_good st -> pst_good (fold_left (push_step s) l st).
Proof.
  revert st. induction l as [|e r IH]; intros st H; [exact H|]. cbn [fold_left]. apply IH.
  apply hh_push_step_good. exact H.
Qed.

(* the hybrid part of _reshuffle_extents never raises on a well-formed hybrid object *)
Theorem hh_push_good b y : hy_wf y -> p_ok (push b y) = true /\ hy_wf (p_hy (push b y)).
Proof.
  intros H. unfold push, push_gen. destruct (bboot b); [|split; [reflexivity|exact H]].
  apply (hh_fold_push_good b _ (mk_pst [] [] 0 y true)). split; [reflexivity|exact H].
Qed.

Lemma hh_gpt_new_parts prim mac d a b c :
  length (g_parts (gpt_new prim mac d a b c)) = if mac then 3%nat else 2%nat.
Proof. unfold gpt_new. destruct mac; reflexivity. Qed.

Lemma hh_copy_guids_length pri sec : length (copy_part_guids pri sec) = length sec.
Proof.
  revert sec. induction pri as [|p pr IH]; intros [|q qr]; cbn [copy_part_guids length]; try reflexivity.
  rewrite IH. reflexivity.
Qed.

Lemma hh_new_wf efi mac pe id po gs gh pt pg sg y :
  (mac = true -> efi = true) -> hy_new efi mac pe id po gs gh pt pg sg = Some y -> hy_wf y.
Proof.
  intros Hme H. unfold hy_new in H.
  destruct (ih_new efi mac pe id po gs gh pt) as [h|] eqn:En; [|discriminate].
  assert (Hf : ih_efi h = efi /\ ih_mac h = mac).
  { unfold ih_new in En. destruct (_ || _); [discriminate|]. destruct (_ || _); [discriminate|].
    destruct (mac && _); [discriminate|]. injection En as <-. split; reflexivity. }
  destruct Hf as [Hfe Hfm].
  destruct pg as [[[pd p1] p2] p3]. destruct sg as [[[sd s1] s2] s3].
  destruct efi.
  - injection H as <-. unfold hy_wf. cbn [hy_ih hy_pri hy_sec g_parts].
    rewrite hh_copy_guids_length, !hh_gpt_new_parts, Hfm.
    split; intros Hx; [destruct mac; cbn [length]; split; lia|]. rewrite Hx. cbn [length]. split; lia.
  - injection H as <-. unfold hy_wf. cbn [hy_ih]. rewrite Hfe, Hfm.
    split; intros Hx; [discriminate|]. specialize (Hme Hx). discriminate.
Qed.

Lemma hh_add_hybrid_wf fp s pe id po gs gh pt mac efi g :
  hwf s -> hwf (fst (hstep_add_hybrid_gen fp s pe id po gs gh pt mac efi g)).
Proof.
  intros Hs. unfold hstep_add_hybrid_gen.
  destruct (bboot (hb s)) as [b|]; [|exact Hs].
  destruct (negb _); [exact Hs|].
  destruct (match efi with Some e => if negb e && mac then None else Some e | None => Some mac end)
    as [e|] eqn:Ee; [|exact Hs].
  assert (Hme : mac = true -> e = true).
  { intros ->. destruct efi as [[|]|]; cbn in Ee; congruence. }
  destruct (e && _); [exact Hs|]. destruct (mac && _); [exact Hs|].
  destruct (fp && _); [exact Hs|].
  destruct (binos b) as [|i r]; [exact Hs|].
  destruct (negb (AccountBoot.mem i (hsigs s))); [exact Hs|].
  destruct (fp && _); [exact Hs|].
  destruct (hy_new _ _ _ _ _ _ _ _ _ _) as [y|] eqn:En; [|exact Hs].
  cbn [fst]. unfold hwf, with_hyb. cbn [hhyb]. eapply hh_new_wf; eassumption.
Qed.

Lemma hh_step_wf s o : hwf s -> hwf (fst (hstep s o)).
Proof.
  intros Hs. unfold hstep. destruct o as [o|d n len|pe id po gs gh pt mac efi g| |]; cbn [hstep_gen].
  - cbn [fst]. destruct (snd (bstep (hb s) o)); try exact Hs.
    destruct (true && is_rm_eltorito o); [exact I|exact Hs].
  - destruct (snd (bstep (hb s) (BAddFile d n len))); exact Hs.
  - destruct (bwreck (hb s)); [exact Hs|]. apply hh_add_hybrid_wf. exact Hs.
  - exact I.
  - unfold hstep_write_gen. destruct (bwreck (hb s)); [exact Hs|].
    unfold hwf in *. destruct (hhyb s) as [y|] eqn:Ey; [|cbn [fst]; rewrite Ey; exact I].
    destruct (hh_push_good (hb s) y Hs) as [_ Hw]. fold push.
    destruct (_ && _); cbn [fst with_hyb hhyb]; exact Hw.
Qed.

Theorem hh_run_wf ops : hwf (hrun hinit ops).
Proof.
  unfold hrun, hrun_gen. assert (H : hwf hinit) by exact I. revert H. generalize hinit.
  induction ops as [|o r IH]; intros s H; [exact H|]. cbn [fold_left]. apply IH. apply (hh_step_wf s o H).
Qed.

(* EVERY history (accepted or not), current tree: unless an earlier late refusal of add_eltorito
   wrecked the object, the reshuffle done by write_fp does not raise (no InternalError), and
   write_fp is accepted EXACTLY WHEN record() / secondary_gpt.record() accept the values and the
   seek before the backup GPT is not negative ([record_ok]); an image that is not hybrid is
   always written *)
Theorem hh_write_succeeds ops :
  let s := hrun hinit ops in
  bwreck (hb s) = false ->
  match hhyb s with
  | None => hstep s HWrite = (s, Acc)
  | Some y =>
      p_ok (push (hb s) y) = true /\
      (snd (hstep s HWrite) = Acc <-> record_ok (p_hy (push (hb s) y)) (iso_size_of s) = true) /\
      (snd (hstep s HWrite) <> Acc -> snd (hstep s HWrite) = Late)
  end.
Proof.
  intros s Hw. pose proof (hh_run_wf ops) as Hwf. fold s in Hwf. unfold hwf in Hwf.
  unfold hstep. cbn [hstep_gen]. unfold hstep_write_gen. rewrite Hw.
  destruct (hhyb s) as [y|]; [|reflexivity].
  destruct (hh_push_good (hb s) y Hwf) as [Hok _]. fold push. rewrite Hok. cbn [andb].
  split; [reflexivity|].
  destruct (record_ok (p_hy (push (hb s) y)) (iso_size_of s)); cbn [snd]; split.
  - split; reflexivity.
  - intros H; contradiction H; reflexivity.
  - split; discriminate.
  - reflexivity.
Qed.

(* [record_ok] spelled out for a hybrid without efi: the MBR's struct.pack calls *)
Theorem hh_record_ok_plain y iso :
  ih_efi (hy_ih y) = false ->
  record_ok y iso = match ih_record_mbr (hy_ih y) iso with Some _ => true | None => false end.
Proof.
  intros H. unfold record_ok, hy_record. destruct (ih_record_mbr (hy_ih y) iso); [|reflexivity].
  rewrite H. reflexivity.
Qed.

Print Assumptions hh_push_good.
Print Assumptions hh_run_wf.
Print Assumptions hh_write_succeeds.
Print Assumptions hh_record_ok_plain.
