(* Parse, part 1: the record loop of _walk_directories on one directory extent as the writer packs it.
     ps_scan_pack   on the byte stream of _write_directory_records (Master.ms_pack, then zeros up to
                    data_length) the loop hands exactly the packed records, one by one and whole, to
                    the per-record step; neither 'Invalid directory record' nor 'Invalid padding on
                    ISO' is raised; the loop stops exactly at data_length
     ps_scan_dir    the same for a whole directory extent (Master.ms_dir_bytes), from offset 0 *)
From Coq Require Import ZArith List Bool Lia ZifyBool.
From PV.Base Require Import Prim ListX.
From PV.Gen Require Import GenConst GenFun.
From PV.Model Require Import Codec Pack PathTable Master Parse.
From PV.Proofs Require Import CodecProofs PackProofs MasterPack MasterChecker.
Import ListNotations.
Local Open Scope Z_scope.
Ltac Zify.zify_post_hook ::= Z.to_euclidean_division_equations.

(* what the loop needs to know about the bytes of a record: byte 0 is its length *)
Definition ps_bgood (b : list Z) : Prop := nth 0 b 0 = zlen b /\ 0 < zlen b <= BS.

Lemma ps_good_bgood r b : ms_good r b -> ps_bgood b.
Proof. intros (_ & H0 & Hl). split; assumption. Qed.

Lemma ps_zlist_eqb_refl l : zlist_eqb l l = true.
Proof. induction l as [|x l IH]; [reflexivity|]. cbn [zlist_eqb]. rewrite Z.eqb_refl. exact IH. Qed.

Lemma ps_firstn_repeat (x : Z) k n : (k <= n)%nat -> firstn k (repeat x n) = repeat x k.
Proof.
  revert n; induction k as [|k IH]; intros n H; [reflexivity|].
  destruct n as [|n]; [lia|]. cbn [repeat firstn]. rewrite IH by lia. reflexivity.
Qed.

Section Scan.
  Context {S : Type}.
  Variable step : S -> list Z -> presult S.

  (* the per-record step applied to a list of records, stopping at the first failure *)
  Fixpoint ps_fold (s : S) (bs : list (list Z)) : presult S :=
    match bs with
    | [] => POk s
    | b :: r => match step s b with POk s' => ps_fold s' r | e => e end
    end.

  Lemma ps_scan_zeros n : forall fuel a len s, (n < fuel)%nat -> 0 <= a -> len = a + Z.of_nat n ->
    len mod BS = 0 -> ps_scan step fuel (repeat 0 n) a len s = POk s.
  Proof.
    induction n as [n IH] using lt_wf_ind. intros fuel a len s Hf Ha Hlen Hm.
    destruct fuel as [|f]; [lia|]. cbn [ps_scan]. destruct n as [|n].
    - replace (a <? len) with false by lia. reflexivity.
    - replace (a <? len) with true by lia. cbn [repeat]. rewrite Z.eqb_refl. cbv zeta.
      change (0 :: repeat 0 n) with (repeat 0 (Datatypes.S n)).
      rewrite ms_BS in *.
      assert (Hp : (Z.to_nat (2048 - a mod 2048) <= Datatypes.S n)%nat) by lia.
      rewrite (ps_firstn_repeat 0 _ _ Hp), ps_zlist_eqb_refl, ms_skipn_repeat.
      apply IH; lia.
  Qed.

  Lemma ps_scan_step b f rest a len s : ps_bgood b -> a < len ->
    ps_scan step (Datatypes.S f) (b ++ rest) a len s =
    match step s b with POk s' => ps_scan step f rest (a + zlen b) len s' | e => e end.
  Proof.
    intros (H0 & Hl) Hlt. destruct b as [|x b']; [unfold zlen in Hl; cbn [length] in Hl; lia|].
    cbn [nth] in H0. cbn [app ps_scan]. replace (a <? len) with true by lia.
    destruct (x =? 0) eqn:E; [lia|].
    change (x :: b' ++ rest) with ((x :: b') ++ rest).
    assert (Hn : Z.to_nat x = length (x :: b')) by (unfold zlen in H0; lia).
    replace (a + x) with (a + zlen (x :: b')) by lia.
    rewrite Hn, firstn_app, Nat.sub_diag, firstn_all, firstn_O, app_nil_r.
    rewrite skipn_app, Nat.sub_diag, skipn_all. reflexivity.
  Qed.

  Theorem ps_scan_pack bs : Forall ps_bgood bs -> forall o a n fuel len s,
    0 <= o <= BS -> 0 <= a -> (a - o) mod BS = 0 ->
    (length (ms_pack o bs) + n < fuel)%nat ->
    len = a + zlen (ms_pack o bs) + Z.of_nat n -> len mod BS = 0 ->
    ps_scan step fuel (ms_pack o bs ++ repeat 0 n) a len s = ps_fold s bs.
  Proof.
    induction 1 as [|b bs Hg Hrest IH]; intros o a n fuel len s Ho Ha Hao Hf Hlen Hm.
    - cbn [ms_pack app ps_fold] in *. rewrite zlen_nil in Hlen. apply ps_scan_zeros; [exact Hf|exact Ha|lia|exact Hm].
    - pose proof Hg as (_ & Hl). cbn [ms_pack ps_fold] in *.
      assert (Hlb : (0 < length b)%nat) by (unfold zlen in Hl; lia).
      pose proof (zlen_nonneg (ms_pack (0 + zlen b) bs)) as Hp0.
      pose proof (zlen_nonneg (ms_pack (o + zlen b) bs)) as Hp1.
      gtb_case (o + zlen b) BS Ht.
      + (* the record does not fit: zero padding to the block boundary, then the record *)
        rewrite !app_length, repeat_length in Hf. rewrite !zlen_app, ms_zlen_repeat in Hlen.
        assert (Hstart : forall f a', 0 <= a' -> a' mod BS = 0 ->
                  (length b + length (ms_pack (0 + zlen b) bs) + n < Datatypes.S f)%nat ->
                  len = a' + zlen b + zlen (ms_pack (0 + zlen b) bs) + Z.of_nat n ->
                  ps_scan step (Datatypes.S f) ((b ++ ms_pack (0 + zlen b) bs) ++ repeat 0 n) a' len s =
                  match step s b with POk s' => ps_fold s' bs | e => e end).
        { intros f a' Ha' Hm' Hf' Hl'. rewrite <- app_assoc, (ps_scan_step b _ _ _ _ _ Hg) by lia.
          destruct (step s b) as [s'| | |]; try reflexivity.
          apply (IH (0 + zlen b) (a' + zlen b) n f); [rewrite ms_BS in *; lia|lia|rewrite ms_BS in *; lia|lia|lia|exact Hm]. }
        destruct (Z.eq_dec o BS) as [Eo|Eo].
        * rewrite Eo, Z.sub_diag. cbn [Z.to_nat repeat app].
          destruct fuel as [|f]; [lia|]. apply Hstart.
          -- exact Ha.
          -- rewrite ms_BS in *. lia.
          -- rewrite Eo, Z.sub_diag in Hf. cbn [Z.to_nat] in Hf. lia.
          -- rewrite ms_BS in *. lia.
        * destruct fuel as [|f]; [lia|].
          assert (Hk : exists k, Z.to_nat (BS - o) = Datatypes.S k) by (exists (Z.to_nat (BS - o) - 1)%nat; lia).
          destruct Hk as [k Hk]. rewrite <- app_assoc.
          set (tail := (b ++ ms_pack (0 + zlen b) bs) ++ repeat 0 n).
          rewrite Hk at 1. cbn [repeat app ps_scan].
          replace (a <? len) with true by lia.
          rewrite Z.eqb_refl. cbv zeta.
          assert (Hskip : Z.to_nat (BS - a mod BS) = Datatypes.S k) by (rewrite ms_BS in *; lia).
          rewrite Hskip.
          change (0 :: repeat 0 k ++ tail) with (repeat 0 (Datatypes.S k) ++ tail).
          rewrite firstn_app, repeat_length, Nat.sub_diag, firstn_O, app_nil_r.
          rewrite (ps_firstn_repeat 0 _ _ (le_n _)), ps_zlist_eqb_refl, ms_skipn_repeat_app.
          destruct f as [|f]; [lia|]. unfold tail. apply Hstart.
          -- rewrite ms_BS in *. lia.
          -- rewrite ms_BS in *. lia.
          -- lia.
          -- rewrite ms_BS in *. lia.
      + (* the record fits in the current block *)
        rewrite app_length in Hf. rewrite zlen_app in Hlen.
        destruct fuel as [|f]; [lia|]. rewrite <- app_assoc, (ps_scan_step b _ _ _ _ _ Hg) by lia.
        destruct (step s b) as [s'| | |]; try reflexivity.
        apply (IH (o + zlen b) (a + zlen b) n f); [lia|lia| |lia|lia|exact Hm].
        replace (a + zlen b - (o + zlen b)) with (a - o) by lia. exact Hao.
  Qed.

  (* the whole extent of a directory, read from offset 0 up to data_length *)
  Theorem ps_scan_dir bs dl s : Forall ps_bgood bs ->
    dl mod BS = 0 -> num_extents BS (map zlen bs) * BS <= dl ->
    ps_scan step (Datatypes.S (length (ms_dir_bytes dl bs))) (ms_dir_bytes dl bs) 0 dl s = ps_fold s bs.
  Proof.
    intros HF Hmod Hdl.
    assert (Hsz : Forall (fun b => zlen b <= BS) bs).
    { clear -HF. induction HF as [|b bs (_ & Hl) _ IH]; constructor; [lia|exact IH]. }
    pose proof (ms_pack_len bs Hsz) as Hlen.
    unfold ms_dir_bytes. cbv zeta. apply (ps_scan_pack bs HF 0 0).
    - rewrite ms_BS. lia.
    - lia.
    - reflexivity.
    - rewrite app_length, repeat_length. lia.
    - lia.
    - exact Hmod.
  Qed.
End Scan.

Print Assumptions ps_scan_pack.
Print Assumptions ps_scan_dir.
