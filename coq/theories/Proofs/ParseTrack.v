(* Parse, part 2: what one record needs.
     ps_bisect_all      bisect_left returns len(children) when every child sorts before the new one
     ps_track_append    ... and then track_child appends it and caches its position from the last child
     ps_lt_*            DirectoryRecord.__lt__ on '.', '..' and two ordinary identifiers
     ps_level_*         the interchange-level inference never raises on a name the library accepted,
                        and yields 1 or 3
     ps_enc_facts       bytes 0 and 32 of an encoded record, and DirectoryRecord.parse of it *)
From Coq Require Import ZArith List Bool Lia ZifyBool.
From PV.Base Require Import Prim ListX.
From PV.Gen Require Import GenConst GenFun.
From PV.Model Require Import Codec Pack PathTable Names Master Parse.
From PV.Proofs Require Import CodecProofs PackProofs NamesProofs NamesCheckProofs AccountLemmas.
From PV.Proofs Require Import MasterPack MasterWf MasterChecker.
Import ListNotations.
Local Open Scope Z_scope.

(* ---- bisect_left ---------------------------------------------------------------------------------- *)

Lemma ps_bisect_all lt l : (forall a, In a l -> lt a = true) ->
  forall fuel lo, (lo <= length l)%nat -> (length l - lo < fuel)%nat ->
  ps_bisect fuel lt l lo (length l) = length l.
Proof.
  intros Hall. induction fuel as [|f IH]; intros lo Hlo Hf; [lia|].
  cbn [ps_bisect]. destruct (lo <? length l)%nat eqn:E.
  - apply Nat.ltb_lt in E.
    assert (Hmid : ((lo + length l) / 2 < length l)%nat).
    { apply Nat.div_lt_upper_bound; lia. }
    assert (Hmid2 : (lo <= (lo + length l) / 2)%nat).
    { apply Nat.div_le_lower_bound; lia. }
    destruct (nth_error l ((lo + length l) / 2)) as [a|] eqn:En.
    + rewrite (Hall a (nth_error_In _ _ En)). apply IH; lia.
    + apply nth_error_None in En. lia.
  - apply Nat.ltb_ge in E. lia.
Qed.

(* ---- track_child of a record that sorts after all the others ---------------------------------------- *)

Definition ps_step_n (n off x : Z) : Z := if (off + x) >? BS then n + 1 else n.
Definition ps_step_off (off x : Z) : Z := (if (off + x) >? BS then 0 else off) + x.

(* the cached position of the last child, (1, 0) before the first *)
Definition ps_last_cache (cur : list prec) : Z * Z :=
  match rev cur with
  | [] => (1, 0)
  | c :: _ => (p_eth c, p_oth c)
  end.

Lemma ps_last_cache_snoc cur c : ps_last_cache (cur ++ [c]) = (p_eth c, p_oth c).
Proof. unfold ps_last_cache. rewrite rev_app_distr. reflexivity. Qed.

Lemma ps_recalc_append cur child :
  ps_recalc (length cur) (cur ++ [child]) =
  cur ++ [ps_set_cache child (Z.of_nat (length cur))
                       (ps_step_n (fst (ps_last_cache cur)) (snd (ps_last_cache cur)) (p_drlen child))
                       (ps_step_off (snd (ps_last_cache cur)) (p_drlen child))].
Proof.
  unfold ps_recalc. rewrite firstn_app, Nat.sub_diag, firstn_all, firstn_O, app_nil_r.
  rewrite skipn_app, Nat.sub_diag, skipn_all. cbn [app skipn ps_renum]. f_equal.
  assert (E : match length cur with
              | O => (1, 0)
              | S k => match nth_error (cur ++ [child]) k with
                       | Some c => (p_eth c, p_oth c)
                       | None => (1, 0)
                       end
              end = ps_last_cache cur).
  { destruct cur as [|c0 cur'] using rev_ind; [reflexivity|].
    rewrite ps_last_cache_snoc, app_length. cbn [length]. rewrite Nat.add_1_r.
    rewrite <- app_assoc. rewrite nth_error_app2 by lia. rewrite Nat.sub_diag. reflexivity. }
  rewrite E. reflexivity.
Qed.

Lemma ps_track_append cur child last :
  (forall a, In a cur -> ps_lt (Codec.ident (p_rec a)) (Codec.ident (p_rec child)) = true) ->
  ps_track cur child last =
  POk (cur ++ [ps_set_cache child (Z.of_nat (length cur))
                            (ps_step_n (fst (ps_last_cache cur)) (snd (ps_last_cache cur)) (p_drlen child))
                            (ps_step_off (snd (ps_last_cache cur)) (p_drlen child))]).
Proof.
  intros Hall. unfold ps_track.
  rewrite (ps_bisect_all _ cur Hall) by lia.
  replace (nth_error cur (length cur)) with (@None prec) by (symmetry; apply nth_error_None; lia).
  cbv iota zeta.
  unfold insert_at. rewrite firstn_all, skipn_all, ps_recalc_append. reflexivity.
Qed.

(* ---- __lt__ ---------------------------------------------------------------------------------------- *)

Definition ps_plain (nm : list Z) : Prop := nm <> [0] /\ nm <> [1].

Lemma ps_zlist_eqb_false a b : a <> b -> zlist_eqb a b = false.
Proof.
  intros H. destruct (zlist_eqb a b) eqn:E; [|reflexivity]. exfalso. apply H.
  apply ms_zlist_eqb_eq. exact E.
Qed.

Lemma ps_lt_dot nm : nm <> [0] -> ps_lt [0] nm = true.
Proof. intros H. unfold ps_lt. cbn [zlist_eqb Z.eqb andb]. rewrite (ps_zlist_eqb_false nm [0] H). reflexivity. Qed.

Lemma ps_lt_dotdot nm : nm <> [0] -> ps_lt [1] nm = true.
Proof.
  intros H. unfold ps_lt. change (zlist_eqb [1] [0]) with false. cbv iota.
  rewrite (ps_zlist_eqb_false nm [0] H). reflexivity.
Qed.

Lemma ps_lt_plain a b : ps_plain a -> ps_plain b -> ps_lt a b = Account.bytes_ltb a b.
Proof.
  intros [A0 A1] [B0 B1]. unfold ps_lt.
  rewrite (ps_zlist_eqb_false a [0] A0), (ps_zlist_eqb_false b [0] B0),
          (ps_zlist_eqb_false a [1] A1), (ps_zlist_eqb_false b [1] B1). reflexivity.
Qed.

(* ---- names the library accepted ---------------------------------------------------------------------- *)

Lemma ps_file_name_plain nm : check_iso9660_filename nm 3 = Accept -> ps_plain nm.
Proof. intros H. split; intros ->; vm_compute in H; discriminate. Qed.

Lemma ps_dir_name_plain nm : check_iso9660_directory nm 3 = Accept -> ps_plain nm.
Proof. intros H. split; intros ->; vm_compute in H; discriminate. Qed.

Lemma ps_level_dir_13 nm : Z.max 3 (ps_level_dir nm) = 3.
Proof. unfold ps_level_dir. destruct ((zlen nm >? 8) || negb (all_d1 nm)); reflexivity. Qed.

Lemma ps_level_file_ok nm : check_iso9660_filename nm 3 = Accept ->
  exists lv, ps_level_file nm = Some lv /\ Z.max 3 lv = 3.
Proof.
  unfold check_iso9660_filename, check_iso9660_filename_gen, ps_level_file.
  destruct (split_iso9660_filename nm) as [[name ext] ver]. cbv beta iota zeta.
  destruct (check_version true ver) eqn:Ev; try discriminate. intros _.
  destruct (check_version_accept ver Ev) as (Hd & _ & _).
  destruct ver as [|c v].
  - eexists. split; [reflexivity|].
    destruct (false || Names.mem semi name || Names.mem semi ext || (zlen name >? 8) || (zlen ext >? 3)
              || negb (all_d1 name && all_d1 ext)); reflexivity.
  - rewrite (py_int_digits (c :: v)) by (try discriminate; exact Hd).
    eexists. split; [reflexivity|].
    match goal with |- Z.max 3 (if ?b then 3 else 1) = 3 => destruct b; reflexivity end.
Qed.

(* ---- the bytes of a record of the writer -------------------------------------------------------------- *)

Lemma ps_nth32 dl lf r rest : nth 32 (concat (dr_fields dl lf r) ++ rest) 0 = lf.
Proof.
  pose proof (dr_header_len dl lf r) as Hl.
  pose (F12 := [[dl]; [xattr_len r]; le32 (extent r); le32 (swab32 (extent r)); le32 (data_len r);
                le32 (swab32 (data_len r)); pack_s 7 (date r); [flags r]; [unit_size r]; [gap_size r];
                le16 (seqnum r); le16 (swab16 (seqnum r))]).
  assert (E : dr_fields dl lf r = F12 ++ [[lf]]) by reflexivity.
  clearbody F12. rewrite E in Hl |- *. rewrite concat_app in Hl |- *.
  change (concat [[lf]]) with [lf] in *.
  rewrite app_length in Hl. cbn [length] in Hl. unfold fmt_dr_size in Hl.
  rewrite <- app_assoc. rewrite app_nth2 by lia.
  replace (32 - length (concat F12))%nat with 0%nat by lia. reflexivity.
Qed.

Theorem ps_enc_facts dt ext len fl nm : length dt = 7%nat ->
  0 <= ext <= 4294967295 -> 0 <= len <= 4294967295 -> 0 <= fl <= 255 ->
  34 <= Account.dr_len_of nm <= 254 ->
  let r := ms_rec dt ext len fl nm in
  parse_dr (ms_enc r) = Some r /\ znth 0 (ms_enc r) = Account.dr_len_of nm /\
  znth 32 (ms_enc r) = zlen nm /\ (nth 0 (ms_enc r) 0 = zlen (ms_enc r) /\ 0 < zlen (ms_enc r) <= BS) /\
  zlen (ms_enc r) = Account.dr_len_of nm.
Proof.
  intros Hdt He Hl Hf Hn r.
  destruct (ms_rec_good dt ext len fl nm Hdt He Hl Hf Hn) as (b & Hb & (Hdec & H0 & Hlen) & Hz).
  fold r in Hb, Hdec. destruct (ms_enc_of _ _ Hb) as [-> _].
  assert (Hw : wf_drec r) by (split; [exact Hdt|left; reflexivity]).
  split; [rewrite (parse_dr_enc r b Hw Hb); reflexivity|].
  split; [unfold znth; cbn [Z.to_nat]; rewrite H0; exact Hz|].
  split; [|split; [split; assumption|exact Hz]].
  unfold enc_dr in Hb. rewrite enc_dr_raw_eq in Hb.
  destruct (dr_ranges_ok (Codec.dr_len_of r) (zlen (Codec.ident r)) r); [|discriminate].
  apply some_inv in Hb. subst b. unfold znth. change (Z.to_nat 32) with 32%nat.
  rewrite ps_nth32. reflexivity.
Qed.

Print Assumptions ps_track_append.
Print Assumptions ps_level_file_ok.
Print Assumptions ps_enc_facts.
