(* C07 -- hard links in the ISO9660 namespace, part 3: the invariant LInv of Model/AccountLinks.v and
   its preservation by each of the six operations.  The theorems are in AccountLinksProofs.v. *)
From Coq Require Import ZArith List Bool Lia ZifyBool Sorted Arith Permutation.
From PV.Base Require Import Prim.
From PV.Gen Require Import GenConst GenFun.
From PV.Model Require Import Names Checksums Pack Alloc Account AccountLinks.
From PV.Proofs Require Import PackProofs AllocProofs ChecksumsArithProofs AccountLemmas AccountProofs
     AccountLinksLemmas AccountLinksPurge.
Import ListNotations.
Local Open Scope Z_scope.
Ltac Zify.zify_post_hook ::= Z.to_euclidean_division_equations.

(* ---- the invariant ------------------------------------------------------------------------ *)

Record LInv (s : lstate) : Prop := {
  linv_space : lspace s = 19 + 2 * lptr_ext s + ltotal lw_dblk (lroot s) + tbl_sum (linodes s);
  linv_root : lname (lroot s) = [0] /\ l_is_dir (lroot s) = true;
  linv_tree : lall_ok (lroot s);
  linv_ptr : PtrInv (lptr_size s) (lptr_ext s);
  linv_ptr_sum : lptr_size s = ltotal lw_ptr (lroot s);
  (* the inode table has distinct ids and is exactly the set of inodes referenced by at least
     one record of the tree *)
  linv_tbl : tbl_ok (linodes s) (lroot s);
  linv_fresh : forall i, In i (ids (linodes s)) -> (i < lnext s)%nat;
  linv_len : Forall (fun e => 0 <= snd e <= max_len) (linodes s)
}.

(* THE key equation *)
Theorem linv_layout s : LInv s -> lspace s = llayout_end s.
Proof. intros HI. rewrite (llayout_end_closed s (linv_tbl s HI)). apply (linv_space s HI). Qed.

Theorem linit_ok : LInv linit.
Proof.
  constructor.
  - vm_compute. reflexivity.
  - split; reflexivity.
  - apply lall_ok_dir. split; [apply dir_ok_new|constructor].
  - destruct ptr_init as (_ & H & _). exact H.
  - vm_compute. reflexivity.
  - split; [constructor|]. intros i. cbn [linit linodes lroot ids map In].
    unfold lrefcount. rewrite ltotal_dir, ltotals_nil. unfold lw_ref. cbn [is_ref]. lia.
  - intros i [].
  - constructor.
Qed.

(* ---- one generic update -------------------------------------------------------------------- *)

Lemma lfound_dir s p dn dl kids : LInv s -> lsubtree p (lroot s) = Some (LDir dn dl kids) ->
  dir_ok dl (map lname kids) /\ Forall lall_ok kids.
Proof.
  intros HI H. apply (lall_ok_dir dn). eapply lsubtree_all_ok; [apply (linv_tree s HI)|exact H].
Qed.

Lemma lrefcount_replace i p root dn dl kids dl' kids' :
  lsubtree p root = Some (LDir dn dl kids) ->
  lrefcount i (lreplace p (LDir dn dl' kids') root) =
  lrefcount i root + (ltotals (lw_ref i) kids' - ltotals (lw_ref i) kids).
Proof.
  intros H. unfold lrefcount. rewrite (ltotal_replace _ p _ _ _ H), !ltotal_dir.
  change (lw_ref i (LDir dn ?d [])) with 0. lia.
Qed.

Lemma lupdate_inv s p dn dl kids dl' kids' ps' pe' sp' tbl' nx' :
  LInv s -> lsubtree p (lroot s) = Some (LDir dn dl kids) ->
  lall_ok (LDir dn dl' kids') ->
  PtrInv ps' pe' ->
  ps' = lptr_size s + (ltotals lw_ptr kids' - ltotals lw_ptr kids) ->
  sp' = lspace s + 2 * (pe' - lptr_ext s) + (blocks_of dl' - blocks_of dl)
        + (ltotals lw_dblk kids' - ltotals lw_dblk kids) + (tbl_sum tbl' - tbl_sum (linodes s)) ->
  NoDup (ids tbl') ->
  (forall i, In i (ids tbl') <->
             0 < lrefcount i (lroot s) + (ltotals (lw_ref i) kids' - ltotals (lw_ref i) kids)) ->
  (forall i, In i (ids tbl') -> (i < nx')%nat) ->
  Forall (fun e => 0 <= snd e <= max_len) tbl' ->
  LInv {| lroot := lreplace p (LDir dn dl' kids') (lroot s); linodes := tbl'; lnext := nx';
          lptr_size := ps'; lptr_ext := pe'; lspace := sp' |}.
Proof.
  intros HI Hsub Hok Hptr Hps Hsp HN HR HFr HL.
  constructor; cbn [lroot linodes lnext lptr_size lptr_ext lspace].
  - rewrite (ltotal_replace _ p _ _ _ Hsub), !ltotal_dir.
    pose proof (linv_space s HI) as E.
    change (lw_dblk (LDir dn ?d [])) with (blocks_of d). lia.
  - destruct (linv_root s HI) as [Hn Hd]. split.
    + rewrite (lreplace_name p _ _ _ Hsub); [exact Hn|reflexivity].
    + rewrite (lreplace_is_dir p _ _ _ Hsub); [exact Hd|reflexivity].
  - apply (lall_ok_replace p _ _ _ Hsub); [reflexivity|apply (linv_tree s HI)|exact Hok].
  - exact Hptr.
  - rewrite (ltotal_replace _ p _ _ _ Hsub), !ltotal_dir, Hps, (linv_ptr_sum s HI).
    change (lw_ptr (LDir dn ?d [])) with (ptr_record_length (zlen dn)). lia.
  - split; [exact HN|]. intros i. rewrite (lrefcount_replace i p _ _ _ _ _ _ Hsub). apply HR.
  - exact HFr.
  - exact HL.
Qed.

Lemma NoDup_snoc {A} (l : list A) x : NoDup l -> ~ In x l -> NoDup (l ++ [x]).
Proof.
  induction 1 as [|a l Ha Hl IH]; intros Hx; cbn [app]; [constructor; [tauto|constructor]|].
  constructor.
  - rewrite in_app_iff. cbn [In] in *. intros [H|[H|[]]]; [tauto|]. subst. tauto.
  - apply IH. cbn [In] in Hx. tauto.
Qed.

(* ---- adding a record (add_fp, add_hard_link) ------------------------------------------------ *)

Lemma add_record_inv s dirp nm ino tbl extra :
  LInv s ->
  tbl_sum tbl = tbl_sum (linodes s) + blocks_of extra ->
  NoDup (ids tbl) ->
  (forall j, In j (ids tbl) <-> 0 < lrefcount j (lroot s) + lw_ref j (LFile nm ino (lnext s))) ->
  (forall j, In j (ids tbl) -> (j < S (lnext s))%nat) ->
  Forall (fun e => 0 <= snd e <= max_len) tbl ->
  LInv (fst (add_record s dirp nm ino tbl extra)).
Proof.
  intros HI Hsum HN HR HFr HL. unfold add_record, lrefuse. cbv zeta.
  destruct (too_deep dirp); [exact HI|].
  destruct (lsubtree dirp (lroot s)) as [[fn fi fs|dn dl kids]|] eqn:Hsub; try exact HI.
  destruct (check_iso9660_filename nm 3) eqn:Hchk; try exact HI.
  destruct (dr_len_of nm >? 255) eqn:Hx; [exact HI|].
  destruct (llookup nm kids) as [[k c]|] eqn:Hl; [exact HI|].
  cbn [fst]. destruct (lfound_dir s dirp dn dl kids HI Hsub) as [Hd HF].
  assert (Hnm : name_ok nm) by (apply name_ok_of; [apply file_name_nonempty, Hchk|exact Hx]).
  unfold ldir_st. set (names := map lname kids) in *.
  apply (lupdate_inv s dirp dn dl kids _ _ _ _ _ _ _ HI Hsub).
  - apply lall_ok_dir. split.
    + rewrite map_insert_at. cbn [lname]. fold names.
      apply dir_ok_add; [exact Hd|exact Hnm|apply llookup_none, Hl].
    + apply Forall_insert_at; [exact HF|exact I].
  - apply (linv_ptr s HI).
  - rewrite ltotals_insert_at, ltotal_file. cbn [lw_ptr]. lia.
  - rewrite !ltotals_insert_at, ltotal_file, dlen_add, Hsum. cbn [lw_dblk st_of dlen].
    destruct (grow_cases (add_overflows (st_of dl names) (2 + pos nm names) (dr_len_of nm))) as [E|E];
      rewrite E; unfold blocks_of, ceiling_div, C; lia.
  - exact HN.
  - intros j. rewrite ltotals_insert_at, ltotal_file, HR. lia.
  - exact HFr.
  - exact HL.
Qed.

Lemma lrefcount_fresh s : LInv s -> lrefcount (lnext s) (lroot s) = 0.
Proof.
  intros HI. destruct (linv_tbl s HI) as [_ HR].
  pose proof (lrefcount_nonneg (lnext s) (lroot s)) as N.
  destruct (Z_lt_le_dec 0 (lrefcount (lnext s) (lroot s))) as [H|H]; [|lia].
  apply HR, (linv_fresh s HI) in H. lia.
Qed.

Lemma lw_ref_file j nm i st : lw_ref j (LFile nm i st) = if Nat.eqb i j then 1 else 0.
Proof. reflexivity. Qed.

Lemma lstep_add_file_inv s dirp nm len : LInv s -> LInv (fst (lstep_add_file s dirp nm len)).
Proof.
  intros HI. unfold lstep_add_file, lrefuse.
  destruct (negb ((0 <=? len) && (len <=? max_len))) eqn:Hr; [exact HI|].
  destruct (linv_tbl s HI) as [HN HR].
  assert (Hfr : ~ In (lnext s) (ids (linodes s))).
  { intros H. apply (linv_fresh s HI) in H. lia. }
  apply add_record_inv; [exact HI| | | | |].
  - rewrite tbl_sum_app. unfold tbl_sum at 2. cbn. lia.
  - unfold ids. rewrite map_app. cbn [map fst]. apply NoDup_snoc; assumption.
  - intros j. unfold ids. rewrite map_app, in_app_iff. cbn [map fst In]. fold (ids (linodes s)).
    rewrite lw_ref_file. destruct (Nat.eqb_spec (lnext s) j) as [<-|Hne].
    + rewrite (lrefcount_fresh s HI). split; [lia|tauto].
    + rewrite HR. split; [intros [H|[H|[]]]; [lia|congruence]|intros H; left; lia].
  - intros j. unfold ids. rewrite map_app, in_app_iff. cbn [map fst In].
    intros [H|[<-|[]]]; [apply (linv_fresh s HI) in H|]; lia.
  - apply Forall_app. split; [apply (linv_len s HI)|]. constructor; [cbn [snd]; lia|constructor].
Qed.

Lemma lstep_add_link_inv s src dirp nm : LInv s -> LInv (fst (lstep_add_link s src dirp nm)).
Proof.
  intros HI. unfold lstep_add_link, lrefuse.
  destruct (lsubtree src (lroot s)) as [[on i ost|on odl okids]|] eqn:Hsrc; try exact HI.
  destruct (linv_tbl s HI) as [HN HR].
  apply add_record_inv; [exact HI|rewrite blocks_of_0; lia|exact HN| | |apply (linv_len s HI)].
  - intros j. rewrite HR, lw_ref_file. destruct (Nat.eqb_spec i j) as [<-|Hne]; [|lia].
    pose proof (lsubtree_ref i src _ _ _ Hsrc). lia.
  - intros j H. apply (linv_fresh s HI) in H. lia.
Qed.

(* ---- add_directory / rm_directory ----------------------------------------------------------- *)

Lemma ltotal_leaf_dir w nm dl : ltotal w (LDir nm dl []) = w (LDir nm dl []).
Proof. rewrite ltotal_dir, ltotals_nil. lia. Qed.

Lemma lstep_add_dir_inv s parent nm : LInv s -> LInv (fst (lstep_add_dir s parent nm)).
Proof.
  intros HI. unfold lstep_add_dir, lrefuse. cbv zeta.
  destruct (too_deep parent); [exact HI|].
  destruct (lsubtree parent (lroot s)) as [[fn fi fs|dn dl kids]|] eqn:Hsub; try exact HI.
  destruct (check_iso9660_directory nm 3) eqn:Hchk; try exact HI.
  destruct (dr_len_of nm >? 255) eqn:Hx; [exact HI|].
  destruct (llookup nm kids) as [[k c]|] eqn:Hl; [exact HI|].
  destruct (lfound_dir s parent dn dl kids HI Hsub) as [Hd HF].
  assert (Hnm : name_ok nm) by (apply name_ok_of; [apply dir_name_nonempty, Hchk|exact Hx]).
  pose proof (add_to_ptr_size_inv _ _ _ (linv_ptr s HI) (name_ok_ptr nm Hnm)) as Hp.
  destruct (add_to_ptr_size (lptr_size s) (lptr_ext s) (ptr_record_length (zlen nm))) as [[b ps] pe].
  destruct Hp as (Hp1 & Hp2 & Hp3 & Hp4). destruct (linv_tbl s HI) as [HN HR].
  cbn [fst]. unfold ldir_st. set (names := map lname kids) in *.
  apply (lupdate_inv s parent dn dl kids _ _ _ _ _ _ _ HI Hsub).
  - apply lall_ok_dir. split.
    + rewrite map_insert_at. cbn [lname]. fold names.
      apply dir_ok_add; [exact Hd|exact Hnm|apply llookup_none, Hl].
    + apply Forall_insert_at; [exact HF|]. apply lall_ok_dir. split; [apply dir_ok_new|constructor].
  - exact Hp1.
  - rewrite ltotals_insert_at, ltotal_leaf_dir. cbn [lw_ptr]. lia.
  - rewrite !ltotals_insert_at, !ltotal_leaf_dir, dlen_add. cbn [lw_dblk st_of dlen].
    destruct (grow_cases (add_overflows (st_of dl names) (2 + pos nm names) (dr_len_of nm))) as [E|E];
      rewrite E; destruct b; unfold blocks_of, ceiling_div, C; lia.
  - exact HN.
  - intros j. rewrite ltotals_insert_at, ltotal_leaf_dir, HR.
    change (lw_ref j (LDir nm C [])) with 0. lia.
  - apply (linv_fresh s HI).
  - apply (linv_len s HI).
Qed.

Lemma lrm_dir_ptr_ok s q dn dl kids k cn cdl ckids :
  LInv s -> lsubtree q (lroot s) = Some (LDir dn dl kids) ->
  nth_error kids k = Some (LDir cn cdl ckids) ->
  exists b pe,
    remove_from_ptr_size (lptr_size s) (lptr_ext s) (ptr_record_length (zlen cn)) =
      Some (b, lptr_size s - ptr_record_length (zlen cn), pe) /\
    PtrInv (lptr_size s - ptr_record_length (zlen cn)) pe /\
    (pe = lptr_ext s \/ pe = lptr_ext s - 2) /\ (b = true <-> pe <> lptr_ext s).
Proof.
  intros HI Hsub Hk. destruct (lfound_dir s q dn dl kids HI Hsub) as [(_ & _ & Hn) _].
  assert (Hcn : name_ok cn).
  { rewrite Forall_forall in Hn. apply Hn.
    change cn with (lname (LDir cn cdl ckids)). apply in_map. eapply nth_error_In. exact Hk. }
  apply remove_from_ptr_size_inv; [apply (linv_ptr s HI)|apply name_ok_ptr, Hcn|].
  rewrite (linv_ptr_sum s HI).
  pose proof (ltotal_replace lw_ptr q (lroot s) (LDir dn dl (remove_at k kids)) _ Hsub) as E.
  pose proof (ltotal_nonneg lw_ptr lw_ptr_nonneg (lreplace q (LDir dn dl (remove_at k kids)) (lroot s))) as N.
  rewrite !ltotal_dir, (ltotals_remove_at _ kids k _ Hk), ltotal_dir in E.
  pose proof (ltotals_nonneg lw_ptr lw_ptr_nonneg ckids) as N'.
  change (lw_ptr (LDir cn cdl [])) with (ptr_record_length (zlen cn)) in E. lia.
Qed.

Lemma lstep_rm_dir_inv s p : LInv s -> LInv (fst (lstep_rm_dir s p)).
Proof.
  intros HI. unfold lstep_rm_dir, lrefuse. cbv zeta.
  destruct (unsnoc p) as [[q y]|]; [|exact HI].
  destruct (lsubtree q (lroot s)) as [[fn fi fs|dn dl kids]|] eqn:Hsub; try exact HI.
  destruct (llookup y kids) as [[k [cn ci cs|cn cdl [|c0 ckids]]]|] eqn:Hl; try exact HI.
  apply llookup_spec in Hl. destruct Hl as (Hk & _ & _).
  destruct (lrm_dir_ptr_ok s q dn dl kids k cn cdl [] HI Hsub Hk) as (b & pe & Hr & Hp1 & Hp3 & Hp4).
  rewrite Hr. destruct (lfound_dir s q dn dl kids HI Hsub) as [Hd HF].
  destruct (linv_tbl s HI) as [HN HR].
  cbn [fst]. unfold ldir_st. set (names := map lname kids) in *.
  apply (lupdate_inv s q dn dl kids _ _ _ _ _ _ _ HI Hsub).
  - apply lall_ok_dir. split.
    + rewrite map_remove_at. fold names. apply dir_ok_remove, Hd.
    + apply Forall_remove_at, HF.
  - exact Hp1.
  - rewrite (ltotals_remove_at _ kids k _ Hk), ltotal_leaf_dir. cbn [lw_ptr]. lia.
  - rewrite !(ltotals_remove_at _ kids k _ Hk), !ltotal_leaf_dir, dlen_remove.
    cbn [lw_dblk st_of dlen].
    destruct (grow_cases (rm_underflows (st_of dl names) (2 + k))) as [E|E];
      rewrite E; destruct b; unfold blocks_of, ceiling_div, C; lia.
  - exact HN.
  - intros j. rewrite (ltotals_remove_at _ kids k _ Hk), ltotal_leaf_dir, HR.
    change (lw_ref j (LDir cn cdl [])) with 0. lia.
  - apply (linv_fresh s HI).
  - apply (linv_len s HI).
Qed.

(* ---- removing one record (rm_hard_link) --------------------------------------------------------- *)

(* the state after removing the record at index k of the directory at dirp, with inode table tbl
   and data bytes [data] released together with the directory shrink *)
Definition rm_record_state (s : lstate) (dirp : path) dn dl (kids : list lnode) (k : nat)
           (tbl : itable) (data : Z) : lstate :=
  let d := ldir_st dl kids in
  {| lroot := lreplace dirp (LDir dn (dlen (dir_remove C d (2 + k))) (remove_at k kids)) (lroot s);
     linodes := tbl; lnext := lnext s; lptr_size := lptr_size s; lptr_ext := lptr_ext s;
     lspace := lspace s - ceiling_div ((if rm_underflows d (2 + k) then C else 0) + data) C |}.

Lemma rm_record_inv s dirp dn dl kids k cn ino st tbl data :
  LInv s -> lsubtree dirp (lroot s) = Some (LDir dn dl kids) ->
  nth_error kids k = Some (LFile cn ino st) ->
  tbl_sum tbl = tbl_sum (linodes s) - blocks_of data ->
  NoDup (ids tbl) ->
  (forall j, In j (ids tbl) <-> 0 < lrefcount j (lroot s) - lw_ref j (LFile cn ino st)) ->
  (forall j, In j (ids tbl) -> In j (ids (linodes s))) ->
  Forall (fun e => 0 <= snd e <= max_len) tbl ->
  LInv (rm_record_state s dirp dn dl kids k tbl data).
Proof.
  intros HI Hsub Hk Hsum HN HR Hsubset HL. unfold rm_record_state. cbv zeta.
  destruct (lfound_dir s dirp dn dl kids HI Hsub) as [Hd HF].
  unfold ldir_st. set (names := map lname kids) in *.
  apply (lupdate_inv s dirp dn dl kids _ _ _ _ _ _ _ HI Hsub).
  - apply lall_ok_dir. split.
    + rewrite map_remove_at. fold names. apply dir_ok_remove, Hd.
    + apply Forall_remove_at, HF.
  - apply (linv_ptr s HI).
  - rewrite (ltotals_remove_at _ kids k _ Hk), ltotal_file. cbn [lw_ptr]. lia.
  - rewrite !(ltotals_remove_at _ kids k _ Hk), ltotal_file, dlen_remove, Hsum.
    cbn [lw_dblk st_of dlen].
    destruct (grow_cases (rm_underflows (st_of dl names) (2 + k))) as [E|E];
      rewrite E; unfold blocks_of, ceiling_div, C; lia.
  - exact HN.
  - intros j. rewrite (ltotals_remove_at _ kids k _ Hk), ltotal_file, HR. lia.
  - intros j H. apply (linv_fresh s HI), Hsubset, H.
  - exact HL.
Qed.

(* the record count of inode i after removing one of its records *)
Lemma rm_record_refcount j s dirp dn dl kids k c dl' :
  lsubtree dirp (lroot s) = Some (LDir dn dl kids) -> nth_error kids k = Some c ->
  lrefcount j (lreplace dirp (LDir dn dl' (remove_at k kids)) (lroot s)) =
  lrefcount j (lroot s) - ltotal (lw_ref j) c.
Proof.
  intros Hsub Hk. rewrite (lrefcount_replace j dirp _ _ _ _ _ _ Hsub), (ltotals_remove_at _ kids k _ Hk). lia.
Qed.

Lemma lstep_rm_link_inv s dirp nm : LInv s -> LInv (fst (lstep_rm_link s dirp nm)).
Proof.
  intros HI. unfold lstep_rm_link, lrefuse. cbv zeta.
  destruct (lsubtree dirp (lroot s)) as [[fn fi fs|dn dl kids]|] eqn:Hsub; try exact HI.
  destruct (llookup nm kids) as [[k [cn i st|cn cdl ckids]]|] eqn:Hl; try exact HI.
  apply llookup_spec in Hl. destruct Hl as (Hk & _ & _).
  destruct (linv_tbl s HI) as [HN HR].
  - rewrite (rm_record_refcount i s dirp dn dl kids k _ _ Hsub Hk), ltotal_file, lw_ref_file, Nat.eqb_refl.
    destruct (Z.eqb_spec (lrefcount i (lroot s) - 1) 0) as [E0|E0]; cbn [fst].
    + destruct (ids_del i (linodes s) HN) as (D1 & D2 & D3).
      apply (rm_record_inv s dirp dn dl kids k cn i st); try assumption.
      * rewrite tbl_sum_del. lia.
      * intros j. rewrite lw_ref_file. destruct (Nat.eqb_spec i j) as [<-|Hne].
        -- split; [tauto|lia].
        -- rewrite (D3 j) by congruence. rewrite HR. lia.
      * intros j. apply ids_del_in.
      * apply Forall_del, (linv_len s HI).
    + apply (rm_record_inv s dirp dn dl kids k cn i st); try assumption.
      * rewrite blocks_of_0. lia.
      * intros j. rewrite lw_ref_file, HR. destruct (Nat.eqb_spec i j) as [<-|Hne]; [|lia].
        pose proof (lrefcount_nonneg i (lroot s)). lia.
      * tauto.
      * apply (linv_len s HI).
Qed.

(* ---- rm_file -------------------------------------------------------------------------------- *)

Lemma purge_state_inv s i : LInv s ->
  LInv {| lroot := purge_node i (lroot s); linodes := del_ino i (linodes s); lnext := lnext s;
          lptr_size := lptr_size s; lptr_ext := lptr_ext s;
          lspace := lspace s - ceiling_div (purge_bytes i (lroot s) + len_of i (linodes s)) C |}.
Proof.
  intros HI. destruct (linv_tbl s HI) as [HN HR]. destruct (linv_root s HI) as [Hn Hd].
  destruct (ids_del i (linodes s) HN) as (D1 & D2 & D3).
  constructor; cbn [lroot linodes lnext lptr_size lptr_ext lspace].
  - pose proof (purge_dblk i (lroot s)) as E. pose proof (linv_space s HI) as E'.
    rewrite tbl_sum_del. unfold blocks_of, ceiling_div, C in *. lia.
  - rewrite lname_purge. split; [exact Hn|]. destruct (lroot s); [discriminate|reflexivity].
  - apply purge_all_ok, (linv_tree s HI).
  - apply (linv_ptr s HI).
  - rewrite purge_ptr. apply (linv_ptr_sum s HI).
  - split; [exact D1|]. intros j. destruct (Nat.eq_dec j i) as [->|Hne].
    + rewrite (purge_refcount_self i _ Hd). split; [tauto|lia].
    + rewrite (D3 j Hne), (purge_refcount_other i j _ Hne). apply HR.
  - intros j H. apply (linv_fresh s HI), (ids_del_in j i), H.
  - apply Forall_del, (linv_len s HI).
Qed.

Lemma lstep_rm_file_inv s dirp nm : LInv s -> LInv (fst (lstep_rm_file s dirp nm)).
Proof.
  intros HI. unfold lstep_rm_file, lrefuse. cbv zeta.
  destruct (lsubtree dirp (lroot s)) as [[fn fi fs|dn dl kids]|] eqn:Hsub; try exact HI.
  destruct (llookup nm kids) as [[k [cn i st|cn cdl ckids]]|] eqn:Hl; try exact HI.
  cbn [fst]. apply purge_state_inv, HI.
Qed.

Theorem lstep_preserves_inv s o : LInv s -> LInv (fst (lstep s o)).
Proof.
  destruct o; cbn [lstep];
    [apply lstep_add_file_inv|apply lstep_add_dir_inv|apply lstep_add_link_inv
    |apply lstep_rm_link_inv|apply lstep_rm_file_inv|apply lstep_rm_dir_inv].
Qed.

Theorem lrun_inv_from ops : forall s, LInv s -> LInv (lrun s ops).
Proof.
  unfold lrun. induction ops as [|o r IH]; intros s HI; cbn [fold_left]; [exact HI|].
  apply IH, lstep_preserves_inv, HI.
Qed.

Theorem lrun_inv ops : LInv (lrun linit ops).
Proof. apply lrun_inv_from, linit_ok. Qed.

Print Assumptions linit_ok.
Print Assumptions lstep_preserves_inv.
Print Assumptions lrun_inv.
Print Assumptions linv_layout.
