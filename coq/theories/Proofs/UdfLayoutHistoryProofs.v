(* C10 -- Model/UdfLayout.v: the LVID counters as the public calls maintain them (ul_step_opt: +1 per
   add_directory, +1 per UDF name given to an inode, -1 per removed NAME, -1 per rm_directory) equal,
   after every history, the counts of the tree the history leaves: num_files = number of file NAMES,
   num_dirs = number of directories including the root. *)
From Coq Require Import ZArith List Bool Lia Arith.
From PV.Base Require Import Prim.
From PV.Model Require Import Codec UdfLayout.
From PV.Proofs Require Import UdfLayoutBfsProofs.
Import ListNotations.
Local Open Scope Z_scope.

(* a measure on trees that adds up over the children of a directory *)
Section Measure.
  Variable mu : utree -> nat.
  Variable c0 : nat.
  Hypothesis Hmu : forall n cs, mu (UDir n cs) = (c0 + ul_nsum (map mu cs))%nat.
  Let M (cs : list utree) : Z := Z.of_nat (ul_nsum (map mu cs)).

  Lemma ul_M_cons c r : M (c :: r) = Z.of_nat (mu c) + M r.
  Proof. unfold M. cbn [map ul_nsum]. lia. Qed.
  Lemma ul_M_app a b : M (a ++ b) = M a + M b.
  Proof. unfold M. rewrite map_app, ul_nsum_app. lia. Qed.
  Lemma ul_M_dir n cs : Z.of_nat (mu (UDir n cs)) = Z.of_nat c0 + M cs.
  Proof. unfold M. rewrite Hmu. lia. Qed.

  Lemma ul_del_child_M n : forall l c, ul_find_child n l = Some c -> M (ul_del_child n l) = M l - Z.of_nat (mu c).
  Proof.
    induction l as [|x r IH]; intros c H; [discriminate|]. cbn [ul_find_child ul_del_child] in *.
    destruct (zlist_eqb (ut_name x) n).
    - inversion H; subst. rewrite ul_M_cons. lia.
    - rewrite !ul_M_cons, (IH c H). lia.
  Qed.
End Measure.

(* the children list a path leads to *)
Fixpoint ul_dir_at (d : upath) (cs : list utree) : option (list utree) :=
  match d with
  | [] => Some cs
  | n :: d' => match ul_find_child n cs with Some (UDir _ cs') => ul_dir_at d' cs' | _ => None end
  end.

Lemma ul_lookup_split p : forall cs d n, ul_split_last p = Some (d, n) ->
  ul_lookup p cs = match ul_dir_at d cs with Some l => ul_find_child n l | None => None end.
Proof.
  induction p as [|x r IH]; intros cs d n H; [discriminate|]. destruct r as [|y r'].
  - cbn [ul_split_last] in H. inversion H; subst. reflexivity.
  - change (ul_split_last (x :: y :: r')) with
      (match ul_split_last (y :: r') with Some (d0, n0) => Some (x :: d0, n0) | None => None end) in H.
    destruct (ul_split_last (y :: r')) as [[d0 n0]|] eqn:E; [|discriminate]. inversion H; subst.
    change (ul_lookup (x :: y :: r') cs) with
      (match ul_find_child x cs with Some (UDir _ cs') => ul_lookup (y :: r') cs' | _ => None end).
    cbn [ul_dir_at]. destruct (ul_find_child x cs) as [[?|m cs']|]; try reflexivity. exact (IH cs' d0 n eq_refl).
Qed.

(* ul_upd runs f exactly on the list the path leads to; any additive measure changes by what f changed *)
Lemma ul_upd_spec f : forall d cs cs', ul_upd d f cs = Some cs' ->
  exists l l', ul_dir_at d cs = Some l /\ f l = Some l' /\
    forall mu c0, (forall n x, mu (UDir n x) = (c0 + ul_nsum (map mu x))%nat) ->
      Z.of_nat (ul_nsum (map mu cs')) = Z.of_nat (ul_nsum (map mu cs)) +
                                        (Z.of_nat (ul_nsum (map mu l')) - Z.of_nat (ul_nsum (map mu l))).
Proof.
  induction d as [|n d IH]; intros cs cs' H.
  - cbn [ul_upd] in H. exists cs, cs'. split; [reflexivity|]. split; [exact H|]. intros; lia.
  - cbn [ul_upd ul_dir_at] in *. revert cs' H. induction cs as [|c r IHr]; intros cs' H; [discriminate|].
    cbn [ul_find_child]. destruct (zlist_eqb (ut_name c) n).
    + destruct c as [?|m cs0]; [discriminate|]. destruct (ul_upd d f cs0) as [cs0'|] eqn:E; [|discriminate].
      inversion H; subst. destruct (IH cs0 cs0' E) as (l & l' & H1 & H2 & H3). exists l, l'. split; [exact H1|]. split; [exact H2|].
      intros mu c0 Hmu. specialize (H3 mu c0 Hmu). cbn [map ul_nsum]. rewrite !Hmu. lia.
    + match type of H with match ?g with _ => _ end = _ => destruct g as [r'|] eqn:E; [|discriminate] end.
      inversion H; subst. destruct (IHr r' eq_refl) as (l & l' & H1 & H2 & H3). exists l, l'. split; [exact H1|]. split; [exact H2|].
      intros mu c0 Hmu. specialize (H3 mu c0 Hmu). cbn [map ul_nsum]. lia.
Qed.

(* ---- the two counts are additive measures ---- *)
Lemma ul_mu_files n cs : ul_count_files (UDir n cs) = (0 + ul_nsum (map ul_count_files cs))%nat.
Proof. rewrite ul_count_files_dir. reflexivity. Qed.
Lemma ul_mu_dirs n cs : ul_count_dirs (UDir n cs) = (1 + ul_nsum (map ul_count_dirs cs))%nat.
Proof. rewrite ul_count_dirs_dir. reflexivity. Qed.
Lemma ul_occ_dir i n cs : ul_occ i (UDir n cs) = ul_nsum (map (ul_occ i) cs).
Proof. cbn [ul_occ]. induction cs as [|c r IH]; [reflexivity|]. cbn [map ul_nsum]. rewrite IH. reflexivity. Qed.

Lemma ul_nsum_flat_map (g : utree -> list utree) (mu : utree -> nat) cs :
  ul_nsum (map mu (flat_map g cs)) = ul_nsum (map (fun c => ul_nsum (map mu (g c))) cs).
Proof. induction cs as [|c r IH]; [reflexivity|]. cbn [flat_map map ul_nsum]. rewrite map_app, ul_nsum_app, IH. reflexivity. Qed.

Definition ul_purge_ok (i : nat) (t : utree) : Prop :=
  (ul_nsum (map ul_count_files (ul_purge i t)) + ul_occ i t = ul_count_files t)%nat /\
  ul_nsum (map ul_count_dirs (ul_purge i t)) = ul_count_dirs t.

Lemma ul_purge_list_from i cs : Forall (ul_purge_ok i) cs ->
  (ul_nsum (map ul_count_files (flat_map (ul_purge i) cs)) + ul_nsum (map (ul_occ i) cs) = ul_nsum (map ul_count_files cs))%nat /\
  ul_nsum (map ul_count_dirs (flat_map (ul_purge i) cs)) = ul_nsum (map ul_count_dirs cs).
Proof.
  rewrite !ul_nsum_flat_map. induction 1 as [|c r [H1 H2] Hr [I1 I2]]; [split; reflexivity|]. cbn [map ul_nsum]. split; lia.
Qed.

Lemma ul_purge_counts i t : ul_purge_ok i t.
Proof.
  induction t as [n l j|n cs IH] using ul_utree_ind; unfold ul_purge_ok.
  - cbn [ul_purge ul_occ]. destruct (Nat.eqb i j); split; reflexivity.
  - destruct (ul_purge_list_from i cs IH) as [H1 H2]. cbn [ul_purge map ul_nsum].
    rewrite !ul_count_files_dir, !ul_count_dirs_dir, ul_occ_dir. unfold ul_nfiles, ul_ndirs. split; lia.
Qed.

Lemma ul_purge_list i cs :
  (ul_nsum (map ul_count_files (flat_map (ul_purge i) cs)) + ul_nsum (map (ul_occ i) cs) = ul_nsum (map ul_count_files cs))%nat /\
  ul_nsum (map ul_count_dirs (flat_map (ul_purge i) cs)) = ul_nsum (map ul_count_dirs cs).
Proof. apply ul_purge_list_from. apply Forall_forall. intros t _. apply ul_purge_counts. Qed.

(* ---- the invariant ---- *)
Definition ul_counts_inv (st : ustate) : Prop :=
  let '(cs, _, nf, nd) := st in
  nf = Z.of_nat (ul_count_files (UDir [] cs)) /\ nd = Z.of_nat (ul_count_dirs (UDir [] cs)).

Lemma ul_append_inv c l l' : ul_append c l = Some l' -> l' = l ++ [c].
Proof. unfold ul_append. destruct (_ || _); [discriminate|]. intros H. inversion H. reflexivity. Qed.

Lemma ul_add_counts cs d c cs' : ul_upd d (ul_append c) cs = Some cs' ->
  Z.of_nat (ul_count_files (UDir [] cs')) = Z.of_nat (ul_count_files (UDir [] cs)) + Z.of_nat (ul_count_files c) /\
  Z.of_nat (ul_count_dirs (UDir [] cs')) = Z.of_nat (ul_count_dirs (UDir [] cs)) + Z.of_nat (ul_count_dirs c).
Proof.
  intros H. destruct (ul_upd_spec _ _ _ _ H) as (l & l' & _ & Ha & Hm). apply ul_append_inv in Ha. subst l'.
  pose proof (Hm ul_count_files 0%nat ul_mu_files) as H1. pose proof (Hm ul_count_dirs 1%nat ul_mu_dirs) as H2.
  rewrite map_app, ul_nsum_app in H1, H2. cbn [map ul_nsum] in H1, H2.
  rewrite !ul_count_files_dir, !ul_count_dirs_dir. unfold ul_nfiles, ul_ndirs. lia.
Qed.

Lemma ul_del_counts cs p d n c cs' : ul_split_last p = Some (d, n) -> ul_lookup p cs = Some c ->
  ul_upd d (fun l => Some (ul_del_child n l)) cs = Some cs' ->
  Z.of_nat (ul_count_files (UDir [] cs')) = Z.of_nat (ul_count_files (UDir [] cs)) - Z.of_nat (ul_count_files c) /\
  Z.of_nat (ul_count_dirs (UDir [] cs')) = Z.of_nat (ul_count_dirs (UDir [] cs)) - Z.of_nat (ul_count_dirs c).
Proof.
  intros Hs Hl H. destruct (ul_upd_spec _ _ _ _ H) as (l & l' & Hat & Ha & Hm). inversion Ha; subst l'.
  rewrite (ul_lookup_split p cs d n Hs), Hat in Hl.
  pose proof (Hm ul_count_files 0%nat ul_mu_files) as H1. pose proof (Hm ul_count_dirs 1%nat ul_mu_dirs) as H2.
  rewrite (ul_del_child_M ul_count_files n l c Hl) in H1. rewrite (ul_del_child_M ul_count_dirs n l c Hl) in H2.
  rewrite !ul_count_files_dir, !ul_count_dirs_dir. unfold ul_nfiles, ul_ndirs. lia.
Qed.

Lemma ul_step_inv st o : ul_counts_inv st -> ul_counts_inv (ul_step st o).
Proof.
  unfold ul_step. destruct (ul_step_opt st o) as [st'|] eqn:E; [|intros H; exact H].
  destruct st as [[[cs nx] nf] nd]. intros [Hf Hd]. unfold ul_step_opt in E. destruct o as [p|p len|old new|p|p|p].
  - destruct (ul_split_last p) as [[d n]|]; [|discriminate].
    destruct (ul_upd d (ul_append (UDir n [])) cs) as [cs'|] eqn:U; [|discriminate]. inversion E; subst.
    destruct (ul_add_counts _ _ _ _ U) as [H1 H2]. cbn [ul_counts_inv]. rewrite H1, H2.
    rewrite (ul_count_files_dir n []), (ul_count_dirs_dir n []). cbn. split; lia.
  - destruct (ul_split_last p) as [[d n]|]; [|discriminate].
    destruct (ul_upd d (ul_append (UFile n len nx)) cs) as [cs'|] eqn:U; [|discriminate]. inversion E; subst.
    destruct (ul_add_counts _ _ _ _ U) as [H1 H2]. cbn [ul_counts_inv]. rewrite H1, H2. cbn [ul_count_files ul_count_dirs]. split; lia.
  - destruct (ul_lookup old cs) as [[n0 l i|]|]; try discriminate.
    destruct (ul_split_last new) as [[d n]|]; [|discriminate].
    destruct (ul_upd d (ul_append (UFile n l i)) cs) as [cs'|] eqn:U; [|discriminate]. inversion E; subst.
    destruct (ul_add_counts _ _ _ _ U) as [H1 H2]. cbn [ul_counts_inv]. rewrite H1, H2. cbn [ul_count_files ul_count_dirs]. split; lia.
  - destruct (ul_lookup p cs) as [[n0 l i|]|] eqn:L; try discriminate.
    destruct (ul_split_last p) as [[d n]|] eqn:S; [|discriminate].
    destruct (ul_upd d (fun l0 => Some (ul_del_child n l0)) cs) as [cs'|] eqn:U; [|discriminate]. inversion E; subst.
    destruct (ul_del_counts _ _ _ _ _ _ S L U) as [H1 H2]. cbn [ul_counts_inv]. rewrite H1, H2. cbn [ul_count_files ul_count_dirs]. split; lia.
  - destruct (ul_lookup p cs) as [[n0 l i|]|] eqn:L; try discriminate. rewrite ul_occ_dir in E. inversion E; subst. cbn [ul_counts_inv].
    destruct (ul_purge_list i cs) as [H1 H2]. rewrite !ul_count_files_dir, !ul_count_dirs_dir. unfold ul_nfiles, ul_ndirs. split; lia.
  - destruct (ul_lookup p cs) as [[|n0 [|]]|] eqn:L; try discriminate.
    destruct (ul_split_last p) as [[d n]|] eqn:S; [|discriminate].
    destruct (ul_upd d (fun l0 => Some (ul_del_child n l0)) cs) as [cs'|] eqn:U; [|discriminate]. inversion E; subst.
    destruct (ul_del_counts _ _ _ _ _ _ S L U) as [H1 H2]. cbn [ul_counts_inv]. rewrite H1, H2.
    rewrite (ul_count_files_dir n0 []), (ul_count_dirs_dir n0 []). cbn. split; lia.
Qed.

(* after every history the LVID counters equal the counts of the tree that the history leaves *)
Theorem udf_counts_history ops :
  let '(cs, _, nf, nd) := ul_run_state ops in
  nf = Z.of_nat (ul_count_files (ul_run ops)) /\ nd = Z.of_nat (ul_count_dirs (ul_run ops)).
Proof.
  assert (H : ul_counts_inv (ul_run_state ops)).
  { unfold ul_run_state. assert (H0 : ul_counts_inv ul_state0) by (split; reflexivity).
    revert H0. generalize ul_state0. induction ops as [|o r IH]; intros st H0; [exact H0|].
    cbn [fold_left]. apply IH. apply ul_step_inv. exact H0. }
  unfold ul_run. destruct (ul_run_state ops) as [[[cs nx] nf] nd]. exact H.
Qed.

(* a hard link counts as a file again: two names of one inode, num_files = 2, one File Entry *)
Example udf_counts_hard_link :
  let ops := [OAddFile [[97]] 5; OLink [[97]] [[98]]] in
  snd (fst (ul_run_state ops)) = 2 /\ lo_num_files (udf_layout 257 (ul_run ops)) = 2 /\ length (lo_fes (udf_layout 257 (ul_run ops))) = 1%nat.
Proof. vm_compute. repeat split. Qed.

Print Assumptions udf_counts_history.
