(* C04 / C08 -- Rock Ridge space accounting (Model/AccountRR.v): for EVERY edit history from a fresh image
     arr_space_exact        pvd.space_size = the end of the from-scratch extent assignment
     arr_ce_sound           continuation entries: each record's area lies in exactly one tracked block, inside
                            2048 bytes, areas of one block pairwise disjoint, every entry of every tracked block
                            is owned by exactly one live record, no tracked block is empty
     arr_refused_unchanged  a refused edit changes nothing
     arr_release_never_fails, arr_ptr_exception_unreachable   the exceptions rendered as refusals never happen
     arr_objects_disjoint   the objects of the layout are pairwise disjoint and inside the declared volume
   and, for the code BEFORE rm_file released the continuation entry of a symlink (rr_step_gen false):
     arr_space_exact_old_refuted (witness: add_symlink with a long target, rm_file) and
     arr_space_exact_old_partial (histories whose rm_file never meets a record without inode that has a
     continuation entry).  add/remove inverses are in Proofs/AccountRRInverse.v. *)
From Coq Require Import ZArith List Bool Lia ZifyBool Permutation.
From PV.Base Require Import Prim.
From PV.Gen Require Import GenConst GenFun.
From PV.Model Require Import Names Checksums Pack Alloc CeAlloc RREntries RRWalk RRPlace Account AccountRR.
From PV.Proofs Require Import PackProofs AllocProofs ChecksumsArithProofs CeAllocProofs AccountLemmas
  AccountRRPlace AccountRRLemmas AccountRRCe AccountRRInv.
Import ListNotations.
Local Open Scope Z_scope.
Ltac Zify.zify_post_hook ::= Z.to_euclidean_division_equations.

(* ---- 1. the operations preserve the invariant ---------------------------------------------------------- *)
Lemma arr_dr_len_pos nm : 0 < dr_len_of nm.
Proof. unfold dr_len_of. pose proof (zlen_nonneg nm). cbv zeta. lia. Qed.
Lemma arr_dr_len_name nm : (dr_len_of nm >? 255) = false -> zlen nm <= 255.
Proof. unfold dr_len_of. pose proof (zlen_nonneg nm). cbv zeta. lia. Qed.

Lemma arr_rr_new_ce v f nm rr tg mode x ce : rr_new v f (dr_len_of nm) rr tg mode = Some (x, ce) ->
  len_ok x /\ match ce with Some l => 0 < l <= M | None => True end.
Proof.
  intros H. split; [eapply arr_rr_new_len_ok; exact H|].
  apply (arr_rr_new_spec _ _ _ _ _ _ _ _ H (arr_dr_len_pos nm)).
Qed.

Lemma arr_step_add_file_inv s dirp nm rr len : RInv s -> RInv (fst (step_add_file s dirp nm rr len)).
Proof.
  intros HI. unfold step_add_file, rrefuse.
  destruct (negb ((0 <=? len) && (len <=? max_len))) eqn:Hr; [exact HI|].
  destruct (negb (rr_name_ok rr)); [exact HI|].
  destruct (rsubtree dirp (r_root s)) as [parent|] eqn:Hsub; [|exact HI].
  destruct (check_iso9660_filename nm 3); try exact HI. cbv zeta.
  destruct (dr_len_of nm >? 255) eqn:Hx; [exact HI|].
  destruct (rr_new (r_ver s) false (dr_len_of nm) rr [] FILE_MODE) as [[x ce]|] eqn:Hnew; [|exact HI].
  destruct parent as [pm pl|dm dl kids]; [exact HI|].
  destruct (is_some (rlookup nm kids) && negb (dup_allowed (is_root_path dirp) dm)); [exact HI|].
  destruct (arr_rr_new_ce _ _ _ _ _ _ _ _ Hnew) as [Hlx Hce].
  apply arr_add_record_inv; try assumption.
  - intros ky. cbn [meta_of m_rlen m_ce rshallow rw_ptr rw_dblk rw_fblk m_ino rall_ok].
    repeat split; try reflexivity; try lia. discriminate.
  - apply (ri_ptr s HI).
  - left. reflexivity.
  - split; [discriminate|congruence].
Qed.

Lemma arr_step_add_symlink_inv s dirp nm rr tg : RInv s -> RInv (fst (step_add_symlink s dirp nm rr tg)).
Proof.
  intros HI. unfold step_add_symlink, rrefuse.
  destruct (negb (plain_name nm)); [exact HI|].
  destruct (rsubtree dirp (r_root s)) as [parent|] eqn:Hsub; [|exact HI]. cbv zeta.
  destruct (dr_len_of nm >? 255) eqn:Hx; [exact HI|].
  destruct (rr_new (r_ver s) false (dr_len_of nm) rr tg LINK_MODE) as [[x ce]|] eqn:Hnew; [|exact HI].
  destruct parent as [pm pl|dm dl kids]; [exact HI|].
  destruct (is_some (rlookup nm kids) && negb (dup_allowed (is_root_path dirp) dm)); [exact HI|].
  destruct (arr_rr_new_ce _ _ _ _ _ _ _ _ Hnew) as [Hlx Hce].
  apply arr_add_record_inv; try assumption.
  - intros ky. cbn [meta_of m_rlen m_ce rshallow rw_ptr rw_dblk rw_fblk m_ino rall_ok].
    unfold rfile_ok, max_len. cbn [m_ino]. repeat split; try reflexivity; lia.
  - apply (ri_ptr s HI).
  - left. reflexivity.
  - split; [discriminate|congruence].
Qed.

Lemma arr_step_add_dir_inv s parent nm rr : RInv s -> RInv (fst (step_add_dir s parent nm rr)).
Proof.
  intros HI. unfold step_add_dir, rrefuse.
  destruct (negb (rr_name_ok rr)); [exact HI|].
  destruct (rr_too_deep parent); [exact HI|].
  destruct (rsubtree parent (r_root s)) as [par|] eqn:Hsub; [|exact HI].
  destruct (check_iso9660_directory nm 3); try exact HI.
  destruct (existsb _ _ && _); [exact HI|]. cbv zeta.
  destruct (dr_len_of nm >? 255) eqn:Hx; [exact HI|].
  destruct (rr_new (r_ver s) false (dr_len_of nm) rr [] DIR_MODE) as [[x ce]|] eqn:Hnew; [|exact HI].
  destruct par as [pm pl|dm dl kids]; [exact HI|].
  destruct (is_some (rlookup nm kids) && negb (dup_allowed (is_root_path parent) dm)); [exact HI|].
  destruct (arr_rr_new_ce _ _ _ _ _ _ _ _ Hnew) as [Hlx Hce].
  pose proof (arr_dr_len_name nm Hx) as Hz. pose proof (zlen_nonneg nm) as Hz0.
  pose proof (add_to_ptr_size_inv _ _ _ (ri_ptr s HI) (ptr_record_length_range (zlen nm) (conj Hz0 Hz))) as Hp.
  destruct (add_to_ptr_size (r_ptr_size s) (r_ptr_ext s) (ptr_record_length (zlen nm))) as [[b ps] pe].
  destruct Hp as (Hp1 & Hp2 & Hp3 & Hp4).
  apply arr_add_record_inv; try assumption.
  intros ky. cbn [meta_of m_rlen m_ce rshallow rw_ptr rw_dblk rw_fblk m_name].
  split; [reflexivity|]. split; [reflexivity|]. split; [reflexivity|]. split.
  { apply arr_all_ok_dir. cbn [m_name]. split; [exact Hz|]. split; [apply arr_dir_ok_new|constructor]. }
  split; [exact Hp2|]. split; [unfold C; lia|]. unfold ceiling_div, C. lia.
Qed.

Lemma arr_kid_ok s q dm dl kids y k c : RInv s -> rsubtree q (r_root s) = Some (RDir dm dl kids) ->
  rlookup y kids = Some (k, c) -> nth_error kids k = Some c /\ rall_ok (r_ver s) false c.
Proof.
  intros HI Hsub Hl. apply arr_lookup_spec in Hl. destruct Hl as (Hk & _ & _). split; [exact Hk|].
  destruct (arr_found_dir s q dm dl kids HI Hsub) as (_ & _ & HF). rewrite Forall_forall in HF.
  apply HF. eapply nth_error_In. exact Hk.
Qed.

Lemma arr_step_rm_file_inv s dirp nm : RInv s -> RInv (fst (step_rm_file true s dirp nm)).
Proof.
  intros HI. unfold step_rm_file, rrefuse.
  destruct (rsubtree dirp (r_root s)) as [[pm pl|dm dl kids]|] eqn:Hsub; try exact HI.
  destruct (rlookup nm kids) as [[k [cm len|cm cdl ckids]]|] eqn:Hl; try exact HI.
  rewrite orb_true_r. cbv zeta.
  destruct (arr_release_spec s dirp dm dl kids nm k _ HI Hsub Hl) as (cebytes & bs' & Er & B1 & B2 & B3 & B4).
  cbn [meta_of] in Er. rewrite Er. cbn [fst].
  destruct (arr_kid_ok s dirp dm dl kids nm k _ HI Hsub Hl) as [Hk Hcok].
  destruct (arr_found_dir s dirp dm dl kids HI Hsub) as (_ & Hd & HF).
  cbn [rall_ok] in Hcok. destruct Hcok as [Hlen Hino].
  apply (arr_update_inv s dirp dm dl kids _ _ _ _ _ _ _ HI Hsub).
  - unfold rlens. rewrite map_remove_at. apply arr_dir_ok_remove, Hd.
  - apply Forall_remove_at, HF.
  - apply (ri_ptr s HI).
  - rewrite (arr_totals_remove_at _ kids k _ Hk). cbn [rtotal rw_ptr]. lia.
  - exact B1.
  - exact B2.
  - intros k0. rewrite (arr_totals_remove_at _ kids k _ Hk), (B3 k0). cbn [rtotal rshallow]. lia.
  - rewrite !(arr_totals_remove_at _ kids k _ Hk), dlen_remove. cbn [rtotal rw_dblk rw_fblk rst_of dlen].
    rewrite B4.
    set (d := rst_of (r_ver s) (is_root_path dirp) dl (rlens kids)).
    change {| recs := dot_len (r_ver s) (is_root_path dirp) :: dotdot_len (r_ver s) :: rlens kids; dlen := dl |}
      with d.
    destruct (m_ino cm) eqn:Ei.
    + destruct (arr_grow_cases (rm_underflows d (2 + k))) as [E|E]; rewrite E; unfold ceiling_div, C in *; lia.
    + rewrite (Hino eq_refl).
      destruct (arr_grow_cases (rm_underflows d (2 + k))) as [E|E]; rewrite E; unfold ceiling_div, C in *; lia.
Qed.

(* the 'Extent number should never grow' exception of remove_from_ptr_size is unreachable *)
Lemma arr_rm_dir_ptr_ok s q dm dl kids y k cm cdl ckids :
  RInv s -> rsubtree q (r_root s) = Some (RDir dm dl kids) -> rlookup y kids = Some (k, RDir cm cdl ckids) ->
  exists b pe,
    remove_from_ptr_size (r_ptr_size s) (r_ptr_ext s) (ptr_record_length (zlen (m_name cm))) =
      Some (b, r_ptr_size s - ptr_record_length (zlen (m_name cm)), pe) /\
    PtrInv (r_ptr_size s - ptr_record_length (zlen (m_name cm))) pe /\
    (pe = r_ptr_ext s \/ pe = r_ptr_ext s - 2) /\ (b = true <-> pe <> r_ptr_ext s).
Proof.
  intros HI Hsub Hl. destruct (arr_kid_ok s q dm dl kids y k _ HI Hsub Hl) as [Hk Hcok].
  apply arr_all_ok_dir in Hcok. destruct Hcok as (Hz & _ & _). pose proof (zlen_nonneg (m_name cm)) as Hz0.
  apply remove_from_ptr_size_inv;
    [apply (ri_ptr s HI)|apply ptr_record_length_range; split; assumption|].
  rewrite (ri_ptr_sum s HI).
  assert (Hc : rsubtree (q ++ [y]) (r_root s) = Some (RDir cm cdl ckids)).
  { apply arr_subtree_snoc. exists dm, dl, kids, k. split; assumption. }
  assert (Hw : forall d m v, 0 <= rw_ptr d m v).
  { intros d m v. unfold rw_ptr, ptr_record_length. destruct d; [|lia]. pose proof (zlen_nonneg (m_name m)). lia. }
  exact (arr_total_subtree_ge rw_ptr Hw _ _ _ Hc).
Qed.

Lemma arr_step_rm_dir_inv s p : RInv s -> RInv (fst (step_rm_dir s p)).
Proof.
  intros HI. unfold step_rm_dir, rrefuse.
  destruct (unsnoc p) as [[q y]|]; [|exact HI].
  destruct (rsubtree q (r_root s)) as [[pm pl|dm dl kids]|] eqn:Hsub; try exact HI.
  destruct (rlookup y kids) as [[k [cm len|cm cdl [|c0 ckids]]]|] eqn:Hl; try exact HI. cbv zeta.
  destruct (arr_rm_dir_ptr_ok s q dm dl kids y k cm cdl [] HI Hsub Hl) as (b & pe & Hr & Hp1 & Hp3 & Hp4).
  rewrite Hr.
  destruct (arr_release_spec s q dm dl kids y k _ HI Hsub Hl) as (cebytes & bs' & Er & B1 & B2 & B3 & B4).
  cbn [meta_of] in Er. rewrite Er. cbn [fst].
  destruct (arr_kid_ok s q dm dl kids y k _ HI Hsub Hl) as [Hk Hcok].
  destruct (arr_found_dir s q dm dl kids HI Hsub) as (_ & Hd & HF).
  apply arr_all_ok_dir in Hcok. destruct Hcok as (_ & Hcd & _).
  pose proof (arr_dir_ok_dlen _ _ _ _ Hcd) as Hcdl. destruct Hcd as [[Hmod _] _]. cbn [rst_of dlen] in Hmod.
  apply (arr_update_inv s q dm dl kids _ _ _ _ _ _ _ HI Hsub).
  - unfold rlens. rewrite map_remove_at. apply arr_dir_ok_remove, Hd.
  - apply Forall_remove_at, HF.
  - exact Hp1.
  - rewrite (arr_totals_remove_at _ kids k _ Hk), arr_total_dir, arr_totals_nil. cbn [rw_ptr]. lia.
  - exact B1.
  - exact B2.
  - intros k0. rewrite (arr_totals_remove_at _ kids k _ Hk), (B3 k0), arr_total_dir, arr_totals_nil.
    cbn [rshallow]. lia.
  - rewrite !(arr_totals_remove_at _ kids k _ Hk), !arr_total_dir, !arr_totals_nil, dlen_remove.
    cbn [rw_dblk rw_fblk rst_of dlen]. rewrite B4.
    set (d := rst_of (r_ver s) (is_root_path q) dl (rlens kids)).
    change {| recs := dot_len (r_ver s) (is_root_path q) :: dotdot_len (r_ver s) :: rlens kids; dlen := dl |}
      with d.
    assert (Hpb : (if b then 4 * C else 0) = 2 * (r_ptr_ext s - pe) * C).
    { destruct b.
      - assert (pe <> r_ptr_ext s) by (apply Hp4; reflexivity). unfold C. lia.
      - destruct (Z.eq_dec pe (r_ptr_ext s)) as [->|Hne]; [lia|]. apply Hp4 in Hne. discriminate. }
    rewrite Hpb.
    destruct (arr_grow_cases (rm_underflows d (2 + k))) as [E|E]; rewrite E; unfold ceiling_div, C in *; lia.
Qed.

Theorem arr_step_preserves_inv s o : RInv s -> RInv (fst (rr_step s o)).
Proof.
  destruct o; cbn [rr_step rr_step_gen];
    [apply arr_step_add_file_inv|apply arr_step_add_dir_inv|apply arr_step_add_symlink_inv
    |apply arr_step_rm_file_inv|apply arr_step_rm_dir_inv].
Qed.

Theorem arr_run_inv_from ops : forall s, RInv s -> RInv (rr_run s ops).
Proof.
  unfold rr_run, rr_run_gen. induction ops as [|o r IH]; intros s HI; cbn [fold_left]; [exact HI|].
  apply IH. apply arr_step_preserves_inv, HI.
Qed.
Theorem arr_run_inv v ops : RInv (rr_run (rr_init v) ops).
Proof. apply arr_run_inv_from, arr_init_ok. Qed.

(* ---- 2. the theorems ------------------------------------------------------------------------------------ *)
(* after any history the declared volume size is the end of the last allocated extent *)
Theorem arr_space_exact v ops :
  r_space (rr_run (rr_init v) ops) = rr_layout_end (rr_run (rr_init v) ops).
Proof. apply arr_inv_space, arr_run_inv. Qed.

(* continuation entries are allocated, shared and released correctly *)
Definition ce_sound (s : rstate) : Prop :=
  (* the tracked blocks are distinct objects; none is empty; the entries of one block are sorted, inside
     [0, 2048) with positive lengths and pairwise disjoint (CeAllocProofs.wf) *)
  NoDup (map fst (r_blocks s)) /\
  (forall id es, In (id, es) (r_blocks s) -> wf 2048 es /\ es <> []) /\
  (* every record with a CE entry points into exactly one tracked block, at an entry of that block *)
  (forall p n id off len, rsubtree p (r_root s) = Some n -> m_ce (meta_of n) = Some (id, off, len) ->
     exists es, In (id, es) (r_blocks s) /\ In (off, len) es /\ 0 <= off /\ 0 < len /\ off + len <= 2048) /\
  (* every entry of every tracked block is the continuation area of exactly one live record *)
  (forall id es off len, In (id, es) (r_blocks s) -> In (off, len) es ->
     rtotal (rw_ref (id, off, len)) (r_root s) = 1).

Theorem arr_inv_ce_sound s : RInv s -> ce_sound s.
Proof.
  intros HI. destruct (ri_blocks s HI) as [Hnd Hok]. rewrite Forall_forall in Hok.
  split; [exact Hnd|]. split; [intros id es Hin; apply (Hok _ Hin)|]. split.
  - intros p n id off len Hsub Hce. set (ky := (id, off, len)).
    pose proof (arr_total_subtree_ge (rw_ref ky) (arr_rw_ref_nonneg ky) _ _ _ Hsub) as Hge.
    rewrite arr_shallow_ref, Hce in Hge. unfold kind in Hge. rewrite arr_key_eqb_refl in Hge.
    rewrite (ri_refs s HI) in Hge.
    assert (Hin : In ky (flat (r_blocks s))) by (apply arr_kcount_pos; lia).
    apply arr_in_flat in Hin. destruct Hin as ([i es] & Hb & Hi & He). cbn in Hi, He. subst i.
    exists es. split; [exact Hb|]. split; [exact He|].
    destruct (Hok _ Hb) as [(_ & Hf & _) _]. cbn [snd] in Hf. rewrite Forall_forall in Hf.
    specialize (Hf _ He). unfold entry_ok, M in Hf. cbn [fst snd] in Hf. lia.
  - intros id es off len Hb He. set (ky := (id, off, len)).
    assert (Hin : In ky (flat (r_blocks s))).
    { apply arr_in_flat. exists (id, es). split; [exact Hb|]. split; [reflexivity|exact He]. }
    apply arr_kcount_pos in Hin. pose proof (arr_blocks_count _ ky (ri_blocks s HI)).
    rewrite (ri_refs s HI). lia.
Qed.

Theorem arr_ce_sound v ops : ce_sound (rr_run (rr_init v) ops).
Proof. apply arr_inv_ce_sound, arr_run_inv. Qed.

(* the continuation blocks take exactly one extent each in the layout *)
Theorem arr_blocks_placed v ops : let s := rr_run (rr_init v) ops in
  fresh [] (rvisit s) = length (r_blocks s).
Proof. intros s. pose proof (arr_run_inv v ops) as HI. apply arr_fresh_blocks; [apply HI|apply (ri_refs _ HI)]. Qed.

(* ---- 3. refusals ------------------------------------------------------------------------------------------ *)
Ltac break_match :=
  repeat match goal with
         | |- context [match ?x with _ => _ end] => destruct x
         end.

Lemma arr_add_record_true s dirp dm dl kids mk nm x ce ptr extra :
  snd (add_record s dirp dm dl kids mk nm x ce ptr extra) = true.
Proof. unfold add_record. cbv zeta. break_match; reflexivity. Qed.

Lemma arr_refused_fst fx s o : snd (rr_step_gen fx s o) = false -> fst (rr_step_gen fx s o) = s.
Proof.
  destruct o; cbn [rr_step_gen];
    unfold step_add_file, step_add_dir, step_add_symlink, step_rm_file, step_rm_dir, rrefuse; cbv zeta;
    break_match; rewrite ?arr_add_record_true; cbn [fst snd]; intros H; try reflexivity; discriminate.
Qed.

Theorem arr_refused_unchanged fx s o s' : rr_step_gen fx s o = (s', false) -> s' = s.
Proof.
  intros H. pose proof (arr_refused_fst fx s o) as R. rewrite H in R. cbn [fst snd] in R.
  apply R. reflexivity.
Qed.

(* the exceptions in the middle of a removal, rendered as refusals, are unreachable *)
Theorem arr_release_never_fails v ops q dm dl kids y k c : let s := rr_run (rr_init v) ops in
  rsubtree q (r_root s) = Some (RDir dm dl kids) -> rlookup y kids = Some (k, c) ->
  release_of (r_blocks s) (meta_of c) <> None.
Proof.
  intros s Hsub Hl.
  destruct (arr_release_spec s q dm dl kids y k c (arr_run_inv v ops) Hsub Hl) as (a & b & E & _).
  rewrite E. discriminate.
Qed.
Theorem arr_ptr_exception_unreachable v ops q dm dl kids y k cm cdl ckids : let s := rr_run (rr_init v) ops in
  rsubtree q (r_root s) = Some (RDir dm dl kids) -> rlookup y kids = Some (k, RDir cm cdl ckids) ->
  remove_from_ptr_size (r_ptr_size s) (r_ptr_ext s) (ptr_record_length (zlen (m_name cm))) <> None.
Proof.
  intros s Hsub Hl.
  destruct (arr_rm_dir_ptr_ok s q dm dl kids y k cm cdl ckids (arr_run_inv v ops) Hsub Hl) as (b & pe & Hr & _).
  rewrite Hr. discriminate.
Qed.

(* ---- 4. nothing overlaps, everything is inside the declared volume ---------------------------------------- *)
Lemma arr_dir_area_nonneg v : forall l seen, Forall (fun n => exists ir, rall_ok v ir n) l ->
  Forall (fun z => 0 <= z) (map dobj_size (dir_area seen l)).
Proof.
  induction l as [|n r IH]; intros seen HF; [constructor|].
  inversion HF as [|? ? Hn Hr]; subst. cbn [dir_area].
  assert (Hd : Forall (fun z => 0 <= z)
                 (map dobj_size match n with RDir _ dl _ => [ODir (ceiling_div dl C)] | RFile _ _ => [] end)).
  { destruct n as [m len|m dl kids]; [constructor|]. destruct Hn as [ir Hn].
    apply arr_all_ok_dir in Hn. destruct Hn as (_ & Hd & _). apply arr_dir_ok_dlen in Hd.
    constructor; [|constructor]. cbn [dobj_size]. unfold ceiling_div, C in *. lia. }
  destruct (ce_id n) as [i|]; [destruct (mem_nat i seen)|]; rewrite map_app; apply Forall_app; split;
    try exact Hd; try (apply IH; exact Hr).
  cbn [map]. constructor; [cbn; lia|apply IH; exact Hr].
Qed.

Lemma arr_objects_nonneg s : RInv s -> Forall (fun z => 0 <= z) (robjects s).
Proof.
  intros HI. unfold robjects.
  assert (He : 0 <= r_ptr_ext s).
  { destruct (ri_ptr s HI) as [H0 He]. pose proof (ceiling_div_nonneg (r_ptr_size s) 4096). lia. }
  assert (HV : Forall (fun n => exists ir, rall_ok (r_ver s) ir n) (rvisit s)).
  { apply arr_bfs_all_ok. constructor; [exists true; apply (ri_tree s HI)|constructor]. }
  repeat (constructor; [lia|]). apply Forall_app. split; [apply (arr_dir_area_nonneg (r_ver s)), HV|].
  constructor; [lia|]. apply Forall_map. rewrite Forall_forall in *. intros n Hn. apply filter_In in Hn.
  destruct Hn as [Hn _]. destruct (HV n Hn) as [ir Hok].
  destruct n as [m len|m dl kids]; cbn [robj_size].
  - cbn [rall_ok] in Hok. destruct Hok as [Hok _]. unfold ceiling_div, C. lia.
  - apply arr_all_ok_dir in Hok. destruct Hok as (_ & Hd & _). apply arr_dir_ok_dlen in Hd.
    unfold ceiling_div, C in *. lia.
Qed.

Theorem arr_objects_disjoint v ops : let s := rr_run (rr_init v) ops in
  ForallOrdPairs disjoint (rr_layout s) /\
  Forall (fun iv => 0 <= fst iv /\ fst iv + snd iv <= r_space s) (rr_layout s).
Proof.
  intros s. pose proof (arr_run_inv v ops) as HI. pose proof (arr_objects_nonneg s HI) as HN.
  unfold rr_layout. split.
  - apply bump_disjoint, HN.
  - rewrite (arr_inv_space s HI). apply bump_inside, HN.
Qed.

(* ---- 5. the code before rm_file released the continuation entry of a symlink ---------------------------- *)
(* no rm_file of the history meets a record without inode that has a continuation entry *)
Fixpoint leakfree (s : rstate) (ops : list rop) : bool :=
  match ops with
  | [] => true
  | o :: r =>
      (match o with
       | RRmFile d n =>
           match rsubtree d (r_root s) with
           | Some (RDir _ _ kids) =>
               match rlookup n kids with
               | Some (_, RFile cm _) => m_ino cm || negb (is_some (m_ce cm))
               | _ => true
               end
           | _ => true
           end
       | _ => true
       end) && leakfree (fst (rr_step_gen false s o)) r
  end.

Lemma arr_old_step_same s o : leakfree s [o] = true -> rr_step_gen false s o = rr_step_gen true s o.
Proof.
  destruct o; try reflexivity. cbn [leakfree rr_step_gen]. unfold step_rm_file.
  destruct (rsubtree dir (r_root s)) as [[pm pl|dm dl kids]|]; try reflexivity.
  destruct (rlookup name kids) as [[k [cm len|cm cdl ckids]]|]; try reflexivity.
  rewrite andb_true_r. destruct (m_ino cm); [reflexivity|]. cbn [orb]. unfold release_of.
  destruct (m_ce cm); [discriminate|reflexivity].
Qed.

Theorem arr_old_run_same ops : forall s, leakfree s ops = true -> rr_run_gen false s ops = rr_run_gen true s ops.
Proof.
  induction ops as [|o r IH]; intros s H; [reflexivity|].
  cbn [leakfree] in H. apply andb_true_iff in H. destruct H as [H1 H2].
  assert (E : rr_step_gen false s o = rr_step_gen true s o).
  { apply arr_old_step_same. cbn [leakfree]. rewrite H1. reflexivity. }
  unfold rr_run_gen in *. cbn [fold_left]. rewrite <- E. apply IH, H2.
Qed.

Theorem arr_space_exact_old_partial v ops : leakfree (rr_init v) ops = true ->
  r_space (rr_run_gen false (rr_init v) ops) = rr_layout_end (rr_run_gen false (rr_init v) ops).
Proof. intros H. rewrite (arr_old_run_same ops _ H). apply arr_space_exact. Qed.

(* add_symlink('/SYM.;1', 'sym', 'x' * 200); rm_file('/SYM.;1'): the symlink's 103-byte continuation area
   stays in pvd.rr_ce_blocks, space_size stays 26 while the extents end at 25
   (/var/tmp/accountrr/probe_symlink_leak.py on the tree before 958cd03) *)
Definition leak_ops : list rop :=
  [RAddSymlink [] [83; 89; 77; 46; 59; 49] [115; 121; 109] (repeat 120 200);
   RRmFile [] [83; 89; 77; 46; 59; 49]].

Theorem arr_space_exact_old_refuted :
  exists v ops, r_space (rr_run_gen false (rr_init v) ops) <> rr_layout_end (rr_run_gen false (rr_init v) ops).
Proof. exists V109, leak_ops. vm_compute. discriminate. Qed.

Theorem arr_ce_sound_old_refuted : exists v ops, ~ ce_sound (rr_run_gen false (rr_init v) ops).
Proof.
  exists V109, leak_ops. intros (_ & _ & _ & H).
  specialize (H O [(0, 103)] 0 103). vm_compute in H.
  assert (E : 0 = 1) by (apply H; left; reflexivity). discriminate E.
Qed.

(* the same history on the current code *)
Example arr_leak_ops_now :
  run_obs true (rr_init V109) leak_ops =
    [(true, [26; 10; 2; 2048; 0], [[(0, 103)]], 26, [24]); (true, [25; 10; 2; 2048; 0], [], 25, [])]
  /\ run_obs false (rr_init V109) leak_ops =
    [(true, [26; 10; 2; 2048; 0], [[(0, 103)]], 26, [24]); (true, [26; 10; 2; 2048; 0], [[(0, 103)]], 25, [-1])].
Proof. vm_compute. split; reflexivity. Qed.

Print Assumptions arr_space_exact.
Print Assumptions arr_ce_sound.
Print Assumptions arr_blocks_placed.
Print Assumptions arr_refused_unchanged.
Print Assumptions arr_release_never_fails.
Print Assumptions arr_ptr_exception_unreachable.
Print Assumptions arr_objects_disjoint.
Print Assumptions arr_space_exact_old_partial.
Print Assumptions arr_space_exact_old_refuted.
Print Assumptions arr_ce_sound_old_refuted.
