(* MasterJoliet, part 7: the whole of what _write_directory_records(joliet_vd) writes, for a well-formed
   state: the L and M path table chunks and the directory chunks form an image without overlaps; the
   byte-level reader returns mj_jview from it, and the UTF-16BE decoding of that view is mj_uview.
     mj_j_hyps / mj_i_hyps   the hypotheses of the generic sections, for the Joliet and the ISO9660 area
     mj_master_joliet_some   master_joliet does not fail (at most 65535 directories), its three parts
     mj_joliet_img_ok        its chunks do not overlap
     mj_decode_view          decoding the byte view gives mj_uview when every identifier is UTF-16BE *)
From Coq Require Import ZArith List Bool Lia ZifyBool.
From PV.Base Require Import Prim ListX.
From PV.Gen Require Import GenConst GenFun.
From PV.Model Require Import Codec Pack PathTable Master MasterJoliet.
From PV.Model Require Alloc Account AccountLinks AccountNs LongNames.
From PV.Proofs Require Import CodecProofs PackProofs PathTableLemmas PathTableProofs.
From PV.Proofs Require AccountLemmas AccountLinksLemmas.
From PV.Proofs Require Import MasterPack MasterImage MasterBfs MasterWf.
From PV.Proofs Require Import MasterJolietWf MasterJolietDir MasterJolietRead MasterJolietLayout
     MasterJolietWalk MasterJolietPtable.
Import ListNotations.
Local Open Scope Z_scope.
Ltac Zify.zify_post_hook ::= Z.to_euclidean_division_equations.

(* ---- images ---------------------------------------------------------------------------------------------- *)

Lemma mj_img_ok_cons c img : ms_img_ok img -> (forall d, In d img -> ms_disjoint c d) -> ms_img_ok (c :: img).
Proof.
  intros Hok Hd c1 c2 [<-|H1] [<-|H2].
  - left. reflexivity.
  - right. apply Hd. exact H2.
  - right. destruct (Hd c1 H1) as [H|H]; [right|left]; exact H.
  - apply Hok; assumption.
Qed.

Lemma mj_ptable_chunk_facts loc n b c : mj_ptable_chunk loc n (Some b) = Some c -> 0 <= n -> zlen b <= n * BS ->
  fst c = loc /\ zlen (snd c) = n * BS /\ ms_cblocks c = n /\ firstn (length b) (snd c) = b.
Proof.
  intros H Hn Hb. cbn [mj_ptable_chunk] in H. injection H as <-. cbn [fst snd].
  assert (Hl : zlen (b ++ repeat 0 (Z.to_nat (n * BS - zlen b))) = n * BS).
  { rewrite zlen_app, ms_zlen_repeat. lia. }
  split; [reflexivity|]. split; [exact Hl|]. split.
  - unfold ms_cblocks. cbn [snd]. rewrite Hl. rewrite ms_BS. lia.
  - rewrite firstn_app, Nat.sub_diag, firstn_all. cbn [firstn]. apply app_nil_r.
Qed.

(* ---- the hypotheses of the generic sections ---------------------------------------------------------------- *)

Section State.
  Variable s : nstate.
  Hypothesis Hwf : mj_wf s = true.

  Local Notation tj := (AccountNs.njol s).
  Local Notation ti := (AccountNs.niso s).

  Lemma mj_j_hyps :
    mj_root_ok tj = true /\ mj_tree_ok tj = true /\ 0 <= mj_jdir_start s /\
    assign_end (mj_jdir_start s) (mj_dtree tj) <= 4294967296.
  Proof.
    destruct (mj_wf_parts s Hwf) as (_ & Rj & _ & Tj & _).
    pose proof (mj_regions s Hwf) as R. fold (mj_data_start s).
    repeat split; try assumption; lia.
  Qed.

  Lemma mj_i_hyps :
    mj_root_ok ti = true /\ mj_tree_ok ti = true /\ 0 <= mj_idir_start s /\
    assign_end (mj_idir_start s) (mj_dtree ti) <= 4294967296.
  Proof.
    destruct (mj_wf_parts s Hwf) as (Ri & _ & Ti & _).
    pose proof (mj_regions s Hwf) as R. fold (mj_jdir_start s).
    repeat split; try assumption; lia.
  Qed.

  Definition mj_JDB : list dirrec := bfs (mj_jdir_start s) (mj_dtree tj).
  Definition mj_IDB : list dirrec := bfs (mj_idir_start s) (mj_dtree ti).

  Variable dt : list Z.
  Hypothesis Hdt : length dt = 7%nat.

  Definition mj_jdirs : image := map (mj_chunk dt s tj mj_JDB) (mj_dir_positions tj).
  Definition mj_idirs : image := map (mj_chunk dt s ti mj_IDB) (mj_dir_positions ti).

  Lemma mj_jdirs_some : master_joliet_dirs dt s = Some mj_jdirs.
  Proof.
    destruct mj_j_hyps as (H1 & H2 & H3 & H4).
    apply (mj_area_some dt Hdt s tj (mj_jdir_start s) H1 H2 H3 H4 (mj_fext_range s Hwf) (mj_len_range32 s Hwf)).
  Qed.

  Lemma mj_idirs_some : master_joliet_iso dt s = Some mj_idirs.
  Proof.
    destruct mj_i_hyps as (H1 & H2 & H3 & H4).
    apply (mj_area_some dt Hdt s ti (mj_idir_start s) H1 H2 H3 H4 (mj_fext_range s Hwf) (mj_len_range32 s Hwf)).
  Qed.

  Lemma mj_jdirs_ok : ms_img_ok mj_jdirs.
  Proof.
    destruct mj_j_hyps as (H1 & H2 & H3 & H4).
    apply (mj_area_img_ok dt Hdt s tj (mj_jdir_start s) H1 H2 H3 H4 (mj_fext_range s Hwf) (mj_len_range32 s Hwf)).
  Qed.

  Lemma mj_idirs_ok : ms_img_ok mj_idirs.
  Proof.
    destruct mj_i_hyps as (H1 & H2 & H3 & H4).
    apply (mj_area_img_ok dt Hdt s ti (mj_idir_start s) H1 H2 H3 H4 (mj_fext_range s Hwf) (mj_len_range32 s Hwf)).
  Qed.

  (* every Joliet directory chunk lies in [mj_jdir_start, mj_data_start) *)
  Lemma mj_jdirs_inside c : In c mj_jdirs ->
    mj_jdir_start s <= fst c /\ fst c + ms_cblocks c <= mj_data_start s /\ 0 < ms_cblocks c /\
    zlen (snd c) = ms_cblocks c * BS.
  Proof.
    intros Hc. apply in_map_iff in Hc. destruct Hc as (p & <- & Hp).
    destruct mj_j_hyps as (H1 & H2 & H3 & H4).
    apply (mj_chunk_inside dt Hdt s tj (mj_jdir_start s) H1 H2 H3 H4 (mj_fext_range s Hwf) (mj_len_range32 s Hwf)).
    apply (mj_positions_dir dt Hdt s tj (mj_jdir_start s) H1 H2 H3 H4 (mj_fext_range s Hwf) (mj_len_range32 s Hwf)).
    exact Hp.
  Qed.

  (* every ISO9660 directory chunk lies in [mj_idir_start, mj_jdir_start) *)
  Lemma mj_idirs_inside c : In c mj_idirs ->
    mj_idir_start s <= fst c /\ fst c + ms_cblocks c <= mj_jdir_start s /\ 0 < ms_cblocks c /\
    zlen (snd c) = ms_cblocks c * BS.
  Proof.
    intros Hc. apply in_map_iff in Hc. destruct Hc as (p & <- & Hp).
    destruct mj_i_hyps as (H1 & H2 & H3 & H4).
    apply (mj_chunk_inside dt Hdt s ti (mj_idir_start s) H1 H2 H3 H4 (mj_fext_range s Hwf) (mj_len_range32 s Hwf)).
    apply (mj_positions_dir dt Hdt s ti (mj_idir_start s) H1 H2 H3 H4 (mj_fext_range s Hwf) (mj_len_range32 s Hwf)).
    exact Hp.
  Qed.

  (* ---- the path tables ------------------------------------------------------------------------------------ *)

  Hypothesis Hnd : Z.of_nat (length (mj_dir_positions tj)) <= 65535.

  Lemma mj_jptables :
    exists L M, mj_jptable_le s = Some L /\ mj_jptable_be s = Some M /\
      zlen L = AccountNs.jps s /\ zlen M = AccountNs.jps s /\
      AccountNs.jps s <= AccountNs.jpe s * BS /\
      (exists rs, parse_ptable (length L) L = Some rs /\
                  map tuple_of_ptrec rs = map rec_tuple (bfs (mj_jdir_start s) (mj_ptree tj))) /\
      reader_of_bytes L = Some (map (mj_names_at tj) (mj_dir_positions tj)).
  Proof.
    destruct mj_j_hyps as (H1 & H2 & H3 & H4).
    destruct (mj_pt_bytes tj (mj_jdir_start s) H1 H2 H3 H4 Hnd) as (L & M & HL & HM & SL & SM & HP & HR).
    destruct (mj_wf_parts s Hwf) as (_ & _ & _ & _ & _ & _ & Hpj & Hps & Hpe & _).
    exists L, M. unfold mj_jptable_le, mj_jptable_be. rewrite Hps.
    repeat split; try assumption.
    rewrite <- Hps. unfold ceiling_div in Hpe. rewrite ms_BS. lia.
  Qed.

  Theorem mj_master_joliet_some :
    exists L M lc mc,
      mj_jptable_le s = Some L /\ mj_jptable_be s = Some M /\
      mj_ptable_chunk (mj_jptl s) (AccountNs.jpe s) (Some L) = Some lc /\
      mj_ptable_chunk (mj_jptm s) (AccountNs.jpe s) (Some M) = Some mc /\
      master_joliet dt s = Some (lc :: mc :: mj_jdirs).
  Proof.
    destruct mj_jptables as (L & M & HL & HM & _).
    exists L, M. do 2 eexists. split; [exact HL|]. split; [exact HM|].
    split; [reflexivity|]. split; [reflexivity|].
    unfold master_joliet. rewrite HL, HM, mj_jdirs_some. reflexivity.
  Qed.

  Theorem mj_joliet_img_ok img : master_joliet dt s = Some img -> ms_img_ok img /\ incl mj_jdirs img.
  Proof.
    destruct mj_master_joliet_some as (L & M & lc & mc & HL & HM & Hlc & Hmc & Himg).
    rewrite Himg. intros E. injection E as <-.
    destruct mj_jptables as (L' & M' & HL' & HM' & SL & SM & Hfit & _).
    rewrite HL in HL'. rewrite HM in HM'. injection HL' as <-. injection HM' as <-.
    destruct (mj_wf_parts s Hwf) as (_ & _ & _ & _ & _ & _ & Hpj & _).
    destruct (mj_ptable_chunk_facts _ _ _ _ Hlc Hpj ltac:(lia)) as (Fl & _ & Cl & _).
    destruct (mj_ptable_chunk_facts _ _ _ _ Hmc Hpj ltac:(lia)) as (Fm & _ & Cm & _).
    pose proof (mj_regions s Hwf) as R.
    split; [|intros c Hc; right; right; exact Hc].
    apply mj_img_ok_cons; [apply mj_img_ok_cons; [exact mj_jdirs_ok|]|].
    - intros d Hd. destruct (mj_jdirs_inside d Hd) as (D1 & _). left. rewrite Fm, Cm.
      unfold mj_idir_start in R. lia.
    - intros d [<-|Hd].
      + left. rewrite Fl, Cl, Fm. unfold mj_jptm. lia.
      + destruct (mj_jdirs_inside d Hd) as (D1 & _). left. rewrite Fl, Cl.
        unfold mj_idir_start, mj_jptm in R. lia.
  Qed.
End State.

(* ---- decoding the identifiers -------------------------------------------------------------------------------- *)

Lemma mj_decode_list_map l : (forall r, In r l -> mj_decode r = Some (mj_uview_node r)) ->
  mj_decode_list l = Some (map mj_uview_node l).
Proof.
  induction l as [|a l IH]; intros H; [reflexivity|]. cbn [mj_decode_list map].
  rewrite (H a (or_introl eq_refl)), IH; [reflexivity|]. intros r Hr. apply H. right. exact Hr.
Qed.

Lemma mj_decode_dir nm e l ks : mj_decode (RDir nm e l ks) =
  match LongNames.utf16be_dec nm, mj_decode_list ks with
  | Some u, Some us => Some (UDir u e l us)
  | _, _ => None
  end.
Proof.
  cbn [mj_decode]. destruct (LongNames.utf16be_dec nm); [|reflexivity].
  replace ((fix go (l0 : list rnode) : option (list unode) :=
              match l0 with
              | [] => Some []
              | a :: r => match mj_decode a, go r with
                          | Some x, Some y => Some (x :: y)
                          | _, _ => None
                          end
              end) ks) with (mj_decode_list ks); [reflexivity|].
  induction ks as [|a r IH]; [reflexivity|]. cbn [mj_decode_list]. rewrite IH. reflexivity.
Qed.

Lemma mj_uname_ok nm : mj_decodes nm = true -> LongNames.utf16be_dec nm = Some (mj_uname nm).
Proof. unfold mj_decodes, mj_uname. destruct (LongNames.utf16be_dec nm); [reflexivity|discriminate]. Qed.

Lemma mj_decode_view s DB : forall n p, mj_names_ok n = true ->
  mj_decode (mj_view s DB p n) = Some (mj_uview_node (mj_view s DB p n)).
Proof.
  apply (AccountLinksLemmas.lnode_ind' (fun n => forall p, mj_names_ok n = true ->
           mj_decode (mj_view s DB p n) = Some (mj_uview_node (mj_view s DB p n)))).
  - intros nm i st p H. cbn [mj_names_ok] in H. cbn [mj_view mj_decode mj_uview_node].
    rewrite (mj_uname_ok nm H). reflexivity.
  - intros nm dl kids IH p H. cbn [mj_names_ok] in H. apply andb_prop in H. destruct H as [Hn Hk].
    rewrite mj_view_dir, mj_decode_dir, (mj_uname_ok nm Hn). cbn [mj_uview_node].
    rewrite mj_decode_list_map; [reflexivity|].
    rewrite forallb_forall in Hk. rewrite Forall_forall in IH.
    generalize 0%nat. induction kids as [|c r IHr]; intros j x Hx; [destruct Hx|].
    cbn [mj_view_kids] in Hx. destruct Hx as [<-|Hx].
    + apply IH; [left; reflexivity|apply Hk; left; reflexivity].
    + apply (IHr (fun y Hy => IH y (or_intror Hy)) (fun y Hy => Hk y (or_intror Hy)) (S j) x Hx).
Qed.

Theorem mj_decode_root_view s : mj_root_ok (AccountNs.njol s) = true ->
  mj_kid_names_ok (AccountNs.njol s) = true ->
  mj_decode_root (mj_jview s) = Some (mj_uview s).
Proof.
  intros Hr Hk. unfold mj_uview, mj_jview. generalize (mj_jdir_start s). intros st0.
  destruct (AccountNs.njol s) as [nm i st|nm dl kids]; [discriminate|].
  generalize (bfs st0 (mj_dtree (LDir nm dl kids))). intros DB.
  rewrite mj_view_dir. cbn [mj_decode_root]. unfold mj_kid_names_ok in Hk. cbn [AccountLinks.lkids] in Hk.
  rewrite mj_decode_list_map; [reflexivity|].
  rewrite forallb_forall in Hk. clear Hr. generalize 0%nat.
  induction kids as [|c r IHr]; intros j x Hx; [destruct Hx|].
  cbn [mj_view_kids] in Hx. destruct Hx as [<-|Hx].
  - apply mj_decode_view. apply Hk. left. reflexivity.
  - apply (IHr (fun y Hy => Hk y (or_intror Hy)) (S j) x Hx).
Qed.

Print Assumptions mj_master_joliet_some.
Print Assumptions mj_joliet_img_ok.
Print Assumptions mj_decode_root_view.
