(* C01 / C07 for two namespaces (ISO9660 + Joliet) sharing inodes: the remaining operations, the
   theorems for histories without late refusals, and the witness that a late refusal breaks the
   accounting.  (Invariant: AccountNsInv.v.  Refinement of Spec/FsSpec.v: AccountNsRefine*.v.) *)
From Coq Require Import ZArith List Bool Lia ZifyBool Sorted Arith Permutation.
From PV.Base Require Import Prim.
From PV.Gen Require Import GenConst GenFun.
From PV.Model Require Import Names Checksums Pack Alloc Account AccountLinks AccountNs.
From PV.Proofs Require Import PackProofs AllocProofs ChecksumsArithProofs AccountLemmas AccountProofs
     AccountLinksLemmas AccountLinksPurge AccountLinksInv AccountNsLemmas AccountNsInv.
Import ListNotations.
Local Open Scope Z_scope.
Ltac Zify.zify_post_hook ::= Z.to_euclidean_division_equations.

(* ---- add_hard_link ----------------------------------------------------------------------------- *)

Lemma nrc_nonneg i ti tj : 0 <= nrefcount i ti tj.
Proof. unfold nrefcount. pose proof (lrefcount_nonneg i ti). pose proof (lrefcount_nonneg i tj). lia. Qed.

Lemma nstep_add_link_inv k s sns src dns dirp nm : NInv k s ->
  NInv (S k) (fst (nstep_add_link k s sns src dns dirp nm)).
Proof.
  intros HI. pose proof (ninv_mono k s HI) as HM. unfold nstep_add_link.
  destruct (lsubtree (ns_path sns src) (tree_of s sns)) as [[on ino ost|on odl okids]|] eqn:Hsrc; try exact HM.
  destruct (ns_file_legal dns dirp nm); [|exact HM].
  destruct (t_add_rec (tree_of s dns) (ns_path dns dirp) (ns_name dns nm) ino (stamp_i k)) as [[t' g]|] eqn:E;
    [|exact HM].
  assert (Hsrc' : 0 < nrefcount ino (niso s) (njol s)).
  { pose proof (lsubtree_ref ino _ _ _ _ Hsrc) as H. unfold nrefcount.
    pose proof (lrefcount_nonneg ino (niso s)). pose proof (lrefcount_nonneg ino (njol s)).
    destruct sns; cbn [tree_of] in H; lia. }
  destruct (ninv_tbl k s HI) as [HN HR].
  destruct dns; cbn [tree_of set_tree fst] in *.
  - pose proof (rec_phase_add ino _ _ _ _ _ _ (ninv_itree k s HI) (ninv_iroot k s HI) E)
      as (A1 & A2 & A3 & A4 & A5 & A6).
    apply (rec_combine k s); try assumption; try reflexivity;
      try apply (ninv_jtree k s HI); try apply (ninv_jroot k s HI); try apply (ninv_len k s HI).
    + split; [exact HN|]. intros j. unfold nrefcount in *. rewrite A6, HR. cbn [andb].
      destruct (Nat.eqb_spec ino j) as [<-|Hne]; lia.
    + intros j Hj. apply (ninv_fresh k s HI) in Hj. lia.
    + unfold ceiling_div, C in *. destruct A3 as [-> | ->]; lia.
  - pose proof (rec_phase_add ino _ _ _ _ _ _ (ninv_jtree k s HI) (ninv_jroot k s HI) E)
      as (A1 & A2 & A3 & A4 & A5 & A6).
    apply (rec_combine k s); try assumption; try reflexivity;
      try apply (ninv_itree k s HI); try apply (ninv_iroot k s HI); try apply (ninv_len k s HI).
    + split; [exact HN|]. intros j. unfold nrefcount in *. rewrite A6, HR. cbn [andb].
      destruct (Nat.eqb_spec ino j) as [<-|Hne]; lia.
    + intros j Hj. apply (ninv_fresh k s HI) in Hj. lia.
    + unfold ceiling_div, C in *. destruct A3 as [-> | ->]; lia.
Qed.

(* ---- rm_hard_link ------------------------------------------------------------------------------ *)

Definition rm_phase (i : nat) (t t' : lnode) (sh : Z) : Prop :=
  lall_ok t' /\ troot_ok t' /\ (sh = 0 \/ sh = 2048) /\
  ltotal lw_ptr t' = ltotal lw_ptr t /\
  C * ltotal lw_dblk t' = C * ltotal lw_dblk t - sh /\
  forall j, lrefcount j t' = lrefcount j t - (if Nat.eqb i j then 1 else 0).

Lemma rm_phase_of t d n t' sh i : lall_ok t -> troot_ok t ->
  t_rm_rec t d n = Some (t', sh, i) -> rm_phase i t t' sh.
Proof.
  intros Hok [Hn Hd] H. unfold t_rm_rec in H.
  destruct (t_find t d n) as [[[[[dn dl] kids] k] [cn ci cs|cn cdl ck]]|] eqn:Hf; try discriminate.
  destruct (t_remove t d dn dl kids k) as [t1 sh1] eqn:Hr. injection H as <- <- <-.
  apply t_find_spec in Hf. destruct Hf as (Hsub & _ & Hk & _).
  destruct (t_remove_spec t d dn dl kids k _ t1 sh1 Hok Hsub Hk Hr) as (A1 & A2 & A3 & A4 & A5 & A6 & _).
  split; [exact A1|]. split; [split; congruence|]. split; [exact A4|].
  split; [rewrite (A5 lw_ptr dl_free_ptr), ltotal_file; cbn [lw_ptr]; lia|].
  split; [rewrite ltotal_file in A6; cbn [lw_dblk] in A6; lia|].
  intros j. unfold lrefcount. rewrite (A5 (lw_ref j) (dl_free_ref j)), ltotal_file. reflexivity.
Qed.

Lemma nstep_rm_link_inv k s n dirp nm : NInv k s -> NInv (S k) (fst (nstep_rm_link s n dirp nm)).
Proof.
  intros HI. pose proof (ninv_mono k s HI) as HM. unfold nstep_rm_link.
  destruct (t_rm_rec (tree_of s n) (ns_path n dirp) (ns_name n nm)) as [[[t' sh] i]|] eqn:E; [|exact HM].
  destruct (ninv_tbl k s HI) as [HN HR].
  assert (Main : forall ti tj,
     lall_ok ti -> troot_ok ti -> ltotal lw_ptr ti = ltotal lw_ptr (niso s) ->
     lall_ok tj -> troot_ok tj -> ltotal lw_ptr tj = ltotal lw_ptr (njol s) ->
     (sh = 0 \/ sh = 2048) ->
     C * (ltotal lw_dblk ti + ltotal lw_dblk tj) = C * (ltotal lw_dblk (niso s) + ltotal lw_dblk (njol s)) - sh ->
     (forall j, nrefcount j ti tj = nrefcount j (niso s) (njol s) - (if Nat.eqb i j then 1 else 0)) ->
     NInv (S k) (fst (let '(tbl, data) :=
                        if nrefcount i ti tj =? 0 then (del_ino i (ninodes s), len_of i (ninodes s))
                        else (ninodes s, 0) in
                      (set_trees s ti tj tbl (ispace s - ceiling_div (sh + data) C), NOk)))).
  { intros ti tj A1 A2 A3 B1 B2 B3 Hsh Hd Hrc.
    destruct (Z.eqb_spec (nrefcount i ti tj) 0) as [E0|E0]; cbn [fst].
    - destruct (ids_del i (ninodes s) HN) as (D1 & D2 & D3).
      apply (rec_combine k s); try assumption.
      + split; [exact D1|]. intros j. rewrite Hrc. destruct (Nat.eqb_spec i j) as [<-|Hne].
        * rewrite Hrc, Nat.eqb_refl in E0. split; [tauto|lia].
        * rewrite (D3 j) by congruence. rewrite HR. lia.
      + intros j Hj. apply ids_del_in in Hj. apply (ninv_fresh k s HI) in Hj. lia.
      + apply Forall_del, (ninv_len k s HI).
      + rewrite tbl_sum_del. unfold blocks_of, ceiling_div, C in *. destruct Hsh as [-> | ->]; lia.
    - apply (rec_combine k s); try assumption.
      + split; [exact HN|]. intros j. rewrite Hrc, HR. destruct (Nat.eqb_spec i j) as [<-|Hne]; [|lia].
        rewrite Hrc, Nat.eqb_refl in E0. pose proof (nrc_nonneg i ti tj) as N. rewrite Hrc, Nat.eqb_refl in N. lia.
      + intros j Hj. apply (ninv_fresh k s HI) in Hj. lia.
      + apply (ninv_len k s HI).
      + unfold ceiling_div, C in *. destruct Hsh as [-> | ->]; lia. }
  destruct n; cbn [tree_of set_tree] in *.
  - destruct (rm_phase_of _ _ _ _ _ _ (ninv_itree k s HI) (ninv_iroot k s HI) E) as (A1 & A2 & A3 & A4 & A5 & A6).
    apply Main; try assumption; try reflexivity;
      try apply (ninv_jtree k s HI); try apply (ninv_jroot k s HI); [lia|].
    intros j. unfold nrefcount. rewrite A6. lia.
  - destruct (rm_phase_of _ _ _ _ _ _ (ninv_jtree k s HI) (ninv_jroot k s HI) E) as (A1 & A2 & A3 & A4 & A5 & A6).
    apply Main; try assumption; try reflexivity;
      try apply (ninv_itree k s HI); try apply (ninv_iroot k s HI); [lia|].
    intros j. unfold nrefcount. rewrite A6. lia.
Qed.

(* ---- rm_file ------------------------------------------------------------------------------------ *)

Lemma troot_purge i t : troot_ok t -> troot_ok (purge_node i t).
Proof. intros [Hn Hd]. split; [rewrite lname_purge; exact Hn|]. destruct t; [discriminate|reflexivity]. Qed.

Lemma purge_state_ninv k s i : NInv k s ->
  NInv (S k) (set_trees s (purge_node i (niso s)) (purge_node i (njol s)) (del_ino i (ninodes s))
                (ispace s - ceiling_div (purge_bytes i (niso s) + purge_bytes i (njol s)
                                         + len_of i (ninodes s)) C)).
Proof.
  intros HI. destruct (ninv_tbl k s HI) as [HN HR].
  destruct (ninv_iroot k s HI) as [_ Hdi]. destruct (ninv_jroot k s HI) as [_ Hdj].
  destruct (ids_del i (ninodes s) HN) as (D1 & D2 & D3).
  apply (rec_combine k s); try assumption.
  - apply purge_all_ok, (ninv_itree k s HI).
  - apply troot_purge, (ninv_iroot k s HI).
  - apply purge_ptr.
  - apply purge_all_ok, (ninv_jtree k s HI).
  - apply troot_purge, (ninv_jroot k s HI).
  - apply purge_ptr.
  - split; [exact D1|]. intros j. unfold nrefcount. destruct (Nat.eq_dec j i) as [->|Hne].
    + rewrite (purge_refcount_self i _ Hdi), (purge_refcount_self i _ Hdj). split; [tauto|lia].
    + rewrite (D3 j Hne), !(purge_refcount_other i j _ Hne). apply HR.
  - intros j Hj. apply ids_del_in in Hj. apply (ninv_fresh k s HI) in Hj. lia.
  - apply Forall_del, (ninv_len k s HI).
  - pose proof (purge_dblk i (niso s)) as E1. pose proof (purge_dblk i (njol s)) as E2.
    rewrite tbl_sum_del. unfold blocks_of, ceiling_div, C in *. lia.
Qed.

Lemma nstep_rm_file_inv k s n dirp nm : NInv k s -> NInv (S k) (fst (nstep_rm_file s n dirp nm)).
Proof.
  intros HI. pose proof (ninv_mono k s HI) as HM. unfold nstep_rm_file.
  destruct (t_find (tree_of s n) (ns_path n dirp) (ns_name n nm))
    as [[[[[dn dl] kids] k0] [cn ci cs|cn cdl ck]]|]; try exact HM.
  cbn [fst]. apply purge_state_ninv, HI.
Qed.

(* ---- every operation, every history ------------------------------------------------------------- *)

Theorem nstep_preserves_inv k s o : NInv k s -> snd (nstep k s o) <> NLate -> NInv (S k) (fst (nstep k s o)).
Proof.
  intros HI. destruct o; cbn [nstep].
  - apply nstep_add_file_inv, HI.
  - apply nstep_add_dir_inv, HI.
  - intros _. apply nstep_add_link_inv, HI.
  - intros _. apply nstep_rm_link_inv, HI.
  - intros _. apply nstep_rm_file_inv, HI.
  - apply nstep_rm_dir_inv, HI.
Qed.

Theorem nrun_inv_from ops : forall k s, NInv k s -> clean_from k s ops = true ->
  NInv (k + length ops) (nrun_from k s ops).
Proof.
  induction ops as [|o r IH]; intros k s HI Hc; cbn [nrun_from length].
  - rewrite Nat.add_0_r. exact HI.
  - unfold clean_from in Hc. cbn [nouts_from existsb] in Hc. rewrite negb_orb in Hc.
    apply andb_prop in Hc. destruct Hc as [H1 H2].
    replace (k + S (length r))%nat with (S k + length r)%nat by lia.
    apply IH; [|exact H2]. apply nstep_preserves_inv; [exact HI|].
    intros E. rewrite E in H1. discriminate.
Qed.

Theorem nrun_inv ops : clean ops = true -> NInv (length ops) (nrun ops).
Proof. intros H. apply (nrun_inv_from ops 0 ninit ninit_ok H). Qed.

(* for a history without late refusals both descriptors declare exactly the end of the layout *)
Theorem C01_space_exact_two_namespaces ops : clean ops = true ->
  ispace (nrun ops) = nlayout_end (nrun ops) /\ jspace (nrun ops) = nlayout_end (nrun ops).
Proof. intros H. eapply ninv_layout, nrun_inv, H. Qed.

(* the inode table is the set of inodes referenced from EITHER hierarchy *)
Theorem C07_inode_table_two_namespaces ops : clean ops = true ->
  let s := nrun ops in
  NoDup (ids (ninodes s)) /\
  forall i, In i (ids (ninodes s)) <-> 0 < nrefcount i (niso s) (njol s).
Proof. intros H. apply (ninv_tbl _ _ (nrun_inv ops H)). Qed.

(* stored once: an inode gets extents at most once, and iff it is not empty and referenced from
   either hierarchy (any state) *)
Theorem C07_stored_once_two_namespaces s :
  NoDup (nlaid_out s) /\
  forall i, In i (nlaid_out s) <-> 0 < nrefcount i (niso s) (njol s) /\ len_of i (nall s) <> 0.
Proof. split; [apply dedup_nodup|apply nlaid_out_iff]. Qed.

(* in a state reached without late refusal every Inode object is in self.inodes *)
Lemma nlaid_out_clean k s i : NInv k s ->
  In i (nlaid_out s) <-> 0 < nrefcount i (niso s) (njol s) /\ len_of i (ninodes s) <> 0.
Proof. intros HI. rewrite nlaid_out_iff, (nall_clean s (ninv_orph k s HI)). tauto. Qed.

(* ---- objects are pairwise disjoint and inside the declared volume ------------------------------ *)

Lemma dirs_nonneg t : lall_ok t ->
  Forall (fun z => 0 <= z) (map lw_dblk (filter l_is_dir (lbfs (lnsize t) [t]))).
Proof.
  intros Hok. assert (HV : Forall lall_ok (lbfs (lnsize t) [t])).
  { apply lbfs_all_ok. constructor; [exact Hok|constructor]. }
  apply Forall_map. rewrite Forall_forall in *. intros n Hn. apply filter_In in Hn.
  destruct Hn as [Hn Hd]. specialize (HV n Hn). destruct n as [nm ino st|nm dl kids]; [discriminate|].
  apply lall_ok_dir in HV. destruct HV as [HV _]. apply dir_ok_dlen in HV.
  cbn [lw_dblk]. apply ceiling_div_nonneg; unfold C in *; lia.
Qed.

Lemma nobjects_nonneg k s : NInv k s -> Forall (fun z => 0 <= z) (nobjects s).
Proof.
  intros HI. unfold nobjects.
  assert (He : 0 <= ipe s).
  { destruct (ninv_iptr k s HI) as [H0 He]. pose proof (ceiling_div_nonneg (ips s) 4096). lia. }
  assert (Hj : 0 <= jpe s).
  { destruct (ninv_jptr k s HI) as [H0 He']. pose proof (ceiling_div_nonneg (jps s) 4096). lia. }
  repeat (constructor; [lia|]). apply Forall_app. split; [apply dirs_nonneg, (ninv_itree k s HI)|].
  apply Forall_app. split; [apply dirs_nonneg, (ninv_jtree k s HI)|].
  apply Forall_map, Forall_forall. intros i _.
  apply ceiling_div_nonneg; [unfold C; lia|].
  rewrite (nall_clean s (ninv_orph k s HI)).
  apply (len_of_in (fun l => 0 <= l) (ninodes s)); [|lia].
  eapply Forall_impl; [|apply (ninv_len k s HI)]. intros e He'. cbv beta in He'. lia.
Qed.

Theorem C01_objects_disjoint_two_namespaces ops : clean ops = true ->
  let s := nrun ops in
  ForallOrdPairs disjoint (nlayout s) /\
  Forall (fun iv => 0 <= fst iv /\ fst iv + snd iv <= ispace s) (nlayout s).
Proof.
  intros Hc s. pose proof (nrun_inv ops Hc) as HI. fold s in HI.
  pose proof (nobjects_nonneg _ s HI) as HN. unfold nlayout. split.
  - apply bump_disjoint, HN.
  - destruct (ninv_layout _ s HI) as [E _]. rewrite E. apply bump_inside, HN.
Qed.

(* ---- refusals ------------------------------------------------------------------------------------ *)

Ltac break_match :=
  repeat match goal with
         | |- context [match ?x with _ => _ end] => destruct x
         end.

(* an EARLY refusal changes nothing *)
Theorem nrefused_unchanged k s o s' : nstep k s o = (s', NRefused) -> s' = s.
Proof.
  assert (H : snd (nstep k s o) = NRefused -> fst (nstep k s o) = s).
  { destruct o; cbn [nstep];
      unfold nstep_add_file, nstep_add_dir, nstep_add_link, nstep_rm_link, nstep_rm_file, nstep_rm_dir;
      cbv zeta; break_match; cbn [fst snd]; intros H; try reflexivity; discriminate. }
  intros E. rewrite E in H. cbn [fst snd] in H. apply H. reflexivity.
Qed.

(* a LATE refusal only comes from a call that names both namespaces, and its ISO9660 part has been
   applied: the ISO9660 hierarchy is not what it was *)
Lemma t_add_node_changes t d c t' g : lall_ok t -> lall_ok c -> t_add_node t d c = Some (t', g) ->
  ltotal (fun _ => 1) t' = ltotal (fun _ => 1) t + ltotal (fun _ => 1) c.
Proof.
  intros Hok Hc H. destruct (t_add_node_spec t d c t' g Hok Hc H) as (_ & _ & _ & _ & A5 & _).
  apply A5. intros nm x y. reflexivity.
Qed.

Lemma ones_pos n : 0 < ltotal (fun _ => 1) n.
Proof.
  destruct n as [nm i st|nm dl kids]; [rewrite ltotal_file; lia|].
  rewrite ltotal_dir. pose proof (ltotals_nonneg (fun _ => 1) (fun _ => ltac:(lia)) kids). lia.
Qed.

Theorem nlate_changes_state k j s o s' : NInv j s -> nstep k s o = (s', NLate) ->
  niso s' <> niso s /\
  match o with
  | NAddFile (Some _) (Some _) _ | NAddDir (Some _) (Some _) | NRmDir (Some _) (Some _) => True
  | _ => False
  end.
Proof.
  intros HI. pose proof (ninv_itree j s HI) as Hok.
  destruct o as [iso jol len|iso jol|sns src dns d n|n d nm|n d nm|iso jol]; cbn [nstep].
  - unfold nstep_add_file. destruct iso as [[di ni]|]; destruct jol as [[dj nj]|];
      try (break_match; discriminate).
    destruct (negb ((0 <=? len) && (len <=? max_len))); [discriminate|].
    destruct (iso_file_legal di ni); [|discriminate].
    destruct (t_add_rec (niso s) di ni k (stamp_i k)) as [[t1 g1]|] eqn:E1; [|discriminate].
    assert (Hne : t1 <> niso s).
    { intros ->. assert (HcF : lall_ok (LFile ni k (stamp_i k))) by exact I.
      pose proof (t_add_node_changes _ _ _ _ _ Hok HcF E1) as E.
      pose proof (ones_pos (LFile ni k (stamp_i k))). lia. }
    cbv beta iota zeta.
    break_match; intros H; inversion H; subst s'; cbn [add_orphan set_trees niso]; split; auto.
  - unfold nstep_add_dir. destruct iso as [[di ni]|]; destruct jol as [[dj nj]|];
      try (break_match; discriminate).
    destruct (iso_dir_legal di ni); [|discriminate].
    destruct (t_add_dir (niso s) di ni) as [[t1 g1]|] eqn:E1; [|discriminate].
    assert (Hc : lall_ok (LDir ni C [])) by (apply lall_ok_dir; split; [apply dir_ok_new|constructor]).
    assert (Hne : t1 <> niso s).
    { intros ->. pose proof (t_add_node_changes _ _ _ _ _ Hok Hc E1) as E.
      pose proof (ones_pos (LDir ni C [])). lia. }
    destruct (add_to_ptr_size (ips s) (ipe s) (ptr_record_length (zlen ni))) as [[b ps] pe].
    cbv beta iota zeta.
    break_match; intros H; inversion H; subst s'; cbn [set_all niso]; split; auto.
  - unfold nstep_add_link. break_match; discriminate.
  - unfold nstep_rm_link. break_match; discriminate.
  - unfold nstep_rm_file. break_match; discriminate.
  - unfold nstep_rm_dir. destruct iso as [pi|]; destruct jol as [pj|]; try (break_match; discriminate).
    destruct (t_rm_dir (niso s) pi) as [[[[t1 sh] cdl] cn]|] eqn:E1; [|discriminate].
    assert (Hne : t1 <> niso s).
    { intros ->. unfold t_rm_dir in E1. destruct (unsnoc pi) as [[q y]|]; [|discriminate].
      destruct (t_find (niso s) q y) as [[[[[dn dl] kids] k0] [fn fi fs|cn' cdl' [|c0 ck]]]|] eqn:Hf; try discriminate.
      destruct (t_remove (niso s) q dn dl kids k0) as [t1 sh1] eqn:Hr. injection E1 as -> _ _ _.
      apply t_find_spec in Hf. destruct Hf as (Hsub & _ & Hk & _).
      destruct (t_remove_spec _ q dn dl kids k0 _ _ sh1 Hok Hsub Hk Hr) as (_ & _ & _ & _ & A5 & _).
      specialize (A5 (fun _ => 1) (fun _ _ _ => eq_refl)).
      pose proof (ones_pos (LDir cn' cdl' [])). lia. }
    destruct (remove_from_ptr_size (ips s) (ipe s) (ptr_record_length (zlen cn))) as [[[b ps] pe]|];
      [|discriminate].
    cbv beta iota zeta.
    break_match; intros H; inversion H; subst s'; cbn [set_all niso]; split; auto.
Qed.

(* ---- a late refusal breaks the accounting -------------------------------------------------------- *)

(* add_fp(iso_path='/A;1', joliet_path='/nope/a') on a fresh image: refused ('Could not find path'),
   but the ISO9660 record stays behind: both descriptors still say 30 blocks while the
   from-scratch layout needs 32: the orphan Inode still gets extents (on the real library _reshuffle_extents then raises 'Assigned an
   extent beyond the ISO (32 > 30)') *)
Definition late_witness : list nop :=
  [NAddFile (Some ([], [65; 59; 49])) (Some ([[110; 111; 112; 101]], [97])) 3000].

Theorem C01_space_exact_two_namespaces_refuted :
  exists ops, clean ops = false /\ ispace (nrun ops) <> nlayout_end (nrun ops) /\
              nouts ops = [NLate] /\ ispace (nrun ops) = 30 /\ nlayout_end (nrun ops) = 32 /\
              ~ (forall i, In i (ids (ninodes (nrun ops))) <->
                           0 < nrefcount i (niso (nrun ops)) (njol (nrun ops))).
Proof.
  exists late_witness. split; [vm_compute; reflexivity|]. split; [vm_compute; intros H; discriminate H|].
  split; [vm_compute; reflexivity|]. split; [vm_compute; reflexivity|]. split; [vm_compute; reflexivity|].
  intros H. specialize (H 0%nat). vm_compute in H. destruct H as [_ H]. apply H. reflexivity.
Qed.

(* ---- rm_hard_link: the content goes exactly with its last name, in EITHER namespace -------------- *)

Theorem C07_content_released_at_last_name_either_namespace k s n dirp nm t' sh i s' :
  NInv k s ->
  t_rm_rec (tree_of s n) (ns_path n dirp) (ns_name n nm) = Some (t', sh, i) ->   (* a name of inode i *)
  nstep k s (NRmLink n dirp nm) = (s', NOk) ->
  let len := len_of i (ninodes s) in
  let rc := fun j s => nrefcount j (niso s) (njol s) in
  rc i s' = rc i s - 1 /\
  (In i (nlaid_out s') <-> 0 < rc i s' /\ len <> 0) /\
  (In i (ids (ninodes s')) <-> 0 < rc i s') /\
  (0 < rc i s' -> len_of i (ninodes s') = len) /\
  ispace s' = ispace s - sh / 2048 - (if rc i s' =? 0 then blocks_of len else 0) /\
  (sh = 0 \/ sh = 2048) /\
  (forall j, j <> i -> rc j s' = rc j s /\ len_of j (ninodes s') = len_of j (ninodes s) /\
                       (In j (nlaid_out s') <-> In j (nlaid_out s))).
Proof.
  intros HI E Hstep len rc.
  assert (HI' : NInv (S k) s').
  { pose proof (nstep_rm_link_inv k s n dirp nm HI) as H. cbn [nstep] in Hstep. rewrite Hstep in H. exact H. }
  cbn [nstep] in Hstep. unfold nstep_rm_link in Hstep. rewrite E in Hstep.
  destruct (set_tree s n t') as [ti tj] eqn:Est.
  assert (Hrc : forall j, nrefcount j ti tj = rc j s - (if Nat.eqb i j then 1 else 0) /\ (sh = 0 \/ sh = 2048)).
  { intros j. unfold rc, nrefcount. destruct n; cbn [tree_of set_tree] in *; injection Est as <- <-.
    - destruct (rm_phase_of _ _ _ _ _ _ (ninv_itree k s HI) (ninv_iroot k s HI) E) as (_ & _ & A3 & _ & _ & A6).
      rewrite A6. split; [lia|exact A3].
    - destruct (rm_phase_of _ _ _ _ _ _ (ninv_jtree k s HI) (ninv_jroot k s HI) E) as (_ & _ & A3 & _ & _ & A6).
      rewrite A6. split; [lia|exact A3]. }
  destruct (ninv_tbl _ s' HI') as [HN' HR'].
  assert (Hs' : niso s' = ti /\ njol s' = tj /\
                ninodes s' = (if nrefcount i ti tj =? 0 then del_ino i (ninodes s) else ninodes s) /\
                ispace s' = ispace s - ceiling_div (sh + (if nrefcount i ti tj =? 0 then len else 0)) C).
  { destruct (nrefcount i ti tj =? 0); injection Hstep as <-; cbn [set_trees niso njol ninodes ispace]; auto. }
  destruct Hs' as (Ei & Ej & Et & Es). unfold rc at 1 3 4 5 6. rewrite Ei, Ej.
  destruct (Hrc i) as [Hi Hsh]. rewrite Nat.eqb_refl in Hi.
  assert (Hlen : 0 < nrefcount i ti tj -> len_of i (ninodes s') = len).
  { intros Hp. rewrite Et. destruct (Z.eqb_spec (nrefcount i ti tj) 0); [lia|reflexivity]. }
  assert (Hoth : forall j, j <> i -> len_of j (ninodes s') = len_of j (ninodes s)).
  { intros j Hne. rewrite Et. destruct (nrefcount i ti tj =? 0); [apply len_of_del; exact Hne|reflexivity]. }
  split; [exact Hi|]. split; [|split; [rewrite <- Ei, <- Ej; apply HR'|split; [exact Hlen|split; [|split; [exact Hsh|]]]]].
  - rewrite (nlaid_out_clean _ s' i HI'), Ei, Ej. split.
    + intros [Hp Hn]. split; [exact Hp|]. rewrite <- (Hlen Hp). exact Hn.
    + intros [Hp Hn]. split; [exact Hp|]. rewrite (Hlen Hp). exact Hn.
  - rewrite Es. pose proof (len_of_in (fun l => 0 <= l) (ninodes s)) as Hl0.
    destruct (nrefcount i ti tj =? 0); unfold blocks_of, ceiling_div, C; destruct Hsh as [-> | ->]; lia.
  - intros j Hne. destruct (Hrc j) as [Hj _]. destruct (Nat.eqb_spec i j); [congruence|].
    unfold rc in *. rewrite Ei, Ej. split; [lia|]. split; [apply Hoth, Hne|].
    rewrite (nlaid_out_clean _ s' j HI'), (nlaid_out_clean _ s j HI), Ei, Ej, (Hoth j Hne). rewrite Hj. replace (nrefcount j (niso s) (njol s) - 0) with (nrefcount j (niso s) (njol s)) by lia. tauto.
Qed.

(* ---- rm_file: every name of the content, in both namespaces, and only those ----------------------- *)

Theorem C07_rm_file_removes_the_names_in_both_namespaces k s n dirp nm dn dl kids k0 cn i st s' :
  NInv k s ->
  t_find (tree_of s n) (ns_path n dirp) (ns_name n nm) = Some (dn, dl, kids, k0, LFile cn i st) ->
  nstep k s (NRmFile n dirp nm) = (s', NOk) ->
  lrecords [] (niso s') = filter (notrec i) (lrecords [] (niso s)) /\
  lrecords [] (njol s') = filter (notrec i) (lrecords [] (njol s)) /\
  ldirs [] (niso s') = ldirs [] (niso s) /\ ldirs [] (njol s') = ldirs [] (njol s) /\
  nrefcount i (niso s') (njol s') = 0 /\ ~ In i (ids (ninodes s')) /\ ~ In i (nlaid_out s') /\
  ispace s' = ispace s - (ltotal lw_dblk (niso s) - ltotal lw_dblk (niso s'))
              - (ltotal lw_dblk (njol s) - ltotal lw_dblk (njol s')) - blocks_of (len_of i (ninodes s)) /\
  (forall j, j <> i -> nrefcount j (niso s') (njol s') = nrefcount j (niso s) (njol s) /\
                       len_of j (ninodes s') = len_of j (ninodes s) /\
                       (In j (nlaid_out s') <-> In j (nlaid_out s))).
Proof.
  intros HI Hf Hstep. cbn [nstep] in Hstep. unfold nstep_rm_file in Hstep. rewrite Hf in Hstep.
  pose proof (purge_state_ninv k s i HI) as HI'.
  injection Hstep as <-. cbn [set_trees niso njol ninodes ispace].
  destruct (ninv_iroot k s HI) as [_ Hdi]. destruct (ninv_jroot k s HI) as [_ Hdj].
  destruct (ninv_tbl k s HI) as [HN HR]. destruct (ids_del i (ninodes s) HN) as (D1 & D2 & D3).
  assert (E0 : nrefcount i (purge_node i (niso s)) (purge_node i (njol s)) = 0).
  { unfold nrefcount. rewrite (purge_refcount_self i _ Hdi), (purge_refcount_self i _ Hdj). reflexivity. }
  split; [apply purge_records, Hdi|]. split; [apply purge_records, Hdj|].
  split; [apply purge_dirs|]. split; [apply purge_dirs|]. split; [exact E0|]. split; [exact D2|].
  split; [|split].
  - rewrite (nlaid_out_clean _ _ i HI'). cbn [set_trees niso njol]. lia.
  - pose proof (purge_dblk i (niso s)) as E1. pose proof (purge_dblk i (njol s)) as E2.
    unfold blocks_of, ceiling_div, C in *. lia.
  - intros j Hne. assert (Hrj : nrefcount j (purge_node i (niso s)) (purge_node i (njol s)) =
                                 nrefcount j (niso s) (njol s)).
    { unfold nrefcount. rewrite !(purge_refcount_other i j _ Hne). reflexivity. }
    pose proof (len_of_del j i (ninodes s) Hne) as Hlj.
    split; [exact Hrj|]. split; [exact Hlj|].
    rewrite (nlaid_out_clean _ _ j HI'), (nlaid_out_clean _ _ j HI). cbn [set_trees niso njol ninodes].
    rewrite Hrj, Hlj. tauto.
Qed.

(* ---- non-vacuity ----------------------------------------------------------------------------------- *)

(* the fresh image, as PyCdlib.new(interchange_level=3, joliet=3) reports it *)
Example ninit_values :
  nprobe ninit = [30; 30; 10; 2; 10; 2; 2048; 2048; 0] /\ nlayout_end ninit = 30 /\
  nobjects ninit = [16; 1; 1; 1; 1; 2; 2; 2; 2; 1; 1].
Proof. vm_compute. repeat split; reflexivity. Qed.

Print Assumptions nstep_preserves_inv.
Print Assumptions nrun_inv.
Print Assumptions C01_space_exact_two_namespaces.
Print Assumptions C01_space_exact_two_namespaces_refuted.
Print Assumptions C07_inode_table_two_namespaces.
Print Assumptions C07_stored_once_two_namespaces.
Print Assumptions C01_objects_disjoint_two_namespaces.
Print Assumptions C07_content_released_at_last_name_either_namespace.
Print Assumptions C07_rm_file_removes_the_names_in_both_namespaces.
Print Assumptions nrefused_unchanged.
Print Assumptions nlate_changes_state.
