(* ParseRR, part 6: all records of one directory.
     prr_tinv            the table invariant: every tracked entry is the key of a record at a position already walked
     prr_no_overlap      ... hence the area of a record not walked yet overlaps none of them (MasterRR: areas disjoint)
     prr_kids_fold       the record loop over children[2:] = ParseRRSpec.prr_spec_kids
     prr_dir_scan        read + `while offset < length` over a whole directory extent = prr_spec_dir *)
From Coq Require Import ZArith List Bool Lia ZifyBool.
From PV.Base Require Import Prim.
From PV.Gen Require Import GenConst GenFun.
From PV.Model Require Import Codec Pack PathTable CeAlloc RREntries RRWalk RRPlace.
From PV.Model Require Master Account LongNames.
From PV.Model Require Import ParseCore AccountRR MasterRR ParseRR ParseRRSpec.
From PV.Proofs Require Import CodecProofs PackProofs PathTableLemmas PathTableProofs MasterPack MasterImage MasterBfs.
From PV.Proofs Require Import RREntriesProofs RRWalkProofs RRPlaceSLProofs RRPlaceProofs RRPlaceProofs2.
From PV.Proofs Require Import MasterRRWalk MasterRRRec MasterRRBlock MasterRRTree MasterRRLayout MasterRRDir
                              MasterRRImage MasterRRRead MasterRRProofs.
From PV.Proofs Require Import ParseScan ParseTrack ParseDir.
From PV.Proofs Require Import ParseRRRec ParseRRRec2 ParseRRStep ParseRRTable ParseRRDir.
Import ListNotations.
Local Open Scope Z_scope.

(* bytes_to_skip of the records after '.': from children[0] of the root, from the directory's own record elsewhere *)
Definition prr_skip_ok (d : qdir) (cur : list qrec) : Prop :=
  (qd_root d = true -> exists c0 rest x0, cur = c0 :: rest /\ q_rr c0 = Some x0 /\ rd_skip x0 = 0) /\
  (qd_root d = false -> qd_rr d = Some 0).

Lemma prr_skip_ok_for d cur r : prr_skip_ok d cur -> ps_is_dot r = false -> prr_skip_for d cur r = POk (false, 0).
Proof.
  intros [H1 H2] Hd. unfold prr_skip_for. destruct (qd_root d).
  - rewrite Hd. destruct (H1 eq_refl) as (c0 & rest & x0 & -> & E & Z0). rewrite E, Z0. reflexivity.
  - rewrite (H2 eq_refl). reflexivity.
Qed.
Lemma prr_skip_ok_app d cur more : prr_skip_ok d cur -> prr_skip_ok d (cur ++ more).
Proof.
  intros [H1 H2]. split; [|exact H2]. intros Hr. destruct (H1 Hr) as (c0 & rest & x0 & -> & E & Z0).
  exists c0, (rest ++ more), x0. auto.
Qed.

Section Dir2.
  Variable dt : list Z.
  Variable s : rstate.
  Hypothesis Hdt : length dt = 7%nat.
  Hypothesis Hwf : mrr_wf dt s = true.
  Hypothesis Hsorted : prr_tree_ok s = true.
  Variable img' : Master.image.
  Hypothesis Hok : ms_img_ok img'.
  Hypothesis Hincl : incl (mrr_img dt s) img'.

  Local Notation t := (r_root s).
  Local Notation v := (r_ver s).
  Local Notation L := (mrr_layout s).
  Local Notation DB := (l_DB L).

  (* ---- the table invariant ---------------------------------------------------------------------------------- *)
  Definition prr_tinv (tb : list (Z * block)) (done : list (list nat)) : Prop :=
    forall e o l, tbl_has tb e o l ->
      exists q c i, In q done /\ mrr_node_at t q = Some c /\ m_ce (meta_of c) = Some (i, o, l) /\ mrr_ce_ext t L i = e.

  Lemma prr_tinv_mono tb done done' : prr_tinv tb done -> incl done done' -> prr_tinv tb done'.
  Proof. intros H Hi e o l Hh. destruct (H e o l Hh) as (q & c & i & A & B). exists q, c, i. split; [apply Hi; exact A|exact B]. Qed.

  Lemma prr_tinv_step tb done q c i off len : prr_tinv tb done -> mrr_node_at t q = Some c ->
    m_ce (meta_of c) = Some (i, off, len) ->
    prr_tinv (snd (prr_track_u tb (mrr_ce_ext t L i) off len)) (done ++ [q]).
  Proof.
    intros H Hc Hk e o l Hh. apply prr_track_u_has in Hh. destruct Hh as [Hh|(-> & -> & ->)].
    - destruct (H e o l Hh) as (q' & c' & i' & A & B). exists q', c', i'. split; [apply in_or_app; left; exact A|exact B].
    - exists q, c, i. split; [apply in_or_app; right; left; reflexivity|]. auto.
  Qed.

  Lemma prr_no_overlap tb done q c i off len : prr_tinv tb done -> ~ In q done -> mrr_node_at t q = Some c ->
    m_ce (meta_of c) = Some (i, off, len) ->
    forall o l, tbl_has tb (mrr_ce_ext t L i) o l -> overlaps off len (o, l) = false.
  Proof.
    intros H Hn Hc Hk o l Hh. destruct (H _ o l Hh) as (q' & c' & i' & A & B & D & E).
    assert (Hne : q <> q') by (intros ->; exact (Hn A)).
    destruct (master_rr_areas_disjoint dt s Hdt Hwf q q' c c' i off len i' o l Hne Hc B Hk D) as [[X|X] _];
      [congruence|]. unfold overlaps. cbn [fst snd]. lia.
  Qed.

  (* ---- names ---------------------------------------------------------------------------------------------------- *)
  Lemma prr_sorted_at : forall p n c, prr_sorted_node n = true -> mrr_node_at n p = Some c -> prr_sorted_node c = true.
  Proof.
    induction p as [|i p IH]; intros n c Hs H; cbn [mrr_node_at] in H; [congruence|].
    destruct (nth_error (rkids n) i) as [k|] eqn:E; [|discriminate]. apply (IH k c); [|exact H].
    destruct n as [m len|m dl kids]; cbn [rkids] in E; [destruct i; discriminate|].
    cbn [prr_sorted_node] in Hs. apply andb_prop in Hs. destruct Hs as [_ Hs].
    exact (proj1 (forallb_forall _ _) Hs k (nth_error_In _ _ E)).
  Qed.

  Lemma prr_dir_names p m dl kids : mrr_node_at t p = Some (RDir m dl kids) ->
    Master.ms_sorted (map rname kids) = true /\ (forall c, In c kids -> ps_plain (rname c)).
  Proof.
    intros Hp. pose proof (prr_sorted_at p t _ Hsorted Hp) as Hs. cbn [prr_sorted_node] in Hs.
    apply andb_prop in Hs. destruct Hs as [Hs _]. apply andb_prop in Hs. destruct Hs as [H1 H2].
    split; [exact H1|]. intros c Hc. pose proof (proj1 (forallb_forall _ _) H2 c Hc) as Hpl. unfold prr_plain in Hpl.
    apply andb_prop in Hpl. destruct Hpl as [A B]. split; intros E; rewrite E in *; discriminate.
  Qed.

  (* ---- one child ------------------------------------------------------------------------------------------------ *)
  Lemma prr_kid_flags p j c : rname c <> [0] -> rname c <> [1] ->
    let R := prr_pad (mrr_drec v dt (mrr_kid_spec t L (p ++ [j]) c)) in
    ps_is_dir R = r_is_dir c /\ prr_is_dots R = false /\ ps_is_dot R = false /\ Codec.ident R = rname c.
  Proof.
    intros H0 H1. cbv zeta.
    assert (E : Codec.ident (prr_pad (mrr_drec v dt (mrr_kid_spec t L (p ++ [j]) c))) = rname c) by (destruct c; reflexivity).
    unfold prr_is_dots, ps_is_dot, ps_is_dotdot. rewrite E, (ps_zlist_eqb_false _ _ H0), (ps_zlist_eqb_false _ _ H1).
    split; [destruct c; reflexivity|]. auto.
  Qed.

  Lemma prr_kid_step p m dl kids j c st d done last :
    mrr_node_at t p = Some (RDir m dl kids) -> nth_error kids j = Some c ->
    prr_skip_ok d (w_cur st) ->
    (forall a, In a (w_cur st) -> ps_lt (Codec.ident (q_rec a)) (rname c) = true) ->
    prr_tinv (w_blocks st) done -> ~ In (p ++ [j]) done -> w_ver st = prr_ver_of v ->
    exists st1 last1,
      prr_record img' d (st, last) (Master.ms_enc (mrr_drec v dt (mrr_kid_spec t L (p ++ [j]) c))) = POk (st1, last1) /\
      (forall r, prr_spec_kids v dt t L p j (c :: r) st = prr_spec_kids v dt t L p (S j) r st1) /\
      (forall a, In a (w_cur st1) -> In a (w_cur st) \/ Codec.ident (q_rec a) = rname c) /\
      prr_skip_ok d (w_cur st1) /\ prr_tinv (w_blocks st1) (done ++ [p ++ [j]]) /\ w_ver st1 = prr_ver_of v.
  Proof.
    intros Hp Hj Hskip Hlt Htb Hnew Hver. set (x := mrr_kid_spec t L (p ++ [j]) c).
    destruct (prr_dir_names p m dl kids Hp) as [_ Hpl]. destruct (Hpl c (nth_error_In _ _ Hj)) as [N0 N1].
    destruct (prr_kid_flags p j c N0 N1) as (F1 & F2 & F3 & F4). cbv zeta in F1, F2, F3, F4. fold x in F1, F2, F3, F4.
    destruct (mrr_kid_place dt s Hdt Hwf p m dl kids j c Hp Hj) as (Hc & _ & r & Hplace & _ & Hce). fold x in Hplace.
    assert (Hnm : rs_nm x = rname c) by (unfold x; destruct c; reflexivity).
    assert (Hfirst : rs_first x = false) by (unfold x; destruct c; reflexivity).
    pose proof (mrr_kid_good dt s Hdt Hwf p m dl kids j c Hp Hj) as G. fold x in G.
    pose proof (prr_blk_kid dt s Hdt Hwf img' Hok Hincl p m dl kids j c Hp Hj) as Hblk. fold x in Hblk.
    assert (Hsp : forall r0, place (mrr_pin v dt x) = Some r0 -> sp_record (pl_ce r0) = None).
    { intros r0 Hr0. destruct (prr_complete v dt x r0 Hr0) as (_ & _ & P3 & _). rewrite Hfirst in P3. exact (proj2 P3). }
    (* what is tracked *)
    assert (T : exists blk b1,
              (forall r0, place (mrr_pin v dt x) = Some r0 ->
                 (is_some (ce_record (pl_dr r0)) = false -> blk = None /\ b1 = w_blocks st) /\
                 (is_some (ce_record (pl_dr r0)) = true ->
                    if qd_root d && ps_is_dot (prr_pad (mrr_drec v dt x)) then blk = None /\ b1 = w_blocks st
                    else exists k, prr_track_ce (w_blocks st) (rs_bl x) (rs_off x) (pl_celen r0) = Some (k, b1) /\ blk = Some k)) /\
              (blk, b1) = match m_ce (meta_of c) with
                          | Some (i, off, len) =>
                              let '(k, b) := prr_track_u (w_blocks st) (mrr_ce_ext t L i) off len in (Some k, b)
                          | None => (None, w_blocks st)
                          end /\
              prr_tinv b1 (done ++ [p ++ [j]])).
    { destruct (m_ce (meta_of c)) as [[[i off] len]|] eqn:Ek.
      - destruct Hce as (Hs & -> & H0 & H1).
        assert (Ebl : rs_bl x = mrr_ce_ext t L i /\ rs_off x = off).
        { unfold x. destruct c; cbn [mrr_kid_spec rs_bl rs_off meta_of] in *; unfold mrr_ce_of; rewrite Ek; split; reflexivity. }
        destruct Ebl as [E1 E2].
        pose proof (prr_track_ce_u (w_blocks st) (mrr_ce_ext t L i) off (pl_celen r)
                      (prr_no_overlap _ done _ c i off _ Htb Hnew Hc Ek) H1) as Htr.
        destruct (prr_track_u (w_blocks st) (mrr_ce_ext t L i) off (pl_celen r)) as [k b] eqn:Eu.
        exists (Some k), b. split; [|split; [reflexivity|]].
        + intros r0 Hr0. rewrite Hplace in Hr0. injection Hr0 as <-. split; [rewrite Hs; discriminate|]. intros _.
          rewrite F3, andb_false_r, E1, E2. exists k. split; [exact Htr|reflexivity].
        + pose proof (prr_tinv_step _ done _ c i off _ Htb Hc Ek) as Hst. rewrite Eu in Hst. exact Hst.
      - exists None, (w_blocks st). split; [|split; [reflexivity|]].
        + intros r0 Hr0. rewrite Hplace in Hr0. injection Hr0 as <-. split; [auto|rewrite Hce; discriminate].
        + apply (prr_tinv_mono _ done); [exact Htb|apply incl_appl, incl_refl]. }
    destruct T as (blk & b1 & Htrk & Eblk & Htb1).
    eexists. eexists. split.
    - apply (prr_record_good dt s Hdt Hwf img' x _ d st last blk b1 G Hblk Hsp).
      + rewrite Hfirst. apply prr_skip_ok_for; [exact Hskip|exact F3].
      + exact Htrk.
      + right. exact Hver.
      + intros a Ha. rewrite Hnm. exact (Hlt a Ha).
    - split.
      + intros rest. cbn [prr_spec_kids]. fold x. rewrite <- Eblk. unfold prr_after. rewrite F1, F2, Hver.
        cbn [negb]. rewrite andb_true_r. reflexivity.
      + unfold prr_after. cbn [w_cur w_blocks w_ver]. split.
        * intros a Ha. apply in_app_or in Ha. destruct Ha as [Ha|[<-|[]]]; [left; exact Ha|right].
          unfold prr_spec_rec. cbn [q_rec]. exact F4.
        * split; [apply prr_skip_ok_app; exact Hskip|]. split; [exact Htb1|reflexivity].
  Qed.
End Dir2.
