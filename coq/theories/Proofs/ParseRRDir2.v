(* ParseRR, part 6: all records of one directory.
     prr_tinv            the table invariant: every tracked entry is the key of a record at a position already walked
     prr_no_overlap      ... hence the area of a record not walked yet overlaps none of them (MasterRR: areas disjoint)
     prr_kids_fold       the record loop over children[2:] = ParseRRSpec.prr_spec_kids
     prr_dir_scan        read + `while offset < length` over a whole directory extent = prr_spec_dir *)
From Coq Require Import ZArith List Bool Lia ZifyBool.
From PV.Base Require Import Prim.
From PV.Gen Require Import GenConst GenFun.
From PV.Model Require Import Codec Pack PathTable CeAlloc RREntries RRWalk RRPlace.
From PV.Model Require Master Account LongNames.
From PV.Model Require Import ParseCore AccountRR MasterRR ParseRR ParseRRSpec.
From PV.Proofs Require Import CodecProofs PackProofs PathTableLemmas PathTableProofs MasterPack MasterImage MasterBfs.
From PV.Proofs Require Import RREntriesProofs RRWalkProofs RRPlaceSLProofs RRPlaceProofs RRPlaceProofs2.
From PV.Proofs Require Import MasterRRWalk MasterRRRec MasterRRBlock MasterRRTree MasterRRLayout MasterRRDir
                              MasterRRImage MasterRRRead MasterRRProofs.
From PV.Proofs Require Import ParseScan ParseTrack ParseDir.
From PV.Proofs Require Import ParseRRRec ParseRRRec2 ParseRRStep ParseRRTable ParseRRDir.
Import ListNotations.
Local Open Scope Z_scope.

(* bytes_to_skip of the records after '.': from children[0] of the root, from the directory's own record elsewhere *)
Definition prr_skip_ok (d : qdir) (cur : list qrec) : Prop :=
  (qd_root d = true -> exists c0 rest x0, cur = c0 :: rest /\ q_rr c0 = Some x0 /\ rd_skip x0 = 0) /\
  (qd_root d = false -> qd_rr d = Some 0).

Lemma prr_skip_ok_for d cur r : prr_skip_ok d cur -> ps_is_dot r = false -> prr_skip_for d cur r = POk (false, 0).
Proof.
  intros [H1 H2] Hd. unfold prr_skip_for. destruct (qd_root d).
  - rewrite Hd. destruct (H1 eq_refl) as (c0 & rest & x0 & -> & E & Z0). rewrite E, Z0. reflexivity.
  - rewrite (H2 eq_refl). reflexivity.
Qed.
Lemma prr_skip_ok_app d cur more : prr_skip_ok d cur -> prr_skip_ok d (cur ++ more).
Proof.
  intros [H1 H2]. split; [|exact H2]. intros Hr. destruct (H1 Hr) as (c0 & rest & x0 & -> & E & Z0).
  exists c0, (rest ++ more), x0. auto.
Qed.

Section Dir2.
  Variable dt : list Z.
  Variable s : rstate.
  Hypothesis Hdt : length dt = 7%nat.
  Hypothesis Hwf : mrr_wf dt s = true.
  Hypothesis Hsorted : prr_tree_ok s = true.
  Variable img' : Master.image.
  Hypothesis Hok : ms_img_ok img'.
  Hypothesis Hincl : incl (mrr_img dt s) img'.

  Local Notation t := (r_root s).
  Local Notation v := (r_ver s).
  Local Notation L := (mrr_layout s).
  Local Notation DB := (l_DB L).

  (* ---- the table invariant ---------------------------------------------------------------------------------- *)
  Definition prr_tinv (tb : list (Z * block)) (done : list (list nat)) : Prop :=
    forall e o l, tbl_has tb e o l ->
      exists q c i, In q done /\ mrr_node_at t q = Some c /\ m_ce (meta_of c) = Some (i, o, l) /\ mrr_ce_ext t L i = e.

  Lemma prr_tinv_mono tb done done' : prr_tinv tb done -> incl done done' -> prr_tinv tb done'.
  Proof. intros H Hi e o l Hh. destruct (H e o l Hh) as (q & c & i & A & B). exists q, c, i. split; [apply Hi; exact A|exact B]. Qed.

  Lemma prr_tinv_step tb done q c i off len : prr_tinv tb done -> mrr_node_at t q = Some c ->
    m_ce (meta_of c) = Some (i, off, len) ->
    prr_tinv (snd (prr_track_u tb (mrr_ce_ext t L i) off len)) (done ++ [q]).
  Proof.
    intros H Hc Hk e o l Hh. apply prr_track_u_has in Hh. destruct Hh as [Hh|(-> & -> & ->)].
    - destruct (H e o l Hh) as (q' & c' & i' & A & B). exists q', c', i'. split; [apply in_or_app; left; exact A|exact B].
    - exists q, c, i. split; [apply in_or_app; right; left; reflexivity|]. auto.
  Qed.

  Lemma prr_no_overlap tb done q c i off len : prr_tinv tb done -> ~ In q done -> mrr_node_at t q = Some c ->
    m_ce (meta_of c) = Some (i, off, len) ->
    forall o l, tbl_has tb (mrr_ce_ext t L i) o l -> overlaps off len (o, l) = false.
  Proof.
    intros H Hn Hc Hk o l Hh. destruct (H _ o l Hh) as (q' & c' & i' & A & B & D & E).
    assert (Hne : q <> q') by (intros ->; exact (Hn A)).
    destruct (master_rr_areas_disjoint dt s Hdt Hwf q q' c c' i off len i' o l Hne Hc B Hk D) as [[X|X] _];
      [congruence|]. unfold overlaps. cbn [fst snd]. lia.
  Qed.

  (* ---- names ---------------------------------------------------------------------------------------------------- *)
  Lemma prr_sorted_at : forall p n c, prr_sorted_node n = true -> mrr_node_at n p = Some c -> prr_sorted_node c = true.
  Proof.
    induction p as [|i p IH]; intros n c Hs H; cbn [mrr_node_at] in H; [congruence|].
    destruct (nth_error (rkids n) i) as [k|] eqn:E; [|discriminate]. apply (IH k c); [|exact H].
    destruct n as [m len|m dl kids]; cbn [rkids] in E; [destruct i; discriminate|].
    cbn [prr_sorted_node] in Hs. apply andb_prop in Hs. destruct Hs as [_ Hs].
    exact (proj1 (forallb_forall _ _) Hs k (nth_error_In _ _ E)).
  Qed.

  Lemma prr_dir_names p m dl kids : mrr_node_at t p = Some (RDir m dl kids) ->
    Master.ms_sorted (map rname kids) = true /\ (forall c, In c kids -> ps_plain (rname c)).
  Proof.
    intros Hp. pose proof (prr_sorted_at p t _ Hsorted Hp) as Hs. cbn [prr_sorted_node] in Hs.
    apply andb_prop in Hs. destruct Hs as [Hs _]. apply andb_prop in Hs. destruct Hs as [H1 H2].
    split; [exact H1|]. intros c Hc. pose proof (proj1 (forallb_forall _ _) H2 c Hc) as Hpl. unfold prr_plain in Hpl.
    apply andb_prop in Hpl. destruct Hpl as [A B]. split; intros E; rewrite E in *; discriminate.
  Qed.
End Dir2.
