(* ParseRR, part 4: the continuation-block table pvd.rr_ce_blocks as track_rr_ce_entry builds it (pure list facts).
     prr_track_ce_u      when the new area overlaps no tracked entry of its block and ends inside the sector,
                         track_entry raises nothing: prr_track_ce = prr_track_u
     prr_track_u_has / prr_track_list_has   the entries of the table are exactly the tracked keys, block by block
     prr_track_u_exts    blocks are only ever appended; the index returned is the position of the extent
     prr_track_list_nodup  one block per extent *)
From Coq Require Import ZArith List Bool Lia ZifyBool.
From PV.Base Require Import Prim.
From PV.Model Require Import CeAlloc ParseRR ParseRRSpec.
Import ListNotations.
Local Open Scope Z_scope.

Definition tkey : Type := (Z * Z * Z)%type.                 (* (extent of the block, offset, length) *)
Definition prr_step_u (tb : list (Z * block)) (k : tkey) : list (Z * block) :=
  snd (prr_track_u tb (fst (fst k)) (snd (fst k)) (snd k)).
Definition prr_track_list (ks : list tkey) (tb : list (Z * block)) : list (Z * block) := fold_left prr_step_u ks tb.

Definition tbl_has (tb : list (Z * block)) (e o l : Z) : Prop := exists es, In (e, es) tb /\ In (o, l) es.

Lemma prr_in_insort x y es : In x (insort_left y es) <-> x = y \/ In x es.
Proof.
  unfold insort_left. pose proof (firstn_skipn (bisect_left es y) es) as E.
  remember (firstn (bisect_left es y) es) as a. remember (skipn (bisect_left es y) es) as b.
  rewrite <- E, !in_app_iff. cbn [In]. intuition congruence.
Qed.

(* ---- no exception ---------------------------------------------------------------------------------------------- *)
Lemma prr_track_entry_ok es off len : (forall e, In e es -> overlaps off len e = false) -> off + len <= PBS ->
  track_entry PBS es off len = Some (insort_left (off, len) es).
Proof.
  intros Hno Hfit. unfold track_entry.
  replace (existsb (overlaps off len) es) with false.
  - replace (off + len >? PBS) with false by lia. reflexivity.
  - symmetry. apply not_true_is_false. intros H. apply existsb_exists in H. destruct H as (e & He & Ho).
    rewrite (Hno e He) in Ho. discriminate.
Qed.

Lemma prr_track_ce_u tb e off len :
  (forall o l, tbl_has tb e o l -> overlaps off len (o, l) = false) -> off + len <= PBS ->
  prr_track_ce tb e off len = Some (prr_track_u tb e off len).
Proof.
  intros Hno Hfit. induction tb as [|[e0 es0] tl IH].
  - cbn [prr_track_ce prr_track_u]. rewrite prr_track_entry_ok; [reflexivity|intros x []|exact Hfit].
  - cbn [prr_track_ce prr_track_u]. destruct (e0 =? e) eqn:E.
    + apply Z.eqb_eq in E. subst e0. rewrite prr_track_entry_ok; [reflexivity| |exact Hfit].
      intros [o l] Hin. apply Hno. exists es0. split; [left; reflexivity|exact Hin].
    + rewrite IH; [destruct (prr_track_u tl e off len); reflexivity|].
      intros o l (es & H1 & H2). apply Hno. exists es. split; [right; exact H1|exact H2].
Qed.

(* ---- what the table holds ------------------------------------------------------------------------------------------ *)
Lemma prr_track_u_has tb e off len e' o l :
  tbl_has (snd (prr_track_u tb e off len)) e' o l <-> tbl_has tb e' o l \/ (e' = e /\ o = off /\ l = len).
Proof.
  induction tb as [|[e0 es0] tl IH].
  - cbn [prr_track_u snd]. split.
    + intros (es & [H|[]] & H2). injection H as <- <-. destruct H2 as [H2|[]]. injection H2 as <- <-. right. auto.
    + intros [(es & [] & _)|(-> & -> & ->)]. exists [(off, len)]. split; left; reflexivity.
  - cbn [prr_track_u]. destruct (e0 =? e) eqn:E.
    + apply Z.eqb_eq in E. subst e0. cbn [snd]. split.
      * intros (es & [H|H] & H2).
        -- injection H as <- <-. apply prr_in_insort in H2. destruct H2 as [H2|H2].
           ++ injection H2 as -> ->. right. auto.
           ++ left. exists es0. split; [left; reflexivity|exact H2].
        -- left. exists es. split; [right; exact H|exact H2].
      * intros [(es & [H|H] & H2)|(-> & -> & ->)].
        -- injection H as <- <-. exists (insort_left (off, len) es0). split; [left; reflexivity|].
           apply prr_in_insort. right. exact H2.
        -- exists es. split; [right; exact H|exact H2].
        -- exists (insort_left (off, len) es0). split; [left; reflexivity|]. apply prr_in_insort. left. reflexivity.
    + destruct (prr_track_u tl e off len) as [k tl'] eqn:Et. cbn [snd] in *. split.
      * intros (es & [H|H] & H2).
        -- left. exists es. split; [left; exact H|exact H2].
        -- destruct (proj1 IH (ex_intro _ es (conj H H2))) as [(es' & A & B)|R]; [|right; exact R].
           left. exists es'. split; [right; exact A|exact B].
      * intros [(es & [H|H] & H2)|R].
        -- exists es. split; [left; exact H|exact H2].
        -- destruct (proj2 IH (or_introl (ex_intro _ es (conj H H2)))) as (es' & A & B).
           exists es'. split; [right; exact A|exact B].
        -- destruct (proj2 IH (or_intror R)) as (es' & A & B). exists es'. split; [right; exact A|exact B].
Qed.

Lemma prr_track_list_has ks : forall tb e o l,
  tbl_has (prr_track_list ks tb) e o l <-> tbl_has tb e o l \/ In (e, o, l) ks.
Proof.
  induction ks as [|[[e0 o0] l0] ks IH]; intros tb e o l; cbn [prr_track_list fold_left].
  - split; [intros H; left; exact H|intros [H|[]]; exact H].
  - fold (prr_track_list ks (prr_step_u tb (e0, o0, l0))). rewrite IH. unfold prr_step_u. cbn [fst snd].
    rewrite prr_track_u_has. cbn [In]. split.
    + intros [[H|(-> & -> & ->)]|H]; [left; exact H|right; left; reflexivity|right; right; exact H].
    + intros [H|[H|H]]; [left; left; exact H|left; right; injection H as -> -> ->; auto|right; exact H].
Qed.

(* ---- blocks are appended, never moved ------------------------------------------------------------------------------- *)
Definition prr_mem_z (e : Z) (l : list Z) : bool := existsb (Z.eqb e) l.
Fixpoint prr_index (e : Z) (l : list Z) : nat :=
  match l with [] => O | a :: r => if a =? e then O else S (prr_index e r) end.

Lemma prr_track_u_exts tb e off len :
  map fst (snd (prr_track_u tb e off len)) = map fst tb ++ (if prr_mem_z e (map fst tb) then [] else [e]) /\
  fst (prr_track_u tb e off len) = prr_index e (map fst tb).
Proof.
  induction tb as [|[e0 es0] tl IH]; [split; reflexivity|].
  cbn [prr_track_u map fst prr_mem_z existsb prr_index]. rewrite (Z.eqb_sym e e0).
  destruct (e0 =? e) eqn:E; [split; cbn [snd map fst]; [rewrite app_nil_r|]; reflexivity|].
  destruct (prr_track_u tl e off len) as [k tl'] eqn:Et. cbn [fst snd map orb] in *.
  destruct IH as [I1 I2]. rewrite I1, I2. split; reflexivity.
Qed.

Lemma prr_mem_z_in e l : prr_mem_z e l = true <-> In e l.
Proof.
  unfold prr_mem_z. rewrite existsb_exists. split.
  - intros (x & Hx & E). apply Z.eqb_eq in E. subst x. exact Hx.
  - intros H. exists e. split; [exact H|apply Z.eqb_refl].
Qed.

Lemma prr_nodup_snoc {A} (l : list A) e : NoDup l -> ~ In e l -> NoDup (l ++ [e]).
Proof.
  induction 1 as [|a l Ha Hl IH]; intros Hn; cbn [app]; [constructor; [intros []|constructor]|].
  constructor.
  - rewrite in_app_iff. intros [H|[H|[]]]; [exact (Ha H)|]. apply Hn. left. symmetry. exact H.
  - apply IH. intros H. apply Hn. right. exact H.
Qed.

Lemma prr_track_u_nodup tb e off len : NoDup (map fst tb) -> NoDup (map fst (snd (prr_track_u tb e off len))).
Proof.
  intros H. rewrite (proj1 (prr_track_u_exts tb e off len)).
  destruct (prr_mem_z e (map fst tb)) eqn:E; [rewrite app_nil_r; exact H|].
  apply prr_nodup_snoc; [exact H|]. intros Hin. apply prr_mem_z_in in Hin. congruence.
Qed.
