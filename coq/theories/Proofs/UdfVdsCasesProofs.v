(* Proofs about Model/UdfVds.v, part 4: the recorded size_tables[0] equals the recorded partition
   length (sizes_recorded_equal), and non-vacuity: the twelve volume-level structures of an image made
   by pycdlib (PYTHONPATH=/repo; time.time = 1700000000, random.getrandbits = 12345;
   iso.new(udf='2.60'); add_directory('/DIR1', udf_path='/dir1'); add_fp(b'hello', '/FOO.;1',
   udf_path='/foo'); force_consistency(); X.record()) are decoded by the model, re-recorded to the same
   bytes, accepted by verify_tag, and satisfy the X_wf hypotheses of the theorems.
   All closed under the global context. *)
From Coq Require Import ZArith List Bool Lia ZifyBool.
From PV.Base Require Import Prim ListX.
From PV.Gen Require Import GenConst GenFun.
From PV.Model Require Import Codec Checksums Udf UdfVds UdfVdsBook.
From PV.Proofs Require Import CodecProofs UdfProofs UdfVdsProofs UdfVdsDescProofs UdfVdsLvProofs.
Import ListNotations.
Local Open Scope Z_scope.

(* ---- partition length and size table, as recorded ---- *)
Definition lvid_with_sizes (d : lvid) (sizes : list Z) : lvid :=
  mk_lvid (li_date d) (li_type d) (li_next d) (li_unique_id d) (li_num_partitions d) (li_length_impl_use d)
          (li_free d) sizes (li_impl d).
(* start from a partition descriptor and an integrity descriptor that agree (as new() makes them, or as
   parsed), apply any sequence of _finish_add / _finish_remove, record both, read both back *)
Theorem sizes_recorded_equal tp p td d evs s' rp rd e1 e2 : part_wf p -> lvid_wf d ->
  hd_error (li_size d) = Some (pt_length p) ->
  sizes_run (mk_udf_sizes (pt_length p) (pt_length p) (li_size d)) evs = Some s' ->
  part_record (tp, part_with p (pt_start p) (uz_main_len s')) = Some rp -> tag_wf 5 tp ->
  lvid_record (td, lvid_with_sizes d (uz_size_tables s')) = Some rd -> tag_wf 9 td ->
  exists tp' p' td' d', part_parse rp e1 = Some (tp', p') /\ lvid_parse rd e2 = Some (td', d') /\
    hd_error (li_size d') = Some (pt_length p') /\ uz_reserve_len s' = pt_length p'.
Proof.
  intros Hp Hd Hhd Hrun Hrp Htp Hrd Htd.
  destruct (sizes_sync evs _ s' Hrun) as [[S1 S2] S3]; [split; [exact Hhd|reflexivity]|].
  cbn [uz_size_tables] in S3.
  destruct (part_sound tp _ rp (part_with_wf p _ _ Hp) Hrp Htp) as (_ & _ & P).
  assert (Hd' : lvid_wf (lvid_with_sizes d (uz_size_tables s'))).
  { destruct Hd as (T & Hty & X & F & S & R). unfold lvid_wf, lvid_with_sizes.
    cbn [li_date li_type li_next li_num_partitions li_free li_size li_length_impl_use li_impl].
    repeat (split; [assumption|]). split; [|exact R].
    destruct (uz_size_tables s') as [|a r], (li_size d) as [|b r0]; cbn in *; try discriminate. subst r. exact S. }
  destruct (lvid_sound td _ rd Hd' Hrd Htd) as (_ & _ & L).
  specialize (P [] e1). specialize (L [] e2). rewrite app_nil_r in P, L.
  do 4 eexists. split; [exact P|]. split; [exact L|]. split; [exact S1|exact S2].
Qed.

(* ---- real descriptors ---- *)
Definition ex_anchor : list Z :=
  [2; 0; 2; 0; 206; 0; 0; 0; 1; 215; 240; 1; 0; 1; 0; 0; 0; 128; 0; 0; 32; 0; 0; 0; 0; 128; 0; 0; 48]
  ++ zeros 483.
Definition ex_pvd : list Z :=
  [1; 0; 2; 0; 94; 0; 0; 0; 8; 66; 240; 1; 32; 0; 0; 0; 0; 0; 0; 0; 0; 0; 0; 0; 8; 67; 68; 82; 79; 77; 0; 0; 0; 0;
   0; 0; 0; 0; 0; 0; 0; 0; 0; 0; 0; 0; 0; 0; 0; 0; 0; 0; 0; 0; 0; 6; 1; 0; 1; 0; 2; 0; 2; 0; 1; 0; 0; 0; 1; 0; 0;
   0; 8; 54; 53; 53; 51; 102; 49; 48; 48; 48; 48; 48; 48; 51; 48; 51; 57; 0; 0; 0; 0; 0; 0; 0; 0; 0; 0; 0; 0; 0; 0;
   0; 0; 0; 0; 0; 0; 0; 0; 0; 0; 0; 0; 0; 0; 0; 0; 0; 0; 0; 0; 0; 0; 0; 0; 0; 0; 0; 0; 0; 0; 0; 0; 0; 0; 0; 0; 0;
   0; 0; 0; 0; 0; 0; 0; 0; 0; 0; 0; 0; 0; 0; 0; 0; 0; 0; 0; 0; 0; 0; 0; 0; 0; 0; 0; 0; 0; 0; 0; 0; 0; 0; 0; 0; 0;
   0; 0; 0; 0; 0; 0; 0; 0; 0; 0; 0; 0; 0; 0; 0; 0; 0; 0; 0; 0; 0; 0; 17; 0; 79; 83; 84; 65; 32; 67; 111; 109; 112;
   114; 101; 115; 115; 101; 100; 32; 85; 110; 105; 99; 111; 100; 101; 0; 0; 0; 0; 0; 0; 0; 0; 0; 0; 0; 0; 0; 0; 0;
   0; 0; 0; 0; 0; 0; 0; 0; 0; 0; 0; 0; 0; 0; 0; 0; 0; 0; 0; 0; 0; 0; 0; 0; 0; 0; 79; 83; 84; 65; 32; 67; 111; 109;
   112; 114; 101; 115; 115; 101; 100; 32; 85; 110; 105; 99; 111; 100; 101; 0; 0; 0; 0; 0; 0; 0; 0; 0; 0; 0; 0; 0;
   0; 0; 0; 0; 0; 0; 0; 0; 0; 0; 0; 0; 0; 0; 0; 0; 0; 0; 0; 0; 0; 0; 0; 0; 0; 0; 0; 0; 0; 0; 0; 0; 0; 0; 0; 0; 0;
   0; 0; 0; 0; 0; 0; 0; 0; 0; 0; 0; 0; 0; 0; 0; 0; 0; 0; 0; 0; 0; 0; 0; 0; 0; 0; 0; 0; 0; 0; 0; 0; 0; 0; 0; 0; 0;
   0; 0; 16; 231; 7; 11; 14; 22; 13; 20; 0; 0; 0; 0; 42; 112; 121; 99; 100; 108; 105; 98]
  ++ zeros 115.
Definition ex_iuvd : list Z :=
  [4; 0; 2; 0; 194; 0; 0; 0; 149; 21; 240; 1; 33; 0; 0; 0; 1; 0; 0; 0; 0; 42; 85; 68; 70; 32; 76; 86; 32; 73; 110;
   102; 111; 0; 0; 0; 0; 0; 0; 0; 0; 0; 0; 0; 2; 1; 0; 0; 0; 0; 0; 0; 0; 79; 83; 84; 65; 32; 67; 111; 109; 112;
   114; 101; 115; 115; 101; 100; 32; 85; 110; 105; 99; 111; 100; 101; 0; 0; 0; 0; 0; 0; 0; 0; 0; 0; 0; 0; 0; 0; 0;
   0; 0; 0; 0; 0; 0; 0; 0; 0; 0; 0; 0; 0; 0; 0; 0; 0; 0; 0; 0; 0; 0; 0; 0; 0; 8; 67; 68; 82; 79; 77; 0; 0; 0; 0; 0;
   0; 0; 0; 0; 0; 0; 0; 0; 0; 0; 0; 0; 0; 0; 0; 0; 0; 0; 0; 0; 0; 0; 0; 0; 0; 0; 0; 0; 0; 0; 0; 0; 0; 0; 0; 0; 0;
   0; 0; 0; 0; 0; 0; 0; 0; 0; 0; 0; 0; 0; 0; 0; 0; 0; 0; 0; 0; 0; 0; 0; 0; 0; 0; 0; 0; 0; 0; 0; 0; 0; 0; 0; 0; 0;
   0; 0; 0; 0; 0; 0; 0; 0; 0; 0; 0; 0; 0; 0; 0; 0; 0; 0; 0; 0; 0; 0; 0; 0; 0; 0; 0; 0; 0; 0; 0; 0; 0; 0; 0; 0; 0;
   0; 0; 0; 0; 0; 6; 0; 0; 0; 0; 0; 0; 0; 0; 0; 0; 0; 0; 0; 0; 0; 0; 0; 0; 0; 0; 0; 0; 0; 0; 0; 0; 0; 0; 0; 0; 0;
   0; 0; 0; 0; 0; 0; 0; 0; 0; 0; 0; 0; 0; 0; 0; 0; 0; 0; 0; 0; 0; 0; 0; 0; 0; 0; 0; 0; 0; 0; 0; 0; 0; 0; 0; 0; 0;
   0; 0; 0; 0; 0; 0; 0; 0; 0; 0; 0; 0; 0; 0; 0; 0; 0; 0; 0; 0; 0; 0; 0; 0; 0; 0; 0; 0; 0; 0; 0; 0; 0; 0; 0; 0; 0;
   0; 0; 0; 0; 42; 112; 121; 99; 100; 108; 105; 98]
  ++ zeros 151.
Definition ex_part : list Z :=
  [5; 0; 2; 0; 208; 0; 0; 0; 253; 185; 240; 1; 34; 0; 0; 0; 2; 0; 0; 0; 1; 0; 0; 0; 2; 43; 78; 83; 82; 48; 50; 0;
   0; 0; 0; 0; 0; 0; 0; 0; 0; 0; 0; 0; 0; 0; 0; 0; 0; 0; 0; 0; 0; 0; 0; 0; 0; 0; 0; 0; 0; 0; 0; 0; 0; 0; 0; 0; 0;
   0; 0; 0; 0; 0; 0; 0; 0; 0; 0; 0; 0; 0; 0; 0; 0; 0; 0; 0; 0; 0; 0; 0; 0; 0; 0; 0; 0; 0; 0; 0; 0; 0; 0; 0; 0; 0;
   0; 0; 0; 0; 0; 0; 0; 0; 0; 0; 0; 0; 0; 0; 0; 0; 0; 0; 0; 0; 0; 0; 0; 0; 0; 0; 0; 0; 0; 0; 0; 0; 0; 0; 0; 0; 0;
   0; 0; 0; 0; 0; 0; 0; 0; 0; 0; 0; 0; 0; 0; 0; 0; 0; 0; 0; 0; 0; 0; 0; 0; 0; 0; 0; 0; 0; 0; 0; 0; 0; 0; 0; 0; 0;
   0; 0; 0; 0; 1; 0; 0; 0; 1; 1; 0; 0; 14; 0; 0; 0; 0; 42; 112; 121; 99; 100; 108; 105; 98]
  ++ zeros 307.
Definition ex_lvd : list Z :=
  [6; 0; 2; 0; 91; 0; 0; 0; 223; 96; 240; 1; 35; 0; 0; 0; 3; 0; 0; 0; 0; 79; 83; 84; 65; 32; 67; 111; 109; 112;
   114; 101; 115; 115; 101; 100; 32; 85; 110; 105; 99; 111; 100; 101; 0; 0; 0; 0; 0; 0; 0; 0; 0; 0; 0; 0; 0; 0; 0;
   0; 0; 0; 0; 0; 0; 0; 0; 0; 0; 0; 0; 0; 0; 0; 0; 0; 0; 0; 0; 0; 0; 0; 0; 0; 8; 67; 68; 82; 79; 77; 0; 0; 0; 0; 0;
   0; 0; 0; 0; 0; 0; 0; 0; 0; 0; 0; 0; 0; 0; 0; 0; 0; 0; 0; 0; 0; 0; 0; 0; 0; 0; 0; 0; 0; 0; 0; 0; 0; 0; 0; 0; 0;
   0; 0; 0; 0; 0; 0; 0; 0; 0; 0; 0; 0; 0; 0; 0; 0; 0; 0; 0; 0; 0; 0; 0; 0; 0; 0; 0; 0; 0; 0; 0; 0; 0; 0; 0; 0; 0;
   0; 0; 0; 0; 0; 0; 0; 0; 0; 0; 0; 0; 0; 0; 0; 0; 0; 0; 0; 0; 0; 0; 0; 0; 0; 0; 0; 0; 0; 0; 0; 0; 0; 0; 0; 0; 0;
   0; 0; 0; 0; 0; 6; 0; 8; 0; 0; 0; 42; 79; 83; 84; 65; 32; 85; 68; 70; 32; 67; 111; 109; 112; 108; 105; 97; 110;
   116; 0; 0; 0; 0; 2; 1; 3; 0; 0; 0; 0; 0; 0; 16; 0; 0; 0; 0; 0; 0; 0; 0; 0; 0; 0; 0; 0; 0; 6; 0; 0; 0; 1; 0; 0;
   0; 0; 42; 112; 121; 99; 100; 108; 105; 98; 0; 0; 0; 0; 0; 0; 0; 0; 0; 0; 0; 0; 0; 0; 0; 0; 0; 0; 0; 0; 0; 0; 0;
   0; 0; 0; 0; 0; 0; 0; 0; 0; 0; 0; 0; 0; 0; 0; 0; 0; 0; 0; 0; 0; 0; 0; 0; 0; 0; 0; 0; 0; 0; 0; 0; 0; 0; 0; 0; 0;
   0; 0; 0; 0; 0; 0; 0; 0; 0; 0; 0; 0; 0; 0; 0; 0; 0; 0; 0; 0; 0; 0; 0; 0; 0; 0; 0; 0; 0; 0; 0; 0; 0; 0; 0; 0; 0;
   0; 0; 0; 0; 0; 0; 0; 0; 0; 0; 0; 0; 0; 0; 0; 0; 0; 0; 0; 0; 0; 0; 0; 0; 0; 0; 0; 0; 0; 0; 0; 0; 0; 0; 0; 0; 0;
   0; 0; 0; 0; 0; 0; 0; 0; 0; 0; 0; 0; 0; 0; 0; 0; 0; 0; 16; 0; 0; 64; 0; 0; 0; 1; 6; 1]
  ++ zeros 69.
Definition ex_usd : list Z :=
  [7; 0; 2; 0; 180; 0; 0; 0; 106; 44; 240; 1; 36; 0; 0; 0; 4]
  ++ zeros 495.
Definition ex_td : list Z :=
  [8; 0; 2; 0; 32; 0; 0; 0; 0; 0; 240; 1; 37]
  ++ zeros 499.
Definition ex_lvid : list Z :=
  [9; 0; 2; 0; 131; 0; 0; 0; 230; 97; 240; 1; 64; 0; 0; 0; 0; 16; 231; 7; 11; 14; 22; 13; 20; 0; 0; 0; 1; 0; 0; 0;
   0; 0; 0; 0; 0; 0; 0; 0; 8; 1; 0; 0; 0; 0; 0; 0; 0; 0; 0; 0; 0; 0; 0; 0; 0; 0; 0; 0; 0; 0; 0; 0; 0; 0; 0; 0; 0;
   0; 0; 0; 1; 0; 0; 0; 46; 0; 0; 0; 0; 0; 0; 0; 14; 0; 0; 0; 0; 42; 112; 121; 99; 100; 108; 105; 98; 0; 0; 0; 0;
   0; 0; 0; 0; 0; 0; 0; 0; 0; 0; 0; 0; 0; 0; 0; 0; 0; 0; 0; 1; 0; 0; 0; 2; 0; 0; 0; 2; 1; 2; 1; 2; 1]
  ++ zeros 378.
Definition ex_fsd : list Z :=
  [0; 1; 2; 0; 90; 0; 0; 0; 181; 177; 240; 1; 0; 0; 0; 0; 0; 16; 231; 7; 11; 14; 22; 13; 20; 0; 0; 0; 3; 0; 3; 0;
   1; 0; 0; 0; 1; 0; 0; 0; 0; 0; 0; 0; 0; 0; 0; 0; 0; 79; 83; 84; 65; 32; 67; 111; 109; 112; 114; 101; 115; 115;
   101; 100; 32; 85; 110; 105; 99; 111; 100; 101; 0; 0; 0; 0; 0; 0; 0; 0; 0; 0; 0; 0; 0; 0; 0; 0; 0; 0; 0; 0; 0; 0;
   0; 0; 0; 0; 0; 0; 0; 0; 0; 0; 0; 0; 0; 0; 0; 0; 0; 0; 8; 67; 68; 82; 79; 77; 0; 0; 0; 0; 0; 0; 0; 0; 0; 0; 0; 0;
   0; 0; 0; 0; 0; 0; 0; 0; 0; 0; 0; 0; 0; 0; 0; 0; 0; 0; 0; 0; 0; 0; 0; 0; 0; 0; 0; 0; 0; 0; 0; 0; 0; 0; 0; 0; 0;
   0; 0; 0; 0; 0; 0; 0; 0; 0; 0; 0; 0; 0; 0; 0; 0; 0; 0; 0; 0; 0; 0; 0; 0; 0; 0; 0; 0; 0; 0; 0; 0; 0; 0; 0; 0; 0;
   0; 0; 0; 0; 0; 0; 0; 0; 0; 0; 0; 0; 0; 0; 0; 0; 0; 0; 0; 0; 0; 0; 0; 0; 0; 0; 0; 0; 0; 0; 0; 0; 0; 0; 0; 6; 0;
   79; 83; 84; 65; 32; 67; 111; 109; 112; 114; 101; 115; 115; 101; 100; 32; 85; 110; 105; 99; 111; 100; 101; 0; 0;
   0; 0; 0; 0; 0; 0; 0; 0; 0; 0; 0; 0; 0; 0; 0; 0; 0; 0; 0; 0; 0; 0; 0; 0; 0; 0; 0; 0; 0; 0; 0; 0; 0; 0; 0; 0; 0;
   0; 8; 67; 68; 82; 79; 77; 0; 0; 0; 0; 0; 0; 0; 0; 0; 0; 0; 0; 0; 0; 0; 0; 0; 0; 0; 0; 0; 0; 0; 0; 0; 6; 0; 0; 0;
   0; 0; 0; 0; 0; 0; 0; 0; 0; 0; 0; 0; 0; 0; 0; 0; 0; 0; 0; 0; 0; 0; 0; 0; 0; 0; 0; 0; 0; 0; 0; 0; 0; 0; 0; 0; 0;
   0; 0; 0; 0; 0; 0; 0; 0; 0; 0; 0; 0; 0; 0; 0; 0; 0; 0; 0; 0; 0; 0; 0; 0; 0; 8; 0; 0; 2; 0; 0; 0; 0; 0; 0; 0; 0;
   0; 0; 0; 0; 42; 79; 83; 84; 65; 32; 85; 68; 70; 32; 67; 111; 109; 112; 108; 105; 97; 110; 116; 0; 0; 0; 0; 2; 1;
   3]
  ++ zeros 69.
Definition ex_bea : list Z :=
  [0; 66; 69; 65; 48; 49; 1]
  ++ zeros 2041.
Definition ex_nsr : list Z :=
  [0; 78; 83; 82; 48; 50; 1]
  ++ zeros 2041.
Definition ex_tea : list Z :=
  [0; 84; 69; 65; 48; 49; 1]
  ++ zeros 2041.
Definition ex_vds_cases : list (Z * Z * list Z) :=
  [(0, 256, ex_anchor); (1, 32, ex_pvd); (2, 33, ex_iuvd); (3, 34, ex_part); (4, 35, ex_lvd); (5, 36, ex_usd); (6, 37, ex_td); (7, 64, ex_lvid); (8, 0, ex_fsd); (9, 0, ex_bea); (10, 0, ex_nsr); (11, 0, ex_tea)].

Example ex_vds_all_ok : bad_vds_cases 0 ex_vds_cases = [].
Proof. vm_compute. reflexivity. Qed.
(* a descriptor read with 2048-byte sectors (trailing zeros) is accepted as well *)
Example ex_vds_sector_ok : bad_vds_cases 0 (map (fun '(k, l, b) => (k, l, b ++ zeros 1536)) (firstn 9 ex_vds_cases)) = [].
Proof. vm_compute. reflexivity. Qed.
(* the checker is not vacuous: a wrong location (tag_location mismatch), a flipped body byte (CRC), and a
   descriptor presented as another kind are all reported *)
Example ex_vds_bad : bad_vds_cases 0 [(0, 257, ex_anchor); (3, 34, set_nth 200 1 ex_part); (3, 35, ex_lvd);
                                      (3, 34, ex_part); (9, 0, ex_tea)] = [0; 1; 2; 4]%nat.
Proof. vm_compute. reflexivity. Qed.
(* what the anchor and the partition / integrity descriptors of that image say *)
Example ex_anchor_parsed : anchor_parse ex_anchor 256 =
  Some (mk_utag 2 2 0 256 496, mk_anchor (mk_extent_ad 32768 32) (mk_extent_ad 32768 48)).
Proof. vm_compute. reflexivity. Qed.
Example ex_part_lvid_agree :
  match part_parse ex_part 34, lvid_parse ex_lvid 64 with
  | Some (_, p), Some (_, d) =>
      (pt_start p, pt_length p, li_size d, lu_num_files (li_impl d), lu_num_dirs (li_impl d)) = (257, 14, [14], 1, 2)
  | _, _ => False
  end.
Proof. vm_compute. reflexivity. Qed.

(* the hypotheses X_wf / tag_wf of the X_sound theorems hold for what pycdlib wrote *)
Lemma zbytesb_sound l : forallb (fun x => (0 <=? x) && (x <=? 255)) l = true -> zbytes l.
Proof. intros H. apply Forall_forall. intros x Hx. rewrite forallb_forall in H. specialize (H x Hx). cbv beta. lia. Qed.
Ltac wf_solve :=
  repeat split; try reflexivity; try lia; try (apply zbytesb_sound; vm_compute; reflexivity);
  try (left; reflexivity); try (right; reflexivity); try (left; lia); try (repeat constructor; unfold u16; lia).
Ltac wf_unfold :=
  unfold pvd_wf, iuvd_wf, iuu_wf, part_wf, parthdr_wf, sad_wf, lvd_wf, lvd_wf0, lvid_wf, fsd_wf, anchor_wf, usd_wf,
         tag_wf, charspec_wf, extad_wf, entity_wf, ts_wf, lad_wf, u32, u16; cbn.
Example ex_wf_pvd : exists t p, pvd_parse ex_pvd 32 = Some (t, p) /\ pvd_wf p /\ tag_wf 1 t.
Proof. do 2 eexists. split; [vm_compute; reflexivity|]. wf_unfold. wf_solve. Qed.
Example ex_wf_iuvd : exists t p, iuvd_parse ex_iuvd 33 = Some (t, p) /\ iuvd_wf p /\ tag_wf 4 t.
Proof. do 2 eexists. split; [vm_compute; reflexivity|]. wf_unfold. wf_solve. Qed.
Example ex_wf_part : exists t p, part_parse ex_part 34 = Some (t, p) /\ part_wf p /\ tag_wf 5 t.
Proof. do 2 eexists. split; [vm_compute; reflexivity|]. wf_unfold. wf_solve. Qed.
Example ex_wf_lvd : exists t p, lvd_parse ex_lvd 35 = Some (t, p) /\ lvd_wf p /\ tag_wf 6 t.
Proof. do 2 eexists. split; [vm_compute; reflexivity|]. wf_unfold. wf_solve. Qed.
Example ex_wf_lvid : exists t p, lvid_parse ex_lvid 64 = Some (t, p) /\ lvid_wf p /\ tag_wf 9 t.
Proof. do 2 eexists. split; [vm_compute; reflexivity|]. wf_unfold. wf_solve. Qed.
Example ex_wf_fsd : exists t p, fsd_parse ex_fsd 0 = Some (t, p) /\ fsd_wf p /\ tag_wf 256 t.
Proof. do 2 eexists. split; [vm_compute; reflexivity|]. wf_unfold. wf_solve. Qed.
Example ex_wf_anchor_usd : (exists t p, anchor_parse ex_anchor 256 = Some (t, p) /\ anchor_wf p /\ tag_wf 2 t) /\
  (exists t p, usd_parse ex_usd 36 = Some (t, p) /\ usd_wf p /\ tag_wf 7 t).
Proof. split; do 2 eexists; (split; [vm_compute; reflexivity|]); wf_unfold; wf_solve. Qed.

Print Assumptions sizes_recorded_equal.
Print Assumptions ex_vds_all_ok.
Print Assumptions ex_wf_pvd.
Print Assumptions ex_wf_lvd.
