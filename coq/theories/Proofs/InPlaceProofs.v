(* Main theorems about Model/InPlace.v (modify_file_in_place as a list of writes), for EVERY state that
   satisfies the boolean wf_state together with its backing file:
     inplace_same_sector_count      a call that is not refused has the same number of sectors
     inplace_accepted_iff           under wf: returns <-> same number of sectors (zero-length cases below)
     inplace_refused_writes_nothing(_run) under wf the call either raises before the first write or returns, for
                                    every integer length and every fp (for the code BEFORE /repo 0411073 this
                                    was false: inplace_refused_writes_nothing_refuted in InPlaceExamplesProofs.v)
     inplace_frame                  bytes outside the data sectors, the length fields of the linked records
                                    and the volume modification dates keep their values
     inplace_content_data           the data sectors afterwards: new bytes, old bytes, ONE zero byte
     inplace_content_record         every linked record reads back as record() of the updated object
   All closed under the global context (Print Assumptions at the end). *)
From Coq Require Import ZArith List Bool Lia ZifyBool.
From PV.Base Require Import Prim.
From PV.Gen Require Import GenConst GenFun.
From PV.Model Require Import Codec Checksums Udf InPlace.
From PV.Proofs Require Import CodecProofs UdfProofs UdfFeProofs InPlaceImgProofs InPlaceBytesProofs InPlaceStepProofs.
Import ListNotations.
Local Open Scope Z_scope.
Ltac Zify.zify_post_hook ::= Z.to_euclidean_division_equations.

(* ---- wf_state, unpacked ---- *)
Lemma ip_wf_inv st m ext : wf_state st m = true -> st_child st = ChFile ext ->
  st_lbs st = 2048 /\ 0 <= ext /\ 0 <= st_ino_len st <= MAX_INODE_LEN /\
  forallb (vd_ok m 2048) (vds st) = true /\
  match st_enhanced st with Some v => vd_space v =? vd_space (st_pvd st) | None => true end = true /\
  forallb (lrec_ok m 2048 ext (st_ino_len st)) (st_linked st) = true /\
  pairwise disjointb (fixed_ivals st) = true /\
  forallb (fun l => ivals_disjoint (lrec_ival 2048 l) (fixed_ivals st)) (st_linked st) = true /\
  pairwise (lrec_compat 2048) (st_linked st) = true.
Proof.
  unfold wf_state. intros H Hc. rewrite Hc in H.
  repeat (apply andb_prop in H; let H2 := fresh "R" in destruct H as [H H2]).
  apply Z.eqb_eq in H. rewrite H in *. repeat split; try assumption; lia.
Qed.

Lemma ip_pairwise_app {A} (f : A -> A -> bool) l1 l2 : pairwise f (l1 ++ l2) = true ->
  forall x y, In x l1 -> In y l2 -> f x y = true.
Proof.
  induction l1 as [|a r IH]; intros H x y Hx Hy; [destruct Hx|].
  cbn [app pairwise] in H. apply andb_prop in H. destruct H as [Ha Hr]. destruct Hx as [<-|Hx].
  - apply (proj1 (forallb_forall _ _) Ha). apply in_or_app. right. exact Hy.
  - apply IH; assumption.
Qed.

Lemma ip_stable_outside ws m a :
  (forall w, In w ws -> in_range (fst w) (zlen (snd w)) a = false) -> apply_writes ws m a = m a.
Proof.
  intros H. apply ip_apply_writes_stable; [reflexivity|]. apply Forall_forall. intros w Hw Hr.
  rewrite (H w Hw) in Hr. discriminate.
Qed.

(* ---- the call under wf ---- *)
Lemma ip_relink_wf st m ext n : wf_state st m = true -> st_child st = ChFile ext -> 0 <= n ->
  ceiling_div (st_ino_len st) 2048 = ceiling_div n 2048 ->
  relink 2048 n (st_linked st) = (flat_map (lrec_write 2048 n) (st_linked st), true).
Proof.
  intros Hwf Hc Hn Hceil. destruct (ip_wf_inv st m ext Hwf Hc) as (_ & _ & Hold & _ & _ & Hl & _).
  apply ip_relink_flat. intros l Hin.
  pose proof (proj1 (forallb_forall _ _) Hl l Hin) as Hok.
  destruct (ip_lrec_step m ext _ n l Hok Hold Hn Hceil) as [[_ S]|(b & b' & _ & S & _)]; rewrite S; discriminate.
Qed.

Lemma ip_modify_run_wf st m n fp now ext : wf_state st m = true -> st_child st = ChFile ext ->
  st_initialized st = true -> mode_ok (st_mode st) = true -> length now = 17%nat -> 0 <= n ->
  ceiling_div (st_ino_len st) 2048 = ceiling_div n 2048 ->
  exists wv, vd_writes 2048 now (vds st) = (wv, true) /\
    modify_run st n fp now = Done (wv ++ data_writes 2048 ext n fp ++ flat_map (lrec_write 2048 n) (st_linked st)).
Proof.
  intros Hwf Hc Hi Hm Hn Hn0 Hceil.
  destruct (ip_wf_inv st m ext Hwf Hc) as (Hlbs & _ & _ & Hvd & Henh & _).
  destruct (ip_vd_writes_ok m 2048 now (vds st) Hvd Hn) as (wv & Ew & _).
  exists wv. split; [exact Ew|].
  unfold modify_run, modify_run_gen. rewrite Hi, Hm, Hc. cbn [negb andb].
  replace (n <? 0) with false by lia. unfold child_len. rewrite Hc, Hlbs, Hceil, Z.eqb_refl.
  cbn [negb]. rewrite (ip_vds_after_wf st n Henh), Ew. cbn [negb].
  rewrite (ip_relink_wf st m ext n Hwf Hc Hn0 Hceil). reflexivity.
Qed.

Lemma ip_modify_wf st m d now ext : wf_state st m = true -> st_child st = ChFile ext ->
  st_initialized st = true -> mode_ok (st_mode st) = true -> length now = 17%nat ->
  ceiling_div (st_ino_len st) 2048 = ceiling_div (zlen d) 2048 ->
  exists wv, vd_writes 2048 now (vds st) = (wv, true) /\
    modify st d now = Done (wv ++ data_writes 2048 ext (zlen d) d ++ flat_map (lrec_write 2048 (zlen d)) (st_linked st)).
Proof.
  intros Hwf Hc Hi Hm Hn Hceil.
  apply (ip_modify_run_wf st m (zlen d) d now ext Hwf Hc Hi Hm Hn (zlen_nonneg d) Hceil).
Qed.

(* ---- accepted iff same sector count; never "raised after writing" ---- *)
Theorem inplace_same_sector_count_gen chk st length fp now :
  modify_run_gen chk st length fp now <> Refused ->
  ceiling_div (child_len st) (st_lbs st) = ceiling_div length (st_lbs st) /\ (chk = true -> 0 <= length).
Proof.
  unfold modify_run_gen. destruct (negb (st_initialized st)); [congruence|].
  destruct (negb (mode_ok (st_mode st))); [congruence|].
  destruct (chk && (length <? 0)) eqn:En; [congruence|].
  destruct (st_child st) eqn:Ec; try congruence;
    destruct (ceiling_div (child_len st) (st_lbs st) =? ceiling_div length (st_lbs st)) eqn:E; cbn [negb];
    try congruence; intros _; (split; [lia|intros ->; cbn [andb] in En; lia]).
Qed.

Theorem inplace_same_sector_count st length fp now :
  modify_run st length fp now <> Refused ->
  ceiling_div (child_len st) (st_lbs st) = ceiling_div length (st_lbs st) /\ 0 <= length.
Proof.
  intros H. destruct (inplace_same_sector_count_gen true st length fp now H) as [H1 H2]. split; [exact H1|auto].
Qed.

Theorem inplace_accepted_iff st m d now ext : wf_state st m = true -> st_child st = ChFile ext ->
  st_initialized st = true -> mode_ok (st_mode st) = true -> length now = 17%nat ->
  ((exists ws, modify st d now = Done ws) <-> ceiling_div (st_ino_len st) 2048 = ceiling_div (zlen d) 2048).
Proof.
  intros Hwf Hc Hi Hm Hn. split.
  - intros [ws H]. destruct (ip_wf_inv st m ext Hwf Hc) as (Hlbs & _).
    assert (Hne : modify_run st (zlen d) d now <> Refused) by (unfold modify in H; rewrite H; discriminate).
    destruct (inplace_same_sector_count st (zlen d) d now Hne) as [E _].
    unfold child_len in E. rewrite Hc, Hlbs in E. exact E.
  - intros Hceil. destruct (ip_modify_wf st m d now ext Hwf Hc Hi Hm Hn Hceil) as (wv & _ & E).
    eexists. exact E.
Qed.

(* a zero-length file has no sector: only empty content is accepted, and nothing is written to the data area;
   a non-empty file never accepts empty content *)
Corollary inplace_zero_length st m d now ext : wf_state st m = true -> st_child st = ChFile ext ->
  st_initialized st = true -> mode_ok (st_mode st) = true -> length now = 17%nat -> st_ino_len st = 0 ->
  ((exists ws, modify st d now = Done ws) <-> d = []) /\ data_writes 2048 ext 0 [] = [].
Proof.
  intros Hwf Hc Hi Hm Hn H0. split; [|reflexivity].
  rewrite (inplace_accepted_iff st m d now ext Hwf Hc Hi Hm Hn), H0.
  pose proof (zlen_nonneg d). unfold ceiling_div. split.
  - intros H1. destruct d; [reflexivity|]. rewrite zlen_cons in *. pose proof (zlen_nonneg d). lia.
  - intros ->. reflexivity.
Qed.
Corollary inplace_to_empty_refused st m now ext : wf_state st m = true -> st_child st = ChFile ext ->
  length now = 17%nat -> 0 < st_ino_len st -> modify st [] now = Refused.
Proof.
  intros Hwf Hc Hn H0. destruct (ip_wf_inv st m ext Hwf Hc) as (Hlbs & _).
  unfold modify, modify_run, modify_run_gen. destruct (negb (st_initialized st)); [reflexivity|].
  destruct (negb (mode_ok (st_mode st))); [reflexivity|]. change (zlen []) with 0. cbn [andb Z.ltb Z.compare].
  rewrite Hc. unfold child_len. rewrite Hc, Hlbs. replace (ceiling_div (st_ino_len st) 2048 =? ceiling_div 0 2048) with false
    by (unfold ceiling_div; lia). reflexivity.
Qed.

(* for EVERY integer length and EVERY fp content (also one that holds fewer bytes than length) *)
Theorem inplace_refused_writes_nothing_run st m n fp now : wf_state st m = true -> length now = 17%nat ->
  modify_run st n fp now = Refused \/ exists ws, modify_run st n fp now = Done ws.
Proof.
  intros Hwf Hn.
  destruct (st_initialized st) eqn:Hi; [|left; unfold modify_run, modify_run_gen; rewrite Hi; reflexivity].
  destruct (mode_ok (st_mode st)) eqn:Hm; [|left; unfold modify_run, modify_run_gen; rewrite Hi, Hm; reflexivity].
  destruct (n <? 0) eqn:Hneg; [left; unfold modify_run, modify_run_gen; rewrite Hi, Hm, Hneg; reflexivity|].
  destruct (st_child st) as [|x|x|ext] eqn:Hc;
    try (left; unfold modify_run, modify_run_gen; rewrite Hi, Hm, Hneg, Hc; cbn [negb andb];
         try destruct (negb (_ =? _)); reflexivity).
  destruct (Z.eq_dec (ceiling_div (st_ino_len st) 2048) (ceiling_div n 2048)) as [E|E].
  - right. destruct (ip_modify_run_wf st m n fp now ext Hwf Hc Hi Hm Hn ltac:(lia) E) as (wv & _ & H).
    eexists. exact H.
  - left. destruct (ip_wf_inv st m ext Hwf Hc) as (Hlbs & _).
    unfold modify_run, modify_run_gen. rewrite Hi, Hm, Hneg, Hc. cbn [negb andb]. unfold child_len. rewrite Hc, Hlbs.
    replace (ceiling_div (st_ino_len st) 2048 =? ceiling_div n 2048) with false by lia. reflexivity.
Qed.

Theorem inplace_refused_writes_nothing st m d now : wf_state st m = true -> length now = 17%nat ->
  modify st d now = Refused \/ exists ws, modify st d now = Done ws.
Proof. intros Hwf Hn. apply (inplace_refused_writes_nothing_run st m (zlen d) d now Hwf Hn). Qed.

(* a negative length is refused whatever the state *)
Theorem inplace_negative_refused st n fp now : n < 0 -> modify_run st n fp now = Refused.
Proof.
  intros H. unfold modify_run, modify_run_gen. destruct (negb (st_initialized st)); [reflexivity|].
  destruct (negb (mode_ok (st_mode st))); [reflexivity|]. replace (n <? 0) with true by lia. reflexivity.
Qed.

(* a file object opened 'rb' (or any mode that does not start with r+, w, a, rb+) is refused *)
Theorem inplace_read_only_refused st d now s : st_mode st = Some s -> mode_ok (Some s) = false ->
  modify st d now = Refused.
Proof.
  intros H1 H2. unfold modify, modify_run, modify_run_gen. destruct (negb (st_initialized st)); [reflexivity|].
  rewrite H1, H2. reflexivity.
Qed.
Example ip_mode_rb : mode_ok (Some [114; 98]) = false /\ mode_ok (Some [114; 98; 43]) = true /\ mode_ok None = true.
Proof. repeat split. Qed.

(* ---- where the writes land ---- *)
Section Accepted.
Variables (st : state) (m : img) (d now : list Z) (ext : Z) (ws : list write).
Hypothesis Hwf : wf_state st m = true.
Hypothesis Hnow : length now = 17%nat.
Hypothesis Hchild : st_child st = ChFile ext.
Hypothesis Hdone : modify st d now = Done ws.

Let n := zlen d.
Let wd := data_writes 2048 ext n d.
Let wl := flat_map (lrec_write 2048 n) (st_linked st).

Lemma ip_acc_ceil : ceiling_div (st_ino_len st) 2048 = ceiling_div n 2048.
Proof.
  destruct (ip_wf_inv st m ext Hwf Hchild) as (Hlbs & _).
  assert (Hne : modify_run st (zlen d) d now <> Refused) by (unfold modify in Hdone; rewrite Hdone; discriminate).
  destruct (inplace_same_sector_count st (zlen d) d now Hne) as [E _].
  unfold child_len in E. rewrite Hchild, Hlbs in E. exact E.
Qed.

Lemma ip_acc_shape : exists wv, vd_writes 2048 now (vds st) = (wv, true) /\ ws = wv ++ wd ++ wl.
Proof.
  assert (Hi : st_initialized st = true).
  { destruct (st_initialized st) eqn:E; [reflexivity|]. unfold modify, modify_run, modify_run_gen in Hdone. rewrite E in Hdone. discriminate. }
  assert (Hm : mode_ok (st_mode st) = true).
  { destruct (mode_ok (st_mode st)) eqn:E; [reflexivity|]. unfold modify, modify_run, modify_run_gen in Hdone. rewrite Hi, E in Hdone. discriminate. }
  destruct (ip_modify_wf st m d now ext Hwf Hchild Hi Hm Hnow ip_acc_ceil) as (wv & Ew & E).
  exists wv. split; [exact Ew|]. rewrite E in Hdone. injection Hdone as <-. reflexivity.
Qed.

(* the data sectors as an interval *)
Lemma ip_acc_data_ival : data_ival st = (ext * 2048, ext * 2048 + ceiling_div n 2048 * 2048).
Proof.
  destruct (ip_wf_inv st m ext Hwf Hchild) as (Hlbs & _). unfold data_ival. rewrite Hchild, Hlbs, ip_acc_ceil.
  reflexivity.
Qed.

(* a byte the data step does not touch *)
Lemma ip_data_den_outside m' a : in_ival a (data_ival st) = false -> data_den 2048 (ext * 2048) d m' a = m' a.
Proof.
  rewrite ip_acc_data_ival. unfold in_ival, data_den, in_range. cbn [fst snd]. fold n.
  pose proof (zlen_nonneg d). unfold n, ceiling_div in *. intros Ha.
  replace ((ext * 2048 <=? a) && (a <? ext * 2048 + zlen d)) with false by lia.
  destruct (negb (zlen d mod 2048 =? 0)) eqn:E; [|reflexivity].
  replace (a =? ext * 2048 + - (- zlen d / 2048) * 2048 - 1) with false by lia. reflexivity.
Qed.

(* a volume descriptor write covers the sector of its descriptor *)
Lemma ip_acc_vd_range wv w a : vd_writes 2048 now (vds st) = (wv, true) -> In w wv ->
  in_range (fst w) (zlen (snd w)) a = true -> exists v, In v (vds st) /\ in_ival a (vd_ival 2048 v) = true.
Proof.
  intros Ew Hw Hr. destruct (ip_wf_inv st m ext Hwf Hchild) as (_ & _ & _ & Hvd & _).
  destruct (ip_vd_writes_ok m 2048 now (vds st) Hvd Hnow) as (wv' & Ew' & _ & Hin).
  rewrite Ew in Ew'. injection Ew' as <-. destruct (Hin w Hw) as (v & Hv & E1 & E2).
  exists v. split; [exact Hv|]. unfold in_range in Hr. unfold in_ival, vd_ival. cbn [fst snd]. lia.
Qed.

(* a record write: which linked record it comes from and what it carries *)
Lemma ip_acc_wl_inv w : In w wl ->
  exists l b b', In l (st_linked st) /\ lrec_bytes l = Some b /\ w = (lrec_pos 2048 l, b') /\
                 relink_one 2048 n l = StWrite w /\
                 same_except (lrec_changed l) b b' /\ on_disk m (lrec_pos 2048 l) b = true /\ 0 < zlen b /\
                 lrec_ival 2048 l = [(lrec_pos 2048 l, lrec_pos 2048 l + zlen b)] /\
                 lrec_ok m 2048 ext (st_ino_len st) l = true.
Proof.
  intros Hw. unfold wl in Hw. apply in_flat_map in Hw. destruct Hw as (l & Hl & Hw).
  destruct (ip_wf_inv st m ext Hwf Hchild) as (_ & _ & Hold & _ & _ & Hlr & _).
  pose proof (proj1 (forallb_forall _ _) Hlr l Hl) as Hok.
  unfold lrec_write in Hw.
  destruct (ip_lrec_step m ext _ n l Hok Hold (zlen_nonneg d) ip_acc_ceil)
    as [[_ S]|(b & b' & B & S & Hse & Hd & Hz & Hiv)]; rewrite S in Hw; [destruct Hw|].
  destruct Hw as [<-|[]]. exists l, b, b'.
  split; [exact Hl|]. split; [exact B|]. split; [reflexivity|]. split; [exact S|]. split; [exact Hse|].
  split; [exact Hd|]. split; [exact Hz|]. split; [exact Hiv|exact Hok].
Qed.

Lemma ip_same_len (b b' : list Z) P : same_except P b b' -> zlen b' = zlen b.
Proof. intros [H _]. unfold zlen. rewrite H. reflexivity. Qed.

(* a byte inside a record write is outside every volume descriptor sector and outside the data sectors *)
Lemma ip_acc_record_apart l (b : list Z) a : In l (st_linked st) ->
  lrec_ival 2048 l = [(lrec_pos 2048 l, lrec_pos 2048 l + zlen b)] ->
  in_range (lrec_pos 2048 l) (zlen b) a = true ->
  in_ival a (data_ival st) = false /\ forall v, In v (vds st) -> in_ival a (vd_ival 2048 v) = false.
Proof.
  intros Hl Hiv Hr. destruct (ip_wf_inv st m ext Hwf Hchild) as (Hlbs & _ & _ & _ & _ & _ & _ & Hdis & _).
  pose proof (proj1 (forallb_forall _ _) Hdis l Hl) as H. cbv beta in H. rewrite Hiv in H.
  cbn [ivals_disjoint forallb] in H. rewrite andb_true_r in H.
  pose proof (proj1 (forallb_forall _ _) H) as Hall. unfold in_range in Hr.
  assert (Hgen : forall iv, In iv (fixed_ivals st) -> in_ival a iv = false).
  { intros iv Hin. pose proof (Hall iv Hin) as Hd. unfold disjointb, in_ival in *. cbn [fst snd] in *. lia. }
  split.
  - apply Hgen. unfold fixed_ivals. apply in_or_app. right. left. reflexivity.
  - intros v Hv. apply Hgen. unfold fixed_ivals. apply in_or_app. left. rewrite Hlbs. apply in_map. exact Hv.
Qed.

(* ---- frame ---- *)
Theorem inplace_frame_acc a : outside a (allowed st) = true -> apply_writes ws m a = m a.
Proof.
  intros Ha. destruct ip_acc_shape as (wv & Ew & Ews). rewrite Ews.
  destruct (ip_wf_inv st m ext Hwf Hchild) as (Hlbs & _ & _ & Hvd & _).
  unfold allowed in Ha. rewrite Hlbs, ip_outside_app, ip_outside_cons in Ha.
  apply andb_prop in Ha. destruct Ha as [Ha1 Ha2]. apply andb_prop in Ha2. destruct Ha2 as [Ha2 Ha3].
  rewrite !ip_apply_writes_app.
  destruct (ip_vd_writes_ok m 2048 now (vds st) Hvd Hnow) as (wv' & Ew' & Hk & _).
  rewrite Ew in Ew'. injection Ew' as <-.
  apply ip_apply_writes_stable.
  - unfold wd, n. rewrite ip_data_writes_den, ip_data_den_outside by (destruct (in_ival a (data_ival st)); [discriminate|reflexivity]).
    apply ip_apply_writes_stable; [reflexivity|]. apply Hk. exact Ha1.
  - apply Forall_forall. intros w Hw.
    destruct (ip_acc_wl_inv w Hw) as (l & b & b' & Hl & _ & -> & _ & Hse & Hd & _ & _ & Hok).
    unfold keeps. cbn [fst snd]. unfold in_range. intros Hr.
    pose proof (ip_same_len _ _ _ Hse) as Hlen.
    rewrite (ip_on_disk_at m _ b a Hd) by lia.
    symmetry. apply (proj2 Hse). intros Hch.
    pose proof (ip_lrec_changed_allowed m ext _ l _ a Hok Hch ltac:(lia)) as Hout.
    rewrite (ip_outside_flat_map a (lrec_len_fields 2048) (st_linked st) l Hl Ha3) in Hout. discriminate.
Qed.

(* ---- content: the data sectors ---- *)
Theorem inplace_content_data_acc a : in_ival a (data_ival st) = true ->
  apply_writes ws m a = data_den 2048 (ext * 2048) d m a.
Proof.
  intros Ha. destruct ip_acc_shape as (wv & Ew & Ews). rewrite Ews.
  destruct (ip_wf_inv st m ext Hwf Hchild) as (Hlbs & _ & _ & _ & _ & _ & Hfix & _).
  rewrite !ip_apply_writes_app.
  assert (H1 : apply_writes wv m a = m a).
  { apply ip_stable_outside. intros w Hw. destruct (in_range (fst w) (zlen (snd w)) a) eqn:E; [|reflexivity].
    destruct (ip_acc_vd_range wv w a Ew Hw E) as (v & Hv & Hin).
    assert (Hd : disjointb (vd_ival 2048 v) (data_ival st) = true).
    { apply (ip_pairwise_app disjointb _ _ Hfix); [rewrite Hlbs; apply in_map; exact Hv|left; reflexivity]. }
    unfold disjointb, in_ival in *. cbn [fst snd] in *. lia. }
  assert (H2 : apply_writes wd (apply_writes wv m) a = data_den 2048 (ext * 2048) d m a).
  { unfold wd, n. rewrite ip_data_writes_den. unfold data_den. rewrite H1. reflexivity. }
  rewrite <- H2. apply ip_stable_outside. intros w Hw.
  destruct (ip_acc_wl_inv w Hw) as (l & b & b' & Hl & _ & -> & _ & Hse & _ & _ & Hiv & _).
  cbn [fst snd]. rewrite (ip_same_len _ _ _ Hse).
  destruct (in_range (lrec_pos 2048 l) (zlen b) a) eqn:E; [|reflexivity].
  destruct (ip_acc_record_apart l b a Hl Hiv E) as [Hx _]. rewrite Hx in Ha. discriminate.
Qed.

(* ---- content: the linked records ---- *)
Theorem inplace_content_record_acc l b' : In l (st_linked st) -> relink_one 2048 n l = StWrite (lrec_pos 2048 l, b') ->
  read (apply_writes ws m) (lrec_pos 2048 l) (length b') = b'.
Proof.
  intros Hl Hstep. destruct ip_acc_shape as (wv & Ew & Ews). rewrite Ews.
  destruct (ip_wf_inv st m ext Hwf Hchild) as (Hlbs & _ & Hold & _ & _ & Hlr & _ & _ & Hpw).
  assert (Hw : In (lrec_pos 2048 l, b') wl).
  { unfold wl. apply in_flat_map. exists l. split; [exact Hl|]. unfold lrec_write. rewrite Hstep. left. reflexivity. }
  assert (Hcompat : forall w', In w' wl -> wdisj (lrec_pos 2048 l, b') w' \/ w' = (lrec_pos 2048 l, b')).
  { intros w' Hw'.
    destruct (ip_acc_wl_inv w' Hw') as (l2 & b2 & b2' & Hl2 & _ & -> & S2 & _ & _ & _ & _ & Ok2).
    pose proof (proj1 (forallb_forall _ _) Hlr l Hl) as Ok1.
    destruct (ip_pairwise_In _ _ Hpw l l2 Hl Hl2) as [<-|[Hc|Hc]].
    - right. rewrite Hstep in S2. injection S2 as <-. reflexivity.
    - destruct (ip_compat_writes m ext _ n l l2 _ _ Ok1 Ok2 Hold (zlen_nonneg d) ip_acc_ceil Hc Hstep S2) as [H|H];
        [left; exact H|right; exact H].
    - destruct (ip_compat_writes m ext _ n l2 l _ _ Ok2 Ok1 Hold (zlen_nonneg d) ip_acc_ceil Hc S2 Hstep) as [H|H];
        [left; unfold wdisj in *; lia|right; symmetry; exact H]. }
  apply ip_read_eq. intros i Hi. rewrite !ip_apply_writes_app.
  assert (Hr : in_range (lrec_pos 2048 l) (zlen b') (lrec_pos 2048 l + Z.of_nat i) = true)
    by (unfold in_range, zlen; lia).
  rewrite (ip_apply_writes_in wl _ (lrec_pos 2048 l, b') _ Hw Hcompat Hr). cbn [fst snd]. f_equal. lia.
Qed.

End Accepted.

(* ---- the theorems in closed form ---- *)
Theorem inplace_frame st m d now ws : wf_state st m = true -> length now = 17%nat ->
  modify st d now = Done ws -> forall a, outside a (allowed st) = true -> apply_writes ws m a = m a.
Proof.
  intros Hwf Hn Hd a Ha. destruct (st_child st) as [|x|x|ext] eqn:Hc;
    try (unfold modify, modify_run, modify_run_gen in Hd; rewrite Hc in Hd;
         destruct (negb (st_initialized st)); [discriminate|]; destruct (negb (mode_ok (st_mode st))); [discriminate|];
         destruct (true && (zlen d <? 0)); [discriminate|];
         try destruct (negb (_ =? _)); discriminate).
  apply (inplace_frame_acc st m d now ext ws Hwf Hn Hc Hd a Ha).
Qed.

Theorem inplace_content_data st m d now ws ext : wf_state st m = true -> length now = 17%nat ->
  st_child st = ChFile ext -> modify st d now = Done ws ->
  (* the new bytes *)
  read (apply_writes ws m) (ext * 2048) (length d) = d /\
  (* what follows them up to the end of the last sector: the OLD bytes, except the very last one *)
  (forall a, ext * 2048 + zlen d <= a < ext * 2048 + ceiling_div (zlen d) 2048 * 2048 ->
     apply_writes ws m a = if a =? ext * 2048 + ceiling_div (zlen d) 2048 * 2048 - 1 then 0 else m a).
Proof.
  intros Hwf Hn Hc Hd.
  pose proof (ip_acc_data_ival st m d now ext ws Hwf Hc Hd) as Hiv.
  pose proof (zlen_nonneg d) as Hz. split.
  - apply ip_read_eq. intros i Hi.
    rewrite (inplace_content_data_acc st m d now ext ws Hwf Hn Hc Hd).
    + unfold data_den, in_range. replace ((ext * 2048 <=? ext * 2048 + Z.of_nat i) && (ext * 2048 + Z.of_nat i <? ext * 2048 + zlen d))
        with true by (unfold zlen; lia). f_equal. lia.
    + rewrite Hiv. unfold in_ival. cbn [fst snd]. unfold ceiling_div, zlen in *. lia.
  - intros a Ha. rewrite (inplace_content_data_acc st m d now ext ws Hwf Hn Hc Hd).
    + unfold data_den, in_range. replace ((ext * 2048 <=? a) && (a <? ext * 2048 + zlen d)) with false by lia.
      replace (negb (zlen d mod 2048 =? 0)) with true by (unfold ceiling_div in *; lia). cbn [andb]. reflexivity.
    + rewrite Hiv. unfold in_ival. cbn [fst snd]. lia.
Qed.

Theorem inplace_content_record st m d now ws ext l b' : wf_state st m = true -> length now = 17%nat ->
  st_child st = ChFile ext -> modify st d now = Done ws ->
  In l (st_linked st) -> relink_one 2048 (zlen d) l = StWrite (lrec_pos 2048 l, b') ->
  read (apply_writes ws m) (lrec_pos 2048 l) (length b') = b'.
Proof. intros Hwf Hn Hc Hd. apply (inplace_content_record_acc st m d now ext ws Hwf Hn Hc Hd). Qed.

Print Assumptions inplace_same_sector_count.
Print Assumptions inplace_accepted_iff.
Print Assumptions inplace_zero_length.
Print Assumptions inplace_refused_writes_nothing_run.
Print Assumptions inplace_negative_refused.
Print Assumptions inplace_frame.
Print Assumptions inplace_content_data.
Print Assumptions inplace_content_record.
