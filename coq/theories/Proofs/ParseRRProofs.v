(* ParseRR: pycdlib's own parser run on the Rock Ridge image pycdlib's writer produced.  Main results.

   For every well-formed state (MasterRR.mrr_wf; in particular, by mrr_run_wf, for every state an edit history reaches
   that passes mrr_sizes_ok) whose sibling identifiers are pairwise different (prr_tree_ok: false only when a history
   put two records of one name into a directory called RR_MOVED -- parse_rr_master_dup_refuted):
     parse_rr_master_frame       open of the mastered image (or of any larger medium whose other chunks do not overlap)
                                 raises nothing, leaves the fragment nowhere, and returns graph_of dt s: every record with
                                 exactly the dr_entries / ce_entries RockRidge.new placed (link count and CE pointer as
                                 patched, SL components as parsed), the writer's version, rr_children, and the
                                 continuation blocks tracked in walk order
     parse_rr_master             ... for the image itself
     parse_rr_rejects_nothing_valid   no raise statement of the Rock Ridge branch is reached
     parse_rr_master_run         the same for rr_run (rr_init v) ops
     parse_rr_version            g_ver (graph_of dt s) = r_ver s: the version of the opened ISO is the writer's, for 1.09,
                                 1.10 and 1.12 (after the repairs 2755ef8 / 26337bc this model triggered)
     parse_rr_blocks_sound       every entry of the reconstructed pvd.rr_ce_blocks is the continuation area of a record of
                                 the tree, in the block with that record's extent
   Refuted (ParseRRRefuted.v): the old XA probe; byte-identity of later edits (block order after open). *)
From Coq Require Import ZArith List Bool Lia ZifyBool.
From PV.Base Require Import Prim.
From PV.Gen Require Import GenConst GenFun.
From PV.Model Require Import Codec Pack PathTable CeAlloc RREntries RRWalk RRPlace.
From PV.Model Require Master Account LongNames.
From PV.Model Require Import ParseCore AccountRR MasterRR ParseRR ParseRRSpec.
From PV.Proofs Require Import CodecProofs PackProofs PathTableLemmas PathTableProofs MasterPack MasterImage MasterBfs.
From PV.Proofs Require Import MasterRRWalk MasterRRRec MasterRRBlock MasterRRTree MasterRRLayout MasterRRDir
                              MasterRRImage MasterRRRead MasterRRProofs MasterRRRun.
From PV.Proofs Require Import ParseScan ParseTrack ParseDir ParseWalk.
From PV.Proofs Require Import ParseRRTable ParseRRDir ParseRRDir2 ParseRRDir3 ParseRRWalk.
Import ListNotations.
Local Open Scope Z_scope.

Section Main.
  Variable dt : list Z.
  Variable s : rstate.
  Hypothesis Hdt : length dt = 7%nat.
  Hypothesis Hwf : mrr_wf dt s = true.
  Hypothesis Hsorted : prr_tree_ok s = true.

  Local Notation t := (r_root s).
  Local Notation L := (mrr_layout s).

  Lemma prr_init_inv : prr_inv s (prr_size s) (prr_init (mrr_root_extent s) (mrr_root_len s)) [([], t)] [].
  Proof.
    destruct (mrr_wf_root dt s Hwf) as (_ & m & dl & kids & Et & Hnm & _).
    constructor.
    - cbn [prr_init w_queue].
      assert (Ef : filter prr_item_is_dir [([], t)] = [([], t)]) by (rewrite Et; reflexivity).
      rewrite Ef. cbn [map]. f_equal. unfold prr_qof. cbn [fst snd mrr_is_root]. rewrite (mrr_root_ext s).
      unfold mrr_root_extent, mrr_root_len, mrr_dlen_at. cbn [mrr_node_at]. rewrite Et. cbn [rname meta_of].
      unfold rname. cbn [meta_of]. rewrite Hnm. reflexivity.
    - intros p n [H|[]]. injection H as <- <-. reflexivity.
    - intros b [].
    - cbn [app prr_dq map fst snd]. exact (mrr_order_nodup s).
    - cbn [prr_dq map fst snd]. rewrite ps_wsize_cons. unfold prr_size. cbn. lia.
    - intros e o l (es & [] & _).
    - left. reflexivity.
  Qed.

  Theorem parse_rr_master_frame img img' : master_rr dt s = Some img -> ms_img_ok img' -> incl img img' ->
    parse_rr (prr_fuel s) img' (mrr_root_extent s) (mrr_root_len s) = POk (graph_of dt s).
  Proof.
    intros Hm Hok Hincl. rewrite (mrr_master_img dt s Hdt Hwf) in Hm. injection Hm as <-.
    unfold parse_rr, parse_rr_gen. fold prr_walk.
    destruct (prr_walk_ok dt s Hdt Hwf Hsorted img' Hok Hincl (prr_size s) _ _ [] (prr_fuel s) prr_init_inv)
      as [Hw _]; [unfold prr_fuel; lia|].
    rewrite Hw. reflexivity.
  Qed.

  Theorem parse_rr_master img : master_rr dt s = Some img ->
    parse_rr (prr_fuel s) img (mrr_root_extent s) (mrr_root_len s) = POk (graph_of dt s).
  Proof.
    intros Hm. apply (parse_rr_master_frame img img Hm); [|apply incl_refl].
    rewrite (mrr_master_img dt s Hdt Hwf) in Hm. injection Hm as <-. exact (mrr_img_ok dt s Hdt Hwf).
  Qed.

  (* no raise statement is reached, nothing leaves the fragment *)
  Theorem parse_rr_rejects_nothing_valid :
    exists img g, master_rr dt s = Some img /\
      parse_rr (prr_fuel s) img (mrr_root_extent s) (mrr_root_len s) = POk g /\
      forall w, parse_rr (prr_fuel s) img (mrr_root_extent s) (mrr_root_len s) <> PInvalid w /\
                parse_rr (prr_fuel s) img (mrr_root_extent s) (mrr_root_len s) <> PUnsupported w.
  Proof.
    exists (mrr_img dt s), (graph_of dt s). pose proof (mrr_master_img dt s Hdt Hwf) as Hm.
    split; [exact Hm|]. rewrite (parse_rr_master _ Hm). split; [reflexivity|]. intros w. split; discriminate.
  Qed.

  (* the Rock Ridge version of the opened ISO is the writer's (1.09, 1.10 and 1.12 alike) *)
  Lemma prr_gwalk_ver : forall f items st, w_ver st = r_ver s ->
    w_ver (prr_gwalk f (r_ver s) dt t L items st) = r_ver s.
  Proof.
    induction f as [|f IH]; intros items st H; [exact H|].
    destruct items as [|[p [m len|m dl kids]] q]; cbn [prr_gwalk]; [exact H|apply IH; exact H|].
    apply IH. unfold prr_spec_dir. destruct (mrr_dir_specs t L p) as [|xd [|xdd rest]]; [exact H|exact H|].
    cbn [prr_end_dir w_ver]. rewrite (proj2 (proj2 (prr_spec_kids_fields dt s p kids 0 _))). reflexivity.
  Qed.

  Theorem parse_rr_version : g_ver (graph_of dt s) = r_ver s.
  Proof.
    destruct (mrr_wf_root dt s Hwf) as (_ & m & dl & kids & Et & _).
    unfold graph_of. cbn [prr_graph g_ver].
    assert (Hsz : exists f, prr_size s = S f) by (unfold prr_size; destruct (mrr_dtree [] t); cbn [tsize]; eexists; reflexivity).
    destruct Hsz as [f ->].
    replace [(@nil nat, t)] with [(@nil nat, RDir m dl kids)] by (rewrite Et; reflexivity).
    cbn [prr_gwalk]. apply prr_gwalk_ver.
    unfold prr_spec_dir. destruct (mrr_dir_specs t L []) as [|xd [|xdd rest]] eqn:Es.
    - unfold mrr_dir_specs in Es. rewrite Et in Es. discriminate Es.
    - unfold mrr_dir_specs in Es. rewrite Et in Es. discriminate Es.
    - cbn [prr_end_dir w_ver]. rewrite (proj2 (proj2 (prr_spec_kids_fields dt s [] kids 0 _))). reflexivity.
  Qed.

  (* what the reconstructed table holds comes from the records *)
  Theorem parse_rr_blocks_sound e o l : tbl_has (g_blocks (graph_of dt s)) e o l ->
    exists q c i, mrr_node_at t q = Some c /\ m_ce (meta_of c) = Some (i, o, l) /\ mrr_ce_ext t L i = e.
  Proof.
    intros H. pose proof (mrr_img_ok dt s Hdt Hwf) as Hok.
    destruct (prr_walk_ok dt s Hdt Hwf Hsorted _ Hok (incl_refl _) (prr_size s) _ _ [] (prr_fuel s)
                prr_init_inv) as [_ (done & Ht)]; [unfold prr_fuel; lia|].
    destruct (Ht e o l H) as (q & c & i & _ & A & B & D). exists q, c, i. auto.
  Qed.
End Main.

(* ---- for every edit history ---------------------------------------------------------------------------------------- *)
Theorem parse_rr_master_run v ops dt img : v <> V_unset -> length dt = 7%nat ->
  let s := rr_run (rr_init v) ops in
  mrr_sizes_ok s = true -> prr_tree_ok s = true -> master_rr dt s = Some img ->
  parse_rr (prr_fuel s) img (mrr_root_extent s) (mrr_root_len s) = POk (graph_of dt s).
Proof.
  intros Hv Hdt s0 Hsz Hs Hm. apply (parse_rr_master dt s0 Hdt); [|exact Hs|exact Hm].
  exact (mrr_run_wf v ops dt Hv Hdt Hsz).
Qed.

Print Assumptions parse_rr_master_frame.
Print Assumptions parse_rr_master.
Print Assumptions parse_rr_rejects_nothing_valid.
Print Assumptions parse_rr_version.
Print Assumptions parse_rr_blocks_sound.
Print Assumptions parse_rr_master_run.
