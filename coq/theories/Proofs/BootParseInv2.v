(* C11 / C02 -- Model/BootParse.v, part 10: [PInv] is preserved by every operation of AccountBoot (current
   code), hence holds after every history; what it gives the parse theorems. *)
From Coq Require Import ZArith List Bool Lia ZifyBool Sorted Arith Permutation.
From PV.Base Require Import Prim.
From PV.Gen Require Import GenConst GenFun.
From PV.Model Require Import Names Checksums Pack Alloc Codec Eltorito Account AccountLinks AccountBoot BootParse.
From PV.Proofs Require Import PackProofs AllocProofs ChecksumsArithProofs AccountLemmas AccountProofs
     AccountLinksLemmas AccountLinksPurge AccountLinksInv EltoritoCatalogProofs EltoritoBuiltProofs
     AccountBootLemmas AccountBootInv AccountBootInv2 AccountBootFix BootParseLayout BootParseWalk
     BootParseLink BootParseTable BootParseProofs BootParseInv.
Import ListNotations.
Local Open Scope Z_scope.
Ltac Zify.zify_post_hook ::= Z.to_euclidean_division_equations.

Lemma bp_state_eta s : {| bl := bl s; bboot := bboot s; bbits := bbits s; bwreck := bwreck s |} = s.
Proof. destruct s; reflexivity. Qed.

(* only the El Torito part changes, the names of the catalog stay *)
Lemma bp_boot_change_pinv s bt' bits' wr' : PInv s ->
  (forall j, in_cat j (bboot s) = true -> in_cat j bt' = true) ->
  PInv {| bl := bl s; bboot := bt'; bbits := bits'; bwreck := wr' |}.
Proof.
  intros [H1 H2 H3 H4] Hc. constructor; cbn [bl bboot]; try assumption.
  intros j Hj. destruct (H3 j Hj) as [H|H]; [left; exact H|right; apply Hc, H].
Qed.

Lemma bp_add_file_pinv s d n len : PInv s -> BInv s -> PInv (fst (lift s (lstep_add_file (bl s) d n len))).
Proof.
  intros HP HI. unfold lift. destruct (snd (lstep_add_file (bl s) d n len)) eqn:Hacc; [|exact HP].
  cbn [fst]. unfold with_l. revert Hacc. unfold lstep_add_file, lrefuse.
  destruct (negb ((0 <=? len) && (len <=? max_len))); [discriminate|]. intros Hacc.
  apply bp_add_record_pinv; [exact HP|exact HI|exact Hacc| |tauto|].
  - intros j Hj. unfold ids. rewrite map_app. apply in_or_app. left. exact Hj.
  - left. unfold ids. rewrite map_app. apply in_or_app. right. left. reflexivity.
Qed.

Lemma bp_add_dir_pinv s parent nm : PInv s -> PInv (fst (lift s (lstep_add_dir (bl s) parent nm))).
Proof.
  intros HP. unfold lift. destruct (snd (lstep_add_dir (bl s) parent nm)) eqn:Hacc; [|exact HP].
  cbn [fst]. revert Hacc. unfold lstep_add_dir, lrefuse, with_l. cbv zeta.
  destruct (too_deep parent); [discriminate|].
  destruct (lsubtree parent (lroot (bl s))) as [[fn fi fs|dn dl kids]|] eqn:Hsub; try discriminate.
  destruct (check_iso9660_directory nm 3) eqn:Hchk; try discriminate.
  destruct (dr_len_of nm >? 255) eqn:Hx; [discriminate|].
  destruct (llookup nm kids) as [[k c]|] eqn:Hl; [discriminate|].
  destruct (add_to_ptr_size (lptr_size (bl s)) (lptr_ext (bl s)) (ptr_record_length (zlen nm))) as [[b ps] pe].
  intros _. cbn [fst].
  apply (bp_update_pinv s parent dn dl kids); [exact HP|exact Hsub| | | |].
  - intros st. rewrite ltotals_insert_at, ltotal_leaf_dir. cbn [lw_st]. pose proof (pi_st_le s HP st). lia.
  - intros st Hst. rewrite ltotals_insert_at, ltotal_leaf_dir. cbn [lw_st]. rewrite (pi_st_fresh s HP st Hst). lia.
  - intros j. rewrite ltotals_insert_at, ltotal_leaf_dir. change (lw_ref j (LDir nm C [])) with 0. intros H. apply (pi_cat s HP). lia.
  - intros j Hj. rewrite ltotals_insert_at, ltotal_leaf_dir. change (lw_ref j (LDir nm C [])) with 0.
    pose proof (pi_one s HP j Hj). lia.
Qed.

Lemma bp_rm_dir_pinv s p : PInv s -> PInv (fst (lift s (lstep_rm_dir (bl s) p))).
Proof.
  intros HP. unfold lift. destruct (snd (lstep_rm_dir (bl s) p)) eqn:Hacc; [|exact HP].
  cbn [fst]. revert Hacc. unfold lstep_rm_dir, lrefuse, with_l. cbv zeta.
  destruct (unsnoc p) as [[q y]|]; [|discriminate].
  destruct (lsubtree q (lroot (bl s))) as [[fn fi fs|dn dl kids]|] eqn:Hsub; try discriminate.
  destruct (llookup y kids) as [[k [cn ci cs|cn cdl [|c0 ckids]]]|] eqn:Hl; try discriminate.
  apply llookup_spec in Hl. destruct Hl as (Hk & _ & _).
  destruct (remove_from_ptr_size (lptr_size (bl s)) (lptr_ext (bl s)) (ptr_record_length (zlen cn))) as [[[b ps] pe]|];
    [|discriminate].
  intros _. cbn [fst].
  apply (bp_update_pinv s q dn dl kids); [exact HP|exact Hsub| | | |].
  - intros st. rewrite (ltotals_remove_at _ kids k _ Hk), ltotal_leaf_dir. cbn [lw_st]. pose proof (pi_st_le s HP st). lia.
  - intros st Hst. rewrite (ltotals_remove_at _ kids k _ Hk), ltotal_leaf_dir. cbn [lw_st]. rewrite (pi_st_fresh s HP st Hst). lia.
  - intros j. rewrite (ltotals_remove_at _ kids k _ Hk), ltotal_leaf_dir. change (lw_ref j (LDir cn cdl [])) with 0.
    intros H. apply (pi_cat s HP). lia.
  - intros j Hj. rewrite (ltotals_remove_at _ kids k _ Hk), ltotal_leaf_dir. change (lw_ref j (LDir cn cdl [])) with 0.
    pose proof (pi_one s HP j Hj). lia.
Qed.

Lemma bp_add_link_pinv s src dirp nm : PInv s -> BInv s -> PInv (fst (bstep_add_link true s src dirp nm)).
Proof.
  intros HP HI. unfold bstep_add_link, brefuse, lift, with_l.
  destruct (lsubtree src (lroot (bl s))) as [[on i ost|on odl okids]|] eqn:Hsrc; try exact HP.
  pose proof (lsubtree_ref i src _ _ _ Hsrc) as Hri.
  destruct (has_ino i (linodes (bl s))) eqn:Hh.
  - destruct (snd (add_record (bl s) dirp nm i (linodes (bl s)) 0)) eqn:Hacc; [|exact HP]. cbn [fst].
    apply bp_add_record_pinv; [exact HP|exact HI|exact Hacc|tauto|tauto|left; apply ab_has_ino_in, Hh].
  - destruct (pi_cat s HP i Hri) as [H|H]; [apply ab_has_ino_in in H; congruence|].
    destruct (bboot s) as [b|] eqn:Hb; [|discriminate]. cbn [in_cat] in H. rewrite H. cbn [andb].
    apply bp_add_cat_name_pinv; assumption.
Qed.

Lemma bp_add_cat_link_pinv s dirp nm : PInv s -> BInv s -> PInv (fst (bstep_add_cat_link s dirp nm)).
Proof.
  intros HP HI. unfold bstep_add_cat_link, brefuse. destruct (bboot s) as [b|] eqn:Hb; [|exact HP].
  destruct (cat_recs b) eqn:Hc; [exact HP|]. apply bp_add_cat_name_pinv; assumption.
Qed.

Lemma bp_rm_file_pinv s dirp nm : PInv s -> BInv s -> PInv (fst (bstep_rm_file s dirp nm)).
Proof.
  intros HP HI. unfold bstep_rm_file, brefuse. cbv zeta.
  destruct (lsubtree dirp (lroot (bl s))) as [[fn fi fs|dn dl kids]|] eqn:Hsub; try exact HP.
  destruct (llookup nm kids) as [[k [cn i st|cn cdl ckids]]|] eqn:Hl; try exact HP.
  destruct (in_cat i (bboot s)) eqn:Hic; [exact HP|].
  destruct (has_ino i (linodes (bl s))) eqn:Hin.
  - destruct (0 <? erefs i (bboot s)); [exact HP|].
    unfold lift, lstep_rm_file, with_l. rewrite Hsub, Hl. cbn [snd fst].
    apply bp_purge_pinv; [exact HP|exact HI|reflexivity].
  - cbn [fst]. unfold with_l. apply llookup_spec in Hl. destruct Hl as (Hk & _ & _).
    apply bp_has_ino_false in Hin.
    apply (bp_rm_record_pinv s dirp dn dl kids k cn i st); try assumption; try tauto.
    + intros Hpos. pose proof (pi_one s HP i Hin). lia.
    + intros _. pose proof (pi_one s HP i Hin). lia.
Qed.

Lemma bp_add_eltorito_pinv s bp cd cn ls pf bit efi m ba sg : PInv s -> BInv s ->
  PInv (fst (bstep_add_eltorito true s bp cd cn ls pf bit efi m ba sg)).
Proof.
  intros HP HI. unfold bstep_add_eltorito, brefuse. cbv zeta.
  destruct (m =? 2); [exact HP|].
  destruct (lsubtree bp (lroot (bl s))) as [[fn i fs|dn dl kids]|] eqn:Hsub; try exact HP.
  destruct (has_ino i (linodes (bl s))) eqn:Hin; cbn [negb]; [|exact HP].
  destruct (true && (len_of i (linodes (bl s)) =? 0)); [exact HP|].
  set (sc := match ls with Some v => v | None => default_sector_count (len_of i (linodes (bl s))) end).
  destruct (bboot s) as [b|] eqn:Hb.
  - destruct (cat_add_section (bcat b) sc sg (media_of_Z m) 0 efi ba) as [c'|]; cbn [fst].
    + apply bp_boot_change_pinv; [exact HP|]. intros j. rewrite Hb. cbn [in_cat cat_recs]. tauto.
    + apply bp_boot_change_pinv; [exact HP|]. intros j. rewrite Hb. tauto.
  - destruct (cat_new sc sg (media_of_Z m) 0 pf ba) as [c|].
    + destruct (snd (add_record (bl s) cd cn (lnext (bl s)) (linodes (bl s)) (C + C))) eqn:Hacc; cbn [fst].
      * apply bp_add_record_pinv; [exact HP|exact HI|exact Hacc|tauto| |].
        -- intros j. rewrite Hb. discriminate.
        -- right. split; [cbn [in_cat cat_recs mem existsb]; rewrite Nat.eqb_refl; reflexivity|].
           apply (bi_fresh s HI). lia.
      * apply bp_boot_change_pinv; [exact HP|]. intros j. rewrite Hb. tauto.
    + cbn [fst]. apply bp_boot_change_pinv; [exact HP|]. intros j. rewrite Hb. tauto.
Qed.

Lemma bp_rm_eltorito_pinv s : PInv s -> BInv s -> PInv (fst (bstep_rm_eltorito s)).
Proof.
  intros HP HI. unfold bstep_rm_eltorito, brefuse. cbv zeta.
  destruct (bboot s) as [b|] eqn:Hb; [|exact HP]. cbn [fst].
  destruct (bi_live s HI) as (HN & _ & _). destruct (bi_root s HI) as [_ Hd].
  pose proof (ab_release_spec (purge_all (cat_recs b) (lroot (bl s))) (binos b) (linodes (bl s)) 0 HN) as HR.
  cbv zeta in HR. destruct HR as (_ & R2 & _).
  constructor; cbn [bl bboot lroot linodes lnext in_cat].
  - intros st. pose proof (bp_purge_all_le (lw_st st) (cat_recs b) (lw_st_nonneg st) (fun _ _ _ => eq_refl) (lroot (bl s))).
    pose proof (pi_st_le s HP st). unfold bp_stcount in *. lia.
  - intros st Hst. pose proof (bp_purge_all_le (lw_st st) (cat_recs b) (lw_st_nonneg st) (fun _ _ _ => eq_refl) (lroot (bl s))).
    pose proof (pi_st_fresh s HP st Hst). pose proof (bp_stcount_nonneg st (purge_all (cat_recs b) (lroot (bl s)))).
    unfold bp_stcount in *. lia.
  - intros j. rewrite (ab_purge_all_refcount _ _ _ Hd). destruct (mem j (cat_recs b)) eqn:Hm; [lia|].
    intros Hj. left. apply R2. split.
    + destruct (pi_cat s HP j Hj) as [H|H]; [exact H|]. rewrite Hb in H. cbn [in_cat] in H. congruence.
    + rewrite (ab_purge_all_refcount _ _ _ Hd), Hm. lia.
  - intros j Hj. rewrite (ab_purge_all_refcount _ _ _ Hd). destruct (mem j (cat_recs b)) eqn:Hm; [lia|].
    destruct (in_dec Nat.eq_dec j (ids (linodes (bl s)))) as [Hin|Hnin]; [|apply (pi_one s HP j Hnin)].
    assert (Hx : In j (binos b) /\ lrefcount j (purge_all (cat_recs b) (lroot (bl s))) = 0).
    { destruct (in_dec Nat.eq_dec j (binos b)) as [Hjb|Hjb].
      - destruct (Z.eq_dec (lrefcount j (purge_all (cat_recs b) (lroot (bl s)))) 0) as [Hz|Hz]; [tauto|].
        exfalso. apply Hj, R2. tauto.
      - exfalso. apply Hj, R2. tauto. }
    destruct Hx as [_ Hx]. rewrite (ab_purge_all_refcount _ _ _ Hd), Hm in Hx. lia.
Qed.

Theorem bp_step_pinv s o : PInv s -> BInv s -> PInv (fst (bstep s o)).
Proof.
  intros HP HI. unfold bstep, bstep_gen. destruct (bwreck s); [exact HP|].
  destruct o;
    [apply bp_add_file_pinv|apply bp_add_dir_pinv|apply bp_add_link_pinv|apply bp_add_cat_link_pinv
    |apply bp_rm_link_pinv|apply bp_rm_file_pinv|apply bp_rm_dir_pinv|apply bp_add_eltorito_pinv
    |apply bp_rm_eltorito_pinv]; assumption.
Qed.

Theorem bp_run_pinv_from ops : forall s, PInv s -> BInv s -> PInv (brun s ops).
Proof.
  unfold brun, brun_gen. induction ops as [|o r IH]; intros s HP HI; [exact HP|]. cbn [fold_left].
  apply IH; [apply (bp_step_pinv s o HP HI)|apply (ab_step_preserves_inv s o HI)].
Qed.

Theorem bp_run_pinv ops : PInv (brun binit ops).
Proof. apply bp_run_pinv_from; [apply bp_pinv_init|apply ab_init_ok]. Qed.

(* ---- what the parse theorems need ---------------------------------------------------------------------- *)

Theorem bp_pinv_names_ok s : PInv s -> bp_names_ok s.
Proof.
  intros HP nm i st Hv Hh. pose proof (bp_visit_ref (bl s) nm i st Hv) as Hr.
  destruct (pi_cat s HP i Hr) as [H|H]; [apply ab_has_ino_in in H; congruence|].
  unfold has_boot. destruct (bboot s); [reflexivity|discriminate].
Qed.

Lemma bp_count_stamps st : forall recs,
  Z.of_nat (count_occ Nat.eq_dec (bp_stamps recs) st) = Alloc.zsum (map (fun n => lw_st st (hdr n)) recs).
Proof.
  induction recs as [|n r IH]; [reflexivity|]. cbn [map]. rewrite zsum_cons, <- IH.
  destruct n as [nm i st'|nm dl kids]; cbn [bp_stamps flat_map app hdr lw_st]; fold (bp_stamps r); [|lia].
  cbn [count_occ]. destruct (Nat.eq_dec st' st) as [->|Hne].
  - rewrite Nat.eqb_refl. lia.
  - destruct (Nat.eqb_spec st' st); [contradiction|lia].
Qed.

Theorem bp_pinv_stamps_ok s : PInv s -> bp_stamps_ok s.
Proof.
  intros HP. split.
  - apply (NoDup_count_occ Nat.eq_dec). intros st.
    pose proof (bp_count_stamps st (lvisit (bl s))) as E. rewrite (lvisit_sum (lw_st st) (bl s)) in E.
    pose proof (pi_st_le s HP st). unfold bp_stcount in *. lia.
  - apply Forall_forall. intros st Hst. destruct (Nat.lt_ge_cases st (lnext (bl s))) as [H|H]; [exact H|exfalso].
    apply (count_occ_In Nat.eq_dec) in Hst.
    pose proof (bp_count_stamps st (lvisit (bl s))) as E. rewrite (lvisit_sum (lw_st st) (bl s)) in E.
    pose proof (pi_st_fresh s HP st H). unfold bp_stcount in *. lia.
Qed.

Print Assumptions bp_run_pinv.
Print Assumptions bp_pinv_stamps_ok.
