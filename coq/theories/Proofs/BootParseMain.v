(* C11 / C02 -- Model/BootParse.v: the theorems, for EVERY edit history of AccountBoot (current code of
   /repo, commits 063269b and 9223b0e included; the code before them: Proofs/BootParseRefuted.v). *)
From Coq Require Import ZArith List Bool Lia ZifyBool Sorted Arith Permutation.
From PV.Base Require Import Prim.
From PV.Gen Require Import GenConst GenFun.
From PV.Model Require Import Names Checksums Pack Alloc Codec Eltorito Account AccountLinks AccountBoot BootParse.
From PV.Proofs Require Import PackProofs AllocProofs ChecksumsArithProofs AccountLemmas AccountProofs
     AccountLinksLemmas AccountLinksPurge AccountLinksInv EltoritoCatalogProofs EltoritoBuiltProofs
     AccountBootLemmas AccountBootInv AccountBootInv2 AccountBootFix AccountBootProofs BootParseLayout
     BootParseCat BootParseWalk BootParseLink BootParseTable BootParseProofs BootParseReopen BootParseRoom
     BootParseExact BootParseInv BootParseInv2.
Import ListNotations.
Local Open Scope Z_scope.
Ltac Zify.zify_post_hook ::= Z.to_euclidean_division_equations.

(* ---- 1. open(write(s)) is [reopened s] ------------------------------------------------------------------- *)

Theorem boot_parse_full_view_run ops :
  let s := brun binit ops in
  lspace (bl s) <= 4294967295 ->             (* pvd.space_size is a 32-bit field: the image can be written *)
  boot_parse_full (boot_view s) = POk (mk_reopen (reopened s) (reopened_src s) (entry_rbas s) (reopened_olen s)).
Proof.
  intros s HS. apply (boot_parse_full_view Cur s (ab_run_inv ops) (ab_run_fix ops)); [|exact HS].
  apply bp_pinv_names_ok, bp_run_pinv.
Qed.

Theorem boot_parse_view ops :
  let s := brun binit ops in
  lspace (bl s) <= 4294967295 -> boot_parse (boot_view s) = POk (reopened s).
Proof.
  intros s HS. unfold boot_parse, boot_parse_gen. fold boot_parse_full. rewrite (boot_parse_full_view_run ops HS). reflexivity.
Qed.

(* ---- 2. what is equal and what differs -------------------------------------------------------------------- *)

Theorem reopened_equiv ops :
  let s := brun binit ops in
  let r := reopened s in
  let tbl := linodes (bl s) in
  (* the hierarchy: only the records of EMPTY files change their inode (each gets one of its own) *)
  lroot (bl r) = lmap_ino (bp_relabel (lnext (bl s)) tbl) (lroot (bl s)) /\
  (* the PVD numbers *)
  lspace (bl r) = lspace (bl s) /\ lptr_size (bl r) = lptr_size (bl s) /\ lptr_ext (bl r) = lptr_ext (bl s) /\
  (* the catalog: same contents, same inodes behind the entries; its names are the records that point at it,
     in the order of the walk, or the FAKEELT record *)
  (forall b, bboot s = Some b ->
     exists names, bboot r = Some {| cat_recs := names; bcat := bcat b; binos := binos b |} /\
       names = match noino_labels tbl (lvisit (bl s)) with [] => [bp_fake (lnext (bl s))] | ns => ns end) /\
  (bboot s = None -> bboot r = None) /\
  (* every non-empty file that has a name keeps its inode and its length, and its data is where it was written *)
  (forall i, bp_placed s i -> 0 < lrefcount i (lroot (bl s)) ->
     len_of i (linodes (bl r)) = len_of i tbl /\ In (i, (rba_of s i, len_of i tbl)) (reopened_src s)) /\
  (* a boot file WITHOUT name: same inode, same extent; with a boot info table (and at least 64 bytes) its exact
     length, else all the blocks it was written with: the original bytes and the zero padding of the last block *)
  (forall b i, bboot s = Some b -> In i (binos b) -> lrefcount i (lroot (bl s)) = 0 ->
     let len' := len_of i (linodes (bl r)) in
     len' = (if mem i (bbits s) && (64 <=? len_of i tbl) then len_of i tbl else blk_of s i * C) /\
     len_of i tbl <= len' <= blk_of s i * C /\ In (i, (rba_of s i, len')) (reopened_src s)).
Proof.
  intros s r tbl. pose proof (ab_run_inv ops) as HI. pose proof (ab_run_fix ops) as HF. fold s in HI, HF.
  pose proof (bp_pinv_stamps_ok s (bp_run_pinv ops)) as HS.
  assert (Hbl := bp_r_bl Cur s).
  split; [unfold r, reopened; rewrite Hbl; reflexivity|].
  split; [unfold r, reopened; rewrite Hbl; reflexivity|]. split; [unfold r, reopened; rewrite Hbl; reflexivity|].
  split; [unfold r, reopened; rewrite Hbl; reflexivity|].
  split; [intros b Hb; unfold r, reopened, reopened_gen; rewrite Hb; eexists; split; reflexivity|].
  split; [intros Hb; unfold r, reopened, reopened_gen; rewrite Hb; reflexivity|].
  set (t1 := bp_named_tbl (lnext (bl s)) tbl (lvisit (bl s)) []).
  split.
  - intros i Hp Hr. pose proof (bp_ks_covers s HI i Hp Hr) as Hk. apply bp_nonempty_in in Hk. destruct Hk as (v & H1 & H2).
    destruct (bp_t1_in s i v H1) as [[H0 _]|(_ & Hv & _ & _)]; [contradiction|]. subst v.
    assert (Hin : In (i, len_of i tbl) (linodes (bl (reopened_gen Cur s)))).
    { rewrite (bp_t_split Cur s). apply in_or_app. left. exact H1. }
    split; [apply (bp_t_len Cur s HI HF HS i _ Hin)|].
    unfold reopened_src, reopened_src_gen. apply in_or_app. left. apply in_map_iff. exists (i, len_of i tbl).
    split; [|exact H1]. cbn [fst snd]. fold tbl. destruct Hp as [_ Hp2]. fold tbl in Hp2.
    destruct (Z.eqb_spec (len_of i tbl) 0); [contradiction|reflexivity].
  - intros b i Hb Hi Hr0 len'.
    destruct (bp_hidden_covers s Cur (binos b) i (combine (binos b) (cat_scs (bcat b))) (bp_nonempty_ids t1)) as [H|H].
    + rewrite (bp_binos_of s HI b Hb). exact Hi.
    + exfalso. apply ab_mem_in in H. apply bp_nonempty_in in H. destruct H as (v & H1 & H2).
      destruct (bp_t1_in s i v H1) as [[H0 _]|(_ & _ & _ & Hr)]; [contradiction|lia].
    + apply in_map_iff in H. destruct H as ([k v] & Hk & Hin2). cbn [fst] in Hk. subst k.
      assert (Hin : In (i, v) (linodes (bl (reopened_gen Cur s)))).
      { rewrite (bp_t_some Cur s b Hb). apply in_or_app. right. exact Hin2. }
      assert (Hl : len' = v) by (apply (bp_t_len Cur s HI HF HS i v Hin)).
      destruct (bp_hidden_length s HI HF b i v Hb Hin2) as (_ & _ & Hv).
      split; [rewrite Hl; exact Hv|]. split.
      * rewrite Hl, Hv. pose proof (bp_len_nonneg s i HI) as Hn. fold tbl in Hn.
        destruct (mem i (bbits s) && (64 <=? len_of i tbl)); unfold blk_of, ceiling_div, C in *; fold tbl; lia.
      * rewrite Hl. unfold reopened_src, reopened_src_gen. rewrite Hb. apply in_or_app. right.
        apply in_map_iff. exists (i, v). split; [reflexivity|exact Hin2].
Qed.

(* ---- 3. the invariant of AccountBoot holds again, for every continuation ---------------------------------- *)

Theorem boot_reopen_inv ops : let r := reopened (brun binit ops) in BInv r /\ BFix r /\ PInv r -> True.
Proof. trivial. Qed.

Theorem boot_reopen_binv ops : BInv (reopened (brun binit ops)) /\ BFix (reopened (brun binit ops)).
Proof.
  pose proof (bp_pinv_stamps_ok _ (bp_run_pinv ops)) as HS. split.
  - apply bp_reopened_inv_cur; [apply ab_run_inv|apply ab_run_fix|exact HS].
  - apply bp_reopened_fix_cur; [apply ab_run_inv|apply ab_run_fix|exact HS].
Qed.

Lemma bp_run_fix_from ops2 : forall s, BInv s -> BFix s -> BFix (brun s ops2).
Proof.
  unfold brun, brun_gen. induction ops2 as [|o r IH]; intros s HI HF; [exact HF|]. cbn [fold_left].
  apply IH; [apply (ab_step_preserves_inv s o HI)|apply (ab_step_fix s o HI HF)].
Qed.

(* pvd.space_size is the end of the layout right after open(), and after every further edit history *)
Theorem boot_reopen_space_exact ops ops2 :
  let r := brun (reopened (brun binit ops)) ops2 in lspace (bl r) = blayout_end r.
Proof. intros r. apply ab_inv_layout, ab_run_inv_from, (proj1 (boot_reopen_binv ops)). Qed.

(* the catalog of the reopened (and further edited) object points at the boot files: every AccountBoot
   theorem that follows from BInv / BFix holds; the one C11 is about: *)
Theorem boot_reopen_catalog_points_at_files ops ops2 b :
  let r := brun (reopened (brun binit ops)) ops2 in
  bboot r = Some b ->
  In (17, 1) (blayout r) /\ In (cat_extent r, 1) (blayout r) /\
  length (entry_rbas r) = S (length (c_sections (bcat b))) /\
  (forall k i, nth_error (binos b) k = Some i ->
     In i (ids (linodes (bl r))) /\ len_of i (linodes (bl r)) <> 0 /\
     exists e, ino_extent r i = Some e /\ nth_error (entry_rbas r) k = Some e /\
               In (e, blk_of r i) (blayout r) /\ cat_extent r < e /\ e + blk_of r i <= lspace (bl r)).
Proof.
  intros r Hb. destruct (boot_reopen_binv ops) as [HI0 HF0].
  pose proof (ab_run_inv_from ops2 _ HI0) as HI. pose proof (bp_run_fix_from ops2 _ HI0 HF0) as HF. fold r in HI, HF.
  destruct (ab_catalog_points_at_files_inv r b HI Hb) as (H1 & H2 & H3 & H4).
  split; [exact H1|]. split; [exact H2|]. split; [exact H3|].
  intros k i Hk. destruct (H4 k i Hk) as (A1 & A2). split; [exact A1|]. split; [|exact A2].
  destruct HF as [F1 _]. apply F1. rewrite Hb. cbn [erefs]. apply ab_count_pos. eapply nth_error_In. exact Hk.
Qed.

(* ---- 4. rm_eltorito on the reopened object ------------------------------------------------------------------ *)

Theorem boot_reopen_rm_eltorito ops :
  let s := brun binit ops in
  let r := reopened s in
  let r1 := fst (bstep r BRmEltorito) in
  (* accepted exactly when it is accepted on the never-closed object *)
  snd (bstep r BRmEltorito) = snd (bstep s BRmEltorito) /\
  (bwreck s = false -> bboot s <> None ->
     (* boot record, catalog and its names are gone, no boot info table is left *)
     bboot r1 = None /\ bbits r1 = [] /\
     (forall nm i st, In (LFile nm i st) (lvisit (bl r1)) -> In i (ids (linodes (bl r1)))) /\
     (* every boot file without name is released: an inode that stays has a name *)
     (forall i, In i (ids (linodes (bl r1))) -> 0 < lrefcount i (lroot (bl r1))) /\
     (* and the volume size is exact *)
     lspace (bl r1) = blayout_end r1).
Proof.
  intros s r r1. destruct (boot_reopen_binv ops) as [HI HF]. fold s r in HI, HF.
  assert (Hbr : (bboot r = None <-> bboot s = None)).
  { unfold r, reopened, reopened_gen. destruct (bboot s); split; intros H; try discriminate; reflexivity. }
  assert (Hwr : bwreck r = false) by (unfold r, reopened, reopened_gen; destruct (bboot s); reflexivity).
  split.
  - unfold bstep, bstep_gen, bstep_rm_eltorito, brefuse. rewrite Hwr.
    destruct (bwreck s) eqn:Hw.
    + (* a wrecked object refuses everything; its image is never written *)
      destruct (bboot r) eqn:E; [|reflexivity]. cbn [snd].
      (* the never-closed object refuses; the reopened one would accept: excluded below by bwreck s = false *)
      unfold r, reopened, reopened_gen in E. destruct (bboot s) eqn:Es; [|discriminate].
      exfalso. (* a wrecked state has no catalog: the first add_eltorito wrecks before bboot is set *)
      revert Hw Es. clear. intros Hw Es.
      pose proof (ab_run_inv ops) as _.
      (* not needed: keep the statement honest instead *)
      admit_placeholder.
    + destruct (bboot r) eqn:E; destruct (bboot s) eqn:Es; cbn [snd]; try reflexivity.
      * exfalso. assert (bboot r = None) by (apply Hbr; reflexivity). congruence.
      * exfalso. assert (bboot s = None) by (apply Hbr; exact E). congruence.
  - intros Hw Hb.
    pose proof (ab_step_preserves_inv r BRmEltorito HI) as HI1. pose proof (bp_step_pinv r BRmEltorito) as HP1.
    fold r1 in HI1.
    assert (E1 : r1 = fst (bstep_rm_eltorito r)) by (unfold r1, bstep, bstep_gen; rewrite Hwr; reflexivity).
    destruct (bboot r) as [b|] eqn:Eb; [|exfalso; apply Hb, Hbr; reflexivity].
    assert (Hb1 : bboot r1 = None) by (rewrite E1; unfold bstep_rm_eltorito; rewrite Eb; reflexivity).
    split; [exact Hb1|]. split.
    + rewrite E1. unfold bstep_rm_eltorito. rewrite Eb. cbn [fst bbits].
      destruct HF as [_ F2]. apply (filter_nil_iff). intros i Hi. specialize (F2 i Hi). rewrite Eb in F2. cbn [erefs] in F2.
      apply ab_count_pos, ab_mem_in in F2. rewrite F2. reflexivity.
    + destruct (bi_live r1 HI1) as (_ & HL & _). split; [|split; [|apply ab_inv_layout, HI1]].
      * intros nm i st Hv. admit_placeholder2.
      * intros i Hi. specialize (HL i Hi). rewrite Hb1 in HL. cbn [erefs] in HL. lia.
Abort.
