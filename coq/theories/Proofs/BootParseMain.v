(* C11 / C02 -- Model/BootParse.v: the theorems, for EVERY edit history of AccountBoot (current code of
   /repo, commits 063269b and 9223b0e included; the code before them: Proofs/BootParseRefuted.v). *)
From Coq Require Import ZArith List Bool Lia ZifyBool Sorted Arith Permutation.
From PV.Base Require Import Prim.
From PV.Gen Require Import GenConst GenFun.
From PV.Model Require Import Names Checksums Pack Alloc Codec Eltorito Account AccountLinks AccountBoot BootParse.
From PV.Proofs Require Import PackProofs AllocProofs ChecksumsArithProofs AccountLemmas AccountProofs
     AccountLinksLemmas AccountLinksPurge AccountLinksInv EltoritoCatalogProofs EltoritoBuiltProofs
     AccountBootLemmas AccountBootInv AccountBootInv2 AccountBootFix AccountBootProofs BootParseLayout
     BootParseCat BootParseWalk BootParseLink BootParseTable BootParseProofs BootParseReopen BootParseRoom
     BootParseExact BootParseInv BootParseInv2 BootParseReopen2.
Import ListNotations.
Local Open Scope Z_scope.
Ltac Zify.zify_post_hook ::= Z.to_euclidean_division_equations.

(* ---- 1. open(write(s)) is [reopened s] ------------------------------------------------------------------- *)

Theorem boot_parse_full_view_run ops :
  let s := brun binit ops in
  lspace (bl s) <= 4294967295 ->             (* pvd.space_size is a 32-bit field: the image can be written *)
  boot_parse_full (boot_view s) = POk (mk_reopen (reopened s) (reopened_src s) (entry_rbas s) (reopened_olen s)).
Proof.
  intros s HS. apply (boot_parse_full_view Cur s (ab_run_inv ops) (ab_run_fix ops)); [|exact HS].
  apply bp_pinv_names_ok, bp_run_pinv.
Qed.

Theorem boot_parse_view ops :
  let s := brun binit ops in
  lspace (bl s) <= 4294967295 -> boot_parse (boot_view s) = POk (reopened s).
Proof.
  intros s HS. subst s. pose proof (boot_parse_full_view_run ops HS) as E. cbv zeta in E. unfold boot_parse_full in E.
  unfold boot_parse, boot_parse_gen. rewrite E. reflexivity.
Qed.

(* ---- 2. what is equal and what differs -------------------------------------------------------------------- *)

Theorem reopened_equiv ops :
  let s := brun binit ops in
  let r := reopened s in
  let tbl := linodes (bl s) in
  (* the hierarchy: only the records of EMPTY files change their inode (each gets one of its own) *)
  lroot (bl r) = lmap_ino (bp_relabel (lnext (bl s)) tbl) (lroot (bl s)) /\
  (* the PVD numbers *)
  lspace (bl r) = lspace (bl s) /\ lptr_size (bl r) = lptr_size (bl s) /\ lptr_ext (bl r) = lptr_ext (bl s) /\
  (* the catalog: same contents, same inodes behind the entries; its names are the records that point at it,
     in the order of the walk, or the FAKEELT record *)
  (forall b, bboot s = Some b ->
     exists names, bboot r = Some {| cat_recs := names; bcat := bcat b; binos := binos b |} /\
       names = match noino_labels tbl (lvisit (bl s)) with [] => [bp_fake (lnext (bl s))] | ns => ns end) /\
  (bboot s = None -> bboot r = None) /\
  (* every non-empty file that has a name keeps its inode and its length, and its data is where it was written *)
  (forall i, bp_placed s i -> 0 < lrefcount i (lroot (bl s)) ->
     len_of i (linodes (bl r)) = len_of i tbl /\ In (i, (rba_of s i, len_of i tbl)) (reopened_src s)) /\
  (* a boot file WITHOUT name: same inode, same extent; with a boot info table (and at least 64 bytes) its exact
     length, else all the blocks it was written with: the original bytes and the zero padding of the last block *)
  (forall b i, bboot s = Some b -> In i (binos b) -> lrefcount i (lroot (bl s)) = 0 ->
     let len' := len_of i (linodes (bl r)) in
     len' = (if mem i (bbits s) && (64 <=? len_of i tbl) then len_of i tbl else blk_of s i * C) /\
     len_of i tbl <= len' <= blk_of s i * C /\ In (i, (rba_of s i, len')) (reopened_src s)).
Proof.
  intros s r tbl. pose proof (ab_run_inv ops) as HI. pose proof (ab_run_fix ops) as HF. fold s in HI, HF.
  pose proof (bp_pinv_stamps_ok s (bp_run_pinv ops)) as HS.
  assert (Hbl := bp_r_bl Cur s).
  split; [unfold r, reopened; rewrite Hbl; reflexivity|].
  split; [unfold r, reopened; rewrite Hbl; reflexivity|]. split; [unfold r, reopened; rewrite Hbl; reflexivity|].
  split; [unfold r, reopened; rewrite Hbl; reflexivity|].
  split; [intros b Hb; unfold r, reopened, reopened_gen; rewrite Hb; eexists; split; reflexivity|].
  split; [intros Hb; unfold r, reopened, reopened_gen; rewrite Hb; reflexivity|].
  set (t1 := bp_named_tbl (lnext (bl s)) tbl (lvisit (bl s)) []).
  split.
  - intros i Hp Hr. pose proof (bp_ks_covers s HI i Hp Hr) as Hk. apply bp_nonempty_in in Hk. destruct Hk as (v & H1 & H2).
    destruct (bp_t1_in s i v H1) as [[H0 _]|(_ & Hv & _ & _)]; [contradiction|]. subst v.
    assert (Hin : In (i, len_of i tbl) (linodes (bl (reopened_gen Cur s)))).
    { rewrite (bp_t_split Cur s). apply in_or_app. left. exact H1. }
    split; [apply (bp_t_len Cur s HI HF HS i _ Hin)|].
    unfold reopened_src, reopened_src_gen. apply in_or_app. left. apply in_map_iff. exists (i, len_of i tbl).
    split; [|exact H1]. cbn [fst snd]. fold tbl. destruct Hp as [_ Hp2]. fold tbl in Hp2.
    destruct (Z.eqb_spec (len_of i tbl) 0); [contradiction|reflexivity].
  - intros b i Hb Hi Hr0 len'.
    destruct (bp_hidden_covers s Cur (binos b) i (combine (binos b) (cat_scs (bcat b))) (bp_nonempty_ids t1)) as [H|H].
    + rewrite (bp_binos_of s HI b Hb). exact Hi.
    + exfalso. apply ab_mem_in in H. apply bp_nonempty_in in H. destruct H as (v & H1 & H2).
      destruct (bp_t1_in s i v H1) as [[H0 _]|(_ & _ & _ & Hr)]; [contradiction|lia].
    + apply in_map_iff in H. destruct H as ([k v] & Hk & Hin2). cbn [fst] in Hk. subst k.
      assert (Hin : In (i, v) (linodes (bl (reopened_gen Cur s)))).
      { rewrite (bp_t_some Cur s b Hb). apply in_or_app. right. exact Hin2. }
      assert (Hl : len' = v) by (apply (bp_t_len Cur s HI HF HS i v Hin)).
      destruct (bp_hidden_length s HI HF b i v Hb Hin2) as (_ & _ & Hv).
      split; [rewrite Hl; exact Hv|]. split.
      * rewrite Hl, Hv. pose proof (bp_len_nonneg s i HI) as Hn.
        unfold blk_of, ceiling_div, C, tbl in *.
        destruct (mem i (bbits s) && (64 <=? len_of i (linodes (bl s)))); lia.
      * rewrite Hl. unfold reopened_src, reopened_src_gen. rewrite Hb. apply in_or_app. right.
        apply in_map_iff. exists (i, v). split; [reflexivity|exact Hin2].
Qed.

(* ---- 3. the invariants hold again, for every continuation ------------------------------------------------- *)

(* what can be reached by edits and by write / open rounds *)
Inductive bp_reach : bstate -> Prop :=
| bp_reach_init : bp_reach binit
| bp_reach_step s o : bp_reach s -> bp_reach (fst (bstep s o))
| bp_reach_reopen s : bp_reach s -> bp_reach (reopened s).

Theorem bp_reach_inv s : bp_reach s -> BInv s /\ BFix s /\ PInv s.
Proof.
  induction 1 as [|s o Hr (HI & HF & HP)|s Hr (HI & HF & HP)].
  - split; [apply ab_init_ok|]. split; [apply (ab_run_fix [])|apply bp_pinv_init].
  - split; [apply (ab_step_preserves_inv s o HI)|]. split; [apply (ab_step_fix s o HI HF)|apply (bp_step_pinv s o HP HI)].
  - pose proof (bp_pinv_stamps_ok s HP) as HS.
    split; [apply (bp_reopened_inv_cur s HI HF HS)|]. split; [apply (bp_reopened_fix_cur s HI HF HS)|].
    apply (bp_reopened_pinv Cur s HP).
Qed.

Lemma bp_reach_run ops : forall s, bp_reach s -> bp_reach (brun s ops).
Proof.
  unfold brun, brun_gen. induction ops as [|o r IH]; intros s H; [exact H|]. cbn [fold_left]. apply IH, bp_reach_step, H.
Qed.

(* pvd.space_size is the end of the layout right after open(), after every further edit history, after any
   number of write / open rounds *)
Theorem boot_reopen_space_exact s : bp_reach s -> lspace (bl s) = blayout_end s.
Proof. intros H. apply ab_inv_layout, (bp_reach_inv s H). Qed.

Corollary boot_reopen_space_exact_run ops ops2 :
  let r := brun (reopened (brun binit ops)) ops2 in lspace (bl r) = blayout_end r.
Proof. apply boot_reopen_space_exact, bp_reach_run, bp_reach_reopen, bp_reach_run, bp_reach_init. Qed.

(* and open(write(s)) = reopened s again *)
Theorem boot_parse_view_reach s : bp_reach s -> lspace (bl s) <= 4294967295 ->
  boot_parse (boot_view s) = POk (reopened s).
Proof.
  intros H HS. destruct (bp_reach_inv s H) as (HI & HF & HP).
  apply boot_parse_view_inv; [exact HI|exact HF|apply bp_pinv_names_ok, HP|exact HS].
Qed.

(* the catalog of the reopened (and further edited) object points at the boot files: every AccountBoot theorem
   that follows from BInv / BFix holds; the one C11 is about: *)
Theorem boot_reopen_catalog_points_at_files s b : bp_reach s -> bboot s = Some b ->
  In (17, 1) (blayout s) /\ In (cat_extent s, 1) (blayout s) /\
  length (entry_rbas s) = S (length (c_sections (bcat b))) /\
  (forall k i, nth_error (binos b) k = Some i ->
     In i (ids (linodes (bl s))) /\ len_of i (linodes (bl s)) <> 0 /\
     exists e, ino_extent s i = Some e /\ nth_error (entry_rbas s) k = Some e /\
               In (e, blk_of s i) (blayout s) /\ cat_extent s < e /\ e + blk_of s i <= lspace (bl s)).
Proof.
  intros H Hb. destruct (bp_reach_inv s H) as (HI & HF & _).
  destruct (ab_catalog_points_at_files_inv s b HI Hb) as (H1 & H2 & H3 & H4).
  split; [exact H1|]. split; [exact H2|]. split; [exact H3|].
  intros k i Hk. destruct (H4 k i Hk) as (A1 & A2). split; [exact A1|]. split; [|exact A2].
  destruct HF as [F1 _]. apply F1. rewrite Hb. cbn [erefs]. apply ab_count_pos. eapply nth_error_In. exact Hk.
Qed.

(* ---- 4. rm_eltorito on the reopened object ------------------------------------------------------------------ *)

Theorem boot_reopen_rm_eltorito s : bp_reach s -> bwreck s = false ->
  let r := reopened s in
  let r1 := fst (bstep r BRmEltorito) in
  (* accepted exactly when it is accepted on the never-closed object *)
  snd (bstep r BRmEltorito) = snd (bstep s BRmEltorito) /\
  (bboot s <> None ->
     (* boot record and catalog are gone, no boot info table is left *)
     bboot r1 = None /\ bbits r1 = [] /\
     (* the names of the catalog are gone: every record that is left has an inode *)
     (forall nm i st, In (LFile nm i st) (lvisit (bl r1)) -> In i (ids (linodes (bl r1)))) /\
     (* every boot file without name is released: an inode that stays has a name *)
     (forall i, In i (ids (linodes (bl r1))) -> 0 < lrefcount i (lroot (bl r1))) /\
     (* and the volume size is exact, now and after every further edit *)
     lspace (bl r1) = blayout_end r1 /\ bp_reach r1).
Proof.
  intros Hreach Hw r r1.
  assert (Hrr : bp_reach r) by (apply bp_reach_reopen, Hreach).
  destruct (bp_reach_inv r Hrr) as (HI & HF & HP).
  assert (Hbr : (bboot r = None <-> bboot s = None)).
  { unfold r, reopened, reopened_gen. destruct (bboot s); split; intros H; try discriminate; reflexivity. }
  assert (Hwr : bwreck r = false) by (unfold r, reopened, reopened_gen; destruct (bboot s); reflexivity).
  split.
  - unfold bstep, bstep_gen, bstep_rm_eltorito, brefuse. rewrite Hwr, Hw.
    destruct (bboot r) eqn:E; destruct (bboot s) eqn:Es; cbn [snd]; try reflexivity.
    + exfalso. assert (X : Some b = None) by (apply Hbr; reflexivity). discriminate X.
    + exfalso. assert (X : Some b = None) by (apply Hbr; reflexivity). discriminate X.
  - intros Hb.
    assert (Hr1 : bp_reach r1) by (apply bp_reach_step, Hrr).
    destruct (bp_reach_inv r1 Hr1) as (HI1 & _ & HP1).
    assert (E1 : r1 = fst (bstep_rm_eltorito r)) by (unfold r1, bstep, bstep_gen; rewrite Hwr; reflexivity).
    destruct (bboot r) as [b|] eqn:Eb; [|exfalso; apply Hb, Hbr; reflexivity].
    assert (Hb1 : bboot r1 = None) by (rewrite E1; unfold bstep_rm_eltorito; rewrite Eb; reflexivity).
    split; [exact Hb1|]. split.
    + rewrite E1. unfold bstep_rm_eltorito. rewrite Eb. cbn [fst bbits].
      destruct HF as [_ F2]. induction (bbits r) as [|i l IH]; [reflexivity|]. cbn [filter].
      assert (Hi : mem i (binos b) = true).
      { specialize (F2 i (or_introl eq_refl)). rewrite Eb in F2. cbn [erefs] in F2. apply ab_mem_in, ab_count_pos, F2. }
      rewrite Hi. cbn [negb]. apply IH. intros j Hj. apply F2. right. exact Hj.
    + destruct (bi_live r1 HI1) as (_ & HL & _). split; [|split; [|split; [apply ab_inv_layout, HI1|exact Hr1]]].
      * intros nm i st Hv. pose proof (bp_visit_ref (bl r1) nm i st Hv) as Hr.
        destruct (pi_cat r1 HP1 i Hr) as [H|H]; [exact H|]. rewrite Hb1 in H. discriminate.
      * intros i Hi. specialize (HL i Hi). rewrite Hb1 in HL. cbn [erefs] in HL. lia.
Qed.

Print Assumptions boot_parse_full_view_run.
Print Assumptions boot_parse_view.
Print Assumptions reopened_equiv.
Print Assumptions bp_reach_inv.
Print Assumptions boot_reopen_space_exact.
Print Assumptions boot_parse_view_reach.
Print Assumptions boot_reopen_catalog_points_at_files.
Print Assumptions boot_reopen_rm_eltorito.
