(* The hand model of the directory packing loop (Model/Pack.v: nf, nf_pos) IS the translated
   source of DirectoryRecord._recalculate_extents_and_offsets (Gen/GenObj.v: dr_recalculate,
   regenerated from /repo on every run).  All theorems of PackProofs.v about nf / nf_pos
   therefore speak about what the source says now; a change of the comparison, of the reset or
   of the cached attributes in dr.py breaks dr_recalculate_spec. *)
From Coq Require Import ZArith List Lia.
From PV.Base Require Import Prim Upd.
From PV.Gen Require Import GenObj.
From PV.Model Require Import Pack.
Import ListNotations.
Local Open Scope Z_scope.

(* one iteration of the translated loop, as it appears in dr_recalculate *)
Definition body (lens : list Z) (C : Z) :=
  (fun '(num_extents, dirrecord_offset, children_extents_to_here, children_offset_to_here, children_index_in_parent) i =>
     let dirrecord_len := (znth i lens) in
     let '(num_extents, dirrecord_offset) :=
       (if (Z.gtb (Z.add dirrecord_offset dirrecord_len) C)
        then let num_extents := (Z.add num_extents 1) in let dirrecord_offset := 0 in (num_extents, dirrecord_offset)
        else (num_extents, dirrecord_offset)) in
     let dirrecord_offset := (Z.add dirrecord_offset dirrecord_len) in
     let children_extents_to_here := (zupd i num_extents children_extents_to_here) in
     let children_offset_to_here := (zupd i dirrecord_offset children_offset_to_here) in
     let children_index_in_parent := (zupd i i children_index_in_parent) in
     (num_extents, dirrecord_offset, children_extents_to_here, children_offset_to_here, children_index_in_parent)).

Lemma znth_app_mid pre x r : znth (zlen pre) (pre ++ x :: r) = x.
Proof.
  unfold znth, zlen. rewrite Nat2Z.id, app_nth2 by lia.
  replace (length pre - length pre)%nat with 0%nat by lia. reflexivity.
Qed.

Lemma firstn_zlen_app {A} (pre r : list A) : firstn (Z.to_nat (zlen pre)) (pre ++ r) = pre.
Proof.
  unfold zlen. rewrite Nat2Z.id, firstn_app, firstn_all.
  replace (length pre - length pre)%nat with 0%nat by lia. cbn [firstn]. apply app_nil_r.
Qed.

Lemma loop_spec C : forall r pre n off E O I,
  length E = length (pre ++ r) -> length O = length (pre ++ r) -> length I = length (pre ++ r) ->
  fold_left (body (pre ++ r) C) (zrange (zlen pre) (zlen (pre ++ r)) 1) (n, off, E, O, I) =
  (fst (nf C n off r), snd (nf C n off r),
   firstn (length pre) E ++ map fst (nf_pos C n off r),
   firstn (length pre) O ++ map snd (nf_pos C n off r),
   firstn (length pre) I ++ zrange (zlen pre) (zlen (pre ++ r)) 1).
Proof.
  induction r as [|x r IH]; intros pre n off E O I HE HO HI.
  - rewrite app_nil_r in *. rewrite zrange_empty by lia. cbn [fold_left nf nf_pos map fst snd].
    rewrite !app_nil_r. rewrite !firstn_all2 by lia. reflexivity.
  - assert (Hlt : zlen pre < zlen (pre ++ x :: r)) by (rewrite zlen_app, zlen_cons; pose proof (zlen_nonneg r); lia).
    rewrite (zrange_step _ _ Hlt). cbn [fold_left].
    assert (Hreassoc : pre ++ x :: r = (pre ++ [x]) ++ r) by (rewrite <- app_assoc; reflexivity).
    assert (Hz : zlen pre + 1 = zlen (pre ++ [x])) by (rewrite zlen_app, zlen_cons, zlen_nil; lia).
    unfold body at 2. rewrite znth_app_mid.
    assert (Hin : forall L : list Z, length L = length (pre ++ x :: r) -> 0 <= zlen pre < zlen L).
    { intros L HL. unfold zlen in *. rewrite HL. lia. }
    assert (Hfs : forall (L : list Z) v, length L = length (pre ++ x :: r) ->
              firstn (length (pre ++ [x])) (zupd (zlen pre) v L) = firstn (length pre) L ++ [v]).
    { intros L v HL. rewrite app_length; cbn [length]. replace (length pre + 1)%nat with (S (length pre)) by lia.
      pose proof (zupd_firstn_S (zlen pre) v L (Hin L HL)) as Hf.
      unfold zlen in Hf at 1 3. rewrite Nat2Z.id in Hf. exact Hf. }
    cbn [nf nf_pos].
    destruct (off + x >? C) eqn:Ecmp; cbn [map fst snd].
    + rewrite Hz, Hreassoc. rewrite IH.
      * rewrite !Hfs by assumption. rewrite <- !app_assoc. cbn [app].
        reflexivity.
      * rewrite zupd_length by (apply Hin; assumption). rewrite <- Hreassoc; assumption.
      * rewrite zupd_length by (apply Hin; assumption). rewrite <- Hreassoc; assumption.
      * rewrite zupd_length by (apply Hin; assumption). rewrite <- Hreassoc; assumption.
    + rewrite Hz, Hreassoc. rewrite IH.
      * rewrite !Hfs by assumption. rewrite <- !app_assoc. cbn [app].
        reflexivity.
      * rewrite zupd_length by (apply Hin; assumption). rewrite <- Hreassoc; assumption.
      * rewrite zupd_length by (apply Hin; assumption). rewrite <- Hreassoc; assumption.
      * rewrite zupd_length by (apply Hin; assumption). rewrite <- Hreassoc; assumption.
Qed.

(* the state the loop starts from, as the source computes it *)
Definition start (offs exts : list Z) (index : Z) : Z * Z :=
  if index =? 0 then (1, 0) else (znth (index - 1) exts, znth (index - 1) offs).

Theorem dr_recalculate_spec : forall C pre r offs exts idxs,
  length offs = length (pre ++ r) -> length exts = length (pre ++ r) -> length idxs = length (pre ++ r) ->
  let n0 := fst (start offs exts (zlen pre)) in
  let off0 := snd (start offs exts (zlen pre)) in
  dr_recalculate (pre ++ r) offs exts idxs (zlen pre) C =
  (nf C n0 off0 r,
   firstn (length pre) offs ++ map snd (nf_pos C n0 off0 r),
   firstn (length pre) exts ++ map fst (nf_pos C n0 off0 r),
   firstn (length pre) idxs ++ zrange (zlen pre) (zlen (pre ++ r)) 1).
Proof.
  intros C pre r offs exts idxs HO HE HI n0 off0.
  unfold dr_recalculate.
  change (Z.of_nat (length (pre ++ r))) with (zlen (pre ++ r)).
  assert (Hst : (if zlen pre =? 0 then (0, 1)
                 else (znth (zlen pre - 1) offs, znth (zlen pre - 1) exts)) = (off0, n0)).
  { subst n0 off0. unfold start. destruct (zlen pre =? 0); reflexivity. }
  cbv zeta. rewrite Hst.
  change (fold_left _ (zrange (zlen pre) (zlen (pre ++ r)) 1) (n0, off0, exts, offs, idxs))
    with (fold_left (body (pre ++ r) C) (zrange (zlen pre) (zlen (pre ++ r)) 1) (n0, off0, exts, offs, idxs)).
  rewrite loop_spec by assumption.
  destruct (nf C n0 off0 r) as [a b]. reflexivity.
Qed.

(* index = 0 (what _add_child / remove_child use after an insertion at the front, and what a
   from-scratch recomputation amounts to): the cached values are Pack.cached, the result is
   (Pack.num_extents, Pack.last_offset), every index_in_parent is its position. *)
Corollary dr_recalculate_from_zero : forall C lens offs exts idxs,
  length offs = length lens -> length exts = length lens -> length idxs = length lens ->
  dr_recalculate lens offs exts idxs 0 C =
  ((num_extents C lens, last_offset C lens),
   map snd (cached C lens), map fst (cached C lens), zrange 0 (zlen lens) 1).
Proof.
  intros C lens offs exts idxs HO HE HI.
  pose proof (dr_recalculate_spec C [] lens offs exts idxs HO HE HI) as H.
  cbv zeta in H. cbn [app length firstn] in H. change (zlen (@nil Z)) with 0 in H.
  unfold start in H. cbn [Z.eqb fst snd] in H.
  rewrite H. unfold num_extents, last_offset, cached.
  destruct (nf C 1 0 lens); reflexivity.
Qed.

Print Assumptions dr_recalculate_spec.
Print Assumptions dr_recalculate_from_zero.
