(* Parse: what an empty answer of the harness checker Parse.bad_parse_cases means. *)
From Coq Require Import ZArith List Bool Lia.
From PV.Base Require Import Prim.
From PV.Model Require Import Codec Pack PathTable Master Parse.
Import ListNotations.
Local Open Scope Z_scope.

Lemma bad_parse_cases_nil cs : forall k, bad_parse_cases k cs = [] -> forallb ps_case_ok cs = true.
Proof.
  induction cs as [|c cs IH]; intros k H; [reflexivity|]. cbn [bad_parse_cases forallb] in *.
  destruct (ps_case_ok c); [|discriminate]. exact (IH (S k) H).
Qed.

(* a case that passes: the model parser returned a graph on the REAL bytes, the graph is the one read off
   the opened pycdlib object, and the model of write_fp on it agrees with what the library wrote *)
Lemma ps_case_ok_parse ot dt re rl ptr isz expected eg fix_flag :
  ps_case_ok (ot, dt, (re, rl), ptr, isz, expected, eg, fix_flag) = true ->
  let img := map (fun x : Z * list (Z * list Z) => (fst x, ms_unrle (snd x))) expected in
  exists g, parse (S (length img)) img ptr isz re rl = POk g /\ ps_graph_eqb g eg = true.
Proof.
  unfold ps_case_ok. cbv zeta.
  destruct (parse _ _ ptr isz re rl) as [g| | |]; try discriminate.
  intros H. exists g. split; [reflexivity|].
  apply andb_prop in H. destruct H as [H _]. apply andb_prop in H. exact (proj1 H).
Qed.

Print Assumptions bad_parse_cases_nil.
Print Assumptions ps_case_ok_parse.
