(* Proofs about Model/Codec.v: byte-level record()/parse() of ISO9660 directory records, path
   table records and the 7-byte directory record date.

   Main results
     le16_dle16 le32_dle32 be16_dbe16 be32_dbe32, *_length, *_bytes, both32_copies_agree
     le32_swab32 / le16_swab16      pycdlib's pack('<', swab(x)) IS the big-endian encoding
     dr_layout, dr_header_len       the encoder's field widths are the generated fmt_dr_widths/size
     dr_header_both                 the header is the ECMA-119 9.1 both-byte-order layout
     dr_roundtrip(_fields)          parse (record r ++ rest) = (r with the trailing pad byte in sysuse, rest)
     dr_len_even dr_len_value dr_len_of_spec dr_len_of_new dr_fits enc_dr_bytes
     dr_record_parse_record         record (parse (record r0)) = record r0
     dr_roundtrip_needs_flags, dr_parse_record_general_refuted   (counterexamples, see there)
     ptr_roundtrip_le/be ptr_le_be_same_content ptr_le_be_same_domain ptr_len_agrees_with_generated
     enc_ptr_be_is_big_endian
     date7_roundtrip date7_roundtrip_year date7_reencode
   All closed under the global context (Print Assumptions at the end). *)
From Coq Require Import ZArith List Bool Lia ZifyBool.
From PV.Base Require Import Prim.
From PV.Gen Require Import GenConst GenFun.
From PV.Model Require Import Codec.
Import ListNotations.
Local Open Scope Z_scope.
Ltac Zify.zify_post_hook ::= Z.to_euclidean_division_equations.

Definition byte (x : Z) : Prop := 0 <= x <= 255.
Definition bytes (l : list Z) : Prop := Forall byte l.
Definition u16 (v : Z) : Prop := 0 <= v <= 65535.
Definition u32 (v : Z) : Prop := 0 <= v <= 4294967295.

Lemma byte_mod v : byte (v mod 256).
Proof. unfold byte. lia. Qed.

Lemma le16_length v : length (le16 v) = 2%nat. Proof. reflexivity. Qed.
Lemma be16_length v : length (be16 v) = 2%nat. Proof. reflexivity. Qed.
Lemma le32_length v : length (le32 v) = 4%nat. Proof. reflexivity. Qed.
Lemma be32_length v : length (be32 v) = 4%nat. Proof. reflexivity. Qed.

Lemma le16_bytes v : bytes (le16 v).
Proof. repeat constructor; apply byte_mod. Qed.
Lemma be16_bytes v : bytes (be16 v).
Proof. repeat constructor; apply byte_mod. Qed.
Lemma le32_bytes v : bytes (le32 v).
Proof. repeat constructor; apply byte_mod. Qed.
Lemma be32_bytes v : bytes (be32 v).
Proof. repeat constructor; apply byte_mod. Qed.

Lemma le16_dle16 v : u16 v -> dle16 (le16 v) = v.
Proof. unfold u16, dle16, le16; cbn [nth]; lia. Qed.
Lemma be16_dbe16 v : u16 v -> dbe16 (be16 v) = v.
Proof. unfold u16, dbe16, be16; cbn [nth]; lia. Qed.
Lemma le32_dle32 v : u32 v -> dle32 (le32 v) = v.
Proof. unfold u32, dle32, le32; cbn [nth]; lia. Qed.
Lemma be32_dbe32 v : u32 v -> dbe32 (be32 v) = v.
Proof. unfold u32, dbe32, be32; cbn [nth]; lia. Qed.

(* decoding any four / two bytes and re-encoding *)
Lemma dle32_le32 a b c d : byte a -> byte b -> byte c -> byte d ->
  le32 (dle32 [a; b; c; d]) = [a; b; c; d].
Proof. unfold byte, le32, dle32; cbn [nth]; intros; repeat f_equal; lia. Qed.
Lemma dle32_be32 a b c d : byte a -> byte b -> byte c -> byte d ->
  be32 (dle32 [a; b; c; d]) = [d; c; b; a].
Proof. unfold byte, be32, dle32; cbn [nth]; intros; repeat f_equal; lia. Qed.
Lemma dle16_le16 a b : byte a -> byte b -> le16 (dle16 [a; b]) = [a; b].
Proof. unfold byte, le16, dle16; cbn [nth]; intros; repeat f_equal; lia. Qed.
Lemma dle16_be16 a b : byte a -> byte b -> be16 (dle16 [a; b]) = [b; a].
Proof. unfold byte, be16, dle16; cbn [nth]; intros; repeat f_equal; lia. Qed.
Lemma dle32_range a b c d : byte a -> byte b -> byte c -> byte d -> u32 (dle32 [a; b; c; d]).
Proof. unfold byte, u32, dle32; cbn [nth]; lia. Qed.
Lemma dle16_range a b : byte a -> byte b -> u16 (dle16 [a; b]).
Proof. unfold byte, u16, dle16; cbn [nth]; lia. Qed.

(* ---- swab ---- *)
Lemma swab32_range v : u32 (swab32 v).
Proof. unfold swab32, be32. apply dle32_range; apply byte_mod. Qed.
Lemma swab16_range v : u16 (swab16 v).
Proof. unfold swab16, be16. apply dle16_range; apply byte_mod. Qed.
(* little-endian packing of the swabbed value IS the big-endian packing *)
Lemma le32_swab32 v : le32 (swab32 v) = be32 v.
Proof. unfold swab32, be32. apply dle32_le32; apply byte_mod. Qed.
Lemma le16_swab16 v : le16 (swab16 v) = be16 v.
Proof. unfold swab16, be16. apply dle16_le16; apply byte_mod. Qed.
Lemma swab32_invol v : u32 v -> swab32 (swab32 v) = v.
Proof.
  intros Hv. unfold swab32 at 1. unfold swab32, be32 at 2.
  rewrite dle32_be32 by apply byte_mod.
  change (dle32 (le32 v) = v). apply le32_dle32; exact Hv.
Qed.
Lemma swab16_invol v : u16 v -> swab16 (swab16 v) = v.
Proof.
  intros Hv. unfold swab16 at 1. unfold swab16, be16 at 2.
  rewrite dle16_be16 by apply byte_mod.
  change (dle16 (le16 v) = v). apply le16_dle16; exact Hv.
Qed.

Lemma both32_length v : length (both32 v) = 8%nat. Proof. reflexivity. Qed.
Lemma both16_length v : length (both16 v) = 4%nat. Proof. reflexivity. Qed.
Lemma both32_bytes v : bytes (both32 v).
Proof. apply Forall_app; split; [apply le32_bytes|apply be32_bytes]. Qed.
Lemma both16_bytes v : bytes (both16 v).
Proof. apply Forall_app; split; [apply le16_bytes|apply be16_bytes]. Qed.
Lemma both32_copies_agree v : u32 v ->
  dle32 (firstn 4 (both32 v)) = v /\ dbe32 (skipn 4 (both32 v)) = v.
Proof. intros Hv. split; [apply (le32_dle32 v Hv)|apply (be32_dbe32 v Hv)]. Qed.
Lemma both16_copies_agree v : u16 v ->
  dle16 (firstn 2 (both16 v)) = v /\ dbe16 (skipn 2 (both16 v)) = v.
Proof. intros Hv. split; [apply (le16_dle16 v Hv)|apply (be16_dbe16 v Hv)]. Qed.
(* what parse checks: '<L'-unpacked second copy, swabbed, equals the first copy *)
Lemma both32_parse_check v : u32 v ->
  dle32 (firstn 4 (both32 v)) = swab32 (dle32 (skipn 4 (both32 v))).
Proof.
  intros Hv. change (dle32 (le32 v) = swab32 (dle32 (be32 v))).
  change (dle32 (be32 v)) with (swab32 v). rewrite swab32_invol, le32_dle32; auto.
Qed.

(* ---- lists ---- *)
Lemma firstn_length_app {A} (a b : list A) : firstn (length a) (a ++ b) = a.
Proof. induction a as [|x a IH]; cbn; [destruct b; reflexivity|rewrite IH; reflexivity]. Qed.
Lemma skipn_length_app {A} (a b : list A) : skipn (length a) (a ++ b) = b.
Proof. induction a as [|x a IH]; cbn; [reflexivity|exact IH]. Qed.
Lemma to_nat_zlen {A} (l : list A) : Z.to_nat (zlen l) = length l.
Proof. unfold zlen. lia. Qed.

Lemma split_concat (fs : list (list Z)) t :
  split_widths (map (@length Z) fs) (concat fs ++ t) = Some (fs, t).
Proof.
  induction fs as [|f fs IH]; cbn [map concat split_widths app]; [reflexivity|].
  rewrite <- app_assoc.
  destruct (Nat.ltb_spec (length (f ++ concat fs ++ t)) (length f)) as [H|H].
  - rewrite app_length in H. lia.
  - rewrite skipn_length_app, firstn_length_app, IH. reflexivity.
Qed.
Lemma split_concat_nil (fs : list (list Z)) :
  split_widths (map (@length Z) fs) (concat fs) = Some (fs, []).
Proof. rewrite <- (app_nil_r (concat fs)) at 1. apply split_concat. Qed.

Lemma pack_s_length n b : length (pack_s n b) = n.
Proof. unfold pack_s. rewrite app_length, firstn_length, repeat_length. lia. Qed.
Lemma pack_s_exact n b : length b = n -> pack_s n b = b.
Proof.
  intros H. unfold pack_s. rewrite <- H, Nat.sub_diag, firstn_all. cbn. apply app_nil_r.
Qed.

(* ---- 7-byte date ---- *)
Lemma date7_layout ys m d h mi s off :
  map (@length Z) (date7_fields ys m d h mi s off) = widths fmt_dr_date_widths.
Proof. reflexivity. Qed.
Lemma date7_len ys m d h mi s off b :
  enc_date7 ys m d h mi s off = Some b -> length b = Z.to_nat fmt_dr_date_size.
Proof.
  unfold enc_date7. destruct (_ && _); [|discriminate]. intros H; inversion H. reflexivity.
Qed.
Lemma s8_roundtrip off : -128 <= off <= 127 -> dec_s8 (enc_s8 off) = off.
Proof. intros H. unfold dec_s8, enc_s8. destruct (off mod 256 <? 128) eqn:E; lia. Qed.
Lemma s8_byte off : byte (enc_s8 off).
Proof. apply byte_mod. Qed.

Theorem date7_roundtrip ys m d h mi s off :
  byte ys -> byte m -> byte d -> byte h -> byte mi -> byte s -> -128 <= off <= 127 ->
  exists b, enc_date7 ys m d h mi s off = Some b /\ length b = 7%nat /\ bytes b /\
            dec_date7 b = Some (ys, m, d, h, mi, s, off).
Proof.
  unfold byte. intros Hy Hm Hd Hh Hmi Hs Ho.
  exists (concat (date7_fields ys m d h mi s off)). unfold enc_date7.
  replace (u8_ok ys && u8_ok m && u8_ok d && u8_ok h && u8_ok mi && u8_ok s && s8_ok off) with true
    by (unfold u8_ok, s8_ok; lia).
  split; [reflexivity|]. split; [reflexivity|]. split.
  - cbn [date7_fields concat app]. unfold bytes.
    repeat (apply Forall_cons; [first [apply s8_byte | unfold byte; lia]|]). apply Forall_nil.
  - unfold dec_date7. rewrite <- (date7_layout ys m d h mi s off), split_concat_nil.
    cbn [date7_fields d8 nth]. rewrite s8_roundtrip by exact Ho. reflexivity.
Qed.

(* calendar-year form (DirectoryRecordDate.new stores tm_year - 1900), ECMA-119 offset range *)
Corollary date7_roundtrip_year y m d h mi s off :
  1900 <= y <= 2155 -> byte m -> byte d -> byte h -> byte mi -> byte s -> -48 <= off <= 52 ->
  exists b, enc_date7_year y m d h mi s off = Some b /\ length b = 7%nat /\
            dec_date7 b = Some (y - 1900, m, d, h, mi, s, off).
Proof.
  intros Hy Hm Hd Hh Hmi Hs Ho. unfold enc_date7_year.
  destruct (date7_roundtrip (y - 1900) m d h mi s off) as (b & H1 & H2 & _ & H4); auto;
    try (unfold byte; lia).
  exists b. auto.
Qed.

(* treating the date as 7 opaque bytes in drec is sound: parse then record is the identity *)
Lemma date7_reencode b : length b = 7%nat -> bytes b ->
  exists ys m d h mi s off, dec_date7 b = Some (ys, m, d, h, mi, s, off) /\
                            enc_date7 ys m d h mi s off = Some b.
Proof.
  intros Hl Hb.
  destruct b as [|b0 [|b1 [|b2 [|b3 [|b4 [|b5 [|b6 [|? ?]]]]]]]]; try discriminate.
  unfold bytes in Hb.
  repeat match goal with H : Forall _ (_ :: _) |- _ => inversion H; clear H; subst end.
  exists b0, b1, b2, b3, b4, b5, (dec_s8 b6). split; [reflexivity|].
  unfold enc_date7, byte in *.
  replace (u8_ok b0 && u8_ok b1 && u8_ok b2 && u8_ok b3 && u8_ok b4 && u8_ok b5 && s8_ok (dec_s8 b6))
    with true by (unfold u8_ok, s8_ok, dec_s8; destruct (b6 <? 128) eqn:E; lia).
  cbn [date7_fields concat app]. repeat f_equal.
  unfold enc_s8, dec_s8. destruct (b6 <? 128) eqn:E; lia.
Qed.

(* ---- directory record: layout ---- *)
Lemma some_inv {A} (x y : A) : Some x = Some y -> x = y.
Proof. congruence. Qed.

Lemma dr_layout dl lf r : map (@length Z) (dr_fields dl lf r) = widths fmt_dr_widths.
Proof. cbn [dr_fields map]. rewrite pack_s_length. reflexivity. Qed.

Lemma length_concat (fs : list (list Z)) : length (concat fs) = fold_right plus 0%nat (map (@length Z) fs).
Proof. induction fs as [|f fs IH]; cbn; [reflexivity|rewrite app_length, IH; reflexivity]. Qed.

Lemma dr_header_len dl lf r : length (concat (dr_fields dl lf r)) = Z.to_nat fmt_dr_size.
Proof. rewrite length_concat, dr_layout. reflexivity. Qed.
Lemma dr_header_zlen dl lf r : zlen (concat (dr_fields dl lf r)) = 33.
Proof. unfold zlen. rewrite dr_header_len. reflexivity. Qed.

(* the header written by record() is the ISO9660 9.1 layout with both-byte-order fields *)
Lemma dr_header_both dl lf r :
  concat (dr_fields dl lf r) =
  [dl; xattr_len r] ++ both32 (extent r) ++ both32 (data_len r) ++ pack_s 7 (date r)
  ++ [flags r; unit_size r; gap_size r] ++ both16 (seqnum r) ++ [lf].
Proof.
  cbn [dr_fields concat]. rewrite !le32_swab32, le16_swab16. unfold both32, both16.
  rewrite <- !app_assoc. reflexivity.
Qed.

Definition pad1 (lf : Z) : nat := Z.to_nat ((fmt_dr_size + lf) mod 2).
Definition pad2 (lf : Z) (r : drec) : nat :=
  Z.to_nat ((fmt_dr_size + zlen (ident r) + (fmt_dr_size + lf) mod 2 + zlen (sysuse r)) mod 2).

Lemma zlen_repeat (x : Z) n : zlen (repeat x n) = Z.of_nat n.
Proof. unfold zlen. rewrite repeat_length. reflexivity. Qed.

(* normal form of record()'s output *)
Lemma enc_dr_raw_eq dl lf r :
  enc_dr_raw dl lf r =
  if dr_ranges_ok dl lf r then
    Some (concat (dr_fields dl lf r) ++ ident r ++ repeat 0 (pad1 lf) ++ sysuse r
          ++ repeat 0 (pad2 lf r))
  else None.
Proof.
  unfold enc_dr_raw. destruct (dr_ranges_ok dl lf r); [|reflexivity].
  cbv zeta.
  match goal with |- Some (?o ++ repeat 0 (Z.to_nat (zlen ?o mod 2))) = _ =>
    replace (Z.to_nat (zlen o mod 2)) with (pad2 lf r) end.
  - rewrite <- !app_assoc. reflexivity.
  - unfold pad2. rewrite !zlen_app, dr_header_zlen, zlen_repeat. unfold fmt_dr_size. f_equal. lia.
Qed.

Lemma enc_dr_raw_zlen dl lf r b : enc_dr_raw dl lf r = Some b ->
  zlen b = 33 + zlen (ident r) + Z.of_nat (pad1 lf) + zlen (sysuse r) + Z.of_nat (pad2 lf r).
Proof.
  rewrite enc_dr_raw_eq. destruct (dr_ranges_ok dl lf r); [|discriminate].
  intros H; apply some_inv in H; subst b.
  rewrite !zlen_app, dr_header_zlen, !zlen_repeat. lia.
Qed.

Lemma dr_len_of_eq r :
  dr_len_of r = 33 + zlen (ident r) + Z.of_nat (pad1 (zlen (ident r))) + zlen (sysuse r)
                + Z.of_nat (pad2 (zlen (ident r)) r).
Proof. unfold dr_len_of, pad1, pad2, fmt_dr_size. pose proof (zlen_nonneg (ident r)). lia. Qed.

Theorem dr_len_value r b : enc_dr r = Some b ->
  zlen b = dr_len_of r /\ nth 0 b 0 = dr_len_of r.
Proof.
  unfold enc_dr. intros H. split.
  - rewrite (enc_dr_raw_zlen _ _ _ _ H). symmetry. apply dr_len_of_eq.
  - rewrite enc_dr_raw_eq in H. destruct (dr_ranges_ok _ _ r); [|discriminate].
    apply some_inv in H; subst b. reflexivity.
Qed.


(* ---- directory record: round trip ---- *)
Definition wf_drec (r : drec) : Prop :=
  length (date r) = 7%nat /\
  (xattr_len r = 0 \/
   (flag_set (flags r) FILE_FLAG_RECORD_BIT = false /\
    flag_set (flags r) FILE_FLAG_PROTECTION_BIT = false)).

(* what parse sees of the system use area: record()'s trailing pad byte belongs to it *)
Definition pad_sysuse (r : drec) : drec :=
  mk_drec (xattr_len r) (extent r) (data_len r) (date r) (flags r) (unit_size r) (gap_size r)
          (seqnum r) (ident r) (sysuse r ++ repeat 0 (Z.to_nat (zlen (sysuse r) mod 2))).

Lemma pad2_sysuse r : pad2 (zlen (ident r)) r = Z.to_nat (zlen (sysuse r) mod 2).
Proof. unfold pad2, fmt_dr_size. f_equal. pose proof (zlen_nonneg (ident r)). lia. Qed.

Lemma firstn_app_exact {A} n (a b : list A) : length a = n -> firstn n (a ++ b) = a.
Proof. intros <-. apply firstn_length_app. Qed.
Lemma skipn_app_exact {A} n (a b : list A) : length a = n -> skipn n (a ++ b) = b.
Proof. intros <-. apply skipn_length_app. Qed.
Lemma skipn_app3 {A} n (a b c d : list A) :
  (length a + length b + length c = n)%nat -> skipn n (a ++ b ++ c ++ d) = d.
Proof.
  intros H. rewrite !app_assoc. apply skipn_app_exact. rewrite !app_length. exact H.
Qed.

Lemma dec_dr_whole b rest r :
  nth 0 b 0 = zlen b -> zlen b <> 0 -> parse_dr b = Some r -> dec_dr (b ++ rest) = Some (r, rest).
Proof.
  destruct b as [|x b']; [unfold zlen; cbn; lia|].
  cbn [nth]. intros Hx Hnz Hp. unfold dec_dr. cbn [app].
  change (x :: b' ++ rest) with ((x :: b') ++ rest).
  assert (E : Z.to_nat x = length (x :: b')) by (unfold zlen in Hx; lia).
  rewrite E, firstn_length_app, skipn_length_app, Hp.
  destruct (x =? 0) eqn:E0; [lia|reflexivity].
Qed.

Lemma dr_ranges r dl lf : dr_ranges_ok dl lf r = true ->
  byte dl /\ byte (xattr_len r) /\ u32 (extent r) /\ u32 (data_len r) /\ byte (flags r) /\
  byte (unit_size r) /\ byte (gap_size r) /\ u16 (seqnum r) /\ byte lf.
Proof. unfold dr_ranges_ok, u8_ok, u16_ok, u32_ok, byte, u16, u32. lia. Qed.

Lemma parse_dr_enc r b : wf_drec r -> enc_dr r = Some b -> parse_dr b = Some (pad_sysuse r).
Proof.
  intros [Hd Hx] He. destruct (dr_len_value r b He) as [Hlen _].
  unfold enc_dr in He. rewrite enc_dr_raw_eq in He.
  destruct (dr_ranges_ok (dr_len_of r) (zlen (ident r)) r) eqn:Hr; [|discriminate].
  apply some_inv in He. apply dr_ranges in Hr.
  destruct Hr as (Hdl & Hxa & Hex & Hdt & Hfl & Hus & Hgs & Hsq & Hlf).
  rewrite pad2_sysuse in He.
  unfold parse_dr.
  replace (255 <? zlen b) with false by (unfold byte in Hdl; lia).
  subst b.
  rewrite (firstn_app_exact 33) by apply dr_header_len.
  rewrite <- (dr_layout (dr_len_of r) (zlen (ident r)) r), split_concat_nil.
  set (hdr := concat (dr_fields (dr_len_of r) (zlen (ident r)) r)).
  assert (Hh : length hdr = 33%nat) by apply dr_header_len.
  unfold dr_fields. cbv beta iota zeta. unfold d8. cbn [nth].
  rewrite !le32_dle32 by (first [assumption | apply swab32_range]).
  rewrite !le16_dle16 by (first [assumption | apply swab16_range]).
  rewrite swab32_invol, swab16_invol, !Z.eqb_refl by assumption. cbn [negb].
  replace (negb (xattr_len r =? 0) &&
           (flag_set (flags r) FILE_FLAG_RECORD_BIT || flag_set (flags r) FILE_FLAG_PROTECTION_BIT))
    with false.
  2:{ destruct Hx as [Hx|[H3 H4]]; [rewrite Hx; reflexivity|rewrite H3, H4; cbn [orb]].
      symmetry; apply andb_false_r. }
  f_equal. unfold pad_sysuse. f_equal.
  - apply pack_s_exact; exact Hd.
  - change (Z.to_nat 33) with 33%nat. rewrite (skipn_app_exact 33) by exact Hh.
    rewrite to_nat_zlen. apply firstn_length_app.
  - apply skipn_app3. rewrite Hh, repeat_length. unfold pad1, fmt_dr_size, zlen.
    destruct (Z.of_nat (length (ident r)) mod 2 =? 0) eqn:E; lia.
Qed.

Theorem dr_roundtrip r : wf_drec r -> forall b rest, enc_dr r = Some b ->
  dec_dr (b ++ rest) = Some (pad_sysuse r, rest).
Proof.
  intros Hw b rest He. destruct (dr_len_value r b He) as [Hlen H0].
  apply dec_dr_whole; [congruence| |apply parse_dr_enc; assumption].
  rewrite Hlen, dr_len_of_eq. pose proof (zlen_nonneg (ident r)). pose proof (zlen_nonneg (sysuse r)). lia.
Qed.

(* precisely what is preserved *)
Corollary dr_roundtrip_fields r : wf_drec r -> forall b rest, enc_dr r = Some b ->
  exists r', dec_dr (b ++ rest) = Some (r', rest) /\
    xattr_len r' = xattr_len r /\ extent r' = extent r /\ data_len r' = data_len r /\
    date r' = date r /\ flags r' = flags r /\ unit_size r' = unit_size r /\
    gap_size r' = gap_size r /\ seqnum r' = seqnum r /\ ident r' = ident r /\
    sysuse r' = sysuse r ++ repeat 0 (Z.to_nat (zlen (sysuse r) mod 2)) /\
    (Z.even (zlen (sysuse r)) = true -> r' = r).
Proof.
  intros Hw b rest He. exists (pad_sysuse r). split; [apply dr_roundtrip; assumption|].
  repeat (split; [reflexivity|]).
  intros Hev. unfold pad_sysuse. replace (zlen (sysuse r) mod 2) with 0.
  - cbn [Z.to_nat repeat]. rewrite app_nil_r. destruct r; reflexivity.
  - rewrite Zmod_even, Hev. reflexivity.
Qed.

(* ---- directory record: length, domain, fixpoint ---- *)
Theorem dr_len_even r b : enc_dr r = Some b -> Z.even (zlen b) = true.
Proof.
  intros He. destruct (dr_len_value r b He) as [Hlen _]. rewrite Hlen.
  unfold dr_len_of. cbv zeta. apply Z.even_spec.
  match goal with |- Z.Even (?l + ?l mod 2) => exists ((l + l mod 2) / 2); lia end.
Qed.

(* 33 + len ident + pad + len sysuse, rounded up to even *)
Lemma dr_len_of_spec r :
  let l := 33 + zlen (ident r) + (if Z.even (zlen (ident r)) then 1 else 0) + zlen (sysuse r) in
  dr_len_of r = 2 * ((l + 1) / 2).
Proof.
  cbv zeta. unfold dr_len_of, fmt_dr_size. pose proof (Zmod_even (zlen (ident r))) as H.
  destruct (Z.even (zlen (ident r))); lia.
Qed.

(* the value computed by _new (no Rock Ridge; xa_len = 0 or XARecord.length() = 14) *)
Lemma dr_len_of_new r : Z.even (zlen (sysuse r)) = true ->
  dr_len_of r = new_dr_len (zlen (ident r)) (zlen (sysuse r)).
Proof.
  intros Hev. pose proof (Zmod_even (zlen (sysuse r))) as H. rewrite Hev in H.
  unfold dr_len_of, new_dr_len, fmt_dr_size. lia.
Qed.

Definition fields_ok (r : drec) : Prop :=
  byte (xattr_len r) /\ u32 (extent r) /\ u32 (data_len r) /\ byte (flags r) /\
  byte (unit_size r) /\ byte (gap_size r) /\ u16 (seqnum r).

Theorem dr_fits r : (exists b, enc_dr r = Some b) <-> (dr_len_of r <= 255 /\ fields_ok r).
Proof.
  unfold enc_dr, fields_ok. rewrite enc_dr_raw_eq.
  destruct (dr_ranges_ok (dr_len_of r) (zlen (ident r)) r) eqn:Hr; split.
  - intros _. apply dr_ranges in Hr. unfold byte in *. tauto.
  - intros _. eexists; reflexivity.
  - intros [b H]; discriminate.
  - intros [Hl Hf]. exfalso.
    assert (Hd : 0 <= zlen (ident r) <= dr_len_of r).
    { pose proof (zlen_nonneg (ident r)). pose proof (zlen_nonneg (sysuse r)).
      unfold dr_len_of, fmt_dr_size. lia. }
    unfold dr_ranges_ok, u8_ok, u16_ok, u32_ok in Hr. unfold byte, u16, u32 in Hf. lia.
Qed.

Lemma dr_len_of_pad r : dr_len_of (pad_sysuse r) = dr_len_of r.
Proof.
  unfold dr_len_of, pad_sysuse. cbn [ident sysuse]. rewrite zlen_app, zlen_repeat.
  unfold fmt_dr_size. pose proof (zlen_nonneg (sysuse r)). lia.
Qed.

Lemma enc_dr_pad_sysuse r b : enc_dr r = Some b -> enc_dr (pad_sysuse r) = Some b.
Proof.
  unfold enc_dr. rewrite !enc_dr_raw_eq, dr_len_of_pad.
  change (ident (pad_sysuse r)) with (ident r).
  change (dr_ranges_ok (dr_len_of r) (zlen (ident r)) (pad_sysuse r))
    with (dr_ranges_ok (dr_len_of r) (zlen (ident r)) r).
  destruct (dr_ranges_ok (dr_len_of r) (zlen (ident r)) r); [|discriminate].
  intros H; apply some_inv in H; subst b. f_equal.
  change (dr_fields (dr_len_of r) (zlen (ident r)) (pad_sysuse r))
    with (dr_fields (dr_len_of r) (zlen (ident r)) r).
  replace (pad2 (zlen (ident r)) (pad_sysuse r)) with 0%nat.
  - rewrite pad2_sysuse. cbn [pad_sysuse sysuse repeat]. rewrite app_nil_r. reflexivity.
  - unfold pad2, pad_sysuse. cbn [ident sysuse]. rewrite zlen_app, zlen_repeat.
    unfold fmt_dr_size. pose proof (zlen_nonneg (sysuse r)). lia.
Qed.

(* record(parse(record(r))) = record(r): the bytes record() produced, parsed as one whole
   directory record, are reproduced by record() *)
Theorem dr_record_parse_record r0 b r : wf_drec r0 -> enc_dr r0 = Some b ->
  dec_dr b = Some (r, []) -> enc_dr r = Some b.
Proof.
  intros Hw He Hd. rewrite <- (app_nil_r b) in Hd. rewrite (dr_roundtrip r0 Hw b [] He) in Hd.
  apply some_inv in Hd. injection Hd as <-. apply enc_dr_pad_sysuse; exact He.
Qed.

(* parse succeeds on everything record() produces for a well-formed record *)
Corollary dr_parse_total r b : wf_drec r -> enc_dr r = Some b -> exists r', dec_dr b = Some (r', []).
Proof.
  intros Hw He. exists (pad_sysuse r). rewrite <- (app_nil_r b) at 1. apply dr_roundtrip; assumption.
Qed.

Lemma bytes_repeat0 n : bytes (repeat 0 n).
Proof. induction n; constructor; [unfold byte; lia|assumption]. Qed.

Theorem enc_dr_bytes r b : length (date r) = 7%nat -> bytes (date r) -> bytes (ident r) ->
  bytes (sysuse r) -> enc_dr r = Some b -> bytes b.
Proof.
  intros Hd Hbd Hbi Hbs. unfold enc_dr. rewrite enc_dr_raw_eq.
  destruct (dr_ranges_ok (dr_len_of r) (zlen (ident r)) r) eqn:Hr; [|discriminate].
  apply dr_ranges in Hr. destruct Hr as (Hdl & Hxa & Hex & Hdt & Hfl & Hus & Hgs & Hsq & Hlf).
  intros H; apply some_inv in H; subst b. rewrite dr_header_both, pack_s_exact by exact Hd.
  unfold bytes in *.
  repeat (apply Forall_app; split);
    first [ apply le32_bytes | apply be32_bytes | apply le16_bytes | apply be16_bytes | apply bytes_repeat0 | assumption
          | repeat (apply Forall_cons; [assumption|]); apply Forall_nil ].
Qed.

(* ---- what the round trip needs, by counterexample ---- *)
(* without the xattr/flags side condition of wf_drec, parse rejects what record() wrote *)
Example dr_roundtrip_needs_flags :
  exists r, length (date r) = 7%nat /\ enc_dr r <> None /\
            forall b, enc_dr r = Some b -> dec_dr b = None.
Proof.
  exists (mk_drec 1 24 5 [126; 10; 1; 19; 25; 10; 0] 8 0 0 1 [70; 79; 79; 46; 59; 49] []).
  split; [reflexivity|]. split; [vm_compute; discriminate|].
  intros b H. vm_compute in H. apply some_inv in H. subst b. vm_compute. reflexivity.
Qed.
(* for arbitrary image bytes parse-then-record is NOT the identity: the big-endian copy of the data
   length is never checked by parse and is rewritten by record() *)
Example dr_parse_record_general_refuted :
  exists b r, dec_dr b = Some (r, []) /\ enc_dr r <> Some b.
Proof.
  exists [40; 0; 24; 0; 0; 0; 0; 0; 0; 24; 5; 0; 0; 0; 9; 9; 9; 9; 126; 10; 1; 19; 25; 10; 0; 0; 0; 0;
          1; 0; 0; 1; 6; 70; 79; 79; 46; 59; 49; 0].
  exists (mk_drec 0 24 5 [126; 10; 1; 19; 25; 10; 0] 0 0 0 1 [70; 79; 79; 46; 59; 49] []).
  split; [vm_compute; reflexivity|]. vm_compute. discriminate.
Qed.

(* ---- path table record ---- *)
Lemma ptr_layout ld xa e p : map (@length Z) (ptr_fields ld xa e p) = widths fmt_ptr_widths.
Proof. reflexivity. Qed.
Lemma ptr_header_len ld xa e p : length (concat (ptr_fields ld xa e p)) = Z.to_nat fmt_ptr_size.
Proof. reflexivity. Qed.

Theorem ptr_len_agrees_with_generated n : ptr_len n = ptr_record_length n.
Proof. reflexivity. Qed.

Lemma enc_ptr_raw_zlen id xa e p b :
  enc_ptr_raw (zlen id) xa e p id = Some b -> zlen b = ptr_len (zlen id).
Proof.
  unfold enc_ptr_raw. destruct (_ && _); [|discriminate].
  intros H; apply some_inv in H; subst b.
  rewrite !zlen_app, zlen_repeat. unfold ptr_len, fmt_ptr_size, zlen at 1.
  rewrite ptr_header_len. unfold fmt_ptr_size. pose proof (zlen_nonneg id). lia.
Qed.

Lemma dec_ptr_whole b rest r :
  ptr_len (nth 0 b 0) = zlen b -> parse_ptr b = Some r -> dec_ptr_le (b ++ rest) = Some (r, rest).
Proof.
  destruct b as [|x b']; [unfold ptr_len, fmt_ptr_size; cbn; lia|].
  cbn [nth]. intros Hx Hp. unfold dec_ptr_le. cbn [app].
  change (x :: b' ++ rest) with ((x :: b') ++ rest).
  assert (E : Z.to_nat (ptr_len x) = length (x :: b')) by (unfold zlen in Hx; lia).
  rewrite E, firstn_length_app, skipn_length_app, Hp. reflexivity.
Qed.

Lemma parse_ptr_enc id xa e p b :
  enc_ptr_raw (zlen id) xa e p id = Some b -> parse_ptr b = Some (mk_ptrec xa e p id).
Proof.
  unfold enc_ptr_raw.
  destruct (u8_ok (zlen id) && u8_ok xa && u32_ok e && u16_ok p) eqn:Hr; [|discriminate].
  assert (He : u32 e) by (unfold u8_ok, u16_ok, u32_ok in Hr; unfold u32; lia).
  assert (Hp : u16 p) by (unfold u8_ok, u16_ok, u32_ok in Hr; unfold u16; lia).
  intros H; apply some_inv in H; subst b. unfold parse_ptr.
  rewrite (firstn_app_exact 8) by reflexivity.
  rewrite <- (ptr_layout (zlen id) xa e p), split_concat_nil.
  rewrite (skipn_app_exact 8) by reflexivity.
  unfold ptr_fields. cbv beta iota zeta. unfold d8. cbn [nth].
  rewrite le32_dle32, le16_dle16 by assumption. f_equal. f_equal.
  destruct (zlen id mod 2 =? 0) eqn:E; cbn [negb].
  - replace (zlen id mod 2) with 0 by lia. cbn [Z.to_nat repeat]. apply app_nil_r.
  - replace (zlen id mod 2) with 1 by lia. change (repeat 0 (Z.to_nat 1)) with [0].
    apply removelast_last.
Qed.

Lemma ptr_raw_roundtrip id xa e p b rest :
  enc_ptr_raw (zlen id) xa e p id = Some b ->
  dec_ptr_le (b ++ rest) = Some (mk_ptrec xa e p id, rest).
Proof.
  intros H. apply dec_ptr_whole; [|apply parse_ptr_enc; exact H].
  rewrite (enc_ptr_raw_zlen _ _ _ _ _ H). f_equal.
  unfold enc_ptr_raw in H. destruct (_ && _); [|discriminate].
  apply some_inv in H; subst b. reflexivity.
Qed.

Theorem ptr_roundtrip_le r b rest :
  enc_ptr_le r = Some b -> dec_ptr_le (b ++ rest) = Some (r, rest).
Proof. destruct r as [xa e p id]. apply ptr_raw_roundtrip. Qed.

Theorem ptr_roundtrip_be r b rest :
  enc_ptr_be r = Some b -> dec_ptr_be (b ++ rest) = Some (r, rest).
Proof.
  destruct r as [xa e p id]. unfold enc_ptr_be. cbn [pt_xattr pt_extent pt_parent pt_dirid].
  destruct (u32_ok e && u16_ok p) eqn:Hr; [|discriminate]. intros H.
  unfold dec_ptr_be. rewrite (ptr_raw_roundtrip _ _ _ _ _ rest H).
  cbn [pt_xattr pt_extent pt_parent pt_dirid].
  rewrite swab32_invol, swab16_invol; [reflexivity| |]; unfold u16_ok, u32_ok in Hr;
    unfold u16, u32; lia.
Qed.

Theorem ptr_record_len r b : enc_ptr_le r = Some b -> zlen b = ptr_len (zlen (pt_dirid r)).
Proof. destruct r as [xa e p id]. apply enc_ptr_raw_zlen. Qed.
Theorem ptr_record_len_be r b : enc_ptr_be r = Some b -> zlen b = ptr_len (zlen (pt_dirid r)).
Proof.
  destruct r as [xa e p id]. unfold enc_ptr_be. destruct (_ && _); [|discriminate].
  apply enc_ptr_raw_zlen.
Qed.

(* pycdlib's "pack '<' the swabbed value" really writes the ISO9660 9.4 big-endian layout *)
Theorem enc_ptr_be_is_big_endian r b : enc_ptr_be r = Some b ->
  b = [zlen (pt_dirid r); pt_xattr r] ++ be32 (pt_extent r) ++ be16 (pt_parent r) ++ pt_dirid r
      ++ repeat 0 (Z.to_nat (zlen (pt_dirid r) mod 2)).
Proof.
  unfold enc_ptr_be, enc_ptr_raw. destruct (_ && _); [|discriminate].
  destruct (_ && _); [|discriminate]. intros H; apply some_inv in H; subst b.
  cbn [ptr_fields concat]. rewrite le32_swab32, le16_swab16, <- !app_assoc. reflexivity.
Qed.
Theorem enc_ptr_le_is_little_endian r b : enc_ptr_le r = Some b ->
  b = [zlen (pt_dirid r); pt_xattr r] ++ le32 (pt_extent r) ++ le16 (pt_parent r) ++ pt_dirid r
      ++ repeat 0 (Z.to_nat (zlen (pt_dirid r) mod 2)).
Proof.
  unfold enc_ptr_le, enc_ptr_raw. destruct (_ && _); [|discriminate].
  intros H; apply some_inv in H; subst b.
  cbn [ptr_fields concat]. rewrite <- !app_assoc. reflexivity.
Qed.

Theorem ptr_le_be_same_content r bl bb :
  enc_ptr_le r = Some bl -> enc_ptr_be r = Some bb ->
  dec_ptr_le bl = Some (r, []) /\ dec_ptr_be bb = Some (r, []).
Proof.
  intros Hl Hb. rewrite <- (app_nil_r bl), <- (app_nil_r bb).
  split; [apply ptr_roundtrip_le|apply ptr_roundtrip_be]; assumption.
Qed.

(* both tables can be written for exactly the same records *)
Theorem ptr_le_be_same_domain r :
  (exists bl, enc_ptr_le r = Some bl) <-> (exists bb, enc_ptr_be r = Some bb).
Proof.
  destruct r as [xa e p id]. unfold enc_ptr_le, enc_ptr_be, enc_ptr_raw.
  cbn [pt_xattr pt_extent pt_parent pt_dirid].
  pose proof (swab32_range e) as H32. pose proof (swab16_range p) as H16. unfold u32, u16 in *.
  destruct (u8_ok (zlen id) && u8_ok xa && u32_ok e && u16_ok p) eqn:E1;
  destruct (u32_ok e && u16_ok p) eqn:E2;
  destruct (u8_ok (zlen id) && u8_ok xa && u32_ok (swab32 e) && u16_ok (swab16 p)) eqn:E3;
  unfold u8_ok, u16_ok, u32_ok in *;
  (split; intros [b Hb]; first [discriminate | eexists; reflexivity | exfalso; lia]).
Qed.

(* ---- non-vacuity: concrete bytes obtained from the Python ---------------------------------- *)
(* PyCdlib().new(); add_fp(b'hello', 5, '/FOO.;1'); write; get_record('/FOO.;1').record() *)
Definition foo_rec : drec :=
  mk_drec 0 24 5 [126; 10; 1; 19; 25; 10; 0] 0 0 0 1 [70; 79; 79; 46; 59; 49] [].
Definition foo_bytes : list Z :=
  [40; 0; 24; 0; 0; 0; 0; 0; 0; 24; 5; 0; 0; 0; 0; 0; 0; 5; 126; 10; 1; 19; 25; 10; 0; 0; 0; 0;
   1; 0; 0; 1; 6; 70; 79; 79; 46; 59; 49; 0].

Example foo_wf : wf_drec foo_rec.
Proof. split; [reflexivity|left; reflexivity]. Qed.
Example foo_encodes : enc_dr foo_rec = Some foo_bytes /\ length foo_bytes = 40%nat.
Proof. split; vm_compute; reflexivity. Qed.
Example foo_decodes : dec_dr (foo_bytes ++ [34; 0]) = Some (foo_rec, [34; 0]).
Proof. vm_compute. reflexivity. Qed.
Example foo_check :
  check_dr_case (0, 24, 5, [126; 10; 1; 19; 25; 10; 0], 0, 0, 0, 1, [70; 79; 79; 46; 59; 49], [])
                foo_bytes = true /\ check_dr_dec_case foo_bytes = true.
Proof. split; vm_compute; reflexivity. Qed.
(* the checker does detect a wrong byte, and a field struct.pack rejects maps to [] *)
Example bad_dr_cases_detects :
  bad_dr_cases 0
    [ ((0, 24, 5, [126; 10; 1; 19; 25; 10; 0], 0, 0, 0, 1, [70; 79; 79; 46; 59; 49], []), foo_bytes);
      ((0, 25, 5, [126; 10; 1; 19; 25; 10; 0], 0, 0, 0, 1, [70; 79; 79; 46; 59; 49], []), foo_bytes);
      ((0, 4294967296, 5, [126; 10; 1; 19; 25; 10; 0], 0, 0, 0, 1, [70], []), []) ] = [1%nat].
Proof. vm_compute. reflexivity. Qed.
(* an odd-length identifier and an odd-length system use: no identifier pad, one trailing pad *)
Example odd_sysuse_roundtrip :
  let r := mk_drec 0 30 2048 [126; 10; 1; 19; 25; 10; 252] 2 0 0 1 [65; 66; 67] [80; 88; 5] in
  exists b, enc_dr r = Some b /\ length b = 40%nat /\
            dec_dr b = Some (mk_drec 0 30 2048 [126; 10; 1; 19; 25; 10; 252] 2 0 0 1 [65; 66; 67]
                                     [80; 88; 5; 0], []).
Proof. eexists. split; [vm_compute; reflexivity|]. split; vm_compute; reflexivity. Qed.

(* add_directory('/DIR1'): ptr.record_little_endian() / record_big_endian() *)
Definition dir1_ptr : ptrec := mk_ptrec 0 25 1 [68; 73; 82; 49].
Example dir1_encodes :
  enc_ptr_le dir1_ptr = Some [4; 0; 25; 0; 0; 0; 1; 0; 68; 73; 82; 49] /\
  enc_ptr_be dir1_ptr = Some [4; 0; 0; 0; 0; 25; 0; 1; 68; 73; 82; 49].
Proof. split; vm_compute; reflexivity. Qed.
Example dir1_decodes :
  dec_ptr_le [4; 0; 25; 0; 0; 0; 1; 0; 68; 73; 82; 49; 7] = Some (dir1_ptr, [7]) /\
  dec_ptr_be [4; 0; 0; 0; 0; 25; 0; 1; 68; 73; 82; 49; 7] = Some (dir1_ptr, [7]).
Proof. split; vm_compute; reflexivity. Qed.
Example odd_ptr : enc_ptr_le (mk_ptrec 0 24 1 [65; 66; 67]) = Some [3; 0; 24; 0; 0; 0; 1; 0; 65; 66; 67; 0]
  /\ dec_ptr_le [3; 0; 24; 0; 0; 0; 1; 0; 65; 66; 67; 0] = Some (mk_ptrec 0 24 1 [65; 66; 67], []).
Proof. split; vm_compute; reflexivity. Qed.
Example ptr_check :
  bad_ptr_cases 0 [ ((0, 25, 1, [68; 73; 82; 49]), [4; 0; 25; 0; 0; 0; 1; 0; 68; 73; 82; 49],
                                                     [4; 0; 0; 0; 0; 25; 0; 1; 68; 73; 82; 49]);
                    ((0, 25, 1, [68; 73; 82; 49]), [4; 0; 25; 0; 0; 0; 1; 0; 68; 73; 82; 49],
                                                     [4; 0; 25; 0; 0; 0; 1; 0; 68; 73; 82; 49]) ]
  = [1%nat].
Proof. vm_compute. reflexivity. Qed.
Example date_example : enc_date7_year 2026 10 1 19 25 10 (-4) = Some [126; 10; 1; 19; 25; 10; 252]
  /\ dec_date7 [126; 10; 1; 19; 25; 10; 252] = Some (126, 10, 1, 19, 25, 10, -4).
Proof. split; vm_compute; reflexivity. Qed.

Print Assumptions dr_roundtrip.
Print Assumptions dr_roundtrip_fields.
Print Assumptions dr_len_even.
Print Assumptions dr_len_value.
Print Assumptions dr_fits.
Print Assumptions dr_record_parse_record.
Print Assumptions enc_dr_bytes.
Print Assumptions ptr_roundtrip_le.
Print Assumptions ptr_roundtrip_be.
Print Assumptions ptr_le_be_same_content.
Print Assumptions ptr_le_be_same_domain.
Print Assumptions ptr_len_agrees_with_generated.
Print Assumptions date7_roundtrip.
Print Assumptions date7_reencode.
Print Assumptions both32_copies_agree.
